/-
  C13 — deep_equal is canonical-form equivalence; its variants relax it as documented.
  Property theorems only (helper lemmas and the specification-side definitions `stripCommentsPis`,
  `Canon.relPos`, `AttrPerm`, `DeclEdit`, `attrViewsNodup`, `canonStr`: `XotModel/Lemmas/Compare*.lean`).

  `Tree.valid` is the structural hypothesis: at every node the children come as namespaces,
  attributes, normal nodes; attribute names are unique per node; attribute / namespace nodes
  are leaves.  A name id stands for the expanded name (interning is one-to-one, C08).
-/
import XotModel.Lemmas.CompareCanon
import XotModel.Lemmas.CompareVariants
import XotModel.Lemmas.CompareRel
import XotModel.Lemmas.CompareShallow
import XotModel.Lemmas.CompareText
import XotModel.Lemmas.CompareStrip
import XotModel.Lemmas.CompareSorted
import XotModel.Lemmas.CompareDeep
import XotModel.Lemmas.CompareTextContent
import XotModel.Lemmas.CompareAllTrees
import XotModel.Lemmas.CompareNames
import XotModel.Lemmas.CompareCustom
import XotModel.Lemmas.ReachCompare
import XotModel.Lemmas.ReachHist
import XotModel.Props.C04

namespace XotModel.Props
open XotModel

/-! ### deep_equal ⇔ equal canonical forms -/

/-- For every pair of nodes of structurally valid trees — documents, elements, text, comments, PIs,
    and also attribute nodes (canonical form: name, value) and namespace nodes (prefix,
    namespace) — `deep_equal` holds exactly when the canonical forms are equal. -/
theorem C13_iff (a b : Tree) (va : a.valid = true) (vb : b.valid = true) :
    deepEqual a b = true ↔ canon a = canon b := deepEqual_iff_canon a b va vb

/-- Attribute nodes are compared by name and value (the defect of DESIGN.md §8 row 15, "always
    true", fixed in /repo by a361fb0). -/
theorem C13_attribute_nodes (n m : Nat) (v w : Str) :
    deepEqual (.node (.attribute n v) []) (.node (.attribute m w) []) = true ↔ n = m ∧ v = w := by
  rw [C13_iff _ _ (by simp [Tree.valid, orderedKids, attrNamesNodup, attrPairs, Tree.valid.validList])
    (by simp [Tree.valid, orderedKids, attrNamesNodup, attrPairs, Tree.valid.validList])]
  simp [canon, cvalue, canon.canonList]

/-- Namespace nodes are compared by prefix and namespace. -/
theorem C13_namespace_nodes (p q n m : Nat) :
    deepEqual (.node (.namespace p n) []) (.node (.namespace q m) []) = true ↔ p = q ∧ n = m := by
  rw [C13_iff _ _ (by simp [Tree.valid, orderedKids, attrNamesNodup, attrPairs, Tree.valid.validList])
    (by simp [Tree.valid, orderedKids, attrNamesNodup, attrPairs, Tree.valid.validList])]
  simp [canon, cvalue, canon.canonList]

/-! ### Equivalence relation (every node kind) -/

theorem C13_reflexive (a : Tree) (va : a.valid = true) : deepEqual a a = true :=
  (C13_iff a a va va).mpr rfl

theorem C13_symmetric (a b : Tree) (va : a.valid = true) (vb : b.valid = true) :
    deepEqual a b = deepEqual b a := by
  have h1 := C13_iff a b va vb
  have h2 := C13_iff b a vb va
  cases hab : deepEqual a b <;> cases hba : deepEqual b a <;> simp_all

theorem C13_transitive (a b c : Tree) (va : a.valid = true) (vb : b.valid = true) (vc : c.valid = true)
    (hab : deepEqual a b = true) (hbc : deepEqual b c = true) : deepEqual a c = true :=
  (C13_iff a c va vc).mpr (((C13_iff a b va vb).mp hab).trans ((C13_iff b c vb vc).mp hbc))

/-! ### The filtered / custom comparison -/

/-- `advanced_deep_equal(a, b, filter, cmp)` on two normal nodes, for all trees, filters and
    comparisons, is structural equality (`compareValue cmp` node by node) of the forests of kept
    nodes, children of dropped nodes hoisted in place (`proj`). -/
theorem C13_advanced (f : NodeFilter) (cmp : TextCmp) (a b : Tree)
    (na : a.value.isNormal = true) (nb : b.value.isNormal = true) :
    advancedDeepEqual f cmp a b = forestEqv cmp (proj f a) (proj f b) := advancedDeepEqual_eq f cmp a b na nb

/-- As soon as one node is an attribute / namespace node the two nodes are compared by value,
    whatever the filter. -/
theorem C13_advanced_abnormal (f : NodeFilter) (cmp : TextCmp) (a b : Tree)
    (h : ¬ a.value.isNormal = true ∨ ¬ b.value.isNormal = true) :
    advancedDeepEqual f cmp a b = compareValue cmp a b := advancedDeepEqual_abnormal f cmp a b h

/-- With no filter and any text comparison, any two nodes of valid trees: the canonical forms are
    related up to `cmp` (`Canon.rel`: same kinds and names, attribute maps of the same size with
    `cmp`-related values name by name, `cmp` on text and PI data, children pairwise). -/
theorem C13_advanced_all (cmp : TextCmp) (a b : Tree) (va : a.valid = true) (vb : b.valid = true) :
    advancedDeepEqual (fun _ => true) cmp a b = Canon.rel cmp (canon a) (canon b) :=
  advancedDeepEqual_all_rel cmp a b va vb

/-! ### What deep_equal does not see: prefixes, declarations, attribute order -/

/-- Namespace nodes (declarations, hence also the prefixes they bind) are invisible: two trees
    that agree after erasing every namespace node are `deep_equal`. -/
theorem C13_ignores_declarations (a b : Tree) (va : a.valid = true) (vb : b.valid = true)
    (h : cmpStripNs a = cmpStripNs b) : deepEqual a b = true :=
  (C13_iff a b va vb).mpr (by rw [← canon_stripNs a, ← canon_stripNs b, h])

/-- Prefix only: rebinding the prefix of a declaration anywhere changes nothing. (Names carry no
    prefix in xot: a prefix lives only in a namespace node.) -/
theorem C13_ignores_prefix (v : Value) (pre rest : List Tree) (p q ns : Nat)
    (va : (Tree.node v (pre ++ .node (.namespace p ns) [] :: rest)).valid = true)
    (vb : (Tree.node v (pre ++ .node (.namespace q ns) [] :: rest)).valid = true) :
    deepEqual (.node v (pre ++ .node (.namespace p ns) [] :: rest))
              (.node v (pre ++ .node (.namespace q ns) [] :: rest)) = true := by
  refine C13_ignores_declarations _ _ va vb ?_
  have h : ∀ (l : List Tree) (x : Nat), stripNsList (l ++ .node (.namespace x ns) [] :: rest) = stripNsList (l ++ rest) := by
    intro l x
    induction l with
    | nil => simp [stripNsList, Tree.value, Value.category]
    | cons k ks ih => simp only [List.cons_append, stripNsList, ih]
  simp only [cmpStripNs, h]

/-- Attribute order only: permuting the attribute nodes of the compared node changes nothing
    (at any depth the canonical form holds the attributes sorted by name: `canon`). -/
theorem C13_ignores_attribute_order (v : Value) (pre A A' rest : List Tree) (p : A.Perm A')
    (hA : ∀ k ∈ A, ¬ k.value.isNormal = true)
    (va : (Tree.node v (pre ++ A ++ rest)).valid = true) (vb : (Tree.node v (pre ++ A' ++ rest)).valid = true) :
    deepEqual (.node v (pre ++ A ++ rest)) (.node v (pre ++ A' ++ rest)) = true :=
  (C13_iff _ _ va vb).mpr (canon_attr_perm v pre A A' rest p hA (valid_node va).2.1)

/-! ### deep_equal_xpath -/

/-- On two elements or two documents `deep_equal_xpath` relates, up to the supplied comparison,
    the canonical forms of the trees with comments and PIs (everything but elements and text)
    discarded below the compared nodes.  `validRootFor xpathKeep`: well-ordered children, unique
    attribute names, and the discarded nodes and attribute / namespace nodes are leaves. -/
theorem C13_xpath (cmp : TextCmp) (a b : Tree) (va : a.validRootFor xpathKeep = true)
    (vb : b.validRootFor xpathKeep = true)
    (h : (a.value.isElement = true ∧ b.value.isElement = true) ∨ (a.value = .document ∧ b.value = .document)) :
    deepEqualXpath cmp a b = Canon.rel cmp (canon (discard xpathKeep a)) (canon (discard xpathKeep b)) := by
  rcases h with ⟨ea, eb⟩ | ⟨da, db⟩
  · have : deepEqualXpath cmp a b = advancedDeepEqual xpathFilter cmp a b := by
      cases a with | node v ks => cases b with | node w js =>
        cases v <;> cases w <;> simp_all [deepEqualXpath, Tree.value, Value.isElement]
    rw [this]; exact xpath_elements_rel cmp a b va vb ea eb
  · have : deepEqualXpath cmp a b = advancedDeepEqual xpathFilter cmp a b := by
      simp [deepEqualXpath, da, db]
    rw [this]; exact xpath_documents_rel cmp a b va vb da db

/-- Any other pair of nodes (a comment, a PI, a text, an attribute, mixed kinds …): the two nodes
    themselves are compared, with `cmp` on text, attribute value and PI data. -/
theorem C13_xpath_other (cmp : TextCmp) (a b : Tree)
    (oa : orderedKids a.kids = true) (ob : orderedKids b.kids = true) (nb : attrNamesNodup b.kids = true)
    (h : ¬ ((a.value.isElement = true ∧ b.value.isElement = true) ∨ (a.value = .document ∧ b.value = .document))) :
    deepEqualXpath cmp a b = CValue.rel cmp (canon a).value (canon b).value := by
  have : deepEqualXpath cmp a b = compareValue cmp a b := by
    cases a with | node v ks => cases b with | node w js =>
      cases v <;> cases w <;> simp_all [deepEqualXpath, Tree.value, Value.isElement]
  rw [this, compareValue_eq_rel oa ob nb]
  cases a; cases b; rfl

/-! ### deep_equal_children -/

/-- `deep_equal_children` compares the child sequences only. -/
theorem C13_children (a b : Tree) (va : a.valid = true) (vb : b.valid = true) :
    deepEqualChildren a b = true ↔ (canon a).kids = (canon b).kids := deepEqualChildren_iff a b va vb

/-! ### shallow_equal, shallow_equal_ignore_attributes -/

/-- `shallow_equal_ignore_attributes` compares the node itself and its attributes except the
    listed names — for every ignore list, with repeated and absent names (the miscount of DESIGN.md
    §8 row 15 was fixed in /repo by 3b5a0f1). Only the compared nodes' own children have to be well
    ordered with unique attribute names; `a`'s attribute list must have machine size (its counter
    is a `usize`). -/
theorem C13_shallow_ignore (a b : Tree) (ign : List Nat)
    (oa : orderedKids a.kids = true) (ob : orderedKids b.kids = true)
    (na : attrNamesNodup a.kids = true) (nb : attrNamesNodup b.kids = true)
    (la : a.attrLen < usizeModulus) :
    shallowEqualIgnoreAttributes a b ign = true ↔
      cvalueIgnoring ign a.value a.kids = cvalueIgnoring ign b.value b.kids :=
  shallowEqualIgnore_iff a b ign oa ob na nb la

/-- `shallow_equal` compares the node itself and its attributes (any two nodes, attribute and
    namespace nodes included). -/
theorem C13_shallow (a b : Tree)
    (oa : orderedKids a.kids = true) (ob : orderedKids b.kids = true)
    (na : attrNamesNodup a.kids = true) (nb : attrNamesNodup b.kids = true)
    (la : a.attrLen < usizeModulus) :
    shallowEqual a b = true ↔ (canon a).value = (canon b).value := by
  have h := shallowEqualIgnore_iff a b [] oa ob na nb la
  rw [cvalueIgnoring_nil, cvalueIgnoring_nil] at h
  cases a; cases b; exact h

/-! ### string_value -/

/-- `string_value` of a document or element is the concatenation of its descendant text in
    document order (`Canon.text` of the canonical form). `contentLeaves`: text, comment and PI
    nodes have no children. -/
theorem C13_string_value (env : Env) (t : Tree) (hv : t.valid = true) (hl : t.contentLeaves = true)
    (h : t.value = .document ∨ ∃ n, t.value = .element n) :
    stringValue env t = (canon t).text := by
  have hn : t.value.isNormal = true := by
    rcases h with h | ⟨n, h⟩ <;> simp [h, Value.isNormal, Value.category]
  have hs := textSpec t hv hl
  rw [hn] at hs
  simp only [↓reduceIte] at hs
  rw [← hs, ← descendantsToString_eq]
  rcases h with h | ⟨n, h⟩ <;> simp [stringValue, h]

/-- … and of any other node its own content. -/
theorem C13_string_value_other (env : Env) (ks : List Tree) (s : Str) (n p ns : Nat) (d : Option Str) :
    stringValue env (.node (.text s) ks) = s ∧ stringValue env (.node (.comment s) ks) = s ∧
    stringValue env (.node (.pi n d) ks) = d.getD [] ∧ stringValue env (.node (.attribute n s) ks) = s ∧
    stringValue env (.node (.namespace p ns) ks) = env.namespaceStr ns :=
  ⟨rfl, rfl, rfl, rfl, rfl⟩

/-! ### Non-vacuity -/

/-- Non-vacuity: a valid pair of elements differing in prefixes, declarations and attribute order. -/
example :
    deepEqual (.node (.element 6) [.node (.namespace 2 2) [], .node (.attribute 3 ['v']) [], .node (.attribute 4 []) [],
                                   .node (.text ['x']) []])
              (.node (.element 6) [.node (.attribute 4 []) [], .node (.attribute 3 ['v']) [], .node (.text ['x']) []]) = true :=
  (C13_iff _ _ (by decide) (by decide)).mpr rfl


/-- `C13_ignores_prefix` / `C13_ignores_attribute_order` / `C13_children`: the hypotheses hold of
    concrete trees. -/
example : deepEqual (.node (.element 2) [.node (.namespace 2 2) [], .node (.text ['x']) []])
    (.node (.element 2) [.node (.namespace 3 2) [], .node (.text ['x']) []]) = true :=
  C13_ignores_prefix (.element 2) [] [.node (.text ['x']) []] 2 3 2 (by decide) (by decide)

example : deepEqual (.node (.element 2) [.node (.attribute 3 ['v']) [], .node (.attribute 4 []) [], .node (.text ['x']) []])
    (.node (.element 2) [.node (.attribute 4 []) [], .node (.attribute 3 ['v']) [], .node (.text ['x']) []]) = true :=
  C13_ignores_attribute_order (.element 2) [] [.node (.attribute 3 ['v']) [], .node (.attribute 4 []) []]
    [.node (.attribute 4 []) [], .node (.attribute 3 ['v']) []] [.node (.text ['x']) []]
    (List.Perm.swap _ _ _) (by decide) (by decide) (by decide)

example : deepEqualChildren (.node (.element 2) [.node (.attribute 3 ['v']) [], .node (.text ['x']) []])
    (.node .document [.node (.text ['x']) []]) = true :=
  (C13_children _ _ (by decide) (by decide)).mpr rfl

/-- `C13_xpath`: two valid elements that differ in a comment and in the case of a text. -/
example : Tree.validRootFor xpathKeep
    (.node (.element 2) [.node (.attribute 3 ['v']) [], .node (.comment ['c']) [], .node (.text ['x']) []]) = true := by
  decide

/-- `C13_shallow_ignore`: an ignore list with a repeated and an absent name; the formerly
    failing input `<a/>` vs `<a b="v"/>` ignoring `[b, b]`. -/
example : shallowEqualIgnoreAttributes (.node (.element 2) [.node (.attribute 3 ['v']) []])
    (.node (.element 2) [.node (.attribute 4 ['w']) [], .node (.attribute 3 ['v']) []]) [4, 17, 4] = true :=
  (C13_shallow_ignore _ _ _ (by decide) (by decide) (by decide) (by decide) (by decide)).mpr rfl

example : shallowEqualIgnoreAttributes (.node (.element 2) []) (.node (.element 2) [.node (.attribute 3 ['v']) []])
    [3, 3] = true :=
  (C13_shallow_ignore _ _ _ (by decide) (by decide) (by decide) (by decide) (by decide)).mpr rfl

/-- `C13_iff` on attribute nodes: the formerly failing input. -/
example : deepEqual (.node (.attribute 3 ['v']) []) (.node (.attribute 4 ['w']) []) = false := by
  have := C13_attribute_nodes 3 4 ['v'] ['w']
  cases h : deepEqual (.node (.attribute 3 ['v']) []) (.node (.attribute 4 ['w']) [])
  · rfl
  · exact absurd (this.mp h).1 (by decide)

/-- `C13_string_value` on a valid element with nested text, a comment and an attribute. -/
example : stringValue {} (.node (.element 2) [.node (.attribute 3 ['v']) [], .node (.text ['x']) [],
    .node (.element 3) [.node (.text ['y']) []], .node (.comment ['c']) []]) = ['x', 'y'] :=
  (C13_string_value {} _ (by decide) (by decide) (Or.inr ⟨2, rfl⟩)).trans rfl

/-! ### deep_equal_xpath = the plain comparison of the trees without comments and PIs -/

/-- Deleting every comment and PI (with whatever hangs under it) from a structurally valid tree
    gives a structurally valid tree. -/
theorem C13_stripped_valid (a : Tree) (va : a.valid = true) : a.stripCommentsPis.valid = true :=
  valid_stripCommentsPis a va

/-- `deep_equal_xpath(a, b, cmp)` on element/element or document/document IS
    `advanced_deep_equal(strip a, strip b, |_| true, cmp)`: the unfiltered comparison, with the
    supplied text comparison, of the trees with every comment and PI below the compared nodes
    deleted.  Nothing is merged: where a comment separated two text nodes the stripped tree has two
    adjacent text nodes, and they are compared as two nodes (see `C13_xpath_no_text_merge`).
    Hypotheses: children well ordered, attribute names unique, comments / PIs / attribute /
    namespace nodes are leaves (`validRootFor xpathKeep`); no document node below the root. -/
theorem C13_xpath_stripped_cmp (cmp : TextCmp) (a b : Tree) (va : a.validRootFor xpathKeep = true)
    (vb : b.validRootFor xpathKeep = true) (da : a.noInnerDocument = true) (db : b.noInnerDocument = true)
    (h : (a.value.isElement = true ∧ b.value.isElement = true) ∨ (a.value = .document ∧ b.value = .document)) :
    deepEqualXpath cmp a b = advancedDeepEqual (fun _ => true) cmp a.stripCommentsPis b.stripCommentsPis := by
  have : deepEqualXpath cmp a b = advancedDeepEqual xpathFilter cmp a b := by
    rcases h with ⟨ea, eb⟩ | ⟨da', db'⟩
    · cases a with | node v ks => cases b with | node w js =>
        cases v <;> cases w <;> simp_all [deepEqualXpath, Tree.value, Value.isElement]
    · simp [deepEqualXpath, da', db']
  rw [this, strip_eq_discard a da, strip_eq_discard b db]
  exact xpath_eq_advanced_discard cmp a b va vb h

/-- With `==` as the text comparison, on structurally valid trees whose text / comment / PI nodes
    are leaves and that hold no document node below the root:
    `deep_equal_xpath(a, b, ==) = deep_equal(strip a, strip b)`, "the same relation after
    discarding comments and PIs below the compared nodes" (and `strip a`, `strip b` are valid). -/
theorem C13_xpath_stripped (a b : Tree) (va : a.valid = true) (vb : b.valid = true)
    (la : a.contentLeaves = true) (lb : b.contentLeaves = true)
    (da : a.noInnerDocument = true) (db : b.noInnerDocument = true)
    (h : (a.value.isElement = true ∧ b.value.isElement = true) ∨ (a.value = .document ∧ b.value = .document)) :
    deepEqualXpath strEq a b = deepEqual a.stripCommentsPis b.stripCommentsPis :=
  C13_xpath_stripped_cmp strEq a b (validRootFor_xpathKeep_of_valid a va la da)
    (validRootFor_xpathKeep_of_valid b vb lb db) da db h

/-- "Discarding" deletes nodes and merges nothing.  `<e>x<!--c-->y</e>` against `<e>xy</e>`:
    `deep_equal_xpath` is false (the stripped tree has the two text children `x`, `y`), although
    the string values agree and although removing the comment through `Xot::remove` (which
    consolidates adjacent text) yields a tree `deep_equal` to `<e>xy</e>`.  Observed on /repo
    (same answers).  This is XPath F&O 3.1 fn:deep-equal ("the presence of a comment … if it
    causes a text node to be split into two text nodes, may affect the result"). -/
theorem C13_xpath_no_text_merge :
    let a := Tree.node (.element 2) [.node (.text ['x']) [], .node (.comment ['c']) [], .node (.text ['y']) []]
    let b := Tree.node (.element 2) [.node (.text ['x', 'y']) []]
    deepEqualXpath strEq a b = false ∧
    a.stripCommentsPis = .node (.element 2) [.node (.text ['x']) [], .node (.text ['y']) []] ∧
    deepEqual a.stripCommentsPis b = false ∧ stringValue {} a = stringValue {} b := by
  intro a b
  exact ⟨by decide, rfl, by decide, by decide⟩

/-- `C13_xpath_stripped`: hypotheses satisfiable, both outcomes occur. -/
example : deepEqualXpath strEq
    (.node (.element 2) [.node (.attribute 3 ['v']) [], .node (.comment ['c']) [], .node (.text ['x']) []])
    (.node (.element 2) [.node (.attribute 3 ['v']) [], .node (.text ['x']) [], .node (.pi 4 none) []]) = true := by
  rw [C13_xpath_stripped _ _ (by decide) (by decide) (by decide) (by decide) (by decide) (by decide) (Or.inl ⟨rfl, rfl⟩)]
  decide

example : (Tree.node (.element 2) [.node (.attribute 3 ['v']) [], .node (.comment ['c']) [], .node (.text ['x']) []]
    ).stripCommentsPis.valid = true :=
  C13_stripped_valid _ (by decide)

/-! ### The canonical form is a sorted normal form -/

/-- In the canonical form of a valid tree every element's attribute list is strictly sorted by
    name (`Canon.sorted`), and on such forms the finite-map relation `Canon.rel` (attribute maps:
    same size + lookup) IS the plain simultaneous walk `Canon.relPos` comparing the attribute lists
    position by position; so is `advanced_deep_equal` without filter, for every comparison. -/
theorem C13_canon_sorted (cmp : TextCmp) (a b : Tree) (va : a.valid = true) (vb : b.valid = true) :
    (canon a).sorted ∧ Canon.rel cmp (canon a) (canon b) = Canon.relPos cmp (canon a) (canon b) ∧
    advancedDeepEqual (fun _ => true) cmp a b = Canon.relPos cmp (canon a) (canon b) := by
  have h := Canon.rel_eq_relPos cmp _ _ (canon_sorted a va) (canon_sorted b vb)
  exact ⟨canon_sorted a va, h, (C13_advanced_all cmp a b va vb).trans h⟩

/-- With `==` the position-wise walk is literally equality of the normal forms (all forms). -/
theorem C13_canon_sorted_eq (x y : Canon) : Canon.relPos strEq x y = true ↔ x = y :=
  Canon.relPos_strEq_iff x y

/-- The underlying fact on attribute lists: strictly sorted by name ⇒ "same size and every entry
    of the first found in the second with a related value" = position-wise comparison. -/
theorem C13_attrs_sorted (cmp : TextCmp) (a b : List (Nat × Str)) (ha : strictSorted a) (hb : strictSorted b) :
    attrsRel cmp a b = attrsRelPos cmp a b := attrsRel_eq_attrsRelPos cmp ha hb

example : Canon.relPos strEq
    (canon (.node (.element 6) [.node (.attribute 4 []) [], .node (.attribute 3 ['v']) []]))
    (canon (.node (.element 6) [.node (.attribute 3 ['v']) [], .node (.attribute 4 []) []])) = true := by
  rw [← (C13_canon_sorted strEq _ _ (by decide) (by decide)).2.2]; decide

/-! ### Attribute order and declarations, at every depth -/

/-- `a'` = `a` with the attribute children of any set of nodes (at any depth) permuted: still
    structurally valid, same canonical form, `deep_equal`. -/
theorem C13_ignores_attribute_order_deep (a a' : Tree) (h : AttrPerm a a') (va : a.valid = true) :
    a'.valid = true ∧ canon a = canon a' ∧ deepEqual a a' = true :=
  ⟨(h.spec va).2, (h.spec va).1, (C13_iff a a' va (h.spec va).2).mpr (h.spec va).1⟩

/-- `a'` = `a` after namespace nodes were added, removed or replaced anywhere, any number of
    times (`DeclEdit`): `deep_equal` (both trees valid: a declaration may not be put after an
    attribute). -/
theorem C13_ignores_declarations_deep (a a' : Tree) (h : DeclEdit a a') (va : a.valid = true)
    (va' : a'.valid = true) : deepEqual a a' = true :=
  C13_ignores_declarations a a' va va' h.stripNs_eq

/-- Non-vacuity: attributes swapped one level down, a declaration added one level down. -/
example : deepEqual
    (.node .document [.node (.element 2) [.node (.attribute 3 ['v']) [], .node (.attribute 4 []) [], .node (.text ['x']) []]])
    (.node .document [.node (.element 2) [.node (.attribute 4 []) [], .node (.attribute 3 ['v']) [], .node (.text ['x']) []]])
    = true :=
  (C13_ignores_attribute_order_deep _ _
    (.node .document [] [] [] []
      [.node (.element 2) [.node (.attribute 3 ['v']) [], .node (.attribute 4 []) [], .node (.text ['x']) []]]
      [.node (.element 2) [.node (.attribute 4 []) [], .node (.attribute 3 ['v']) [], .node (.text ['x']) []]]
      .nil (fun _ h => nomatch h) (.refl _)
      (.cons (.node (.element 2) [] [] [.node (.attribute 3 ['v']) [], .node (.attribute 4 []) []]
          [.node (.attribute 4 []) [], .node (.attribute 3 ['v']) []] [.node (.text ['x']) []] [.node (.text ['x']) []]
          .nil (by decide) (.swap _ _ _) (AttrPermList.refl _)) .nil))
    (by decide)).2.2

example : deepEqual (.node .document [.node (.element 2) [.node (.text ['x']) []]])
    (.node .document [.node (.element 2) [.node (.namespace 2 2) [], .node (.text ['x']) []]]) = true :=
  C13_ignores_declarations_deep _ _
    (.child .document [] [] _ _ (.add (.element 2) [] [.node (.text ['x']) []] (.node (.namespace 2 2) []) rfl))
    (by decide) (by decide)

/-! ### text_content, text_content_str -/

/-- `text_content_str` (for any node whose children are well ordered): `Some("")` without
    children, the text of an only child that is a text node, `None` otherwise; `text_content`
    likewise but `None` without children. -/
theorem C13_text_content (v : Value) (ks : List Tree) (ho : orderedKids ks = true) :
    textContentStr (.node v ks) = (match (Tree.node v ks).normalKids with
      | [] => some []
      | [c] => c.textStr
      | _ => none) ∧
    textContent (.node v ks) = (match (Tree.node v ks).normalKids with
      | [c] => c.textStr
      | _ => none) :=
  ⟨textContentStr_of_normalKids (normalKids_normal ho), textContent_of_normalKids (normalKids_normal ho)⟩

/-- On the canonical form (valid tree, text / comment / PI nodes are leaves): `Some(s)` exactly
    when there is no child and `s` is empty, or the only child is the text node `s`. -/
theorem C13_text_content_canon (t : Tree) (hv : t.valid = true) (hl : t.contentLeaves = true) (s : Str) :
    (textContentStr t = some s ↔ ((canon t).kids = [] ∧ s = []) ∨ (canon t).kids = [.node (.text s) []]) ∧
    (textContent t = some s ↔ (canon t).kids = [.node (.text s) []]) :=
  ⟨textContentStr_iff_canon t hv hl s, textContent_iff_canon t hv hl s⟩

/-- Relation to `string_value`: when `text_content_str` of a document or element answers, it
    answers the string value (the converse fails: `<a><b>x</b></a>` has string value `x`). -/
theorem C13_text_content_string_value (env : Env) (t : Tree) (hv : t.valid = true) (hl : t.contentLeaves = true)
    (h : t.value = .document ∨ ∃ n, t.value = .element n) (s : Str) (hs : textContentStr t = some s) :
    stringValue env t = s := by
  rw [C13_string_value env t hv hl h]
  obtain ⟨v, ks⟩ := t
  have hk := (textContentStr_iff_canon _ hv hl s).mp hs
  simp only [canon, Canon.kids] at hk
  have hval : cvalue v ks = .document ∨ ∃ n a, cvalue v ks = .element n a := by
    rcases h with h | ⟨n, h⟩ <;> simp only [Tree.value] at h <;> subst h
    · exact Or.inl rfl
    · exact Or.inr ⟨_, _, rfl⟩
  rcases hk with ⟨hk, rfl⟩ | hk <;> rcases hval with hc | ⟨n, a, hc⟩ <;>
    simp [canon, hk, hc, Canon.text, Canon.text.textList]

example : textContentStr (.node (.element 2) [.node (.attribute 3 ['v']) []]) = some [] ∧
    textContentStr (.node (.element 2) [.node (.attribute 3 ['v']) [], .node (.text ['x']) []]) = some ['x'] ∧
    textContentStr (.node (.element 2) [.node (.text ['x']) [], .node (.comment []) []]) = none ∧
    textContentStr (.node (.element 2) [.node (.element 3) [.node (.text ['x']) []]]) = none ∧
    stringValue {} (.node (.element 2) [.node (.element 3) [.node (.text ['x']) []]]) = ['x'] := by decide

example : stringValue {} (.node (.element 2) [.node (.attribute 3 ['v']) [], .node (.text ['x']) []]) = ['x'] :=
  C13_text_content_string_value {} _ (by decide) (by decide) (Or.inr ⟨2, rfl⟩) _ (by decide)

/-! ### deep_equal on arbitrary (possibly ill-formed) trees -/

/-- Without any hypothesis on the trees (children in any order, children below attribute /
    namespace nodes, repeated attribute names): `deep_equal` is transitive; it is reflexive and
    symmetric as soon as no node's attribute view repeats a name (`attrViewsNodup`, implied by
    `valid`). -/
theorem C13_equiv_all_trees :
    (∀ a b c : Tree, deepEqual a b = true → deepEqual b c = true → deepEqual a c = true) ∧
    (∀ a : Tree, a.attrViewsNodup = true → deepEqual a a = true) ∧
    (∀ a b : Tree, a.attrViewsNodup = true → b.attrViewsNodup = true → deepEqual a b = deepEqual b a) ∧
    (∀ a : Tree, a.valid = true → a.attrViewsNodup = true) :=
  ⟨deepEqual_trans_all, deepEqual_refl_all, deepEqual_symm_all, attrViewsNodup_of_valid⟩

/-- The hypothesis cannot be dropped: with a repeated attribute name (`<e n3="v" n3="w"/>`, which
    no parse or `attributes_mut` insertion produces) `deep_equal(a, a)` is false, and
    `deep_equal(<e n3="x" n3="x"/>, <e n3="x" n4="y"/>)` is true one way and false the other. -/
theorem C13_equiv_all_trees_needs_unique_names :
    ¬ (∀ a : Tree, deepEqual a a = true) ∧ ¬ (∀ a b : Tree, deepEqual a b = deepEqual b a) := by
  refine ⟨fun h => ?_, fun h => ?_⟩
  · exact absurd (h (.node (.element 2) [.node (.attribute 3 ['v']) [], .node (.attribute 3 ['w']) []])) (by decide)
  · exact absurd (h (.node (.element 2) [.node (.attribute 3 ['x']) [], .node (.attribute 3 ['x']) []])
      (.node (.element 2) [.node (.attribute 3 ['x']) [], .node (.attribute 4 ['y']) []])) (by decide)

/-- Non-vacuity: an ill-ordered tree (attribute after text, child under an attribute node) that is
    not `valid` but satisfies `attrViewsNodup`. -/
example : (Tree.node (.element 2) [.node (.text ['x']) [], .node (.attribute 3 ['v']) [.node (.comment []) []]]).valid = false ∧
    deepEqual (.node (.element 2) [.node (.text ['x']) [], .node (.attribute 3 ['v']) [.node (.comment []) []]])
      (.node (.element 2) [.node (.text ['x']) [], .node (.attribute 3 ['v']) [.node (.comment []) []]]) = true :=
  ⟨by decide, C13_equiv_all_trees.2.1 _ (by decide)⟩

/-! ### Expanded names as strings (tie to C08) -/

/-- With the interning tables duplicate-free (the C08 invariant `Env.DupFree`; `Env.dupFree_of_inv`
    derives it from `Interner.Inv`) and all ids of the two trees ids of this `Xot`: `deep_equal`
    holds exactly when the canonical forms with every name resolved to its (namespace URI, local
    name) strings are equal. -/
theorem C13_expanded_names (e : Env) (hd : e.DupFree) (a b : Tree) (va : a.valid = true) (vb : b.valid = true)
    (ia : a.idsIn e = true) (ib : b.idsIn e = true) :
    deepEqual a b = true ↔ canonStr e a = canonStr e b :=
  (C13_iff a b va vb).trans (canon_eq_iff_canonStr_eq hd ia ib)

/-- Names alone: ids in range are equal exactly when the expanded names are. -/
theorem C13_expanded_name_ids (e : Env) (hd : e.DupFree) (n m : Nat) (hn : n < e.names.length)
    (hm : m < e.names.length) : n = m ↔ e.expanded n = e.expanded m :=
  ⟨fun h => h ▸ rfl, Env.expanded_inj hd hn hm⟩

/-- Non-vacuity (`envEx`: a duplicate-free table with the local name `a` in two namespaces).
    Same local name `a`, attributes in either order: equal over strings; the same local name in
    another namespace (`{u}a`): different. -/
example : deepEqual (.node (.element 1) [.node (.attribute 2 ['v']) [], .node (.attribute 0 []) []])
    (.node (.element 1) [.node (.attribute 0 []) [], .node (.attribute 2 ['v']) []]) = true :=
  (C13_expanded_names envEx envEx_dupFree _ _ (by decide) (by decide) (by decide) (by decide)).mpr rfl

example : envEx.expanded 0 = ([], ['a']) ∧ envEx.expanded 1 = (['u'], ['a']) ∧
    ¬ canonStr envEx (.node (.element 0) []) = canonStr envEx (.node (.element 1) []) := by
  refine ⟨rfl, rfl, fun h => ?_⟩
  have := (C13_expanded_names envEx envEx_dupFree (.node (.element 0) []) (.node (.element 1) [])
    (by decide) (by decide) (by decide) (by decide)).mpr h
  exact absurd this (by decide)

end XotModel.Props

/-! # ================================================================================================
    # REACHABLE TREES (branch wt-reach): the structural hypothesis `Tree.valid` is a theorem
    # ================================================================================================

  `Tree.valid` (children ordered, attribute names unique, attribute / namespace nodes are leaves),
  `contentLeaves` (text, comment and PI nodes are leaves), `noInnerDocument`, `validRootFor xpathKeep` are
  hypotheses of the theorems above.  Every tree the public API can build satisfies them at every node:
  every forest reachable from the empty store by an extended history (`Store.xrun` over
  `Forest.XCall`, Model/FhistSpec.lean; arbitrary arguments, every outcome) has the invariant
  `Forest.Inv` (`C04_reach_ext` = `Reach.inv_reachable`), and every node of the erasure of every
  parentless tree of such a forest satisfies them (Lemmas/ReachNode.lean, ReachCompare.lean).  The
  headline theorems restated with NO structural hypothesis; the two compared nodes are ANY two nodes of
  the store (of one tree or of two: `r₁`, `r₂` range over all parentless trees, `p₁`, `p₂` over all
  paths), of every kind, attribute and namespace nodes included.  The only side condition left is
  `XCall.wellKinded` (a map insertion given as DATA carries an entry of the map's kind). -/

namespace XotModel.Props
open XotModel

/-- ⟦C13_reachable_valid⟧ Every node of every parentless tree of every reachable forest satisfies the
    structural hypotheses of this file. -/
theorem C13_reachable_valid (env : Env) (cs : List Forest.XCall) (hw : ∀ c ∈ cs, c.wellKinded) :
    ∀ r ∈ ((⟨Forest.init, env⟩ : Store).xrun cs).forest.roots, ∀ (p : Path) (a : Tree),
      r.erase.at? p = some a →
      a.valid = true ∧ a.contentLeaves = true ∧ a.noInnerDocument = true ∧
        a.validRootFor xpathKeep = true ∧ orderedKids a.kids = true ∧ attrNamesNodup a.kids = true :=
  fun _ hr _ _ ha => Reach.compare_hyps_root (Reach.inv_reachable env cs hw) hr ha

/-- ⟦C13_reachable_iff⟧ **`deep_equal` is canonical-form equivalence between any two nodes of reachable
    trees**: for every extended history, any two parentless trees `r₁`, `r₂` of the store (the same or
    not) and any two nodes `a`, `b` of them, `deep_equal(a, b)` holds exactly when the canonical forms
    are equal. -/
theorem C13_reachable_iff (env : Env) (cs : List Forest.XCall) (hw : ∀ c ∈ cs, c.wellKinded) :
    ∀ r₁ ∈ ((⟨Forest.init, env⟩ : Store).xrun cs).forest.roots,
    ∀ r₂ ∈ ((⟨Forest.init, env⟩ : Store).xrun cs).forest.roots,
    ∀ (p₁ p₂ : Path) (a b : Tree), r₁.erase.at? p₁ = some a → r₂.erase.at? p₂ = some b →
      (deepEqual a b = true ↔ canon a = canon b) :=
  fun r₁ h₁ r₂ h₂ p₁ p₂ a b ha hb =>
    C13_iff a b (C13_reachable_valid env cs hw r₁ h₁ p₁ a ha).1 (C13_reachable_valid env cs hw r₂ h₂ p₂ b hb).1

/-- ⟦C13_reachable_equivalence⟧ … hence an equivalence relation on the nodes of a reachable store, of
    every kind: reflexive, symmetric, transitive. -/
theorem C13_reachable_equivalence (env : Env) (cs : List Forest.XCall) (hw : ∀ c ∈ cs, c.wellKinded) :
    (∀ r ∈ ((⟨Forest.init, env⟩ : Store).xrun cs).forest.roots, ∀ (p : Path) (a : Tree),
      r.erase.at? p = some a → deepEqual a a = true) ∧
    (∀ r₁ ∈ ((⟨Forest.init, env⟩ : Store).xrun cs).forest.roots,
     ∀ r₂ ∈ ((⟨Forest.init, env⟩ : Store).xrun cs).forest.roots,
     ∀ (p₁ p₂ : Path) (a b : Tree), r₁.erase.at? p₁ = some a → r₂.erase.at? p₂ = some b →
      deepEqual a b = deepEqual b a) ∧
    (∀ r₁ ∈ ((⟨Forest.init, env⟩ : Store).xrun cs).forest.roots,
     ∀ r₂ ∈ ((⟨Forest.init, env⟩ : Store).xrun cs).forest.roots,
     ∀ r₃ ∈ ((⟨Forest.init, env⟩ : Store).xrun cs).forest.roots,
     ∀ (p₁ p₂ p₃ : Path) (a b c : Tree), r₁.erase.at? p₁ = some a → r₂.erase.at? p₂ = some b →
      r₃.erase.at? p₃ = some c → deepEqual a b = true → deepEqual b c = true → deepEqual a c = true) :=
  ⟨fun r h p a ha => C13_reflexive a (C13_reachable_valid env cs hw r h p a ha).1,
   fun r₁ h₁ r₂ h₂ p₁ p₂ a b ha hb =>
     C13_symmetric a b (C13_reachable_valid env cs hw r₁ h₁ p₁ a ha).1 (C13_reachable_valid env cs hw r₂ h₂ p₂ b hb).1,
   fun r₁ h₁ r₂ h₂ r₃ h₃ p₁ p₂ p₃ a b c ha hb hc =>
     C13_transitive a b c (C13_reachable_valid env cs hw r₁ h₁ p₁ a ha).1
       (C13_reachable_valid env cs hw r₂ h₂ p₂ b hb).1 (C13_reachable_valid env cs hw r₃ h₃ p₃ c hc).1⟩

/-- ⟦C13_reachable_variants⟧ **The variants, between any two nodes of reachable trees**: with any text
    comparison the unfiltered `advanced_deep_equal` relates the canonical forms up to `cmp`;
    `deep_equal_children` compares the canonical child sequences; `deep_equal_xpath` on two elements
    or two documents is, with `==`, `deep_equal` of the trees with comments and PIs deleted (nothing
    merged), and with any comparison the unfiltered comparison of those stripped trees. -/
theorem C13_reachable_variants (env : Env) (cs : List Forest.XCall) (hw : ∀ c ∈ cs, c.wellKinded) :
    ∀ r₁ ∈ ((⟨Forest.init, env⟩ : Store).xrun cs).forest.roots,
    ∀ r₂ ∈ ((⟨Forest.init, env⟩ : Store).xrun cs).forest.roots,
    ∀ (p₁ p₂ : Path) (a b : Tree), r₁.erase.at? p₁ = some a → r₂.erase.at? p₂ = some b →
      (∀ cmp : TextCmp, advancedDeepEqual (fun _ => true) cmp a b = Canon.rel cmp (canon a) (canon b)) ∧
      (deepEqualChildren a b = true ↔ (canon a).kids = (canon b).kids) ∧
      (((a.value.isElement = true ∧ b.value.isElement = true) ∨ (a.value = .document ∧ b.value = .document)) →
        deepEqualXpath strEq a b = deepEqual a.stripCommentsPis b.stripCommentsPis ∧
        ∀ cmp : TextCmp, deepEqualXpath cmp a b =
          advancedDeepEqual (fun _ => true) cmp a.stripCommentsPis b.stripCommentsPis) := by
  intro r₁ h₁ r₂ h₂ p₁ p₂ a b ha hb
  obtain ⟨va, la, da, xa, _, _⟩ := C13_reachable_valid env cs hw r₁ h₁ p₁ a ha
  obtain ⟨vb, lb, db, xb, _, _⟩ := C13_reachable_valid env cs hw r₂ h₂ p₂ b hb
  exact ⟨fun cmp => C13_advanced_all cmp a b va vb, C13_children a b va vb,
    fun h => ⟨C13_xpath_stripped a b va vb la lb da db h,
      fun cmp => C13_xpath_stripped_cmp cmp a b xa xb da db h⟩⟩

/-- ⟦C13_reachable_string_value⟧ `string_value` of every document or element node of a reachable tree is
    the concatenated text of its canonical form; `text_content_str`, when it answers, answers it. -/
theorem C13_reachable_string_value (env : Env) (cs : List Forest.XCall) (hw : ∀ c ∈ cs, c.wellKinded) :
    ∀ r ∈ ((⟨Forest.init, env⟩ : Store).xrun cs).forest.roots, ∀ (p : Path) (a : Tree),
      r.erase.at? p = some a → (a.value = .document ∨ ∃ n, a.value = .element n) →
      ∀ env' : Env, stringValue env' a = (canon a).text ∧
        ∀ s, textContentStr a = some s → stringValue env' a = s := by
  intro r hr p a ha hk env'
  obtain ⟨va, la, _⟩ := C13_reachable_valid env cs hw r hr p a ha
  exact ⟨C13_string_value env' a va la hk, fun s hs => C13_text_content_string_value env' a va la hk s hs⟩

/-! ### Non-vacuity: the history of Props/C04 (`Reach.exCalls`), after its first 10 steps

  Two trees: `<e xmlns:p=".." xmlns:n0=".."><e>x</e></e>` (`Reach.exRootA`) and the clone made by
  `clone_with_prefixes`, `<e xmlns:n0="..">x</e>` (`Reach.exRootB`).  The inner element of the first (path
  `[2]`) and the clone differ in a declaration only: `deep_equal`, by `C13_reachable_iff`; the outer
  element and the clone are not (so their canonical forms differ). -/

example : ∀ c ∈ Reach.exCalls.take 10, c.wellKinded := Reach.exCalls_take_wellKinded 10
example : Reach.exRootA.erase.at? [2] = some (.node (.element 1) [.node (.text ['x']) []]) ∧
    Reach.exRootB.erase.at? [] = some (.node (.element 1) [.node (.namespace 3 3) [], .node (.text ['x']) []]) := by
  decide
example : deepEqual (.node (.element 1) [.node (.text ['x']) []])
    (.node (.element 1) [.node (.namespace 3 3) [], .node (.text ['x']) []]) = true :=
  (C13_reachable_iff Reach.exEnv (Reach.exCalls.take 10) (Reach.exCalls_take_wellKinded 10)
    Reach.exRootA Reach.exRootA_mem Reach.exRootB Reach.exRootB_mem [2] [] _ _ (by decide) (by decide)).mpr rfl
example : canon Reach.exRootA.erase ≠ canon Reach.exRootB.erase := fun h =>
  absurd ((C13_reachable_iff Reach.exEnv (Reach.exCalls.take 10) (Reach.exCalls_take_wellKinded 10)
    Reach.exRootA Reach.exRootA_mem Reach.exRootB Reach.exRootB_mem [] [] _ _ rfl rfl).mpr h) (by decide)
example : stringValue {} Reach.exRootA.erase = ['x'] :=
  ((C13_reachable_string_value Reach.exEnv (Reach.exCalls.take 10) (Reach.exCalls_take_wellKinded 10)
    Reach.exRootA Reach.exRootA_mem [] _ rfl (Or.inr ⟨1, rfl⟩) {}).1).trans (by decide)

end XotModel.Props

/-! # ================================================================================================
    # REACHABLE TREES, histories that PARSE and edit (branch wt-reachfull)
    # ================================================================================================

  The restatements above quantify over extended API histories (`Forest.XCall` on a `Store`).  Model/FparseHist.lean
  has the history type with BOTH kinds of step — `PCall` = an extended API call, or `parse mode text` of an
  ARBITRARY text (reference tokenizer + builder on the tables of the store; an accepted tree is installed,
  a rejected one leaves forest and index alone) — on `PStore`; Props/C04.lean proves the invariant for every
  such history from `Xot::new()` (`C04_reach_full`), and `Reach.compare_hyps_root` needs the invariant only.
  The same restatements over them: the two compared nodes are ANY two nodes of the store — of a parsed
  document (edited or not), of a tree built by hand, of one tree or of two. -/

namespace XotModel.Props
open XotModel

/-- ⟦C13_reachable_valid_full⟧ Every node of every parentless tree of every store a full history reaches —
    parsed documents, whatever was done to them afterwards, included — satisfies the structural hypotheses
    of this file. -/
theorem C13_reachable_valid_full (env : Env) (cs : List PCall) (hw : ∀ c ∈ cs, c.wellKinded) :
    ∀ r ∈ ((PStore.init env).run cs).forest.roots, ∀ (p : Path) (a : Tree),
      r.erase.at? p = some a →
      a.valid = true ∧ a.contentLeaves = true ∧ a.noInnerDocument = true ∧
        a.validRootFor xpathKeep = true ∧ orderedKids a.kids = true ∧ attrNamesNodup a.kids = true :=
  fun _ hr _ _ ha => Reach.compare_hyps_root (C04_reach_full env cs hw).1 hr ha

/-- ⟦C13_reachable_iff_full⟧ **`deep_equal` is canonical-form equivalence between any two nodes of a store
    reached by parses and API calls** (a node of a parsed document against a node of a tree built by hand,
    …): the statement of `C13_reachable_iff`. -/
theorem C13_reachable_iff_full (env : Env) (cs : List PCall) (hw : ∀ c ∈ cs, c.wellKinded) :
    ∀ r₁ ∈ ((PStore.init env).run cs).forest.roots,
    ∀ r₂ ∈ ((PStore.init env).run cs).forest.roots,
    ∀ (p₁ p₂ : Path) (a b : Tree), r₁.erase.at? p₁ = some a → r₂.erase.at? p₂ = some b →
      (deepEqual a b = true ↔ canon a = canon b) :=
  fun r₁ h₁ r₂ h₂ p₁ p₂ a b ha hb =>
    C13_iff a b (C13_reachable_valid_full env cs hw r₁ h₁ p₁ a ha).1 (C13_reachable_valid_full env cs hw r₂ h₂ p₂ b hb).1

/-- ⟦C13_reachable_equivalence_full⟧ … hence an equivalence relation on the nodes of such a store. -/
theorem C13_reachable_equivalence_full (env : Env) (cs : List PCall) (hw : ∀ c ∈ cs, c.wellKinded) :
    (∀ r ∈ ((PStore.init env).run cs).forest.roots, ∀ (p : Path) (a : Tree),
      r.erase.at? p = some a → deepEqual a a = true) ∧
    (∀ r₁ ∈ ((PStore.init env).run cs).forest.roots,
     ∀ r₂ ∈ ((PStore.init env).run cs).forest.roots,
     ∀ (p₁ p₂ : Path) (a b : Tree), r₁.erase.at? p₁ = some a → r₂.erase.at? p₂ = some b →
      deepEqual a b = deepEqual b a) ∧
    (∀ r₁ ∈ ((PStore.init env).run cs).forest.roots,
     ∀ r₂ ∈ ((PStore.init env).run cs).forest.roots,
     ∀ r₃ ∈ ((PStore.init env).run cs).forest.roots,
     ∀ (p₁ p₂ p₃ : Path) (a b c : Tree), r₁.erase.at? p₁ = some a → r₂.erase.at? p₂ = some b →
      r₃.erase.at? p₃ = some c → deepEqual a b = true → deepEqual b c = true → deepEqual a c = true) :=
  ⟨fun r h p a ha => C13_reflexive a (C13_reachable_valid_full env cs hw r h p a ha).1,
   fun r₁ h₁ r₂ h₂ p₁ p₂ a b ha hb =>
     C13_symmetric a b (C13_reachable_valid_full env cs hw r₁ h₁ p₁ a ha).1
       (C13_reachable_valid_full env cs hw r₂ h₂ p₂ b hb).1,
   fun r₁ h₁ r₂ h₂ r₃ h₃ p₁ p₂ p₃ a b c ha hb hc =>
     C13_transitive a b c (C13_reachable_valid_full env cs hw r₁ h₁ p₁ a ha).1
       (C13_reachable_valid_full env cs hw r₂ h₂ p₂ b hb).1 (C13_reachable_valid_full env cs hw r₃ h₃ p₃ c hc).1⟩

/-- ⟦C13_reachable_variants_full⟧ The variants (`advanced_deep_equal` unfiltered, `deep_equal_children`,
    `deep_equal_xpath`) between any two nodes of such a store: the statement of `C13_reachable_variants`. -/
theorem C13_reachable_variants_full (env : Env) (cs : List PCall) (hw : ∀ c ∈ cs, c.wellKinded) :
    ∀ r₁ ∈ ((PStore.init env).run cs).forest.roots,
    ∀ r₂ ∈ ((PStore.init env).run cs).forest.roots,
    ∀ (p₁ p₂ : Path) (a b : Tree), r₁.erase.at? p₁ = some a → r₂.erase.at? p₂ = some b →
      (∀ cmp : TextCmp, advancedDeepEqual (fun _ => true) cmp a b = Canon.rel cmp (canon a) (canon b)) ∧
      (deepEqualChildren a b = true ↔ (canon a).kids = (canon b).kids) ∧
      (((a.value.isElement = true ∧ b.value.isElement = true) ∨ (a.value = .document ∧ b.value = .document)) →
        deepEqualXpath strEq a b = deepEqual a.stripCommentsPis b.stripCommentsPis ∧
        ∀ cmp : TextCmp, deepEqualXpath cmp a b =
          advancedDeepEqual (fun _ => true) cmp a.stripCommentsPis b.stripCommentsPis) := by
  intro r₁ h₁ r₂ h₂ p₁ p₂ a b ha hb
  obtain ⟨va, la, da, xa, _, _⟩ := C13_reachable_valid_full env cs hw r₁ h₁ p₁ a ha
  obtain ⟨vb, lb, db, xb, _, _⟩ := C13_reachable_valid_full env cs hw r₂ h₂ p₂ b hb
  exact ⟨fun cmp => C13_advanced_all cmp a b va vb, C13_children a b va vb,
    fun h => ⟨C13_xpath_stripped a b va vb la lb da db h,
      fun cmp => C13_xpath_stripped_cmp cmp a b xa xb da db h⟩⟩

/-- ⟦C13_reachable_string_value_full⟧ `string_value` of every document or element node of such a store: the
    statement of `C13_reachable_string_value`. -/
theorem C13_reachable_string_value_full (env : Env) (cs : List PCall) (hw : ∀ c ∈ cs, c.wellKinded) :
    ∀ r ∈ ((PStore.init env).run cs).forest.roots, ∀ (p : Path) (a : Tree),
      r.erase.at? p = some a → (a.value = .document ∨ ∃ n, a.value = .element n) →
      ∀ env' : Env, stringValue env' a = (canon a).text ∧
        ∀ s, textContentStr a = some s → stringValue env' a = s := by
  intro r hr p a ha hk env'
  obtain ⟨va, la, _⟩ := C13_reachable_valid_full env cs hw r hr p a ha
  exact ⟨C13_string_value env' a va la hk, fun s hs => C13_text_content_string_value env' a va la hk s hs⟩

/-- ⟦C13_reachable_shallow_ignore_full⟧ `shallow_equal_ignore_attributes` between any two nodes of a store reached
    by parses and API calls, for EVERY ignore list: equality of the canonical values with the listed names
    removed — `C13_shallow_ignore` with its four structural hypotheses discharged by the history.  What remains
    is the machine-size hypothesis (the counter of the Rust loop is a `usize`): the first node has fewer than
    2^64 attributes, which no history of fewer than 2^64 calls can violate but which is not a structural fact. -/
theorem C13_reachable_shallow_ignore_full (env : Env) (cs : List PCall) (hw : ∀ c ∈ cs, c.wellKinded) :
    ∀ r₁ ∈ ((PStore.init env).run cs).forest.roots,
    ∀ r₂ ∈ ((PStore.init env).run cs).forest.roots,
    ∀ (p₁ p₂ : Path) (a b : Tree), r₁.erase.at? p₁ = some a → r₂.erase.at? p₂ = some b →
      a.attrLen < usizeModulus → ∀ ign : List Nat,
      (shallowEqualIgnoreAttributes a b ign = true ↔
        cvalueIgnoring ign a.value a.kids = cvalueIgnoring ign b.value b.kids) := by
  intro r₁ h₁ r₂ h₂ p₁ p₂ a b ha hb la ign
  obtain ⟨_, _, _, _, oa, na⟩ := C13_reachable_valid_full env cs hw r₁ h₁ p₁ a ha
  obtain ⟨_, _, _, _, ob, nb⟩ := C13_reachable_valid_full env cs hw r₂ h₂ p₂ b hb
  exact C13_shallow_ignore a b ign oa ob na nb la

/-- ⟦C13_reachable_shallow_full⟧ `shallow_equal` between any two nodes of such a store (any kinds, attribute and
    namespace nodes included): equality of the canonical VALUES (kind, name, the attribute map; nothing about
    children) — `C13_shallow` with the structural hypotheses discharged. -/
theorem C13_reachable_shallow_full (env : Env) (cs : List PCall) (hw : ∀ c ∈ cs, c.wellKinded) :
    ∀ r₁ ∈ ((PStore.init env).run cs).forest.roots,
    ∀ r₂ ∈ ((PStore.init env).run cs).forest.roots,
    ∀ (p₁ p₂ : Path) (a b : Tree), r₁.erase.at? p₁ = some a → r₂.erase.at? p₂ = some b →
      a.attrLen < usizeModulus →
      (shallowEqual a b = true ↔ (canon a).value = (canon b).value) := by
  intro r₁ h₁ r₂ h₂ p₁ p₂ a b ha hb la
  obtain ⟨_, _, _, _, oa, na⟩ := C13_reachable_valid_full env cs hw r₁ h₁ p₁ a ha
  obtain ⟨_, _, _, _, ob, nb⟩ := C13_reachable_valid_full env cs hw r₂ h₂ p₂ b hb
  exact C13_shallow a b oa ob na nb la

/-! ### Non-vacuity: parse, edit, ask (from the tables of `Xot::new()`, `Env.fresh`)

  PARSE `fullText` of Props/C04.lean, `<r xmlns:p="urn:a"><p:a>t</p:a></r>` (handles 0..4), then build by hand
  a second tree: `new_element({urn:a}a)` (5), `new_text("t")` (6), `append`, `namespaces_mut(5).insert(p, urn:a)`
  (7).  The PARSED inner element (path `[0, 1]` of the document) and the HAND-BUILT element differ in a
  declaration only: `deep_equal`, by `C13_reachable_iff_full`; the document and the element are not (their
  canonical forms differ); `string_value` of the parsed document is `t`. -/

def c13FullCalls : List PCall :=
  [.parse .document fullText, .api (.newNode (.element 3)), .api (.newNode (.text ['t'])),
   .api (.call (.append 5 6)), .api (.call (.mapInsert .namespaces 5 (.namespace 2 2)))]
def c13FullRootA : HTree :=
  .node 0 .document [.node 1 (.element 2) [.node 2 (.namespace 2 2) [],
    .node 3 (.element 3) [.node 4 (.text ['t']) []]]]
def c13FullRootB : HTree :=
  .node 5 (.element 3) [.node 7 (.namespace 2 2) [], .node 6 (.text ['t']) []]
theorem c13FullCalls_wellKinded : ∀ c ∈ c13FullCalls, c.wellKinded := by decide
theorem c13FullRoots : ((PStore.init Env.fresh).run c13FullCalls).forest.roots = [c13FullRootA, c13FullRootB] := by
  decide +kernel
theorem c13FullRootA_mem : c13FullRootA ∈ ((PStore.init Env.fresh).run c13FullCalls).forest.roots := by
  rw [c13FullRoots]; exact List.mem_cons_self
theorem c13FullRootB_mem : c13FullRootB ∈ ((PStore.init Env.fresh).run c13FullCalls).forest.roots := by
  rw [c13FullRoots]; exact List.mem_cons_of_mem _ List.mem_cons_self

example : c13FullRootA.erase.at? [0, 1] = some (.node (.element 3) [.node (.text ['t']) []]) ∧
    c13FullRootB.erase.at? [] = some (.node (.element 3) [.node (.namespace 2 2) [], .node (.text ['t']) []]) := by
  decide
example : deepEqual (.node (.element 3) [.node (.text ['t']) []])
    (.node (.element 3) [.node (.namespace 2 2) [], .node (.text ['t']) []]) = true :=
  (C13_reachable_iff_full Env.fresh c13FullCalls c13FullCalls_wellKinded
    c13FullRootA c13FullRootA_mem c13FullRootB c13FullRootB_mem [0, 1] [] _ _ (by decide) (by decide)).mpr rfl
example : canon c13FullRootA.erase ≠ canon c13FullRootB.erase := fun h =>
  absurd ((C13_reachable_iff_full Env.fresh c13FullCalls c13FullCalls_wellKinded
    c13FullRootA c13FullRootA_mem c13FullRootB c13FullRootB_mem [] [] _ _ rfl rfl).mpr h) (by decide)
example : stringValue {} c13FullRootA.erase = ['t'] :=
  ((C13_reachable_string_value_full Env.fresh c13FullCalls c13FullCalls_wellKinded
    c13FullRootA c13FullRootA_mem [] _ rfl (Or.inl rfl) {}).1).trans (by decide)
/-- The parsed inner element and the hand-built element (one more declaration) are `shallow_equal`, by
    `C13_reachable_shallow_full`. -/
example : shallowEqual (.node (.element 3) [.node (.text ['t']) []])
    (.node (.element 3) [.node (.namespace 2 2) [], .node (.text ['t']) []]) = true :=
  (C13_reachable_shallow_full Env.fresh c13FullCalls c13FullCalls_wellKinded
    c13FullRootA c13FullRootA_mem c13FullRootB c13FullRootB_mem [0, 1] [] _ _ (by decide) (by decide)
    (by decide)).mpr (by decide)

end XotModel.Props

/-! # ================================================================================================
    # CUSTOM TEXT COMPARISONS (branch wt-c13small)
    # ================================================================================================

  `advanced_deep_equal(a, b, filter, text_compare)` and `deep_equal_xpath(a, b, text_compare)` take the text
  comparison from the caller.  Where it is consulted (read off `advanced_compare_value` /
  `advanced_compare_attributes` in /repo/src/valueaccess.rs): text nodes; the data of two processing
  instructions that both have data; the value of an attribute NODE; the values of the attributes of two
  elements, name by name.  Everything else is `==`: element / attribute names, PI targets, prefixes and
  namespaces of namespace nodes — and COMMENT data (`a.get() == b.get()`; the documentation of
  `advanced_deep_equal` promises the supplied comparison for "text nodes and attributes" only).
  Lemmas: Lemmas/CompareCustom.lean. -/

namespace XotModel.Props
open XotModel

/-- ⟦C13_custom_equivalence⟧ **The laws of the supplied comparison carry over to the trees, for every filter.**
    `cmp` reflexive on strings ⇒ `advanced_deep_equal(·, ·, filter, cmp)` reflexive on valid trees; `cmp`
    symmetric ⇒ symmetric on valid trees; `cmp` transitive ⇒ transitive on ALL trees.  Each law of the tree
    comparison needs only the same law of `cmp`. -/
theorem C13_custom_equivalence (f : NodeFilter) (cmp : TextCmp) :
    ((∀ s, cmp s s = true) → ∀ a : Tree, a.valid = true → advancedDeepEqual f cmp a a = true) ∧
    ((∀ s t, cmp s t = true → cmp t s = true) → ∀ a b : Tree, a.valid = true → b.valid = true →
      advancedDeepEqual f cmp a b = advancedDeepEqual f cmp b a) ∧
    ((∀ s t u, cmp s t = true → cmp t u = true → cmp s u = true) → ∀ a b c : Tree,
      advancedDeepEqual f cmp a b = true → advancedDeepEqual f cmp b c = true →
      advancedDeepEqual f cmp a c = true) :=
  ⟨fun hr a va => advancedDeepEqual_refl f hr a (attrViewsNodup_of_valid a va),
   fun hs a b va vb => advancedDeepEqual_symm f hs a b (attrViewsNodup_of_valid a va) (attrViewsNodup_of_valid b vb),
   fun ht a b c => advancedDeepEqual_trans f ht a b c⟩

/-- ⟦C13_custom_equivalence_all_trees⟧ Reflexivity and symmetry need less than validity: no node's attribute
    view (`skip_while` namespace / `take_while` attribute) repeats a name — whatever the order of the
    children and whatever hangs under attribute / namespace nodes (`C13_equiv_all_trees` is the `==`
    instance with the trivial filter). -/
theorem C13_custom_equivalence_all_trees (f : NodeFilter) (cmp : TextCmp) :
    ((∀ s, cmp s s = true) → ∀ a : Tree, a.attrViewsNodup = true → advancedDeepEqual f cmp a a = true) ∧
    ((∀ s t, cmp s t = true → cmp t s = true) → ∀ a b : Tree, a.attrViewsNodup = true →
      b.attrViewsNodup = true → advancedDeepEqual f cmp a b = advancedDeepEqual f cmp b a) :=
  ⟨fun hr a va => advancedDeepEqual_refl f hr a va, fun hs a b va vb => advancedDeepEqual_symm f hs a b va vb⟩

/-- ⟦C13_custom_reachable_equivalence_full⟧ … in particular between ANY nodes of a store reached by parses and
    API calls, with no structural hypothesis. -/
theorem C13_custom_reachable_equivalence_full (env : Env) (cs : List PCall) (hw : ∀ c ∈ cs, c.wellKinded)
    (f : NodeFilter) (cmp : TextCmp) :
    ((∀ s, cmp s s = true) → ∀ r ∈ ((PStore.init env).run cs).forest.roots, ∀ (p : Path) (a : Tree),
      r.erase.at? p = some a → advancedDeepEqual f cmp a a = true) ∧
    ((∀ s t, cmp s t = true → cmp t s = true) →
     ∀ r₁ ∈ ((PStore.init env).run cs).forest.roots,
     ∀ r₂ ∈ ((PStore.init env).run cs).forest.roots,
     ∀ (p₁ p₂ : Path) (a b : Tree), r₁.erase.at? p₁ = some a → r₂.erase.at? p₂ = some b →
      advancedDeepEqual f cmp a b = advancedDeepEqual f cmp b a) :=
  ⟨fun hr r h p a ha => (C13_custom_equivalence f cmp).1 hr a (C13_reachable_valid_full env cs hw r h p a ha).1,
   fun hs r₁ h₁ r₂ h₂ p₁ p₂ a b ha hb => (C13_custom_equivalence f cmp).2.1 hs a b
     (C13_reachable_valid_full env cs hw r₁ h₁ p₁ a ha).1 (C13_reachable_valid_full env cs hw r₂ h₂ p₂ b hb).1⟩

/-- ⟦C13_custom_equivalence_converse⟧ **Conversely** the laws of the tree comparison (already on valid trees,
    for any one filter) force the laws of `cmp`: two attribute nodes of the same name compare as `cmp` of
    their values, whatever the filter.  So `advanced_deep_equal(·, ·, filter, cmp)` is reflexive /
    symmetric / transitive on valid trees IF AND ONLY IF `cmp` is, law by law. -/
theorem C13_custom_equivalence_converse (f : NodeFilter) (cmp : TextCmp) :
    (∀ (n : Nat) (s t : Str),
      advancedDeepEqual f cmp (.node (.attribute n s) []) (.node (.attribute n t) []) = cmp s t) ∧
    ((∀ a : Tree, a.valid = true → advancedDeepEqual f cmp a a = true) → ∀ s, cmp s s = true) ∧
    ((∀ a b : Tree, a.valid = true → b.valid = true →
        advancedDeepEqual f cmp a b = advancedDeepEqual f cmp b a) → ∀ s t, cmp s t = cmp t s) ∧
    ((∀ a b c : Tree, a.valid = true → b.valid = true → c.valid = true →
        advancedDeepEqual f cmp a b = true → advancedDeepEqual f cmp b c = true →
        advancedDeepEqual f cmp a c = true) →
      ∀ s t u, cmp s t = true → cmp t u = true → cmp s u = true) := by
  have key : ∀ (n : Nat) (s t : Str),
      advancedDeepEqual f cmp (.node (.attribute n s) []) (.node (.attribute n t) []) = cmp s t := by
    intro n s t
    rw [advancedDeepEqual_abnormal f cmp _ _ (Or.inl (by simp [Tree.value, Value.isNormal, Value.category]))]
    simp [compareValue, Tree.value]
  have hv : ∀ (n : Nat) (s : Str), (Tree.node (.attribute n s) []).valid = true := by
    intro n s; simp [Tree.valid, orderedKids, attrNamesNodup, attrPairs, Tree.valid.validList]
  refine ⟨key, fun h s => ?_, fun h s t => ?_, fun h s t u h1 h2 => ?_⟩
  · rw [← key 0 s s]; exact h _ (hv 0 s)
  · rw [← key 0 s t, ← key 0 t s]; exact h _ _ (hv 0 s) (hv 0 t)
  · rw [← key 0 s u]
    exact h _ _ _ (hv 0 s) (hv 0 t) (hv 0 u) ((key 0 s t).trans h1) ((key 0 t u).trans h2)

/-- A comparison that is NOT symmetric (`s` is not longer than `t`) gives a non-symmetric tree comparison:
    `<e>x</e>` against `<e>xy</e>` is true, the other way round false. -/
def lenLe : TextCmp := fun s t => decide (s.length ≤ t.length)

example : advancedDeepEqual (fun _ => true) lenLe
      (.node (.element 2) [.node (.text ['x']) []]) (.node (.element 2) [.node (.text ['x', 'y']) []]) = true ∧
    advancedDeepEqual (fun _ => true) lenLe
      (.node (.element 2) [.node (.text ['x', 'y']) []]) (.node (.element 2) [.node (.text ['x']) []]) = false := by
  decide

/-! ### Where the supplied comparison decides -/

/-- ⟦C13_custom_applies_everywhere⟧ **The node-by-node test of `advanced_deep_equal` with the supplied
    comparison** (`advanced_compare_value`; by `C13_advanced` the whole comparison of two normal nodes is this
    test on the kept nodes pairwise, by `C13_advanced_abnormal` it is this test on the two nodes otherwise):
    * text against text: `cmp` of the two strings, nothing else;
    * attribute node against attribute node: same name and `cmp` of the two values;
    * PI against PI, both with data: same target and `cmp` of the data; both without: same target;
    * element against element: same name, the same NUMBER of attributes, and every attribute of the first has
      an attribute of the same name in the second whose value `cmp` relates to it — `cmp` is the only thing
      asked of the two values (in particular not their lengths: the closed example below has values of
      different byte length);
    * comment against comment: `==` on the data, NOT `cmp` (as written in the Rust, and as documented: "Text
      nodes and attributes are compared using the provided comparison function");
    * namespace node against namespace node: `==` on prefix and namespace; document against document: true;
      different kinds: false. -/
theorem C13_custom_applies_everywhere (cmp : TextCmp) :
    (∀ (s t : Str) (ka kb : List Tree),
      compareValue cmp (.node (.text s) ka) (.node (.text t) kb) = cmp s t) ∧
    (∀ (n m : Nat) (v w : Str) (ka kb : List Tree),
      compareValue cmp (.node (.attribute n v) ka) (.node (.attribute m w) kb) = (n == m && cmp v w)) ∧
    (∀ (tg tg' : Nat) (s t : Str) (ka kb : List Tree),
      compareValue cmp (.node (.pi tg (some s)) ka) (.node (.pi tg' (some t)) kb) = (tg == tg' && cmp s t)) ∧
    (∀ (tg tg' : Nat) (ka kb : List Tree),
      compareValue cmp (.node (.pi tg none) ka) (.node (.pi tg' none) kb) = (tg == tg')) ∧
    (∀ (n m : Nat) (ka kb : List Tree),
      (compareValue cmp (.node (.element n) ka) (.node (.element m) kb) = true ↔
        n = m ∧ (Tree.node (.element n) ka).attrs.length = (Tree.node (.element m) kb).attrs.length ∧
          ∀ kv ∈ (Tree.node (.element n) ka).attrs,
            ∃ w, (Tree.node (.element m) kb).attrs.lookup kv.1 = some w ∧ cmp kv.2 w = true)) ∧
    (∀ (s t : Str) (ka kb : List Tree),
      compareValue cmp (.node (.comment s) ka) (.node (.comment t) kb) = (s == t)) ∧
    (∀ (p q n m : Nat) (ka kb : List Tree),
      compareValue cmp (.node (.namespace p n) ka) (.node (.namespace q m) kb) = (p == q && n == m)) ∧
    (∀ a b : Tree, compareValue cmp a b = true → a.value.category = b.value.category) := by
  refine ⟨fun _ _ _ _ => rfl, fun _ _ _ _ _ _ => rfl, ?_, ?_, ?_, fun _ _ _ _ => rfl, fun _ _ _ _ _ _ => rfl, ?_⟩
  · intro tg tg' s t ka kb
    by_cases h : tg = tg' <;> simp [compareValue, Tree.value, h]
  · intro tg tg' ka kb
    by_cases h : tg = tg' <;> simp [compareValue, Tree.value, h]
  · intro n m ka kb
    rw [← compareAttributes_true_iff]
    simp [compareValue, Tree.value]
  · intro a b h
    rw [compareValue_cases] at h
    rcases h with ⟨h1, h2⟩ | ⟨n, h1, h2, _⟩ | ⟨s, t, h1, h2, _⟩ | ⟨s, h1, h2⟩ | ⟨t, h1, h2⟩ |
      ⟨tg, s, t, h1, h2, _⟩ | ⟨n, s, t, h1, h2, _⟩ | ⟨p, n, h1, h2⟩ <;> rw [h1, h2] <;> rfl

/-- ⟦C13_custom_single_attribute⟧ Two elements of the same name with one attribute each, of the same name:
    the unfiltered comparison IS `cmp` of the two values, whatever they are (equal or different length). -/
theorem C13_custom_single_attribute (cmp : TextCmp) (n k : Nat) (v w : Str) :
    advancedDeepEqual (fun _ => true) cmp (.node (.element n) [.node (.attribute k v) []])
      (.node (.element n) [.node (.attribute k w) []]) = cmp v w := by
  rw [C13_advanced_all cmp _ _
    (by simp [Tree.valid, Tree.valid.validList, orderedKids, attrNamesNodup, attrPairs, Tree.value, Value.category,
      Value.isNormal])
    (by simp [Tree.valid, Tree.valid.validList, orderedKids, attrNamesNodup, attrPairs, Tree.value, Value.category,
      Value.isNormal])]
  simp [canon, canon.canonList, cvalue, attrPairs, sortAttrs, insertAttr, Canon.rel, Canon.relList, CValue.rel,
    attrsRel, cmpFound, Tree.value, Value.isNormal, Value.category, List.lookup]

/-- A trim-insensitive comparison (leading / trailing spaces do not count): an equivalence relation on
    strings that relates strings of DIFFERENT length. -/
def trimSpaces (s : Str) : Str := ((s.dropWhile (· == ' ')).reverse.dropWhile (· == ' ')).reverse
def trimEq : TextCmp := fun s t => trimSpaces s == trimSpaces t

/-- The hypotheses of `C13_custom_equivalence` are satisfiable by a comparison other than `==`. -/
example : (∀ s, trimEq s s = true) ∧ (∀ s t, trimEq s t = true → trimEq t s = true) ∧
    (∀ s t u, trimEq s t = true → trimEq t u = true → trimEq s u = true) := by
  refine ⟨fun s => by simp [trimEq], fun s t h => ?_, fun s t u h1 h2 => ?_⟩
  · simp only [trimEq, beq_iff_eq] at *; exact h.symm
  · simp only [trimEq, beq_iff_eq] at *; exact h1.trans h2

/-- `<e a=" v "/>` against `<e a="v"/>` (attribute values of 3 and 1 bytes) under the trim-insensitive
    comparison: equal — by `C13_custom_single_attribute` the answer is `trimEq " v " "v"`; `deep_equal`
    (`==`) tells them apart.  Likewise text, PI data and the value of an attribute node; comment data is
    compared with `==` whatever the comparison. -/
example : advancedDeepEqual (fun _ => true) trimEq
      (.node (.element 2) [.node (.attribute 3 [' ', 'v', ' ']) []])
      (.node (.element 2) [.node (.attribute 3 ['v']) []]) = true :=
  (C13_custom_single_attribute trimEq 2 3 _ _).trans (by decide)
example : deepEqual (.node (.element 2) [.node (.attribute 3 [' ', 'v', ' ']) []])
    (.node (.element 2) [.node (.attribute 3 ['v']) []]) = false := by decide
example : advancedDeepEqual (fun _ => true) trimEq
      (.node (.element 2) [.node (.text [' ', 'v']) [], .node (.pi 4 (some ['d', ' '])) []])
      (.node (.element 2) [.node (.text ['v', ' ', ' ']) [], .node (.pi 4 (some ['d'])) []]) = true ∧
    advancedDeepEqual (fun _ => true) trimEq (.node (.attribute 3 [' ', 'v']) []) (.node (.attribute 3 ['v']) []) = true ∧
    advancedDeepEqual (fun _ => true) trimEq
      (.node (.element 2) [.node (.comment [' ', 'c']) []]) (.node (.element 2) [.node (.comment ['c']) []]) = false := by
  decide

/-! ## Histories with the convenience calls

  The same two statements for histories mixing the calls of `Op` and the convenience calls (`Forest.COp`;
  `creationRun`, `C04_reach_creation` in Props/C04.lean): no side condition at all. -/

/-- ⟦C13_reachable_creation_valid⟧ Every node of every parentless tree reached by a history of `Op` calls and
    convenience calls satisfies the structural hypotheses of this file. -/
theorem C13_reachable_creation_valid (ops : List (Op ⊕ Forest.COp)) :
    ∀ r ∈ (creationRun ops).roots, ∀ (p : Path) (a : Tree),
      r.erase.at? p = some a →
      a.valid = true ∧ a.contentLeaves = true ∧ a.noInnerDocument = true ∧
        a.validRootFor xpathKeep = true ∧ orderedKids a.kids = true ∧ attrNamesNodup a.kids = true :=
  fun _ hr _ _ ha => Reach.compare_hyps_root (C04_reach_creation ops) hr ha

/-- ⟦C13_reachable_creation_iff⟧ … hence `deep_equal` is canonical-form equivalence between any two nodes of the
    trees such a history reaches. -/
theorem C13_reachable_creation_iff (ops : List (Op ⊕ Forest.COp)) :
    ∀ r₁ ∈ (creationRun ops).roots, ∀ r₂ ∈ (creationRun ops).roots,
    ∀ (p₁ p₂ : Path) (a b : Tree), r₁.erase.at? p₁ = some a → r₂.erase.at? p₂ = some b →
      (deepEqual a b = true ↔ canon a = canon b) :=
  fun r₁ h₁ r₂ h₂ p₁ p₂ a b ha hb =>
    C13_iff a b (C13_reachable_creation_valid ops r₁ h₁ p₁ a ha).1 (C13_reachable_creation_valid ops r₂ h₂ p₂ b hb).1

/-- ⟦C13_reachable_creation_equivalence⟧ … an equivalence relation on the nodes such a history reaches: reflexive,
    symmetric, transitive. -/
theorem C13_reachable_creation_equivalence (ops : List (Op ⊕ Forest.COp)) :
    (∀ r ∈ (creationRun ops).roots, ∀ (p : Path) (a : Tree), r.erase.at? p = some a → deepEqual a a = true) ∧
    (∀ r₁ ∈ (creationRun ops).roots, ∀ r₂ ∈ (creationRun ops).roots,
     ∀ (p₁ p₂ : Path) (a b : Tree), r₁.erase.at? p₁ = some a → r₂.erase.at? p₂ = some b →
      deepEqual a b = deepEqual b a) ∧
    (∀ r₁ ∈ (creationRun ops).roots, ∀ r₂ ∈ (creationRun ops).roots, ∀ r₃ ∈ (creationRun ops).roots,
     ∀ (p₁ p₂ p₃ : Path) (a b c : Tree), r₁.erase.at? p₁ = some a → r₂.erase.at? p₂ = some b →
      r₃.erase.at? p₃ = some c → deepEqual a b = true → deepEqual b c = true → deepEqual a c = true) :=
  ⟨fun r h p a ha => C13_reflexive a (C13_reachable_creation_valid ops r h p a ha).1,
   fun r₁ h₁ r₂ h₂ p₁ p₂ a b ha hb =>
     C13_symmetric a b (C13_reachable_creation_valid ops r₁ h₁ p₁ a ha).1 (C13_reachable_creation_valid ops r₂ h₂ p₂ b hb).1,
   fun r₁ h₁ r₂ h₂ r₃ h₃ p₁ p₂ p₃ a b c ha hb hc =>
     C13_transitive a b c (C13_reachable_creation_valid ops r₁ h₁ p₁ a ha).1
       (C13_reachable_creation_valid ops r₂ h₂ p₂ b hb).1 (C13_reachable_creation_valid ops r₃ h₃ p₃ c hc).1⟩

/-- ⟦C13_reachable_creation_string_value⟧ `string_value` of every document or element node such a history reaches
    is the concatenated text of its canonical form; `text_content_str`, when it answers, answers it. -/
theorem C13_reachable_creation_string_value (ops : List (Op ⊕ Forest.COp)) :
    ∀ r ∈ (creationRun ops).roots, ∀ (p : Path) (a : Tree),
      r.erase.at? p = some a → (a.value = .document ∨ ∃ n, a.value = .element n) →
      ∀ env' : Env, stringValue env' a = (canon a).text ∧
        ∀ s, textContentStr a = some s → stringValue env' a = s := by
  intro r hr p a ha hk env'
  obtain ⟨va, la, _⟩ := C13_reachable_creation_valid ops r hr p a ha
  exact ⟨C13_string_value env' a va la hk, fun s hs => C13_text_content_string_value env' a va la hk s hs⟩

/-- Non-vacuity: `new_element; append_text "a"; append_element; append_text "b"` reaches `<e>a<e/>b</e>`, whose
    root is an element; its string value is "ab". -/
example : (creationRun [.inl (.newElement 2), .inr (.appendNew 0 (.text ['a'])), .inr (.appendNew 0 (.element 2)),
    .inr (.appendNew 0 (.text ['b']))]).roots.map (fun r => (canon r.erase).text) = [['a', 'b']] := by decide +kernel

/-- ⟦C13_reachable_creation_variants⟧ The variants (`advanced_deep_equal` unfiltered, `deep_equal_children`,
    `deep_equal_xpath`) between any two nodes of the trees a history with the convenience calls reaches
    (`C13_reachable_variants` for these histories). -/
theorem C13_reachable_creation_variants (ops : List (Op ⊕ Forest.COp)) :
    ∀ r₁ ∈ (creationRun ops).roots, ∀ r₂ ∈ (creationRun ops).roots,
    ∀ (p₁ p₂ : Path) (a b : Tree), r₁.erase.at? p₁ = some a → r₂.erase.at? p₂ = some b →
      (∀ cmp : TextCmp, advancedDeepEqual (fun _ => true) cmp a b = Canon.rel cmp (canon a) (canon b)) ∧
      (deepEqualChildren a b = true ↔ (canon a).kids = (canon b).kids) ∧
      (((a.value.isElement = true ∧ b.value.isElement = true) ∨ (a.value = .document ∧ b.value = .document)) →
        deepEqualXpath strEq a b = deepEqual a.stripCommentsPis b.stripCommentsPis ∧
        ∀ cmp : TextCmp, deepEqualXpath cmp a b =
          advancedDeepEqual (fun _ => true) cmp a.stripCommentsPis b.stripCommentsPis) := by
  intro r₁ h₁ r₂ h₂ p₁ p₂ a b ha hb
  obtain ⟨va, la, da, xa, _, _⟩ := C13_reachable_creation_valid ops r₁ h₁ p₁ a ha
  obtain ⟨vb, lb, db, xb, _, _⟩ := C13_reachable_creation_valid ops r₂ h₂ p₂ b hb
  exact ⟨fun cmp => C13_advanced_all cmp a b va vb, C13_children a b va vb,
    fun h => ⟨C13_xpath_stripped a b va vb la lb da db h,
      fun cmp => C13_xpath_stripped_cmp cmp a b xa xb da db h⟩⟩

/-- ⟦C13_inv_iff⟧ **`deep_equal` is canonical-form equivalence from the invariant alone**: between any two nodes of
    ANY forest with `Forest.Inv` (however it was reached). -/
theorem C13_inv_iff (f : Forest) (hi : f.Inv) :
    ∀ r₁ ∈ f.roots, ∀ r₂ ∈ f.roots,
    ∀ (p₁ p₂ : Path) (a b : Tree), r₁.erase.at? p₁ = some a → r₂.erase.at? p₂ = some b →
      (deepEqual a b = true ↔ canon a = canon b) :=
  fun _ h₁ _ h₂ _ _ a b ha hb =>
    C13_iff a b (Reach.compare_hyps_root hi h₁ ha).1 (Reach.compare_hyps_root hi h₂ hb).1

end XotModel.Props
