/-
  C13 — deep_equal is canonical-form equivalence; its variants relax it as documented.
  Property theorems only (helper lemmas: `XotModel/Lemmas/Compare*.lean`).

  `Tree.valid` is the structural hypothesis: at every node the children come as namespaces,
  attributes, normal nodes; attribute names are unique per node; attribute / namespace nodes
  are leaves.  A name id stands for the expanded name (interning is one-to-one, C08).
-/
import XotModel.Lemmas.CompareCanon

namespace XotModel.Props
open XotModel

/-! ### deep_equal ⇔ equal canonical forms -/

/-- The full-strength statement: for all structurally valid subtrees, whatever their kind. -/
def C13_iff_Statement : Prop :=
  ∀ a b : Tree, a.valid = true → b.valid = true → (deepEqual a b = true ↔ canon a = canon b)

/-- For normal nodes (document, element, text, comment, PI) `deep_equal` holds exactly when the
    canonical forms are equal. -/
theorem C13_iff (a b : Tree) (va : a.valid = true) (vb : b.valid = true)
    (na : a.value.isNormal = true) (nb : b.value.isNormal = true) :
    deepEqual a b = true ↔ canon a = canon b := by
  unfold deepEqual
  rw [advancedDeepEqual_eq]
  exact deepIffCanon a b va vb na nb

/-- The same theorem under the name the defect boundary asks for: the extra hypothesis
    "both nodes are normal" is exactly where `C13_iff_Statement` fails. -/
theorem C13_iff_partial (a b : Tree) (va : a.valid = true) (vb : b.valid = true)
    (na : a.value.isNormal = true) (nb : b.value.isNormal = true) :
    deepEqual a b = true ↔ canon a = canon b := C13_iff a b va vb na nb

/-- Defect (DESIGN.md §8 row 15): two attribute nodes with different names and values are
    `deep_equal`, because the normal-filtered edge streams of both are empty. -/
theorem C13_iff_fails_on_attribute_nodes :
    deepEqual (.node (.attribute 3 ['v']) []) (.node (.attribute 4 ['w']) []) = true ∧
    canon (.node (.attribute 3 ['v']) []) ≠ canon (.node (.attribute 4 ['w']) []) := by
  constructor
  · decide
  · intro h; cases h

theorem C13_iff_Statement_false : ¬ C13_iff_Statement := by
  intro h
  have := (h (.node (.attribute 3 ['v']) []) (.node (.attribute 4 ['w']) []) (by decide) (by decide)).mp
    C13_iff_fails_on_attribute_nodes.1
  exact C13_iff_fails_on_attribute_nodes.2 this

/-- What the code does outside the boundary: any two attribute / namespace nodes are equal … -/
theorem C13_abnormal_always_equal (a b : Tree) (va : a.valid = true) (vb : b.valid = true)
    (na : ¬ a.value.isNormal = true) (nb : ¬ b.value.isNormal = true) : deepEqual a b = true := by
  unfold deepEqual
  rw [advancedDeepEqual_eq]
  show forestEqv strEq (proj allF a) (proj allF b) = true
  rw [proj_allF_abnormal va na, proj_allF_abnormal vb nb]; rfl

/-- … and never equal to a normal node. -/
theorem C13_abnormal_vs_normal (a b : Tree) (va : a.valid = true)
    (na : ¬ a.value.isNormal = true) (nb : b.value.isNormal = true) :
    deepEqual a b = false ∧ deepEqual b a = false := by
  unfold deepEqual
  rw [advancedDeepEqual_eq, advancedDeepEqual_eq]
  show forestEqv strEq (proj allF a) (proj allF b) = false ∧ forestEqv strEq (proj allF b) (proj allF a) = false
  rw [proj_allF_abnormal va na, proj_allF_normal nb]
  exact ⟨rfl, rfl⟩

/-! ### Equivalence relation -/

theorem C13_reflexive (a : Tree) (va : a.valid = true) (na : a.value.isNormal = true) :
    deepEqual a a = true := (C13_iff a a va va na na).mpr rfl

theorem C13_symmetric (a b : Tree) (va : a.valid = true) (vb : b.valid = true)
    (na : a.value.isNormal = true) (nb : b.value.isNormal = true) :
    deepEqual a b = deepEqual b a := by
  have h1 := C13_iff a b va vb na nb
  have h2 := C13_iff b a vb va nb na
  cases hab : deepEqual a b <;> cases hba : deepEqual b a <;> simp_all

theorem C13_transitive (a b c : Tree) (va : a.valid = true) (vb : b.valid = true) (vc : c.valid = true)
    (na : a.value.isNormal = true) (nb : b.value.isNormal = true) (nc : c.value.isNormal = true)
    (hab : deepEqual a b = true) (hbc : deepEqual b c = true) : deepEqual a c = true :=
  (C13_iff a c va vc na nc).mpr
    (((C13_iff a b va vb na nb).mp hab).trans ((C13_iff b c vb vc nb nc).mp hbc))

/-! ### The filtered / custom comparison -/

/-- `advanced_deep_equal(a, b, filter, cmp)`, for all trees, filters and comparisons, is
    structural equality (`compareValue cmp` node by node) of the forests of kept nodes, children
    of dropped nodes hoisted in place (`proj`). -/
theorem C13_advanced (f : NodeFilter) (cmp : TextCmp) (a b : Tree) :
    advancedDeepEqual f cmp a b = forestEqv cmp (proj f a) (proj f b) := advancedDeepEqual_eq f cmp a b

/-- Non-vacuity: a valid pair of elements differing in prefixes, declarations and attribute order. -/
example :
    deepEqual (.node (.element 6) [.node (.namespace 2 2) [], .node (.attribute 3 ['v']) [], .node (.attribute 4 []) [],
                                   .node (.text ['x']) []])
              (.node (.element 6) [.node (.attribute 4 []) [], .node (.attribute 3 ['v']) [], .node (.text ['x']) []]) = true :=
  (C13_iff _ _ (by decide) (by decide) (by decide) (by decide)).mpr rfl

end XotModel.Props
