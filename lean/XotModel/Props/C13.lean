/-
  C13 — deep_equal is canonical-form equivalence; its variants relax it as documented.
  Property theorems only (helper lemmas: `XotModel/Lemmas/Compare.lean`).
-/
import XotModel.Model.Compare

namespace XotModel.Props
open XotModel

/-- Defect (DESIGN.md §8 row 15): two attribute nodes with different values are `deep_equal`:
    the normal-filtered edge streams of both are empty. -/
theorem C13_iff_fails_on_attribute_nodes :
    deepEqual (.node (.attribute 3 ['v']) []) (.node (.attribute 4 ['w']) []) = true ∧
    canon (.node (.attribute 3 ['v']) []) ≠ canon (.node (.attribute 4 ['w']) []) := by
  constructor
  · decide
  · intro h; cases h

/-- Defect: a name repeated in the ignore list is counted twice in `b_ignore_attributes`;
    `<a/>` vs `<a b="v"/>` ignoring `[b, b]` gives `0 == 1 - 2` on `usize`, i.e. `false`. -/
theorem C13_shallow_fails_on_repeated_ignore :
    shallowEqualIgnoreAttributes (.node (.element 2) []) (.node (.element 2) [.node (.attribute 3 ['v']) []]) [3, 3] = false := by
  decide

end XotModel.Props
