/-
  C18 — Whitespace stripping removes exactly the insignificant whitespace.
  Property theorems only; proofs are in Lemmas/Fws*.lean, the specification in Model/FwsSpec.lean.

  Setting.  `f` is ANY forest with the invariant of C04 (`Forest.Inv`) — text consolidation may
  have been switched off, adjacent text nodes may exist.  The start node is any live node:
  `Fws.Occurs f t anc` says that the subtree `t` sits in `f` below the chain of ancestors `anc`
  (nearest first); every live node has such a position (`C18_position`).
  `Fws.specTopRemoved anc t` is the set of handles the rule of the property selects
  (whitespace-only text, no sibling text with other content, innermost `xml:space` not
  `preserve`), `Fws.specTop anc t` what must be left of the subtree (`specStrip`, or nothing when
  the start node itself is such a text node).

  History: before /repo 1e1d5fd the removal loop ran with text consolidation as set by the user;
  a whitespace-only text start node between two text nodes (possible once consolidation had been
  off) was removed and its neighbours merged.  The loop now switches consolidation off around the
  removals (`C18_safe`), and the theorems hold without any hypothesis on `everOff`.
-/
import XotModel.Generated
import XotModel.Lemmas.FwsFrame
import XotModel.Lemmas.FparseHistStep
import XotModel.Lemmas.ParseWitness
import XotModel.Model.FspecSpec

namespace XotModel.Props
open XotModel XotModel.Fws

/-! ### Obligations on the constants read off `src/unpretty.rs` -/

/-- `is_whitespace` tests exactly the four XML whitespace characters (a set, order irrelevant),
    not `char::is_whitespace`. -/
theorem C18_whitespaceChars :
    Gen.whitespaceUnicode = false ∧
    ∀ c : Char, c ∈ Gen.whitespaceChars ↔ (c = ' ' ∨ c = '\t' ∨ c = '\r' ∨ c = '\n') := by
  refine ⟨rfl, fun c => ?_⟩
  simp only [Gen.whitespaceChars, List.mem_cons, List.not_mem_nil, or_false]

/-- The model's `isXmlWhitespace` is "every character is one of the extracted ones". -/
theorem C18_isXmlWhitespace (s : Str) :
    Forest.isXmlWhitespace s = s.all (fun c => decide (c ∈ Gen.whitespaceChars)) := by
  unfold Forest.isXmlWhitespace
  congr 1
  funext c
  by_cases h1 : c = ' ' <;> by_cases h2 : c = '\t' <;> by_cases h3 : c = '\r' <;> by_cases h4 : c = '\n' <;>
    simp [Gen.whitespaceChars, h1, h2, h3, h4]

/-- … and so is the specification's. -/
theorem C18_spec_whitespace (s : Str) : Fws.allWs s = s.all (fun c => decide (c ∈ Gen.whitespaceChars)) := by
  rw [← Fws.isXmlWhitespace_eq, C18_isXmlWhitespace]

/-- The keyword compared in `in_preserve_space` is the specification's. -/
theorem C18_preserveKeyword : Gen.preserveKeyword = Fws.preserve := rfl

/-! ### Positions -/

/-- Every live node has a position. -/
theorem C18_position (f : Forest) (node : Nat) (t : HTree) (h : f.get? node = some t) :
    t.handle = node ∧ ∃ anc, Occurs f t anc :=
  ⟨handle_of_get? h, occurs_of_get? h⟩

/-! ### C18_exact -/

/-- The loop collects, and the call removes, exactly the specification's set; the start node is
    left as `specStrip` of its subtree (or is gone when it is itself such a text node). -/
theorem C18_exact (f : Forest) (hinv : f.Inv)
    (t : HTree) (anc : List HTree) (pos : Occurs f t anc) :
    let g := f.removeInsignificantWhitespace t.handle
    -- the collection phase
    (Forest.descendantsNormal t).filter f.isInsignificantWhitespace = specTopRemoved anc t ∧
    -- what is left, in document order
    g.allHandles = f.allHandles.filter (fun h => !(specTopRemoved anc t).contains h) ∧
    -- the removed set
    (∀ h, f.isLive h = true → (g.isLive h = false ↔ h ∈ specTopRemoved anc t)) ∧
    -- the resulting subtree
    g.get? t.handle = specTop anc t := by
  intro g
  have nd := hinv.nodup
  have hv := hinv.valid
  have hh := strip_handles nd hv pos
  exact ⟨toRemove_eq nd hv pos, hh, fun h hl => strip_removed_iff nd hv pos hl, strip_get? nd hv pos⟩

/-- The specification's set lies inside the start node's subtree and consists of text nodes
    the rule selects at their own position. -/
theorem C18_exact_members (f : Forest) (hinv : f.Inv)
    (t : HTree) (anc : List HTree) (pos : Occurs f t anc) (n : Nat) (hn : n ∈ specTopRemoved anc t) :
    n ∈ HTree.handles t ∧
    ∃ k ancn, Occurs f k ancn ∧ k.handle = n ∧ k.value.isText = true ∧ topDeleted ancn k = true :=
  ⟨specTopRemoved_subset anc t n hn, removed_text hinv.nodup hinv.valid pos hn⟩

/-! ### C18_frame -/

/-- Every other node, value and order is untouched; other trees are unchanged; the invariant of
    C04 is kept. -/
theorem C18_frame (f : Forest) (hinv : f.Inv)
    (t : HTree) (anc : List HTree) (pos : Occurs f t anc) :
    let g := f.removeInsignificantWhitespace t.handle
    (g.next = f.next ∧ g.consolidation = f.consolidation ∧ g.everOff = f.everOff ∧ g.corrupt = f.corrupt) ∧
    (∀ h, h ∉ specTopRemoved anc t → g.value? h = f.value? h ∧ g.parent? h = f.parent? h) ∧
    g.allHandles = f.allHandles.filter (fun h => !(specTopRemoved anc t).contains h) ∧
    (∀ r ∈ f.roots, t.handle ∉ HTree.handles r → r ∈ g.roots) ∧
    g.Inv := by
  intro g
  have nd := hinv.nodup
  have hv := hinv.valid
  have e : g = pruned f (fun h => (specTopRemoved anc t).contains h) := strip_eq_pruned nd hv pos
  refine ⟨by rw [e]; exact ⟨rfl, rfl, rfl, rfl⟩, fun h hR => strip_frame nd hv pos hR,
    strip_handles nd hv pos, fun r hr hnot => strip_other_roots nd hv pos hr hnot, ?_⟩
  rw [e]
  refine ⟨hinv.notCorrupt, pruned_nodup _ nd, fun h hm => hinv.below h ((pruned_sublist f _).subset hm), ?_, hinv.consOn⟩
  show validList (!f.everOff) (pruned f _).roots = true
  exact pruned_valid _ hinv.valid

/-! ### C18_idem -/

/-- Applying it a second time changes nothing. -/
theorem C18_idem (f : Forest) (hinv : f.Inv)
    (t : HTree) (anc : List HTree) (pos : Occurs f t anc) :
    (f.removeInsignificantWhitespace t.handle).removeInsignificantWhitespace t.handle =
      f.removeInsignificantWhitespace t.handle :=
  strip_idem hinv.nodup hinv.valid pos

/-! ### C18_safe -/

/-- The collect-then-remove loop is safe: no node is collected twice; the loop runs on the
    forest with consolidation switched off (`Fws.consOff f`), after any prefix its state is `f`
    minus that prefix, every `remove` is a plain `remove_subtree` (nothing is merged), and every
    node still to be removed is the same text node it was when collected. -/
theorem C18_safe (f : Forest) (hinv : f.Inv)
    (t : HTree) (anc : List HTree) (pos : Occurs f t anc) :
    let toRemove := (Forest.descendantsNormal t).filter f.isInsignificantWhitespace
    toRemove.Nodup ∧
    ∀ pre n post, toRemove = pre ++ n :: post →
      let g := pre.foldl (fun acc x => (acc.remove x).1) (consOff f)
      g = pruned (consOff f) (fun h => pre.contains h) ∧
      (g.remove n).1 = g.dropSubtree n ∧
      ∀ m ∈ n :: post, g.textOf m = f.textOf m ∧ (f.textOf m).isSome = true := by
  intro toRemove
  have nd := hinv.nodup
  have hv := hinv.valid
  have e : toRemove = specTopRemoved anc t := toRemove_eq nd hv pos
  refine ⟨e ▸ removed_nodup nd hv pos, ?_⟩
  intro pre n post hs
  exact strip_safe nd hv pos (e ▸ hs)

/-- While consolidation has never been off, no consolidation could fire even without the
    switch: the previous sibling of a text node (in particular of a collected one) is not a
    text node. -/
theorem C18_safe_separated (f : Forest) (hinv : f.Inv) (hoff : f.everOff = false)
    (k : HTree) (anc : List HTree) (pos : Occurs f k anc) (hk : k.value.isText = true)
    (p : Nat) (hp : f.prevSibling k.handle = some p) : f.textOf p = none :=
  prev_not_text hinv.nodup (strict_of_inv hinv hoff) pos hk hp

/-! ### Non-vacuity -/

example : exampleForest.Inv := (Forest.inv_iff _).1 (by decide)

/-- The start node `<c>` of `Fws.exampleForest` with its position. -/
example : ∃ t anc, Occurs exampleForest t anc ∧ t.handle = 7 ∧ specTopRemoved anc t = [8, 10] := by
  refine ⟨_, _, .kid (.root (List.Mem.head _)) (List.Mem.tail _ (List.Mem.tail _ (List.Mem.tail _ (List.Mem.tail _ (List.Mem.head _))))), rfl, ?_⟩
  decide

/-- On the whole example: only the two texts under `<c>` go (the first is kept because of the
    sibling `x`, the one in `<b>` because of `preserve`). -/
example : (exampleForest.removeInsignificantWhitespace 0).allHandles = [0, 1, 2, 3, 4, 5, 6, 7, 9] := by decide

/-! ### Consolidation has been off: adjacent text nodes -/

/-- `Fws.adjacentWitness`: three adjacent whitespace-only text nodes (consolidation was off while
    they were added, is on again). The hypotheses hold with `everOff = true` … -/
example : adjacentWitness.Inv ∧ adjacentWitness.everOff = true ∧ adjacentWitness.consolidation = true :=
  ⟨(Forest.inv_iff _).1 (by decide), rfl, rfl⟩

/-- … and stripping at the middle one removes it alone (before 1e1d5fd the two neighbours were
    merged: node 3 deleted, node 1 changed). -/
example :
    (adjacentWitness.removeInsignificantWhitespace 2).allHandles = [0, 1, 3] ∧
    (adjacentWitness.removeInsignificantWhitespace 2).value? 1 = some (.text [' ']) ∧
    (adjacentWitness.removeInsignificantWhitespace 2).value? 3 = some (.text ['\t']) ∧
    (adjacentWitness.removeInsignificantWhitespace 2).consolidation = true := by decide

/-! # ================================================================================================
    # REACHABLE STORES: the call on any node of any store a history of parses and API calls reaches
    # (branch wt-reach2)
    # ================================================================================================

  The theorems above assume `Forest.Inv`.  `PCall` histories on `PStore` (Model/FparseHist.lean: a step is the
  parse of an ARBITRARY text, accepted or not, or any extended API call `Forest.XCall`) keep it from
  `Xot::new()` (`PStore.fph_run_inv` = `C04_reach_full`, Props/C04.lean), so for the stores such a history
  reaches the hypothesis is discharged; what is left is `PCall.wellKinded` of the steps (a condition on calls as
  data: `mapInsert` into a view is given an entry of that view's kind) and the position of the start node,
  which every live node has (`C18_reachable_position_full`).

  `remove_insignificant_whitespace(node)` IS a step of these histories (`Forest.XCall.removeInsignificantWhitespace`),
  so the statements are about the store after `cs ++ [strip]` (`C18_reachable_step_full`: forest = the model
  function applied to the reached forest, tables and xml:id index untouched, answer `ok`). -/

/-- The strip call as a history step. -/
def stripCall (node : Nat) : PCall := .api (.removeInsignificantWhitespace node)

/-- ⟦C18_reachable_step_full⟧ The call is a step: it answers `ok`, leaves interning tables and xml:id index
    alone, its forest is `Forest.removeInsignificantWhitespace` of the forest it meets, it is well-kinded, and
    the invariant holds after it. -/
theorem C18_reachable_step_full (env : Env) (cs : List PCall) (hw : ∀ c ∈ cs, c.wellKinded) (node : Nat) :
    let s := (PStore.init env).run cs
    let s' := (PStore.init env).run (cs ++ [stripCall node])
    s'.forest = s.forest.removeInsignificantWhitespace node ∧ s'.env = s.env ∧ s'.index = s.index ∧
    ((stripCall node).run s).2 = .api .ok ∧ (stripCall node).wellKinded ∧ s.forest.Inv ∧ s'.forest.Inv := by
  intro s s'
  have e : s' = s.step (stripCall node) := by
    show (PStore.init env).run (cs ++ [stripCall node]) = _
    rw [PStore.fph_run_append]; rfl
  have hi : s.forest.Inv := PStore.fph_run_inv cs (PStore.fph_init_inv env) hw
  have hk : (stripCall node).wellKinded := by unfold stripCall PCall.wellKinded Forest.XCall.wellKinded; trivial
  refine ⟨by rw [e]; rfl, by rw [e]; rfl, by rw [e]; rfl, rfl, hk, hi, ?_⟩
  rw [e]; exact PStore.fph_step_inv hi _ hk

/-- ⟦C18_reachable_position_full⟧ Every live node of a reached store has a position (so the theorems below
    apply to every node the caller can name). -/
theorem C18_reachable_position_full (env : Env) (cs : List PCall) (node : Nat) (t : HTree)
    (h : ((PStore.init env).run cs).forest.get? node = some t) :
    t.handle = node ∧ ∃ anc, Occurs ((PStore.init env).run cs).forest t anc := C18_position _ node t h

/-- ⟦C18_reachable_exact_full⟧ **`C18_exact` for the call on any node of any store a history of parses and API
    calls reaches**: the call removes exactly the specification's set. -/
theorem C18_reachable_exact_full (env : Env) (cs : List PCall) (hw : ∀ c ∈ cs, c.wellKinded)
    (t : HTree) (anc : List HTree) (pos : Occurs ((PStore.init env).run cs).forest t anc) :
    let f := ((PStore.init env).run cs).forest
    let g := ((PStore.init env).run (cs ++ [stripCall t.handle])).forest
    (Forest.descendantsNormal t).filter f.isInsignificantWhitespace = specTopRemoved anc t ∧
    g.allHandles = f.allHandles.filter (fun h => !(specTopRemoved anc t).contains h) ∧
    (∀ h, f.isLive h = true → (g.isLive h = false ↔ h ∈ specTopRemoved anc t)) ∧
    g.get? t.handle = specTop anc t := by
  intro f g
  have e : g = f.removeInsignificantWhitespace t.handle := (C18_reachable_step_full env cs hw t.handle).1
  rw [e]
  exact C18_exact f (PStore.fph_run_inv cs (PStore.fph_init_inv env) hw) t anc pos

/-- ⟦C18_reachable_exact_members_full⟧ `C18_exact_members` on reached stores. -/
theorem C18_reachable_exact_members_full (env : Env) (cs : List PCall) (hw : ∀ c ∈ cs, c.wellKinded)
    (t : HTree) (anc : List HTree) (pos : Occurs ((PStore.init env).run cs).forest t anc)
    (n : Nat) (hn : n ∈ specTopRemoved anc t) :
    n ∈ HTree.handles t ∧
    ∃ k ancn, Occurs ((PStore.init env).run cs).forest k ancn ∧ k.handle = n ∧ k.value.isText = true ∧
      topDeleted ancn k = true :=
  C18_exact_members _ (PStore.fph_run_inv cs (PStore.fph_init_inv env) hw) t anc pos n hn

/-- ⟦C18_reachable_frame_full⟧ **`C18_frame` on reached stores**: every other node, value and order is
    untouched, other trees are unchanged, the settings are as they were. -/
theorem C18_reachable_frame_full (env : Env) (cs : List PCall) (hw : ∀ c ∈ cs, c.wellKinded)
    (t : HTree) (anc : List HTree) (pos : Occurs ((PStore.init env).run cs).forest t anc) :
    let f := ((PStore.init env).run cs).forest
    let g := ((PStore.init env).run (cs ++ [stripCall t.handle])).forest
    (g.next = f.next ∧ g.consolidation = f.consolidation ∧ g.everOff = f.everOff ∧ g.corrupt = f.corrupt) ∧
    (∀ h, h ∉ specTopRemoved anc t → g.value? h = f.value? h ∧ g.parent? h = f.parent? h) ∧
    g.allHandles = f.allHandles.filter (fun h => !(specTopRemoved anc t).contains h) ∧
    (∀ r ∈ f.roots, t.handle ∉ HTree.handles r → r ∈ g.roots) ∧
    g.Inv := by
  intro f g
  have e : g = f.removeInsignificantWhitespace t.handle := (C18_reachable_step_full env cs hw t.handle).1
  rw [e]
  exact C18_frame f (PStore.fph_run_inv cs (PStore.fph_init_inv env) hw) t anc pos

/-- ⟦C18_reachable_idem_full⟧ **`C18_idem` on reached stores**: the call twice in a row = the call once. -/
theorem C18_reachable_idem_full (env : Env) (cs : List PCall) (hw : ∀ c ∈ cs, c.wellKinded)
    (t : HTree) (anc : List HTree) (pos : Occurs ((PStore.init env).run cs).forest t anc) :
    ((PStore.init env).run (cs ++ [stripCall t.handle, stripCall t.handle])).forest =
      ((PStore.init env).run (cs ++ [stripCall t.handle])).forest := by
  have e1 : (PStore.init env).run (cs ++ [stripCall t.handle, stripCall t.handle]) =
      (((PStore.init env).run cs).step (stripCall t.handle)).step (stripCall t.handle) := by
    rw [PStore.fph_run_append]; rfl
  have e2 : (PStore.init env).run (cs ++ [stripCall t.handle]) =
      ((PStore.init env).run cs).step (stripCall t.handle) := by
    rw [PStore.fph_run_append]; rfl
  rw [e1, e2]
  exact C18_idem _ (PStore.fph_run_inv cs (PStore.fph_init_inv env) hw) t anc pos

/-- ⟦C18_reachable_safe_full⟧ **`C18_safe` on reached stores**: the collect-then-remove loop of the call is
    safe whatever history produced the store. -/
theorem C18_reachable_safe_full (env : Env) (cs : List PCall) (hw : ∀ c ∈ cs, c.wellKinded)
    (t : HTree) (anc : List HTree) (pos : Occurs ((PStore.init env).run cs).forest t anc) :
    let f := ((PStore.init env).run cs).forest
    let toRemove := (Forest.descendantsNormal t).filter f.isInsignificantWhitespace
    toRemove.Nodup ∧
    ∀ pre n post, toRemove = pre ++ n :: post →
      let g := pre.foldl (fun acc x => (acc.remove x).1) (consOff f)
      g = pruned (consOff f) (fun h => pre.contains h) ∧
      (g.remove n).1 = g.dropSubtree n ∧
      ∀ m ∈ n :: post, g.textOf m = f.textOf m ∧ (f.textOf m).isSome = true :=
  C18_safe _ (PStore.fph_run_inv cs (PStore.fph_init_inv env) hw) t anc pos

/-- ⟦C18_reachable_safe_separated_full⟧ `C18_safe_separated` on reached stores (`everOff = false` holds of every
    store whose history never called `set_text_consolidation(false)`). -/
theorem C18_reachable_safe_separated_full (env : Env) (cs : List PCall) (hw : ∀ c ∈ cs, c.wellKinded)
    (hoff : ((PStore.init env).run cs).forest.everOff = false)
    (k : HTree) (anc : List HTree) (pos : Occurs ((PStore.init env).run cs).forest k anc)
    (hk : k.value.isText = true) (p : Nat)
    (hp : ((PStore.init env).run cs).forest.prevSibling k.handle = some p) :
    ((PStore.init env).run cs).forest.textOf p = none :=
  C18_safe_separated _ (PStore.fph_run_inv cs (PStore.fph_init_inv env) hw) hoff k anc pos hk p hp

/-! ### Non-vacuity: parse, strip, read back (from the tables of `Xot::new()`, `Env.fresh`)

  `<a> <b xml:space="preserve"> </b>\n</a>`: document 0, `a` = 1, the text ` ` = 2, `b` = 3 with the attribute
  `xml:space` = 4 (name 0 of `Xot::new()`) and the text ` ` = 5, the text `\n` = 6.  Stripping at the document
  removes 2 and 6 and keeps 5 (`preserve`). -/

def c18Text : Str := "<a> <b xml:space=\"preserve\"> </b>\n</a>".toList
def c18Calls : List PCall := [.parse .document c18Text]
def c18Doc : HTree :=
  .node 0 .document [.node 1 (.element 2) [.node 2 (.text [' ']) [],
    .node 3 (.element 3) [.node 4 (.attribute 0 ['p', 'r', 'e', 's', 'e', 'r', 'v', 'e']) [], .node 5 (.text [' ']) []],
    .node 6 (.text ['\n']) []]]
theorem c18Calls_wellKinded : ∀ c ∈ c18Calls, c.wellKinded := by decide
theorem c18Roots : ((PStore.init Env.fresh).run c18Calls).forest.roots = [c18Doc] := by decide +kernel
theorem c18Pos : Occurs ((PStore.init Env.fresh).run c18Calls).forest c18Doc [] :=
  .root (by rw [c18Roots]; exact List.mem_singleton.mpr rfl)

example : (PStore.init Env.fresh).outs (c18Calls ++ [stripCall 0]) = [.parsed 0, .api .ok] := by decide +kernel
example : specTopRemoved [] c18Doc = [2, 6] := by decide
/-- read back: what the theorem says … -/
example : ((PStore.init Env.fresh).run (c18Calls ++ [stripCall 0])).forest.allHandles =
    ((PStore.init Env.fresh).run c18Calls).forest.allHandles.filter (fun h => !(specTopRemoved [] c18Doc).contains h) :=
  (C18_reachable_exact_full Env.fresh c18Calls c18Calls_wellKinded c18Doc [] c18Pos).2.1
/-- … and what the model computes. -/
example : ((PStore.init Env.fresh).run (c18Calls ++ [stripCall 0])).forest.roots =
    [.node 0 .document [.node 1 (.element 2)
      [.node 3 (.element 3) [.node 4 (.attribute 0 ['p', 'r', 'e', 's', 'e', 'r', 'v', 'e']) [], .node 5 (.text [' ']) []]]]] ∧
    ((PStore.init Env.fresh).run (c18Calls ++ [stripCall 0])).forest.allHandles = [0, 1, 3, 4, 5] ∧
    ((PStore.init Env.fresh).run (c18Calls ++ [stripCall 0, stripCall 0])).forest.allHandles = [0, 1, 3, 4, 5] := by
  decide +kernel

end XotModel.Props
