/-
  C18 — Whitespace stripping removes exactly the insignificant whitespace.
  Property theorems only; proofs are in Lemmas/Fws*.lean, the specification in Model/FwsSpec.lean.

  Setting.  `f` is ANY forest with the invariant of C04 (`Forest.Inv`) — text consolidation may
  have been switched off, adjacent text nodes may exist.  The start node is any live node:
  `Fws.Occurs f t anc` says that the subtree `t` sits in `f` below the chain of ancestors `anc`
  (nearest first); every live node has such a position (`C18_position`).
  `Fws.specTopRemoved anc t` is the set of handles the rule of the property selects
  (whitespace-only text, no sibling text with other content, innermost `xml:space` not
  `preserve`), `Fws.specTop anc t` what must be left of the subtree (`specStrip`, or nothing when
  the start node itself is such a text node).

  History: before /repo 1e1d5fd the removal loop ran with text consolidation as set by the user;
  a whitespace-only text start node between two text nodes (possible once consolidation had been
  off) was removed and its neighbours merged.  The loop now switches consolidation off around the
  removals (`C18_safe`), and the theorems hold without any hypothesis on `everOff`.
-/
import XotModel.Generated
import XotModel.Lemmas.FwsFrame

namespace XotModel.Props
open XotModel XotModel.Fws

/-! ### Obligations on the constants read off `src/unpretty.rs` -/

/-- `is_whitespace` tests exactly the four XML whitespace characters (a set, order irrelevant),
    not `char::is_whitespace`. -/
theorem C18_whitespaceChars :
    Gen.whitespaceUnicode = false ∧
    ∀ c : Char, c ∈ Gen.whitespaceChars ↔ (c = ' ' ∨ c = '\t' ∨ c = '\r' ∨ c = '\n') := by
  refine ⟨rfl, fun c => ?_⟩
  simp only [Gen.whitespaceChars, List.mem_cons, List.not_mem_nil, or_false]

/-- The model's `isXmlWhitespace` is "every character is one of the extracted ones". -/
theorem C18_isXmlWhitespace (s : Str) :
    Forest.isXmlWhitespace s = s.all (fun c => decide (c ∈ Gen.whitespaceChars)) := by
  unfold Forest.isXmlWhitespace
  congr 1
  funext c
  by_cases h1 : c = ' ' <;> by_cases h2 : c = '\t' <;> by_cases h3 : c = '\r' <;> by_cases h4 : c = '\n' <;>
    simp [Gen.whitespaceChars, h1, h2, h3, h4]

/-- … and so is the specification's. -/
theorem C18_spec_whitespace (s : Str) : Fws.allWs s = s.all (fun c => decide (c ∈ Gen.whitespaceChars)) := by
  rw [← Fws.isXmlWhitespace_eq, C18_isXmlWhitespace]

/-- The keyword compared in `in_preserve_space` is the specification's. -/
theorem C18_preserveKeyword : Gen.preserveKeyword = Fws.preserve := rfl

/-! ### Positions -/

/-- Every live node has a position. -/
theorem C18_position (f : Forest) (node : Nat) (t : HTree) (h : f.get? node = some t) :
    t.handle = node ∧ ∃ anc, Occurs f t anc :=
  ⟨handle_of_get? h, occurs_of_get? h⟩

/-! ### C18_exact -/

/-- The loop collects, and the call removes, exactly the specification's set; the start node is
    left as `specStrip` of its subtree (or is gone when it is itself such a text node). -/
theorem C18_exact (f : Forest) (hinv : f.Inv)
    (t : HTree) (anc : List HTree) (pos : Occurs f t anc) :
    let g := f.removeInsignificantWhitespace t.handle
    -- the collection phase
    (Forest.descendantsNormal t).filter f.isInsignificantWhitespace = specTopRemoved anc t ∧
    -- what is left, in document order
    g.allHandles = f.allHandles.filter (fun h => !(specTopRemoved anc t).contains h) ∧
    -- the removed set
    (∀ h, f.isLive h = true → (g.isLive h = false ↔ h ∈ specTopRemoved anc t)) ∧
    -- the resulting subtree
    g.get? t.handle = specTop anc t := by
  intro g
  have nd := hinv.nodup
  have hv := hinv.valid
  have hh := strip_handles nd hv pos
  exact ⟨toRemove_eq nd hv pos, hh, fun h hl => strip_removed_iff nd hv pos hl, strip_get? nd hv pos⟩

/-- The specification's set lies inside the start node's subtree and consists of text nodes
    the rule selects at their own position. -/
theorem C18_exact_members (f : Forest) (hinv : f.Inv)
    (t : HTree) (anc : List HTree) (pos : Occurs f t anc) (n : Nat) (hn : n ∈ specTopRemoved anc t) :
    n ∈ HTree.handles t ∧
    ∃ k ancn, Occurs f k ancn ∧ k.handle = n ∧ k.value.isText = true ∧ topDeleted ancn k = true :=
  ⟨specTopRemoved_subset anc t n hn, removed_text hinv.nodup hinv.valid pos hn⟩

/-! ### C18_frame -/

/-- Every other node, value and order is untouched; other trees are unchanged; the invariant of
    C04 is kept. -/
theorem C18_frame (f : Forest) (hinv : f.Inv)
    (t : HTree) (anc : List HTree) (pos : Occurs f t anc) :
    let g := f.removeInsignificantWhitespace t.handle
    (g.next = f.next ∧ g.consolidation = f.consolidation ∧ g.everOff = f.everOff ∧ g.corrupt = f.corrupt) ∧
    (∀ h, h ∉ specTopRemoved anc t → g.value? h = f.value? h ∧ g.parent? h = f.parent? h) ∧
    g.allHandles = f.allHandles.filter (fun h => !(specTopRemoved anc t).contains h) ∧
    (∀ r ∈ f.roots, t.handle ∉ HTree.handles r → r ∈ g.roots) ∧
    g.Inv := by
  intro g
  have nd := hinv.nodup
  have hv := hinv.valid
  have e : g = pruned f (fun h => (specTopRemoved anc t).contains h) := strip_eq_pruned nd hv pos
  refine ⟨by rw [e]; exact ⟨rfl, rfl, rfl, rfl⟩, fun h hR => strip_frame nd hv pos hR,
    strip_handles nd hv pos, fun r hr hnot => strip_other_roots nd hv pos hr hnot, ?_⟩
  rw [e]
  refine ⟨hinv.notCorrupt, pruned_nodup _ nd, fun h hm => hinv.below h ((pruned_sublist f _).subset hm), ?_, hinv.consOn⟩
  show validList (!f.everOff) (pruned f _).roots = true
  exact pruned_valid _ hinv.valid

/-! ### C18_idem -/

/-- Applying it a second time changes nothing. -/
theorem C18_idem (f : Forest) (hinv : f.Inv)
    (t : HTree) (anc : List HTree) (pos : Occurs f t anc) :
    (f.removeInsignificantWhitespace t.handle).removeInsignificantWhitespace t.handle =
      f.removeInsignificantWhitespace t.handle :=
  strip_idem hinv.nodup hinv.valid pos

/-! ### C18_safe -/

/-- The collect-then-remove loop is safe: no node is collected twice; the loop runs on the
    forest with consolidation switched off (`Fws.consOff f`), after any prefix its state is `f`
    minus that prefix, every `remove` is a plain `remove_subtree` (nothing is merged), and every
    node still to be removed is the same text node it was when collected. -/
theorem C18_safe (f : Forest) (hinv : f.Inv)
    (t : HTree) (anc : List HTree) (pos : Occurs f t anc) :
    let toRemove := (Forest.descendantsNormal t).filter f.isInsignificantWhitespace
    toRemove.Nodup ∧
    ∀ pre n post, toRemove = pre ++ n :: post →
      let g := pre.foldl (fun acc x => (acc.remove x).1) (consOff f)
      g = pruned (consOff f) (fun h => pre.contains h) ∧
      (g.remove n).1 = g.dropSubtree n ∧
      ∀ m ∈ n :: post, g.textOf m = f.textOf m ∧ (f.textOf m).isSome = true := by
  intro toRemove
  have nd := hinv.nodup
  have hv := hinv.valid
  have e : toRemove = specTopRemoved anc t := toRemove_eq nd hv pos
  refine ⟨e ▸ removed_nodup nd hv pos, ?_⟩
  intro pre n post hs
  exact strip_safe nd hv pos (e ▸ hs)

/-- While consolidation has never been off, no consolidation could fire even without the
    switch: the previous sibling of a text node (in particular of a collected one) is not a
    text node. -/
theorem C18_safe_separated (f : Forest) (hinv : f.Inv) (hoff : f.everOff = false)
    (k : HTree) (anc : List HTree) (pos : Occurs f k anc) (hk : k.value.isText = true)
    (p : Nat) (hp : f.prevSibling k.handle = some p) : f.textOf p = none :=
  prev_not_text hinv.nodup (strict_of_inv hinv hoff) pos hk hp

/-! ### Non-vacuity -/

example : exampleForest.Inv := (Forest.inv_iff _).1 (by decide)

/-- The start node `<c>` of `Fws.exampleForest` with its position. -/
example : ∃ t anc, Occurs exampleForest t anc ∧ t.handle = 7 ∧ specTopRemoved anc t = [8, 10] := by
  refine ⟨_, _, .kid (.root (List.Mem.head _)) (List.Mem.tail _ (List.Mem.tail _ (List.Mem.tail _ (List.Mem.tail _ (List.Mem.head _))))), rfl, ?_⟩
  decide

/-- On the whole example: only the two texts under `<c>` go (the first is kept because of the
    sibling `x`, the one in `<b>` because of `preserve`). -/
example : (exampleForest.removeInsignificantWhitespace 0).allHandles = [0, 1, 2, 3, 4, 5, 6, 7, 9] := by decide

/-! ### Consolidation has been off: adjacent text nodes -/

/-- `Fws.adjacentWitness`: three adjacent whitespace-only text nodes (consolidation was off while
    they were added, is on again). The hypotheses hold with `everOff = true` … -/
example : adjacentWitness.Inv ∧ adjacentWitness.everOff = true ∧ adjacentWitness.consolidation = true :=
  ⟨(Forest.inv_iff _).1 (by decide), rfl, rfl⟩

/-- … and stripping at the middle one removes it alone (before 1e1d5fd the two neighbours were
    merged: node 3 deleted, node 1 changed). -/
example :
    (adjacentWitness.removeInsignificantWhitespace 2).allHandles = [0, 1, 3] ∧
    (adjacentWitness.removeInsignificantWhitespace 2).value? 1 = some (.text [' ']) ∧
    (adjacentWitness.removeInsignificantWhitespace 2).value? 3 = some (.text ['\t']) ∧
    (adjacentWitness.removeInsignificantWhitespace 2).consolidation = true := by decide

end XotModel.Props
