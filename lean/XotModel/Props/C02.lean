/-
  C02 — Parsing yields exactly the document the text denotes.  Property theorems only.

  Proved for every input (no bound):
    C02_content           decoding of every well-spelled piece list (literals, the five named
                          entities, decimal / hex references with case and leading zeros, CR /
                          CRLF line ends, attribute-value normalisation) gives the denoted value
    C02_content_text / _attr   the two instances used by the builder
    C02_xmlid_partial     normalize_xml_id = strip + collapse when at most one space stands at
                          either end
    C02_merge, C02_scope_nearest / _base / _unprefixed_attribute   builder-side pieces of merging
                          and XML-Namespaces scoping
  Proved negations (closed witnesses, replayed on the implementation by the `build` suite):
    C02_xmlid_false       `xml:id="  x"` keeps a leading space
    C02_cdata_line_ends_false   CR LF inside CDATA is kept verbatim
    C02_namespace_uri_false     `xmlns:p='x&amp;y'` registers the URI `x&amp;y`
    C02_local_xmlns_false       an attribute `p:xmlns` is taken as a default-namespace declaration
    C02_empty_cdata_false       `<![CDATA[]]>` alone yields an empty text node
  The full-strength statements are kept as `def …Statement : Prop`.
-/
import XotModel.Lemmas.ParseContent
import XotModel.Lemmas.Parse
import XotModel.Lemmas.ParseWitnessData

namespace XotModel.Props
open XotModel XotModel.Witness

/-- C02_content: `parse_content` decodes every well-spelled piece list to the value it denotes,
    at every base position, for text and for attribute values. -/
theorem C02_content (attr : Bool) (ps : List Piece) (h : WellSpelled ps) :
    parseContent attr (renderPieces ps) = .ok (valueOf attr ps) :=
  parse_pieces attr 0 ps 0 h

/-- The form in which the builder calls it (`parse_text(content, content.start())`). -/
theorem C02_content_at (attr : Bool) (base : Nat) (ps : List Piece) (h : WellSpelled ps) :
    parseContentGo attr base 0 (renderPieces ps) = .ok (valueOf attr ps) :=
  parse_pieces attr base ps 0 h

/-- Non-vacuity: `a&lt;&#x0041;&#66;` + CR LF + a bare CR + TAB is well spelled; as text it is
    `a<AB` LF LF TAB, as an attribute value `a<AB` and three spaces. -/
example : WellSpelled [.lit 'a', .named ['l', 't'], .hex [(0, false), (0, false), (4, false), (1, false)],
    .dec [6, 6], .crlf, .cr, .lit '\t'] := by
  refine ⟨⟨by decide, by decide⟩, ⟨by decide, (fun r h => by cases h), by decide⟩, ⟨by decide, by decide, by decide⟩,
    ⟨by decide, by decide, by decide⟩, trivial, by decide, ⟨by decide, by decide⟩, trivial⟩

example : valueOf false [.lit 'a', .named ['l', 't'], .hex [(0, false), (0, false), (4, false), (1, false)],
    .dec [6, 6], .crlf, .cr, .lit '\t'] = ['a', '<', 'A', 'B', '\n', '\n', '\t'] := by decide

example : valueOf true [.lit 'a', .named ['l', 't'], .hex [(0, false), (0, false), (4, false), (1, false)],
    .dec [6, 6], .crlf, .cr, .lit '\t'] = ['a', '<', 'A', 'B', ' ', ' ', ' '] := by decide

/-! ### xml:id -/

/-- Full strength (FALSE for the code as written, see `C02_xmlid_false`). -/
def C02_xmlid_Statement : Prop := ∀ s : Str, normalizeXmlId s = xmlIdSpec s

theorem C02_xmlid_partial (s : Str)
    (h1 : (stripOnePrefix s).head? ≠ some ' ')
    (h2 : (stripOnePrefix (stripOnePrefix s).reverse).head? ≠ some ' ') :
    normalizeXmlId s = xmlIdSpec s :=
  normalizeXmlId_partial s h1 h2

/-- `xml:id="  x"`: one of the two leading spaces survives. -/
theorem C02_xmlid_false : ¬ C02_xmlid_Statement := by
  intro h
  have := h [' ', ' ', 'x']
  revert this
  decide

example : normalizeXmlId [' ', ' ', 'x'] = [' ', 'x'] := by decide
example : xmlIdSpec [' ', ' ', 'x', ' ', ' ', 'y', ' '] = ['x', ' ', 'y'] := by decide
/-- Non-vacuity of the partial theorem: one space at either end, several inside. -/
example : normalizeXmlId [' ', 'x', ' ', ' ', 'y', ' '] = xmlIdSpec [' ', 'x', ' ', ' ', 'y', ' '] :=
  C02_xmlid_partial _ (by decide) (by decide)

/-! ### Closed witnesses of the other C02 defects (token lists of the real tokenizer) -/

/-- `<a><![CDATA[x CR LF y]]></a>`: the text node keeps CR LF (should be `x LF y`). -/
theorem C02_cdata_line_ends_false :
    (build .document cdataCrLfLen Env.fresh cdataCrLf none).flat =
      some [(0, .document), (1, .element 2), (2, .text ['x', '\r', '\n', 'y'])] := by
  rw [build_eq_buildE]; decide +kernel

/-- `<a xmlns:p='x&amp;y'/>`: the namespace registered is the undecoded spelling. -/
theorem C02_namespace_uri_false :
    (build .document uriRefLen Env.fresh uriRef none).namespaces.getLast? = some ['x', '&', 'a', 'm', 'p', ';', 'y'] := by
  rw [build_eq_buildE]; decide +kernel

/-- `<a xmlns:p='u' p:xmlns='v'/>`: no attribute node; `("" ↦ v)` is declared instead and the
    element `a` lands in namespace `v` (name id 2 = (`a`, namespace 3)). -/
theorem C02_local_xmlns_false :
    (build .document localXmlnsLen Env.fresh localXmlns none).flat =
      some [(0, .document), (1, .element 2), (2, .namespace 2 2), (2, .namespace 0 3)] := by
  rw [build_eq_buildE]; decide +kernel

/-- `<a><![CDATA[]]></a>`: an empty text node. -/
theorem C02_empty_cdata_false :
    (build .document emptyCdataLen Env.fresh emptyCdata none).flat =
      some [(0, .document), (1, .element 2), (2, .text [])] := by
  rw [build_eq_buildE]; decide +kernel

/-- A well-formed text on which the builder is right:
    `<p:a xmlns:p='u' b=''><!--c--><![CDATA[t]]></p:a>`. -/
example : (build .document goodDocLen Env.fresh goodDoc none).flat =
    some [(0, .document), (1, .element 2), (2, .namespace 2 2), (2, .attribute 3 []),
      (2, .comment ['c']), (2, .text ['t'])] := by
  rw [build_eq_buildE]; decide +kernel

/-! ### Merging and scoping, as far as proved -/

/-- C02_merge (builder side): feeding two pieces of character data one after the other yields the
    same single text node (same path) as feeding their concatenation; by induction a run of text
    and CDATA tokens becomes one text node holding the concatenation of the parts as the builder
    takes them (text parts decoded by `parse_text`, CDATA parts VERBATIM: see
    `C02_cdata_line_ends_false`). -/
theorem C02_merge (b : Builder) (c1 c2 : Str) : (b.addText c1).1.addText c2 = b.addText (c1 ++ c2) :=
  addText_addText b c1 c2

/-- C02_scope, nearest declaration wins: a prefix is looked up on the element's own start tag
    first (there the LAST declaration of the prefix), then on the enclosing elements. -/
theorem C02_scope_nearest (d : List (Nat × Nat)) (st : NsStack) (p : Nat) :
    lookupPrefix (d :: st) p = (match findInDecls p d with | some ns => some ns | none => lookupPrefix st p) :=
  lookupPrefix_cons d st p

/-- `xml` is bound to the XML namespace and the empty prefix to no namespace at the outset. -/
theorem C02_scope_base (env : Env) :
    lookupPrefix (Builder.new env).nsStack Env.xmlPrefix = some Env.xmlNamespace ∧
    lookupPrefix (Builder.new env).nsStack Env.emptyPrefix = some Env.noNamespace :=
  ⟨lookup_xml_new env, lookup_default_new env⟩

/-- An unprefixed attribute is in no namespace, whatever the default namespace is. -/
theorem C02_scope_unprefixed_attribute (env : Env) (stack : NsStack) (name : Str) (sp : Span)
    (h : env.prefixes.head? = some []) :
    attributeNameId env stack [] name sp = .ok (env.internName name Env.noNamespace) :=
  attributeNameId_unprefixed env stack name sp h

example : Env.fresh.prefixes.head? = some [] := rfl

end XotModel.Props
