/-
  C02 — Parsing yields exactly the document the text denotes.  Property theorems only.

  Proved for every input (no bound):
    C02_content           decoding of every well-spelled piece list (literals, the five named
                          entities, decimal / hex references to XML characters with case and
                          leading zeros, CR / CRLF line ends, attribute-value normalisation)
                          gives the denoted value
    C02_xmlid             normalize_xml_id = strip all leading / trailing spaces + collapse runs
    C02_cdata_line_ends   a CDATA part contributes its content with CR LF / CR turned into LF
    C02_empty_cdata       an empty CDATA section changes nothing at all
    C02_namespace_uri     a declaration registers the DECODED attribute value as namespace
    C02_local_xmlns       only an unprefixed `xmlns` (or the `xmlns:` prefix) is a declaration
    C02_merge, C02_scope_nearest / _base / _unprefixed_attribute   builder-side pieces of merging
                          and XML-Namespaces scoping
  Closed examples (token lists of the real tokenizer, replayed on the implementation by the
  `build` suite) accompany each of them.
-/
import XotModel.Lemmas.ParseContent
import XotModel.Lemmas.Parse
import XotModel.Lemmas.ParseWitnessData

namespace XotModel.Props
open XotModel XotModel.Witness

/-- C02_content: `parse_content` decodes every well-spelled piece list to the value it denotes,
    for text and for attribute values. -/
theorem C02_content (attr : Bool) (ps : List Piece) (h : WellSpelled ps) :
    parseContent attr (renderPieces ps) = .ok (valueOf attr ps) :=
  parse_pieces attr 0 ps 0 h

/-- The form in which the builder calls it (`parse_text(content, content.start())`). -/
theorem C02_content_at (attr : Bool) (base : Nat) (ps : List Piece) (h : WellSpelled ps) :
    parseContentGo attr base 0 (renderPieces ps) = .ok (valueOf attr ps) :=
  parse_pieces attr base ps 0 h

/-- Non-vacuity: `a&lt;&#x0041;&#66;` + CR LF + a bare CR + TAB is well spelled; as text it is
    `a<AB` LF LF TAB, as an attribute value `a<AB` and three spaces. -/
example : WellSpelled [.lit 'a', .named ['l', 't'], .hex [(0, false), (0, false), (4, false), (1, false)],
    .dec [6, 6], .crlf, .cr, .lit '\t'] := by
  refine ⟨⟨by decide, by decide⟩, ⟨by decide, (fun r h => by cases h), by decide⟩, ⟨by decide, by decide, by decide⟩,
    ⟨by decide, by decide, by decide⟩, trivial, by decide, ⟨by decide, by decide⟩, trivial⟩

example : valueOf false [.lit 'a', .named ['l', 't'], .hex [(0, false), (0, false), (4, false), (1, false)],
    .dec [6, 6], .crlf, .cr, .lit '\t'] = ['a', '<', 'A', 'B', '\n', '\n', '\t'] := by decide

example : valueOf true [.lit 'a', .named ['l', 't'], .hex [(0, false), (0, false), (4, false), (1, false)],
    .dec [6, 6], .crlf, .cr, .lit '\t'] = ['a', '<', 'A', 'B', ' ', ' ', ' '] := by decide

/-! ### xml:id -/

/-- `normalize_xml_id` is the normalisation of https://www.w3.org/TR/xml-id/#id-avn. -/
theorem C02_xmlid (s : Str) : normalizeXmlId s = xmlIdSpec s :=
  normalizeXmlId_spec s

example : normalizeXmlId [' ', ' ', 'x', ' ', ' ', 'y', ' '] = ['x', ' ', 'y'] := by decide

/-- `<a xml:id='  x   y '/>`: the attribute node carries `x y` (name id 1 = xml:id). -/
example : (build .document idSpacesLen Env.fresh idSpaces none).flat =
    some [(0, .document), (1, .element 2), (2, .attribute 1 ['x', ' ', 'y'])] := by
  rw [build_eq_buildE]; decide +kernel

/-! ### CDATA -/

/-- C02_cdata_line_ends: a non-empty CDATA token adds its content with `CR LF` and `CR` replaced
    by `LF` (and nothing else decoded) to the current text run. -/
theorem C02_cdata_line_ends (b : Builder) (t : StrSpan) (h : t.text ≠ []) :
    b.cdata t = .ok { (b.addText (replaceCr (replaceCrLf t.text))).1 with
      spans := (b.addText (replaceCr (replaceCrLf t.text))).1.spans.extendText
        (b.addText (replaceCr (replaceCrLf t.text))).2 t.span } := by
  unfold Builder.cdata
  cases ht : t.text with
  | nil => exact absurd ht h
  | cons c cs => rfl

example : replaceCr (replaceCrLf ['x', '\r', '\n', 'y', '\r', 'z', '\r', '\r', '\n']) =
    ['x', '\n', 'y', '\n', 'z', '\n', '\n'] := by decide

/-- `<a><![CDATA[x CR LF y]]></a>`: the text node is `x LF y`. -/
example : (build .document cdataCrLfLen Env.fresh cdataCrLf none).flat =
    some [(0, .document), (1, .element 2), (2, .text ['x', '\n', 'y'])] := by
  rw [build_eq_buildE]; decide +kernel

/-- C02_empty_cdata: an empty CDATA section is skipped entirely (no node, no span). -/
theorem C02_empty_cdata (b : Builder) (start : Nat) (sp : StrSpan) : b.step (.cdata ⟨[], start⟩ sp) = .ok b := rfl

/-- `<a><![CDATA[]]></a>`: no text node. -/
example : (build .document emptyCdataLen Env.fresh emptyCdata none).flat =
    some [(0, .document), (1, .element 2)] := by
  rw [build_eq_buildE]; decide +kernel

/-! ### Namespace declarations -/

/-- C02_namespace_uri: the namespace a declaration binds is the DECODED attribute value
    (`parse_attribute(value, value.start())`), registered after the prefix. -/
theorem C02_namespace_uri (b : Builder) (eb : ElementBuilder) (pfx : Str) (uri : StrSpan) (sp : Span) (u : Str)
    (heb : b.eb = some eb) (hdec : parseContentGo true uri.start 0 uri.text = .ok u)
    (hnew : (eb.namespaces.any fun d => d.1 == (b.env.internPrefix pfx).2) = false) :
    b.prefix pfx uri sp = .ok { b with
      env := ((b.env.internPrefix pfx).1.internNamespace u).1,
      eb := some { eb with namespaces := eb.namespaces ++
        [((b.env.internPrefix pfx).2, ((b.env.internPrefix pfx).1.internNamespace u).2)] } } := by
  unfold Builder.prefix
  rw [hdec]
  simp only [heb, hnew, Bool.false_eq_true, if_false]

/-- `<a xmlns:p='x&amp;y'/>`: the namespace registered is `x&y`. -/
example : (build .document uriRefLen Env.fresh uriRef none).namespaces.getLast? = some ['x', '&', 'y'] := by
  rw [build_eq_buildE]; decide +kernel

/-- C02_local_xmlns: an attribute token is a namespace declaration only if its prefix is `xmlns`
    or it is the unprefixed `xmlns`; every other attribute — also `p:xmlns` — is an attribute. -/
theorem C02_local_xmlns (b : Builder) (p l v sp : StrSpan) (hp : p.text ≠ ['x', 'm', 'l', 'n', 's'])
    (hne : p.text ≠ []) : b.step (.attribute p l v sp) = b.attribute p l v := by
  have h1 : (p.text == ['x', 'm', 'l', 'n', 's']) = false := by simpa using hp
  have h2 : p.text.isEmpty = false := by cases hpt : p.text <;> simp_all
  simp [Builder.step, h1, h2]

/-- `<a xmlns:p='u' p:xmlns='v'/>`: `a` stays in no namespace (name id 2 = (`a`, namespace 0)) and
    gets an attribute node `{u}xmlns = v`. -/
example : (build .document localXmlnsLen Env.fresh localXmlns none).flat =
    some [(0, .document), (1, .element 2), (2, .namespace 2 2), (2, .attribute 3 ['v'])] := by
  rw [build_eq_buildE]; decide +kernel

/-- A well-formed text with every kind of spelling:
    `<p:a xmlns:p='u' b='x&#10;y'><!--c-->t&lt;<![CDATA[c]]></p:a>`. -/
example : (build .document goodDocLen Env.fresh goodDoc none).flat =
    some [(0, .document), (1, .element 2), (2, .namespace 2 2), (2, .attribute 3 ['x', '\n', 'y']),
      (2, .comment ['c']), (2, .text ['t', '<', 'c'])] := by
  rw [build_eq_buildE]; decide +kernel

/-! ### Merging and scoping, as far as proved -/

/-- C02_merge (builder side): feeding two pieces of character data one after the other yields the
    same single text node (same path) as feeding their concatenation; by induction a run of text
    and CDATA tokens becomes one text node holding the concatenation of the parts (text parts
    decoded by `parse_text`, CDATA parts line-end-normalised). -/
theorem C02_merge (b : Builder) (c1 c2 : Str) : (b.addText c1).1.addText c2 = b.addText (c1 ++ c2) :=
  addText_addText b c1 c2

/-- C02_scope, nearest declaration wins: a prefix is looked up on the element's own start tag
    first, then on the enclosing elements. -/
theorem C02_scope_nearest (d : List (Nat × Nat)) (st : NsStack) (p : Nat) :
    lookupPrefix (d :: st) p = (match findInDecls p d with | some ns => some ns | none => lookupPrefix st p) :=
  lookupPrefix_cons d st p

/-- `xml` is bound to the XML namespace and the empty prefix to no namespace at the outset. -/
theorem C02_scope_base (env : Env) :
    lookupPrefix (Builder.new env).nsStack Env.xmlPrefix = some Env.xmlNamespace ∧
    lookupPrefix (Builder.new env).nsStack Env.emptyPrefix = some Env.noNamespace :=
  ⟨lookup_xml_new env, lookup_default_new env⟩

/-- An unprefixed attribute is in no namespace, whatever the default namespace is. -/
theorem C02_scope_unprefixed_attribute (env : Env) (stack : NsStack) (name : Str) (sp : Span)
    (h : env.prefixes.head? = some []) :
    attributeNameId env stack [] name sp = .ok (env.internName name Env.noNamespace) :=
  attributeNameId_unprefixed env stack name sp h

example : Env.fresh.prefixes.head? = some [] := rfl

end XotModel.Props
