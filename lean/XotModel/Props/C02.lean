/-
  C02 — Parsing yields exactly the document the text denotes.  Property theorems only.

  Proved for every input (no bound):
    C02_content           decoding of every well-spelled piece list (literals, the five named
                          entities, decimal / hex references to XML characters with case and
                          leading zeros, CR / CRLF line ends, attribute-value normalisation)
                          gives the denoted value
    C02_xmlid             normalize_xml_id = strip all leading / trailing spaces + collapse runs
    C02_xmlid_expanded    an attribute whose EXPANDED name is xml:id is stored (node, seen ids, id
                          index) normalised whatever prefix spells it; _only: no other attribute is;
                          _spelled: the same on spellings (feeds C02_spelled_ns_*).  Since /repo 6153ddf
                          only the prefix `xml` can be bound to the XML namespace, so the parser reaches
                          them through `xml:id` alone (closed example: another prefix is refused)
    C02_cdata_line_ends   a CDATA part contributes its content with CR LF / CR turned into LF
    C02_empty_cdata       an empty CDATA section changes nothing at all
    C02_namespace_uri     a declaration that is not reserved registers the DECODED attribute value as
                          namespace; C02_namespace_reserved: a reserved one (`C02_reserved_iff`: prefix
                          `xmlns`, another prefix than `xml` for the XML namespace name, anything for the
                          xmlns namespace name, `xmlns:p=""`; tested on the decoded value) is refused with
                          InvalidNamespaceDeclaration(name as written, name span), nothing interned;
                          C02_reserved_not_well: no well-formed spelling contains one.  `xmlns:xml='zzz'`
                          is still accepted (known finding C03:xml-prefix-rebound-accepted)
    C02_pi_target_xml     a processing instruction whose target is `xml` in any letter case is refused
                          with InvalidTarget(target, target span) (/repo 002854f)
    C02_local_xmlns       only an unprefixed `xmlns` (or the `xmlns:` prefix) is a declaration
    C02_merge, C02_scope_nearest / _base / _unprefixed_attribute   builder-side pieces of merging
                          and XML-Namespaces scoping
    C02_scope_invariant, C02_scope_strings, C02_scope_element, C02_scope_attribute   for EVERY token
                          list: the id-level prefix lookup is "nearest enclosing declaration wins" on
                          the declared (decoded) prefix / URI STRINGS
    C02_spelled_fragment / C02_spelled_document   TREE LEVEL, documents without namespaces: for every
                          abstract document and every spelling of it (pieces, CDATA interleaving,
                          empty-element tags, all positions) `parse_fragment` / `parse` on its tokens
                          yields exactly that document
    C02_fragment_spelled  parse_fragment(t) and parse(<w>t</w>) read back as the same content
    C02_spelled_ns_fragment / C02_spelled_ns_document   TREE LEVEL, documents WITH namespaces: for every
                          spelling with prefixes and namespace declarations (`NSNode`) that the builder's
                          rules admit (`WellNsDoc`), `parse_fragment` / `parse` on its tokens yields a tree
                          that reads back (`decodeNs`) as exactly the abstract document with expanded
                          names, declarations and attributes that XML-Namespaces scoping gives (`denote`;
                          comment text and PI data with line ends normalised).  `WellNsDoc` / `Well` now
                          exclude reserved declarations and the PI target `xml`
    C02_fragment_spelled_ns   the same relation between parse_fragment(t) and parse(<w>t</w>) with namespaces
    C02_positions_irrelevant  byte positions and whole-token spans of the tokens do not influence the
                          tree, the interning tables or the id map a parse returns, nor whether it fails -
                          for lists in which every empty prefix has offset 0 (`tokensPrefixOk`: the ONE
                          position xot reads since /repo a5fafb0, `check_qname`; true of every accepted
                          list, every erased list and every layout the tokenizer reads back);
                          `_erased`: the erased list decides; closed counterexample without the hypothesis
    C02_lexical_layout / _fragment / _document / _prolog / _declaration / _bom   ON STRINGS, through the
                          reference tokenizer (Model/Lex*.lean, tied to xmlparser by the `lex` suite): for
                          every well-formed spelling and EVERY layout of its tokens — either quote per
                          attribute, any white space (blank, TAB, LF, CR) before attributes, around `=`,
                          before `>` / `/>`, in end tags, in PIs, between and after the top-level items,
                          XML declaration (any layout, version 1.0) or not, BOM or not — `parse` /
                          `parse_fragment` of the TEXT returns exactly the denoted document
    C02_lexical_line_ends line ends inside tags are white space
    C02_comment_line_ends_normalised   in every builder state a comment token / a PI token adds a node
                          whose text / data is the token's with CR LF and lone CR turned into LF (XML 1.0
                          2.11; /repo f8655b7), so it holds no CR and is the text as written when that has none
  Closed examples (token lists of the real tokenizer, replayed on the implementation by the
  `build` suite) accompany each of them.
-/
import XotModel.Lemmas.ParseContent
import XotModel.Lemmas.Parse
import XotModel.Lemmas.ParseWitnessData
import XotModel.Lemmas.ParseSpellTop
import XotModel.Lemmas.ParseScope
import XotModel.Lemmas.ParseNsTop
import XotModel.Lemmas.ParseNsCheck
import XotModel.Lemmas.ParseErase
import XotModel.Lemmas.LexFreeBuild
import XotModel.Lemmas.LexFreeExample
import XotModel.Lemmas.BytesUtf16
import XotModel.Lemmas.BytesBait
import XotModel.Lemmas.C02Spellings
import XotModel.Lemmas.LineEnds
import XotModel.Lemmas.SpellFromNs

namespace XotModel.Props
open XotModel XotModel.Witness

/-- C02_content: `parse_content` decodes every well-spelled piece list to the value it denotes,
    for text and for attribute values. -/
theorem C02_content (attr : Bool) (ps : List Piece) (h : WellSpelled ps) :
    parseContent attr (renderPieces ps) = .ok (valueOf attr ps) :=
  parse_pieces attr 0 ps 0 h

/-- The form in which the builder calls it (`parse_text(content, content.start())`). -/
theorem C02_content_at (attr : Bool) (base : Nat) (ps : List Piece) (h : WellSpelled ps) :
    parseContentGo attr base 0 (renderPieces ps) = .ok (valueOf attr ps) :=
  parse_pieces attr base ps 0 h

/-- Non-vacuity: `a&lt;&#x0041;&#66;` + CR LF + a bare CR + TAB is well spelled; as text it is
    `a<AB` LF LF TAB, as an attribute value `a<AB` and three spaces. -/
example : WellSpelled [.lit 'a', .named ['l', 't'], .hex [(0, false), (0, false), (4, false), (1, false)],
    .dec [6, 6], .crlf, .cr, .lit '\t'] := by
  refine ⟨⟨by decide, by decide⟩, ⟨by decide, (fun r h => by cases h), by decide⟩, ⟨by decide, by decide, by decide⟩,
    ⟨by decide, by decide, by decide⟩, trivial, by decide, ⟨by decide, by decide⟩, trivial⟩

example : valueOf false [.lit 'a', .named ['l', 't'], .hex [(0, false), (0, false), (4, false), (1, false)],
    .dec [6, 6], .crlf, .cr, .lit '\t'] = ['a', '<', 'A', 'B', '\n', '\n', '\t'] := by decide

example : valueOf true [.lit 'a', .named ['l', 't'], .hex [(0, false), (0, false), (4, false), (1, false)],
    .dec [6, 6], .crlf, .cr, .lit '\t'] = ['a', '<', 'A', 'B', ' ', ' ', ' '] := by decide

/-! ### xml:id -/

/-- `normalize_xml_id` is the normalisation of https://www.w3.org/TR/xml-id/#id-avn. -/
theorem C02_xmlid (s : Str) : normalizeXmlId s = xmlIdSpec s :=
  normalizeXmlId_spec s

example : normalizeXmlId [' ', ' ', 'x', ' ', ' ', 'y', ' '] = ['x', ' ', 'y'] := by decide

/-- `<a xml:id='  x   y '/>`: the attribute node carries `x y` (name id 1 = xml:id). -/
example : (build .document idSpacesLen Env.fresh idSpaces none).flat =
    some [(0, .document), (1, .element 2), (2, .attribute 1 ['x', ' ', 'y'])] := by
  rw [build_eq_buildE]; decide +kernel

/-- C02_xmlid_expanded, builder level: an attribute whose name RESOLVES to the name id of xml:id
    — expanded name (XML namespace, `id`), whatever prefix is written — is stored normalised:
    attribute node, `seen_ids` and the `xml_id_node` index all get `normalize_xml_id(value)`.
    (Since /repo 6153ddf `DocumentBuilder::prefix` refuses to bind another prefix than `xml` to the
    XML namespace, so from a parse the hypothesis is met by `xml:id` only; the statement itself does
    not depend on that.) -/
theorem C02_xmlid_expanded (stack : NsStack) (node : Path) (st : AttrLoop) (ab : AttributeBuilder)
    (rest : List AttributeBuilder) (env1 : Env)
    (hname : attributeNameId st.env stack ab.pfx ab.name ab.prefixSpan = .ok (env1, Env.xmlIdName))
    (hnew : ¬ Env.xmlIdName ∈ st.seenNames)
    (hfresh : ¬ normalizeXmlId ab.value ∈ st.seenIds) :
    addAttributes stack node st (ab :: rest) =
      addAttributes stack node
        { env := env1, seenIds := normalizeXmlId ab.value :: st.seenIds,
          idNodes := insertId st.idNodes (normalizeXmlId ab.value) node,
          seenNames := st.seenNames ++ [Env.xmlIdName],
          rkids := .node (.attribute Env.xmlIdName (normalizeXmlId ab.value)) [] :: st.rkids,
          aspans := st.aspans ++ [(Env.xmlIdName, ab.nameSpan, ab.valueSpan)] } rest := by
  have hc : st.seenNames.contains Env.xmlIdName = false := by simpa using hnew
  have hf : st.seenIds.contains (normalizeXmlId ab.value) = false := by simpa using hfresh
  rw [addAttributes]
  simp only [hname, hc, Bool.false_eq_true, if_false, xmlIdValue, BEq.rfl, if_true, hf, Bool.and_false]

/-- … and any other attribute is stored as decoded (also one WRITTEN `xml:id` whose prefix `xml`
    is — against Namespaces in XML — bound to another namespace). -/
theorem C02_xmlid_expanded_only (stack : NsStack) (node : Path) (st : AttrLoop) (ab : AttributeBuilder)
    (rest : List AttributeBuilder) (env1 : Env) (n : Nat)
    (hname : attributeNameId st.env stack ab.pfx ab.name ab.prefixSpan = .ok (env1, n))
    (hn : n ≠ Env.xmlIdName) (hnew : ¬ n ∈ st.seenNames) :
    addAttributes stack node st (ab :: rest) =
      addAttributes stack node
        { env := env1, seenIds := st.seenIds, idNodes := st.idNodes, seenNames := st.seenNames ++ [n],
          rkids := .node (.attribute n ab.value) [] :: st.rkids,
          aspans := st.aspans ++ [(n, ab.nameSpan, ab.valueSpan)] } rest := by
  have hc : st.seenNames.contains n = false := by simpa using hnew
  have hb : (n == Env.xmlIdName) = false := by simpa using hn
  rw [addAttributes]
  simp only [hname, hc, Bool.false_eq_true, if_false, xmlIdValue, hb, Bool.false_and]

/-- C02_xmlid_expanded, spelling level (what `C02_spelled_ns_*` return for such an attribute): an
    attribute whose prefix is bound to the XML namespace and whose local name is `id` denotes the
    expanded name (XML namespace, `id`) with the value stripped and collapsed. -/
theorem C02_xmlid_expanded_spelled (scope : Scope) (a : NSAttr) (hp : scope.attrNs a.pfx.text = xmlNsUri)
    (hl : a.loc.text = ['i', 'd']) :
    a.denote scope = ((xmlNsUri, ['i', 'd']), xmlIdSpec (valueOf true a.pieces)) := by
  simp only [NSAttr.denote, NSAttr.value, hp, hl, BEq.rfl, if_true, normalizeXmlId_spec]

/-- `<a xmlns:p='http://www.w3.org/XML/1998/namespace' p:id='  x   y '/>`, an xml:id written through
    another prefix: refused at the declaration (span of the name `xmlns:p`), see `C02_namespace_reserved`.
    Through the prefix `xml` itself: the example after `C02_xmlid` and `spelledTwinExample` below. -/
example : (build .document idViaOtherPrefixLen Env.fresh idViaOtherPrefix none).err? =
    some (.invalidNamespaceDeclaration ['x', 'm', 'l', 'n', 's', ':', 'p'] ⟨3, 10⟩) := by
  rw [build_eq_buildE]; decide +kernel

/-! ### CDATA -/

/-- C02_cdata_line_ends: a non-empty CDATA token adds its content with `CR LF` and `CR` replaced
    by `LF` (and nothing else decoded) to the current text run. -/
theorem C02_cdata_line_ends (b : Builder) (t : StrSpan) (h : t.text ≠ []) :
    b.cdata t = .ok { (b.addText (replaceCr (replaceCrLf t.text))).1 with
      spans := (b.addText (replaceCr (replaceCrLf t.text))).1.spans.extendText
        (b.addText (replaceCr (replaceCrLf t.text))).2 t.span } := by
  unfold Builder.cdata
  cases ht : t.text with
  | nil => exact absurd ht h
  | cons c cs => rfl

example : replaceCr (replaceCrLf ['x', '\r', '\n', 'y', '\r', 'z', '\r', '\r', '\n']) =
    ['x', '\n', 'y', '\n', 'z', '\n', '\n'] := by decide

/-- `<a><![CDATA[x CR LF y]]></a>`: the text node is `x LF y`. -/
example : (build .document cdataCrLfLen Env.fresh cdataCrLf none).flat =
    some [(0, .document), (1, .element 2), (2, .text ['x', '\n', 'y'])] := by
  rw [build_eq_buildE]; decide +kernel

/-- C02_empty_cdata: an empty CDATA section is skipped entirely (no node, no span). -/
theorem C02_empty_cdata (b : Builder) (start : Nat) (sp : StrSpan) : b.step (.cdata ⟨[], start⟩ sp) = .ok b := rfl

/-- `<a><![CDATA[]]></a>`: no text node. -/
example : (build .document emptyCdataLen Env.fresh emptyCdata none).flat =
    some [(0, .document), (1, .element 2)] := by
  rw [build_eq_buildE]; decide +kernel

/-! ### Namespace declarations -/

/-- C02_namespace_uri: the namespace a declaration binds is the DECODED attribute value
    (`parse_attribute(value, value.start())`), registered after the prefix — unless the declaration
    is a reserved one (`C02_namespace_reserved`). -/
theorem C02_namespace_uri (b : Builder) (eb : ElementBuilder) (pfx : Str) (uri : StrSpan) (sp : Span) (u : Str)
    (heb : b.eb = some eb) (hdec : parseContentGo true uri.start 0 uri.text = .ok u)
    (hres : reservedDecl pfx u = false)
    (hnew : (eb.namespaces.any fun d => d.1 == (b.env.internPrefix pfx).2) = false) :
    b.prefix pfx uri sp = .ok { b with
      env := ((b.env.internPrefix pfx).1.internNamespace u).1,
      eb := some { eb with namespaces := eb.namespaces ++
        [((b.env.internPrefix pfx).2, ((b.env.internPrefix pfx).1.internNamespace u).2)] } } := by
  unfold Builder.prefix
  rw [hdec]
  simp only [hres, heb, hnew, Bool.false_eq_true, if_false]

/-- C02_namespace_reserved: a reserved declaration — judged on the prefix as written and the DECODED
    value — is refused with `InvalidNamespaceDeclaration` (the attribute name as written, its span);
    nothing is interned, whatever the builder state. -/
theorem C02_namespace_reserved (b : Builder) (pfx : Str) (uri : StrSpan) (sp : Span) (u : Str)
    (hdec : parseContentGo true uri.start 0 uri.text = .ok u) (hres : reservedDecl pfx u = true) :
    b.prefix pfx uri sp = .err (.invalidNamespaceDeclaration (declDisplayName pfx) sp) b.env := by
  unfold Builder.prefix
  rw [hdec]
  simp only [hres, if_true]

/-- C02_reserved_iff: which declarations are reserved (Namespaces in XML 1.0, sections 3 and 2.2 /
    errata NE05): the prefix `xmlns`; the XML namespace name for another prefix than `xml` (the
    default namespace included); the xmlns namespace name for anything; the empty URI for a
    non-empty prefix other than `xml`.  (`xmlns:xml` with ANY value is not: known finding.) -/
theorem C02_reserved_iff (pfx uri : Str) :
    reservedDecl pfx uri = true ↔
      pfx = ['x', 'm', 'l', 'n', 's'] ∨ (pfx ≠ ['x', 'm', 'l'] ∧ uri = xmlNamespaceUri) ∨ uri = xmlnsNamespaceUri ∨
      (pfx ≠ [] ∧ pfx ≠ ['x', 'm', 'l'] ∧ uri = []) := by
  simp only [reservedDecl, Bool.or_eq_true, Bool.and_eq_true, beq_iff_eq, bne_iff_ne, ne_eq,
    Bool.not_eq_true', List.isEmpty_iff, or_assoc]
  constructor <;> intro h <;> rcases h with h | h | h | h <;> simp_all

/-- C02_reserved_not_well: a start tag with a reserved declaration is not a well-formed spelling
    (the second clause of `attrsWellNs`), in any scope. -/
theorem C02_reserved_not_well {scope : Scope} {attrs : List NSAttr} (d : Str × Str) (hd : d ∈ declsOf attrs)
    (hres : reservedDecl d.1 d.2 = true) : ¬ attrsWellNs scope attrs :=
  fun h => absurd (h.2.1 d hd) (by simp [hres])

/-- `<a xmlns:p='x&amp;y'/>`: the namespace registered is `x&y`. -/
example : (build .document uriRefLen Env.fresh uriRef none).namespaces.getLast? = some ['x', '&', 'y'] := by
  rw [build_eq_buildE]; decide +kernel

/-- The formerly accepted reserved shapes `<a xmlns:xmlns='u'/>`, `<a xmlns='http://www.w3.org/2000/xmlns/'/>`,
    `<a xmlns:p=''/>` (spellings with their byte positions: Lemmas/C02Spellings.lean) are no
    well-formed spellings … -/
example : ¬ WellNsDoc declXmlnsPrefix ∧ ¬ WellNsDoc declXmlnsUri ∧ ¬ WellNsDoc declEmptyUri :=
  ⟨fun h => C02_reserved_not_well (['x', 'm', 'l', 'n', 's'], ['u']) (by decide) (by decide) h.1.1.1,
   fun h => C02_reserved_not_well ([], xmlnsNamespaceUri) (by decide) (by decide) h.1.1.1,
   fun h => C02_reserved_not_well (['p'], []) (by decide) (by decide) h.1.1.1⟩

/-- … and `parse` refuses their tokens at the name of the declaration. -/
example : (build .document declXmlnsPrefixLen Env.fresh (NSNode.tokens.tokensList declXmlnsPrefix) none).err? =
    some (.invalidNamespaceDeclaration ['x', 'm', 'l', 'n', 's', ':', 'x', 'm', 'l', 'n', 's'] ⟨3, 14⟩) := by
  rw [build_eq_buildE]; decide +kernel
example : (build .document declXmlnsUriLen Env.fresh (NSNode.tokens.tokensList declXmlnsUri) none).err? =
    some (.invalidNamespaceDeclaration ['x', 'm', 'l', 'n', 's'] ⟨3, 8⟩) := by
  rw [build_eq_buildE]; decide +kernel
example : (build .document declEmptyUriLen Env.fresh (NSNode.tokens.tokensList declEmptyUri) none).err? =
    some (.invalidNamespaceDeclaration ['x', 'm', 'l', 'n', 's', ':', 'p'] ⟨3, 10⟩) := by
  rw [build_eq_buildE]; decide +kernel

/-- `<a xmlns:xml='zzz'/>` is still a well-formed spelling and still parses (namespace node: prefix
    id 1 = `xml` ↦ namespace id 2 = `zzz`): known finding C03:xml-prefix-rebound-accepted. -/
example : WellNsDoc declXmlRebound := wellNsDocB_sound _ (by decide)
example : (build .document declXmlReboundLen Env.fresh (NSNode.tokens.tokensList declXmlRebound) none).flat =
    some [(0, .document), (1, .element 2), (2, .namespace 1 2)] := by
  rw [build_eq_buildE]; decide +kernel

/-- C02_local_xmlns: an attribute token is a namespace declaration only if its prefix is `xmlns`
    or it is the unprefixed `xmlns`; every other attribute — also `p:xmlns` — is an attribute. -/
theorem C02_local_xmlns (b : Builder) (p l v sp : StrSpan) (hp : p.text ≠ ['x', 'm', 'l', 'n', 's'])
    (hne : p.text ≠ []) : b.step (.attribute p l v sp) = b.attribute p l v := by
  have h1 : (p.text == ['x', 'm', 'l', 'n', 's']) = false := by simpa using hp
  have h2 : p.text.isEmpty = false := by cases hpt : p.text <;> simp_all
  simp [Builder.step, h1, h2, StrSpan.bareColon]

/-- `<a xmlns:p='u' p:xmlns='v'/>`: `a` stays in no namespace (name id 2 = (`a`, namespace 0)) and
    gets an attribute node `{u}xmlns = v`. -/
example : (build .document localXmlnsLen Env.fresh localXmlns none).flat =
    some [(0, .document), (1, .element 2), (2, .namespace 2 2), (2, .attribute 3 ['v'])] := by
  rw [build_eq_buildE]; decide +kernel

/-- A well-formed text with every kind of spelling:
    `<p:a xmlns:p='u' b='x&#10;y'><!--c-->t&lt;<![CDATA[c]]></p:a>`. -/
example : (build .document goodDocLen Env.fresh goodDoc none).flat =
    some [(0, .document), (1, .element 2), (2, .namespace 2 2), (2, .attribute 3 ['x', '\n', 'y']),
      (2, .comment ['c']), (2, .text ['t', '<', 'c'])] := by
  rw [build_eq_buildE]; decide +kernel

/-! ### Merging and scoping, as far as proved -/

/-- C02_merge (builder side): feeding two pieces of character data one after the other yields the
    same single text node (same path) as feeding their concatenation; by induction a run of text
    and CDATA tokens becomes one text node holding the concatenation of the parts (text parts
    decoded by `parse_text`, CDATA parts line-end-normalised). -/
theorem C02_merge (b : Builder) (c1 c2 : Str) : (b.addText c1).1.addText c2 = b.addText (c1 ++ c2) :=
  addText_addText b c1 c2

/-- C02_scope, nearest declaration wins: a prefix is looked up on the element's own start tag
    first, then on the enclosing elements. -/
theorem C02_scope_nearest (d : List (Nat × Nat)) (st : NsStack) (p : Nat) :
    lookupPrefix (d :: st) p = (match findInDecls p d with | some ns => some ns | none => lookupPrefix st p) :=
  lookupPrefix_cons d st p

/-- `xml` is bound to the XML namespace and the empty prefix to no namespace at the outset. -/
theorem C02_scope_base (env : Env) :
    lookupPrefix (Builder.new env).nsStack Env.xmlPrefix = some Env.xmlNamespace ∧
    lookupPrefix (Builder.new env).nsStack Env.emptyPrefix = some Env.noNamespace :=
  ⟨lookup_xml_new env, lookup_default_new env⟩

/-- An unprefixed attribute is in no namespace, whatever the default namespace is. -/
theorem C02_scope_unprefixed_attribute (env : Env) (stack : NsStack) (name : Str) (sp : Span)
    (h : env.prefixes.head? = some []) :
    attributeNameId env stack [] name sp = .ok (env.internName name Env.noNamespace) :=
  attributeNameId_unprefixed env stack name sp h

example : Env.fresh.prefixes.head? = some [] := rfl

/-! ### Scoping on strings: names are resolved by XML-Namespaces scoping, for EVERY token list

`strStack env stack` reads the builder's namespace stack back as frames of (prefix, URI) strings —
one frame per open element, holding the declarations its start tag wrote, decoded — and `lookupStr`
is "the nearest enclosing declaration of this prefix wins". -/

/-- The invariant holds in every state the token loop reaches from a duplicate-free `Env`. -/
theorem C02_scope_invariant {env : Env} (hp : env.prefixes.Nodup) (hn : env.namespaces.Nodup)
    (h2p : 2 ≤ env.prefixes.length) (h2n : 2 ≤ env.namespaces.length)
    (ts : List Token) (lexErr : Option Nat) (b : Builder) (hr : (Builder.new env).run ts lexErr = .ok b) :
    ScopeOk b :=
  run_scopeOk ts lexErr (scopeOk_new hp hn h2p h2n) hr

/-- The namespace id a prefix resolves to names the URI string that scoping gives. -/
theorem C02_scope_strings {env : Env} (hn : env.prefixes.Nodup) (p : Str) (stack : NsStack) (hs : StackValid env stack) :
    (lookupPrefix stack (env.internPrefix p).2).map env.namespaceStr = lookupStr (strStack env stack) p :=
  lookupPrefix_str hn p stack hs

/-- An element is named (local name as written, namespace = what scoping gives for its prefix as
    written over its own and its ancestors' declarations). -/
theorem C02_scope_element {b : Builder} (h : ScopeOk b) (eb : ElementBuilder) (heb : b.eb = some eb)
    {env1 : Env} {id : Nat}
    (hname : elementNameId b.env (eb.namespaces :: b.nsStack) eb.pfx eb.name eb.prefixSpan = .ok (env1, id)) :
    ∃ nid, env1.names[id]? = some (eb.name, nid) ∧
      some (b.env.namespaceStr nid) = lookupStr (strStack b.env (eb.namespaces :: b.nsStack)) eb.pfx :=
  elementNameId_str h (fun d hd => by
    simp only [List.mem_cons] at hd
    rcases hd with rfl | hd
    · exact h.eb eb heb
    · exact h.stack d hd) hname

/-- An attribute: unprefixed = no namespace (whatever the default namespace is), prefixed = scoping. -/
theorem C02_scope_attribute {b : Builder} (h : ScopeOk b) {stack : NsStack} (hs : StackValid b.env stack)
    {pfx name : Str} {sp : Span} {env1 : Env} {id : Nat} (hp0 : b.env.prefixes.head? = some [])
    (hname : attributeNameId b.env stack pfx name sp = .ok (env1, id)) :
    ∃ nid, env1.names[id]? = some (name, nid) ∧ (pfx = [] → nid = Env.noNamespace) ∧
      (pfx ≠ [] → some (b.env.namespaceStr nid) = lookupStr (strStack b.env stack) pfx) :=
  attributeNameId_str h hs hp0 hname

example : Env.fresh.prefixes.Nodup ∧ Env.fresh.namespaces.Nodup := by decide

/-! ### C02_spelled: every spelling of every namespace-free document parses to that document

`SNode` is a spelling (Lemmas/ParseSpellDefs.lean): which pieces spell each attribute value and each
run of character data, where CDATA sections (possibly empty, possibly with CR / CR LF) are
interleaved, `<a/>` or `<a></a>`, every byte position and every whole-token span (all arbitrary).
`denote` is the abstract document (`PNode`) it stands for, `tokens` what a tokenizer makes of
it.  The result is read back through the interning tables the parse leaves behind. -/

/-- `parse_fragment`: the children of the document node, read back, are exactly the denoted nodes. -/
theorem C02_spelled_fragment {env : Env} (h : EnvBase env) (len : Nat) (sns : List SNode)
    (hw : SNode.Well.wellList sns) (hadj : noAdjChars sns = true) :
    ∃ p, build .fragment len env (SNode.tokens.tokensList sns) none = .ok p ∧
      p.tree.value = .document ∧
      decodeTree.decodeList p.env p.tree.kids = some ((SNode.denote.denoteList sns).map Sum.inr) := by
  obtain ⟨p, hb, ht, he⟩ := build_fragment_spelled h len sns hw hadj
  refine ⟨p, hb, by rw [ht]; rfl, ?_⟩
  rw [ht, he]
  exact decodeList_encodeList _ env _ (EnvExt.refl _)

/-- `parse`: the same, when the denoted top level has exactly one element and no text. -/
theorem C02_spelled_document {env : Env} (h : EnvBase env) (len : Nat) (sns : List SNode)
    (hw : SNode.Well.wellList sns) (hadj : noAdjChars sns = true)
    (htop : AbstractTop (SNode.denote.denoteList sns)) :
    ∃ p, build .document len env (SNode.tokens.tokensList sns) none = .ok p ∧
      p.tree.value = .document ∧
      decodeTree.decodeList p.env p.tree.kids = some ((SNode.denote.denoteList sns).map Sum.inr) := by
  obtain ⟨p, hb, ht, he⟩ := build_document_spelled h len sns hw hadj (wellFormedTop_of_abstract htop)
  refine ⟨p, hb, by rw [ht]; rfl, ?_⟩
  rw [ht, he]
  exact decodeList_encodeList _ env _ (EnvExt.refl _)

/-- C02_fragment (spelled, namespace-free): `parse_fragment` of a text and `parse` of the same text
    wrapped in one element `<w>…</w>` denote the same content — the fragment's nodes read back as
    `ds`, the wrapped document reads back as the single element `w` with children `ds`. -/
theorem C02_fragment_spelled {env : Env} (h : EnvBase env) (len len' : Nat) (sns : List SNode)
    (hw : SNode.Well.wellList sns) (hadj : noAdjChars sns = true)
    (w : StrSpan) (pstart : Nat) (junk openSp : StrSpan) (cw : StrSpan) (cpstart : Nat) (closeSp : StrSpan)
    (hcw : cw.text = w.text) (hps : pstart = 0) (hcps : cpstart = 0) :
    ∃ p pw, build .fragment len env (SNode.tokens.tokensList sns) none = .ok p ∧
      build .document len' env (SNode.elem w pstart junk [] openSp sns cw cpstart closeSp).tokens none = .ok pw ∧
      decodeTree.decodeList p.env p.tree.kids = some ((SNode.denote.denoteList sns).map Sum.inr) ∧
      decodeTree.decodeList pw.env pw.tree.kids =
        some [Sum.inr (.elem w.text [] (SNode.denote.denoteList sns))] := by
  obtain ⟨p, hp, _, hdp⟩ := C02_spelled_fragment h len sns hw hadj
  have hwell : SNode.Well.wellList [SNode.elem w pstart junk [] openSp sns cw cpstart closeSp] :=
    ⟨⟨⟨fun a ha => by simp at ha, List.nodup_nil⟩, hcw, hadj, hw, hps, hcps⟩, trivial⟩
  obtain ⟨pw, hpw, _, hdw⟩ := C02_spelled_document h len' [SNode.elem w pstart junk [] openSp sns cw cpstart closeSp]
    hwell rfl ⟨rfl, fun d hd => by
      simp only [SNode.denote.denoteList, SNode.denote, List.append_nil, List.mem_singleton] at hd
      subst hd; rfl⟩
  refine ⟨p, pw, hp, ?_, hdp, ?_⟩
  · simpa [SNode.tokens.tokensList] using hpw
  · simpa [SNode.denote.denoteList, SNode.denote] using hdw

/-- The tables of a fresh `Xot` satisfy the hypothesis. -/
theorem C02_envBase_fresh : EnvBase Env.fresh := ⟨rfl, ⟨['i', 'd'], 1, rfl, by decide⟩⟩

/-- Non-vacuity: `<a k="x&amp;"><!--c-->t<![CDATA[ CR LF ]]><b/></a>` as a spelling
    (`spelledExample`, Lemmas/C02Spellings.lean); it is well formed and denotes
    `a[k="x&"](comment c, text "t LF", b)`. -/
example : SNode.Well.wellList spelledExample ∧ noAdjChars spelledExample = true := by
  refine ⟨⟨⟨⟨?_, by decide⟩, rfl, by decide, ⟨trivial, ?_, ⟨⟨fun a ha => by simp at ha, by decide⟩, rfl⟩, trivial⟩, rfl, rfl⟩, trivial⟩, by decide⟩
  · intro a ha
    simp only [List.mem_singleton] at ha
    subst ha
    exact ⟨⟨⟨by decide, by decide⟩, ⟨by decide, (fun r h => by cases h), by decide⟩, trivial⟩, by decide, rfl⟩
  · intro p hp
    simp only [List.mem_cons, List.mem_singleton, List.not_mem_nil, or_false] at hp
    rcases hp with rfl | rfl
    · exact ⟨by decide, ⟨by decide, by decide⟩, trivial⟩
    · trivial

example : SNode.denote.denoteList spelledExample =
    [.elem ['a'] [(['k'], ['x', '&'])] [.comment ['c'], .text ['t', '\n'], .elem ['b'] [] []]] := by
  rfl

/-! ### C02_spelled_ns: every spelling of every document WITH namespaces parses to that document

`NSNode` (Lemmas/ParseNsDefs.lean) is a spelling with prefixes: every start / end tag has a prefix span
and a local span, the items of a start tag are ordinary attributes and namespace declarations mixed as
written (which is which is decided by `NSAttr.declares`, the test `_parse` makes), values and URIs are
piece lists, all positions arbitrary - except that an EMPTY prefix span has offset 0, which is how the
tokenizer reports an absent prefix (since /repo a5fafb0 xot takes an empty prefix at another offset for
the spelling `:local` and refuses it: `C03_reject_colon_without_prefix`).  `denote scope` threads the in-scope bindings the XML-Namespaces
way (own declarations first, nearest wins, default namespace for element names only, `xmlns=""`
undeclares) and yields `NPNode`s: expanded element name, declarations as written, attributes by
expanded name with normalised values, content.  `WellNsDoc` is what the builder's rules admit.
`EnvBaseNs` is what `Xot::new` guarantees about the interning tables and interning keeps. -/

/-- The tables of a fresh `Xot` satisfy the hypothesis. -/
theorem C02_envBaseNs_fresh : EnvBaseNs Env.fresh :=
  ⟨⟨[], rfl⟩, ⟨[], rfl⟩, ⟨(['s', 'p', 'a', 'c', 'e'], 1), [], rfl, by decide⟩⟩

/-- `parse_fragment`: the children of the document node, read back through the tables the parse
    leaves, are exactly the denoted nodes. -/
theorem C02_spelled_ns_fragment {env : Env} (h : EnvBaseNs env) (len : Nat) (sns : List NSNode)
    (hw : WellNsDoc sns) :
    ∃ p, build .fragment len env (NSNode.tokens.tokensList sns) none = .ok p ∧
      p.tree.value = .document ∧
      decodeNs p.env p.tree.kids = some (NSNode.denote.denoteList baseScope sns) := by
  obtain ⟨p, hb, ht, he⟩ := build_fragment_spelled_ns h len sns hw
  refine ⟨p, hb, by rw [ht]; rfl, ?_⟩
  rw [ht, he]
  exact decodeNs_encodeList _ env

/-- `parse`: the same, when the denoted top level has exactly one element and no text. -/
theorem C02_spelled_ns_document {env : Env} (h : EnvBaseNs env) (len : Nat) (sns : List NSNode)
    (hw : WellNsDoc sns) (htop : AbstractTopNs (NSNode.denote.denoteList baseScope sns)) :
    ∃ p, build .document len env (NSNode.tokens.tokensList sns) none = .ok p ∧
      p.tree.value = .document ∧
      decodeNs p.env p.tree.kids = some (NSNode.denote.denoteList baseScope sns) := by
  obtain ⟨p, hb, ht, he⟩ := build_document_spelled_ns h len sns hw (wellFormedTop_of_abstractNs htop)
  refine ⟨p, hb, by rw [ht]; rfl, ?_⟩
  rw [ht, he]
  exact decodeNs_encodeList _ env

/-! ### The namespace-free theorems as the special case of the namespaced ones

A namespace-free spelling `sns : List SNode` IS the namespaced spelling `SNode.toNs.toNsList sns` (every prefix
absent, at the offset the `SNode` carries; no item of a start tag is a declaration): the same tokens
(`SNode.toNsList_tokens`), a `WellNsDoc` when the `SNode`s are well formed (`wellNsDoc_toNs`: no declarations,
every attribute in no namespace, hence different as written = different by expanded name, no ID values), denoting
the same abstract document with every name in no namespace and no declarations (`SNode.toNsList_denote`,
`PNode.toNs`), which is encoded to the same id tree over the same tables because the empty URI is namespace 0
(`PNode.toNsList_encode`).  So `C02_spelled_ns_*` instantiate to `C02_spelled_*` — UNDER THE HYPOTHESIS OF THE
NAMESPACED THEOREMS, `EnvBaseNs env`.  The two families are not comparable as stated:
* hypothesis: the namespace-free theorems ask `EnvBase env` only (the empty prefix has id 0, name 1 is in some
  namespace other than 0), which `EnvBaseNs env` implies (`EnvBaseNs.envBase`) and which is strictly weaker
  (`C02_envBase_weaker`: tables holding the empty prefix only, no `xml`, no namespace at all) — the namespace-free
  builder run never looks at a namespace string or at the prefix `xml`;
* conclusion: the namespaced reading `decodeNs` (expanded names, declarations) says more than the
  namespace-free `decodeTree` (local names only): from `EnvBaseNs` both hold (`C02_spelled_from_ns_*`). -/

/-- `parse_fragment`, derived from `C02_spelled_ns_fragment` alone: the namespace-free conclusion of
    `C02_spelled_fragment` and, moreover, the namespaced reading — every name in no namespace, no declarations. -/
theorem C02_spelled_from_ns_fragment {env : Env} (h : EnvBaseNs env) (len : Nat) (sns : List SNode)
    (hw : SNode.Well.wellList sns) (hadj : noAdjChars sns = true) :
    ∃ p, build .fragment len env (SNode.tokens.tokensList sns) none = .ok p ∧
      p.tree.value = .document ∧
      decodeTree.decodeList p.env p.tree.kids = some ((SNode.denote.denoteList sns).map Sum.inr) ∧
      decodeNs p.env p.tree.kids = some (PNode.toNs.toNsList (SNode.denote.denoteList sns)) := by
  obtain ⟨p, hb, ht, he⟩ := build_fragment_spelled_ns h len (SNode.toNs.toNsList sns) (wellNsDoc_toNs hw hadj)
  rw [SNode.toNsList_tokens] at hb
  rw [SNode.toNsList_denote sns hw] at ht he
  have hd : decodeNs p.env p.tree.kids = some (PNode.toNs.toNsList (SNode.denote.denoteList sns)) := by
    rw [ht, he]; exact decodeNs_encodeList _ env
  rw [(PNode.toNsList_encode _ env h.ns0).1] at ht he
  refine ⟨p, hb, by rw [ht]; rfl, ?_, hd⟩
  rw [ht, he]
  exact decodeList_encodeList _ env _ (EnvExt.refl _)

/-- `parse`, derived from the namespaced machinery alone. -/
theorem C02_spelled_from_ns_document {env : Env} (h : EnvBaseNs env) (len : Nat) (sns : List SNode)
    (hw : SNode.Well.wellList sns) (hadj : noAdjChars sns = true)
    (htop : AbstractTop (SNode.denote.denoteList sns)) :
    ∃ p, build .document len env (SNode.tokens.tokensList sns) none = .ok p ∧
      p.tree.value = .document ∧
      decodeTree.decodeList p.env p.tree.kids = some ((SNode.denote.denoteList sns).map Sum.inr) ∧
      decodeNs p.env p.tree.kids = some (PNode.toNs.toNsList (SNode.denote.denoteList sns)) := by
  have htop' : WellFormedTop (.node .document (NPNode.encode.encodeList env
      (NSNode.denote.denoteList baseScope (SNode.toNs.toNsList sns))).2) := by
    rw [SNode.toNsList_denote sns hw, (PNode.toNsList_encode _ env h.ns0).1]
    exact wellFormedTop_of_abstract htop
  obtain ⟨p, hb, ht, he⟩ := build_document_spelled_ns h len (SNode.toNs.toNsList sns) (wellNsDoc_toNs hw hadj) htop'
  rw [SNode.toNsList_tokens] at hb
  rw [SNode.toNsList_denote sns hw] at ht he
  have hd : decodeNs p.env p.tree.kids = some (PNode.toNs.toNsList (SNode.denote.denoteList sns)) := by
    rw [ht, he]; exact decodeNs_encodeList _ env
  rw [(PNode.toNsList_encode _ env h.ns0).1] at ht he
  refine ⟨p, hb, by rw [ht]; rfl, ?_, hd⟩
  rw [ht, he]
  exact decodeList_encodeList _ env _ (EnvExt.refl _)

/-- The instance: `C02_spelled_fragment` / `_document` restricted to `EnvBaseNs` follow from the theorems above
    (which use the namespaced machinery only). -/
theorem C02_spelled_from_ns {env : Env} (h : EnvBaseNs env) (len : Nat) (sns : List SNode)
    (hw : SNode.Well.wellList sns) (hadj : noAdjChars sns = true) :
    (∃ p, build .fragment len env (SNode.tokens.tokensList sns) none = .ok p ∧ p.tree.value = .document ∧
      decodeTree.decodeList p.env p.tree.kids = some ((SNode.denote.denoteList sns).map Sum.inr)) ∧
    (AbstractTop (SNode.denote.denoteList sns) →
      ∃ p, build .document len env (SNode.tokens.tokensList sns) none = .ok p ∧ p.tree.value = .document ∧
        decodeTree.decodeList p.env p.tree.kids = some ((SNode.denote.denoteList sns).map Sum.inr)) := by
  refine ⟨?_, fun htop => ?_⟩
  · obtain ⟨p, h1, h2, h3, _⟩ := C02_spelled_from_ns_fragment h len sns hw hadj
    exact ⟨p, h1, h2, h3⟩
  · obtain ⟨p, h1, h2, h3, _⟩ := C02_spelled_from_ns_document h len sns hw hadj htop
    exact ⟨p, h1, h2, h3⟩

/-- The namespace-free spelling as a namespaced one: same tokens, `WellNsDoc`, same denotation in no namespace. -/
theorem C02_spelling_is_ns_spelling (sns : List SNode) (hw : SNode.Well.wellList sns) (hadj : noAdjChars sns = true) :
    NSNode.tokens.tokensList (SNode.toNs.toNsList sns) = SNode.tokens.tokensList sns ∧
    WellNsDoc (SNode.toNs.toNsList sns) ∧
    NSNode.denote.denoteList baseScope (SNode.toNs.toNsList sns) =
      PNode.toNs.toNsList (SNode.denote.denoteList sns) :=
  ⟨SNode.toNsList_tokens sns, wellNsDoc_toNs hw hadj, SNode.toNsList_denote sns hw⟩

/-- Why the namespace-free theorems are not LITERALLY instances: their hypothesis on the tables is strictly
    weaker than `EnvBaseNs`. -/
theorem C02_envBase_weaker : (∀ env, EnvBaseNs env → EnvBase env) ∧ ∃ env, EnvBase env ∧ ¬ EnvBaseNs env :=
  ⟨fun _ h => h.envBase, envBaseOnly, envBaseOnly_spec⟩

/-- Non-vacuity: `Xot::new()`'s tables meet `EnvBaseNs`. -/
example : EnvBaseNs Env.fresh := C02_envBaseNs_fresh

/-- C02_fragment with namespaces: `parse_fragment` of a text and `parse` of the same text wrapped in
    one unprefixed element without attributes `<w>…</w>` denote the same content. -/
theorem C02_fragment_spelled_ns {env : Env} (h : EnvBaseNs env) (len len' : Nat) (sns : List NSNode)
    (hw : WellNsDoc sns)
    (w : StrSpan) (pstart : Nat) (junk openSp : StrSpan) (cw : StrSpan) (cpstart : Nat) (closeSp : StrSpan)
    (hcw : cw.text = w.text) (hps : pstart = 0) (hcps : cpstart = 0) :
    ∃ p pw, build .fragment len env (NSNode.tokens.tokensList sns) none = .ok p ∧
      build .document len' env (NSNode.elem ⟨[], pstart⟩ w junk [] openSp sns ⟨[], cpstart⟩ cw closeSp).tokens none =
        .ok pw ∧
      decodeNs p.env p.tree.kids = some (NSNode.denote.denoteList baseScope sns) ∧
      decodeNs pw.env pw.tree.kids = some [.elem [] w.text [] [] (NSNode.denote.denoteList baseScope sns)] := by
  obtain ⟨p, hp, _, hdp⟩ := C02_spelled_ns_fragment h len sns hw
  obtain ⟨pw, hpw, _, hdw⟩ := C02_spelled_ns_document h len'
    [NSNode.elem ⟨[], pstart⟩ w junk [] openSp sns ⟨[], cpstart⟩ cw closeSp]
    (wellNsDoc_wrap hw w pstart junk openSp cw cpstart closeSp hcw hps hcps)
    ⟨rfl, fun d hd => by
      simp only [NSNode.denote.denoteList, NSNode.denote, List.append_nil, List.mem_singleton] at hd
      subst hd; rfl⟩
  refine ⟨p, pw, hp, ?_, hdp, ?_⟩
  · simpa [NSNode.tokens.tokensList] using hpw
  · rw [hdw]; rfl

/-- The end-tag clause of `Well`: a well-formed spelling's end tags repeat the start tag's name as
    written, prefix and local name (another prefix bound to the same URI is rejected:
    `C03_reject_endtag_prefix`). -/
theorem C02_endtag_as_written {scope : Scope} {pfx loc junk : StrSpan} {attrs : List NSAttr} {openSp : StrSpan}
    {kids : List NSNode} {cpfx cloc closeSp : StrSpan}
    (h : (NSNode.elem pfx loc junk attrs openSp kids cpfx cloc closeSp).Well scope) :
    cpfx.text = pfx.text ∧ cloc.text = loc.text :=
  ⟨h.2.2.1, h.2.2.2.1⟩

/-- Non-vacuity (`spelledNsExample`, Lemmas/C02Spellings.lean).  As a spelling:
    `<a xmlns="d" xmlns:p="u" p:k="v&amp;"><p:b xmlns:p="w" p:j="1"/><c xmlns="" xml:id=" i "/>t</a>`
    — a default namespace, a prefixed element, prefixed attributes, `p` shadowed on the nested
    element, `xmlns=""`, an `xml:id`. -/
example : WellNsDoc spelledNsExample := wellNsDocB_sound _ (by decide)

example : NSNode.denote.denoteList baseScope spelledNsExample =
    [.elem ['d'] ['a'] [([], ['d']), (['p'], ['u'])] [((['u'], ['k']), ['v', '&'])]
      [.elem ['w'] ['b'] [(['p'], ['w'])] [((['w'], ['j']), ['1'])] [],
       .elem [] ['c'] [([], [])] [((xmlNsUri, ['i', 'd']), ['i'])] [],
       .text ['t']]] := by
  rfl

example : AbstractTopNs (NSNode.denote.denoteList baseScope spelledNsExample) := ⟨rfl, fun d hd => by
  simp only [spelledNsExample, NSNode.denote.denoteList, NSNode.denote, List.append_nil, List.mem_singleton] at hd
  subst hd; rfl⟩

/-- Non-vacuity of the end-tag clause and of xml:id under a written declaration of `xml`
    (`spelledTwinExample`).  As a spelling:
    `<p:a xmlns:p="u" xmlns:q="u" xmlns:xml="http://www.w3.org/XML/1998/namespace"><q:a xml:id=" i  j "></q:a></p:a>`
    — two prefixes for one namespace used for different elements, every end tag as its start tag;
    `xml` declared again (the only prefix that may name the XML namespace) and an `xml:id` in its scope.
    (Before /repo 6153ddf the third declaration was `xmlns:x=…` and the attribute `x:id`.) -/
example : WellNsDoc spelledTwinExample := wellNsDocB_sound _ (by decide)

example : NSNode.denote.denoteList baseScope spelledTwinExample =
    [.elem ['u'] ['a'] [(['p'], ['u']), (['q'], ['u']), (['x', 'm', 'l'], xmlNsUri)] []
      [.elem ['u'] ['a'] [] [((xmlNsUri, ['i', 'd']), ['i', ' ', 'j'])] []]] := by
  rfl

/-- … whereas `<p:a xmlns:p="u" xmlns:q="u"></q:a>` is no well-formed spelling in any scope. -/
example (scope : Scope) (junk openSp closeSp : StrSpan) (attrs : List NSAttr) :
    ¬ (NSNode.elem ⟨['p'], 1⟩ ⟨['a'], 3⟩ junk attrs openSp [] ⟨['q'], 31⟩ ⟨['a'], 33⟩ closeSp).Well scope :=
  fun h => absurd (C02_endtag_as_written h).1 (by decide)

/-! ### Positions do not matter -/

/-- C02_positions_irrelevant: two token lists that differ only in byte positions and whole-token
    spans (`Token.erase` forgets exactly those) are both rejected, or both accepted with the same
    tree, the same interning tables and the same id map (`BuildResult.okPart`); source lengths may
    differ too.  (Which error, and the spans inside it, may differ.)
    Since /repo a5fafb0 xot reads ONE byte position: `check_qname` takes an empty prefix at a
    non-zero offset for a colon with nothing in front of it (`<:a/>`), whereas the tokenizer
    reports an absent prefix at offset 0.  The statement is therefore about lists in which every
    empty prefix has offset 0 (`tokensPrefixOk`: true of the erased list, of every layout the
    tokenizer reads back - `C02_lexical_layout` - and of every accepted list,
    `C02_accepted_prefixOk`); a list that fails the test is refused (`C03_reject_colon_without_prefix`). -/
theorem C02_positions_irrelevant (mode : Mode) (len len' : Nat) (env : Env) (ts ts' : List Token)
    (h : ts.map Token.erase = ts'.map Token.erase)
    (hq : tokensPrefixOk ts = true) (hq' : tokensPrefixOk ts' = true) :
    (build mode len env ts none).okPart = (build mode len' env ts' none).okPart :=
  build_erase mode len len' env ts ts' h hq hq'

/-- One-directional form without a hypothesis on `ts`: the erased list decides. -/
theorem C02_positions_irrelevant_erased (mode : Mode) (len len' : Nat) (env : Env) (ts : List Token)
    (hq : tokensPrefixOk ts = true) :
    (build mode len env ts none).okPart = (build mode len' env (ts.map Token.erase) none).okPart :=
  build_erase_self mode len len' env ts hq

/-- Every accepted token list passes the test, and so does every erased list. -/
theorem C02_accepted_prefixOk {mode : Mode} {len : Nat} {env : Env} {ts : List Token} {le : Option Nat}
    {p : Parsed} (hp : build mode len env ts le = .ok p) : tokensPrefixOk ts = true :=
  build_ok_prefixOk hp

theorem C02_erased_prefixOk (ts : List Token) : tokensPrefixOk (ts.map Token.erase) = true :=
  tokensPrefixOk_erase ts

theorem C02_positions_irrelevant_ok (mode : Mode) (len len' : Nat) (env : Env) (ts ts' : List Token)
    (h : ts.map Token.erase = ts'.map Token.erase) (hq' : tokensPrefixOk ts' = true)
    (p : Parsed) (hp : build mode len env ts none = .ok p) :
    ∃ p', build mode len' env ts' none = .ok p' ∧ p'.tree = p.tree ∧ p'.env = p.env ∧ p'.ids = p.ids :=
  build_erase_ok mode len len' env ts ts' h hq' p hp

/-- The hypothesis cannot be dropped: `<:a/>` and `<a/>` have the same erased tokens; the first is
    refused, the second accepted. -/
example :
    let bad : List Token := [.elementStart ⟨[], 1⟩ ⟨['a'], 2⟩ ⟨['<', ':', 'a'], 0⟩, .elementEnd .empty ⟨['/', '>'], 3⟩]
    let good : List Token := [.elementStart ⟨[], 0⟩ ⟨['a'], 1⟩ ⟨['<', 'a'], 0⟩, .elementEnd .empty ⟨['/', '>'], 2⟩]
    bad.map Token.erase = good.map Token.erase ∧
      (build .document 5 Env.fresh bad none).okPart = none ∧
      (build .document 4 Env.fresh good none).okPart ≠ none := by
  refine ⟨rfl, ?_, ?_⟩
  · rw [build_eq_buildE]; decide +kernel
  · rw [build_eq_buildE]; decide +kernel

/-! ### The lexical layer: quotes, in-tag white space, XML declaration, BOM

`LToken` (Lemmas/LexFreeDefs.lean) = a token plus the layout freedom XML leaves when writing it
(`lead`: white space before an attribute name / before `>` `/>` / between top-level items of a
document; `ws1`, `ws2`: around `=`, inside an end tag, inside a PI; `single`: the quote);
`renderL` writes a list of them; `LexOKL` = the tokenizer's side conditions with the value
condition for the quote actually used.  `LDoc` adds BOM, XML declaration (`LDecl`, own layout) and
trailing white space.  The statements below are about `parseString` = the reference tokenizer
(xmlparser 0.13.6 as written, correspondence suite `lex`) feeding the builder, as `Xot::_parse`
wires them. -/

/-- C02_lexical_layout: the tokenizer reads every layout of a token list back as that token list
    (up to byte positions; every empty prefix at offset 0, so that `check_qname` lets it pass), in
    both modes, without error. -/
theorem C02_lexical_layout (m : Mode) (lts : List LToken) (h : LexOKL m.isFragment lts = true) :
    (lexMode m (renderL lts)).1.map Token.erase = (lts.map LToken.token).map Token.erase ∧
      tokensPrefixOk (lexMode m (renderL lts)).1 = true ∧
      (lexMode m (renderL lts)).2 = none :=
  ⟨(lexMode_layout m lts h).1.1, (lexMode_layout m lts h).1.2, (lexMode_layout m lts h).2⟩

/-- The canonical spelling (`renderTokens`: one blank, double quotes) is one of the layouts. -/
theorem C02_lexical_canonical (ts : List Token) : renderL (ts.map LToken.canonical) = renderTokens ts :=
  renderL_canonical ts

/-- C02_lexical_fragment: `parse_fragment` of the TEXT of any layout of any well-formed spelling
    returns exactly the denoted nodes. -/
theorem C02_lexical_fragment {env : Env} (h : EnvBaseNs env) (sns : List NSNode) (hw : WellNsDoc sns)
    (lts : List LToken)
    (hl : lts.map (Token.erase ∘ LToken.token) = (NSNode.tokens.tokensList sns).map Token.erase)
    (hok : LexOKL true lts = true) :
    ∃ p, parseString .fragment env (renderL lts) = .ok p ∧
      decodeNs p.env p.tree.kids = some (NSNode.denote.denoteList baseScope sns) := by
  obtain ⟨p0, hb, _, hd⟩ := C02_spelled_ns_fragment h 0 sns hw
  have hlex := lexMode_layout .fragment lts hok
  have hlex' : ReadAsList (lexMode .fragment (renderL lts)).1 (NSNode.tokens.tokensList sns) :=
    ⟨hlex.1.1.trans (by rw [← hl, List.map_map]), hlex.1.2⟩
  obtain ⟨p, hp, ht, he, _⟩ := parseString_of_lex .fragment env _ _ 0 p0 ⟨hlex', hlex.2⟩ hb
  exact ⟨p, hp, by rw [ht, he, hd]⟩

/-- C02_lexical_prolog: `parse` of the TEXT of a whole document — BOM or not, XML declaration of
    version 1.0 in any layout or not, any layout of the tokens of a well-formed spelling, white
    space between the top-level items and at the end — returns exactly the denoted document. -/
theorem C02_lexical_prolog {env : Env} (h : EnvBaseNs env) (sns : List NSNode) (hw : WellNsDoc sns)
    (htop : AbstractTopNs (NSNode.denote.denoteList baseScope sns)) (d : LDoc)
    (hl : d.items.map (Token.erase ∘ LToken.token) = (NSNode.tokens.tokensList sns).map Token.erase)
    (hok : d.ok = true) (hver : ∀ x, d.decl = some x → x.minor = ['0']) :
    ∃ p, parseString .document env d.render = .ok p ∧
      decodeNs p.env p.tree.kids = some (NSNode.denote.denoteList baseScope sns) := by
  obtain ⟨p0, hb, _, hd⟩ := C02_spelled_ns_document h 0 sns hw htop
  obtain ⟨p, hp, ht, hev⟩ := parseString_of_ldoc env _ p0 hb d hl hok hver
  exact ⟨p, hp, by rw [ht, hev, hd]⟩

/-- C02_lexical_document: `parse` of the text of any layout of a well-formed spelling (no BOM, no
    declaration). -/
theorem C02_lexical_document {env : Env} (h : EnvBaseNs env) (sns : List NSNode) (hw : WellNsDoc sns)
    (htop : AbstractTopNs (NSNode.denote.denoteList baseScope sns)) (lts : List LToken)
    (hl : lts.map (Token.erase ∘ LToken.token) = (NSNode.tokens.tokensList sns).map Token.erase)
    (hok : LexOKL false lts = true) :
    ∃ p, parseString .document env (renderL lts) = .ok p ∧
      decodeNs p.env p.tree.kids = some (NSNode.denote.denoteList baseScope sns) := by
  have := C02_lexical_prolog h sns hw htop { items := lts } hl (by simp [LDoc.ok, hok, trailOK, isWs])
    (fun x hx => by simp at hx)
  simpa [LDoc.render, LDoc.declText] using this

/-- C02_lexical_declaration: an XML declaration of version 1.0 — any quotes, any white space, with or
    without `encoding` and `standalone` — in front of the document: the same document. -/
theorem C02_lexical_declaration {env : Env} (h : EnvBaseNs env) (sns : List NSNode) (hw : WellNsDoc sns)
    (htop : AbstractTopNs (NSNode.denote.denoteList baseScope sns)) (lts : List LToken)
    (hl : lts.map (Token.erase ∘ LToken.token) = (NSNode.tokens.tokensList sns).map Token.erase)
    (hok : LexOKL false lts = true) (x : LDecl) (hx : x.ok = true) (hv : x.minor = ['0']) :
    ∃ p, parseString .document env (x.render ++ renderL lts) = .ok p ∧
      decodeNs p.env p.tree.kids = some (NSNode.denote.denoteList baseScope sns) := by
  have := C02_lexical_prolog h sns hw htop { decl := some x, items := lts } hl
    (by simp [LDoc.ok, hok, hx, trailOK, isWs]) (fun y hy => by simp at hy; rw [← hy]; exact hv)
  simpa [LDoc.render, LDoc.declText] using this

/-- C02_lexical_bom: U+FEFF in front of the document (with or without a declaration after it): the
    same document.  `Tokenizer::from` skips it, and `Xot::parse` hands the text to it as it is.
    (`parse_fragment` uses `Tokenizer::from_fragment`, which does NOT: see the example below.) -/
theorem C02_lexical_bom {env : Env} (h : EnvBaseNs env) (sns : List NSNode) (hw : WellNsDoc sns)
    (htop : AbstractTopNs (NSNode.denote.denoteList baseScope sns)) (lts : List LToken)
    (hl : lts.map (Token.erase ∘ LToken.token) = (NSNode.tokens.tokensList sns).map Token.erase)
    (hok : LexOKL false lts = true) (x : Option LDecl) (hx : ∀ y, x = some y → y.ok = true ∧ y.minor = ['0']) :
    ∃ p, parseString .document env ('\uFEFF' :: ((match x with | some y => y.render | none => []) ++ renderL lts)) =
        .ok p ∧
      decodeNs p.env p.tree.kids = some (NSNode.denote.denoteList baseScope sns) := by
  cases x with
  | none =>
    have := C02_lexical_prolog h sns hw htop { bom := true, items := lts } hl
      (by simp [LDoc.ok, hok, trailOK, isWs]) (fun y hy => by simp at hy)
    simpa [LDoc.render, LDoc.declText] using this
  | some y =>
    have := C02_lexical_prolog h sns hw htop { bom := true, decl := some y, items := lts } hl
      (by simp [LDoc.ok, hok, (hx y rfl).1, trailOK, isWs])
      (fun z hz => by simp at hz; rw [← hz]; exact (hx y rfl).2)
    simpa [LDoc.render, LDoc.declText] using this

/-- C02_lexical_line_ends: inside tags LF, CR and CR LF are white space like blank and TAB (the
    tokenizer does not normalise anything: `LexOKL` admits every string over these four characters
    at every layout position); in character data and attribute values line ends are
    `parse_content`'s (`C02_content`), in CDATA sections `C02_cdata_line_ends`. -/
theorem C02_lexical_line_ends (w : Str) (h : ∀ c ∈ w, c = ' ' ∨ c = '\t' ∨ c = '\n' ∨ c = '\r') :
    isWs w = true := by
  simp only [isWs, List.all_eq_true]
  intro c hc
  rcases h c hc with rfl | rfl | rfl | rfl <;> decide

/-- C02_comment_line_ends_normalised: in every builder state a comment token adds, under the
    current node, a comment whose text is the token's with `CR LF` and lone `CR` replaced by `LF`,
    and a processing-instruction token (target not `xml`) a PI whose data is normalised likewise
    (XML 1.0 section 2.11; /repo f8655b7.  Before, the text was stored as written:
    finding C02:comment-pi-line-ends-not-normalised, now closed). -/
theorem C02_comment_line_ends_normalised (b : Builder) (t sp : StrSpan) (target : StrSpan) (c : Option StrSpan)
    (ht : isReservedPiTarget target.text = false) :
    (∃ b', b.step (.comment t sp) = .ok b' ∧
      b'.cur.rkids = .node (.comment (normalizeLineEnds t.text)) [] :: b.cur.rkids) ∧
    (∃ b', b.step (.pi target c sp) = .ok b' ∧
      b'.cur.rkids = .node (.pi (b.env.internName target.text Env.noNamespace).2
        (c.map fun x => normalizeLineEnds x.text)) [] :: b.cur.rkids) := by
  refine ⟨⟨_, rfl, rfl⟩, ⟨b.processingInstruction target c, ?_, rfl⟩⟩
  simp only [Builder.step, ht, Bool.false_eq_true, if_false]

/-- What is stored holds no CR, and is the text as written when that holds none. -/
theorem C02_line_ends_spec (s : Str) :
    '\r' ∉ normalizeLineEnds s ∧ ('\r' ∉ s → normalizeLineEnds s = s) :=
  ⟨normalizeLineEnds_no_cr s, normalizeLineEnds_noCr s⟩

/-- `<!--x CR LF y-->` as a fragment: the comment node holds `x LF y`. -/
example : (build .fragment 12 Env.fresh
    [.comment ⟨['x', '\r', '\n', 'y'], 4⟩ ⟨['<', '!', '-', '-', 'x', '\r', '\n', 'y', '-', '-', '>'], 0⟩] none).flat =
    some [(0, .document), (1, .comment ['x', '\n', 'y'])] := by
  rw [build_eq_buildE]; decide +kernel

/-- `<!--x CR y CR-->`: lone CRs become LF. -/
example : (build .fragment 11 Env.fresh
    [.comment ⟨['x', '\r', 'y', '\r'], 4⟩ ⟨['<', '!', '-', '-', 'x', '\r', 'y', '\r', '-', '-', '>'], 0⟩] none).flat =
    some [(0, .document), (1, .comment ['x', '\n', 'y', '\n'])] := by
  rw [build_eq_buildE]; decide +kernel

/-- `<?p a CR LF b CR?>`: the PI data is `a LF b LF` (name id 2 = the target `p`). -/
example : (build .fragment 11 Env.fresh
    [.pi ⟨['p'], 2⟩ (some ⟨['a', '\r', '\n', 'b', '\r'], 4⟩)
      ⟨['<', '?', 'p', ' ', 'a', '\r', '\n', 'b', '\r', '?', '>'], 0⟩] none).flat =
    some [(0, .document), (1, .pi 2 (some ['a', '\n', 'b', '\n']))] := by
  rw [build_eq_buildE]; decide +kernel

/-- C02_pi_target_xml: a processing instruction whose target is `xml` in any letter case is refused
    with `InvalidTarget` (target as written, its span), in every builder state (/repo 002854f;
    `Well` of a spelling excludes it). -/
theorem C02_pi_target_xml (b : Builder) (target : StrSpan) (c : Option StrSpan) (sp : StrSpan)
    (ht : isReservedPiTarget target.text = true) :
    b.step (.pi target c sp) = .err (.invalidTarget target.text target.span) b.env := by
  simp only [Builder.step, ht, if_true]

/-- `<?xml TAB x?>` and `<?XmL?>` handed over as PI tokens (Lemmas/C02Spellings.lean). -/
example : (build .fragment 9 Env.fresh piXml none).err? = some (.invalidTarget ['x', 'm', 'l'] ⟨2, 5⟩) := by
  rw [build_eq_buildE]; decide +kernel
example : (build .fragment 7 Env.fresh piXmlMixed none).err? = some (.invalidTarget ['X', 'm', 'L'] ⟨2, 5⟩) := by
  rw [build_eq_buildE]; decide +kernel
example (scope : Scope) (c : Option StrSpan) (junk : StrSpan) : ¬ (NSNode.pi ⟨['X', 'm', 'L'], 2⟩ c junk).Well scope :=
  fun h => absurd (show isReservedPiTarget ['X', 'm', 'L'] = false from h) (by decide)

/-- Non-vacuity (Lemmas/LexFreeExample.lean).  The text
    `U+FEFF<?xml version = '1.0' encoding="UTF-8" ?>LF<!--c-->LF<p:a LF TAB xmlns:p='u' k = CR LF "v&amp;" TAB><b LF/>t</p:a LF>LF`
    is a layout of the spelling `<!--c--><p:a xmlns:p="u" k="v&amp;"><b/>t</p:a>`. -/
example : exDoc.render = exText := by decide

example : exDoc.ok = true := by decide
example : exDoc.items.map (Token.erase ∘ LToken.token) = (NSNode.tokens.tokensList exSns).map Token.erase := by decide
example : WellNsDoc exSns := wellNsDocB_sound _ (by decide)
example : NSNode.denote.denoteList baseScope exSns =
    [.comment ['c'],
     .elem ['u'] ['a'] [(['p'], ['u'])] [(([], ['k']), ['v', '&'])] [.elem [] ['b'] [] [] [], .text ['t']]] := by
  rfl

/-- … hence `parse` of that text returns that document (from a fresh `Xot`). -/
example : ∃ p, parseString .document Env.fresh exDoc.render = .ok p ∧
    decodeNs p.env p.tree.kids = some
      [.comment ['c'],
       .elem ['u'] ['a'] [(['p'], ['u'])] [(([], ['k']), ['v', '&'])] [.elem [] ['b'] [] [] [], .text ['t']]] :=
  C02_lexical_prolog C02_envBaseNs_fresh exSns (wellNsDocB_sound _ (by decide))
    ⟨rfl, fun d hd => by
      rw [show NSNode.denote.denoteList baseScope exSns =
        [.comment ['c'],
         .elem ['u'] ['a'] [(['p'], ['u'])] [(([], ['k']), ['v', '&'])] [.elem [] ['b'] [] [] [], .text ['t']]]
        from rfl] at hd
      simp only [List.mem_cons, List.not_mem_nil, or_false] at hd
      rcases hd with rfl | rfl <;> rfl⟩
    exDoc (by decide) (by decide) (fun x hx => by cases hx; rfl)

/-- `parse_fragment` does not skip a byte-order mark: `U+FEFF<a/>` lexes, in fragment mode, as a text
    token holding U+FEFF followed by the element (so the fragment gets a text node U+FEFF); in
    document mode the same text is the document `<a/>`. -/
example : (lexMode .fragment ('\uFEFF' :: ['<', 'a', '/', '>'])).1.map Token.erase =
    [.text ⟨['\uFEFF'], 0⟩, .elementStart ⟨[], 0⟩ ⟨['a'], 0⟩ ⟨[], 0⟩, .elementEnd .empty ⟨[], 0⟩] :=
  (C02_lexical_layout .fragment
    [{ token := .text ⟨['\uFEFF'], 0⟩ }, { token := .elementStart ⟨[], 0⟩ ⟨['a'], 0⟩ ⟨[], 0⟩ },
     { token := .elementEnd .empty ⟨[], 0⟩ }] (by decide)).1

end XotModel.Props

/-! # ================================================================================================
    # BYTES (branch wt-bytes): `Xot::parse_bytes` — "supplied as bytes in a declared encoding"
    # ================================================================================================

  Model: Model/Bytes.lean (`xmlDeclaration` = xot's own `encoding::xml_declaration`, statement by
  statement; `detectHead` = xhtmlchardet on the 5-byte head; `forLabel`, the decoders and the BOM
  sniffing of encoding_rs: external crates modelled as written / as specified), tied to the real
  code by the `bytes` suite.  Encoders (`encodeUtf8`, `encodeUtf16`) are the specification side.

    C02_declaration_reader        bytes that SPELL a rendered declaration (`LDecl`: any quotes, white
                                  space around `=`, optional standalone) of ANY length — ASCII /
                                  UTF-8, UTF-16 or UCS-4 code units in either byte order (NUL bytes
                                  between the characters), a byte order mark or none in front —
                                  followed by anything: the reader answers the label, `none` when
                                  there is no `encoding` (as of /repo 41ece46, c3fcdf4)
    C02_declaration_reader_utf8 / _utf16   the two concrete forms
    C02_declaration_reader_none   what the loop collects does not begin `<?xml`: `none`
    C02_declaration_reader_non_ascii_none   a byte ≥ 0x80 after the byte order mark and before the
                                  first `>`: `none`
    C02_bytes_utf8                UTF-8: with byte order mark (any text); without, declared `UTF-8` /
                                  no label / unknown label; `decodeBytes (encode t) = some t`
    C02_encoding_bait             UTF-8 without declaration, `encoding=` / `charset=` bait anywhere
    C02_bytes_utf16               UTF-16LE / BE with byte order mark (any text, any declaration)
    C02_bytes_utf16_nobom         … without byte order mark, declared `UTF-16` (`<?` pattern)
    C02_bytes_latin               declared iso-8859-1 / latin1 / windows-1252 / us-ascii / …
    C02_bytes_document            bytes that decode to the text of a well-formed spelling parse to
                                  exactly that document (with C02_lexical_prolog); _utf8 / _utf16 /
                                  _latin instances
    C02_pi_lookalike_fixed        `<?éxml encoding="latin1"?>…` as UTF-8 is decoded as UTF-8 (41ece46)
-/

namespace XotModel.Props
open XotModel XotModel.Witness XotModel.Bytes

/-- C02_declaration_reader: after a byte order mark the reader removes, or none (`declBoms`: EF BB BF,
    FF FE, FE FF, 00 00 FE FF, 00 00 FF FE), the bytes `pre` spell (`Spells`: one byte per character in
    order; NUL bytes anywhere in between, e.g. the zero bytes of UTF-16 / UCS-4) a declaration rendered
    in ANY `LDecl` layout, of any length; whatever follows, `xml_declaration` answers the `encoding`
    label, `none` when the declaration has none. -/
theorem C02_declaration_reader (d : LDecl) (hok : d.ok = true) (bom pre tail : Bytes)
    (hbom : bom ∈ declBoms) (hs : Spells pre d.render) :
    xmlDeclaration (bom ++ (pre ++ tail)) = d.encoding :=
  xmlDeclaration_spelled d hok bom pre tail hbom hs

/-- … in the ASCII-compatible single-byte / UTF-8 form, with or without the UTF-8 byte order mark. -/
theorem C02_declaration_reader_utf8 (d : LDecl) (hok : d.ok = true) (bom : Bool) (tail : Bytes) :
    xmlDeclaration ((if bom then bom8 else []) ++ (encodeUtf8 d.render ++ tail)) = d.encoding :=
  xmlDeclaration_spelled d hok _ _ tail (by cases bom <;> simp [declBoms, bom8]) (spells_utf8 _ (render_ascii d hok))

/-- … as UTF-16 code units in either byte order, with or without the matching byte order mark. -/
theorem C02_declaration_reader_utf16 (d : LDecl) (hok : d.ok = true) (be bom : Bool) (tail : Bytes) :
    xmlDeclaration ((if bom then bom16 be else []) ++ (encodeUtf16 be d.render ++ tail)) = d.encoding :=
  xmlDeclaration_spelled d hok _ _ tail (by cases bom <;> cases be <;> simp [declBoms, bom16])
    (spells_utf16 be _ (render_ascii d hok))

/-- No declaration: what the loop collects after the byte order mark (the ASCII bytes up to the first
    `>`) does not begin `<?xml`. -/
theorem C02_declaration_reader_none (data : Bytes)
    (h : ∀ a, collectAscii (stripDeclBom data) = some a → (['<', '?', 'x', 'm', 'l'].isPrefixOf a) = false) :
    xmlDeclaration data = none :=
  xmlDeclaration_none data h

/-- C02_declaration_reader_non_ascii_none (/repo 41ece46): after the byte order mark, a byte ≥ 0x80
    before the first `>` (in front of it only bytes < 0x80 other than `>`): not a declaration. -/
theorem C02_declaration_reader_non_ascii_none (data p rest : Bytes) (b : Nat)
    (hd : stripDeclBom data = p ++ b :: rest) (hb : 0x80 ≤ b) (hp : ∀ x ∈ p, x < 0x80 ∧ x ≠ 0x3E) :
    xmlDeclaration data = none :=
  xmlDeclaration_non_ascii_none data p rest b hd hb hp

/-- The layout used in the examples: `<?xml version="1.0" encoding ='latin1' standalone="yes"?>` with
    a blank before and a TAB after the `=` of `encoding`, single quotes. -/
def exDeclLatin : LDecl :=
  { encoding := some ['l', 'a', 't', 'i', 'n', '1'], eEq := { before := [' '], after := ['\t'], single := true },
    standalone := some true }

example : exDeclLatin.ok = true := by decide
/-- direct evaluation of the model: single-byte form followed by a non-ASCII byte … -/
example : xmlDeclaration (asciiBytes exDeclLatin.render ++ [0xE9]) = some ['l', 'a', 't', 'i', 'n', '1'] := by decide
/-- … UTF-16LE code units behind a byte order mark … -/
example : xmlDeclaration (bom16 false ++ encodeUtf16 false exDeclLatin.render) = some ['l', 'a', 't', 'i', 'n', '1'] := by
  decide +kernel
/-- … no `encoding`: none; no declaration: none. -/
example : xmlDeclaration (asciiBytes ({ standalone := some false } : LDecl).render ++ [0x3C, 0x61, 0x2F, 0x3E]) = none := by
  decide
example : xmlDeclaration [0x3C, 0x61, 0x20, 0x65, 0x6E, 0x63, 0x6F, 0x64, 0x69, 0x6E, 0x67, 0x3D, 0x27, 0x78, 0x27, 0x2F, 0x3E] = none := by
  decide

/-- `<?` C3 A9 `xml encoding="latin1"?>` (a processing instruction with target `éxml`), and a label with a
    non-ASCII byte in it: not declarations. -/
example : xmlDeclaration ([0x3C, 0x3F, 0xC3, 0xA9] ++ asciiBytes ['x', 'm', 'l', ' ', 'e', 'n', 'c', 'o', 'd', 'i', 'n', 'g', '=',
    '"', 'l', 'a', 't', 'i', 'n', '1', '"', '?', '>']) = none := by decide
example : xmlDeclaration (asciiBytes ['<', '?', 'x', 'm', 'l', ' ', 'e', 'n', 'c', 'o', 'd', 'i', 'n', 'g', '=', '"', 'l'] ++ [0xE9] ++
    asciiBytes ['"', '?', '>']) = none :=
  C02_declaration_reader_non_ascii_none _ (asciiBytes ['<', '?', 'x', 'm', 'l', ' ', 'e', 'n', 'c', 'o', 'd', 'i', 'n', 'g', '=', '"', 'l'])
    (asciiBytes ['"', '?', '>']) 0xE9 (by decide) (by decide) (by decide)

/-- No limit on the length (/repo c3fcdf4; the former finding
    C02:decode-long-declaration-beyond-1024-differs-from-the-text): 1100 blanks before `encoding` push the
    end of the declaration beyond byte 1024, the label is read. -/
def exDeclLong : LDecl := { exDeclLatin with wEnc := List.replicate 1100 ' ' }
example : exDeclLong.ok = true := by decide +kernel
example : xmlDeclaration (asciiBytes exDeclLong.render ++ [0xE9]) = some ['l', 'a', 't', 'i', 'n', '1'] := by
  have := C02_declaration_reader_utf8 exDeclLong (by decide +kernel) false [0xE9]
  rw [encodeUtf8_ascii _ (fun c hc => (render_ascii exDeclLong (by decide +kernel) c hc).2)] at this
  exact this

/-- C02_bytes_utf8: (1) behind the UTF-8 byte order mark EVERY text comes back, the mark removed;
    (2) without the mark, a text that starts with a declaration — labelled with any label `for_label`
    maps to UTF-8 (`UTF-8`, `utf8`, …) or does not know, or without label — comes back. -/
theorem C02_bytes_utf8 :
    (∀ t : Str, decodeBytes (bom8 ++ encodeUtf8 t) = some t) ∧
    (∀ (d : LDecl) (body : Str), d.ok = true →
      (∀ L, d.encoding = some L → (forLabel (normalise L)).getD .utf8 = .utf8) →
      decodeBytes (encodeUtf8 (d.render ++ body)) = some (d.render ++ body)) :=
  ⟨decodeBytes_bom8, fun d body hok hl => decodeBytes_utf8_declared d hok hl body⟩

/-- The labels of the suite meet the label hypothesis. -/
example : ∀ L ∈ [['U', 'T', 'F', '-', '8'], ['u', 't', 'f', '-', '8'], ['u', 't', 'f', '8'], ['U', 'T', 'F', '8'],
    ['x', '-', 'u', 'n', 'k', 'n', 'o', 'w', 'n', '-', 'z', 'z'], ['U', 'T', 'F', '-', '7']],
    (forLabel (normalise L)).getD .utf8 = .utf8 := by decide

/-- C02_encoding_bait: UTF-8 bytes WITHOUT declaration (with or without byte order mark) decode as
    UTF-8 whatever `encoding=` / `charset=` text they contain (/repo 72a40b0, 41ece46).  "Without
    declaration" as the reader sees it (`hasDeclLookalike t = false`): after the byte order mark, the
    characters up to the first `>` are not all ASCII or do not begin `<?xml`. -/
theorem C02_encoding_bait (t : Str) (h : hasDeclLookalike t = false) :
    decodeBytes (encodeUtf8 t) = some (stripBom t) :=
  decodeBytes_utf8_undeclared t h

/-- … in particular every text that begins with `<` and an ASCII character other than `?`. -/
theorem C02_encoding_bait_tag (c : Char) (r : Str) (h0 : 0 < c.toNat) (h1 : c.toNat < 0x80) (hq : c ≠ '?') :
    decodeBytes (encodeUtf8 ('<' :: c :: r)) = some ('<' :: c :: r) :=
  decodeBytes_utf8_undeclared _ (noLookalike_of_lt c r h0 h1 hq)

/-- `<!-- encoding="latin1" --><a>é</a>` and `<?t charset='utf-16'?><a>é</a>`: not lookalikes. -/
example : hasDeclLookalike (['<', '!', '-', '-', ' ', 'e', 'n', 'c', 'o', 'd', 'i', 'n', 'g', '=', '"', 'l', 'a', 't', 'i', 'n', '1',
    '"', ' ', '-', '-', '>', '<', 'a', '>', 'é', '<', '/', 'a', '>']) = false := by decide
example : hasDeclLookalike (['<', '?', 't', ' ', 'c', 'h', 'a', 'r', 's', 'e', 't', '=', '\'', 'u', 't', 'f', '-', '1', '6', '\'',
    '?', '>', '<', 'a', '>', 'é', '<', '/', 'a', '>']) = false := by decide

/-- C02_pi_lookalike_fixed (the former finding C02:decode-pi-target-lookalike-differs-from-the-text,
    repaired in /repo 41ece46): the UTF-8 text `<?éxml encoding="latin1"?>é` — a processing instruction,
    not a declaration — is not a lookalike any more and comes back as it is. -/
theorem C02_pi_lookalike_fixed :
    decodeBytes (encodeUtf8 ['<', '?', 'é', 'x', 'm', 'l', ' ', 'e', 'n', 'c', 'o', 'd', 'i', 'n', 'g', '=', '"', 'l', 'a', 't',
      'i', 'n', '1', '"', '?', '>', 'é']) =
      some ['<', '?', 'é', 'x', 'm', 'l', ' ', 'e', 'n', 'c', 'o', 'd', 'i', 'n', 'g', '=', '"', 'l', 'a', 't',
        'i', 'n', '1', '"', '?', '>', 'é'] :=
  C02_encoding_bait _ (by decide)

/-- C02_bytes_utf16: behind the UTF-16 byte order mark of either byte order EVERY text comes back
    (declared `UTF-16`, declared anything else, or not declared at all: `Encoding::decode` sniffs the
    mark before it looks at the label). -/
theorem C02_bytes_utf16 (be : Bool) (t : Str) : decodeBytes (bom16 be ++ encodeUtf16 be t) = some t :=
  decodeBytes_bom16 be t

/-- C02_bytes_utf16_nobom: UTF-16 WITHOUT byte order mark, the text starting with a declaration whose
    label is `UTF-16` / `utf-16` (`label16_utf16`; generally any label that `for_label` maps to the
    UTF-16 of this byte order after `normalise` and `endianify`): the detector's `<?` pattern gives the
    byte order and the text comes back. -/
theorem C02_bytes_utf16_nobom (be : Bool) (d : LDecl) (hok : d.ok = true)
    (L : Str) (hL : d.encoding = some L) (hlabel : forLabel (label16 be L) = some (enc16 be)) (body : Str) :
    decodeBytes (encodeUtf16 be (d.render ++ body)) = some (d.render ++ body) :=
  decodeBytes_utf16_declared be d hok L hL hlabel body

example (be : Bool) : forLabel (label16 be ['U', 'T', 'F', '-', '1', '6']) = some (enc16 be) := (label16_utf16 be).1

/-- C02_bytes_latin: a text that starts with a declaration labelled iso-8859-1 / latin1 / windows-1252 /
    cp1252 / us-ascii / … (any label `for_label` maps to windows-1252), the declaration in ASCII and the
    rest ANY bytes: it decodes to the declaration followed by those bytes read through the
    windows-1252 table (`win1252`: ASCII and 0xA0..0xFF are the code point itself = ISO-8859-1;
    0x80..0x9F by the table).  A text is "within the code page" iff it is `body.map win1252`. -/
theorem C02_bytes_latin (d : LDecl) (hok : d.ok = true) (L : Str)
    (hL : d.encoding = some L) (hlabel : forLabel (normalise L) = some .windows1252) (body : Bytes) :
    decodeBytes (asciiBytes d.render ++ body) = some (d.render ++ body.map win1252) :=
  decodeBytes_latin d hok L hL hlabel body

example : ∀ L ∈ [['I', 'S', 'O', '-', '8', '8', '5', '9', '-', '1'], ['i', 's', 'o', '-', '8', '8', '5', '9', '-', '1'],
    ['l', 'a', 't', 'i', 'n', '1'], ['w', 'i', 'n', 'd', 'o', 'w', 's', '-', '1', '2', '5', '2'], ['c', 'p', '1', '2', '5', '2'],
    ['U', 'S', '-', 'A', 'S', 'C', 'I', 'I'], ['u', 's', '-', 'a', 's', 'c', 'i', 'i'], ['a', 's', 'c', 'i', 'i']],
    forLabel (normalise L) = some .windows1252 := by decide
example : [0x41, 0xE9, 0x80, 0x9F, 0xFF].map win1252 = ['A', 'é', '€', 'Ÿ', 'ÿ'] := by decide
/-- direct evaluation: `…encoding ='latin1'…?>` + `<a>` E9 80 `</a>` -/
example : decodeBytes (asciiBytes exDeclLatin.render ++ [0x3C, 0x61, 0x3E, 0xE9, 0x80, 0x3C, 0x2F, 0x61, 0x3E]) =
    some (exDeclLatin.render ++ ['<', 'a', '>', 'é', '€', '<', '/', 'a', '>']) := by decide

/-- C02_bytes_document: bytes that `decode` turns into the text of a whole document — any layout of a
    well-formed spelling, XML declaration or not (`LDoc`) — parse, through `parse_bytes`, to exactly
    the document the spelling denotes. -/
theorem C02_bytes_document {env : Env} (h : EnvBaseNs env) (sns : List NSNode) (hw : WellNsDoc sns)
    (htop : AbstractTopNs (NSNode.denote.denoteList baseScope sns)) (d : LDoc)
    (hl : d.items.map (Token.erase ∘ LToken.token) = (NSNode.tokens.tokensList sns).map Token.erase)
    (hok : d.ok = true) (hver : ∀ x, d.decl = some x → x.minor = ['0'])
    (bs : Bytes) (hdec : decodeBytes bs = some d.render) :
    ∃ p, Bytes.parseBytes .document env bs = some (.ok p) ∧
      decodeNs p.env p.tree.kids = some (NSNode.denote.denoteList baseScope sns) := by
  obtain ⟨p, hp, hd⟩ := C02_lexical_prolog h sns hw htop d hl hok hver
  exact ⟨p, by rw [Bytes.parseBytes, hdec, Option.map_some, hp], hd⟩

/-- … as UTF-16 in either byte order behind its byte order mark, or as UTF-8 behind its mark: every
    document (whatever its declaration says). -/
theorem C02_bytes_document_bom {env : Env} (h : EnvBaseNs env) (sns : List NSNode) (hw : WellNsDoc sns)
    (htop : AbstractTopNs (NSNode.denote.denoteList baseScope sns)) (d : LDoc)
    (hl : d.items.map (Token.erase ∘ LToken.token) = (NSNode.tokens.tokensList sns).map Token.erase)
    (hok : d.ok = true) (hver : ∀ x, d.decl = some x → x.minor = ['0'])
    (bs : Bytes) (hbs : bs = bom8 ++ encodeUtf8 d.render ∨ ∃ be, bs = bom16 be ++ encodeUtf16 be d.render) :
    ∃ p, Bytes.parseBytes .document env bs = some (.ok p) ∧
      decodeNs p.env p.tree.kids = some (NSNode.denote.denoteList baseScope sns) := by
  refine C02_bytes_document h sns hw htop d hl hok hver bs ?_
  rcases hbs with rfl | ⟨be, rfl⟩
  · exact decodeBytes_bom8 _
  · exact decodeBytes_bom16 be _

/-- … as UTF-8 without byte order mark, the document starting with its declaration (label UTF-8,
    none, or unknown to `for_label`). -/
theorem C02_bytes_document_utf8 {env : Env} (h : EnvBaseNs env) (sns : List NSNode) (hw : WellNsDoc sns)
    (htop : AbstractTopNs (NSNode.denote.denoteList baseScope sns)) (d : LDoc)
    (hl : d.items.map (Token.erase ∘ LToken.token) = (NSNode.tokens.tokensList sns).map Token.erase)
    (hok : d.ok = true) (hver : ∀ x, d.decl = some x → x.minor = ['0'])
    (x : LDecl) (hx : d.decl = some x) (hbom : d.bom = false)
    (hlabel : ∀ L, x.encoding = some L → (forLabel (normalise L)).getD .utf8 = .utf8) :
    ∃ p, Bytes.parseBytes .document env (encodeUtf8 d.render) = some (.ok p) ∧
      decodeNs p.env p.tree.kids = some (NSNode.denote.denoteList baseScope sns) := by
  refine C02_bytes_document h sns hw htop d hl hok hver _ ?_
  have hxok : x.ok = true := by
    simp only [LDoc.ok, hx, Bool.and_eq_true] at hok
    exact hok.1.1
  have hr : d.render = x.render ++ (renderL d.items ++ d.trail) := by
    simp [LDoc.render, LDoc.declText, hx, hbom]
  rw [hr]
  exact decodeBytes_utf8_declared x hxok hlabel _

/-- … as UTF-8 without declaration and without byte order mark (with the mark: `C02_bytes_document_bom`),
    under the reader's notion of "no declaration" (`C02_encoding_bait`).  `hfirst`: the text does not
    begin with U+FEFF (it begins with white space or `<`). -/
theorem C02_bytes_document_utf8_undeclared {env : Env} (h : EnvBaseNs env) (sns : List NSNode) (hw : WellNsDoc sns)
    (htop : AbstractTopNs (NSNode.denote.denoteList baseScope sns)) (d : LDoc)
    (hl : d.items.map (Token.erase ∘ LToken.token) = (NSNode.tokens.tokensList sns).map Token.erase)
    (hok : d.ok = true) (hdecl : d.decl = none) (hfirst : d.render.head? ≠ some '\uFEFF')
    (hno : hasDeclLookalike d.render = false) :
    ∃ p, Bytes.parseBytes .document env (encodeUtf8 d.render) = some (.ok p) ∧
      decodeNs p.env p.tree.kids = some (NSNode.denote.denoteList baseScope sns) := by
  have hdec := decodeBytes_utf8_undeclared d.render hno
  have hstrip : stripBom d.render = d.render := by
    cases hr : d.render with
    | nil => rfl
    | cons c r =>
      have hne : c ≠ '\uFEFF' := by
        intro e; subst e; rw [hr] at hfirst; exact hfirst rfl
      simp [stripBom, hne]
  rw [hstrip] at hdec
  exact C02_bytes_document h sns hw htop d hl hok (fun x hx => by simp [hdecl] at hx) _ hdec

/-- … in a single-byte encoding: the declaration (label mapped to windows-1252) in ASCII, the rest of
    the text = the remaining bytes through the windows-1252 table. -/
theorem C02_bytes_document_latin {env : Env} (h : EnvBaseNs env) (sns : List NSNode) (hw : WellNsDoc sns)
    (htop : AbstractTopNs (NSNode.denote.denoteList baseScope sns)) (d : LDoc)
    (hl : d.items.map (Token.erase ∘ LToken.token) = (NSNode.tokens.tokensList sns).map Token.erase)
    (hok : d.ok = true) (hver : ∀ x, d.decl = some x → x.minor = ['0'])
    (x : LDecl) (hx : d.decl = some x) (hbom : d.bom = false)
    (L : Str) (hL : x.encoding = some L) (hlabel : forLabel (normalise L) = some .windows1252)
    (body : Bytes) (hbody : body.map win1252 = renderL d.items ++ d.trail) :
    ∃ p, Bytes.parseBytes .document env (asciiBytes x.render ++ body) = some (.ok p) ∧
      decodeNs p.env p.tree.kids = some (NSNode.denote.denoteList baseScope sns) := by
  refine C02_bytes_document h sns hw htop d hl hok hver _ ?_
  have hxok : x.ok = true := by
    simp only [LDoc.ok, hx, Bool.and_eq_true] at hok
    exact hok.1.1
  have hr : d.render = x.render ++ (renderL d.items ++ d.trail) := by
    simp [LDoc.render, LDoc.declText, hx, hbom]
  rw [hr, ← hbody]
  exact decodeBytes_latin x hxok L hL hlabel body

/-- Non-vacuity: the document of the C02_lexical_prolog example (`exDoc`: byte order mark, declaration
    `version = '1.0' encoding="UTF-8" ?`, comment, namespaced element), written as UTF-16BE behind its
    byte order mark, parses through `parse_bytes` to that document. -/
example : ∃ p, Bytes.parseBytes .document Env.fresh (bom16 true ++ encodeUtf16 true exDoc.render) = some (.ok p) ∧
    decodeNs p.env p.tree.kids = some
      [.comment ['c'],
       .elem ['u'] ['a'] [(['p'], ['u'])] [(([], ['k']), ['v', '&'])] [.elem [] ['b'] [] [] [], .text ['t']]] :=
  C02_bytes_document_bom C02_envBaseNs_fresh exSns (wellNsDocB_sound _ (by decide))
    ⟨rfl, fun d hd => by
      rw [show NSNode.denote.denoteList baseScope exSns =
        [.comment ['c'],
         .elem ['u'] ['a'] [(['p'], ['u'])] [(([], ['k']), ['v', '&'])] [.elem [] ['b'] [] [] [], .text ['t']]]
        from rfl] at hd
      simp only [List.mem_cons, List.not_mem_nil, or_false] at hd
      rcases hd with rfl | rfl <;> rfl⟩
    exDoc (by decide) (by decide) (fun x hx => by cases hx; rfl) _ (Or.inr ⟨true, rfl⟩)

end XotModel.Props
