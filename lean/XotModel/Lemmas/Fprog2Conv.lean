/-
  Lemmas for C20 (extended construction programs), part 9: implementation ⇒ specification.

  A call the forest model answers `ok` is accepted by the ordered-tree specification (`spec_of_ok`: the
  well-formedness tests `replaceOk`, `wrapOk`, `unwrapOk`, the kind of the node for a setter are read off
  xot's own argument checks); with `call_spec_impl` the two resulting stores are the same.  Hence for
  whole programs: a run answered `ok` throughout is the specification's run (`run_impl_spec`), and the
  first refused step is the first ill-formed step (`firstRefused_eq`).
-/
import XotModel.Lemmas.Fprog2Main

namespace XotModel
namespace Prog2
open HTree Spec Prog XotModel.Props

theorem movable_of_normal {v : Value} (hn : v.isNormal = true) (hd : v.isDocument = false) : movable v = true := by
  cases v <;> simp_all [movable, Value.isNormal, Value.category, Value.isDocument]

theorem isMovableAt_of {f : Forest} {n : Nat} (hd : f.isDocument n = false) (hn : f.isNormalNode n = true) :
    isMovableAt f n = true := by
  unfold isMovableAt
  unfold Forest.isDocument at hd
  unfold Forest.isNormalNode at hn
  cases hv : f.value? n with
  | none => rw [hv] at hn; simp at hn
  | some v =>
    rw [hv] at hd hn
    have h1 : v.isNormal = true := by simpa using hn
    have h2 : v.isDocument = false := by
      cases h : v.isDocument with
      | false => rfl
      | true => simp [h] at hd
    simp [movable_of_normal h1 h2]

theorem replaceOk_of_ok {f : Forest} {a b : Nat} (hok : (f.replace a b).2 = .ok) : replaceOk f a b = true := by
  have hd : f.isDocument a = false := by
    cases h : f.isDocument a with
    | false => rfl
    | true => unfold Forest.replace at hok; simp [h] at hok
  cases hpa : f.parent? a with
  | none => unfold Forest.replace at hok; simp [hd, hpa] at hok
  | some q =>
  have hna : f.isNormalNode a = true := by
    cases h : f.isNormalNode a with
    | true => rfl
    | false => unfold Forest.replace at hok; simp [hd, hpa, h] at hok
  have hsc : f.structureCheck (some q) b = true := by
    cases h : f.structureCheck (some q) b with
    | true => rfl
    | false => unfold Forest.replace at hok; simp [hd, hpa, hna, h] at hok
  have hanc : (f.ancestors b).contains a = false := by
    cases h : (f.ancestors b).contains a with
    | false => rfl
    | true =>
      have hm : a ∈ f.ancestors b := List.contains_iff_mem.1 h
      unfold Forest.replace at hok; simp [hd, hpa, hna, hsc, hm] at hok
  rw [structureCheck_eq] at hsc
  simp only [Bool.and_eq_true, Bool.not_eq_true'] at hsc
  unfold replaceOk
  rw [hpa]
  simp only [Bool.and_eq_true, Bool.not_eq_true']
  exact ⟨⟨⟨⟨isMovableAt_of hd hna, hsc.1.1⟩, hsc.1.2⟩, hsc.2⟩, hanc⟩

theorem wrapOk_of_ok {f : Forest} {n name : Nat} (hok : (f.elementWrap n name).2.1 = .ok) : wrapOk f n = true := by
  obtain ⟨h1, h2, h3⟩ := elementWrap_guards hok
  unfold wrapOk
  rw [isMovableAt_of h1 h2, Bool.true_and]
  cases hp : f.parent? n with
  | none => rfl
  | some p =>
    simp only [Bool.or_eq_true, Bool.not_eq_true']
    unfold Forest.isDocumentElement Forest.hasDocumentParent at h3
    rw [hp] at h3
    simp only at h3
    cases hdp : f.isDocument p with
    | false =>
      left
      unfold Forest.isDocument at hdp
      exact hdp
    | true =>
      right
      rw [hdp] at h3
      rw [isElementAt_eq]
      simpa using h3

theorem unwrapOk_of_ok {f : Forest} {n : Nat} (hok : (f.elementUnwrap n).2 = .ok) : unwrapOk f n = true := by
  have he : f.isElement n = true := by
    cases h : f.isElement n with
    | true => rfl
    | false => unfold Forest.elementUnwrap at hok; simp [h] at hok
  unfold unwrapOk
  rw [isElementAt_eq, he, Bool.true_and, Bool.or_eq_true]
  cases hfc : f.firstChild n with
  | none =>
    left
    unfold Forest.firstChild at hfc
    unfold Forest.kidsOf
    cases hg : f.get? n with
    | none => rfl
    | some t =>
      rw [hg] at hfc
      simp only [Option.map_eq_none_iff, List.head?_eq_none_iff] at hfc
      simp only
      rw [List.isEmpty_iff, List.filter_eq_nil_iff]
      intro k hk
      have hall : ∀ (L : List HTree), L.dropWhile (fun k => !k.value.isNormal) = [] →
          ∀ x ∈ L, x.value.isNormal = false := by
        intro L
        induction L with
        | nil => intro _ x hx; cases hx
        | cons a L ih =>
          intro hL x hx
          rw [List.dropWhile_cons] at hL
          split at hL
          · rename_i ha
            rcases List.mem_cons.1 hx with e | e
            · rw [e]; simpa using ha
            · exact ih hL x e
          · cases hL
      have := hall t.kids hfc k hk
      simp [this]
  | some first =>
    right
    cases hp : f.parent? n with
    | some p => rfl
    | none =>
      unfold Forest.elementUnwrap at hok
      simp [he, hfc, hp] at hok

/-- **ok ⇒ accepted**: a call the implementation answers `ok` is well-formed for the specification. -/
theorem spec_of_ok {f : Forest} (inv : f.Inv) (hfl : FlagsOk f) (c : Call) (hs : c.inScope f = true)
    {f' : Forest} {o : Option Nat} (h : c.impl f = (f', .ok, o)) : ∃ g o', c.spec f = some (g, o') := by
  cases c with
  | base c => exact ⟨f', o, Prog.call_impl_spec inv hfl c hs h⟩
  | detach n =>
    simp only [Call.inScope] at hs
    exact ⟨specDetachP n f, none, by simp only [Call.spec, hs, if_true]⟩
  | remove n =>
    simp only [Call.inScope] at hs
    exact ⟨specRemoveP n f, none, by simp only [Call.spec, hs, if_true]⟩
  | replace a b =>
    have hok : (f.replace a b).2 = .ok := by
      have := congrArg (fun x => x.2.1) h
      exact this
    exact ⟨specReplaceP a b f, none, by simp only [Call.spec, replaceOk_of_ok hok, if_true]⟩
  | wrap n name =>
    have hok : (f.elementWrap n name).2.1 = .ok := by
      have := congrArg (fun x => x.2.1) h
      exact this
    exact ⟨specWrap n name f, some f.next, by simp only [Call.spec, wrapOk_of_ok hok, if_true]⟩
  | unwrap n =>
    have hok : (f.elementUnwrap n).2 = .ok := by
      have := congrArg (fun x => x.2.1) h
      exact this
    exact ⟨specUnwrapP n f, none, by simp only [Call.spec, unwrapOk_of_ok hok, if_true]⟩
  | setText n s =>
    have hok : (f.setText n s).2 = .ok := by
      have := congrArg (fun x => x.2.1) h
      exact this
    obtain ⟨_, old, hv⟩ := C05_setText hok
    exact ⟨specSetValue n (.text s) f, none, by simp only [Call.spec, hv]⟩
  | setElementName n name =>
    have hok : (f.setElementName n name).2 = .ok := by
      have := congrArg (fun x => x.2.1) h
      exact this
    have he : f.isElement n = true := by
      cases he : f.isElement n with
      | true => rfl
      | false => unfold Forest.setElementName at hok; simp [he] at hok
    exact ⟨specSetValue n (.element name) f, none, by simp only [Call.spec, isElementAt_eq, he, if_true]⟩
  | setAttributeValue n s =>
    have hok : (f.attributeSetValue n s).2 = .ok := by
      have := congrArg (fun x => x.2.1) h
      exact this
    obtain ⟨k, old, hv, _⟩ := (C05_creation_setters (f := f) (n := n)).2.1 s hok
    exact ⟨specSetValue n (.attribute k s) f, none, by simp only [Call.spec, hv]⟩
  | setComment n s =>
    have hok : (f.setComment n s).2 = .ok := by
      have := congrArg (fun x => x.2.1) h
      exact this
    obtain ⟨_, old, hv⟩ := C05_setComment hok
    have hd : Forest.hasDoubleDash s = false := by
      cases hd : Forest.hasDoubleDash s with
      | false => rfl
      | true => unfold Forest.setComment at hok; simp [hv, hd] at hok
    exact ⟨specSetValue n (.comment s) f, none, by simp only [Call.spec, hv, hd, Bool.false_eq_true, if_false]⟩
  | setPiData n d =>
    have hok : (f.setPiData n d).2 = .ok := by
      have := congrArg (fun x => x.2.1) h
      exact this
    obtain ⟨t, old, hv, _⟩ := C05_setPiData hok
    exact ⟨specSetValue n (.pi t (piData d)) f, none, by simp only [Call.spec, hv]⟩
  | clone n =>
    cases hg : f.get? n with
    | some src => exact ⟨specClone n f, some (copyRoot f.consolidation f.next src).1.handle, by simp only [Call.spec, hg]⟩
    | none =>
      exfalso
      simp only [Call.impl, Forest.cloneNode, hg] at h
      cases h

/-- **One call, implementation ⇒ specification**, same store, same created node. -/
theorem call_impl_spec {f : Forest} (inv : f.Inv) (hfl : FlagsOk f) (c : Call) (hs : c.inScope f = true)
    {f' : Forest} {o : Option Nat} (h : c.impl f = (f', .ok, o)) : c.spec f = some (f', o) := by
  obtain ⟨g, o', hsp⟩ := spec_of_ok inv hfl c hs h
  have := call_spec_impl inv hfl c hsp
  rw [h] at this
  simp only [Prod.mk.injEq, true_and] at this
  rw [hsp, this.1, this.2]

theorem step_impl_spec {s s' : State} {st : Step} (inv : s.forest.Inv) (hfl : FlagsOk s.forest)
    (hsc : ∀ c, st.resolve s.env = some c → c.inScope s.forest = true)
    (h : stepImpl s st = (s', .ok)) : stepSpec s st = some s' := by
  unfold stepImpl at h
  unfold stepSpec
  cases hr : st.resolve s.env with
  | none => rw [hr] at h; simp at h
  | some c =>
    rw [hr] at h
    simp only at h ⊢
    cases hi : c.impl s.forest with
    | mk f' ro =>
      obtain ⟨r, o⟩ := ro
      rw [hi] at h
      simp only [Prod.mk.injEq] at h
      obtain ⟨h1, h2⟩ := h
      subst h2
      rw [call_impl_spec inv hfl c (hsc c hr) hi]
      simp only
      rw [← h1]

/-- **Refinement, implementation ⇒ specification**: a program every step of which the implementation
    answers `ok` is well-formed for the specification, with the same final state. -/
theorem run_impl_spec : ∀ (P : Program) (s : State), s.forest.Inv → FlagsOk s.forest → inScope s P = true →
    (runImpl s P).2 = .ok → runSpec s P = some (runImpl s P).1
  | [], _, _, _, _, _ => rfl
  | st :: rest, s, inv, hfl, hsc, hok => by
    simp only [runImpl] at hok ⊢
    simp only [runSpec]
    simp only [inScope, Bool.and_eq_true] at hsc
    obtain ⟨hsc1, hsc2⟩ := hsc
    cases hst : stepImpl s st with
    | mk s' r =>
      rw [hst] at hok hsc2
      cases r with
      | ok =>
        simp only at hok hsc2 ⊢
        have hsc' : ∀ c, st.resolve s.env = some c → c.inScope s.forest = true := by
          intro c hc; rw [hc] at hsc1; exact hsc1
        have e1 := step_impl_spec inv hfl hsc' hst
        rw [e1]
        obtain ⟨i1, f1⟩ := stepSpec_inv inv hfl e1
        exact run_impl_spec rest s' i1 f1 hsc2 hok
      | err e => simp at hok
      | panic => simp at hok

/-- The first step the implementation does not answer `ok` is the first step the specification calls
    ill-formed. -/
theorem firstRefused_eq : ∀ (P : Program) (s : State), s.forest.Inv → FlagsOk s.forest → inScope s P = true →
    firstRefused s P = firstIllFormed s P
  | [], _, _, _, _ => rfl
  | st :: rest, s, inv, hfl, hsc => by
    simp only [inScope, Bool.and_eq_true] at hsc
    obtain ⟨hsc1, hsc2⟩ := hsc
    simp only [firstRefused, firstIllFormed]
    cases hs : stepSpec s st with
    | some s1 =>
      have hi := step_spec_impl inv hfl hs
      rw [hi] at hsc2 ⊢
      simp only at hsc2 ⊢
      obtain ⟨i1, f1⟩ := stepSpec_inv inv hfl hs
      rw [firstRefused_eq rest s1 i1 f1 hsc2]
    | none =>
      cases hst : stepImpl s st with
      | mk s' r =>
        cases r with
        | ok =>
          exfalso
          have hsc' : ∀ c, st.resolve s.env = some c → c.inScope s.forest = true := by
            intro c hc; rw [hc] at hsc1; exact hsc1
          have := step_impl_spec inv hfl hsc' hst
          rw [hs] at this; cases this
        | err e => rfl
        | panic => rfl

end Prog2
end XotModel
