/-
  Lemmas for C12, part 22 (clone_with_prefixes): the insertion loop over the inherited prefixes,
  for any order, is `addSpec` on the children of the clone's root: each missing prefix becomes a
  new namespace node right after the namespace nodes already there; it cannot panic.
-/
import XotModel.Lemmas.FcloneMain
import XotModel.Model.FcloneModel

namespace XotModel
open HTree

/-- The loop of `clone_with_prefixes` on the child list `K` of the clone's root, new handles
    from `n`. -/
def addSpec (K : List HTree) (n : Nat) : List (Nat × Nat) → List HTree × Nat
  | [] => (K, n)
  | (p, ns) :: rest =>
    if ((K.takeWhile (fun c => c.value.category == .namespace)).find?
        (fun c => Forest.entryKey c.value == p)).isSome then addSpec K n rest
    else addSpec (K.takeWhile (fun c => c.value.category == .namespace) ++
      [.node n (.namespace p ns) []] ++ K.dropWhile (fun c => c.value.category == .namespace)) (n + 1) rest

theorem replaceKids_mid (h : Nat) (f : HTree → List HTree) (A B : List HTree) (x : HTree)
    (hx : x.handle = h) (hn : h ∉ handlesList A) : replaceKids h f (A ++ x :: B) = A ++ f x ++ B := by
  rw [replaceKids_append_of_not_mem h f _ _ hn]
  simp [replaceKids, hx]

namespace Work

variable {g : Forest} {R : List HTree} {c : Nat} {vc : Value} {n : Nat} {v : Value}

/-- Inserting the new node after a child `x` of a root `c`. -/
theorem checkedInsertAfter_mid {A B : List HTree} {x : HTree}
    (w : Work g R [] c vc (A ++ x :: B) n v) :
    g.checkedInsertAfter x.handle n =
      (g.withRoots (R ++ [.node c vc (A ++ [x, .node n v []] ++ B)]), true) := by
  have hxK : x.handle ∈ handlesList (A ++ x :: B) := by
    rw [handlesList_append]
    simp [handlesList, fc_handle_mem_handles]
  have hxR := w.kR hxK
  have hxc := w.kc hxK
  have hxn := w.kn hxK
  have hxA : x.handle ∉ handlesList A := by
    have hnd := w.nodupK
    rw [handlesList_append] at hnd
    intro hm
    exact (List.nodup_append.mp hnd).2.2 _ hm _ (by simp [handlesList, fc_handle_mem_handles]) rfl
  have hanc : g.ancestors x.handle = [x.handle, c] := by
    unfold Forest.ancestors
    rw [w.roots, List.findSome?_append, findSome?_ancestorsOf_none _ R hxR]
    simp only [fcPlug]
    rw [List.findSome?_cons, ancestorsOf_node_ne _ _ (Ne.symm hxc),
      fc_ancestorsOfList_append_of_not_mem _ _ _ hxA]
    have : ancestorsOf x.handle x = some [x.handle] := by
      cases x with
      | node hx vx kx => simp [ancestorsOf, HTree.handle]
    simp [ancestorsOfList, this]
  have hroot : g.isRoot x.handle = false := by
    unfold Forest.isRoot
    rw [w.roots]
    have h2 : (HTree.node n v []).handle = n := rfl
    have h3 : (fcPlug [] (.node c vc (A ++ x :: B))).handle = c := rfl
    simp only [List.any_append, any_handle_eq_false_of_not_mem _ R hxR, List.any_cons, h2, h3,
      List.any_nil, Bool.or_false, Bool.false_or, Ne.symm hxc, Ne.symm hxn, decide_false]
  unfold Forest.checkedInsertAfter
  have h1 : (x.handle = n) = False := by simp [hxn]
  have hcont : (g.ancestors x.handle).contains n = false := by
    rw [hanc]
    simp [Ne.symm hxn, w.nc]
  simp only [h1, if_false, hcont, hroot, Bool.or_false, Bool.false_eq_true, w.cut_n]
  unfold Forest.placeAfter
  simp only [Forest.withRoots_roots, List.map_append, List.map_cons, List.map_nil, fcPlug]
  rw [map_replaceBelow_of_not_mem _ _ R hxR]
  have : replaceBelow x.handle (fun r => [r, .node n v []]) (.node c vc (A ++ x :: B)) =
      .node c vc (A ++ [x, .node n v []] ++ B) := by
    simp only [replaceBelow]
    rw [replaceKids_mid _ _ A B x rfl hxA]
  rw [this]
  rfl

end Work

namespace Cloning

variable {g : Forest} {R : List HTree} {c : Nat} {vc : Value} {K : List HTree}

theorem get?_c (cl : Cloning g R [] c vc K) : g.get? c = some (.node c vc K) := by
  have hc : c ∉ handlesList R := by
    intro h
    exact (List.nodup_append.mp cl.nodup).2.2 c h c (by simp [frameHandles]) rfl
  exact top_get? g R c vc K cl.roots hc

/-- After `new_node` and a placement that keeps all handles (in any position). -/
theorem afterInsert (cl : Cloning g R [] c vc K) (v : Value) (K1 : List HTree)
    (hK : (handlesList K1).Perm (handlesList K ++ [g.next])) :
    Cloning ((g.newNode v).1.withRoots (R ++ [.node c vc K1])) R [] c vc K1 := by
  have hperm : (handlesList R ++ (frameHandles [] ++ c :: handlesList K1)).Perm
      ((handlesList R ++ (frameHandles [] ++ c :: handlesList K)) ++ [g.next]) := by
    simp only [frameHandles, List.nil_append, List.append_assoc, List.cons_append]
    exact List.Perm.append_left _ (List.Perm.cons _ hK)
  refine ⟨rfl, ?_, ?_⟩
  · rw [hperm.nodup_iff, List.nodup_append]
    refine ⟨cl.nodup, by simp, ?_⟩
    intro a ha b hb
    simp only [List.mem_singleton] at hb
    have := cl.below a ha
    omega
  · intro h hh
    have hm := hperm.mem_iff.mp hh
    show h < g.next + 1
    rcases List.mem_append.mp hm with h1 | h1
    · have := cl.below h h1; omega
    · simp only [List.mem_singleton] at h1; omega

end Cloning

/-- One insertion of a missing prefix. -/
theorem mapInsert_ns_spec {g : Forest} {R : List HTree} {c : Nat} {vc : Value} {K : List HTree}
    (cl : Cloning g R [] c vc K) (hel : vc.isElement = true) (p ns : Nat)
    (hmiss : ((K.takeWhile (fun c => c.value.category == .namespace)).find?
        (fun c => Forest.entryKey c.value == p)) = none) :
    ∃ g', g.mapInsert .namespaces c (.namespace p ns) = (g', .ok) ∧
      Cloning g' R [] c vc (K.takeWhile (fun c => c.value.category == .namespace) ++
        [.node g.next (.namespace p ns) []] ++ K.dropWhile (fun c => c.value.category == .namespace)) ∧
      g'.next = g.next + 1 ∧ SameFlags g g' := by
  have hsplit : K = K.takeWhile (fun c => c.value.category == .namespace) ++
      K.dropWhile (fun c => c.value.category == .namespace) := List.takeWhile_append_dropWhile.symm
  generalize hKn : K.takeWhile (fun c => c.value.category == .namespace) = Kn at hmiss hsplit ⊢
  generalize hKr : K.dropWhile (fun c => c.value.category == .namespace) = Kr at hsplit ⊢
  have hget : g.mapGetNode .namespaces c (Forest.entryKey (.namespace p ns)) = none := by
    unfold Forest.mapGetNode
    rw [cl.get?_c]
    simp only [Forest.mapChildren, HTree.kids, hKn, Forest.entryKey]
    exact hmiss
  have hiel : g.isElement c = true := by
    simp [Forest.isElement, Forest.value?, cl.get?_c, HTree.value, hel]
  have w := cl.work (.namespace p ns)
  have hip : (g.newNode (.namespace p ns)).1.mapInsertionPoint .namespaces c =
      Kn.getLast?.map (·.handle) := by
    unfold Forest.mapInsertionPoint
    rw [w.get?_c]
    simp only [Forest.mapChildren, HTree.kids, hKn]
    cases Kn.getLast? <;> rfl
  have hperm : (handlesList (Kn ++ [HTree.node g.next (.namespace p ns) []] ++ Kr)).Perm
      (handlesList K ++ [g.next]) := by
    rw [hsplit]
    simp only [handlesList_append, handlesList_singleton, handles, handlesList, List.append_assoc,
      List.cons_append, List.nil_append]
    exact List.Perm.append_left _ (List.perm_append_singleton _ _).symm
  have place : (g.newNode (.namespace p ns)).1.mapPlace .namespaces c g.next =
      ((g.newNode (.namespace p ns)).1.withRoots (R ++ [.node c vc (Kn ++
        [.node g.next (.namespace p ns) []] ++ Kr)]), .ok) := by
    unfold Forest.mapPlace
    rw [hip]
    rcases List.eq_nil_or_concat Kn with rfl | ⟨Kn', x, rfl⟩
    · simp only [List.getLast?_nil, Option.map_none]
      rw [w.checkedPrepend_fresh]
      simp [fcPlug, hsplit]
    · rw [List.concat_eq_append] at hsplit ⊢
      simp only [List.getLast?_concat, Option.map_some]
      have w' : Work (g.newNode (.namespace p ns)).1 R [] c vc (Kn' ++ x :: Kr) g.next (.namespace p ns) := by
        have : K = Kn' ++ x :: Kr := by rw [hsplit]; simp
        rw [← this]; exact w
      rw [w'.checkedInsertAfter_mid]
      simp
  refine ⟨_, ?_, cl.afterInsert (.namespace p ns) _ hperm, rfl, ⟨rfl, rfl, rfl⟩⟩
  unfold Forest.mapInsert
  simp only [hiel, Bool.not_true, Bool.false_eq_true, if_false, hget]
  have : g.newNode (.namespace p ns) = ((g.newNode (.namespace p ns)).1, g.next) := rfl
  rw [this]
  simp only [place]

/-- The whole loop, for any order: `addSpec`, no panic. -/
theorem addPrefixes_spec : ∀ (order : List (Nat × Nat)) {g : Forest} {R : List HTree} {c : Nat}
    {vc : Value} {K : List HTree}, Cloning g R [] c vc K → vc.isElement = true →
    ∃ g', g.addPrefixes c order = (g', .ok) ∧ Cloning g' R [] c vc (addSpec K g.next order).1 ∧
      g'.next = (addSpec K g.next order).2 ∧ SameFlags g g'
  | [], g, _, _, _, _, cl, _ => ⟨g, rfl, cl, rfl, SameFlags.refl g⟩
  | (p, ns) :: rest, g, R, c, vc, K, cl, hel => by
    unfold Forest.addPrefixes
    have hg : g.mapGetNode .namespaces c p =
        (K.takeWhile (fun c => c.value.category == .namespace)).find?
          (fun c => Forest.entryKey c.value == p) := by
      unfold Forest.mapGetNode
      rw [cl.get?_c]
      rfl
    rw [hg]
    simp only [addSpec]
    by_cases hs : ((K.takeWhile (fun c => c.value.category == .namespace)).find?
        (fun c => Forest.entryKey c.value == p)).isSome = true
    · rw [if_pos hs, if_pos hs]
      exact addPrefixes_spec rest cl hel
    · rw [if_neg hs, if_neg hs]
      have hnone : ((K.takeWhile (fun c => c.value.category == .namespace)).find?
          (fun c => Forest.entryKey c.value == p)) = none := by
        simpa using hs
      obtain ⟨g1, h1, cl1, hn1, hf1⟩ := mapInsert_ns_spec cl hel p ns hnone
      obtain ⟨g2, h2, cl2, hn2, hf2⟩ := addPrefixes_spec rest cl1 hel
      rw [h1]
      simp only
      rw [hn1] at cl2 hn2
      exact ⟨g2, h2, cl2, hn2, hf1.trans hf2⟩

end XotModel
