/-
  Completeness of `WellNsDoc`, part 1: every text `parse_content` accepts IS the rendering of a
  well-spelled piece list (the converse of `parse_pieces`, Lemmas/ParseContent.lean).
-/
import XotModel.Lemmas.ParseContent

namespace XotModel
open Gen

theorem splitSemi_spec {s e r : Str} (h : splitSemi s = some (e, r)) : s = e ++ ';' :: r ∧ ';' ∉ e := by
  induction s generalizing e with
  | nil => simp [splitSemi] at h
  | cons c cs ih =>
    unfold splitSemi at h
    split at h
    · rename_i hc
      simp only [Option.some.injEq, Prod.mk.injEq] at h
      obtain ⟨rfl, rfl⟩ := h
      subst hc
      exact ⟨rfl, by simp⟩
    · rename_i hc
      cases hs : splitSemi cs with
      | none => simp [hs] at h
      | some p =>
        obtain ⟨e', r'⟩ := p
        simp only [hs, Option.some.injEq, Prod.mk.injEq] at h
        obtain ⟨rfl, rfl⟩ := h
        obtain ⟨h1, h2⟩ := ih hs
        refine ⟨by rw [h1]; rfl, ?_⟩
        simp only [List.mem_cons, not_or]
        exact ⟨fun he => hc he.symm, h2⟩

/-! ### Digits read back -/

theorem digitVal_dec_inv {c : Char} {d : Nat} (h : digitVal 10 c = some d) : d < 10 ∧ decChar d = c := by
  unfold digitVal at h
  simp only at h
  have hc := Char.ofNat_toNat c
  split at h
  · rename_i v hv
    split at h
    · rename_i hlt
      simp only [Option.some.injEq] at h
      subst h
      refine ⟨hlt, ?_⟩
      split at hv
      · rename_i hr
        simp only [Option.some.injEq] at hv
        subst hv
        unfold decChar
        rw [show 48 + (c.toNat - 48) = c.toNat by omega]; exact hc
      · split at hv
        · simp only [Option.some.injEq] at hv; omega
        · split at hv
          · simp only [Option.some.injEq] at hv; omega
          · cases hv
    · cases h
  · cases h

theorem digitVal_hex_inv {c : Char} {d : Nat} (h : digitVal 16 c = some d) :
    d < 16 ∧ ∃ up, hexChar (d, up) = c := by
  unfold digitVal at h
  simp only at h
  have hc := Char.ofNat_toNat c
  split at h
  · rename_i v hv
    split at h
    · rename_i hlt
      simp only [Option.some.injEq] at h
      subst h
      refine ⟨hlt, ?_⟩
      split at hv
      · rename_i hr
        simp only [Option.some.injEq] at hv
        subst hv
        refine ⟨false, ?_⟩
        unfold hexChar
        have : c.toNat - 48 < 10 := by omega
        simp only [this, if_true]
        rw [show 48 + (c.toNat - 48) = c.toNat by omega]; exact hc
      · split at hv
        · rename_i hr
          simp only [Option.some.injEq] at hv
          subst hv
          refine ⟨false, ?_⟩
          unfold hexChar
          have : ¬ (c.toNat - 97 + 10 < 10) := by omega
          simp only [this, if_false, Bool.false_eq_true]
          rw [show 87 + (c.toNat - 97 + 10) = c.toNat by omega]; exact hc
        · split at hv
          · rename_i hr
            simp only [Option.some.injEq] at hv
            subst hv
            refine ⟨true, ?_⟩
            unfold hexChar
            have : ¬ (c.toNat - 65 + 10 < 10) := by omega
            simp only [this, if_false, if_true]
            rw [show 55 + (c.toNat - 65 + 10) = c.toNat by omega]; exact hc
          · cases hv
    · cases h
  · cases h

theorem parseDigits_dec_inv : ∀ (s : Str) (acc n : Nat), parseDigits 10 acc s = some n →
    ∃ ds : List Nat, ds.map decChar = s ∧ (∀ d ∈ ds, d < 10) ∧ evalDigits 10 acc ds = n
  | [], acc, n, h => by
    simp only [parseDigits, Option.some.injEq] at h
    exact ⟨[], rfl, fun _ hd => (by cases hd), by simpa [evalDigits] using h⟩
  | c :: cs, acc, n, h => by
    simp only [parseDigits] at h
    cases hd : digitVal 10 c with
    | none => simp [hd] at h
    | some d =>
      simp only [hd] at h
      split at h
      · obtain ⟨ds, h1, h2, h3⟩ := parseDigits_dec_inv cs _ n h
        obtain ⟨hlt, hch⟩ := digitVal_dec_inv hd
        refine ⟨d :: ds, by simp [h1, hch], ?_, by simpa [evalDigits] using h3⟩
        intro x hx
        simp only [List.mem_cons] at hx
        rcases hx with rfl | hx
        · exact hlt
        · exact h2 x hx
      · cases h

theorem parseDigits_hex_inv : ∀ (s : Str) (acc n : Nat), parseDigits 16 acc s = some n →
    ∃ ds : List (Nat × Bool), ds.map hexChar = s ∧ (∀ d ∈ ds, d.1 < 16) ∧
      evalDigits 16 acc (ds.map (·.1)) = n
  | [], acc, n, h => by
    simp only [parseDigits, Option.some.injEq] at h
    exact ⟨[], rfl, fun _ hd => (by cases hd), by simpa [evalDigits] using h⟩
  | c :: cs, acc, n, h => by
    simp only [parseDigits] at h
    cases hd : digitVal 16 c with
    | none => simp [hd] at h
    | some d =>
      simp only [hd] at h
      split at h
      · obtain ⟨ds, h1, h2, h3⟩ := parseDigits_hex_inv cs _ n h
        obtain ⟨hlt, up, hch⟩ := digitVal_hex_inv hd
        refine ⟨(d, up) :: ds, by simp [h1, hch], ?_, by simpa [evalDigits] using h3⟩
        intro x hx
        simp only [List.mem_cons] at hx
        rcases hx with rfl | hx
        · exact hlt
        · exact h2 x hx
      · cases h

/-- A reference `&ent;` that decodes is the rendering of one well-spelled piece. -/
theorem decodeEntity_piece {ent : Str} {ch : Char} (hsemi : ';' ∉ ent) (h : decodeEntity ent = some ch) :
    ∃ p : Piece, p.ok ∧ p ≠ .cr ∧ renderPiece p = '&' :: (ent ++ [';']) := by
  unfold decodeEntity at h
  split at h
  · rename_i num
    split at h
    · cases h
    · rename_i hex
      -- hexadecimal
      cases hp : parseU32 16 hex with
      | none => simp [hp] at h
      | some n =>
        simp only [hp, Option.bind_some] at h
        unfold parseU32 at hp
        split at hp
        · cases hp
        · rename_i hne
          obtain ⟨ds, h1, h2, h3⟩ := parseDigits_hex_inv hex 0 n hp
          refine ⟨.hex ds, ⟨?_, h2, by rw [h3, h]; rfl⟩, by simp, by simp [renderPiece, h1]⟩
          intro hds; subst hds
          simp only [List.map_nil] at h1
          exact hne h1.symm
    · rename_i hnil hx
      cases hp : parseU32 10 num with
      | none => simp [hp] at h
      | some n =>
        simp only [hp, Option.bind_some] at h
        unfold parseU32 at hp
        split at hp
        · cases hp
        · rename_i hne
          obtain ⟨ds, h1, h2, h3⟩ := parseDigits_dec_inv num 0 n hp
          refine ⟨.dec ds, ⟨?_, h2, by rw [h3, h]; rfl⟩, by simp, by simp [renderPiece, h1]⟩
          intro hds; subst hds
          simp only [List.map_nil] at h1
          exact hne h1.symm
  · rename_i hns
    refine ⟨.named ent, ⟨hsemi, fun r hr => hns r hr, by rw [h]; rfl⟩, by simp, by simp [renderPiece]⟩

theorem consOk_ok {c : Char} {r : Except ContentErr Str} {v : Str} (h : consOk c r = .ok v) :
    ∃ v', r = .ok v' := by
  cases r with
  | ok v' => exact ⟨v', rfl⟩
  | error e => cases h

theorem wellSpelled_cons_of_ne_cr {p : Piece} {rest : List Piece} (hp : p ≠ .cr) (hok : p.ok)
    (hr : WellSpelled rest) : WellSpelled (p :: rest) := by
  cases p with
  | cr => exact absurd rfl hp
  | lit c => exact ⟨hok, hr⟩
  | named n => exact ⟨hok, hr⟩
  | dec ds => exact ⟨hok, hr⟩
  | hex ds => exact ⟨hok, hr⟩
  | crlf => exact ⟨hok, hr⟩

/-- Whatever `parse_content` accepts is the rendering of a well-spelled piece list. -/
theorem parseContentGo_pieces (attr : Bool) (base : Nat) : ∀ (n : Nat) (s : Str), s.length ≤ n →
    ∀ pos v, parseContentGo attr base pos s = .ok v → ∃ ps, WellSpelled ps ∧ renderPieces ps = s := by
  intro n
  induction n with
  | zero =>
    intro s hs pos v _
    have : s = [] := List.eq_nil_of_length_eq_zero (by omega)
    subst this
    exact ⟨[], trivial, rfl⟩
  | succ n ih =>
    intro s hs pos v h
    cases s with
    | nil => exact ⟨[], trivial, rfl⟩
    | cons c rest =>
      have hlen : rest.length ≤ n := by simpa using hs
      rw [parseContentGo.eq_def] at h
      simp only at h
      split at h
      · -- CR
        rename_i hc
        subst hc
        obtain ⟨v', hv'⟩ := consOk_ok h
        have hl2 : (skipLf rest).length ≤ n := Nat.le_trans (skipLf_length rest) hlen
        obtain ⟨ps, hw, hr⟩ := ih _ hl2 _ _ hv'
        cases rest with
        | nil =>
          refine ⟨[.cr], ⟨by simp, trivial⟩, rfl⟩
        | cons d rest' =>
          by_cases hd : d = '\n'
          · subst hd
            simp only [skipLf] at hr
            exact ⟨.crlf :: ps, ⟨trivial, hw⟩, by simp [renderPieces, renderPiece] at hr ⊢; exact hr⟩
          · have hsk : skipLf (d :: rest') = d :: rest' := skipLf_of_ne _ (fun r hr' => hd (by cases hr'; rfl))
            rw [hsk] at hr
            refine ⟨.cr :: ps, ⟨?_, hw⟩, by simp [renderPieces, renderPiece] at hr ⊢; exact hr⟩
            intro hh
            cases ps with
            | nil => cases hh
            | cons p ps' =>
              simp only [List.head?_cons, Option.some.injEq] at hh
              subst hh
              simp [renderPieces, renderPiece] at hr
              exact hd hr.1.symm
      · split at h
        · -- reference
          rename_i hcr hc
          subst hc
          split at h
          · cases h
          · rename_i ent rest' hsplit
            obtain ⟨hrest, hsemi⟩ := splitSemi_spec hsplit
            cases hdec : decodeEntity ent with
            | none => simp [hdec] at h
            | some ch =>
              simp only [hdec] at h
              obtain ⟨v', hv'⟩ := consOk_ok h
              have hl2 : rest'.length ≤ n := by
                have := splitSemi_length hsplit; omega
              obtain ⟨ps, hw, hr⟩ := ih _ hl2 _ _ hv'
              obtain ⟨p, hpok, hpcr, hpr⟩ := decodeEntity_piece hsemi hdec
              refine ⟨p :: ps, wellSpelled_cons_of_ne_cr hpcr hpok hw, ?_⟩
              simp only [renderPieces, List.flatMap_cons] at hr ⊢
              rw [hpr, hr, hrest]
              simp
        · rename_i hcr hamp
          have hlit : WellSpelled [Piece.lit c] := ⟨⟨hamp, hcr⟩, trivial⟩
          split at h
          all_goals
            obtain ⟨v', hv'⟩ := consOk_ok h
            obtain ⟨ps, hw, hr⟩ := ih _ hlen _ _ hv'
            exact ⟨.lit c :: ps, ⟨⟨hamp, hcr⟩, hw⟩, by simp [renderPieces, renderPiece] at hr ⊢; exact hr⟩

/-- The statement for a whole value. -/
theorem parseContentGo_ok_pieces {attr : Bool} {base pos : Nat} {s v : Str}
    (h : parseContentGo attr base pos s = .ok v) : ∃ ps, WellSpelled ps ∧ renderPieces ps = s :=
  parseContentGo_pieces attr base s.length s (Nat.le_refl _) pos v h

end XotModel
