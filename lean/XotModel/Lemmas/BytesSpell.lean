/-
  XotModel.Lemmas.BytesSpell — part 2 of the declaration reader: from bytes to the ASCII string.

  `Spells bs s`: the bytes `bs` carry the ASCII string `s` — one byte per character, in order, with
  any number of NUL bytes (the only bytes the `for` loop of `xml_declaration` skips since
  /repo 41ece46) before, between and after them.  That covers the single-byte / UTF-8 form and
  UTF-16 and UCS-4 code units in either byte order; a byte order mark (`declBoms`: the ones the
  reader removes) may stand in front.  Main result `xmlDeclaration_spelled`: if the bytes after the
  optional byte order mark spell a rendered declaration — of ANY length (/repo c3fcdf4) — the reader
  answers the declaration's label (`none` when it has no `encoding`), whatever follows.
  `xmlDeclaration_non_ascii_none`: a byte ≥ 0x80 before the first `>` (after the mark): `none`.
-/
import XotModel.Lemmas.BytesDecl

namespace XotModel.Bytes

inductive Spells : Bytes → Str → Prop
  | nil : Spells [] []
  | skip {bs : Bytes} {s : Str} : Spells bs s → Spells (0 :: bs) s
  | char {c : Char} {bs : Bytes} {s : Str} :
      0 < c.toNat → c.toNat < 0x80 → Spells bs s → Spells (c.toNat :: bs) (c :: s)

theorem Spells.zeros_append {bs : Bytes} {s : Str} (n : Nat) (hs : Spells bs s) :
    Spells (List.replicate n 0 ++ bs) s := by
  induction n with
  | zero => exact hs
  | succ n ih => exact Spells.skip ih

theorem Spells.bytes_lt {bs : Bytes} {s : Str} (hs : Spells bs s) : ∀ b ∈ bs, b < 0x80 := by
  induction hs with
  | nil => intro b hb; cases hb
  | skip _ ih =>
    intro b hb
    rcases List.mem_cons.mp hb with rfl | hb
    · omega
    · exact ih b hb
  | char _ h1 _ ih =>
    intro b hb
    rcases List.mem_cons.mp hb with rfl | hb
    · exact h1
    · exact ih b hb

theorem Spells.length_le {bs : Bytes} {s : Str} (hs : Spells bs s) : s.length ≤ bs.length := by
  induction hs with
  | nil => exact Nat.le_refl _
  | skip _ ih => simp only [List.length_cons]; omega
  | char _ _ _ ih => simp only [List.length_cons]; omega

theorem collectAscii_zero (bs : Bytes) : collectAscii (0 :: bs) = collectAscii bs := by
  rw [collectAscii]; rfl

/-- The `for` loop on bytes that spell `body ++ ">"` (no other `>`): exactly that string, whatever
    follows. -/
theorem collectAscii_spells {pre : Bytes} {s : Str} (hs : Spells pre s) :
    ∀ body, s = body ++ ['>'] → '>' ∉ body → ∀ x, collectAscii (pre ++ x) = some (body ++ ['>']) := by
  induction hs with
  | nil => intro body h; cases body <;> cases h
  | skip _ ih =>
    intro body h hn x
    rw [List.cons_append, collectAscii_zero]
    exact ih body h hn x
  | @char c bs s h0 h1 _ ih =>
    intro body h hn x
    have hz : (c.toNat == 0) = false := by simp only [beq_eq_false_iff_ne, ne_eq]; omega
    have hh : ¬ (c.toNat ≥ 0x80) := by omega
    cases body with
    | nil =>
      simp only [List.nil_append, List.cons.injEq] at h
      obtain ⟨rfl, _⟩ := h
      rw [List.cons_append, collectAscii, hz]
      rfl
    | cons c' body' =>
      simp only [List.cons_append, List.cons.injEq] at h
      obtain ⟨rfl, hs'⟩ := h
      have hne : c ≠ '>' := fun e => hn (e ▸ List.mem_cons_self)
      have hne' : (c.toNat == 0x3E) = false := by
        simp only [beq_eq_false_iff_ne, ne_eq]
        intro e; exact hne (Char.toNat_inj.mp e)
      rw [List.cons_append, collectAscii, hz]
      simp only [Bool.false_eq_true, if_false, hh, hne']
      rw [ih body' hs' (fun hm => hn (List.mem_cons_of_mem _ hm)) x]
      simp only [Char.ofNat_toNat, List.cons_append]

/-- A byte ≥ 0x80 before the first `>`: the loop ends with `None`. -/
theorem collectAscii_high (p : Bytes) (b : Nat) (rest : Bytes) (hb : 0x80 ≤ b)
    (hp : ∀ x ∈ p, x < 0x80 ∧ x ≠ 0x3E) : collectAscii (p ++ b :: rest) = none := by
  induction p with
  | nil =>
    rw [List.nil_append, collectAscii]
    have : (b == 0) = false := by simp only [beq_eq_false_iff_ne, ne_eq]; omega
    simp [this, hb]
  | cons x xs ih =>
    have hx := hp x List.mem_cons_self
    have ih' := ih (fun y hy => hp y (List.mem_cons_of_mem _ hy))
    rw [List.cons_append, collectAscii]
    split
    · exact ih'
    · have : ¬ (x ≥ 0x80) := by omega
      have h3 : (x == 0x3E) = false := by simp only [beq_eq_false_iff_ne, ne_eq]; exact hx.2
      simp only [this, if_false, h3, Bool.false_eq_true, ih']

/-! ### The byte order marks the reader removes -/

/-- No mark, UTF-8, UTF-16LE (also the first half of UCS-4LE), UTF-16BE, UCS-4BE, UCS-4 (2143). -/
def declBoms : List Bytes :=
  [[], [0xEF, 0xBB, 0xBF], [0xFF, 0xFE], [0xFE, 0xFF], [0, 0, 0xFE, 0xFF], [0, 0, 0xFF, 0xFE]]

theorem stripDeclBom_of_lt (a b c : Nat) (rest : Bytes) (ha : a < 0x80) (hc : c < 0x80) :
    stripDeclBom (a :: b :: c :: rest) = a :: b :: c :: rest := by
  have a1 : ¬ 0xEF = a := by omega
  have a2 : ¬ 0xFF = a := by omega
  have a3 : ¬ 0xFE = a := by omega
  have c2 : ¬ 0xFF = c := by omega
  have c3 : ¬ 0xFE = c := by omega
  simp [stripDeclBom, List.isPrefixOf, a1, a2, a3, c2, c3]

theorem stripDeclBom_bom (bom x : Bytes) (hb : bom ∈ declBoms) (hx : stripDeclBom x = x) :
    stripDeclBom (bom ++ x) = x := by
  simp only [declBoms, List.mem_cons, List.not_mem_nil, or_false] at hb
  rcases hb with rfl | rfl | rfl | rfl | rfl | rfl
  · exact hx
  all_goals simp [stripDeclBom, List.isPrefixOf]

theorem stripDeclBom_spells {pre : Bytes} {s : Str} (hs : Spells pre s) (hlen : 3 ≤ s.length) (tail : Bytes) :
    stripDeclBom (pre ++ tail) = pre ++ tail := by
  have hl := hs.length_le
  have hb := hs.bytes_lt
  rcases pre with _ | ⟨a, _ | ⟨b, _ | ⟨c, rest⟩⟩⟩
  · simp only [List.length_nil] at hl; omega
  · simp only [List.length_cons, List.length_nil] at hl; omega
  · simp only [List.length_cons, List.length_nil] at hl; omega
  · exact stripDeclBom_of_lt a b c _ (hb a (by simp)) (hb c (by simp))

/-! ### Characters of a rendered declaration: ASCII, not NUL, `>` only at the very end -/

def plainB (c : Char) : Bool := decide (0 < c.toNat) && decide (c.toNat < 0x80) && (c != '>')

theorem plain_ws {w : Str} (h : isWs w = true) : w.all plainB = true := by
  rw [List.all_eq_true]
  intro c hc
  have := List.all_eq_true.mp h c hc
  simp only [isXmlSpace, Bool.or_eq_true, beq_iff_eq] at this
  rcases this with ((rfl | rfl) | rfl) | rfl <;> decide

theorem plain_digits {w : Str} (h : w.all Lex.isXmlDigit = true) : w.all plainB = true := by
  rw [List.all_eq_true] at h ⊢
  intro c hc
  have := h c hc
  simp only [Lex.isXmlDigit, Bool.and_eq_true, decide_eq_true_eq] at this
  simp only [plainB, Bool.and_eq_true, decide_eq_true_eq, bne_iff_ne, ne_eq]
  refine ⟨⟨by omega, by omega⟩, ?_⟩
  intro e; subst e; simp at this

theorem plain_enc {w : Str} (h : w.all isEncChar = true) : w.all plainB = true := by
  rw [List.all_eq_true] at h ⊢
  intro c hc
  have := h c hc
  simp only [isEncChar, Lex.isXmlLetter, Lex.isXmlDigit, Bool.or_eq_true, Bool.and_eq_true, decide_eq_true_eq,
    beq_iff_eq] at this
  simp only [plainB, Bool.and_eq_true, decide_eq_true_eq, bne_iff_ne, ne_eq]
  rcases this with (((h | h) | rfl) | rfl) | rfl
  · rcases h with h | h
    · exact ⟨⟨by omega, by omega⟩, by intro e; subst e; simp at h⟩
    · exact ⟨⟨by omega, by omega⟩, by intro e; subst e; simp at h⟩
  · exact ⟨⟨by omega, by omega⟩, by intro e; subst e; simp at h⟩
  · decide
  · decide
  · decide

theorem plain_quote (s : Bool) : plainB (quoteChar s) = true := by cases s <;> decide

/-- Everything of a rendered declaration except its final `>`. -/
def declBody (d : LDecl) : Str :=
  ['<', '?', 'x', 'm', 'l'] ++ (' ' :: (renderAttrs (attrsOf d) ++ d.wEnd) ++ ['?'])

theorem render_eq_body (d : LDecl) : d.render = declBody d ++ ['>'] := by
  rw [render_eq_attrs, declBody]
  simp only [List.append_assoc, List.cons_append, List.nil_append]

theorem declBody_plain (d : LDecl) (hok : d.ok = true) : (declBody d).all plainB = true := by
  simp only [LDecl.ok, Bool.and_eq_true, EqLayout.ok] at hok
  obtain ⟨⟨⟨⟨⟨hmin, hw0⟩, hv1, hv2⟩, henc⟩, hsa⟩, hwe⟩ := hok
  have q := plain_quote
  have hyn : ∀ b, (yesNo b).all plainB = true := by intro b; cases b <;> decide
  cases he : d.encoding with
  | none =>
    cases hs : d.standalone with
    | none =>
      simp [declBody, attrsOf, renderAttrs, PAttr.render, EqLayout.render, he, hs, List.all_append, versionWord,
        plain_ws hw0, plain_ws hv1, plain_ws hv2, plain_digits hmin, plain_ws hwe, q]
      decide
    | some b =>
      rw [hs] at hsa
      simp only [Bool.and_eq_true, EqLayout.ok] at hsa
      obtain ⟨⟨hs1, _⟩, hs3, hs4⟩ := hsa
      simp [declBody, attrsOf, renderAttrs, PAttr.render, EqLayout.render, he, hs, List.all_append, versionWord,
        standaloneWord, plain_ws hw0, plain_ws hv1, plain_ws hv2, plain_digits hmin, plain_ws hwe, q,
        plain_ws hs1, plain_ws hs3, plain_ws hs4, hyn]
      decide
  | some e =>
    rw [he] at henc
    simp only [Bool.and_eq_true, EqLayout.ok] at henc
    obtain ⟨⟨⟨he1, he2⟩, _⟩, he3, he4⟩ := henc
    cases hs : d.standalone with
    | none =>
      simp [declBody, attrsOf, renderAttrs, PAttr.render, EqLayout.render, he, hs, List.all_append, versionWord,
        encodingWord, plain_ws hw0, plain_ws hv1, plain_ws hv2, plain_digits hmin, plain_ws hwe, q,
        plain_enc he1, plain_ws he2, plain_ws he3, plain_ws he4]
      decide
    | some b =>
      rw [hs] at hsa
      simp only [Bool.and_eq_true, EqLayout.ok] at hsa
      obtain ⟨⟨hs1, _⟩, hs3, hs4⟩ := hsa
      simp [declBody, attrsOf, renderAttrs, PAttr.render, EqLayout.render, he, hs, List.all_append, versionWord,
        encodingWord, standaloneWord, plain_ws hw0, plain_ws hv1, plain_ws hv2, plain_digits hmin, plain_ws hwe, q,
        plain_enc he1, plain_ws he2, plain_ws he3, plain_ws he4, plain_ws hs1, plain_ws hs3, plain_ws hs4, hyn]
      decide

theorem plain_spec {c : Char} (h : plainB c = true) : 0 < c.toNat ∧ c.toNat < 0x80 ∧ c ≠ '>' := by
  have : (0 < c.toNat ∧ c.toNat < 0x80) ∧ c ≠ '>' := by simpa [plainB] using h
  exact ⟨this.1.1, this.1.2, this.2⟩

/-- Every character of a rendered declaration is ASCII and not NUL. -/
theorem render_ascii (d : LDecl) (hok : d.ok = true) : ∀ c ∈ d.render, 0 < c.toNat ∧ c.toNat < 0x80 := by
  intro c hc
  rw [render_eq_body, List.mem_append] at hc
  rcases hc with hc | hc
  · have := plain_spec (List.all_eq_true.mp (declBody_plain d hok) c hc)
    exact ⟨this.1, this.2.1⟩
  · simp only [List.mem_singleton] at hc; subst hc; decide

theorem render_length (d : LDecl) : 3 ≤ d.render.length := by
  rw [render_eq_attrs]
  simp only [List.length_append, List.length_cons]
  omega

/-- **The declaration reader on bytes.**  After an optional byte order mark (`declBoms`) the bytes
    `pre` spell a rendered declaration, of any length: `xml_declaration` answers the label, whatever
    follows. -/
theorem xmlDeclaration_spelled (d : LDecl) (hok : d.ok = true) (bom pre tail : Bytes)
    (hbom : bom ∈ declBoms) (hs : Spells pre d.render) :
    xmlDeclaration (bom ++ (pre ++ tail)) = d.encoding := by
  unfold xmlDeclaration
  rw [stripDeclBom_bom bom _ hbom (stripDeclBom_spells hs (render_length d) tail),
    collectAscii_spells hs (declBody d) (render_eq_body d)
      (fun hm => (plain_spec (List.all_eq_true.mp (declBody_plain d hok) _ hm)).2.2 rfl)]
  simp only []
  rw [← render_eq_body, declFromAscii_render d hok]

/-- **Not a declaration**: after the byte order mark, a byte ≥ 0x80 before the first `>` (only
    bytes < 0x80 other than `>` in front of it). -/
theorem xmlDeclaration_non_ascii_none (data p rest : Bytes) (b : Nat) (hd : stripDeclBom data = p ++ b :: rest)
    (hb : 0x80 ≤ b) (hp : ∀ x ∈ p, x < 0x80 ∧ x ≠ 0x3E) : xmlDeclaration data = none := by
  unfold xmlDeclaration
  rw [hd, collectAscii_high p b rest hb hp]

/-! ### The forms that spell an ASCII string -/

theorem spells_ascii (s : Str) (h : ∀ c ∈ s, 0 < c.toNat ∧ c.toNat < 0x80) : Spells (s.map Char.toNat) s := by
  induction s with
  | nil => exact Spells.nil
  | cons c cs ih =>
    exact Spells.char (h c List.mem_cons_self).1 (h c List.mem_cons_self).2
      (ih (fun x hx => h x (List.mem_cons_of_mem _ hx)))

theorem spells_utf8 (s : Str) (h : ∀ c ∈ s, 0 < c.toNat ∧ c.toNat < 0x80) : Spells (encodeUtf8 s) s := by
  rw [encodeUtf8_ascii s (fun c hc => (h c hc).2)]
  exact spells_ascii s h

theorem spells_utf16 (be : Bool) (s : Str) (h : ∀ c ∈ s, 0 < c.toNat ∧ c.toNat < 0x80) :
    Spells (encodeUtf16 be s) s := by
  induction s with
  | nil => exact Spells.nil
  | cons c cs ih =>
    obtain ⟨h0, h1⟩ := h c List.mem_cons_self
    have ih' := ih (fun x hx => h x (List.mem_cons_of_mem _ hx))
    have hd : c.toNat / 256 = 0 := by omega
    have hm : c.toNat % 256 = c.toNat := by omega
    rw [encodeUtf16, utf16Bytes, if_pos (by omega), unit16]
    cases be
    · simp only [Bool.false_eq_true, if_false, hd, hm, List.cons_append, List.nil_append]
      exact Spells.char h0 h1 (Spells.skip ih')
    · simp only [if_true, hd, hm, List.cons_append, List.nil_append]
      exact Spells.skip (Spells.char h0 h1 ih')

theorem length_encodeUtf8_ascii (s : Str) (h : ∀ c ∈ s, c.toNat < 0x80) : (encodeUtf8 s).length = s.length := by
  rw [encodeUtf8_ascii s h, List.length_map]

theorem length_encodeUtf16_ascii (be : Bool) (s : Str) (h : ∀ c ∈ s, c.toNat < 0x80) :
    (encodeUtf16 be s).length = 2 * s.length := by
  induction s with
  | nil => rfl
  | cons c cs ih =>
    have h1 := h c List.mem_cons_self
    rw [encodeUtf16, utf16Bytes, if_pos (by omega), List.length_append,
      ih (fun x hx => h x (List.mem_cons_of_mem _ hx))]
    cases be <;> simp [unit16] <;> omega

/-- No declaration: what the loop collects does not begin `<?xml`. -/
theorem xmlDeclaration_none (data : Bytes)
    (h : ∀ a, collectAscii (stripDeclBom data) = some a → (['<', '?', 'x', 'm', 'l'].isPrefixOf a) = false) :
    xmlDeclaration data = none := by
  unfold xmlDeclaration
  cases hc : collectAscii (stripDeclBom data) with
  | none => rfl
  | some a =>
    simp only []
    unfold declFromAscii stripPrefix
    rw [h a hc]
    rfl

end XotModel.Bytes
