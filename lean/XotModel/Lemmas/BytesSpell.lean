/-
  XotModel.Lemmas.BytesSpell — part 2 of the declaration reader: from bytes to the ASCII string.

  `Spells bs s`: the bytes `bs` carry the ASCII string `s` — one byte per character, in order, with
  any number of bytes the `for` loop of `xml_declaration` skips (NUL, ≥ 0x80) before, between and
  after them.  That covers the single-byte / UTF-8 form, UTF-16 and UCS-4 code units in either byte
  order, and a byte order mark in front.  Main result `xmlDeclaration_spelled`: if the first bytes
  of the data spell a rendered declaration within the 1024 bytes the reader looks at, the reader
  answers the declaration's label (`none` when it has no `encoding`), whatever follows.
-/
import XotModel.Lemmas.BytesDecl

namespace XotModel.Bytes

inductive Spells : Bytes → Str → Prop
  | nil : Spells [] []
  | skip {b : Nat} {bs : Bytes} {s : Str} : (b = 0 ∨ 0x80 ≤ b) → Spells bs s → Spells (b :: bs) s
  | char {c : Char} {bs : Bytes} {s : Str} :
      0 < c.toNat → c.toNat < 0x80 → Spells bs s → Spells (c.toNat :: bs) (c :: s)

theorem Spells.silent_append {bs : Bytes} {s : Str} (sil : Bytes) (h : ∀ b ∈ sil, b = 0 ∨ 0x80 ≤ b)
    (hs : Spells bs s) : Spells (sil ++ bs) s := by
  induction sil with
  | nil => exact hs
  | cons b r ih =>
    exact Spells.skip (h b List.mem_cons_self) (ih (fun x hx => h x (List.mem_cons_of_mem _ hx)))

theorem collectAscii_silent (b : Nat) (bs : Bytes) (h : b = 0 ∨ 0x80 ≤ b) :
    collectAscii (b :: bs) = collectAscii bs := by
  rw [collectAscii]
  have : (b == 0 || decide (b ≥ 0x80)) = true := by
    rcases h with rfl | h
    · rfl
    · simp [h]
  rw [if_pos this]

/-- The `for` loop on bytes that spell `body ++ ">"` (no other `>`): exactly that string, whatever
    follows. -/
theorem collectAscii_spells {pre : Bytes} {s : Str} (hs : Spells pre s) :
    ∀ body, s = body ++ ['>'] → '>' ∉ body → ∀ x, collectAscii (pre ++ x) = body ++ ['>'] := by
  induction hs with
  | nil => intro body h; cases body <;> cases h
  | skip hb _ ih =>
    intro body h hn x
    rw [List.cons_append, collectAscii_silent _ _ hb]
    exact ih body h hn x
  | @char c bs s h0 h1 _ ih =>
    intro body h hn x
    have hsil : (c.toNat == 0 || decide (c.toNat ≥ 0x80)) = false := by
      simp only [Bool.or_eq_false_iff, beq_eq_false_iff_ne, decide_eq_false_iff_not]; omega
    cases body with
    | nil =>
      simp only [List.nil_append, List.cons.injEq] at h
      obtain ⟨rfl, _⟩ := h
      rw [List.cons_append, collectAscii, hsil]
      rfl
    | cons c' body' =>
      simp only [List.cons_append, List.cons.injEq] at h
      obtain ⟨rfl, hs'⟩ := h
      have hne : c ≠ '>' := fun e => hn (e ▸ List.mem_cons_self)
      have hne' : (c.toNat == 0x3E) = false := by
        simp only [beq_eq_false_iff_ne, ne_eq]
        intro e; exact hne (Char.toNat_inj.mp e)
      rw [List.cons_append, collectAscii, hsil]
      simp only [Bool.false_eq_true, if_false, hne', Char.ofNat_toNat, List.cons_append]
      rw [ih body' hs' (fun hm => hn (List.mem_cons_of_mem _ hm)) x]

/-! ### Characters of a rendered declaration: ASCII, not NUL, `>` only at the very end -/

def plainB (c : Char) : Bool := decide (0 < c.toNat) && decide (c.toNat < 0x80) && (c != '>')

theorem plain_ws {w : Str} (h : isWs w = true) : w.all plainB = true := by
  rw [List.all_eq_true]
  intro c hc
  have := List.all_eq_true.mp h c hc
  simp only [isXmlSpace, Bool.or_eq_true, beq_iff_eq] at this
  rcases this with ((rfl | rfl) | rfl) | rfl <;> decide

theorem plain_digits {w : Str} (h : w.all Lex.isXmlDigit = true) : w.all plainB = true := by
  rw [List.all_eq_true] at h ⊢
  intro c hc
  have := h c hc
  simp only [Lex.isXmlDigit, Bool.and_eq_true, decide_eq_true_eq] at this
  simp only [plainB, Bool.and_eq_true, decide_eq_true_eq, bne_iff_ne, ne_eq]
  refine ⟨⟨by omega, by omega⟩, ?_⟩
  intro e; subst e; simp at this

theorem plain_enc {w : Str} (h : w.all isEncChar = true) : w.all plainB = true := by
  rw [List.all_eq_true] at h ⊢
  intro c hc
  have := h c hc
  simp only [isEncChar, Lex.isXmlLetter, Lex.isXmlDigit, Bool.or_eq_true, Bool.and_eq_true, decide_eq_true_eq,
    beq_iff_eq] at this
  simp only [plainB, Bool.and_eq_true, decide_eq_true_eq, bne_iff_ne, ne_eq]
  rcases this with (((h | h) | rfl) | rfl) | rfl
  · rcases h with h | h
    · exact ⟨⟨by omega, by omega⟩, by intro e; subst e; simp at h⟩
    · exact ⟨⟨by omega, by omega⟩, by intro e; subst e; simp at h⟩
  · exact ⟨⟨by omega, by omega⟩, by intro e; subst e; simp at h⟩
  · decide
  · decide
  · decide

theorem plain_quote (s : Bool) : plainB (quoteChar s) = true := by cases s <;> decide

/-- Everything of a rendered declaration except its final `>`. -/
def declBody (d : LDecl) : Str :=
  ['<', '?', 'x', 'm', 'l'] ++ (' ' :: (renderAttrs (attrsOf d) ++ d.wEnd) ++ ['?'])

theorem render_eq_body (d : LDecl) : d.render = declBody d ++ ['>'] := by
  rw [render_eq_attrs, declBody]
  simp only [List.append_assoc, List.cons_append, List.nil_append]

theorem declBody_plain (d : LDecl) (hok : d.ok = true) : (declBody d).all plainB = true := by
  simp only [LDecl.ok, Bool.and_eq_true, EqLayout.ok] at hok
  obtain ⟨⟨⟨⟨⟨hmin, hw0⟩, hv1, hv2⟩, henc⟩, hsa⟩, hwe⟩ := hok
  have q := plain_quote
  have hyn : ∀ b, (yesNo b).all plainB = true := by intro b; cases b <;> decide
  cases he : d.encoding with
  | none =>
    cases hs : d.standalone with
    | none =>
      simp [declBody, attrsOf, renderAttrs, PAttr.render, EqLayout.render, he, hs, List.all_append, versionWord,
        plain_ws hw0, plain_ws hv1, plain_ws hv2, plain_digits hmin, plain_ws hwe, q]
      decide
    | some b =>
      rw [hs] at hsa
      simp only [Bool.and_eq_true, EqLayout.ok] at hsa
      obtain ⟨⟨hs1, _⟩, hs3, hs4⟩ := hsa
      simp [declBody, attrsOf, renderAttrs, PAttr.render, EqLayout.render, he, hs, List.all_append, versionWord,
        standaloneWord, plain_ws hw0, plain_ws hv1, plain_ws hv2, plain_digits hmin, plain_ws hwe, q,
        plain_ws hs1, plain_ws hs3, plain_ws hs4, hyn]
      decide
  | some e =>
    rw [he] at henc
    simp only [Bool.and_eq_true, EqLayout.ok] at henc
    obtain ⟨⟨⟨he1, he2⟩, _⟩, he3, he4⟩ := henc
    cases hs : d.standalone with
    | none =>
      simp [declBody, attrsOf, renderAttrs, PAttr.render, EqLayout.render, he, hs, List.all_append, versionWord,
        encodingWord, plain_ws hw0, plain_ws hv1, plain_ws hv2, plain_digits hmin, plain_ws hwe, q,
        plain_enc he1, plain_ws he2, plain_ws he3, plain_ws he4]
      decide
    | some b =>
      rw [hs] at hsa
      simp only [Bool.and_eq_true, EqLayout.ok] at hsa
      obtain ⟨⟨hs1, _⟩, hs3, hs4⟩ := hsa
      simp [declBody, attrsOf, renderAttrs, PAttr.render, EqLayout.render, he, hs, List.all_append, versionWord,
        encodingWord, standaloneWord, plain_ws hw0, plain_ws hv1, plain_ws hv2, plain_digits hmin, plain_ws hwe, q,
        plain_enc he1, plain_ws he2, plain_ws he3, plain_ws he4, plain_ws hs1, plain_ws hs3, plain_ws hs4, hyn]
      decide

theorem plain_spec {c : Char} (h : plainB c = true) : 0 < c.toNat ∧ c.toNat < 0x80 ∧ c ≠ '>' := by
  have : (0 < c.toNat ∧ c.toNat < 0x80) ∧ c ≠ '>' := by simpa [plainB] using h
  exact ⟨this.1.1, this.1.2, this.2⟩

/-- Every character of a rendered declaration is ASCII and not NUL. -/
theorem render_ascii (d : LDecl) (hok : d.ok = true) : ∀ c ∈ d.render, 0 < c.toNat ∧ c.toNat < 0x80 := by
  intro c hc
  rw [render_eq_body, List.mem_append] at hc
  rcases hc with hc | hc
  · have := plain_spec (List.all_eq_true.mp (declBody_plain d hok) c hc)
    exact ⟨this.1, this.2.1⟩
  · simp only [List.mem_singleton] at hc; subst hc; decide

/-- **The declaration reader on bytes.**  `pre` spells a rendered declaration and lies within the
    first 1024 bytes: `xml_declaration` answers the label, whatever follows. -/
theorem xmlDeclaration_spelled (d : LDecl) (hok : d.ok = true) (pre tail : Bytes)
    (hs : Spells pre d.render) (hlen : pre.length ≤ 1024) :
    xmlDeclaration (pre ++ tail) = d.encoding := by
  unfold xmlDeclaration
  rw [List.take_append, List.take_of_length_le hlen,
    collectAscii_spells hs (declBody d) (render_eq_body d)
      (fun hm => (plain_spec (List.all_eq_true.mp (declBody_plain d hok) _ hm)).2.2 rfl),
    ← render_eq_body, declFromAscii_render d hok]

/-! ### The forms that spell an ASCII string -/

theorem spells_ascii (s : Str) (h : ∀ c ∈ s, 0 < c.toNat ∧ c.toNat < 0x80) : Spells (s.map Char.toNat) s := by
  induction s with
  | nil => exact Spells.nil
  | cons c cs ih =>
    exact Spells.char (h c List.mem_cons_self).1 (h c List.mem_cons_self).2
      (ih (fun x hx => h x (List.mem_cons_of_mem _ hx)))

theorem spells_utf8 (s : Str) (h : ∀ c ∈ s, 0 < c.toNat ∧ c.toNat < 0x80) : Spells (encodeUtf8 s) s := by
  rw [encodeUtf8_ascii s (fun c hc => (h c hc).2)]
  exact spells_ascii s h

theorem spells_utf16 (be : Bool) (s : Str) (h : ∀ c ∈ s, 0 < c.toNat ∧ c.toNat < 0x80) :
    Spells (encodeUtf16 be s) s := by
  induction s with
  | nil => exact Spells.nil
  | cons c cs ih =>
    obtain ⟨h0, h1⟩ := h c List.mem_cons_self
    have ih' := ih (fun x hx => h x (List.mem_cons_of_mem _ hx))
    have hd : c.toNat / 256 = 0 := by omega
    have hm : c.toNat % 256 = c.toNat := by omega
    rw [encodeUtf16, utf16Bytes, if_pos (by omega), unit16]
    cases be
    · simp only [Bool.false_eq_true, if_false, hd, hm, List.cons_append, List.nil_append]
      exact Spells.char h0 h1 (Spells.skip (Or.inl rfl) ih')
    · simp only [if_true, hd, hm, List.cons_append, List.nil_append]
      exact Spells.skip (Or.inl rfl) (Spells.char h0 h1 ih')

theorem length_encodeUtf8_ascii (s : Str) (h : ∀ c ∈ s, c.toNat < 0x80) : (encodeUtf8 s).length = s.length := by
  rw [encodeUtf8_ascii s h, List.length_map]

theorem length_encodeUtf16_ascii (be : Bool) (s : Str) (h : ∀ c ∈ s, c.toNat < 0x80) :
    (encodeUtf16 be s).length = 2 * s.length := by
  induction s with
  | nil => rfl
  | cons c cs ih =>
    have h1 := h c List.mem_cons_self
    rw [encodeUtf16, utf16Bytes, if_pos (by omega), List.length_append,
      ih (fun x hx => h x (List.mem_cons_of_mem _ hx))]
    cases be <;> simp [unit16] <;> omega

/-- No declaration: the ASCII bytes at the start do not read `<?xml`. -/
theorem xmlDeclaration_none (data : Bytes)
    (h : (['<', '?', 'x', 'm', 'l'].isPrefixOf (collectAscii (data.take 1024))) = false) :
    xmlDeclaration data = none := by
  unfold xmlDeclaration declFromAscii stripPrefix
  rw [h]
  rfl

end XotModel.Bytes
