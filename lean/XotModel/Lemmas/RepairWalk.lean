/-
  The traversal of `create_missing_prefixes_for_element` (Model/Repair `repairStep`) as structural
  recursion: the name stack and the `pushed` vector are restored after every subtree, `pop().unwrap()`
  never meets an empty vector, and the three collections are a function `collectRec` of the top
  frame, threaded through the nodes in document order.
-/
import XotModel.Model.Repair

namespace XotModel.Repair
open XotModel

/-- The top frame after `push`. -/
def pushTop (top decls : List (Nat × Nat)) : List (Nat × Nat) :=
  if decls.isEmpty then top else fullnameInfoNew decls top

theorem top_push (s : FStack) (decls : List (Nat × Nat)) :
    (s.push decls).top = pushTop s.top decls := by
  unfold FStack.push pushTop
  cases decls <;> simp [FStack.top]

theorem pop_push (s : FStack) (decls : List (Nat × Nat)) :
    (s.push decls).pop (!decls.isEmpty) = s := by
  unfold FStack.push FStack.pop
  cases decls <;> simp

/-- `element_fullname(name).is_ok()` as a function of the name's namespace and the top frame. -/
def elemOk (ns : Nat) (top : List (Nat × Nat)) : Bool :=
  ns == Env.noNamespace || ns == Env.xmlNamespace || (elementPrefixByNamespace top ns).isSome

/-- `attribute_fullname(name).is_ok()`. -/
def attrOk (ns : Nat) (top : List (Nat × Nat)) : Bool :=
  ns == Env.noNamespace || ns == Env.xmlNamespace || (attributePrefixByNamespace top ns).isSome

/-- `has_default_namespace` of a top frame. -/
def hasDefault (top : List (Nat × Nat)) : Bool :=
  top.any (fun d => d.1 == Env.emptyPrefix && d.2 != Env.noNamespace)

/-- `missingOfElement` with the interning tables reduced to `namespace_for_name`. -/
def missOf (nsOf : Nat → Nat) (top : List (Nat × Nat)) (name : Nat) (attrNames : List Nat)
    (m : List Nat) : List Nat :=
  attrNames.foldl (fun m a => if !attrOk (nsOf a) top then addMissing m (nsOf a) else m)
    (if !elemOk (nsOf name) top then addMissing m (nsOf name) else m)

/-- `undeclare_nodes.push(node)`: the element is in no namespace and, with its own declarations
    pushed, the empty prefix is bound to a namespace. -/
def needsUndeclare (nsOf : Nat → Nat) (top : List (Nat × Nat)) (t : Tree) (name : Nat) : Bool :=
  nsOf name == Env.noNamespace && hasDefault (pushTop top t.nsDecls)

/-- The declarations the walk pushes for the element. -/
def walkDecls (nsOf : Nat → Nat) (top : List (Nat × Nat)) (t : Tree) (name : Nat) : List (Nat × Nat) :=
  if needsUndeclare nsOf top t name then undeclaredDecls t.nsDecls else t.nsDecls

/-- The top frame the walk holds below the element. -/
def walkTop (nsOf : Nat → Nat) (top : List (Nat × Nat)) (t : Tree) (name : Nat) : List (Nat × Nat) :=
  pushTop top (walkDecls nsOf top t name)

/-- `missing_namespace_ids`, `undeclare_nodes`, `used_prefix_ids`. -/
structure Acc where
  missing : List Nat
  undeclare : List Path
  used : List Nat

mutual
/-- What the traversal of the subtree at `pre` adds to the three collections when it is entered
    with the top frame `top` (`nsOf` = `namespace_for_name`). -/
def collectRec (nsOf : Nat → Nat) (top : List (Nat × Nat)) (pre : Path) : Tree → Acc → Acc
  | .node v ks, acc =>
    match v with
    | .element name =>
      collectKids nsOf (walkTop nsOf top (.node v ks) name) pre 0 ks
        { missing := missOf nsOf (walkTop nsOf top (.node v ks) name) name
            ((Tree.node v ks).attrs.map (·.1)) acc.missing
          undeclare := if needsUndeclare nsOf top (.node v ks) name then acc.undeclare ++ [pre]
            else acc.undeclare
          used := acc.used ++ (Tree.node v ks).nsDecls.map (·.1) }
    | _ => collectKids nsOf top pre 0 ks acc
def collectKids (nsOf : Nat → Nat) (top : List (Nat × Nat)) (pre : Path) : Nat → List Tree → Acc → Acc
  | _, [], acc => acc
  | i, k :: ks, acc => collectKids nsOf top pre (i + 1) ks (collectRec nsOf top (pre ++ [i]) k acc)
end

/-- The state with the three collections replaced. -/
def withAcc (st : RepairState) (a : Acc) : RepairState :=
  { st with missing := a.missing, undeclare := a.undeclare, used := a.used }

def accOf (st : RepairState) : Acc := ⟨st.missing, st.undeclare, st.used⟩

theorem withAcc_accOf (st : RepairState) : withAcc st (accOf st) = st := rfl

theorem exceptIsOk_elementFullname (env : Env) (s : FStack) (name : Nat) :
    exceptIsOk (s.elementFullname env name) = elemOk (env.nsOfName name) s.top := by
  unfold FStack.elementFullname FStack.elementPrefix elemOk
  by_cases h1 : (env.nsOfName name == Env.noNamespace) = true
  · simp [h1, exceptIsOk]
  · by_cases h2 : (env.nsOfName name == Env.xmlNamespace) = true
    · simp [h1, h2, exceptIsOk]
    · simp only [h1, h2, Bool.false_eq_true, if_false, Bool.false_or]
      cases elementPrefixByNamespace s.top (env.nsOfName name) with
      | none => rfl
      | some q => by_cases hq : (q == Env.emptyPrefix) = true <;> simp [hq, exceptIsOk]

theorem exceptIsOk_attributeFullname (env : Env) (s : FStack) (name : Nat) :
    exceptIsOk (s.attributeFullname env name) = attrOk (env.nsOfName name) s.top := by
  unfold FStack.attributeFullname FStack.attributePrefix attrOk
  by_cases h1 : (env.nsOfName name == Env.noNamespace) = true
  · simp [h1, exceptIsOk]
  · by_cases h2 : (env.nsOfName name == Env.xmlNamespace) = true
    · simp [h1, h2, exceptIsOk]
    · simp only [h1, h2, Bool.false_eq_true, if_false, Bool.false_or]
      cases attributePrefixByNamespace s.top (env.nsOfName name) with
      | none => rfl
      | some q => rfl

theorem hasDefaultNamespace_eq (s : FStack) : s.hasDefaultNamespace = hasDefault s.top := rfl

theorem missingOfElement_eq (env : Env) (s : FStack) (name : Nat) (as : List Nat) (m : List Nat) :
    missingOfElement env s name as m = missOf env.nsOfName s.top name as m := by
  unfold missingOfElement missOf
  rw [exceptIsOk_elementFullname]
  have : (fun m a => if !exceptIsOk (s.attributeFullname env a) then addMissing m (env.nsOfName a) else m) =
      (fun m a => if !attrOk (env.nsOfName a) s.top then addMissing m (env.nsOfName a) else m) := by
    funext m a
    rw [exceptIsOk_attributeFullname]
  rw [this]

theorem foldl_scopeTraverse {σ : Type} (step : σ → ScopeEdge → σ) (pre : Path) (v : Value)
    (ks : List Tree) (st : σ) :
    (scopeTraverse pre (.node v ks)).foldl step st =
      if v.isNormal then
        step ((scopeTraverse.go pre 0 ks).foldl step (step st (.start pre (.node v ks))))
          (.stop pre (.node v ks))
      else (scopeTraverse.go pre 0 ks).foldl step st := by
  unfold scopeTraverse
  split <;> simp [List.foldl_append]

theorem foldl_go_cons {σ : Type} (step : σ → ScopeEdge → σ) (pre : Path) (i : Nat) (k : Tree)
    (ks : List Tree) (st : σ) :
    (scopeTraverse.go pre i (k :: ks)).foldl step st =
      (scopeTraverse.go pre (i + 1) ks).foldl step ((scopeTraverse (pre ++ [i]) k).foldl step st) := by
  simp [scopeTraverse.go, List.foldl_append]

/-- `NodeEdge::Start` of an element, read off the top frame. -/
theorem repairStart_eq (env : Env) (st : RepairState) (pre : Path) (t : Tree) (name : Nat) :
    repairStart env st pre t name =
      { fs := st.fs.push (walkDecls env.nsOfName st.fs.top t name)
        pushed := (!(walkDecls env.nsOfName st.fs.top t name).isEmpty) :: st.pushed
        missing := missOf env.nsOfName (walkTop env.nsOfName st.fs.top t name) name (t.attrs.map (·.1)) st.missing
        undeclare := if needsUndeclare env.nsOfName st.fs.top t name then st.undeclare ++ [pre] else st.undeclare
        used := st.used ++ t.nsDecls.map (·.1)
        panicked := st.panicked } := by
  have hu : (env.nsOfName name == Env.noNamespace && (st.fs.push t.nsDecls).hasDefaultNamespace) =
      needsUndeclare env.nsOfName st.fs.top t name := by
    rw [needsUndeclare, hasDefaultNamespace_eq, top_push]
  unfold repairStart
  simp only [hu]
  cases hc : needsUndeclare env.nsOfName st.fs.top t name with
  | false =>
    simp only [walkDecls, walkTop, hc, Bool.false_eq_true, if_false]
    rw [missingOfElement_eq, top_push]
  | true =>
    simp only [walkDecls, walkTop, hc, if_true, pop_push]
    rw [missingOfElement_eq, top_push]

mutual
theorem walk_fold (env : Env) : ∀ (t : Tree) (pre : Path) (st : RepairState),
    (scopeTraverse pre t).foldl (repairStep env) st =
      withAcc st (collectRec env.nsOfName st.fs.top pre t (accOf st))
  | .node v ks, pre, st => by
    rw [foldl_scopeTraverse]
    cases v with
    | element name =>
      simp only [Value.isNormal, Value.category, beq_self_eq_true, if_true]
      rw [show repairStep env st (.start pre (.node (.element name) ks)) =
          repairStart env st pre (.node (.element name) ks) name from rfl]
      rw [repairStart_eq, walk_fold_kids env ks pre 0]
      simp only [repairStep, Tree.value, Value.isElement, if_true, withAcc, accOf, collectRec,
        pop_push, top_push, walkTop]
    | document => simpa [Value.isNormal, Value.category, repairStep, Tree.value, Value.isElement, collectRec] using walk_fold_kids env ks pre 0 st
    | text s => simpa [Value.isNormal, Value.category, repairStep, Tree.value, Value.isElement, collectRec] using walk_fold_kids env ks pre 0 st
    | pi a b => simpa [Value.isNormal, Value.category, repairStep, Tree.value, Value.isElement, collectRec] using walk_fold_kids env ks pre 0 st
    | comment s => simpa [Value.isNormal, Value.category, repairStep, Tree.value, Value.isElement, collectRec] using walk_fold_kids env ks pre 0 st
    | «attribute» a b => simpa [Value.isNormal, Value.category, collectRec] using walk_fold_kids env ks pre 0 st
    | «namespace» a b => simpa [Value.isNormal, Value.category, collectRec] using walk_fold_kids env ks pre 0 st
theorem walk_fold_kids (env : Env) : ∀ (ks : List Tree) (pre : Path) (i : Nat) (st : RepairState),
    (scopeTraverse.go pre i ks).foldl (repairStep env) st =
      withAcc st (collectKids env.nsOfName st.fs.top pre i ks (accOf st))
  | [], pre, i, st => by simp [scopeTraverse.go, collectKids, withAcc_accOf]
  | k :: ks, pre, i, st => by
    rw [foldl_go_cons, walk_fold env k, walk_fold_kids env ks]
    simp [collectKids, withAcc, accOf]
end

/-- The loop of `create_missing_prefixes_for_element`: no panic, and the collections are
    `collectRec` from the inherited declarations. -/
theorem repairWalk_eq (env : Env) (inherited : List (Nat × Nat)) (path : Path) (sub : Tree) :
    repairWalk env inherited path sub =
      withAcc { fs := FStack.new inherited } (collectRec env.nsOfName inherited path sub ⟨[], [], []⟩) := by
  unfold repairWalk
  rw [walk_fold]
  rfl

end XotModel.Repair
