/-
  GENERATED COPY (wt-c17str) of the declarations of XotModel.Lemmas.SerTokensLexTop that depend on `valueOK`, restated in the
  namespace `XotModel.PiColon`, where `valueOK` asks of a PI target what the tokenizer's `consume_name` accepts
  (`nameOK`: colons allowed) instead of an NCName (Lemmas/PiColonDefs.lean).  Proof texts unchanged except where noted.
-/
import XotModel.Lemmas.SerTokensLexTop
import XotModel.Lemmas.PiColonSerTokensLexOK

namespace XotModel.PiColon

variable (env : Env)

/-- The initial stack of a `nodeOK` tree binds NCName prefixes only. -/
theorem ncStack_init (henv : envOK env = true) (t : Tree) (ht : t.allNodes (nodeOK env) = true) :
    NcStack env (FStack.new (namespacesInScopeChain [t])) := by
  have hxml : ncNameOK (env.prefixStr Env.xmlPrefix) = true := by
    rw [envOK_xmlPrefix env henv]; exact ncNameOK_xml
  refine ⟨hxml, ?_⟩
  simp only [FStack.new, FStack.top, List.headD_cons]
  intro d hd hne
  rcases namespacesInScopeChain_origin [t] d hd with h | ⟨a, ha, hda⟩
  · simp only [basePrefixes, List.mem_singleton] at h
    subst h
    exact hxml
  · simp only [List.mem_singleton] at ha
    subst ha
    cases a with
    | node v ks =>
      have := valueOK_namespace_prefix env (nsDecls_valueOK env ht hda) hne
      simp only [ncNameNE, Bool.and_eq_true] at this
      exact this.1

/-- What `RepresentableFragment` says, unpacked. -/
theorem representableFragment_iff (t : Tree) :
    RepresentableFragment env t = true ↔
      envOK env = true ∧ t.value.isDocument = true ∧ t.allNodes (nodeOK env) = true ∧
        (xmlIdValues env t).Nodup := by
  simp [RepresentableFragment, and_assoc]

/-! ### Document mode: misc* element misc* -/

/-- A top-level node that is neither element nor text: a comment or a PI. -/
theorem misc_tokens {ugt : Bool} {inScope : List (Nat × Nat)} {s : FStack} {k : Tree}
    (hk : k.allNodes (nodeOK env) = true) (hnormal : k.value.isNormal = true)
    (hdoc : k.value.isDocument = false) (htext : k.value.isText = false)
    (hel : k.value.isElement = false) {x : List Token}
    (hx : serNode env ugt inScope false s k = .ok x) :
    (∃ a b, x = [.comment a b]) ∨ ∃ a b c, x = [.pi a b c] := by
  cases k with
  | node v kk =>
    cases v <;> simp [Tree.value, Value.isNormal, Value.category, Value.isDocument, Value.isText,
      Value.isElement] at hnormal hdoc htext hel
    · have hl := allNodes_leaf env hk rfl
      subst hl
      rw [serNode] at hx
      split at hx
      · cases hx
      · simp only [serNode.serKids, appendOk, List.append_nil, Except.ok.injEq] at hx
        exact Or.inr ⟨_, _, _, hx.symm⟩
    · have hl := allNodes_leaf env hk rfl
      subst hl
      simp only [serNode, serNode.serKids, appendOk, List.append_nil, Except.ok.injEq] at hx
      exact Or.inl ⟨_, _, hx.symm⟩

theorem top_after (inScope : List (Nat × Nat)) (s : FStack) :
    ∀ (ks : List Tree), (∀ k ∈ ks, k.allNodes (nodeOK env) = true) →
      (∀ k ∈ ks, k.value.isNormal = true) → (∀ k ∈ ks, k.value.isDocument = false) →
      (∀ k ∈ ks, k.value.isText = false) → (∀ k ∈ ks, k.value.isElement = false) →
      ∀ ts, serNode.serKids env false inScope s ks = .ok ts → lexNest false .after ts = true
  | [], _, _, _, _, _, ts, h => by
    simp only [serNode.serKids, Except.ok.injEq] at h
    subst h
    rfl
  | k :: ks, hn, hnorm, hdoc, htext, hel, ts, h => by
    obtain ⟨x, y, hx, hy, rfl⟩ := serKids_cons_ok env h
    have ih := top_after inScope s ks (fun k' hk' => hn k' (by simp [hk']))
      (fun k' hk' => hnorm k' (by simp [hk'])) (fun k' hk' => hdoc k' (by simp [hk']))
      (fun k' hk' => htext k' (by simp [hk'])) (fun k' hk' => hel k' (by simp [hk'])) y hy
    rcases misc_tokens env (hn k (by simp)) (hnorm k (by simp)) (hdoc k (by simp)) (htext k (by simp))
      (hel k (by simp)) hx with ⟨a, b, rfl⟩ | ⟨a, b, c, rfl⟩ <;> simpa [lexNest] using ih

theorem top_prolog (inScope : List (Nat × Nat)) (s : FStack) :
    ∀ (ks : List Tree), (∀ k ∈ ks, k.allNodes (nodeOK env) = true) →
      (∀ k ∈ ks, k.value.isNormal = true) → (∀ k ∈ ks, k.value.isDocument = false) →
      (∀ k ∈ ks, k.value.isText = false) →
      (ks.filter (fun k => k.value.isElement)).length = 1 →
      ∀ ts, serNode.serKids env false inScope s ks = .ok ts → lexNest false .prolog ts = true
  | [], _, _, _, _, hone, _, _ => by simp at hone
  | k :: ks, hn, hnorm, hdoc, htext, hone, ts, h => by
    obtain ⟨x, y, hx, hy, rfl⟩ := serKids_cons_ok env h
    have hn' : ∀ k' ∈ ks, k'.allNodes (nodeOK env) = true := fun k' hk' => hn k' (by simp [hk'])
    have hnorm' : ∀ k' ∈ ks, k'.value.isNormal = true := fun k' hk' => hnorm k' (by simp [hk'])
    have hdoc' : ∀ k' ∈ ks, k'.value.isDocument = false := fun k' hk' => hdoc k' (by simp [hk'])
    have htext' : ∀ k' ∈ ks, k'.value.isText = false := fun k' hk' => htext k' (by simp [hk'])
    by_cases hel : k.value.isElement = true
    · -- the document element: afterwards only comments and PIs
      simp only [List.filter_cons, hel, if_true, List.length_cons, Nat.add_eq_right,
        List.length_eq_zero_iff, List.filter_eq_nil_iff, Bool.not_eq_true] at hone
      have hafter := top_after env inScope s ks hn' hnorm' hdoc' htext' hone y hy
      have hnest := serNode_nest env false inScope k s (hn k (by simp)) (hdoc k (by simp)) x hx 0 y
        (by simpa [hel, LexCtx.closed] using hafter) (by simp [htext k (by simp)])
      cases k with
      | node v kk =>
        cases v <;> simp [Tree.value, Value.isElement] at hel
        obtain ⟨p, ats, content, _, _, _, _, rfl⟩ := serNode_element_ok env hx
        simpa [elementTokens, lexNest] using hnest
    · have hel' : k.value.isElement = false := by simpa using hel
      simp only [List.filter_cons, hel', Bool.false_eq_true, if_false] at hone
      have ih := top_prolog inScope s ks hn' hnorm' hdoc' htext' hone y hy
      rcases misc_tokens env (hn k (by simp)) (hnorm k (by simp)) (hdoc k (by simp)) (htext k (by simp))
        hel' hx with ⟨a, b, rfl⟩ | ⟨a, b, c, rfl⟩ <;> simpa [lexNest] using ih

/-! ### The two modes -/

/-- Fragment mode: the tokens of a representable fragment whose serialisation succeeds meet the
    tokenizer's side conditions. -/
theorem lexOK_fragment (t : Tree) (hr : RepresentableFragment env t = true) (ts : List Token)
    (h : serTokensTop env t = .ok ts) : LexOK true ts = true := by
  obtain ⟨henv, hdocv, hn, _⟩ := (representableFragment_iff env t).mp hr
  cases t with
  | node v ks =>
    cases v <;> simp [Tree.value, Value.isDocument] at hdocv
    rw [serTokensTop_document] at h
    have hs := ncStack_init env henv _ hn
    have hnode : nodeOK env .document ks = true := by
      rw [allNodes_node, Bool.and_eq_true] at hn; exact hn.1
    obtain ⟨hord, hkinds, _, hnoadj, _⟩ := (nodeOK_iff env _ ks).mp hnode
    have hkids : ∀ k ∈ ks, k.allNodes (nodeOK env) = true := fun k hk => allNodes_kid hn hk
    simp only [LexOK, Bool.and_eq_true, List.all_eq_true]
    refine ⟨serKids_lexOK env henv _ ks _ hs hkids ts h, ?_⟩
    have := serKids_nest env true _ ks _ hkids hord hnoadj hkinds.2.2 ts h 0 rfl [] rfl
      (fun _ _ _ => rfl)
    simpa [LexCtx.init] using this

/-- Document mode. -/
theorem lexOK_document (t : Tree) (hr : Representable env t = true) (ts : List Token)
    (h : serTokensTop env t = .ok ts) : LexOK false ts = true := by
  simp only [Representable, Bool.and_eq_true] at hr
  obtain ⟨hfrag, hsingle⟩ := hr
  obtain ⟨henv, hdocv, hn, _⟩ := (representableFragment_iff env t).mp hfrag
  cases t with
  | node v ks =>
    cases v <;> simp [Tree.value, Value.isDocument] at hdocv
    rw [serTokensTop_document] at h
    have hs := ncStack_init env henv _ hn
    have hnode : nodeOK env .document ks = true := by
      rw [allNodes_node, Bool.and_eq_true] at hn; exact hn.1
    obtain ⟨_, hkinds, _, _, _⟩ := (nodeOK_iff env _ ks).mp hnode
    have hkids : ∀ k ∈ ks, k.allNodes (nodeOK env) = true := fun k hk => allNodes_kid hn hk
    simp only [singleRoot, Tree.kids, Bool.and_eq_true, beq_iff_eq, List.all_eq_true,
      Bool.not_eq_true'] at hsingle
    simp only [LexOK, Bool.and_eq_true, List.all_eq_true]
    refine ⟨serKids_lexOK env henv _ ks _ hs hkids ts h, ?_⟩
    have := top_prolog env _ _ ks hkids (hkinds.2.1 rfl) hkinds.2.2 hsingle.2 hsingle.1 ts h
    simpa [LexCtx.init] using this

end XotModel.PiColon
