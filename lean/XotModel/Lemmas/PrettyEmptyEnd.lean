/-
  XotModel.Lemmas.PrettyEmptyEnd — the empty end-tag token of an element written `<e/>` directly follows the
  `/>` token of the same element (event stream of `gen_outputs` on `TextOk` trees), and `Pretty` grants white
  space neither between the two nor in front of the empty token.  Used to state C14_pretty_only_whitespace on the
  concatenated bytes.
-/
import XotModel.Lemmas.PrettyBetween
import XotModel.Lemmas.SerTokensNest

namespace XotModel
open Gen

variable (t : Tree)

/-- The node at `p` has no normal child (it is written `<e/>`). -/
def childlessAt (p : Path) : Bool :=
  match t.at? p with
  | some node => node.firstChild?.isNone
  | none => false

/-- Every end-tag event of a childless element directly follows that element's `startTagClose`
    (`prev` = the event in front of the list). -/
def EGram : Option (Path × Output) → List (Path × Output) → Prop
  | _, [] => True
  | prev, po :: rest =>
    (∀ name, po.2 = .endTag name → childlessAt t po.1 = true → prev = some (po.1, .startTagClose)) ∧
      EGram (some po) rest

theorem EGram_append_any {prev : Option (Path × Output)} {a b : List (Path × Output)}
    (ha : EGram t prev a) (hb : ∀ prev', EGram t prev' b) : EGram t prev (a ++ b) := by
  induction a generalizing prev with
  | nil => exact hb prev
  | cons po a ih => exact ⟨ha.1, ih ha.2⟩

theorem EGram_noEnd (l : List (Path × Output)) (h : ∀ po ∈ l, ∀ name, po.2 ≠ .endTag name) :
    ∀ prev, EGram t prev l := by
  induction l with
  | nil => intro _; trivial
  | cons po l ih =>
    intro prev
    exact ⟨fun name hn _ => absurd hn (h po (by simp) name), ih (fun q hq => h q (by simp [hq])) _⟩

/-- Abnormal leaves generate no event. -/
theorem genKids_abnormal_leaves (inScope : List (Nat × Nat)) (path : Path) (i : Nat) (ks : List Tree)
    (h : ∀ k ∈ ks, k.value.isNormal = false ∧ k.kids = []) : genNode.genKids inScope path i ks = [] := by
  induction ks generalizing i with
  | nil => rfl
  | cons k ks ih =>
    obtain ⟨h1, h2⟩ := h k (by simp)
    cases k with
    | node v kk =>
      simp only [Tree.value] at h1
      simp only [Tree.kids] at h2
      subst h2
      simp [genNode.genKids, genNode, h1, ih (i + 1) (fun q hq => h q (by simp [hq]))]

mutual
theorem genNode_EGram (inScope : List (Nat × Nat)) (isTop : Bool) (path : Path) (n : Tree)
    (hat : t.at? path = some n) (hok : TextOk n) : ∀ prev, EGram t prev (genNode inScope isTop path n) := by
  cases n with
  | node v ks =>
    have hkat : ∀ (j : Nat) (k : Tree), ks[j]? = some k → t.at? (path ++ [0 + j]) = some k := by
      intro j k hk
      rw [at?_append, hat]
      simp only [Nat.zero_add]
      rw [at?_cons, hk]
      rfl
    have hkok : ∀ k ∈ ks, TextOk k := by
      have := hok
      simp only [TextOk, Tree.Forall] at this
      exact (Tree.forallList_iff _ ks).mp this.2
    have hk := genKids_EGram inScope path 0 ks hkat hkok
    cases v with
    | element name =>
      intro prev
      rw [genNode_element_psplit]
      refine EGram_append_any t (EGram_noEnd t _ (fun po hpo name hn => ?_) prev) (fun prev' => ?_)
      · have := (preCloseEvents_neutral inScope isTop path _ po hpo).1
        rw [hn] at this
        cases this
      · refine ⟨fun name hn _ => (by cases hn), ?_⟩
        by_cases hc : (Tree.node (.element name) ks).firstChild?.isNone = true
        · have hab : ∀ k ∈ ks, k.value.isNormal = false ∧ k.kids = [] := by
            intro k hk'
            have h1 := firstChild_none_abnormal hc k hk'
            refine ⟨h1, ?_⟩
            have h2 := hkok k hk'
            cases k with
            | node v' ks' =>
              simp only [TextOk, Tree.Forall] at h2
              simp only [Tree.value] at h1
              exact h2.1.1 (by cases v' <;> simp_all [Value.isNormal, Value.category, Value.isLeafKind])
          rw [genKids_abnormal_leaves inScope path 0 ks hab]
          exact ⟨fun _ _ _ => rfl, trivial⟩
        · refine EGram_append_any t (hk _) (fun prev'' => ⟨fun name' _ hcl => ?_, trivial⟩)
          simp only [childlessAt, hat] at hcl
          exact absurd hcl hc
    | document => rw [genNode_document]; exact hk
    | «attribute» a val => rw [genNode_attribute]; exact hk
    | «namespace» p ns => rw [genNode_namespace]; exact hk
    | text x => rw [genNode_text]; exact fun prev => ⟨fun name hn _ => (by cases hn), hk _⟩
    | comment x => rw [genNode_comment]; exact fun prev => ⟨fun name hn _ => (by cases hn), hk _⟩
    | pi tg d => rw [genNode_pi]; exact fun prev => ⟨fun name hn _ => (by cases hn), hk _⟩

theorem genKids_EGram (inScope : List (Nat × Nat)) (path : Path) (i : Nat) (ks : List Tree)
    (hat : ∀ (j : Nat) (k : Tree), ks[j]? = some k → t.at? (path ++ [i + j]) = some k)
    (hok : ∀ k ∈ ks, TextOk k) : ∀ prev, EGram t prev (genNode.genKids inScope path i ks) := by
  cases ks with
  | nil => intro _; trivial
  | cons k ks' =>
    intro prev
    simp only [genNode.genKids]
    refine EGram_append_any t (genNode_EGram inScope false (path ++ [i]) k (by simpa using hat 0 k rfl)
      (hok k (by simp)) prev) ?_
    exact genKids_EGram inScope path (i + 1) ks'
      (fun j k' hj => by
        have := hat (j + 1) k' (by simpa using hj)
        rwa [show i + (j + 1) = i + 1 + j by omega] at this)
      (fun k' hk' => hok k' (by simp [hk']))
end

/-- The event in front of position `pre.length`. -/
def lastOr {α : Type} (prev : Option α) (pre : List α) : Option α :=
  match pre.getLast? with
  | some x => some x
  | none => prev

theorem lastOr_cons {α : Type} (prev : Option α) (a : α) (pre : List α) :
    lastOr prev (a :: pre) = lastOr (some a) pre := by
  cases pre with
  | nil => rfl
  | cons b l =>
    cases h : (b :: l).getLast? with
    | none => simp at h
    | some x => simp [lastOr, List.getLast?_cons_cons, h]

theorem EGram_at {prev : Option (Path × Output)} (pre : List (Path × Output)) (b : Path × Output)
    (post : List (Path × Output)) (h : EGram t prev (pre ++ b :: post)) (name : Nat) (hb : b.2 = .endTag name)
    (hc : childlessAt t b.1 = true) : lastOr prev pre = some (b.1, .startTagClose) := by
  induction pre generalizing prev with
  | nil => exact h.1 name hb hc
  | cons a pre ih =>
    rw [lastOr_cons]
    exact ih h.2

end XotModel
