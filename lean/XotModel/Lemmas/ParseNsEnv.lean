/-
  C02_spelled_ns, part 1: interning facts for all three tables, and the correspondence between
  the builder's namespace stack (ids) and the in-scope bindings as strings.
-/
import XotModel.Lemmas.ParseNsDefs
import XotModel.Lemmas.ParseSpellTop
import XotModel.Lemmas.ParseScope

namespace XotModel

/-! ### Tables that only grow by appending -/

/-- All three tables only grow by appending. -/
def EnvApp (e e' : Env) : Prop :=
  (∃ x, e'.prefixes = e.prefixes ++ x) ∧ (∃ x, e'.namespaces = e.namespaces ++ x) ∧
    (∃ x, e'.names = e.names ++ x)

theorem EnvApp.refl (e : Env) : EnvApp e e := ⟨⟨[], by simp⟩, ⟨[], by simp⟩, ⟨[], by simp⟩⟩

theorem EnvApp.trans {a b c : Env} (h1 : EnvApp a b) (h2 : EnvApp b c) : EnvApp a c := by
  obtain ⟨⟨p1, hp1⟩, ⟨n1, hn1⟩, ⟨x1, hx1⟩⟩ := h1
  obtain ⟨⟨p2, hp2⟩, ⟨n2, hn2⟩, ⟨x2, hx2⟩⟩ := h2
  exact ⟨⟨p1 ++ p2, by rw [hp2, hp1, List.append_assoc]⟩, ⟨n1 ++ n2, by rw [hn2, hn1, List.append_assoc]⟩,
    ⟨x1 ++ x2, by rw [hx2, hx1, List.append_assoc]⟩⟩

theorem EnvExt.app {e e' : Env} (h : EnvExt e e') : EnvApp e e' :=
  ⟨⟨[], by rw [h.1]; simp⟩, ⟨[], by rw [h.2.1]; simp⟩, h.2.2⟩

theorem internPrefix_app (e : Env) (p : Str) : EnvApp e (e.internPrefix p).1 :=
  ⟨internIn_ext e.prefixes p, ⟨[], by simp [Env.internPrefix]⟩, ⟨[], by simp [Env.internPrefix]⟩⟩

theorem internNamespace_app (e : Env) (u : Str) : EnvApp e (e.internNamespace u).1 :=
  ⟨⟨[], by simp [Env.internNamespace]⟩, internIn_ext e.namespaces u, ⟨[], by simp [Env.internNamespace]⟩⟩

theorem internName_app (e : Env) (a : Str) (ns : Nat) : EnvApp e (e.internName a ns).1 :=
  (internName_ext e a ns).app

theorem mem_ext {α : Type} {l l' : List α} {v : α} (h : ∃ x, l' = l ++ x) (hv : v ∈ l) : v ∈ l' := by
  obtain ⟨x, hx⟩ := h; rw [hx]; simp [hv]

theorem idxOf_app {α : Type} [BEq α] [LawfulBEq α] {l l' : List α} {v : α} (h : ∃ x, l' = l ++ x) (hv : v ∈ l) :
    l'.idxOf v = l.idxOf v := by
  obtain ⟨x, hx⟩ := h; rw [hx]; exact idxOf_ext hv x

theorem EnvApp.names_get {e e' : Env} (h : EnvApp e e') {i : Nat} {x : Str × Nat} (hx : e.names[i]? = some x) :
    e'.names[i]? = some x := by
  obtain ⟨_, _, ext, he⟩ := h
  rw [he]; exact getElem?_ext hx

theorem EnvApp.namespaces_get {e e' : Env} (h : EnvApp e e') {i : Nat} {x : Str} (hx : e.namespaces[i]? = some x) :
    e'.namespaces[i]? = some x := by
  obtain ⟨_, ⟨ext, he⟩, _⟩ := h
  rw [he]; exact getElem?_ext hx

theorem EnvApp.prefixes_get {e e' : Env} (h : EnvApp e e') {i : Nat} {x : Str} (hx : e.prefixes[i]? = some x) :
    e'.prefixes[i]? = some x := by
  obtain ⟨⟨ext, he⟩, _, _⟩ := h
  rw [he]; exact getElem?_ext hx

/-- The id interning returns is the position of the value in the table afterwards. -/
theorem internIn_idx {α : Type} [BEq α] [LawfulBEq α] (l : List α) (v : α) :
    (internIn l v).1.idxOf v = (internIn l v).2 := by
  by_cases hmem : v ∈ l
  · rw [internIn_of_mem hmem]
  · unfold internIn
    have hc : l.contains v = false := by simpa using hmem
    simp only [hc, Bool.false_eq_true, if_false]
    rw [List.idxOf_append]
    simp [hmem, List.idxOf_eq_length hmem]

theorem get_idxOf {α : Type} [BEq α] [LawfulBEq α] {l : List α} {v : α} (h : v ∈ l) : l[l.idxOf v]? = some v := by
  have hlt := List.idxOf_lt_length_of_mem h
  rw [List.getElem?_eq_getElem hlt]
  simp [List.getElem_idxOf]

/-- Ids of interned values identify the values. -/
theorem idxOf_inj {α : Type} [BEq α] [LawfulBEq α] {l : List α} {a b : α} (ha : a ∈ l) (h : l.idxOf a = l.idxOf b) :
    a = b := by
  have hb : b ∈ l := by
    rw [← List.idxOf_lt_length_iff, ← h]; exact List.idxOf_lt_length_of_mem ha
  have h1 := get_idxOf ha
  have h2 := get_idxOf hb
  rw [h] at h1
  rw [h1] at h2
  exact Option.some.inj h2

theorem internPrefix_of_mem {e : Env} {p : Str} (h : p ∈ e.prefixes) :
    e.internPrefix p = (e, e.prefixes.idxOf p) := by
  unfold Env.internPrefix
  rw [internIn_of_mem h]

theorem internNamespace_of_mem {e : Env} {u : Str} (h : u ∈ e.namespaces) :
    e.internNamespace u = (e, e.namespaces.idxOf u) := by
  unfold Env.internNamespace
  rw [internIn_of_mem h]

theorem internPrefix_mem (e : Env) (p : Str) : p ∈ (e.internPrefix p).1.prefixes := internIn_mem e.prefixes p

theorem internNamespace_mem (e : Env) (u : Str) : u ∈ (e.internNamespace u).1.namespaces :=
  internIn_mem e.namespaces u

theorem internPrefix_idx (e : Env) (p : Str) : (e.internPrefix p).1.prefixes.idxOf p = (e.internPrefix p).2 :=
  internIn_idx e.prefixes p

theorem internNamespace_idx (e : Env) (u : Str) :
    (e.internNamespace u).1.namespaces.idxOf u = (e.internNamespace u).2 := internIn_idx e.namespaces u

theorem internNamespace_get (e : Env) (u : Str) :
    (e.internNamespace u).1.namespaces[(e.internNamespace u).2]? = some u := internIn_get e.namespaces u

theorem internPrefix_get (e : Env) (p : Str) :
    (e.internPrefix p).1.prefixes[(e.internPrefix p).2]? = some p := internIn_get e.prefixes p

/-- Interning a name that was interned before, after any growth of the tables. -/
theorem internName_again_app {e e' : Env} (a : Str) (ns : Nat) (h : EnvApp (e.internName a ns).1 e') :
    e'.internName a ns = (e', (e.internName a ns).2) := by
  have hm : (a, ns) ∈ (e.internName a ns).1.names := internIn_mem e.names (a, ns)
  have hm' : (a, ns) ∈ e'.names := mem_ext h.2.2 hm
  unfold Env.internName
  rw [internIn_of_mem hm']
  simp only
  congr 1
  rw [idxOf_app h.2.2 hm]
  exact internIn_idx e.names (a, ns)

/-! ### The base tables -/

theorem EnvBaseNs.app {e e' : Env} (h : EnvBaseNs e) (hx : EnvApp e e') : EnvBaseNs e' := by
  obtain ⟨⟨r1, h1⟩, ⟨r2, h2⟩, ⟨n0, r3, h3, hne⟩⟩ := h
  obtain ⟨⟨x1, e1⟩, ⟨x2, e2⟩, ⟨x3, e3⟩⟩ := hx
  exact ⟨⟨r1 ++ x1, by rw [e1, h1]; rfl⟩, ⟨r2 ++ x2, by rw [e2, h2]; rfl⟩, ⟨n0, r3 ++ x3, by rw [e3, h3]; rfl, hne⟩⟩

theorem EnvBaseNs.base {e : Env} (h : EnvBaseNs e) : EnvBase e := by
  obtain ⟨⟨r1, h1⟩, _, ⟨n0, r3, h3, _⟩⟩ := h
  exact ⟨by rw [h1]; rfl, ⟨['i', 'd'], 1, by rw [h3]; rfl, by decide⟩⟩

theorem EnvBaseNs.pfx_empty {e : Env} (h : EnvBaseNs e) : ([] : Str) ∈ e.prefixes ∧ e.prefixes.idxOf ([] : Str) = 0 := by
  obtain ⟨⟨r1, h1⟩, _, _⟩ := h
  rw [h1]; exact ⟨by simp, by simp⟩

theorem EnvBaseNs.pfx_xml {e : Env} (h : EnvBaseNs e) :
    ['x', 'm', 'l'] ∈ e.prefixes ∧ e.prefixes.idxOf ['x', 'm', 'l'] = 1 := by
  obtain ⟨⟨r1, h1⟩, _, _⟩ := h
  rw [h1]; exact ⟨by simp, by simp [List.idxOf_cons]⟩

theorem EnvBaseNs.ns_empty {e : Env} (h : EnvBaseNs e) : ([] : Str) ∈ e.namespaces ∧ e.namespaces.idxOf ([] : Str) = 0 := by
  obtain ⟨_, ⟨r1, h1⟩, _⟩ := h
  rw [h1]; exact ⟨by simp, by simp⟩

theorem EnvBaseNs.ns_xml {e : Env} (h : EnvBaseNs e) : xmlNsUri ∈ e.namespaces ∧ e.namespaces.idxOf xmlNsUri = 1 := by
  obtain ⟨_, ⟨r1, h1⟩, _⟩ := h
  rw [h1]
  refine ⟨by simp, ?_⟩
  have : (([] : Str) == xmlNsUri) = false := by decide
  simp [List.idxOf_cons, this]

theorem EnvBaseNs.name_id {e : Env} (h : EnvBaseNs e) :
    e.names[1]? = some (['i', 'd'], 1) ∧ e.names.idxOf ((['i', 'd'], 1) : Str × Nat) = 1 := by
  obtain ⟨_, _, ⟨n0, r3, h3, hne⟩⟩ := h
  rw [h3]
  refine ⟨rfl, ?_⟩
  have : (n0 == ((['i', 'd'], 1) : Str × Nat)) = false := by simpa using hne
  simp [List.idxOf_cons, this]

/-- The id of a freshly resolved name is the id of `xml:id` exactly when the name is (`id`, XML
    namespace id). -/
theorem internName_eq_xmlId {e : Env} (h : EnvBaseNs e) (a : Str) (ns : Nat) :
    ((e.internName a ns).2 == Env.xmlIdName) = ((a, ns) == ((['i', 'd'], 1) : Str × Nat)) := by
  by_cases heq : (a, ns) = ((['i', 'd'], 1) : Str × Nat)
  · have h2 : ((a, ns) == ((['i', 'd'], 1) : Str × Nat)) = true := by simp [heq]
    rw [h2]
    simp only [Prod.mk.injEq] at heq
    obtain ⟨rfl, rfl⟩ := heq
    have : (e.internName ['i', 'd'] 1).2 = e.names.idxOf ((['i', 'd'], 1) : Str × Nat) := rfl
    rw [this, h.name_id.2]; rfl
  · have h2 : ((a, ns) == ((['i', 'd'], 1) : Str × Nat)) = false := by simpa using heq
    rw [h2, beq_eq_false_iff_ne]
    intro hid
    have hget := internName_get e a ns
    have h1 := (internName_app e a ns).names_get h.name_id.1
    rw [hid] at hget
    rw [show Env.xmlIdName = 1 from rfl, h1] at hget
    exact heq (Option.some.inj hget).symm

/-! ### Frames of bindings as strings, and their ids -/

/-- The ids of a frame of (prefix, URI) bindings whose strings are interned. -/
def idFrame (env : Env) (f : List (Str × Str)) : List (Nat × Nat) :=
  f.map fun pu => (env.prefixes.idxOf pu.1, env.namespaces.idxOf pu.2)

def FrameIn (env : Env) (f : List (Str × Str)) : Prop := ∀ pu ∈ f, pu.1 ∈ env.prefixes ∧ pu.2 ∈ env.namespaces

def FramesIn (env : Env) (frames : List (List (Str × Str))) : Prop := ∀ f ∈ frames, FrameIn env f

/-- The bindings in scope: one frame per open element (the declarations of its start tag, in the
    order written), nearest element first; at the bottom the two base frames. -/
def flatScope : List (List (Str × Str)) → Scope
  | [] => []
  | f :: fs => f.reverse ++ flatScope fs

theorem flatScope_push (d : List (Str × Str)) (frames : List (List (Str × Str))) :
    flatScope (d :: frames) = (flatScope frames).push d := rfl

theorem FrameIn.app {e e' : Env} (hx : EnvApp e e') {f : List (Str × Str)} (h : FrameIn e f) : FrameIn e' f :=
  fun pu hpu => ⟨mem_ext hx.1 (h pu hpu).1, mem_ext hx.2.1 (h pu hpu).2⟩

theorem FramesIn.app {e e' : Env} (hx : EnvApp e e') {fs : List (List (Str × Str))} (h : FramesIn e fs) :
    FramesIn e' fs := fun f hf => (h f hf).app hx

theorem idFrame_app {e e' : Env} (hx : EnvApp e e') {f : List (Str × Str)} (h : FrameIn e f) :
    idFrame e' f = idFrame e f := by
  unfold idFrame
  apply List.map_congr_left
  intro pu hpu
  rw [idxOf_app hx.1 (h pu hpu).1, idxOf_app hx.2.1 (h pu hpu).2]

theorem idFrames_app {e e' : Env} (hx : EnvApp e e') {fs : List (List (Str × Str))} (h : FramesIn e fs) :
    fs.map (idFrame e') = fs.map (idFrame e) := by
  apply List.map_congr_left
  intro f hf
  exact idFrame_app hx (h f hf)

theorem find_idFrame (env : Env) (p : Str) : ∀ (l : List (Str × Str)), FrameIn env l →
    ((idFrame env l).find? (fun d => d.1 == env.prefixes.idxOf p)).map (fun d => d.2) =
      (l.lookup p).map env.namespaces.idxOf
  | [], _ => rfl
  | (q, u) :: rest, h => by
    have hq := (h (q, u) (by simp)).1
    have ih := find_idFrame env p rest (fun x hx => h x (by simp [hx]))
    simp only [idFrame, List.map_cons, List.find?_cons, List.lookup_cons]
    by_cases hpq : p = q
    · subst hpq; simp
    · have h1 : (env.prefixes.idxOf q == env.prefixes.idxOf p) = false := by
        rw [beq_eq_false_iff_ne]
        exact fun he => hpq (idxOf_inj hq he).symm
      have h2 : (p == q) = false := by simpa using hpq
      rw [h1, h2]
      exact ih

theorem findInDecls_idFrame (env : Env) (p : Str) (f : List (Str × Str)) (h : FrameIn env f) :
    findInDecls (env.prefixes.idxOf p) (idFrame env f) = (f.reverse.lookup p).map env.namespaces.idxOf := by
  unfold findInDecls
  have : (idFrame env f).reverse = idFrame env f.reverse := by simp [idFrame]
  rw [this]
  exact find_idFrame env p f.reverse (fun x hx => h x (by simpa using hx))

/-- Prefix lookup on the id stack IS lookup in the string scope. -/
theorem lookupPrefix_frames (env : Env) (p : Str) : ∀ (frames : List (List (Str × Str))), FramesIn env frames →
    lookupPrefix (frames.map (idFrame env)) (env.prefixes.idxOf p) =
      ((flatScope frames).lookup p).map env.namespaces.idxOf
  | [], _ => rfl
  | f :: fs, h => by
    have ih := lookupPrefix_frames env p fs (fun x hx => h x (by simp [hx]))
    simp only [List.map_cons, flatScope]
    rw [lookupPrefix_cons, findInDecls_idFrame env p f (h f (by simp)), List.lookup_append]
    cases f.reverse.lookup p with
    | some u => rfl
    | none => simpa using ih

theorem mem_flatScope {frames : List (List (Str × Str))} {pu : Str × Str} (h : pu ∈ flatScope frames) :
    ∃ f ∈ frames, pu ∈ f := by
  induction frames with
  | nil => simp [flatScope] at h
  | cons f fs ih =>
    simp only [flatScope, List.mem_append, List.mem_reverse] at h
    rcases h with h | h
    · exact ⟨f, by simp, h⟩
    · obtain ⟨g, hg, hm⟩ := ih h; exact ⟨g, by simp [hg], hm⟩

/-- A prefix bound in scope: both strings are interned and the id stack resolves it to the id of
    the URI. -/
theorem resolve_ok {env : Env} {frames : List (List (Str × Str))} (h : FramesIn env frames) {p u : Str}
    (hl : (flatScope frames).lookup p = some u) :
    p ∈ env.prefixes ∧ u ∈ env.namespaces ∧
      lookupPrefix (frames.map (idFrame env)) (env.prefixes.idxOf p) = some (env.namespaces.idxOf u) := by
  obtain ⟨f, hf, hm⟩ := mem_flatScope (lookup_mem hl)
  have := h f hf (p, u) hm
  refine ⟨this.1, this.2, ?_⟩
  rw [lookupPrefix_frames env p frames h, hl]; rfl

/-- An element name whose prefix is bound to `u`. -/
theorem elementNameId_ns {env : Env} {frames : List (List (Str × Str))} (h : FramesIn env frames) {p u : Str}
    (hl : (flatScope frames).lookup p = some u) (name : Str) (sp : Span) :
    elementNameId env (frames.map (idFrame env)) p name sp =
      .ok ((env.internNamespace u).1.internName name (env.internNamespace u).2) := by
  obtain ⟨hp, hu, hlook⟩ := resolve_ok h hl
  unfold elementNameId
  rw [internPrefix_of_mem hp, internNamespace_of_mem hu]
  simp only [hlook]

/-- An attribute name: unprefixed = no namespace, prefixed = the URI the prefix is bound to. -/
theorem attributeNameId_ns {env : Env} (hb : EnvBaseNs env) {frames : List (List (Str × Str))}
    (h : FramesIn env frames) {p : Str}
    (hl : p ≠ [] → ((flatScope frames).lookup p).isSome = true) (name : Str) (sp : Span) :
    attributeNameId env (frames.map (idFrame env)) p name sp =
      .ok ((env.internNamespace ((flatScope frames).attrNs p)).1.internName name
        (env.internNamespace ((flatScope frames).attrNs p)).2) ∧
    (flatScope frames).attrNs p ∈ env.namespaces := by
  by_cases hp : p = []
  · subst hp
    have h0 := hb.ns_empty
    simp only [Scope.attrNs, if_true]
    refine ⟨?_, h0.1⟩
    rw [internNamespace_of_mem h0.1, h0.2]
    exact attributeNameId_unprefixed env _ name sp hb.base.pfx0
  · obtain ⟨u, hu⟩ := Option.isSome_iff_exists.mp (hl hp)
    obtain ⟨hpm, hum, hlook⟩ := resolve_ok h hu
    have hns : (flatScope frames).attrNs p = u := by simp [Scope.attrNs, hp, Scope.resolve, hu]
    rw [hns]
    refine ⟨?_, hum⟩
    unfold attributeNameId
    rw [internPrefix_of_mem hpm, internNamespace_of_mem hum]
    have hne : (env.prefixes.idxOf p == Env.emptyPrefix) = false := by
      rw [beq_eq_false_iff_ne]
      intro he
      have h0 := hb.pfx_empty
      rw [show Env.emptyPrefix = 0 from rfl, ← h0.2] at he
      exact hp (idxOf_inj hpm he)
    simp only [hne, Bool.false_eq_true, if_false, hlook]

end XotModel
