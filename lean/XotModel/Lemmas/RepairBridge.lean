/-
  From the recursion to the statements about the call: `namesWritable` (the serialiser's own check,
  Model/Scope) is `okRec` from the scope of the ancestors; the new prefixes are bound nowhere in
  scope of the element; everything about one `create_missing_prefixes_for_element` call in one place.
-/
import XotModel.Lemmas.RepairFrame
import XotModel.Lemmas.RepairScope

namespace XotModel.Repair
open XotModel

/-! ### `namesWritable` as `okRec` -/

mutual
theorem writable_fold (env : Env) : ∀ (t : Tree) (pre : Path) (st : WritableState),
    (scopeTraverse pre t).foldl (writableStep env) st =
      { fs := st.fs, ok := st.ok && okRec env.nsOfName st.fs.top t }
  | .node v ks, pre, st => by
    rw [foldl_scopeTraverse]
    cases v with
    | element name =>
      simp only [Value.isNormal, Value.category, beq_self_eq_true, if_true]
      rw [show writableStep env st (.start pre (.node (.element name) ks)) =
          { fs := st.fs.push (Tree.node (.element name) ks).nsDecls,
            ok := st.ok && (!(env.nsOfName name == Env.noNamespace &&
                (st.fs.push (Tree.node (.element name) ks).nsDecls).hasDefaultNamespace) &&
              exceptIsOk ((st.fs.push (Tree.node (.element name) ks).nsDecls).elementFullname env name)) &&
              ((Tree.node (.element name) ks).attrs.map (·.1)).all (fun n =>
                exceptIsOk ((st.fs.push (Tree.node (.element name) ks).nsDecls).attributeFullname env n)) } from rfl]
      rw [writable_fold_kids env ks pre 0]
      simp only [writableStep, Tree.value, Value.isElement, if_true, hasNamespaceDeclarations,
        pop_push, top_push, okRec, elementOkAt, exceptIsOk_elementFullname, exceptIsOk_attributeFullname,
        hasDefaultNamespace_eq, Bool.and_assoc]
    | document => simpa [Value.isNormal, Value.category, writableStep, Tree.value, Value.isElement, okRec] using writable_fold_kids env ks pre 0 st
    | text s => simpa [Value.isNormal, Value.category, writableStep, Tree.value, Value.isElement, okRec] using writable_fold_kids env ks pre 0 st
    | pi a b => simpa [Value.isNormal, Value.category, writableStep, Tree.value, Value.isElement, okRec] using writable_fold_kids env ks pre 0 st
    | comment s => simpa [Value.isNormal, Value.category, writableStep, Tree.value, Value.isElement, okRec] using writable_fold_kids env ks pre 0 st
    | «attribute» a b => simpa [Value.isNormal, Value.category, okRec] using writable_fold_kids env ks pre 0 st
    | «namespace» a b => simpa [Value.isNormal, Value.category, okRec] using writable_fold_kids env ks pre 0 st
theorem writable_fold_kids (env : Env) : ∀ (ks : List Tree) (pre : Path) (i : Nat) (st : WritableState),
    (scopeTraverse.go pre i ks).foldl (writableStep env) st =
      { fs := st.fs, ok := st.ok && okKids env.nsOfName st.fs.top ks }
  | [], pre, i, st => by simp [scopeTraverse.go, okKids]
  | k :: ks, pre, i, st => by
    rw [foldl_go_cons, writable_fold env k, writable_fold_kids env ks]
    simp [okKids, Bool.and_assoc]
end

theorem namesWritableChain_eq (env : Env) (chain : List Tree) (sub : Tree) :
    namesWritableChain env chain sub = okRec env.nsOfName (namespacesInScopeChain chain) sub := by
  simp [namesWritableChain, writable_fold, FStack.new, FStack.top]

/-- The serialiser starts from `namespaces_in_scope(element)` and pushes the element's own
    declarations again: the same frame as pushing them on the scope of the parent. -/
theorem pushTop_inScope_child (el : Tree) (rest : List Tree) :
    pushTop (namespacesInScopeChain (el :: rest)) el.nsDecls =
      pushTop (namespacesInScopeChain rest) el.nsDecls := by
  unfold pushTop
  cases hd : el.nsDecls with
  | nil =>
    simp only [List.isEmpty_nil, if_true]
    unfold namespacesInScopeChain
    simp [traverseChain, hd, traverseDecls]
  | cons d ds =>
    simp only [List.isEmpty_cons, Bool.false_eq_true, if_false]
    rw [← hd]
    exact fullnameInfoNew_inScope_child el rest

theorem okRec_inScope_child (nsOf : Nat → Nat) (el : Tree) (rest : List Tree) (name : Nat)
    (hv : el.value = .element name) :
    okRec nsOf (namespacesInScopeChain (el :: rest)) el = okRec nsOf (namespacesInScopeChain rest) el := by
  rw [okRec_of_value nsOf _ el name hv, okRec_of_value nsOf _ el name hv, pushTop_inScope_child]

/-! ### The ancestor chain after the call -/

theorem ancestors_after (f : Tree → Tree) (t : Tree) (path : Path) (E : Tree) (rest : List Tree)
    (hat : t.at? path = some E) (hc : t.ancestorsOrSelf path = some (E :: rest))
    (hv : (f E).value = E.value) :
    ∃ rest', (scopeModifyAt f t path).ancestorsOrSelf path = some (f E :: rest') ∧
      rest'.map Tree.nsDecls = rest.map Tree.nsDecls := by
  have hat' : (scopeModifyAt f t path).at? path = some (f E) := by rw [at?_scopeModifyAt, hat]; rfl
  rcases List.eq_nil_or_concat path with rfl | ⟨p, i, hp⟩
  · simp only [Tree.ancestorsOrSelf, Option.some.injEq, List.cons.injEq] at hc
    refine ⟨[], ?_, by rw [← hc.2]⟩
    rw [scopeModifyAt_nil]
    simp only [Tree.at?, Option.some.injEq] at hat
    subst hat
    rfl
  · rw [List.concat_eq_append] at hp
    subst hp
    have hval : ∀ x, t.at? (p ++ [i]) = some x → (f x).value = x.value := by
      intro x hx; rw [hat] at hx; cases hx; exact hv
    have hmap := ancestors_scopeModifyAt_below f p i [] t hval
    obtain ⟨c0, hc0⟩ := ancestorsOrSelf_of_at? _ _ _ hat'
    -- the chains of the parent
    cases h1 : (scopeModifyAt f t (p ++ [i])).ancestorsOrSelf p with
    | none =>
      exfalso
      -- the parent exists because the child does
      have : ∀ (q : Path) (s : Tree), s.ancestorsOrSelf q = none → s.ancestorsOrSelf (q ++ [i]) = none := by
        intro q
        induction q with
        | nil => intro s hs; simp [Tree.ancestorsOrSelf] at hs
        | cons j q ih =>
          intro s hs
          simp only [Tree.ancestorsOrSelf, List.cons_append] at hs ⊢
          cases hk : s.kids[j]? with
          | none => rfl
          | some k =>
            simp only [hk, Option.map_eq_none_iff] at hs ⊢
            exact ih k hs
      rw [this p _ h1] at hc0
      cases hc0
    | some c1 =>
      have hchild := ancestorsOrSelf_child _ p i c1 (f E) h1 hat'
      cases h2 : t.ancestorsOrSelf p with
      | none => rw [h1, h2] at hmap; cases hmap
      | some c2 =>
        have hchild2 := ancestorsOrSelf_child t p i c2 E h2 hat
        rw [hchild2] at hc
        simp only [Option.some.injEq, List.cons.injEq] at hc
        rw [h1, h2] at hmap
        simp only [Option.map_some, Option.some.injEq] at hmap
        exact ⟨c1, hchild, by rw [hmap, hc.2]⟩

/-! ### Every declared prefix is in `used_prefix_ids` -/

mutual
theorem declared_sub_used (nsOf : Nat → Nat) : ∀ (x : Tree) (top : List (Nat × Nat)) (pre : Path) (acc : Acc)
    (rel : Path) (y : Tree) (name : Nat), x.at? rel = some y → y.value = .element name →
      ∀ p ∈ keys y.nsDecls, p ∈ (collectRec nsOf top pre x acc).used
  | .node v ks, top, pre, acc, [], y, name, hat, hy, p, hp => by
    simp only [Tree.at?, Option.some.injEq] at hat
    subst hat
    simp only [Tree.value] at hy
    subst hy
    simp only [collectRec]
    exact (collectKids_mono nsOf ks _ pre 0 _).2 p (by simp only [List.mem_append]; exact Or.inr hp)
  | .node v ks, top, pre, acc, i :: rel, y, name, hat, hy, p, hp => by
    rw [at?_cons] at hat
    cases hk : ks[i]? with
    | none => rw [hk] at hat; cases hat
    | some k =>
      rw [hk] at hat
      simp only [Option.bind_some] at hat
      by_cases hv : v.isElement = true
      · cases v <;> simp [Value.isElement] at hv
        simp only [collectRec]
        exact declared_sub_used_kids nsOf ks _ pre 0 _ i k rel y name hk hat hy p hp
      · rw [collectRec_other nsOf top pre v ks acc (by simpa using hv)]
        exact declared_sub_used_kids nsOf ks _ pre 0 _ i k rel y name hk hat hy p hp
theorem declared_sub_used_kids (nsOf : Nat → Nat) : ∀ (ks : List Tree) (top : List (Nat × Nat)) (pre : Path)
    (j : Nat) (acc : Acc) (i : Nat) (k : Tree) (rel : Path) (y : Tree) (name : Nat), ks[i]? = some k →
      k.at? rel = some y → y.value = .element name →
      ∀ p ∈ keys y.nsDecls, p ∈ (collectKids nsOf top pre j ks acc).used
  | [], _, _, _, _, i, _, _, _, _, hk, _, _, _, _ => by simp at hk
  | k0 :: ks, top, pre, j, acc, i, k, rel, y, name, hk, hat, hy, p, hp => by
    simp only [collectKids]
    cases i with
    | zero =>
      simp only [List.getElem?_cons_zero, Option.some.injEq] at hk
      subst hk
      exact (collectKids_mono nsOf ks top pre (j + 1) _).2 p
        (declared_sub_used nsOf k0 top (pre ++ [j]) acc rel y name hat hy p hp)
    | succ i =>
      exact declared_sub_used_kids nsOf ks top pre (j + 1) _ i k rel y name (by simpa using hk) hat hy p hp
end

/-! ### One call -/

/-- Everything the theorems of Props/C10 need about `create_missing_prefixes_for_element`. -/
structure RepairFacts (env : Env) (t : Tree) (path : Path) (E : Tree) (env' : Env) (t' : Tree) : Prop where
  /-- the new declarations: prefix ids and the namespaces they are bound to -/
  nd : ∃ nd : List (Nat × Nat),
    t'.at? path = some (rebuild env.nsOfName nd true (inheritedDecls t path) E) ∧
    t' = scopeModifyAt (fun _ => rebuild env.nsOfName nd true (inheritedDecls t path) E) t path ∧
    (keys nd).Nodup ∧ (∀ d ∈ nd, d.1 ≠ Env.emptyPrefix) ∧
    (∀ p ∈ keys nd, p ∉ keys ((namespacesInScope t path).getD [])) ∧
    (∀ p ∈ keys nd, ∀ rel y name, E.at? rel = some y → y.value = .element name → p ∉ keys y.nsDecls) ∧
    okRec env.nsOfName (inheritedDecls t path) (rebuild env.nsOfName nd true (inheritedDecls t path) E) = true
  names : env'.names = env.names
  namespaces : env'.namespaces = env.namespaces
  envOk : EnvOk env'

theorem nsOfName_congr {env env' : Env} (h : env'.names = env.names) : env'.nsOfName = env.nsOfName := by
  funext n; simp [Env.nsOfName, h]

theorem repairElement_facts (env : Env) (hok : EnvOk env) (t : Tree) (path : Path) (name : Nat)
    (ks : List Tree) (hat : t.at? path = some (.node (.element name) ks))
    (hu : UniqueBelow (.node (.element name) ks)) (env' : Env) (t' : Tree)
    (h : repairElement env t path = .ok (env', t')) :
    RepairFacts env t path (.node (.element name) ks) env' t' := by
  rw [repairElement_eq env t path _ hat] at h
  generalize hR : collectRec env.nsOfName (inheritedDecls t path) path (.node (.element name) ks) ⟨[], [], []⟩ = R at h
  cases ha : assignPrefixes env (R.used ++ ((namespacesInScope t path).getD []).map (·.1)) 0 R.missing with
  | none => rw [ha] at h; cases h
  | some r =>
    obtain ⟨env1, nd⟩ := r
    rw [ha] at h
    simp only [Outcome.ok.injEq, Prod.mk.injEq] at h
    obtain ⟨rfl, rfl⟩ := h
    obtain ⟨s1, s2, s3, s4, s5, s6⟩ := assignPrefixes_spec _ _ _ _ _ _ ha
    obtain ⟨s6a, s6b⟩ := s6 hok
    obtain ⟨rest, hc⟩ := ancestorsOrSelf_of_at? t path _ hat
    have hinhEq := inheritedDecls_eq t path _ rest hc
    have hscope : (namespacesInScope t path).getD [] =
        namespacesInScopeChain (.node (.element name) ks :: rest) := by
      simp [namespacesInScope, hc]
    have hused : ∀ p ∈ keys nd, p ∉ R.used := fun p hp hin => s3 p hp (by simp [hin])
    have hscopeFresh : ∀ p ∈ keys nd, p ∉ keys ((namespacesInScope t path).getD []) :=
      fun p hp hin => s3 p hp (by simp only [List.mem_append]; exact Or.inr hin)
    have hdecl : ∀ p ∈ keys nd, ∀ rel y nm, (Tree.node (.element name) ks).at? rel = some y →
        y.value = .element nm → p ∉ keys y.nsDecls := by
      intro p hp rel y nm hy hv hin
      apply hused p hp
      rw [← hR]
      exact declared_sub_used env.nsOfName _ _ path _ rel y nm hy hv p hin
    have hinh : ∀ p ∈ keys nd, p ∉ keys (inheritedDecls t path) := by
      intro p hp hin
      rw [hinhEq] at hin
      obtain ⟨m, hm⟩ := mem_keys.mp hin
      have hspec := (rs_mem_namespacesInScopeChain rest p m).mp hm
      cases hl : (Tree.node (.element name) ks).nsDecls.lookup p with
      | none =>
        have : scopeSpecChain (.node (.element name) ks :: rest) p = some m := by
          simp only [scopeSpecChain, hl, hspec]
        have := (rs_mem_namespacesInScopeChain _ p m).mpr this
        exact hscopeFresh p hp (by rw [hscope]; exact mem_keys.mpr ⟨m, this⟩)
      | some n =>
        have hk : p ∈ keys (Tree.node (.element name) ks).nsDecls := by
          by_cases hk : p ∈ keys (Tree.node (.element name) ks).nsDecls
          · exact hk
          · rw [(lookup_none_iff p _).mpr hk] at hl
            cases hl
        exact hdecl p hp [] _ name rfl rfl hk
    have hm : ∀ ns ∈ R.missing, HasNd nd ns := hasNd_of_assign s1 s6b
    have hokE := rebuild_top_ok env.nsOfName nd s6b s2 name ks (inheritedDecls t path) path ⟨[], [], []⟩ hu
      (by rw [hR]; exact hm) (by rw [hR]; exact hused) hinh
    exact ⟨⟨nd, by rw [at?_scopeModifyAt, hat]; rfl, rfl, s2, s6b, hscopeFresh, hdecl, hokE⟩, s4, s5, s6a⟩

/-- The call leaves names, attributes and content alone. -/
theorem facts_frame {env : Env} {t : Tree} {path : Path} {E : Tree} {env' : Env} {t' : Tree}
    (hat : t.at? path = some E) (hf : RepairFacts env t path E env' t') : stripNs t' = stripNs t := by
  obtain ⟨nd, _, rfl, _⟩ := hf.nd
  apply stripNs_scopeModifyAt
  intro x hx
  rw [hat] at hx
  cases hx
  exact ⟨value_rebuild _ _ _ _ _, stripNs_rebuild _ _ _ _ _⟩

/-- After the call the serialiser finds a prefix for every name of the element's subtree. -/
theorem facts_writable {env : Env} {t : Tree} {path : Path} {name : Nat} {ks : List Tree} {env' : Env}
    {t' : Tree} (hat : t.at? path = some (.node (.element name) ks))
    (hf : RepairFacts env t path (.node (.element name) ks) env' t') :
    namesWritable env' t' path = some true := by
  obtain ⟨nd, hat', rfl, _, _, _, _, hokE⟩ := hf.nd
  obtain ⟨rest, hc⟩ := ancestorsOrSelf_of_at? t path _ hat
  obtain ⟨rest', hc', hmap⟩ := ancestors_after
    (fun _ => rebuild env.nsOfName nd true (inheritedDecls t path) (.node (.element name) ks)) t path _ rest hat hc
    (value_rebuild _ _ _ _ _)
  unfold namesWritable
  rw [hc', hat']
  simp only [Option.some.injEq]
  rw [namesWritableChain_eq, nsOfName_congr hf.names,
    okRec_inScope_child _ _ _ name (by rw [value_rebuild]; rfl),
    namespacesInScopeChain_congr rest' rest hmap, ← inheritedDecls_eq t path _ rest hc]
  exact hokE

/-- A second call is the identity. -/
theorem facts_idem {env : Env} {t : Tree} {path : Path} {name : Nat} {ks : List Tree} {env' : Env}
    {t' : Tree} (hat : t.at? path = some (.node (.element name) ks))
    (hf : RepairFacts env t path (.node (.element name) ks) env' t') :
    repairElement env' t' path = .ok (env', t') := by
  obtain ⟨nd, hat', ht', _, _, _, _, hokE⟩ := hf.nd
  obtain ⟨rest, hc⟩ := ancestorsOrSelf_of_at? t path _ hat
  obtain ⟨rest', hc', hmap⟩ := ancestors_after
    (fun _ => rebuild env.nsOfName nd true (inheritedDecls t path) (.node (.element name) ks)) t path _ rest hat hc
    (value_rebuild _ _ _ _ _)
  rw [← ht'] at hc'
  have hinh : inheritedDecls t' path = inheritedDecls t path := by
    rw [inheritedDecls_eq t' path _ rest' hc', inheritedDecls_eq t path _ rest hc,
      namespacesInScopeChain_congr rest' rest hmap]
  rw [repairElement_eq env' t' path _ hat', hinh, nsOfName_congr hf.names]
  obtain ⟨c1, _⟩ := collect_of_ok env.nsOfName _ (inheritedDecls t path) path ⟨[], [], []⟩ hokE
  rw [c1]
  simp only [assignPrefixes]
  rw [rebuild_of_ok env.nsOfName _ true _ hokE, scopeModifyAt_id path t' _ hat']

end XotModel.Repair
