/-
  Lemmas for C12, part 5: `any_append(current, new)` inside the edge replay — a text node absorbed
  by the preceding text, namespace and attribute nodes — and the four cases put together.
-/
import XotModel.Lemmas.FcloneAppend

namespace XotModel
open HTree

theorem takeWhile_all {α} (p : α → Bool) (l : List α) (h : ∀ a ∈ l, p a = true) : l.takeWhile p = l := by
  have := List.takeWhile_append_of_pos (p := p) (l₁ := l) (l₂ := []) h
  simpa using this

theorem dropWhile_all {α} (p : α → Bool) (l : List α) (h : ∀ a ∈ l, p a = true) : l.dropWhile p = [] := by
  have := List.dropWhile_append_of_pos (p := p) (l₁ := l) (l₂ := []) h
  simpa using this

theorem dropWhile_none {α} (p : α → Bool) (l : List α) (h : ∀ a ∈ l, p a = false) : l.dropWhile p = l := by
  cases l with
  | nil => rfl
  | cons a l => simp [List.dropWhile_cons, h a (by simp)]

namespace Work

variable {g : Forest} {R : List HTree} {fs : List CFrame} {c : Nat} {vc : Value} {K : List HTree}
  {n : Nat} {v : Value}

theorem isRoot_focus (w : Work g R fs c vc K n v) (hfs : fs ≠ []) : g.isRoot c = false := by
  cases fs with
  | nil => exact absurd rfl hfs
  | cons a fs' =>
    unfold Forest.isRoot
    rw [w.roots]
    have h1 : a.h ≠ c := by
      intro e
      apply w.cF
      simp [frameHandles, e]
    have h2 : (HTree.node n v []).handle = n := rfl
    have h3 : (fcPlug (a :: fs') (.node c vc K)).handle = a.h := rfl
    simp only [List.any_append, any_handle_eq_false_of_not_mem c R w.cR, List.any_cons, h2, h3,
      List.any_nil, Bool.or_false, Bool.false_or, h1, w.nc, decide_false]

theorem spliceOut_n (w : Work g R fs c vc K n v) :
    g.spliceOut n = g.withRoots (R ++ [fcPlug fs (.node c vc K)]) := by
  unfold Forest.spliceOut
  rw [w.get?_n]
  simp only [w.isRoot_n, if_true, HTree.kids, List.length_nil, Nat.zero_le, List.append_nil]
  rw [w.roots, List.filter_append, filter_handle_ne_of_not_mem n R w.nR]
  have h1 := w.rootW_ne_n
  have h2 : (HTree.node n v []).handle = n := rfl
  simp [List.filter_cons, h1, h2, Forest.withRoots]

theorem setValue_last {K' : List HTree} {m : Nat} {vm : Value} {mk : List HTree}
    (w : Work g R fs c vc (K' ++ [.node m vm mk]) n v) (val : Value) :
    g.setValue m val =
      g.withRoots (R ++ [fcPlug fs (.node c vc (K' ++ [.node m val mk])), .node n v []]) := by
  have w' := w.descend
  unfold Forest.setValue
  rw [w.roots]
  simp only [List.map_append, List.map_cons, List.map_nil]
  rw [map_mapAt_of_not_mem m _ R w'.cR]
  have e1 : fcPlug fs (.node c vc (K' ++ [.node m vm mk])) = fcPlug (fs ++ [⟨c, vc, K'⟩]) (.node m vm mk) := by
    rw [fcPlug_append]
  rw [e1, mapAt_plug m _ _ _ w'.cF, mapAt_self, fcPlug_append]
  have e2 : mapAt m (HTree.setValue val) (.node n v []) = .node n v [] :=
    fc_mapAt_of_not_mem m _ _ (by simp [handles, handlesList, Ne.symm w'.nc])
  rw [e2]
  rfl

/-- The work state after the value of the last child changed. -/
theorem reval_last {K' : List HTree} {m : Nat} {vm : Value} {mk : List HTree}
    (w : Work g R fs c vc (K' ++ [.node m vm mk]) n v) (val : Value) :
    Work (g.withRoots (R ++ [fcPlug fs (.node c vc (K' ++ [.node m val mk])), .node n v []]))
      R fs c vc (K' ++ [.node m val mk]) n v := by
  have e : handlesList (K' ++ [.node m val mk]) = handlesList (K' ++ [.node m vm mk]) := by
    simp [handlesList_append, handlesList, handles]
  refine ⟨rfl, ?_, ?_⟩
  · rw [e]; exact w.nodup
  · rw [e]; exact w.fresh

/-- Consolidation on, a text arrives after a text: absorbed. -/
theorem append_merge {K' : List HTree} {m : Nat} {ps s : Str} {mk : List HTree}
    (w : Work g R fs c vc (K' ++ [.node m (.text ps) mk]) n (.text s))
    (hvc : vc.isElement = true ∨ vc.isDocument = true) (hc : g.consolidation = true) :
    g.append c n =
      (g.withRoots (R ++ [fcPlug fs (.node c vc (K' ++ [.node m (.text (ps ++ s)) mk]))]), .ok) := by
  unfold Forest.append
  have h1 : g.lastChild c = some m := by
    rw [w.lastChild_snoc]; simp [HTree.value, HTree.handle, Value.isNormal, Value.category]
  have h2 : g.textOf m = some ps := by
    have := w.textOf_last
    simpa [HTree.handle, HTree.value] using this
  have h3 : g.textOf n = some s := by rw [w.textOf_n]
  have h4 : g.addConsolidate n (some m) none =
      (g.withRoots (R ++ [fcPlug fs (.node c vc (K' ++ [.node m (.text (ps ++ s)) mk]))]), true) := by
    rw [Forest.addConsolidate_eq_old_of_ne (by simpa using Ne.symm w.descend.nc) (by simp)]
    unfold Forest.addConsolidateOld
    simp only [hc, Bool.not_true, Bool.false_eq_true, if_false, h3, h2]
    rw [w.setValue_last, (w.reval_last _).spliceOut_n]
    rfl
  have h5 : (some m == some n) = false := by
    have := w.descend.nc
    simp [Ne.symm this]
  simp only [w.structureCheck_fresh hvc rfl rfl, w.prevSibling_n, w.nextSibling_n,
    removeConsolidate_none, h1, h4, h5, Bool.not_true, Bool.false_eq_true, if_false, if_true]

/-! #### namespace / attribute nodes -/

theorem checkedPrepend_fresh (w : Work g R fs c vc K n v) :
    g.checkedPrepend c n = (g.withRoots (R ++ [fcPlug fs (.node c vc (.node n v [] :: K))]), true) := by
  unfold Forest.checkedPrepend
  have h1 : (c = n) = False := by simp [Ne.symm w.nc]
  simp only [h1, w.not_anc, decide_false, Bool.or_false, Bool.false_eq_true, if_false, w.cut_n]
  rw [placeFirst_work g R fs c vc K _ w.cR w.cF]

theorem checkedInsertAfter_last {K' : List HTree} {x : HTree} (w : Work g R fs c vc (K' ++ [x]) n v) :
    g.checkedInsertAfter x.handle n =
      (g.withRoots (R ++ [fcPlug fs (.node c vc (K' ++ [x, .node n v []]))]), true) := by
  cases x with
  | node m vm mk =>
    have w' := w.descend
    unfold Forest.checkedInsertAfter
    simp only [HTree.handle]
    have h1 : (m = n) = False := by simp [Ne.symm w'.nc]
    have h2 : g.isRoot m = false := w'.isRoot_focus (by simp)
    simp only [h1, if_false, w'.not_anc, h2, Bool.or_false, Bool.false_eq_true, w.cut_n]
    have hF : m ∉ frameHandles fs := fun h => w'.cF (by simp [frameHandles_append, h])
    have hcm : m ≠ c := fun e => w'.cF (by simp [frameHandles_append, frameHandles, e])
    have hK : m ∉ handlesList K' := fun h => w'.cF (by simp [frameHandles_append, frameHandles, h])
    have := placeAfter_work g R fs c vc K' (.node m vm mk) (.node n v []) w'.cR hF hcm hK
    simp only [HTree.handle] at this
    rw [this]

/-- Entry nodes always land at the end of what has been copied so far. -/
theorem mapPlace_fresh (w : Work g R fs c vc K n v) (k : Forest.MapKind)
    (hip : g.mapInsertionPoint k c = K.getLast?.map (·.handle)) :
    g.mapPlace k c n = (g.withRoots (R ++ [fcPlug fs (.node c vc (K ++ [.node n v []]))]), .ok) := by
  unfold Forest.mapPlace
  rw [hip]
  rcases List.eq_nil_or_concat K with rfl | ⟨K', x, rfl⟩
  · simp [w.checkedPrepend_fresh]
  · rw [List.concat_eq_append] at w ⊢
    simp [w.checkedInsertAfter_last]

theorem mapInsertNode_fresh (w : Work g R fs c vc K n v) (k : Forest.MapKind)
    (hm : k.matches v = true)
    (hget : g.mapGetNode k c (Forest.entryKey v) = none)
    (hip : g.mapInsertionPoint k c = K.getLast?.map (·.handle)) :
    g.mapInsertNode k c n =
      (g.withRoots (R ++ [fcPlug fs (.node c vc (K ++ [.node n v []]))]), .ok, n) := by
  unfold Forest.mapInsertNode
  simp [w.value?_n, hm, hget, w.mapPlace_fresh k hip]

theorem appendEntryNode_fresh (w : Work g R fs c vc K n v) (k : Forest.MapKind)
    (hvc : vc.isElement = true) (hm : k.matches v = true)
    (hget : g.mapGetNode k c (Forest.entryKey v) = none)
    (hip : g.mapInsertionPoint k c = K.getLast?.map (·.handle)) :
    g.appendEntryNode k c n =
      (g.withRoots (R ++ [fcPlug fs (.node c vc (K ++ [.node n v []]))]), .ok, n) := by
  unfold Forest.appendEntryNode
  simp [w.isElement_c, hvc, w.value?_n, hm, w.mapInsertNode_fresh k hm hget hip]

end Work
end XotModel
