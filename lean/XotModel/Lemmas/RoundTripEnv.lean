/-
  Round trip, the interning tables: what `envOK` (Model/SerTokens.lean) gives — the built-in values
  at their ids, ids in use are below the table lengths, `prefixStr` / `namespaceStr` / names are
  injective on such ids, interning a value that is present returns its id and leaves the tables
  alone — and the hypothesis `EnvBaseNs` of the builder theorems.  Plus list lemmas.
-/
import XotModel.Lemmas.RoundTripDefs

namespace XotModel

/-! ### Lists -/

/-- `lookup` in an association list without repeated keys: membership. -/
theorem lookup_some_iff_mem {α β : Type} [BEq α] [LawfulBEq α] {l : List (α × β)}
    (hu : (l.map Prod.fst).Nodup) (k : α) (v : β) : l.lookup k = some v ↔ (k, v) ∈ l := by
  induction l with
  | nil => simp
  | cons d l ih =>
    obtain ⟨q, m⟩ := d
    have hu' : (l.map Prod.fst).Nodup := (List.nodup_cons.mp hu).2
    have hq : q ∉ l.map Prod.fst := (List.nodup_cons.mp hu).1
    by_cases h : k = q
    · subst h
      simp only [List.lookup_cons_self, Option.some.injEq, List.mem_cons, Prod.mk.injEq, true_and]
      constructor
      · intro hm; exact Or.inl hm.symm
      · rintro (hm | hm)
        · exact hm.symm
        · exact absurd (List.mem_map_of_mem (f := Prod.fst) hm) hq
    · have h' : (k == q) = false := by simpa using h
      simp [List.lookup_cons, h', ih hu', h]

theorem lookup_none_iff_not_mem {α β : Type} [BEq α] [LawfulBEq α] (l : List (α × β)) (k : α) :
    l.lookup k = none ↔ k ∉ l.map Prod.fst := by
  simp only [List.lookup_eq_none_iff, List.mem_map, not_exists, not_and]
  constructor
  · intro h d hd he; have := h d hd; simp [he] at this
  · intro h d hd; simpa using fun he : k = d.1 => h d hd he.symm

/-- On a list sorted so that `p` holds on an initial segment only, `takeWhile p` is `filter p`. -/
theorem takeWhile_eq_filter_of_pairwise {α : Type} (p : α → Bool) :
    ∀ (l : List α), l.Pairwise (fun a b => p b = true → p a = true) → l.takeWhile p = l.filter p
  | [], _ => rfl
  | a :: l, h => by
    obtain ⟨h1, h2⟩ := List.pairwise_cons.mp h
    by_cases ha : p a = true
    · simp only [List.takeWhile_cons, ha, if_true, List.filter_cons, takeWhile_eq_filter_of_pairwise p l h2]
    · have hall : ∀ b ∈ l, p b = false := fun b hb => by
        cases hb' : p b with
        | false => rfl
        | true => exact absurd (h1 b hb hb') ha
      have : l.filter p = [] := List.filter_eq_nil_iff.mpr (fun b hb => by simp [hall b hb])
      simp [ha, this]

theorem dropWhile_eq_filter_of_pairwise {α : Type} (p : α → Bool) :
    ∀ (l : List α), l.Pairwise (fun a b => p b = true → p a = true) →
      l.dropWhile p = l.filter (fun x => !p x)
  | [], _ => rfl
  | a :: l, h => by
    obtain ⟨h1, h2⟩ := List.pairwise_cons.mp h
    by_cases ha : p a = true
    · simp only [List.dropWhile_cons, ha, if_true, List.filter_cons, Bool.not_true, Bool.false_eq_true,
        if_false, dropWhile_eq_filter_of_pairwise p l h2]
    · have hall : ∀ b ∈ l, p b = false := fun b hb => by
        cases hb' : p b with
        | false => rfl
        | true => exact absurd (h1 b hb hb') ha
      have hf : l.filter (fun x => !p x) = l := List.filter_eq_self.mpr (fun b hb => by simp [hall b hb])
      have ha' : p a = false := by simpa using ha
      simp [ha', hf]

/-! ### `envOK` -/

structure EnvFacts (env : Env) : Prop where
  ns0 : env.namespaceStr Env.noNamespace = []
  ns1 : env.namespaceStr Env.xmlNamespace = xmlNsUri
  p0 : env.prefixStr Env.emptyPrefix = []
  p1 : env.prefixStr Env.xmlPrefix = ['x', 'm', 'l']
  id1 : env.names.getD Env.xmlIdName ([], 0) = (['i', 'd'], Env.xmlNamespace)
  nsNodup : env.namespaces.Nodup
  pNodup : env.prefixes.Nodup
  nNodup : env.names.Nodup

theorem envFacts_of_envOK {env : Env} (h : envOK env = true) : EnvFacts env := by
  simp only [envOK, Bool.and_eq_true, beq_iff_eq, decide_eq_true_eq] at h
  obtain ⟨⟨⟨⟨⟨⟨⟨h1, h2⟩, h3⟩, h4⟩, h5⟩, h6⟩, h7⟩, h8⟩ := h
  exact ⟨h1, h2, h3, h4, h5, h6, h7, h8⟩

theorem getD_ne_default_lt {α : Type} {l : List α} {i : Nat} {d : α} (h : l.getD i d ≠ d) : i < l.length := by
  by_cases hi : i < l.length
  · exact hi
  · exact absurd (by simp [List.getD_eq_getElem?_getD, List.getElem?_eq_none (Nat.le_of_not_lt hi)]) h

namespace EnvFacts

variable {env : Env} (h : EnvFacts env)
include h

theorem prefixes_len : 2 ≤ env.prefixes.length := by
  have : Env.xmlPrefix < env.prefixes.length :=
    getD_ne_default_lt (d := []) (by have := h.p1; simp only [Env.prefixStr] at this; rw [this]; simp)
  exact this

theorem namespaces_len : 2 ≤ env.namespaces.length := by
  have : Env.xmlNamespace < env.namespaces.length :=
    getD_ne_default_lt (d := []) (by
      have := h.ns1; simp only [Env.namespaceStr] at this; rw [this]; simp [xmlNsUri])
  exact this

theorem names_len : 2 ≤ env.names.length := by
  have : Env.xmlIdName < env.names.length :=
    getD_ne_default_lt (d := ([], 0)) (by rw [h.id1]; simp)
  exact this

omit h in
theorem prefix_lt_of_ne {p : Nat} (hp : env.prefixStr p ≠ []) : p < env.prefixes.length :=
  getD_ne_default_lt (d := []) hp

omit h in
theorem namespace_lt_of_ne {n : Nat} (hn : env.namespaceStr n ≠ []) : n < env.namespaces.length :=
  getD_ne_default_lt (d := []) hn

omit h in
theorem name_lt_of_ne {n : Nat} (hn : env.localName n ≠ []) : n < env.names.length := by
  apply getD_ne_default_lt (d := (([], 0) : Str × Nat))
  intro he
  apply hn
  simp only [Env.localName]
  rw [he]

theorem prefixStr_inj {p q : Nat} (hp : p < env.prefixes.length) (hq : q < env.prefixes.length)
    (he : env.prefixStr p = env.prefixStr q) : p = q :=
  (List.getD_inj hp hq h.pNodup).mp he

theorem namespaceStr_inj {p q : Nat} (hp : p < env.namespaces.length) (hq : q < env.namespaces.length)
    (he : env.namespaceStr p = env.namespaceStr q) : p = q :=
  (List.getD_inj hp hq h.nsNodup).mp he

/-- Two name ids in use with the same expanded name (as strings) are the same id. -/
theorem expanded_inj {a b : Nat} (ha : a < env.names.length) (hb : b < env.names.length)
    (hna : env.nsOfName a < env.namespaces.length) (hnb : env.nsOfName b < env.namespaces.length)
    (he : env.expanded a = env.expanded b) : a = b := by
  simp only [Env.expanded, Prod.mk.injEq] at he
  have hns := h.namespaceStr_inj hna hnb he.1
  apply (List.getD_inj (fallback := (([], 0) : Str × Nat)) ha hb h.nNodup).mp
  have h1 : env.localName a = env.localName b := he.2
  simp only [Env.localName, Env.nsOfName] at h1 hns
  exact Prod.ext h1 hns

theorem xmlPrefix_lt : Env.xmlPrefix < env.prefixes.length := h.prefixes_len
theorem emptyPrefix_lt : Env.emptyPrefix < env.prefixes.length := Nat.lt_of_lt_of_le (by decide) h.prefixes_len
theorem xmlNamespace_lt : Env.xmlNamespace < env.namespaces.length := h.namespaces_len
theorem noNamespace_lt : Env.noNamespace < env.namespaces.length :=
  Nat.lt_of_lt_of_le (by decide) h.namespaces_len

/-- The hypothesis of the builder theorems (C02_spelled_ns_*). -/
theorem envBaseNs : EnvBaseNs env := by
  have hp := h.prefixes_len
  have hn := h.namespaces_len
  have hm := h.names_len
  have hp0 := h.p0
  have hp1 := h.p1
  have hn0 := h.ns0
  have hn1 := h.ns1
  have hid := h.id1
  have hnd := h.nNodup
  obtain ⟨nss, ps, nms⟩ := env
  simp only [Env.prefixStr, Env.namespaceStr, Env.emptyPrefix, Env.xmlPrefix, Env.noNamespace,
    Env.xmlNamespace, Env.xmlIdName] at *
  refine ⟨?_, ?_, ?_⟩
  · match ps, hp, hp0, hp1 with
    | a :: b :: rest, _, h0, h1 =>
      simp only [List.getD_cons_zero, List.getD_cons_succ] at h0 h1
      exact ⟨rest, by rw [h0, h1]⟩
  · match nss, hn, hn0, hn1 with
    | a :: b :: rest, _, h0, h1 =>
      simp only [List.getD_cons_zero, List.getD_cons_succ] at h0 h1
      exact ⟨rest, by rw [h0, h1]⟩
  · match nms, hm, hid, hnd with
    | a :: b :: rest, _, h1, hnd =>
      simp only [List.getD_cons_zero, List.getD_cons_succ] at h1
      refine ⟨a, rest, by rw [h1], ?_⟩
      intro ha
      rw [h1, ha] at hnd
      simp at hnd

end EnvFacts

end XotModel
