/-
  Finv (C04), part 18: `mapInsert`, `mapInsertNode`, `appendEntryNode`, `anyAppend`,
  `textContentSet` preserve the invariant.
-/
import XotModel.Lemmas.FinvMap

namespace XotModel
open HTree

theorem fi_findList?_append_left {h : Nat} {a b : List HTree} {t : HTree} (hs : findList? h a = some t) :
    findList? h (a ++ b) = some t := by
  induction a with
  | nil => simp [findList?] at hs
  | cons k ks ih =>
    rw [List.cons_append, fi_findList?_cons]
    rw [fi_findList?_cons] at hs
    cases hk : find? h k with
    | some t' => rw [hk] at hs; simpa using hs
    | none => rw [hk] at hs; simp only [Option.none_or] at hs ⊢; exact ih hs

namespace Forest

theorem get?_newNode_of_some {f : Forest} {x : Nat} {t : HTree} (v : Value) (h : f.get? x = some t) :
    (f.newNode v).1.get? x = some t := by
  unfold get? at h ⊢
  exact fi_findList?_append_left h

theorem value?_newNode_of_some {f : Forest} {x : Nat} {w : Value} (v : Value) (h : f.value? x = some w) :
    (f.newNode v).1.value? x = some w := by
  unfold value? at h ⊢
  cases hg : f.get? x with
  | none => rw [hg] at h; cases h
  | some t => rw [hg] at h; rw [get?_newNode_of_some v hg]; exact h

theorem value?_newNode_new {f : Forest} (hi : f.Inv) (v : Value) :
    (f.newNode v).1.value? f.next = some v := by
  have hn : f.next ∉ handlesList f.roots := fun hc => Nat.lt_irrefl _ (hi.below _ hc)
  unfold value? get? newNode
  simp only
  rw [fi_findList?_append_of_not_mem _ _ _ hn, fi_findList?_cons, find?, if_pos rfl]
  rfl

theorem mapGetNode_newNode {f : Forest} (k : MapKind) {parent : Nat} {K : HTree} (key : Nat) (v : Value)
    (hK : f.get? parent = some K) :
    (f.newNode v).1.mapGetNode k parent key = f.mapGetNode k parent key := by
  unfold mapGetNode
  rw [get?_newNode_of_some v hK, hK]

theorem sameKind_entryUpdate (old new : Value) :
    SameKind old (entryUpdate old new) ∧ ∀ x, kidAllowed (entryUpdate old new) x = kidAllowed old x := by
  cases old <;> cases new <;> exact ⟨⟨rfl, rfl, rfl, rfl⟩, fun _ => rfl⟩

/-- Updating the payload of the entry node that `mapGetNode` found. -/
theorem mapUpdate_inv {f : Forest} (hi : f.Inv) {k : MapKind} {parent key : Nat} {n : HTree} (v : Value)
    (hg : f.mapGetNode k parent key = some n) : (f.setValue n.handle (entryUpdate n.value v)).Inv := by
  unfold mapGetNode at hg
  cases hK : f.get? parent with
  | none => rw [hK] at hg; cases hg
  | some K =>
    rw [hK] at hg
    simp only at hg
    have hmem : n ∈ K.kids := fi_mapChildren_sub k K n (List.mem_of_find?_eq_some hg)
    have hv := value?_of_mem_kids hi.nodup hK hmem
    obtain ⟨h1, h2⟩ := sameKind_entryUpdate n.value v
    exact setValue_inv hi hv h1 h2

theorem mapInsertNode_inv {f : Forest} (hi : f.Inv) (k : MapKind) {parent : Nat} (node : Nat)
    (he : f.isElement parent = true) : (f.mapInsertNode k parent node).1.Inv := by
  unfold mapInsertNode
  cases hv : f.value? node with
  | none => exact hi
  | some v =>
    simp only
    split
    · exact hi
    · rename_i hm
      cases hg : f.mapGetNode k parent (entryKey v) with
      | some e => exact mapUpdate_inv hi v hg
      | none =>
        obtain ⟨en, hpe⟩ := value?_of_isElement he
        exact mapPlace_inv hi hpe hv (by simpa using hm) hg

/-- `MutableNodeMap::insert(key, value)`; the entry value must be of the map's kind (the Rust API
    builds it from the key and the value, so it always is). -/
theorem mapInsert_inv {f : Forest} (hi : f.Inv) (k : MapKind) (parent : Nat) (entry : Value)
    (hm : k.matches entry = true) : (f.mapInsert k parent entry).1.Inv := by
  unfold mapInsert
  split
  · exact hi
  · rename_i he
    cases hg : f.mapGetNode k parent (entryKey entry) with
    | some n => exact mapUpdate_inv hi entry hg
    | none =>
      simp only
      obtain ⟨en, hpe⟩ := value?_of_isElement (by simpa using he)
      have hK : ∃ K, f.get? parent = some K := by
        unfold value? at hpe
        cases h : f.get? parent with
        | none => rw [h] at hpe; cases hpe
        | some K => exact ⟨K, rfl⟩
      obtain ⟨K, hK⟩ := hK
      apply mapPlace_inv (newNode_inv hi entry) (value?_newNode_of_some entry hpe)
        (value?_newNode_new hi entry) hm
      rw [mapGetNode_newNode k _ entry hK]; exact hg

theorem appendEntryNode_inv {f : Forest} (hi : f.Inv) (k : MapKind) (parent child : Nat) :
    (f.appendEntryNode k parent child).1.Inv := by
  unfold appendEntryNode
  split
  · exact hi
  · rename_i he
    cases hv : f.value? child with
    | none => exact hi
    | some v =>
      simp only
      split
      · exact hi
      · exact mapInsertNode_inv hi k child (by simpa using he)

theorem anyAppend_inv {f : Forest} (hi : f.Inv) (parent child : Nat) :
    (f.anyAppend parent child).1.Inv := by
  unfold anyAppend
  split
  · exact appendEntryNode_inv hi _ _ _
  · exact appendEntryNode_inv hi _ _ _
  · exact append_inv hi _ _

theorem textContentSet_inv {f : Forest} (hi : f.Inv) (node : Nat) (s : Str) :
    (f.textContentSet node s).1.Inv := by
  unfold textContentSet
  split
  · rename_i child _
    split
    · exact hi
    · split
      · rename_i ht
        obtain ⟨s0, hv⟩ := value?_of_isText ht
        exact setValue_inv hi hv ⟨rfl, rfl, rfl, rfl⟩ (fun _ => rfl)
      · exact hi
  · split
    · cases hnt : f.newText [] with
      | mk f1 t =>
      have h1 : f1.Inv := by
        have := newNode_inv hi (.text []); unfold newText at hnt; rw [hnt] at this; exact this
      simp only
      cases h3 : f1.append node t with
      | mk f2 r =>
        have hf2 : f2.Inv := by
          have := append_inv h1 node t; rw [h3] at this; exact this
        simp only
        cases r with
        | ok =>
          simp only
          split
          · rename_i c _
            split
            · rename_i ht
              obtain ⟨s0, hv⟩ := value?_of_isText ht
              exact setValue_inv hf2 hv ⟨rfl, rfl, rfl, rfl⟩ (fun _ => rfl)
            · exact hf2
          · exact hf2
        | err e => exact hf2
        | panic => exact hf2
    · exact hi

end Forest
end XotModel
