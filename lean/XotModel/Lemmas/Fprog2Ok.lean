/-
  Lemmas for C20 (extended construction programs), part 1: after the argument checks nothing goes
  wrong — `element_unwrap`, `element_wrap`, `replace` answer `ok` whenever the ordered-tree
  well-formedness test of `Model/FanyorderSpec2.lean` (`unwrapOk`, `wrapOk`, `replaceOk`) passes.
-/
import XotModel.Model.FanyorderSpec2
import XotModel.Lemmas.FanyorderMain
import XotModel.Lemmas.Fprog2Local
import XotModel.Lemmas.FspecReplValid

namespace XotModel
namespace Prog2
open HTree Spec Prog

/-- In an ordered child list with a normal child, the last child is normal. -/
theorem last_normal_of_ordered {L : List HTree} (ho : kidsOrdered L = true) {k : HTree} (hk : k ∈ L)
    (hn : k.value.isNormal = true) : ∃ z, L.getLast? = some z ∧ z.value.isNormal = true := by
  obtain ⟨A, B, e⟩ := List.append_of_mem hk
  cases hB : B.getLast? with
  | none =>
    have : B = [] := by
      cases B with
      | nil => rfl
      | cons b bs => simp at hB
    subst this
    exact ⟨k, by rw [e]; simp, hn⟩
  | some z =>
    refine ⟨z, ?_, normal_after ho e hn z (List.mem_of_getLast? hB)⟩
    rw [e, List.getLast?_append, List.getLast?_cons, hB]
    rfl

theorem elementUnwrap_ok {f : Forest} {n : Nat} (inv : f.Inv) (h : unwrapOk f n = true) :
    (f.elementUnwrap n).2 = .ok := by
  simp only [unwrapOk, Bool.and_eq_true, isElementAt_eq, Bool.or_eq_true] at h
  obtain ⟨he, hk⟩ := h
  unfold Forest.elementUnwrap
  rw [he]
  simp only [Bool.not_true, Bool.false_eq_true, if_false]
  cases hfc : f.firstChild n with
  | none => rfl
  | some first =>
    simp only
    -- the node, its children
    have hv : ∃ v, f.value? n = some v := by
      unfold Forest.isElement at he
      cases hvv : f.value? n with
      | none => rw [hvv] at he; simp at he
      | some v => exact ⟨v, rfl⟩
    obtain ⟨v, hv⟩ := hv
    obtain ⟨t, hg, _⟩ := get_of_value hv
    unfold Forest.firstChild at hfc
    rw [hg] at hfc
    simp only [Option.map_eq_some_iff] at hfc
    obtain ⟨k, hkh, _⟩ := hfc
    have hkm : k ∈ t.kids.dropWhile (fun k => !k.value.isNormal) := List.mem_of_mem_head? hkh
    have hkk : k ∈ t.kids := (List.dropWhile_sublist _).subset hkm
    have hkn : k.value.isNormal = true := by
      cases hd : t.kids.dropWhile (fun k => !k.value.isNormal) with
      | nil => rw [hd] at hkh; cases hkh
      | cons a B =>
        rw [hd] at hkh
        have ea : a = k := by simpa using hkh
        have := dropWhile_head_false (fun k : HTree => !k.value.isNormal) t.kids hd
        rw [ea] at this
        simpa using this
    have hpar : (f.parent? n).isNone = false := by
      rcases hk with hk | hk
      · exfalso
        have : k ∈ (f.kidsOf n).filter (fun k => k.value.isNormal) := by
          simp only [Forest.kidsOf, hg]
          exact List.mem_filter.2 ⟨hkk, hkn⟩
        rw [List.isEmpty_iff] at hk
        rw [hk] at this
        cases this
      · cases hp : f.parent? n with
        | none => rw [hp] at hk; cases hk
        | some p => rfl
    rw [hpar]
    simp only [Bool.false_eq_true, if_false]
    -- the last child is normal
    have hvt : validTree (!f.everOff) t = true := valid_findList f.roots t inv.valid hg
    cases t with
    | node h' v' ks =>
      obtain ⟨_, ho, _, _⟩ := validTree_node hvt
      simp only [HTree.kids] at hkk
      obtain ⟨z, hz, hzn⟩ := last_normal_of_ordered ho hkk hkn
      have hlc : f.lastChild n = some z.handle := by
        unfold Forest.lastChild
        rw [hg]
        simp only [HTree.kids, hz, hzn, if_true]
      rw [hlc]
      simp only
      split
      · split <;> rfl
      · rfl

/-! ### Moves that cannot be refused late, without the invariant -/

/-- `insert_after` after its two argument checks is `ok` (indextree's `checked_insert_after` only
    refuses `InsertAfterSelf`). -/
theorem insertAfter_ok_of_checks {f : Forest} {r n : Nat} (nd : f.allHandles.Nodup)
    (h1 : f.structureCheck (f.parent? r) n = true) (h2 : f.siblingReferenceCheck r n = true) :
    (f.insertAfter r n).2 = .ok := by
  have hrn : r ≠ n := by
    simp only [Forest.siblingReferenceCheck, Bool.and_eq_true, bne_iff_ne] at h2; exact h2.1
  rw [insertAfter_unfold]
  simp only [h1, h2, Bool.not_true, Bool.false_eq_true, if_false]
  by_cases hs : (f.nextSibling r == some n) = true
  · rw [if_pos hs]
  · rw [if_neg hs]
    apply insertAfterTail_ok
    split
    · cases hp : f.prevSibling n with
      | none => exact hrn
      | some a =>
        simp only [Option.getD_some]
        intro e
        exact prevSibling_ne (n := n) nd (by rw [hp, e])
    · exact hrn

/-- `prepend` of a parentless tree after the argument check is `ok`. -/
theorem prepend_root_ok {f : Forest} {p c : Nat} {t : HTree} (nd : f.allHandles.Nodup)
    (hck : f.structureCheck (some p) c = true) (hg : f.get? c = some t) (hroot : f.isRoot c = true) :
    (f.prepend p c).2 = .ok := by
  obtain ⟨vp, Lp, t', hgp, hgc, hpt, hnorm, hndoc, hvp⟩ := Forest.structureCheck_unpack nd hck
  rw [hg] at hgc
  have e := Option.some.inj hgc
  subst e
  have hno := Forest.ctx_none_of_root nd hroot
  rw [prepend_unfold]
  simp only [hck, Bool.not_true, Bool.false_eq_true, if_false]
  by_cases hs : (f.firstChild p == some c) = true
  · rw [if_pos hs]
  · rw [if_neg hs, Forest.prevSibling_of_no_ctx hno, Forest.removeConsolidate_none_left]
    exact prependTail_ok nd hg hpt hnorm

/-- `append` of a parentless tree after the argument check is `ok`. -/
theorem append_root_ok {f : Forest} {p c : Nat} {t : HTree} (nd : f.allHandles.Nodup)
    (hck : f.structureCheck (some p) c = true) (hg : f.get? c = some t) (hroot : f.isRoot c = true) :
    (f.append p c).2 = .ok := by
  obtain ⟨vp, Lp, t', hgp, hgc, hpt, hnorm, hndoc, hvp⟩ := Forest.structureCheck_unpack nd hck
  rw [hg] at hgc
  have e := Option.some.inj hgc
  subst e
  have hno := Forest.ctx_none_of_root nd hroot
  rw [Forest.append_unfold]
  simp only [hck, Bool.not_true, Bool.false_eq_true, if_false]
  by_cases hs : (f.lastChild p == some c) = true
  · rw [if_pos hs]
  · rw [if_neg hs, Forest.prevSibling_of_no_ctx hno, Forest.removeConsolidate_none_left]
    by_cases h2 : (f.addConsolidate c (f.lastChild p) none).2 = true
    · rw [if_pos h2]
    · rw [if_neg h2, addConsolidate_false _ _ _ _ (Bool.eq_false_iff.2 h2), checkedAppend_true nd hg hpt]
      rfl

/-! ### replace -/

/-- After `remove_subtree(a)` the argument check of the second half of `replace` still passes, and
    the replacing subtree is where and what it was. -/
theorem structureCheck_drop {f : Forest} {q : Nat} {vq : Value} {l : List HTree} {A : HTree} {r : List HTree}
    {b : Nat} (s : SiteAt f q vq (l ++ A :: r)) (hsc : f.structureCheck (some q) b = true)
    (hbA : b ∉ handles A) :
    (f.editAt (some q) (dropTop A.handle)).structureCheck (some q) b = true ∧
    (f.editAt (some q) (dropTop A.handle)).get? b = f.get? b ∧
    SiteAt (f.editAt (some q) (dropTop A.handle)) q vq (l ++ r) := by
  have nd := s.nd
  obtain ⟨vp, Lp, t, hgp, hgb, hqt, hnorm, hndoc, hvp⟩ := Forest.structureCheck_unpack nd hsc
  obtain ⟨ndL, _⟩ := s.nodupKids
  obtain ⟨tl, tr⟩ := tops_ne_of_nodup ndL
  have hdrop : dropTop A.handle (l ++ A :: r) = l ++ r := dropTop_mid rfl tl tr
  have s1 : SiteAt (f.editAt (some q) (dropTop A.handle)) q vq (l ++ r) := by
    have := s.edit (dropTop A.handle) (by
      rw [hdrop]
      simp only [fs_handlesList_append, handlesList_cons]
      exact (List.Sublist.refl _).append (List.sublist_append_right _ _))
    rw [hdrop] at this
    exact this
  have htb : t.handle = b := (findList?_some f.roots t hgb).1
  have hbq : b ≠ q := by
    intro e
    apply hqt
    rw [← e, ← htb]
    exact fs_handle_mem_handles t
  have hg1 : (f.editAt (some q) (dropTop A.handle)).get? b = some t := by
    rw [Forest.get?_editAt_other hbq nd, hgb, Option.map_some, editAt_of_not_mem t hqt]
    intro v L hL
    rw [s.kids] at hL
    injection (Option.some.inj hL) with _ _ e3
    rw [← e3]
    apply findList?_dropTop
    intro k hk hkA
    have : k = A := by
      rcases List.mem_append.1 hk with e | e
      · exact absurd hkA (tl k e)
      · rcases List.mem_cons.1 e with e | e
        · exact e
        · exact absurd hkA (tr k e)
    rw [this]; exact hbA
  refine ⟨?_, by rw [hg1, hgb], s1⟩
  rw [structureCheck_eq]
  have hvq : (f.editAt (some q) (dropTop A.handle)).value? q = some vq := by
    simp [Forest.value?, s1.kids, HTree.value]
  have hvb : (f.editAt (some q) (dropTop A.handle)).value? b = some t.value := by
    simp [Forest.value?, hg1]
  have hvq0 : vq = vp := by
    have := s.kids
    rw [hgp] at this
    injection (Option.some.inj this) with _ e2 _
    exact e2.symm
  simp only [hvq, hvb, Option.map_some, Bool.and_eq_true, Bool.not_eq_true']
  refine ⟨⟨?_, ?_⟩, ?_⟩
  · rw [hvq0]
    rcases hvp with h | h <;> (cases vp <;> simp_all [holdsChildren, Value.isElement, Value.isDocument])
  · cases h : ((f.editAt (some q) (dropTop A.handle)).ancestors q).contains b with
    | false => rfl
    | true =>
      obtain ⟨u, hu, hqu⟩ := (Forest.ancestors_contains_iff s1.nd).1 h
      rw [hg1] at hu
      rw [← Option.some.inj hu] at hqu
      exact absurd hqu hqt
  · cases hv : t.value <;> simp_all [movable, Value.isNormal, Value.category, Value.isDocument]

/-- The ordered-tree test of `replace` is xot's sequence of argument checks. -/
theorem replaceOk_unpack {f : Forest} {a b : Nat} (h : replaceOk f a b = true) :
    ∃ q, f.parent? a = some q ∧ f.isDocument a = false ∧ f.isNormalNode a = true ∧
      f.structureCheck (some q) b = true ∧ (f.ancestors b).contains a = false := by
  unfold replaceOk at h
  cases hp : f.parent? a with
  | none => rw [hp] at h; cases h
  | some q =>
    rw [hp] at h
    simp only [Bool.and_eq_true, Bool.not_eq_true'] at h
    obtain ⟨⟨⟨⟨h1, h2⟩, h3⟩, h4⟩, h5⟩ := h
    refine ⟨q, rfl, ?_, ?_, ?_, h5⟩
    · unfold isMovableAt at h1
      unfold Forest.isDocument
      cases hv : f.value? a with
      | none => rfl
      | some v => rw [hv] at h1; cases v <;> simp_all [movable, Value.isDocument]
    · unfold isMovableAt at h1
      unfold Forest.isNormalNode
      cases hv : f.value? a with
      | none => rw [hv] at h1; simp at h1
      | some v => rw [hv] at h1; cases v <;> simp_all [movable, Value.isNormal, Value.category]
    · rw [structureCheck_eq]
      simp only [Bool.and_eq_true, Bool.not_eq_true']
      exact ⟨⟨h2, h3⟩, h4⟩

theorem replace_ok {f : Forest} {a b : Nat} (inv : f.Inv) (norm : f.Normal)
    (h : replaceOk f a b = true) : (f.replace a b).2 = .ok := by
  obtain ⟨q, hpa, hd, hna, hsc, hanc⟩ := replaceOk_unpack h
  have nd := inv.nodup
  cases hctx : f.ctx? a with
  | none => rw [Forest.parent?_of_no_ctx hctx] at hpa; cases hpa
  | some cx =>
    obtain ⟨e0, vo, so⟩ := SiteAt.of_ctx nd hctx
    have hq : cx.parent = q := by
      have := Forest.parent?_of_ctx hctx
      rw [hpa] at this
      exact (Option.some.inj this).symm
    have hprev : f.prevSibling a = prevOf cx.left cx.self := Forest.prevSibling_of_ctx hctx
    obtain ⟨p0, l, A, r⟩ := cx
    simp only at e0 so hq hprev
    subst hq
    subst e0
    have hgA : f.get? A.handle = some A := so.getKid
    have hbA : b ∉ handles A := by
      intro hm
      have : (f.ancestors b).contains A.handle = true := (Forest.ancestors_contains_iff nd).2 ⟨A, hgA, hm⟩
      rw [hanc] at this; cases this
    have hAn : A.value.isNormal = true := by
      simp only [Forest.isNormalNode, Forest.value?, hgA, Option.map_some] at hna
      simpa using hna
    obtain ⟨hsc1, hg1, s1⟩ := structureCheck_drop so hsc hbA
    have hdrop : f.dropSubtree A.handle = f.editAt (some p0) (dropTop A.handle) := dropSubtree_of_site so
    unfold Forest.replace
    simp only [hd, hpa, hna, hsc, hanc, Bool.false_eq_true, if_false, Bool.not_true]
    split
    · rfl
    · rename_i hadj
      rw [hdrop]
      cases hp : prevOf l A with
      | none =>
        rw [hprev, hp]
        simp only
        have hng : f.consolidation = true → ∀ x y, l.getLast? = some x → r.head? = some y →
            ¬ (x.value.isText = true ∧ y.value.isText = true) := by
          intro _ x y hx _ hxy
          unfold prevOf at hp
          rw [hx] at hp
          simp only at hp
          split at hp
          · cases hp
          · rename_i hc
            apply hc
            have h1 : x.value.category = .normal := text_category hxy.1
            have h2 : A.value.category = .normal := normal_category.1 hAn
            rw [h1, h2]; rfl
        obtain ⟨inv1, norm1⟩ := drop_inv_normal inv norm so hng
        exact moveImpl_ok (d := .firstNormalChildOf p0) (n := b) inv1 norm1 hsc1
      | some p =>
        rw [hprev, hp]
        simp only
        obtain ⟨A2, ka, el, ekp, ekc⟩ := prevOf_eq_some hp
        have s1' : SiteAt (f.editAt (some p0) (dropTop A.handle)) p0 vo (A2 ++ ka :: r) := by
          have := s1
          rw [el, List.append_assoc] at this
          exact this
        have hpar : (f.editAt (some p0) (dropTop A.handle)).parent? p = some p0 := by
          rw [← ekp]; exact Forest.parent?_of_ctx s1'.ctx
        have hgp : (f.editAt (some p0) (dropTop A.handle)).get? p = some ka := by
          rw [← ekp]; exact s1'.getKid
        have hpb : p ≠ b := by
          intro e
          apply hadj
          rw [hprev, hp, e]
          simp
        have hok : ((f.editAt (some p0) (dropTop A.handle)).insertAfter p b).2 = .ok := by
          apply insertAfter_ok_of_checks s1.nd
          · rw [hpar]; exact hsc1
          · simp only [Forest.siblingReferenceCheck, Bool.and_eq_true, bne_iff_ne]
            refine ⟨hpb, ?_⟩
            simp only [Forest.isNormalNode, Forest.value?, hgp, Option.map_some]
            have : ka.value.isNormal = true := by
              simp only [Value.isNormal, ekc]
              exact hAn
            simp [this]
        cases hx : (f.editAt (some p0) (dropTop A.handle)).insertAfter p b with
        | mk f2 r2 =>
          rw [hx] at hok
          simp only at hok
          subst hok
          -- whatever the final consolidation looks at, the outcome is `ok`
          first
            | rfl
            | (simp only; split <;> rfl)

end Prog2
end XotModel
