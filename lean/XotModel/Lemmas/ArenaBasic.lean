/-
  XotModel.Lemmas.ArenaBasic — evaluation lemmas for the pointer-level arena model:
  `rd` / `wr` on slots that exist, and closed forms (as a sequence of slot modifications) of
  `connect_neighbors`, `detach_from_siblings` of a single node, `rewrite_parents` of a single
  node.  No well-formedness is needed here, only that the ids touched are in range.
-/
import XotModel.Model.ArenaOps
import XotModel.Model.ArenaIter
import XotModel.Model.ArenaWf

namespace XotModel
namespace Arena

/-- Slot `i` modified by `f` (nothing happens when `i` is out of range). -/
def mod (a : Arena) (i : Nat) (f : Slot → Slot) : Arena := { a with nodes := a.nodes.modify i f }

/-- The same through an optional id. -/
def modOpt (a : Arena) (o : Option NodeId) (f : Slot → Slot) : Arena :=
  match o with
  | none => a
  | some id => a.mod id.index0 f

/-- Slot lookup as a function. -/
def slot (a : Arena) (i : Nat) : Option Slot := a.nodes[i]?

@[simp] theorem slot_mod (a : Arena) (i j : Nat) (f : Slot → Slot) :
    (a.mod i f).slot j = if i = j then (a.slot j).map f else a.slot j := by
  unfold mod slot
  simp only [List.getElem?_modify]
  by_cases h : i = j <;> simp [h]

@[simp] theorem mod_firstFree (a : Arena) (i : Nat) (f : Slot → Slot) : (a.mod i f).firstFree = a.firstFree := rfl
@[simp] theorem mod_lastFree (a : Arena) (i : Nat) (f : Slot → Slot) : (a.mod i f).lastFree = a.lastFree := rfl
@[simp] theorem mod_length (a : Arena) (i : Nat) (f : Slot → Slot) : (a.mod i f).nodes.length = a.nodes.length := by
  simp [mod]
@[simp] theorem mod_fuel (a : Arena) (i : Nat) (f : Slot → Slot) : (a.mod i f).fuel = a.fuel := by
  simp [fuel]

@[simp] theorem modOpt_none (a : Arena) (f : Slot → Slot) : a.modOpt none f = a := rfl
@[simp] theorem modOpt_some (a : Arena) (id : NodeId) (f : Slot → Slot) : a.modOpt (some id) f = a.mod id.index0 f := rfl
@[simp] theorem modOpt_fuel (a : Arena) (o : Option NodeId) (f : Slot → Slot) : (a.modOpt o f).fuel = a.fuel := by
  cases o <;> simp
@[simp] theorem modOpt_length (a : Arena) (o : Option NodeId) (f : Slot → Slot) :
    (a.modOpt o f).nodes.length = a.nodes.length := by
  cases o <;> simp

theorem setSlot_eq_mod (a : Arena) (i : Nat) (s : Slot) (f : Slot → Slot) (h : a.slot i = some s) :
    a.setSlot i (f s) = a.mod i f := by
  unfold setSlot mod
  congr 1
  apply List.ext_getElem?
  intro j
  unfold slot at h
  by_cases hj : i = j
  · subst hj
    obtain ⟨hl, hs⟩ := List.getElem?_eq_some_iff.mp h
    simp [hl, hs]
  · simp [hj]

theorem rd_some {α : Type} (a : Arena) (id : NodeId) (k : Slot → Step α) (s : Slot)
    (h : a.slot id.index0 = some s) : rd a id k = k s := by
  unfold rd; unfold slot at h; rw [h]

theorem wr_some {α : Type} (a : Arena) (id : NodeId) (f : Slot → Slot) (k : Arena → Step α) (s : Slot)
    (h : a.slot id.index0 = some s) : wr a id f k = k (a.mod id.index0 f) := by
  unfold wr
  have h' := h
  unfold slot at h'
  rw [h']
  simp only []
  rw [setSlot_eq_mod a _ s f h]

/-- An optional id refers to an existing slot. -/
def InRange (a : Arena) (o : Option NodeId) : Prop :=
  ∀ id, o = some id → ∃ s, a.slot id.index0 = some s

theorem InRange.none (a : Arena) : InRange a none := by intro id h; cases h

theorem InRange.mod {a : Arena} {o : Option NodeId} (h : InRange a o) (i : Nat) (f : Slot → Slot) :
    InRange (a.mod i f) o := by
  intro id hid
  obtain ⟨s, hs⟩ := h id hid
  by_cases hi : i = id.index0
  · exact ⟨f s, by simp [hi, hs]⟩
  · exact ⟨s, by simp [hi, hs]⟩

theorem InRange.modOpt {a : Arena} {o : Option NodeId} (h : InRange a o) (o' : Option NodeId) (f : Slot → Slot) :
    InRange (a.modOpt o' f) o := by
  cases o' with
  | none => exact h
  | some id => exact h.mod _ f

/-- First / last child pointers of an optional parent, as `connect_neighbors` reads them. -/
def parentEnds (a : Arena) (parent : Option NodeId) : Option NodeId × Option NodeId :=
  match parent with
  | none => (none, none)
  | some id =>
    match a.slot id.index0 with
    | some s => (s.first, s.last)
    | none => (none, none)

/-- What `connect_neighbors` stores as the parent's first child. -/
def newFirst (pfc previous next : Option NodeId) : Option NodeId :=
  match previous with
  | some p => pfc.or (some p)
  | none => next

/-- What `connect_neighbors` stores as the parent's last child. -/
def newLast (plc previous next : Option NodeId) : Option NodeId :=
  match next with
  | some n => plc.or (some n)
  | none => previous

/-- Closed form of `connect_neighbors`. -/
theorem connectNeighbors_eq (a : Arena) (parent previous next : Option NodeId)
    (hp : InRange a parent) (hv : InRange a previous) (hn : InRange a next) :
    connectNeighbors a parent previous next =
      .done (((a.modOpt previous (fun s => { s with next := next })).modOpt next
                (fun s => { s with prev := previous })).modOpt parent
                (fun s => { s with first := newFirst (a.parentEnds parent).1 previous next,
                                   last := newLast (a.parentEnds parent).2 previous next })) () := by
  unfold connectNeighbors
  cases parent with
  | none =>
    cases previous with
    | none =>
      cases next with
      | none => simp
      | some n =>
        obtain ⟨sn, hsn⟩ := hn n rfl
        simp [wr_some _ _ _ _ _ hsn]
    | some p =>
      obtain ⟨sp, hsp⟩ := hv p rfl
      cases next with
      | none => simp [wr_some _ _ _ _ _ hsp]
      | some n =>
        have hn' := hn.mod p.index0 (fun s => { s with next := some n })
        obtain ⟨sn, hsn⟩ := hn' n rfl
        simp [wr_some _ _ _ _ _ hsp, wr_some _ _ _ _ _ hsn]
  | some q =>
    obtain ⟨sq, hsq⟩ := hp q rfl
    simp only [rd_some _ _ _ _ hsq, parentEnds, hsq]
    cases previous with
    | none =>
      cases next with
      | none =>
        simp only [modOpt_none, modOpt_some, newFirst, newLast]
        rw [wr_some _ _ _ _ _ hsq]
      | some n =>
        obtain ⟨sn, hsn⟩ := hn n rfl
        have hq' := hp.mod n.index0 (fun s => { s with prev := none })
        obtain ⟨sq', hsq'⟩ := hq' q rfl
        simp only [modOpt_none, modOpt_some, newFirst, newLast]
        rw [wr_some _ _ _ _ _ hsn, wr_some _ _ _ _ _ hsq']
    | some p =>
      obtain ⟨sp, hsp⟩ := hv p rfl
      cases next with
      | none =>
        have hq' := hp.mod p.index0 (fun s => { s with next := none })
        obtain ⟨sq', hsq'⟩ := hq' q rfl
        simp only [modOpt_none, modOpt_some, newFirst, newLast]
        rw [wr_some _ _ _ _ _ hsp, wr_some _ _ _ _ _ hsq']
      | some n =>
        have hn' := hn.mod p.index0 (fun s => { s with next := some n })
        obtain ⟨sn, hsn⟩ := hn' n rfl
        have hq' := (hp.mod p.index0 (fun s => { s with next := some n })).mod n.index0
          (fun s => { s with prev := some p })
        obtain ⟨sq', hsq'⟩ := hq' q rfl
        simp only [modOpt_some, newFirst, newLast]
        rw [wr_some _ _ _ _ _ hsp, wr_some _ _ _ _ _ hsn, wr_some _ _ _ _ _ hsq']

end Arena
end XotModel
