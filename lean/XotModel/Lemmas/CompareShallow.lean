/-
  Lemmas for C13, part 6: shallow_equal_ignore_attributes (any ignore list) compares the canonical values with the listed names disregarded.
-/
import XotModel.Lemmas.CompareCanon

namespace XotModel

def notIgnored (ign : List Nat) (kv : Nat × Str) : Bool := !ign.contains kv.1

theorem keysNodup_filter {l : Attrs} (p : Nat × Str → Bool) (h : keysNodup l) : keysNodup (l.filter p) := by
  unfold keysNodup at *
  exact List.Nodup.sublist ((List.filter_sublist (p := p) (l := l)).map _) h

theorem filter_notIgnored_mem {ign : List Nat} {k : Nat} (v : Str) (xs : Attrs) (h : k ∈ ign) :
    ((k, v) :: xs).filter (notIgnored ign) = xs.filter (notIgnored ign) := by
  have : notIgnored ign (k, v) = false := by simp [notIgnored, h]
  rw [List.filter_cons, this]; rfl

theorem filter_notIgnored_not_mem {ign : List Nat} {k : Nat} (v : Str) (xs : Attrs) (h : k ∉ ign) :
    ((k, v) :: xs).filter (notIgnored ign) = (k, v) :: xs.filter (notIgnored ign) := by
  have : notIgnored ign (k, v) = true := by simp [notIgnored, h]
  rw [List.filter_cons, this]; rfl

theorem lookup_filter_notIgnored (ign : List Nat) (B : Attrs) {k : Nat} (hk : k ∉ ign) :
    (B.filter (notIgnored ign)).lookup k = B.lookup k := by
  induction B with
  | nil => rfl
  | cons x xs ih =>
    obtain ⟨k', v'⟩ := x
    by_cases hi : k' ∈ ign
    · have hkk : (k == k') = false := by
        simp only [beq_eq_false_iff_ne, ne_eq]; intro e; exact hk (e ▸ hi)
      rw [filter_notIgnored_mem v' xs hi, ih, List.lookup_cons, hkk]
    · rw [filter_notIgnored_not_mem v' xs hi, List.lookup_cons, List.lookup_cons, ih]

/-- The first loop: all non-ignored entries of `a` are found in `b` with the same value, and
    their number modulo 2^64. -/
theorem shallowCountLoop_eq (ign : List Nat) (b : Tree) (l : Attrs) : ∀ (c : Nat), c < usizeModulus →
    shallowCountLoop ign b l c =
      if (l.filter (notIgnored ign)).all (fun kv => b.getAttribute kv.1 == some kv.2)
      then some ((c + (l.filter (notIgnored ign)).length) % usizeModulus) else none := by
  induction l with
  | nil => intro c hc; simp [shallowCountLoop, Nat.mod_eq_of_lt hc]
  | cons x xs ih =>
    intro c hc
    obtain ⟨k, v⟩ := x
    by_cases hi : k ∈ ign
    · have hc' : ign.contains k = true := by simpa using hi
      rw [filter_notIgnored_mem v xs hi, ← ih c hc]
      simp only [shallowCountLoop, hc', ↓reduceIte]
    · have hc' : ign.contains k = false := by simpa using hi
      rw [filter_notIgnored_not_mem v xs hi]
      by_cases hm : b.getAttribute k = some v
      · have hlt : usizeWrap (c + 1) < usizeModulus := Nat.mod_lt _ (by decide)
        simp only [shallowCountLoop, hc', Bool.false_eq_true, ↓reduceIte, hm, bne_self_eq_false,
          ih _ hlt, List.all_cons, beq_self_eq_true, Bool.true_and, List.length_cons]
        simp only [usizeWrap, Nat.mod_add_mod]
        have : c + 1 + (List.filter (notIgnored ign) xs).length =
            c + ((List.filter (notIgnored ign) xs).length + 1) := by omega
        rw [this]
      · have hne : (some v != b.getAttribute k) = true := by
          simp only [bne_iff_ne, ne_eq]
          exact fun e => hm e.symm
        have hne' : (b.getAttribute k == some v) = false := by
          simp only [beq_eq_false_iff_ne, ne_eq]; exact hm
        simp only [shallowCountLoop, hc', Bool.false_eq_true, ↓reduceIte, hne, List.all_cons, hne',
          Bool.false_and]

/-- `b_attributes.keys().filter(..).count()` is the number of non-ignored entries of `b`. -/
theorem shallowCompareCount_eq (ign : List Nat) (b : Tree) :
    shallowCompareCount ign b = (b.attrs.filter (notIgnored ign)).length := by
  unfold shallowCompareCount
  rw [List.filter_map, List.length_map]; rfl

/-- The element / element case of `shallow_equal_ignore_attributes`, on the attribute lists:
    every ignore list, repeated and absent names included. -/
theorem shallowIgnore_core (ign : List Nat) (A B : Attrs) (b : Tree) (hb : b.attrs = B)
    (hA : keysNodup A) (hB : keysNodup B) (la : A.length < usizeModulus) :
    (match shallowCountLoop ign b A 0 with
      | none => false
      | some count => count == shallowCompareCount ign b) = true ↔
    sortAttrs (A.filter (notIgnored ign)) = sortAttrs (B.filter (notIgnored ign)) := by
  have hA' := keysNodup_filter (notIgnored ign) hA
  have hB' := keysNodup_filter (notIgnored ign) hB
  have hget : ∀ k, b.getAttribute k = B.lookup k := by intro k; unfold Tree.getAttribute; rw [hb]
  rw [← attrs_lookup_iff_sort hA' hB']
  have hfa : (A.filter (notIgnored ign)).length ≤ A.length := List.length_filter_le _ _
  rw [shallowCountLoop_eq ign b A 0 (by decide), shallowCompareCount_eq, hb]
  have hall : ((A.filter (notIgnored ign)).all (fun kv => b.getAttribute kv.1 == some kv.2) = true) ↔
      ∀ kv ∈ A.filter (notIgnored ign), (B.filter (notIgnored ign)).lookup kv.1 = some kv.2 := by
    simp only [List.all_eq_true, beq_iff_eq]
    constructor
    · intro h kv hkv
      have hk : kv.1 ∉ ign := by
        have := (List.mem_filter.mp hkv).2
        simpa [notIgnored] using this
      rw [lookup_filter_notIgnored ign B hk, ← hget]; exact h kv hkv
    · intro h kv hkv
      have hk : kv.1 ∉ ign := by
        have := (List.mem_filter.mp hkv).2
        simpa [notIgnored] using this
      rw [hget, ← lookup_filter_notIgnored ign B hk]; exact h kv hkv
  by_cases hm : (A.filter (notIgnored ign)).all (fun kv => b.getAttribute kv.1 == some kv.2) = true
  · simp only [hm, ↓reduceIte, Nat.zero_add, beq_iff_eq]
    have : (A.filter (notIgnored ign)).length % usizeModulus = (A.filter (notIgnored ign)).length :=
      Nat.mod_eq_of_lt (Nat.lt_of_le_of_lt hfa la)
    rw [this]
    exact ⟨fun h => ⟨h, hall.mp hm⟩, fun h => h.1⟩
  · simp only [hm, Bool.false_eq_true, ↓reduceIte, false_iff, not_and]
    exact fun _ h => hm (hall.mpr h)

theorem filter_const_true {α} (l : List α) : l.filter (fun _ => true) = l := by
  induction l with
  | nil => rfl
  | cons x xs ih => simp [ih]

theorem cvalueIgnoring_nil (v : Value) (ks : List Tree) : cvalueIgnoring [] v ks = cvalue v ks := by
  cases v <;> simp [cvalueIgnoring, cvalue, filter_const_true]

/-- `shallow_equal_ignore_attributes`, every ignore list, any two nodes whose own children are
    well ordered with unique attribute names (`a` with a machine-size attribute list). -/
theorem shallowEqualIgnore_iff (a b : Tree) (ign : List Nat)
    (oa : orderedKids a.kids = true) (ob : orderedKids b.kids = true)
    (na : attrNamesNodup a.kids = true) (nb : attrNamesNodup b.kids = true)
    (la : a.attrLen < usizeModulus) :
    shallowEqualIgnoreAttributes a b ign = true ↔
      cvalueIgnoring ign a.value a.kids = cvalueIgnoring ign b.value b.kids := by
  obtain ⟨va, ka⟩ := a
  obtain ⟨vb, kb⟩ := b
  simp only [Tree.value, Tree.kids] at *
  by_cases he : ∃ n m, va = .element n ∧ vb = .element m
  · obtain ⟨n, m, rfl, rfl⟩ := he
    have na' : keysNodup (attrPairs ka) := by simpa [attrNamesNodup, keysNodup] using na
    have nb' : keysNodup (attrPairs kb) := by simpa [attrNamesNodup, keysNodup] using nb
    rw [attrLen_of_ordered oa] at la
    have core := shallowIgnore_core ign (attrPairs ka) (attrPairs kb) (.node (.element m) kb)
      (attrs_of_ordered ob) na' nb' la
    simp only [shallowEqualIgnoreAttributes, Tree.value, attrs_of_ordered oa, cvalueIgnoring,
      CValue.element.injEq]
    by_cases hnm : n = m
    · subst hnm
      simp only [bne_self_eq_false, Bool.false_eq_true, ↓reduceIte, true_and]
      exact core
    · have : (n != m) = true := by simpa using hnm
      simp [this, hnm]
  · have h1 : shallowEqualIgnoreAttributes (.node va ka) (.node vb kb) ign =
        compareValue strEq (.node va ka) (.node vb kb) := by
      cases va <;> cases vb <;> simp [shallowEqualIgnoreAttributes, Tree.value] at he ⊢
    have h2 := compareValue_strEq_iff (a := .node va ka) (b := .node vb kb) oa ob na nb
    simp only [Tree.value, Tree.kids] at h2
    rw [h1, h2]
    cases va <;> cases vb <;> simp [cvalueIgnoring, cvalue] at he ⊢

end XotModel
