/-
  Finv (C04), part 2: every live handle has a decomposition `roots = plug path (l ++ k :: r)`,
  and the lookup / edit functions of `Model/Forest.lean` evaluated on such a form.
-/
import XotModel.Lemmas.FinvZip

namespace XotModel
open HTree

/-! ### Existence of a decomposition -/

theorem exists_plug_of_mem (h : Nat) : ∀ ks : List HTree, h ∈ handlesList ks →
    ∃ path l k r, ks = plug path (l ++ k :: r) ∧ k.handle = h
  | [] => by intro hm; simp at hm
  | .node h' v kids :: ks => by
    intro hm
    simp only [fi_handlesList_cons, fi_handles_node, List.cons_append, List.mem_cons, List.mem_append] at hm
    rcases hm with hm | hm | hm
    · exact ⟨[], [], .node h' v kids, ks, by simp, by simp [hm]⟩
    · obtain ⟨path, l, k, r, he, hk⟩ := exists_plug_of_mem h kids hm
      refine ⟨⟨[], h', v, ks⟩ :: path, l, k, r, ?_, hk⟩
      simp [← he]
    · obtain ⟨path, l, k, r, he, hk⟩ := exists_plug_of_mem h ks hm
      cases path with
      | nil => exact ⟨[], .node h' v kids :: l, k, r, by simp [he], hk⟩
      | cons fr rest =>
        exact ⟨⟨.node h' v kids :: fr.l, fr.h, fr.v, fr.r⟩ :: rest, l, k, r, by simp [he], hk⟩

/-! ### Evaluation on a decomposition -/

theorem findSome?_ancestorsOf (h : Nat) (ks : List HTree) :
    ks.findSome? (ancestorsOf h) = ancestorsOfList h ks := by
  induction ks with
  | nil => simp [ancestorsOfList]
  | cons k ks ih =>
    rw [ancestorsOfList_cons, List.findSome?_cons, ← ih]
    cases ancestorsOf h k <;> rfl

theorem not_mem_pathHandles_cons {h : Nat} {fr : ZipFrame} {rest : List ZipFrame}
    (hp : h ∉ pathHandles (fr :: rest)) :
    h ∉ handlesList fr.l ∧ fr.h ≠ h ∧ h ∉ pathHandles rest ∧ h ∉ handlesList fr.r := by
  simp only [pathHandles, List.mem_append, List.mem_cons, not_or] at hp
  exact ⟨hp.1, fun e => hp.2.1 e.symm, hp.2.2.1, hp.2.2.2⟩

theorem fi_find?_self (h : Nat) (k : HTree) (hk : k.handle = h) : find? h k = some k := by
  cases k with
  | node h' v ks => simp only [node_handle] at hk; rw [find?, if_pos hk]

theorem findList?_plug (h : Nat) (path : List ZipFrame) (l : List HTree) (k : HTree) (r : List HTree)
    (hk : k.handle = h) (hp : h ∉ pathHandles path) (hl : h ∉ handlesList l) :
    findList? h (plug path (l ++ k :: r)) = some k := by
  induction path with
  | nil =>
    rw [plug_nil, fi_findList?_append_of_not_mem h l _ hl, fi_findList?_cons, fi_find?_self h k hk]; rfl
  | cons fr rest ih =>
    obtain ⟨h1, h2, h3, _⟩ := not_mem_pathHandles_cons hp
    rw [plug_cons, fi_findList?_append_of_not_mem h _ _ h1, fi_findList?_cons, find?, if_neg h2, ih h3]
    rfl

theorem replaceKids_plug (h : Nat) (g : HTree → List HTree) (path : List ZipFrame) (l : List HTree)
    (k : HTree) (r : List HTree)
    (hk : k.handle = h) (hp : h ∉ pathHandles path) (hl : h ∉ handlesList l) :
    replaceKids h g (plug path (l ++ k :: r)) = plug path (l ++ g k ++ r) := by
  induction path with
  | nil =>
    rw [plug_nil, fi_replaceKids_append_of_not_mem h g l _ hl, replaceKids_cons, if_pos hk]
    simp
  | cons fr rest ih =>
    obtain ⟨h1, h2, h3, h4⟩ := not_mem_pathHandles_cons hp
    rw [plug_cons, fi_replaceKids_append_of_not_mem h g _ _ h1, replaceKids_cons, if_neg (by simpa using h2),
      replaceBelow, ih h3, replaceKids_of_not_mem h g _ h4]
    rfl

/-- Below the roots `map (replaceBelow h g)` is `replaceKids h g` when no root has handle `h`. -/
theorem fi_map_replaceBelow_eq (h : Nat) (g : HTree → List HTree) (ks : List HTree)
    (hn : ∀ k ∈ ks, k.handle ≠ h) : ks.map (replaceBelow h g) = replaceKids h g ks := by
  induction ks with
  | nil => simp [replaceKids]
  | cons k ks ih =>
    rw [replaceKids_cons, if_neg (hn k (by simp)), List.map_cons, ih (fun k' hk' => hn k' (by simp [hk']))]

theorem handle_ne_of_not_mem_handlesList {h : Nat} {ks : List HTree} (hm : h ∉ handlesList ks) :
    ∀ k ∈ ks, k.handle ≠ h := by
  intro k hk e
  apply hm
  obtain ⟨a, b, rfl⟩ := List.append_of_mem hk
  simp only [fi_handlesList_append, fi_handlesList_cons, List.mem_append]
  exact Or.inr (Or.inl (e ▸ fi_handle_mem_handles k))

theorem root_handle_ne_of_plug_cons {h : Nat} {fr : ZipFrame} {rest : List ZipFrame} {ks : List HTree}
    (hp : h ∉ pathHandles (fr :: rest)) : ∀ k ∈ plug (fr :: rest) ks, k.handle ≠ h := by
  obtain ⟨h1, h2, _, h4⟩ := not_mem_pathHandles_cons hp
  intro k hk
  simp only [plug_cons, List.mem_append, List.mem_cons] at hk
  rcases hk with hk | hk | hk
  · exact handle_ne_of_not_mem_handlesList h1 k hk
  · subst hk; simpa using h2
  · exact handle_ne_of_not_mem_handlesList h4 k hk

theorem mapAtList_plug (h : Nat) (g : HTree → HTree) (path : List ZipFrame) (l : List HTree)
    (k : HTree) (r : List HTree)
    (hk : k.handle = h) (hp : h ∉ pathHandles path) (hl : h ∉ handlesList l)
    (hr : h ∉ handlesList r) :
    mapAtList h g (plug path (l ++ k :: r)) = plug path (l ++ g k :: r) := by
  induction path with
  | nil =>
    rw [plug_nil, mapAtList_append, mapAtList_of_not_mem h g l hl, mapAtList,
      mapAtList_of_not_mem h g r hr]
    cases k with
    | node h' v ks => simp only [node_handle] at hk; rw [mapAt, if_pos hk]; rfl
  | cons fr rest ih =>
    obtain ⟨h1, h2, h3, h4⟩ := not_mem_pathHandles_cons hp
    rw [plug_cons, mapAtList_append, mapAtList_of_not_mem h g _ h1, mapAtList,
      mapAtList_of_not_mem h g _ h4, mapAt, if_neg h2, ih h3]
    rfl

theorem ctxKids_plug_nil (h p : Nat) (acc l : List HTree) (k : HTree) (r : List HTree)
    (hk : k.handle = h) (hl : h ∉ handlesList l) :
    ctxKids h p acc (l ++ k :: r) = some ⟨p, acc ++ l, k, r⟩ := by
  rw [ctxKids_append_of_not_mem h p l _ acc hl, ctxKids_cons, if_pos hk]

theorem ctxKids_plug (h p : Nat) (acc : List HTree) (path : List ZipFrame) (fr : ZipFrame)
    (l : List HTree) (k : HTree) (r : List HTree)
    (hk : k.handle = h) (hp : h ∉ pathHandles (path ++ [fr])) (hl : h ∉ handlesList l) :
    ctxKids h p acc (plug (path ++ [fr]) (l ++ k :: r)) = some ⟨fr.h, l, k, r⟩ := by
  induction path generalizing p acc with
  | nil =>
    obtain ⟨h1, h2, _, _⟩ := not_mem_pathHandles_cons (fr := fr) (rest := []) (by simpa using hp)
    rw [List.nil_append, plug_cons, plug_nil, ctxKids_append_of_not_mem h p _ _ acc h1, ctxKids_cons,
      if_neg (by simpa using h2), ctxBelow, ctxKids_plug_nil h fr.h [] l k r hk hl]
    simp
  | cons fr0 rest ih =>
    obtain ⟨h1, h2, h3, _⟩ := not_mem_pathHandles_cons (fr := fr0) (rest := rest ++ [fr]) (by simpa using hp)
    rw [List.cons_append, plug_cons, ctxKids_append_of_not_mem h p _ _ acc h1, ctxKids_cons,
      if_neg (by simpa using h2), ctxBelow, ih fr0.h [] h3]
    simp

theorem findSome?_ctxBelow_append_of_not_mem (h : Nat) (l rest : List HTree) (hm : h ∉ handlesList l) :
    (l ++ rest).findSome? (ctxBelow h) = rest.findSome? (ctxBelow h) := by
  induction l with
  | nil => rfl
  | cons k ks ih =>
    simp only [fi_handlesList_cons, List.mem_append, not_or] at hm
    have hkids : h ∉ handlesList k.kids := by
      intro hc; apply hm.1; rw [fi_handles_eq]; exact List.mem_cons_of_mem _ hc
    rw [List.cons_append, List.findSome?_cons, fi_ctxBelow_of_not_mem h k hkids]
    exact ih hm.2

theorem findSome?_ctxBelow_none (h : Nat) (ks : List HTree)
    (hm : ∀ k ∈ ks, h ∉ handlesList k.kids) : ks.findSome? (ctxBelow h) = none := by
  induction ks with
  | nil => rfl
  | cons k ks ih =>
    rw [List.findSome?_cons, fi_ctxBelow_of_not_mem h k (hm k (by simp))]
    exact ih (fun k' hk' => hm k' (by simp [hk']))

/-- Context of a non-root node. -/
theorem ctxRoots_plug (h : Nat) (path : List ZipFrame) (fr : ZipFrame)
    (l : List HTree) (k : HTree) (r : List HTree)
    (hk : k.handle = h) (hp : h ∉ pathHandles (path ++ [fr])) (hl : h ∉ handlesList l) :
    (plug (path ++ [fr]) (l ++ k :: r)).findSome? (ctxBelow h) = some ⟨fr.h, l, k, r⟩ := by
  cases path with
  | nil =>
    obtain ⟨h1, _, _, _⟩ := not_mem_pathHandles_cons (fr := fr) (rest := []) (by simpa using hp)
    rw [List.nil_append, plug_cons, plug_nil, findSome?_ctxBelow_append_of_not_mem h _ _ h1,
      List.findSome?_cons, ctxBelow, ctxKids_plug_nil h fr.h [] l k r hk hl]
    simp
  | cons fr0 rest =>
    obtain ⟨h1, _, h3, _⟩ := not_mem_pathHandles_cons (fr := fr0) (rest := rest ++ [fr]) (by simpa using hp)
    rw [List.cons_append, plug_cons, findSome?_ctxBelow_append_of_not_mem h _ _ h1,
      List.findSome?_cons, ctxBelow, ctxKids_plug h fr0.h [] rest fr l k r hk h3 hl]

theorem fi_ancestorsOf_self (h : Nat) (k : HTree) (hk : k.handle = h) : ancestorsOf h k = some [h] := by
  cases k with
  | node h' v ks => simp only [node_handle] at hk; rw [ancestorsOf, if_pos hk, hk]

theorem ancestorsOfList_plug (h : Nat) (path : List ZipFrame) (l : List HTree) (k : HTree) (r : List HTree)
    (hk : k.handle = h) (hp : h ∉ pathHandles path) (hl : h ∉ handlesList l) :
    ancestorsOfList h (plug path (l ++ k :: r)) = some (h :: (path.map (·.h)).reverse) := by
  induction path with
  | nil =>
    rw [plug_nil, ancestorsOfList_append_of_not_mem h l _ hl, ancestorsOfList_cons,
      fi_ancestorsOf_self h k hk]
    rfl
  | cons fr rest ih =>
    obtain ⟨h1, h2, h3, _⟩ := not_mem_pathHandles_cons hp
    rw [plug_cons, ancestorsOfList_append_of_not_mem h _ _ h1, ancestorsOfList_cons, ancestorsOf,
      if_neg h2, ih h3]
    simp

end XotModel
