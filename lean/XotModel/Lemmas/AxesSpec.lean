/-
  Specification side of C07: document order on paths, the pre-order lists, and the
  decomposition of the pre-order around a node.
-/
import XotModel.Model.Axes

namespace XotModel.Axes

/-! ## Document order on paths -/

/-- Document order: a proper prefix (ancestor) comes first, else the first differing index
    decides. (It is the lexicographic order `<` on `List Nat`: `docLt_iff_lt`.) -/
def docLt : Path → Path → Bool
  | [], [] => false
  | [], _ :: _ => true
  | _ :: _, [] => false
  | a :: p, b :: q => a < b || (a == b && docLt p q)

theorem docLt_iff_lt (p q : Path) : docLt p q = true ↔ p < q := by
  induction p generalizing q with
  | nil => cases q <;> simp [docLt]
  | cons a p ih =>
    cases q with
    | nil => simp [docLt]
    | cons b q => simp [docLt, List.cons_lt_cons_iff, ih]

@[simp] theorem docLt_nil_right (p : Path) : docLt p [] = false := by cases p <;> rfl
@[simp] theorem docLt_nil_cons (b : Nat) (q : Path) : docLt [] (b :: q) = true := rfl
@[simp] theorem docLt_cons_cons (a b : Nat) (p q : Path) :
    docLt (a :: p) (b :: q) = (decide (a < b) || (a == b && docLt p q)) := rfl

theorem docLt_irrefl (p : Path) : docLt p p = false := by
  induction p with
  | nil => rfl
  | cons a p ih => simp [ih]

theorem docLt_trans {p q r : Path} (h1 : docLt p q = true) (h2 : docLt q r = true) :
    docLt p r = true := by
  rw [docLt_iff_lt] at *
  exact List.lt_trans h1 h2

theorem docLt_asymm {p q : Path} (h : docLt p q = true) : docLt q p = false := by
  cases h' : docLt q p
  · rfl
  · have := docLt_trans h h'; rw [docLt_irrefl] at this; cases this

/-- Trichotomy. -/
theorem docLt_total (p q : Path) : docLt p q = true ∨ p = q ∨ docLt q p = true := by
  induction p generalizing q with
  | nil => cases q <;> simp
  | cons a p ih =>
    cases q with
    | nil => simp
    | cons b q =>
      rcases Nat.lt_trichotomy a b with h | h | h
      · left; simp [h]
      · subst h
        rcases ih q with h | h | h
        · left; simp [h]
        · right; left; rw [h]
        · right; right; simp [h]
      · right; right; simp [h]

/-- A proper prefix comes before. -/
theorem docLt_of_prefix {p q : Path} (h : p.isPrefixOf q = true) (hne : p ≠ q) : docLt p q = true := by
  induction p generalizing q with
  | nil => cases q with
    | nil => exact absurd rfl hne
    | cons => rfl
  | cons a p ih =>
    cases q with
    | nil => simp at h
    | cons b q =>
      simp [List.isPrefixOf_cons_cons] at h
      obtain ⟨hab, hpq⟩ := h
      subst hab
      have : p ≠ q := fun e => hne (by rw [e])
      simp [ih (by simpa using hpq) this]

theorem isPrefixOf_refl (p : Path) : p.isPrefixOf p = true := by simp

theorem isPrefixOf_append_self (p q : Path) : p.isPrefixOf (p ++ q) = true := by simp

theorem isPrefixOf_antisymm {p q : Path} (h1 : p.isPrefixOf q = true) (h2 : q.isPrefixOf p = true) :
    p = q := by
  rw [List.isPrefixOf_iff_prefix] at h1 h2
  exact List.IsPrefix.eq_of_length_le h1 (List.IsPrefix.length_le h2)

/-! ## Paths: last index, parent -/

@[simp] theorem splitLast_nil : splitLast [] = none := rfl
@[simp] theorem splitLast_snoc (q : Path) (i : Nat) : splitLast (q ++ [i]) = some (q, i) := by
  simp [splitLast]
@[simp] theorem parent_nil : parent [] = none := rfl
@[simp] theorem parent_snoc (q : Path) (i : Nat) : parent (q ++ [i]) = some q := by simp [parent]

theorem path_cases (p : Path) : p = [] ∨ ∃ q i, p = q ++ [i] := by
  rcases List.eq_nil_or_concat p with h | ⟨q, i, h⟩
  · exact .inl h
  · exact .inr ⟨q, i, by simpa using h⟩

/-! ## Subtrees at paths -/

theorem at?_append (t : Tree) (p q : Path) : t.at? (p ++ q) = (t.at? p).bind (fun s => s.at? q) := by
  induction p generalizing t with
  | nil => simp [Tree.at?]
  | cons i p ih =>
    cases t with
    | node v ks =>
      simp only [List.cons_append, Tree.at?]
      cases ks[i]? with
      | none => rfl
      | some k => exact ih k

theorem at?_snoc {t : Tree} {π : Path} {v : Value} {ks : List Tree} (h : t.at? π = some (.node v ks))
    (i : Nat) : t.at? (π ++ [i]) = ks[i]? := by
  rw [at?_append, h]
  simp only [Option.bind_some, Tree.at?]
  cases ks[i]? <;> rfl

theorem subAt_of_at? {t : Tree} {p : Path} {s : Tree} (h : t.at? p = some s) : subAt t p = s := by
  simp [subAt, h]

@[simp] theorem subAt_nil (t : Tree) : subAt t [] = t := by simp [subAt, Tree.at?]

/-- A valid path. -/
def Valid (t : Tree) (p : Path) : Prop := (t.at? p).isSome = true

instance (t : Tree) (p : Path) : Decidable (Valid t p) := by unfold Valid; infer_instance

theorem Valid.at? {t : Tree} {p : Path} (h : Valid t p) : t.at? p = some (subAt t p) := by
  unfold Valid at h
  cases h' : t.at? p with
  | none => rw [h'] at h; cases h
  | some s => simp [subAt, h']

theorem valid_nil (t : Tree) : Valid t [] := by simp [Valid, Tree.at?]

theorem tree_eta (s : Tree) : s = .node s.value s.kids := by cases s; rfl

theorem valid_snoc_iff {t : Tree} {π : Path} (h : Valid t π) (i : Nat) :
    Valid t (π ++ [i]) ↔ i < (subAt t π).kids.length := by
  have h1 := h.at?
  rw [tree_eta (subAt t π)] at h1
  unfold Valid
  rw [at?_snoc h1]
  simp

theorem valid_prefix {t : Tree} {π : Path} {q : Path} (h : Valid t (π ++ q)) : Valid t π := by
  unfold Valid at *
  rw [at?_append] at h
  cases h' : t.at? π with
  | none => rw [h'] at h; simp at h
  | some s => rfl

theorem subAt_snoc {t : Tree} {π : Path} (h : Valid t π) {i : Nat} (hi : i < (subAt t π).kids.length) :
    subAt t (π ++ [i]) = (subAt t π).kids[i] := by
  have h1 := h.at?
  rw [tree_eta (subAt t π)] at h1
  have := at?_snoc h1 i
  unfold subAt
  rw [this, List.getElem?_eq_getElem hi]
  rfl

/-! ## Sizes -/

mutual
  theorem length_allPre : ∀ s : Tree, (allPre s).length = s.size
    | .node v ks => by simp [allPre, Tree.size, length_allPreList ks 0]; omega
  theorem length_allPreList : ∀ (ks : List Tree) (i : Nat),
      (allPreList i ks).length = Tree.size.sizeList ks
    | [], i => by simp [allPreList, Tree.size.sizeList]
    | k :: ks, i => by
      simp [allPreList, Tree.size.sizeList, length_allPre k, length_allPreList ks (i + 1)]
end

/-! ## Structural validity the category-aware entry points rely on -/

/-- No normal child before a non-normal one (namespace and attribute nodes lead). -/
def kidsOrdered (ks : List Tree) : Bool :=
  (ks.dropWhile (fun k => !k.value.isNormal)).all (fun k => k.value.isNormal)

mutual
  /-- Every child list is ordered and non-normal nodes are leaves. (Part of `StructValid`,
      DESIGN.md 4.4; every tree xot's API can build satisfies it, C04.) -/
  def wf : Tree → Bool
    | .node v ks => (v.isNormal || ks.isEmpty) && kidsOrdered ks && wfList ks
  def wfList : List Tree → Bool
    | [] => true
    | k :: ks => wf k && wfList ks
end

theorem wfList_getElem? : ∀ (ks : List Tree) (i : Nat) (k : Tree), wfList ks = true →
    ks[i]? = some k → wf k = true
  | [], _, _, _, h => by simp at h
  | k' :: ks, 0, k, hw, h => by
    simp only [wfList, Bool.and_eq_true] at hw
    simp at h; subst h; exact hw.1
  | k' :: ks, i + 1, k, hw, h => by
    simp only [wfList, Bool.and_eq_true] at hw
    exact wfList_getElem? ks i k hw.2 (by simpa using h)

theorem wf_at? : ∀ (t : Tree) (p : Path) (s : Tree), wf t = true → t.at? p = some s → wf s = true
  | t, [], s, hw, h => by simp [Tree.at?] at h; subst h; exact hw
  | .node v ks, i :: p, s, hw, h => by
    simp only [Tree.at?] at h
    cases hk : ks[i]? with
    | none => rw [hk] at h; cases h
    | some k =>
      rw [hk] at h
      simp only [wf, Bool.and_eq_true] at hw
      exact wf_at? k p s (wfList_getElem? ks i k hw.2 hk) h

/-- In an ordered child list everything after a normal child is normal. -/
theorem kidsOrdered_mono : ∀ (ks : List Tree), kidsOrdered ks = true → ∀ (j j' : Nat) (a b : Tree),
    j ≤ j' → ks[j]? = some a → ks[j']? = some b → a.value.isNormal = true → b.value.isNormal = true
  | [], _, _, _, _, _, _, h, _, _ => by simp at h
  | k :: ks, ho, j, j', a, b, hle, ha, hb, hn => by
    unfold kidsOrdered at ho
    by_cases hk : k.value.isNormal = true
    · simp only [List.dropWhile_cons, hk, Bool.not_true, Bool.false_eq_true, if_false,
        List.all_eq_true] at ho
      exact ho b (List.mem_of_getElem? hb)
    · simp only [List.dropWhile_cons, hk, Bool.not_false, if_true] at ho
      cases j with
      | zero => simp at ha; subst ha; exact absurd hn hk
      | succ j =>
        cases j' with
        | zero => omega
        | succ j' =>
          have : kidsOrdered ks = true := by
            unfold kidsOrdered
            simpa using ho
          exact kidsOrdered_mono ks this j j' a b (by omega) (by simpa using ha) (by simpa using hb) hn

theorem size_getElem?_le : ∀ (ks : List Tree) (i : Nat) (k : Tree), ks[i]? = some k →
    k.size ≤ Tree.size.sizeList ks
  | [], _, _, h => by simp at h
  | k' :: ks, 0, k, h => by simp at h; subst h; simp [Tree.size.sizeList]
  | k' :: ks, i + 1, k, h => by
    have := size_getElem?_le ks i k (by simpa using h)
    simp [Tree.size.sizeList]; omega

theorem size_at?_le : ∀ (t : Tree) (p : Path) (s : Tree), t.at? p = some s → s.size ≤ t.size
  | t, [], s, h => by simp [Tree.at?] at h; subst h; exact Nat.le_refl _
  | .node v ks, i :: p, s, h => by
    simp only [Tree.at?] at h
    cases hk : ks[i]? with
    | none => rw [hk] at h; cases h
    | some k =>
      rw [hk] at h
      have h1 := size_at?_le k p s h
      have h2 := size_getElem?_le ks i k hk
      simp [Tree.size]; omega

theorem length_le_sizeList : ∀ ks : List Tree, ks.length ≤ Tree.size.sizeList ks
  | [] => by simp [Tree.size.sizeList]
  | k :: ks => by
    have := length_le_sizeList ks
    have : 1 ≤ k.size := by cases k; simp [Tree.size]
    simp [Tree.size.sizeList]; omega

theorem kids_length_lt_size (s : Tree) : s.kids.length < s.size := by
  cases s with
  | node v ks => have := length_le_sizeList ks; simp [Tree.size, Tree.kids]; omega

end XotModel.Axes
