/-
  The string-level scope the resolver of Lemmas/SerResolve builds corresponds to the id-level frames
  of the `FullnameSerializer` (`Corr`), and under that correspondence the qualified name the
  serialiser formats resolves to the name's expanded name as strings.

  Hypotheses on the interning tables (`EnvStrings`): prefix strings pairwise different, the built-in
  entries of `Xot::new` (empty prefix, `xml` prefix, no-namespace and XML namespace names), and
  `NamesLexical`: no prefix string and no local name contains `:` or `=`.
-/
import XotModel.Lemmas.SerResolve
import XotModel.Lemmas.Scope10

namespace XotModel.SerResolve
open XotModel

def lexOk (s : Str) : Bool := !s.contains ':' && !s.contains '='

/-- No prefix and no local name contains a colon or an equals sign (decidable). -/
def NamesLexical (env : Env) : Bool := env.prefixes.all lexOk && env.names.all (fun n => lexOk n.1)

structure EnvStrings (env : Env) : Prop where
  nodup : env.prefixes.Nodup
  empty : env.prefixes[Env.emptyPrefix]? = some []
  xml : env.prefixes[Env.xmlPrefix]? = some xmlPrefixStr
  noNs : env.namespaceStr Env.noNamespace = []
  xmlNs : env.namespaceStr Env.xmlNamespace = Gen.xmlNs
  lexical : NamesLexical env = true

theorem lexOk_iff (s : Str) : lexOk s = true ↔ ':' ∉ s ∧ '=' ∉ s := by
  simp [lexOk]

theorem prefixStr_lex {env : Env} (h : EnvStrings env) (p : Nat) :
    ':' ∉ env.prefixStr p ∧ '=' ∉ env.prefixStr p := by
  rw [← lexOk_iff]
  have hall := h.lexical
  simp only [NamesLexical, Bool.and_eq_true, List.all_eq_true] at hall
  unfold Env.prefixStr
  rw [List.getD_eq_getElem?_getD]
  cases hp : env.prefixes[p]? with
  | none => rfl
  | some s => exact hall.1 s (List.mem_of_getElem? hp)

theorem localName_lex {env : Env} (h : EnvStrings env) (n : Nat) :
    ':' ∉ env.localName n ∧ '=' ∉ env.localName n := by
  rw [← lexOk_iff]
  have hall := h.lexical
  simp only [NamesLexical, Bool.and_eq_true, List.all_eq_true] at hall
  unfold Env.localName
  rw [List.getD_eq_getElem?_getD]
  cases hp : env.names[n]? with
  | none => rfl
  | some s => exact hall.2 s (List.mem_of_getElem? hp)

theorem lt_of_getElem?_some {α : Type} {l : List α} {i : Nat} {a : α} (h : l[i]? = some a) : i < l.length := by
  rcases Nat.lt_or_ge i l.length with h' | h'
  · exact h'
  · rw [List.getElem?_eq_none h'] at h; cases h

theorem prefixStr_empty {env : Env} (h : EnvStrings env) : env.prefixStr Env.emptyPrefix = [] := by
  unfold Env.prefixStr; rw [List.getD_eq_getElem?_getD, h.empty]; rfl

theorem prefixStr_xml {env : Env} (h : EnvStrings env) : env.prefixStr Env.xmlPrefix = xmlPrefixStr := by
  unfold Env.prefixStr; rw [List.getD_eq_getElem?_getD, h.xml]; rfl

theorem prefixStr_inj {env : Env} (h : EnvStrings env) {p q : Nat} (hp : p < env.prefixes.length)
    (hq : q < env.prefixes.length) (he : env.prefixStr p = env.prefixStr q) : p = q :=
  (List.getD_inj hp hq h.nodup).mp he

/-! ### Frames as strings -/

/-- The declarations of one element as the resolver reads them: a binding to the XML namespace is
    not written (`render_output` writes nothing for it), the others with their strings. -/
def strFrame (env : Env) (d : List (Nat × Nat)) : SFrame :=
  (d.filter (fun x => x.2 != Env.xmlNamespace)).map (fun x => (env.prefixStr x.1, env.namespaceStr x.2))

/-- Declared prefix ids are registered, and the reserved prefix `xml` is not bound to another
    namespace (XML Namespaces §3). -/
def DeclsOk (env : Env) (d : List (Nat × Nat)) : Prop :=
  ∀ x ∈ d, x.1 < env.prefixes.length ∧ (x.1 = Env.xmlPrefix → x.2 = Env.xmlNamespace)

def FramesOk (env : Env) (fs : Frames) : Prop := ∀ f ∈ fs, DeclsOk env f

theorem lookup_strFrame_some {env : Env} (h : EnvStrings env) {p ns : Nat} (hp : p < env.prefixes.length) :
    ∀ (d : List (Nat × Nat)), DeclsOk env d → List.lookup p d = some ns → ns ≠ Env.xmlNamespace →
      List.lookup (env.prefixStr p) (strFrame env d) = some (env.namespaceStr ns)
  | [], _, hl, _ => by simp at hl
  | (q, m) :: rest, hd, hl, hns => by
    have hrest : DeclsOk env rest := fun x hx => hd x (by simp [hx])
    by_cases hqp : p = q
    · subst hqp
      simp only [List.lookup, beq_self_eq_true, Option.some.injEq] at hl
      subst hl
      have : (m != Env.xmlNamespace) = true := by simpa using hns
      simp [strFrame, List.filter_cons, this, List.lookup]
    · have hb : (p == q) = false := by simpa using hqp
      simp only [List.lookup, hb] at hl
      have ih := lookup_strFrame_some h hp rest hrest hl hns
      by_cases hm : (m != Env.xmlNamespace) = true
      · have hne : (env.prefixStr p == env.prefixStr q) = false := by
          rw [beq_eq_false_iff_ne]
          intro he
          exact hqp (prefixStr_inj h hp (hd (q, m) (by simp)).1 he)
        simp only [strFrame, List.filter_cons, hm, if_true, List.map_cons, List.lookup, hne]
        exact ih
      · simp only [strFrame, List.filter_cons, hm, Bool.false_eq_true, if_false]
        exact ih

theorem lookup_strFrame_none {env : Env} (h : EnvStrings env) {p : Nat} (hp : p < env.prefixes.length) :
    ∀ (d : List (Nat × Nat)), DeclsOk env d → List.lookup p d = none →
      List.lookup (env.prefixStr p) (strFrame env d) = none
  | [], _, _ => rfl
  | (q, m) :: rest, hd, hl => by
    have hrest : DeclsOk env rest := fun x hx => hd x (by simp [hx])
    by_cases hqp : p = q
    · subst hqp; simp [List.lookup] at hl
    · have hb : (p == q) = false := by simpa using hqp
      simp only [List.lookup, hb] at hl
      have ih := lookup_strFrame_none h hp rest hrest hl
      by_cases hm : (m != Env.xmlNamespace) = true
      · have hne : (env.prefixStr p == env.prefixStr q) = false := by
          rw [beq_eq_false_iff_ne]
          intro he
          exact hqp (prefixStr_inj h hp (hd (q, m) (by simp)).1 he)
        simp only [strFrame, List.filter_cons, hm, if_true, List.map_cons, List.lookup, hne]
        exact ih
      · simp only [strFrame, List.filter_cons, hm, Bool.false_eq_true, if_false]
        exact ih

theorem key_lt_of_lookup {env : Env} {d : List (Nat × Nat)} (hd : DeclsOk env d) {p ns : Nat}
    (hl : List.lookup p d = some ns) : p < env.prefixes.length ∧ (p = Env.xmlPrefix → ns = Env.xmlNamespace) := by
  induction d with
  | nil => simp at hl
  | cons x rest ih =>
    obtain ⟨q, m⟩ := x
    by_cases hqp : p = q
    · subst hqp
      simp only [List.lookup, beq_self_eq_true, Option.some.injEq] at hl
      subst hl
      exact hd (p, m) (by simp)
    · have hb : (p == q) = false := by simpa using hqp
      simp only [List.lookup, hb] at hl
      exact ih (fun x hx => hd x (by simp [hx])) hl

theorem key_lt_of_lookupFrames {env : Env} : ∀ {fs : Frames}, FramesOk env fs → ∀ {p ns : Nat},
    lookupFrames fs p = some ns → p < env.prefixes.length ∧ (p = Env.xmlPrefix → ns = Env.xmlNamespace)
  | [], _, _, _, hl => by simp [lookupFrames] at hl
  | f :: fs, hok, p, ns, hl => by
    simp only [lookupFrames] at hl
    cases hf : List.lookup p f with
    | some m =>
      simp only [hf, Option.some.injEq] at hl
      subst hl
      exact key_lt_of_lookup (hok f (by simp)) hf
    | none =>
      simp only [hf] at hl
      exact key_lt_of_lookupFrames (fun g hg => hok g (by simp [hg])) hl

/-- The resolver's scope `sc` answers for a prefix string what the frames `fs` answer for the prefix
    id (bindings to the XML namespace excepted: they are not written). -/
def Corr (env : Env) (sc : List SFrame) (fs : Frames) : Prop :=
  (∀ p ns, lookupFrames fs p = some ns → ns ≠ Env.xmlNamespace →
    lookupStr sc (env.prefixStr p) = some (env.namespaceStr ns)) ∧
  (∀ p, p < env.prefixes.length → lookupFrames fs p = none → lookupStr sc (env.prefixStr p) = none)

theorem corr_nil (env : Env) : Corr env [] [] :=
  ⟨fun _ _ h => by simp [lookupFrames] at h, fun _ _ _ => rfl⟩

theorem corr_congr {env : Env} {sc : List SFrame} {fs fs' : Frames}
    (h : ∀ p, lookupFrames fs' p = lookupFrames fs p) (hc : Corr env sc fs) : Corr env sc fs' :=
  ⟨fun p ns hl hns => hc.1 p ns (by rw [← h]; exact hl) hns,
    fun p hp hl => hc.2 p hp (by rw [← h]; exact hl)⟩

theorem corr_skip {env : Env} {sc : List SFrame} {fs : Frames} (hc : Corr env sc fs) :
    Corr env sc ([] :: fs) :=
  corr_congr (fun p => lookupFrames_nil_cons fs p) hc

theorem corr_push {env : Env} (h : EnvStrings env) {sc : List SFrame} {fs : Frames}
    (hc : Corr env sc fs) (hok : FramesOk env fs) {d : List (Nat × Nat)} (hd : DeclsOk env d) :
    Corr env (strFrame env d :: sc) (d :: fs) := by
  constructor
  · intro p ns hl hns
    simp only [lookupFrames] at hl
    simp only [lookupStr]
    cases hf : List.lookup p d with
    | some m =>
      simp only [hf, Option.some.injEq] at hl
      subst hl
      rw [lookup_strFrame_some h (key_lt_of_lookup hd hf).1 d hd hf hns]
    | none =>
      simp only [hf] at hl
      rw [lookup_strFrame_none h (key_lt_of_lookupFrames hok hl).1 d hd hf]
      exact hc.1 p ns hl hns
  · intro p hp hl
    simp only [lookupFrames] at hl
    simp only [lookupStr]
    cases hf : List.lookup p d with
    | some m => simp [hf] at hl
    | none =>
      simp only [hf] at hl
      rw [lookup_strFrame_none h hp d hd hf]
      exact hc.2 p hp hl

/-! ### The top element: inherited declarations are written on it -/

theorem lookup_filter_key (p : Nat) (f : Nat × Nat → Bool) (hf : ∀ x, x.1 = p → f x = true) :
    ∀ l : List (Nat × Nat), List.lookup p (l.filter f) = List.lookup p l
  | [] => rfl
  | (q, m) :: rest => by
    by_cases hqp : p = q
    · subst hqp
      simp [List.filter_cons, hf (p, m) rfl, List.lookup]
    · have hb : (p == q) = false := by simpa using hqp
      by_cases hfx : f (q, m) = true
      · simp only [List.filter_cons, hfx, if_true, List.lookup, hb]
        exact lookup_filter_key p f hf rest
      · simp only [List.filter_cons, hfx, Bool.false_eq_true, if_false, List.lookup, hb]
        exact lookup_filter_key p f hf rest

theorem lookup_append (p : Nat) : ∀ (a b : List (Nat × Nat)),
    List.lookup p (a ++ b) = match List.lookup p a with
      | some n => some n
      | none => List.lookup p b
  | [], _ => rfl
  | (q, m) :: rest, b => by
    by_cases hqp : (p == q) = true
    · simp [List.lookup, hqp]
    · simp only [List.cons_append, List.lookup, hqp]
      exact lookup_append p rest b

/-- The declarations written on the top element (`gen_edge_start`): the bindings in scope that it
    does not declare itself, then its own. -/
def topDecls (inScope : List (Nat × Nat)) (n : Tree) : List (Nat × Nat) :=
  inScope.filter (fun d => !n.declaresPrefix d.1) ++ n.nsDecls

theorem lookupFrames_topDecls (inScope : List (Nat × Nat)) (n : Tree) (p : Nat) :
    lookupFrames [topDecls inScope n] p = lookupFrames [n.nsDecls, inScope] p := by
  simp only [lookupFrames, topDecls]
  rw [lookup_append]
  cases hown : List.lookup p n.nsDecls with
  | some m =>
    -- declared by the element: not among the extras
    have hk : p ∈ n.nsDecls.map Prod.fst := by
      by_cases hk : p ∈ n.nsDecls.map Prod.fst
      · exact hk
      · rw [(lookup_none_iff p _).mpr hk] at hown; cases hown
    have hnone : List.lookup p (inScope.filter (fun d => !n.declaresPrefix d.1)) = none := by
      rw [lookup_none_iff]
      intro hmem
      obtain ⟨x, hx, hxp⟩ := List.mem_map.mp hmem
      have hx2 := (List.mem_filter.mp hx).2
      have : n.declaresPrefix x.1 = true := by
        unfold Tree.declaresPrefix
        rw [any_key_iff, hxp]; exact hk
      simp [this] at hx2
    simp [hnone]
  | none =>
    have hk : p ∉ n.nsDecls.map Prod.fst := (lookup_none_iff p _).mp hown
    rw [lookup_filter_key p _ (fun x hx => by
      have : n.declaresPrefix x.1 = false := by
        cases hc : n.declaresPrefix x.1 with
        | false => rfl
        | true =>
          unfold Tree.declaresPrefix at hc
          rw [any_key_iff, hx] at hc
          exact absurd hc hk
      simp [this]) inScope]
    cases List.lookup p inScope <;> rfl

theorem declsOk_topDecls {env : Env} {inScope : List (Nat × Nat)} {n : Tree} (h1 : DeclsOk env inScope)
    (h2 : DeclsOk env n.nsDecls) : DeclsOk env (topDecls inScope n) := by
  intro x hx
  rcases List.mem_append.mp hx with hx | hx
  · exact h1 x (List.mem_filter.mp hx).1
  · exact h2 x hx

theorem corr_top {env : Env} (h : EnvStrings env) {inScope : List (Nat × Nat)} {n : Tree}
    (h1 : DeclsOk env inScope) (h2 : DeclsOk env n.nsDecls) :
    Corr env [strFrame env (topDecls inScope n)] [n.nsDecls, inScope] :=
  corr_congr (fun p => (lookupFrames_topDecls inScope n p).symm)
    (corr_push h (corr_nil env) (fun _ hf => by cases hf) (declsOk_topDecls h1 h2))

/-! ### Names -/

theorem resolveName_prefixed {env : Env} (h : EnvStrings env) (sc : List SFrame) (isAttr : Bool)
    (p name : Nat) :
    resolveName sc isAttr (qname env (some p) name) =
      (isAttr, resolveStr sc isAttr (some (env.prefixStr p)), env.localName name) := by
  unfold resolveName qname
  rw [splitQName_prefixed _ _ (prefixStr_lex h p).1]

theorem resolveName_plain {env : Env} (h : EnvStrings env) (sc : List SFrame) (isAttr : Bool) (name : Nat) :
    resolveName sc isAttr (qname env none name) =
      (isAttr, resolveStr sc isAttr none, env.localName name) := by
  unfold resolveName qname
  rw [splitQName_plain _ (localName_lex h name).1]

/-- A prefix id bound (in the frames) to a namespace other than the XML namespace: its string is
    resolved by the resolver to that namespace's name. -/
theorem resolveStr_bound {env : Env} (h : EnvStrings env) {sc : List SFrame} {fs : Frames}
    (hc : Corr env sc fs) (hok : FramesOk env fs) (isAttr : Bool) {p ns : Nat}
    (hl : lookupFrames fs p = some ns) (hns : ns ≠ Env.xmlNamespace) :
    resolveStr sc isAttr (some (env.prefixStr p)) = some (env.namespaceStr ns) := by
  obtain ⟨hlt, hx⟩ := key_lt_of_lookupFrames hok hl
  have hne : (env.prefixStr p == xmlPrefixStr) = false := by
    rw [beq_eq_false_iff_ne]
    intro he
    rw [← prefixStr_xml h] at he
    exact hns (hx (prefixStr_inj h hlt (lt_of_getElem?_some h.xml) he))
  simp only [resolveStr, hne, Bool.false_eq_true, if_false]
  exact hc.1 p ns hl hns

theorem resolveStr_xml {env : Env} (h : EnvStrings env) (sc : List SFrame) (isAttr : Bool) :
    resolveStr sc isAttr (some (env.prefixStr Env.xmlPrefix)) = some (env.namespaceStr Env.xmlNamespace) := by
  rw [prefixStr_xml h, h.xmlNs]
  simp [resolveStr]

/-- The element name the serialiser writes from the stack `s` resolves, in the resolver's scope, to
    the element's expanded name. -/
theorem element_resolves {env : Env} (h : EnvStrings env) {sc : List SFrame} {fs : Frames} {s : FStack}
    (hc : Corr env sc fs) (hok : FramesOk env fs) (hinv : StackInv s fs) (name : Nat) (pfx : Option Nat)
    (hp : s.elementPrefix env name = .ok pfx)
    (hcheck : ¬ (env.nsOfName name = Env.noNamespace ∧ s.hasDefaultNamespace = true)) :
    resolveName sc false (qname env pfx name) = expandedName env false name := by
  obtain ⟨_, hflat⟩ := hinv.flat
  unfold expandedName
  unfold FStack.elementPrefix at hp
  by_cases hns : (env.nsOfName name == Env.noNamespace) = true
  · simp only [hns, if_true] at hp
    cases hp
    have hz : env.nsOfName name = Env.noNamespace := by simpa using hns
    have hnd : ¬ s.hasDefaultNamespace = true := fun hd => hcheck ⟨hz, hd⟩
    rw [hasDefaultNamespace_iff hinv.flat] at hnd
    rw [resolveName_plain h, hz]
    simp only [resolveStr, Bool.false_eq_true, if_false]
    have hp0 := prefixStr_empty h
    cases hl : lookupFrames fs Env.emptyPrefix with
    | none =>
      have := hc.2 Env.emptyPrefix (lt_of_getElem?_some h.empty) hl
      rw [hp0] at this
      rw [this, h.noNs]; rfl
    | some n =>
      by_cases hn : n = Env.noNamespace
      · subst hn
        have := hc.1 Env.emptyPrefix _ hl (by decide)
        rw [hp0] at this
        rw [this, h.noNs]; rfl
      · exact absurd ⟨n, hl, hn⟩ hnd
  · simp only [hns] at hp
    by_cases hxml : (env.nsOfName name == Env.xmlNamespace) = true
    · simp only [hxml, if_true] at hp
      cases hp
      have hz : env.nsOfName name = Env.xmlNamespace := by simpa using hxml
      rw [resolveName_prefixed h, resolveStr_xml h, hz]
    · simp only [hxml] at hp
      have hz2 : env.nsOfName name ≠ Env.xmlNamespace := by simpa using hxml
      cases hq : elementPrefixByNamespace s.top (env.nsOfName name) with
      | none => simp [hq] at hp
      | some q =>
        have hl := (hflat q _).mp (elementPrefixByNamespace_mem hq)
        simp only [hq] at hp
        by_cases hq0 : (q == Env.emptyPrefix) = true
        · simp only [hq0, if_true] at hp
          cases hp
          have : q = Env.emptyPrefix := by simpa using hq0
          subst this
          rw [resolveName_plain h]
          simp only [resolveStr, Bool.false_eq_true, if_false]
          have := hc.1 Env.emptyPrefix _ hl hz2
          rw [prefixStr_empty h] at this
          rw [this]; rfl
        · simp only [hq0] at hp
          cases hp
          rw [resolveName_prefixed h, resolveStr_bound h hc hok false hl hz2]

/-- The attribute name the serialiser writes resolves to the attribute's expanded name. -/
theorem attribute_resolves {env : Env} (h : EnvStrings env) {sc : List SFrame} {fs : Frames} {s : FStack}
    (hc : Corr env sc fs) (hok : FramesOk env fs) (hinv : StackInv s fs) (name : Nat) (pfx : Option Nat)
    (hp : s.attributePrefix env name = .ok pfx) :
    resolveName sc true (qname env pfx name) = expandedName env true name := by
  obtain ⟨_, hflat⟩ := hinv.flat
  unfold expandedName
  unfold FStack.attributePrefix at hp
  by_cases hns : (env.nsOfName name == Env.noNamespace) = true
  · simp only [hns, if_true] at hp
    cases hp
    have hz : env.nsOfName name = Env.noNamespace := by simpa using hns
    rw [resolveName_plain h, hz, h.noNs]
    rfl
  · simp only [hns] at hp
    by_cases hxml : (env.nsOfName name == Env.xmlNamespace) = true
    · simp only [hxml, if_true] at hp
      cases hp
      have hz : env.nsOfName name = Env.xmlNamespace := by simpa using hxml
      rw [resolveName_prefixed h, resolveStr_xml h, hz]
    · simp only [hxml] at hp
      have hz2 : env.nsOfName name ≠ Env.xmlNamespace := by simpa using hxml
      cases hq : attributePrefixByNamespace s.top (env.nsOfName name) with
      | none => simp [hq] at hp
      | some q =>
        obtain ⟨hmem, _⟩ := attributePrefixByNamespace_mem hq
        have hl := (hflat q _).mp hmem
        simp only [hq] at hp
        cases hp
        rw [resolveName_prefixed h, resolveStr_bound h hc hok true hl hz2]

end XotModel.SerResolve
