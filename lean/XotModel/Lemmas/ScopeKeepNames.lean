/-
  XotModel.Lemmas.ScopeKeepNames — under `noShadow`, `deduplicate_namespaces` keeps every name
  writable: the main induction over `wr` (serialiser) and `rbWalk` (dedup).

  Context of a subtree: `A` = the top frame of dedup's name stack above it (all declarations of
  the ancestors the call has walked through, in order), `A'` = the same after the removals; the
  serialiser's top frames are `X ++ A` and `X ++ A'`, where `X` is what the serialiser has on its
  stack above the node the call was made on (`[(xml)]` for a root call; `(xml)` plus the
  declarations above the node for an inner call, Lemmas/ScopeInner.lean).
-/
import XotModel.Lemmas.ScopeKeep
import XotModel.Lemmas.Scope

namespace XotModel

theorem knownIn_cons (kv : Nat × Nat) (l : List (Nat × Nat)) (ns : Nat) :
    knownIn (kv :: l) ns = (kv.2 == ns || knownIn l ns) := by simp [knownIn]

theorem knownIn_append (l1 l2 : List (Nat × Nat)) (ns : Nat) :
    knownIn (l1 ++ l2) ns = (knownIn l1 ns || knownIn l2 ns) := by simp [knownIn]

theorem attrKnownIn_cons (kv : Nat × Nat) (l : List (Nat × Nat)) (ns : Nat) :
    attrKnownIn (kv :: l) ns = ((kv.2 == ns && kv.1 != Env.emptyPrefix) || attrKnownIn l ns) := by
  simp [attrKnownIn]

theorem attrKnownIn_append (l1 l2 : List (Nat × Nat)) (ns : Nat) :
    attrKnownIn (l1 ++ l2) ns = (attrKnownIn l1 ns || attrKnownIn l2 ns) := by simp [attrKnownIn]

theorem hasAttrNsList_false_of_mem (env : Env) (ns : Nat) : ∀ (ks : List Tree),
    hasAttrNs.hasAttrNsList env ns ks = false → ∀ k ∈ ks, hasAttrNs env ns k = false
  | [], _, k, hk => by simp at hk
  | k0 :: ks, h, k, hk => by
    simp only [hasAttrNs.hasAttrNsList, Bool.or_eq_false_iff] at h
    simp only [List.mem_cons] at hk
    rcases hk with rfl | hk
    · exact h.1
    · exact hasAttrNsList_false_of_mem env ns ks h.2 k hk

/-- The context of a subtree, as far as it does not depend on the subtree. -/
structure KeepCtx (A A' : List (Nat × Nat)) (tr : Tracker) : Prop where
  sub : ∀ kv ∈ A', kv ∈ A
  known : ∀ ns, knownIn A ns = true → knownIn A' ns = true
  tracked : ∀ ns, (Env.emptyPrefix, ns) ∈ A → ∃ e ∈ tr, e.defaultNamespace = some ns

theorem KeepCtx.mono {A A' : List (Nat × Nat)} {tr tr' : Tracker} (h : KeepCtx A A' tr)
    (hle : TrLe tr tr') : KeepCtx A A' tr' :=
  ⟨h.sub, h.known, fun ns hm => hle.hasDefault (h.tracked ns hm)⟩

mutual
theorem keep_tree (env : Env) (X : List (Nat × Nat)) : ∀ (x : Tree) (A A' : List (Nat × Nat)) (tr : Tracker),
    KeepCtx A A' tr →
    (∀ ns, attrKnownIn A ns = true → attrKnownIn A' ns = true ∨ hasAttrNs env ns x = false) →
    noShadow (X.map Prod.fst ++ A.map Prod.fst) x →
    wr env (X ++ A) x = true →
    wr env (X ++ A') (rbWalk env A x tr).2 = true
  | .node v ks, A, A', tr, hc, hat, hg, hw => by
    cases v with
    | element name =>
      simp only [noShadow, nsDecls_node] at hg
      obtain ⟨hnd, hdis, hkids⟩ := hg
      -- the frames below this element
      have hdisA : ∀ p ∈ (declsOfKids ks).map Prod.fst, p ∉ A.map Prod.fst := fun p hp hm =>
        hdis p hp (List.mem_append.2 (.inr hm))
      have hW : pushTop (X ++ A) (declsOfKids ks) = X ++ (A ++ declsOfKids ks) := by
        rw [← List.append_assoc]
        exact pushTop_disjoint _ _ (by simpa [List.map_append] using hdis)
      have hA : pushTop A (declsOfKids ks) = A ++ declsOfKids ks := pushTop_disjoint _ _ hdisA
      simp only [wr, nsDecls_node, hW, Bool.and_eq_true] at hw
      obtain ⟨hwE, hwK⟩ := hw
      -- the rebuilt element
      simp only [rbWalk, nsDecls_node, hA, eraseOwn_node]
      generalize hr : rbWalk.rbList env (A ++ declsOfKids ks) ks
        (trackerPush env tr (.node (.element name) ks)) = r
      have hvals : r.2.map Tree.value = ks.map Tree.value := by rw [← hr]; exact rb_values env ks _ _
      have hpush : TrLe ((⟨(Tree.node (.element name) ks).getNamespace Env.emptyPrefix, false⟩ :
          TrackerEntry) :: tr) (trackerPush env tr (.node (.element name) ks)) :=
        TrLe.foldAttributes env _ _
      have hrle : TrLe (trackerPush env tr (.node (.element name) ks)) r.1 := by
        rw [← hr]; exact rb_le_list env ks _ _
      have htr3 : (rbWalk env A (.node (.element name) ks) tr).1 = r.1.tail := by
        simp only [rbWalk, nsDecls_node, hA, hr]
      generalize htR : dedupToRemove A r.1.tail (declsOfKids ks) = toRemove
      obtain ⟨hsubl, hkept, hattrs, hwr⟩ := eraseKids_facts env
        (X ++ (A' ++ declsOfKids (eraseKids (declsOfKids ks) toRemove r.2)))
        (.element name) ks r.2 toRemove hvals hnd
      generalize hf' : declsOfKids (eraseKids (declsOfKids ks) toRemove r.2) = f' at hsubl hkept hwr
      -- a declaration is either kept or its namespace is known above and safe to remove
      have hcase : ∀ kv ∈ declsOfKids ks, kv ∈ f' ∨
          (knownIn A kv.2 = true ∧ trackerIsSafeToRemove kv.2 r.1.tail = true) := by
        intro kv hkv
        by_cases hin : kv.2 ∈ toRemove
        · rw [← htR, mem_dedupToRemove] at hin
          exact .inr hin.2.2
        · exact .inl (hkept kv hkv hin)
      -- context below
      have hsub1 : ∀ kv ∈ A' ++ f', kv ∈ A ++ declsOfKids ks := by
        intro kv hkv
        simp only [List.mem_append] at hkv ⊢
        rcases hkv with h | h
        · exact .inl (hc.sub kv h)
        · exact .inr (hsubl.subset h)
      have hkn1 : ∀ ns, knownIn (A ++ declsOfKids ks) ns = true → knownIn (A' ++ f') ns = true := by
        intro ns h
        simp only [knownIn_append, Bool.or_eq_true] at h ⊢
        rcases h with h | h
        · exact .inl (hc.known ns h)
        · obtain ⟨p, hp⟩ := (knownIn_iff _ _).1 h
          rcases hcase (p, ns) hp with h1 | h1
          · exact .inr ((knownIn_iff _ _).2 ⟨p, h1⟩)
          · exact .inl (hc.known ns h1.1)
      have hat1 : ∀ ns, attrKnownIn (A ++ declsOfKids ks) ns = true →
          attrKnownIn (A' ++ f') ns = true ∨ hasAttrNs env ns (.node (.element name) ks) = false := by
        intro ns h
        simp only [attrKnownIn_append, Bool.or_eq_true] at h ⊢
        rcases h with h | h
        · rcases hat ns h with h1 | h1
          · exact .inl (.inl h1)
          · exact .inr h1
        · obtain ⟨p, hpne, hp⟩ := (attrKnownIn_iff _ _).1 h
          rcases hcase (p, ns) hp with h1 | ⟨hk, hsafe⟩
          · exact .inl (.inr ((attrKnownIn_iff _ _).2 ⟨p, hpne, h1⟩))
          · -- removed: the namespace is known above
            obtain ⟨q, hq⟩ := (knownIn_iff _ _).1 hk
            by_cases hq0 : q = Env.emptyPrefix
            · -- only as default namespace: then no attribute below may be in it
              subst hq0
              cases hh : hasAttrNs env ns (.node (.element name) ks) with
              | false => exact .inr rfl
              | true =>
                have := rb_flag env ns (.node (.element name) ks) A tr
                  (X.map Prod.fst ++ A.map Prod.fst)
                  (List.mem_append.2 (.inr (List.mem_map.2 ⟨_, hq, rfl⟩)))
                  (by simp only [noShadow, nsDecls_node]; exact ⟨hnd, hdis, hkids⟩)
                  (hc.tracked ns hq) hh
                rw [htr3, hsafe] at this
                cases this
            · rcases hat ns ((attrKnownIn_iff _ _).2 ⟨q, hq0, hq⟩) with h1 | h1
              · exact .inl (.inl h1)
              · exact .inr h1
      have hc1 : KeepCtx (A ++ declsOfKids ks) (A' ++ f')
          (trackerPush env tr (.node (.element name) ks)) := by
        refine ⟨hsub1, hkn1, fun ns hm => ?_⟩
        apply hpush.hasDefault
        simp only [List.mem_append] at hm
        rcases hm with hm | hm
        · obtain ⟨e, he, hde⟩ := hc.tracked ns hm
          exact ⟨e, by simp [he], hde⟩
        · refine ⟨_, List.mem_cons_self, ?_⟩
          simp only [Tree.getNamespace, nsDecls_node]
          exact (mem_iff_lookup_of_nodup _ hnd _ _).1 hm
      -- the serialiser's frame below the rebuilt element
      have hdis' : ∀ p ∈ f'.map Prod.fst, p ∉ (X ++ A').map Prod.fst := by
        intro p hp hm
        obtain ⟨kv, hkv, rfl⟩ := List.mem_map.1 hp
        apply hdis kv.1 (List.mem_map.2 ⟨kv, hsubl.subset hkv, rfl⟩)
        simp only [List.map_append, List.mem_append] at hm ⊢
        rcases hm with hm | hm
        · exact .inl hm
        · obtain ⟨kv', hkv', he⟩ := List.mem_map.1 hm
          exact .inr (List.mem_map.2 ⟨kv', hc.sub kv' hkv', he⟩)
      have hW' : pushTop (X ++ A') f' = X ++ (A' ++ f') := by
        rw [← List.append_assoc]
        exact pushTop_disjoint _ _ hdis'
      simp only [wr, nsDecls_node, hf', hW', Bool.and_eq_true]
      refine ⟨?_, ?_⟩
      · -- the element's own names
        simp only [elementOk, Bool.and_eq_true, elementFullname_ok, attributeFullname_ok,
          List.all_eq_true, Bool.or_eq_true, hattrs] at hwE ⊢
        obtain ⟨⟨hwD, hwE1⟩, hwE2⟩ := hwE
        have hwE : _ ∧ _ := ⟨hwE1, hwE2⟩
        refine ⟨⟨?_, ?_⟩, ?_⟩
        · -- no default namespace appears: the rebuilt frame is a subset of the old one
          cases hno : (env.nsOfName name == Env.noNamespace) with
          | false => simp
          | true =>
            simp only [hno, Bool.true_and, Bool.not_eq_eq_eq_not, Bool.not_true] at hwD ⊢
            cases hd : FStack.hasDefaultNamespace [X ++ (A' ++ f')] with
            | false => rfl
            | true =>
              exfalso
              simp only [FStack.hasDefaultNamespace, FStack.top, List.headD_cons, List.any_eq_true] at hd
              obtain ⟨kv, hkv, hcond⟩ := hd
              have : FStack.hasDefaultNamespace [X ++ (A ++ declsOfKids ks)] = true := by
                simp only [FStack.hasDefaultNamespace, FStack.top, List.headD_cons, List.any_eq_true]
                refine ⟨kv, ?_, hcond⟩
                rw [List.mem_append] at hkv ⊢
                rcases hkv with h | h
                · exact .inl h
                · exact .inr (hsub1 kv h)
              rw [this] at hwD
              cases hwD
        · rcases hwE.1 with h | h
          · exact .inl h
          · rw [knownIn_append X, Bool.or_eq_true] at h ⊢
            rcases h with h | h
            · exact .inr (.inl h)
            · exact .inr (.inr (hkn1 _ h))
        · intro n hn
          rcases hwE.2 n hn with h | h
          · exact .inl h
          · rw [attrKnownIn_append X, Bool.or_eq_true] at h ⊢
            rcases h with h | h
            · exact .inr (.inl h)
            · rcases hat1 _ h with h1 | h1
              · exact .inr (.inr h1)
              · exfalso
                have : hasAttrNs env (env.nsOfName n) (.node (.element name) ks) = true := by
                  simp only [hasAttrNs, Bool.or_eq_true, List.any_eq_true, beq_iff_eq]
                  exact .inl ⟨n, hn, rfl⟩
                rw [this] at h1
                cases h1
      · -- the children
        apply hwr
        have := keep_list env X ks (A ++ declsOfKids ks) (A' ++ f')
          (trackerPush env tr (.node (.element name) ks)) hc1
          (fun ns h => by
            rcases hat1 ns h with h1 | h1
            · exact .inl h1
            · simp only [hasAttrNs, Bool.or_eq_false_iff] at h1
              exact .inr h1.2)
          (by simpa [List.map_append, List.append_assoc] using hkids) hwK
        rw [hr] at this
        exact this
    | document => simp only [noShadow] at hg; simpa [rbWalk, wr] using keep_list env X ks A A' tr hc (by simpa [hasAttrNs] using hat) hg.2 (by simpa [wr] using hw)
    | text s => simp only [noShadow] at hg; simpa [rbWalk, wr] using keep_list env X ks A A' tr hc (by simpa [hasAttrNs] using hat) hg.2 (by simpa [wr] using hw)
    | pi a b => simp only [noShadow] at hg; simpa [rbWalk, wr] using keep_list env X ks A A' tr hc (by simpa [hasAttrNs] using hat) hg.2 (by simpa [wr] using hw)
    | comment s => simp only [noShadow] at hg; simpa [rbWalk, wr] using keep_list env X ks A A' tr hc (by simpa [hasAttrNs] using hat) hg.2 (by simpa [wr] using hw)
    | «attribute» a b => simp only [noShadow] at hg; simpa [rbWalk, wr] using keep_list env X ks A A' tr hc (by simpa [hasAttrNs] using hat) hg.2 (by simpa [wr] using hw)
    | «namespace» a b => simp only [noShadow] at hg; simpa [rbWalk, wr] using keep_list env X ks A A' tr hc (by simpa [hasAttrNs] using hat) hg.2 (by simpa [wr] using hw)
theorem keep_list (env : Env) (X : List (Nat × Nat)) : ∀ (ks : List Tree) (A A' : List (Nat × Nat)) (tr : Tracker),
    KeepCtx A A' tr →
    (∀ ns, attrKnownIn A ns = true →
      attrKnownIn A' ns = true ∨ hasAttrNs.hasAttrNsList env ns ks = false) →
    noShadow.noShadowList (X.map Prod.fst ++ A.map Prod.fst) ks →
    wr.wrList env (X ++ A) ks = true →
    wr.wrList env (X ++ A') (rbWalk.rbList env A ks tr).2 = true
  | [], A, A', tr, _, _, _, _ => by simp [rbWalk.rbList, wr.wrList]
  | k :: ks, A, A', tr, hc, hat, hg, hw => by
    simp only [noShadow.noShadowList] at hg
    simp only [wr.wrList, Bool.and_eq_true] at hw
    simp only [rbWalk.rbList, wr.wrList, Bool.and_eq_true]
    refine ⟨keep_tree env X k A A' tr hc (fun ns h => ?_) hg.1 hw.1,
      keep_list env X ks A A' _ (hc.mono (rb_le env k A tr)) (fun ns h => ?_) hg.2 hw.2⟩
    · rcases hat ns h with h1 | h1
      · exact .inl h1
      · simp only [hasAttrNs.hasAttrNsList, Bool.or_eq_false_iff] at h1; exact .inr h1.1
    · rcases hat ns h with h1 | h1
      · exact .inl h1
      · simp only [hasAttrNs.hasAttrNsList, Bool.or_eq_false_iff] at h1; exact .inr h1.2
end

/-! ### At the root -/

/-- What `noShadow [xml]` says about the root itself. -/
def RootOk : Tree → Prop
  | .node v ks =>
    match v with
    | .element _ => ((declsOfKids ks).map Prod.fst).Nodup ∧ Env.xmlPrefix ∉ (declsOfKids ks).map Prod.fst
    | _ => declsOfKids ks = []

theorem RootOk.of_noShadow {t : Tree} (h : noShadow [Env.xmlPrefix] t) : RootOk t := by
  obtain ⟨v, ks⟩ := t
  cases v <;> simp only [noShadow, nsDecls_node] at h <;> simp only [RootOk]
  case element name => exact ⟨h.1, fun hm => h.2.1 _ hm (by simp)⟩
  all_goals exact h.1

/-- The serialiser starts from `namespaces_in_scope(root)`; pushing the root's own declarations
    on top of that leaves `xml` followed by those declarations. -/
theorem pushTop_inScope_root (v : Value) (ks : List Tree)
    (hx : Env.xmlPrefix ∉ (declsOfKids ks).map Prod.fst) :
    pushTop (namespacesInScopeChain [.node v ks]) (declsOfKids ks) =
      (Env.xmlPrefix, Env.xmlNamespace) :: declsOfKids ks := by
  have hinit : namespacesInScopeChain [.node v ks] =
      (traverseDecls [] (declsOfKids ks)).2 ++ [(Env.xmlPrefix, Env.xmlNamespace)] := by
    rw [namespacesInScopeChain_eq]
    simp only [allDecls, flatDecls, List.flatMap_cons, List.flatMap_nil, List.append_nil,
      nsDecls_node, traverseDecls_append, basePrefixes]
    congr 1
    have hns : Env.xmlPrefix ∉ (traverseDecls [] (declsOfKids ks)).1 := by
      rw [traverseDecls_seen_sc]; simpa using hx
    rw [traverseDecls_cons_new_sc hns]
    simp [traverseDecls_nil, Env.xmlPrefix, Env.emptyPrefix]
  unfold pushTop
  cases hf : declsOfKids ks with
  | nil =>
    rw [hinit, hf]
    simp [traverseDecls_nil]
  | cons d rest =>
    simp only [List.isEmpty_cons, Bool.false_eq_true, ↓reduceIte, fullnameInfoNew, hinit,
      List.filter_append]
    rw [← hf]
    congr 1
    have h1 : (traverseDecls [] (declsOfKids ks)).2.filter
        (fun x => match x with | (p, _) => !(declsOfKids ks).any fun x => match x with | (p2, _) => p2 == p) = [] := by
      rw [List.filter_eq_nil_iff]
      intro ⟨p, n⟩ hm
      have := ((traverseDecls_out_mem _ _ _ _).1 hm).2.1
      simp only [any_key_eq, this, Option.isSome_some, Bool.not_true, Bool.false_eq_true,
        not_false_eq_true]
    have h2 : [(Env.xmlPrefix, Env.xmlNamespace)].filter
        (fun x => match x with | (p, _) => !(declsOfKids ks).any fun x => match x with | (p2, _) => p2 == p) =
        [(Env.xmlPrefix, Env.xmlNamespace)] := by
      rw [List.filter_eq_self]
      intro ⟨p, n⟩ hm
      simp only [List.mem_singleton, Prod.mk.injEq] at hm
      obtain ⟨rfl, rfl⟩ := hm
      simp only [any_key_eq, lookup_none_of_not_mem_keys hx, Option.isSome_none, Bool.not_false]
    rw [h1, h2]
    rfl

theorem inScope_root_no_decls (v : Value) (ks : List Tree) (h : declsOfKids ks = []) :
    namespacesInScopeChain [Tree.node v ks] = [(Env.xmlPrefix, Env.xmlNamespace)] := by
  rw [namespacesInScopeChain_eq]
  simp only [allDecls, flatDecls, List.flatMap_cons, List.flatMap_nil, List.append_nil,
    nsDecls_node, h, List.nil_append, basePrefixes]
  rw [traverseDecls_cons_new_sc (by simp)]
  simp [traverseDecls_nil, Env.xmlPrefix, Env.emptyPrefix]

theorem wr_root (env : Env) (t : Tree) (h : RootOk t) :
    wr env (namespacesInScopeChain [t]) t = wr env [(Env.xmlPrefix, Env.xmlNamespace)] t := by
  obtain ⟨v, ks⟩ := t
  cases v with
  | element name =>
    simp only [RootOk] at h
    simp only [wr, nsDecls_node, pushTop_inScope_root _ ks h.2]
    rw [pushTop_disjoint [(Env.xmlPrefix, Env.xmlNamespace)] (declsOfKids ks)
      (by intro p hp hm; simp only [List.map_cons, List.map_nil, List.mem_singleton] at hm; exact h.2 (hm ▸ hp))]
    rfl
  | document => rw [inScope_root_no_decls _ ks h]
  | text s => rw [inScope_root_no_decls _ ks h]
  | pi a b => rw [inScope_root_no_decls _ ks h]
  | comment s => rw [inScope_root_no_decls _ ks h]
  | «attribute» a b => rw [inScope_root_no_decls _ ks h]
  | «namespace» a b => rw [inScope_root_no_decls _ ks h]

theorem rootOk_eraseKids (env : Env) (name : Nat) (ks ks' : List Tree) (toRemove : List Nat)
    (hv : ks'.map Tree.value = ks.map Tree.value)
    (h : ((declsOfKids ks).map Prod.fst).Nodup ∧ Env.xmlPrefix ∉ (declsOfKids ks).map Prod.fst) :
    ((declsOfKids (eraseKids (declsOfKids ks) toRemove ks')).map Prod.fst).Nodup ∧
      Env.xmlPrefix ∉ (declsOfKids (eraseKids (declsOfKids ks) toRemove ks')).map Prod.fst := by
  have hf := (eraseKids_facts env [] (.element name) ks ks' toRemove hv h.1).1
  exact ⟨(hf.map Prod.fst).nodup h.1, fun hm => h.2 ((hf.map Prod.fst).subset hm)⟩

/-- The rebuilt root still satisfies `RootOk`. -/
theorem RootOk.rebuild (env : Env) {t : Tree} (h : RootOk t) : RootOk (rbWalk env [] t []).2 := by
  obtain ⟨v, ks⟩ := t
  cases v with
  | element name =>
    simp only [RootOk] at h
    simp only [rbWalk, nsDecls_node, eraseOwn_node, RootOk]
    exact rootOk_eraseKids env name ks _ _ (rb_values env ks _ _) h
  | document => simp only [RootOk] at h; simp only [rbWalk, RootOk]; rw [declsOfKids_congr _ ks (rb_values env ks _ _)]; exact h
  | text s => simp only [RootOk] at h; simp only [rbWalk, RootOk]; rw [declsOfKids_congr _ ks (rb_values env ks _ _)]; exact h
  | pi a b => simp only [RootOk] at h; simp only [rbWalk, RootOk]; rw [declsOfKids_congr _ ks (rb_values env ks _ _)]; exact h
  | comment s => simp only [RootOk] at h; simp only [rbWalk, RootOk]; rw [declsOfKids_congr _ ks (rb_values env ks _ _)]; exact h
  | «attribute» a b => simp only [RootOk] at h; simp only [rbWalk, RootOk]; rw [declsOfKids_congr _ ks (rb_values env ks _ _)]; exact h
  | «namespace» a b => simp only [RootOk] at h; simp only [rbWalk, RootOk]; rw [declsOfKids_congr _ ks (rb_values env ks _ _)]; exact h

/-- Names writable before `deduplicate_namespaces(root)` are writable after, under the guard. -/
theorem namesWritable_dedup_root (env : Env) (t t' : Tree)
    (hd : deduplicateNamespaces env t [] = some t') (hg : noShadow [Env.xmlPrefix] t)
    (hw : namesWritable env t [] = some true) : namesWritable env t' [] = some true := by
  rw [deduplicateNamespaces_root] at hd
  simp only [Option.some.injEq] at hd
  subst hd
  simp only [namesWritable, Tree.ancestorsOrSelf, Tree.at?, namesWritableChain_eq,
    Option.some.injEq] at hw ⊢
  have hroot := RootOk.of_noShadow hg
  rw [wr_root env t hroot] at hw
  rw [wr_root env _ (hroot.rebuild env)]
  exact keep_tree env [(Env.xmlPrefix, Env.xmlNamespace)] t [] [] []
    ⟨fun _ h => h, fun _ h => h, fun ns h => by simp at h⟩
    (fun ns h => by simp [attrKnownIn] at h) hg hw

end XotModel
