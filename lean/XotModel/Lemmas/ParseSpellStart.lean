/-
  C02_spelled, part 1: interning facts and the start tag of a plain (namespace-free) element.
-/
import XotModel.Lemmas.ParseSpellDefs
import XotModel.Lemmas.Parse

namespace XotModel

/-! ### Interning -/

theorem internIn_get {α : Type} [BEq α] [LawfulBEq α] (l : List α) (v : α) :
    (internIn l v).1[(internIn l v).2]? = some v := by
  unfold internIn
  by_cases h : v ∈ l
  · have hc : l.contains v = true := by simpa using h
    simp only [hc, if_true]
    have hlt := List.idxOf_lt_length_of_mem h
    rw [List.getElem?_eq_getElem hlt]
    simp [List.getElem_idxOf]
  · have hc : l.contains v = false := by simpa using h
    simp only [hc, Bool.false_eq_true, if_false]
    rw [List.idxOf_eq_length h]
    simp

theorem internIn_ext {α : Type} [BEq α] (l : List α) (v : α) : ∃ ext, (internIn l v).1 = l ++ ext := by
  unfold internIn
  split
  · exact ⟨[], by simp⟩
  · exact ⟨[v], rfl⟩

theorem getElem?_ext {α : Type} {l ext : List α} {i : Nat} {x : α} (h : l[i]? = some x) :
    (l ++ ext)[i]? = some x := by
  have hlt : i < l.length := by
    rcases Nat.lt_or_ge i l.length with h' | h'
    · exact h'
    · rw [List.getElem?_eq_none h'] at h; cases h
  rw [List.getElem?_append_left hlt]; exact h

/-- Already interned: nothing changes, and the id survives every later extension. -/
theorem internIn_of_mem {α : Type} [BEq α] [LawfulBEq α] {l : List α} {v : α} (h : v ∈ l) :
    internIn l v = (l, l.idxOf v) := by
  unfold internIn
  have hc : l.contains v = true := by simpa using h
  simp only [hc, if_true]

theorem idxOf_ext {α : Type} [BEq α] [LawfulBEq α] {l : List α} {v : α} (h : v ∈ l) (ext : List α) :
    (l ++ ext).idxOf v = l.idxOf v := by
  rw [List.idxOf_append]; simp [h]

theorem internIn_mem {α : Type} [BEq α] [LawfulBEq α] (l : List α) (v : α) : v ∈ (internIn l v).1 := by
  unfold internIn
  split
  · rename_i h; simpa using h
  · simp

theorem internIn_snd_eq {α : Type} [BEq α] (l : List α) (v : α) : (internIn l v).2 = l.idxOf v := rfl

/-- Names only grow; prefixes and namespaces stay (plain documents declare nothing). -/
def EnvExt (e e' : Env) : Prop :=
  e'.prefixes = e.prefixes ∧ e'.namespaces = e.namespaces ∧ ∃ ext, e'.names = e.names ++ ext

theorem EnvExt.refl (e : Env) : EnvExt e e := ⟨rfl, rfl, [], by simp⟩

theorem EnvExt.trans {a b c : Env} (h1 : EnvExt a b) (h2 : EnvExt b c) : EnvExt a c := by
  obtain ⟨p1, n1, x1, e1⟩ := h1
  obtain ⟨p2, n2, x2, e2⟩ := h2
  exact ⟨p2.trans p1, n2.trans n1, x1 ++ x2, by rw [e2, e1, List.append_assoc]⟩

theorem internName_ext (e : Env) (a : Str) (ns : Nat) : EnvExt e (e.internName a ns).1 := by
  obtain ⟨ext, h⟩ := internIn_ext e.names (a, ns)
  exact ⟨rfl, rfl, ext, h⟩

theorem EnvExt.names_get {e e' : Env} (h : EnvExt e e') {i : Nat} {x : Str × Nat} (hx : e.names[i]? = some x) :
    e'.names[i]? = some x := by
  obtain ⟨_, _, ext, he⟩ := h
  rw [he]; exact getElem?_ext hx

theorem internName_get (e : Env) (a : Str) (ns : Nat) :
    (e.internName a ns).1.names[(e.internName a ns).2]? = some (a, ns) :=
  internIn_get e.names (a, ns)

/-- Interning a name that was interned before, after any extension: same id, nothing changes. -/
theorem internName_again {e e' : Env} (a : Str) (ns : Nat) (h : EnvExt (e.internName a ns).1 e') :
    e'.internName a ns = (e', (e.internName a ns).2) := by
  obtain ⟨_, _, ext, he⟩ := h
  have hm : (a, ns) ∈ (e.internName a ns).1.names := internIn_mem e.names (a, ns)
  have hm' : (a, ns) ∈ e'.names := by rw [he]; simp [hm]
  unfold Env.internName
  rw [internIn_of_mem hm']
  simp only
  congr 1
  rw [he, idxOf_ext hm]
  have : (e.internName a ns).1.names = (internIn e.names (a, ns)).1 := rfl
  rw [this]
  by_cases hmem : (a, ns) ∈ e.names
  · rw [internIn_of_mem hmem]
  · unfold internIn
    have hc : e.names.contains (a, ns) = false := by simpa using hmem
    simp only [hc, Bool.false_eq_true, if_false]
    rw [List.idxOf_append]
    simp [hmem, List.idxOf_eq_length hmem]

theorem internPrefix_empty {e : Env} (h : e.prefixes.head? = some []) : e.internPrefix [] = (e, 0) := by
  cases hp : e.prefixes with
  | nil => simp [hp] at h
  | cons x xs =>
    simp only [hp, List.head?_cons, Option.some.injEq] at h
    subst h
    cases e
    simp only at hp
    subst hp
    simp [Env.internPrefix, internIn, List.idxOf, List.findIdx, List.findIdx.go]

/-! ### The state between two nodes -/

structure Ready (b : Builder) : Prop where
  eb : b.eb = none
  pfx0 : b.env.prefixes.head? = some []
  look : lookupPrefix b.nsStack 0 = some 0
  xmlId : ∃ x ns, b.env.names[1]? = some (x, ns) ∧ ns ≠ 0

theorem elementNameId_plain {env : Env} {stack : NsStack} (name : Str) (sp : Span)
    (h0 : env.prefixes.head? = some []) (hl : lookupPrefix stack 0 = some 0) :
    elementNameId env stack [] name sp = .ok (env.internName name 0) := by
  unfold elementNameId
  rw [internPrefix_empty h0]
  simp [hl]

/-! ### Attributes -/

def SAttr.builder (a : SAttr) : AttributeBuilder :=
  { pfx := [], name := a.name.text, value := valueOf true a.pieces,
    nameSpan := Span.fromPrefixName ⟨[], a.pstart⟩ a.name,
    valueSpan := (⟨renderPieces a.pieces, a.vstart⟩ : StrSpan).span,
    prefixSpan := (⟨[], a.pstart⟩ : StrSpan).span }

/-- The attribute tokens of a start tag fill the `ElementBuilder`. -/
theorem run_attrs (rest : List Token) (lexErr : Option Nat) : ∀ (attrs : List SAttr) (b : Builder) (eb : ElementBuilder),
    b.eb = some eb → (∀ a ∈ attrs, a.Well) → (∀ ab ∈ eb.attributes, ab.pfx = []) →
    (eb.attributes.map (fun ab => ab.name) ++ attrs.map (fun a => a.name.text)).Nodup →
    b.run (attrs.map SAttr.token ++ rest) lexErr =
      Builder.run { b with eb := some { eb with attributes := eb.attributes ++ attrs.map SAttr.builder } } rest lexErr := by
  intro attrs
  induction attrs with
  | nil =>
    intro b eb heb _ _ _
    simp only [List.map_nil, List.nil_append, List.append_nil]
    congr 1
    cases b; simp_all
  | cons a as ih =>
    intro b eb heb hw hp hn
    obtain ⟨hwp, hwx, hps⟩ := hw a (by simp)
    simp only [List.map_cons, List.cons_append, Builder.run]
    have hstep : b.step a.token =
        .ok { b with eb := some { eb with attributes := eb.attributes ++ [a.builder] } } := by
      have h1 : (([] : Str) == ['x', 'm', 'l', 'n', 's']) = false := by decide
      have h2 : (a.name.text == ['x', 'm', 'l', 'n', 's']) = false := by simpa using hwx
      have hbc : (⟨[], a.pstart⟩ : StrSpan).bareColon = false := by simp [StrSpan.bareColon, hps]
      simp only [SAttr.token, Builder.step, hbc, h1, Bool.false_eq_true, if_false, h2, Bool.and_false]
      unfold Builder.attribute
      rw [heb]
      simp only
      have hany : (eb.attributes.any fun ab => ab.pfx == [] && ab.name == a.name.text) = false := by
        rw [List.any_eq_false]
        intro ab hab
        simp only [Bool.and_eq_true, beq_iff_eq, not_and]
        intro _ hname
        simp only [List.map_cons] at hn
        have hnd := (List.nodup_append.mp hn).2.2
        exact hnd ab.name (by simp only [List.mem_map]; exact ⟨ab, hab, rfl⟩) a.name.text (by simp) hname
      simp only [hany, Bool.false_eq_true, if_false]
      have hparse := parse_pieces true a.vstart a.pieces 0 hwp
      simp only [hparse]
      have hx : (([] : Str) == ['x', 'm', 'l']) = false := by decide
      simp [hx, SAttr.builder]
    rw [hstep]
    simp only
    have := ih { b with eb := some { eb with attributes := eb.attributes ++ [a.builder] } }
      { eb with attributes := eb.attributes ++ [a.builder] } rfl
      (fun x hx => hw x (by simp [hx]))
      (by
        intro ab hab
        simp only [List.mem_append, List.mem_singleton] at hab
        rcases hab with hab | rfl
        · exact hp ab hab
        · rfl)
      (by
        simp only [List.map_append, List.map_cons, List.map_nil, List.append_assoc, List.cons_append,
          List.nil_append]
        simpa [SAttr.builder] using hn)
    rw [this]
    simp [List.append_assoc]

/-- The attribute loop of `open_element` on unprefixed attributes with pairwise different names. -/
theorem addAttributes_plain (stack : NsStack) (node : Path) : ∀ (abs : List AttributeBuilder) (st : AttrLoop),
    (∀ ab ∈ abs, ab.pfx = []) → st.env.prefixes.head? = some [] →
    (∃ x ns, st.env.names[1]? = some (x, ns) ∧ ns ≠ 0) →
    (∀ n ∈ st.seenNames, ∃ a, a ∉ abs.map (fun ab => ab.name) ∧ st.env.names[n]? = some (a, 0)) →
    (abs.map (fun ab => ab.name)).Nodup →
    ∃ st', addAttributes stack node st abs = .ok st' ∧
      st'.env = (encodeAttrs st.env (abs.map fun ab => (ab.name, ab.value))).1 ∧
      st'.rkids = (encodeAttrs st.env (abs.map fun ab => (ab.name, ab.value))).2.reverse ++ st.rkids ∧
      st'.seenIds = st.seenIds ∧ st'.idNodes = st.idNodes := by
  intro abs
  induction abs with
  | nil => intro st _ _ _ _ _; exact ⟨st, rfl, rfl, by simp [encodeAttrs], rfl, rfl⟩
  | cons ab rest ih =>
    intro st hp h0 hx hseen hnd
    have hab : ab.pfx = [] := hp ab (by simp)
    have hname : attributeNameId st.env stack ab.pfx ab.name ab.prefixSpan =
        .ok (st.env.internName ab.name Env.noNamespace) := by
      rw [hab]; exact attributeNameId_unprefixed st.env stack ab.name ab.prefixSpan h0
    have hext := internName_ext st.env ab.name Env.noNamespace
    have hget := internName_get st.env ab.name Env.noNamespace
    -- the new id is none of the ids seen so far
    have hnew : (st.seenNames.contains (st.env.internName ab.name Env.noNamespace).2) = false := by
      rw [Bool.eq_false_iff]
      intro hc
      have hm : (st.env.internName ab.name Env.noNamespace).2 ∈ st.seenNames := by simpa using hc
      obtain ⟨a, ha, hga⟩ := hseen _ hm
      have := hext.names_get hga
      rw [hget] at this
      simp only [Option.some.injEq, Prod.mk.injEq] at this
      exact ha (by simp [this.1])
    -- … and not the id of xml:id
    have hnotid : ((st.env.internName ab.name Env.noNamespace).2 == Env.xmlIdName) = false := by
      rw [beq_eq_false_iff_ne]
      intro heq
      obtain ⟨x, ns, hx1, hns⟩ := hx
      have := hext.names_get hx1
      rw [← show Env.xmlIdName = 1 from rfl, ← heq, hget] at this
      simp only [Option.some.injEq, Prod.mk.injEq] at this
      exact hns this.2.symm
    have hval : xmlIdValue (st.env.internName ab.name Env.noNamespace).2 ab.value = ab.value := by
      simp only [xmlIdValue, hnotid, Bool.false_eq_true, if_false]
    simp only [addAttributes, hname, hnew, Bool.false_eq_true, if_false, hnotid, Bool.false_and, hval]
    obtain ⟨hp0, _, _⟩ := hext
    simp only [List.map_cons] at hnd
    have hnd' := List.nodup_cons.mp hnd
    obtain ⟨st', hr, he, hk, hs, hi⟩ := ih
      { env := (st.env.internName ab.name Env.noNamespace).1, seenIds := st.seenIds, idNodes := st.idNodes,
        seenNames := st.seenNames ++ [(st.env.internName ab.name Env.noNamespace).2],
        rkids := .node (.attribute (st.env.internName ab.name Env.noNamespace).2 ab.value) [] :: st.rkids,
        aspans := st.aspans ++ [((st.env.internName ab.name Env.noNamespace).2, ab.nameSpan, ab.valueSpan)] }
      (fun x hx => hp x (by simp [hx]))
      (by simp only; rw [hp0]; exact h0)
      (by
        obtain ⟨x, ns, hx1, hns⟩ := hx
        exact ⟨x, ns, (internName_ext st.env ab.name Env.noNamespace).names_get hx1, hns⟩)
      (by
        intro n hn
        simp only [List.mem_append, List.mem_singleton] at hn
        rcases hn with hn | rfl
        · obtain ⟨a, ha, hga⟩ := hseen n hn
          refine ⟨a, fun hmem => ha (by simp [hmem]), (internName_ext st.env ab.name Env.noNamespace).names_get hga⟩
        · exact ⟨ab.name, hnd'.1, hget⟩)
      hnd'.2
    refine ⟨st', hr, ?_, ?_, hs, hi⟩
    · rw [he]; simp [encodeAttrs]
    · rw [hk]; simp [encodeAttrs]

end XotModel
