/-
  XotModel.Lemmas.ArenaStaleChecked — `checked_append`, `checked_prepend`, `checked_insert_after`,
  `checked_insert_before` called with removed or foreign ids, on EVERY arena (no invariant needed):
  all four evaluate `arena[self].is_removed() || arena[other].is_removed()` right after the
  self-comparison, and that test looks at the SLOTS only (sign of the slot's stamp).

    * an id whose slot is FREE, in either position (the other id being any id whose slot exists, or —
      when the free one is `self` — any id at all, the `||` short-circuits): `Err(Removed)`, arena
      literally unchanged;
    * an id beyond the slot vector: `arena[..]` panics (index out of bounds) before any write —
      unless `self`'s slot is free, which is looked at first;
    * the same id twice: the `…Self` error, whatever the id;
    * a STALE id (slot reused) passes the test: `either_removed = false`; the call goes on with the
      new occupant of the slot (closed examples in `Props/C06`).
-/
import XotModel.Lemmas.ArenaStale

namespace XotModel
namespace Arena

theorem eitherRemoved_freed_self {a : Arena} {x : NodeId} (h : Freed a x) (y : NodeId) :
    eitherRemoved a x y = .done a true := by
  obtain ⟨s, hs, hn⟩ := h
  unfold eitherRemoved
  rw [rd_some _ _ _ _ hs]
  simp [Slot.isRemoved, Stamp.isRemoved, hn]

theorem eitherRemoved_freed_other {a : Arena} {x y : NodeId} (hx : Occupied a x) (hy : Freed a y) :
    eitherRemoved a x y = .done a true := by
  obtain ⟨s, hs, h0⟩ := hx
  obtain ⟨t, ht, hn⟩ := hy
  unfold eitherRemoved
  rw [rd_some _ _ _ _ hs]
  have : ¬ s.stamp < 0 := by omega
  simp only [Slot.isRemoved, Stamp.isRemoved, this, decide_false, Bool.false_eq_true, if_false]
  rw [rd_some _ _ _ _ ht]
  simp [hn]

/-- Two ids whose slots hold nodes — live or STALE — pass the `Removed` test. -/
theorem eitherRemoved_occupied {a : Arena} {x y : NodeId} (hx : Occupied a x) (hy : Occupied a y) :
    eitherRemoved a x y = .done a false := by
  obtain ⟨s, hs, h0⟩ := hx
  obtain ⟨t, ht, h1⟩ := hy
  unfold eitherRemoved
  rw [rd_some _ _ _ _ hs]
  have : ¬ s.stamp < 0 := by omega
  simp only [Slot.isRemoved, Stamp.isRemoved, this, decide_false, Bool.false_eq_true, if_false]
  rw [rd_some _ _ _ _ ht]
  have : ¬ t.stamp < 0 := by omega
  simp [this]

theorem eitherRemoved_self_out_of_range {a : Arena} {x : NodeId} (h : a.slot x.index0 = none) (y : NodeId) :
    eitherRemoved a x y = .panic a := by
  unfold eitherRemoved rd
  unfold slot at h
  rw [h]

theorem eitherRemoved_other_out_of_range {a : Arena} {x y : NodeId} (hx : Occupied a x) (h : a.slot y.index0 = none) :
    eitherRemoved a x y = .panic a := by
  obtain ⟨s, hs, h0⟩ := hx
  unfold eitherRemoved
  rw [rd_some _ _ _ _ hs]
  have : ¬ s.stamp < 0 := by omega
  simp only [Slot.isRemoved, Stamp.isRemoved, this, decide_false, Bool.false_eq_true, if_false]
  unfold rd
  unfold slot at h
  rw [h]

/-- The situations in which the `Removed` test fires: `self`'s slot is free (the other id is not
    even looked at), or `self`'s slot holds a node and the other id's slot is free. -/
def FreedArg (a : Arena) (x y : NodeId) : Prop := Freed a x ∨ (Occupied a x ∧ Freed a y)

/-- The situations in which the `Removed` test panics: `self` is beyond the slot vector, or `self`'s
    slot holds a node and the other id is beyond the slot vector. -/
def OutOfRangeArg (a : Arena) (x y : NodeId) : Prop :=
  a.slot x.index0 = none ∨ (Occupied a x ∧ a.slot y.index0 = none)

theorem eitherRemoved_freedArg {a : Arena} {x y : NodeId} (h : FreedArg a x y) : eitherRemoved a x y = .done a true := by
  rcases h with h | ⟨hx, hy⟩
  · exact eitherRemoved_freed_self h y
  · exact eitherRemoved_freed_other hx hy

theorem eitherRemoved_outOfRangeArg {a : Arena} {x y : NodeId} (h : OutOfRangeArg a x y) :
    eitherRemoved a x y = .panic a := by
  rcases h with h | ⟨hx, hy⟩
  · exact eitherRemoved_self_out_of_range h y
  · exact eitherRemoved_other_out_of_range hx hy

/-- `checked_append` with a freed id in either position: `Err(Removed)`, nothing written. -/
theorem checkedAppend_freed {a : Arena} {x y : NodeId} (hne : y ≠ x) (h : FreedArg a x y) :
    checkedAppend a x y = .done a (.error .removed) := by
  unfold checkedAppend
  rw [if_neg hne, eitherRemoved_freedArg h]
  rfl

theorem checkedPrepend_freed {a : Arena} {x y : NodeId} (hne : y ≠ x) (h : FreedArg a x y) :
    checkedPrepend a x y = .done a (.error .removed) := by
  unfold checkedPrepend
  rw [if_neg hne, eitherRemoved_freedArg h]
  rfl

theorem checkedInsertAfter_freed {a : Arena} {x y : NodeId} (hne : y ≠ x) (h : FreedArg a x y) :
    checkedInsertAfter a x y = .done a (.error .removed) := by
  unfold checkedInsertAfter
  rw [if_neg hne, eitherRemoved_freedArg h]
  rfl

theorem checkedInsertBefore_freed {a : Arena} {x y : NodeId} (hne : y ≠ x) (h : FreedArg a x y) :
    checkedInsertBefore a x y = .done a (.error .removed) := by
  unfold checkedInsertBefore
  rw [if_neg hne, eitherRemoved_freedArg h]
  rfl

/-- `checked_*` with an id beyond the slot vector: `arena[..]` panics, nothing written. -/
theorem checkedAppend_out_of_range {a : Arena} {x y : NodeId} (hne : y ≠ x) (h : OutOfRangeArg a x y) :
    checkedAppend a x y = .panic a := by
  unfold checkedAppend
  rw [if_neg hne, eitherRemoved_outOfRangeArg h]
  rfl

theorem checkedPrepend_out_of_range {a : Arena} {x y : NodeId} (hne : y ≠ x) (h : OutOfRangeArg a x y) :
    checkedPrepend a x y = .panic a := by
  unfold checkedPrepend
  rw [if_neg hne, eitherRemoved_outOfRangeArg h]
  rfl

theorem checkedInsertAfter_out_of_range {a : Arena} {x y : NodeId} (hne : y ≠ x) (h : OutOfRangeArg a x y) :
    checkedInsertAfter a x y = .panic a := by
  unfold checkedInsertAfter
  rw [if_neg hne, eitherRemoved_outOfRangeArg h]
  rfl

theorem checkedInsertBefore_out_of_range {a : Arena} {x y : NodeId} (hne : y ≠ x) (h : OutOfRangeArg a x y) :
    checkedInsertBefore a x y = .panic a := by
  unfold checkedInsertBefore
  rw [if_neg hne, eitherRemoved_outOfRangeArg h]
  rfl

/-- The unchecked wrappers (`append`, `prepend`, `insert_after`, `insert_before`) `expect` the
    result: with a freed id they panic ("Preconditions not met: invalid argument"), nothing written. -/
theorem append_freed {a : Arena} {x y : NodeId} (hne : y ≠ x) (h : FreedArg a x y) : append a x y = .panic a := by
  unfold append unwrapNodeError
  rw [checkedAppend_freed hne h]; rfl

theorem prepend_freed {a : Arena} {x y : NodeId} (hne : y ≠ x) (h : FreedArg a x y) : prepend a x y = .panic a := by
  unfold prepend unwrapNodeError
  rw [checkedPrepend_freed hne h]; rfl

theorem insertAfter_freed {a : Arena} {x y : NodeId} (hne : y ≠ x) (h : FreedArg a x y) : insertAfter a x y = .panic a := by
  unfold insertAfter unwrapNodeError
  rw [checkedInsertAfter_freed hne h]; rfl

theorem insertBefore_freed {a : Arena} {x y : NodeId} (hne : y ≠ x) (h : FreedArg a x y) : insertBefore a x y = .panic a := by
  unfold insertBefore unwrapNodeError
  rw [checkedInsertBefore_freed hne h]; rfl

/-- A live id is an `Occupied` one. -/
theorem LiveId.occupied {a : Arena} {x : NodeId} (h : LiveId a x) : Occupied a x := h.2.1

theorem Stale.occupied {a : Arena} {x : NodeId} (h : Stale a x) : Occupied a x := by
  obtain ⟨s, hs, h0, _⟩ := h
  exact ⟨s, hs, h0⟩

/-- With a removed id (class `freed`) and a live one, in either order. -/
theorem freedArg_of_classes {a : Arena} {x y : NodeId}
    (h : (a.classify x = .freed) ∨ ((a.classify x = .live ∨ a.classify x = .stale) ∧ a.classify y = .freed)) :
    FreedArg a x y := by
  rcases h with h | ⟨hx, hy⟩
  · exact Or.inl (classify_freed h).1
  · refine Or.inr ⟨?_, (classify_freed hy).1⟩
    rcases hx with hx | hx
    · exact ((classify_live_iff a x).mp hx).occupied
    · exact (classify_stale hx).1.occupied

end Arena
end XotModel
