/-
  XotModel.Lemmas.ParseNsDefs — spelling as data at document level WITH namespaces
  (specification side of C02_spelled_ns).

  * `NPNode`  : an abstract document with namespaces: an element has an expanded name
                (namespace URI, local name), the declarations its start tag wrote (prefix, URI) in
                the order written, its attributes ((namespace URI, local name), value) in the order
                written, and children.
  * `NSAttr`  : one item of a start tag as written, `pfx:loc="pieces"`.  Whether it is an ordinary
                attribute or a namespace declaration is decided by its strings exactly as
                `Xot::_parse` decides it (`NSAttr.declares`): prefix `xmlns` declares the prefix
                `loc`, the unprefixed name `xmlns` declares the default namespace, anything else
                (also `p:xmlns`) is an attribute.
  * `NSNode`  : one spelling of a document: prefix and local span of every start / end tag, the
                items of every start tag, pieces per value, CDATA interleaving, `<a/>` vs
                `<a></a>`, every byte position and whole-token span arbitrary (as in `SNode`).
  * `tokens`  : the token list a tokenizer returns for that spelling.
  * `denote`  : the abstract nodes a spelling denotes in a scope, threaded the XML-Namespaces way.
  * `Well`    : what the builder accepts (mirrors the CODE, see the remarks at `NSNode.Well`).
  * `encode`  : the abstract document as an id tree, ids interned in the order the parser meets
                them; `decodeNs` reads an id tree back through the interning tables.
-/
import XotModel.Lemmas.ParseSpellDefs
import XotModel.Lemmas.SharedDefs

namespace XotModel

/-- In-scope namespace bindings as strings (prefix, URI), nearest binding first. -/
abbrev Scope := List (Str × Str)

/-- `http://www.w3.org/XML/1998/namespace` -/
def xmlNsUri : Str :=
  ['h', 't', 't', 'p', ':', '/', '/', 'w', 'w', 'w', '.', 'w', '3', '.', 'o', 'r', 'g', '/', 'X', 'M', 'L', '/',
   '1', '9', '9', '8', '/', 'n', 'a', 'm', 'e', 's', 'p', 'a', 'c', 'e']

theorem xmlNsUri_eq : xmlNsUri = xmlNamespaceUri := rfl

/-- The bindings at the outset (`C02_scope_base`): the empty prefix is bound to no namespace
    (the empty URI), `xml` to the XML namespace. -/
def baseScope : Scope := [([], []), (['x', 'm', 'l'], xmlNsUri)]

/-- The scope inside an element whose start tag wrote `decls` (in that order): a later
    declaration is nearer than an earlier one, all are nearer than the enclosing scope. -/
def Scope.push (scope : Scope) (decls : List (Str × Str)) : Scope := decls.reverse ++ scope

/-- The URI a prefix is bound to (`[]` when unbound; `Well` excludes that case). -/
def Scope.resolve (scope : Scope) (p : Str) : Str := (scope.lookup p).getD []

/-- The namespace of an attribute: an unprefixed attribute is in no namespace. -/
def Scope.attrNs (scope : Scope) (p : Str) : Str := if p = [] then [] else scope.resolve p

/-- Abstract document node with namespaces. `ns = []` is "no namespace". -/
inductive NPNode where
  | elem (ns : Str) (loc : Str) (decls : List (Str × Str)) (attrs : List ((Str × Str) × Str))
      (kids : List NPNode)
  | text (s : Str)
  | comment (s : Str)
  | pi (target : Str) (data : Option Str)
  deriving Repr, Inhabited

/-- One item of a start tag as written: `pfx:loc="pieces"` (`pfx.text = []`: no prefix, no colon). -/
structure NSAttr where
  pfx : StrSpan
  loc : StrSpan
  pieces : List Piece
  vstart : Nat
  junk : StrSpan
  deriving Repr, Inhabited

def xmlnsStr : Str := ['x', 'm', 'l', 'n', 's']

/-- The prefix this item declares, if it is a namespace declaration — the test of the `Attribute`
    arm of `Xot::_parse`. -/
def NSAttr.declares (a : NSAttr) : Option Str :=
  if a.pfx.text == xmlnsStr then some a.loc.text
  else if a.pfx.text.isEmpty && a.loc.text == xmlnsStr then some []
  else none

def NSAttr.isDecl (a : NSAttr) : Bool := a.declares.isSome

/-- A spelled node with prefixes. `junk` fields are the whole-token spans xot never looks at. -/
inductive NSNode where
  /-- `<pfx:loc attrs> kids </cpfx:cloc>` -/
  | elem (pfx loc : StrSpan) (junk : StrSpan) (attrs : List NSAttr) (openSp : StrSpan)
      (kids : List NSNode) (cpfx cloc : StrSpan) (closeSp : StrSpan)
  /-- `<pfx:loc attrs/>` -/
  | empty (pfx loc : StrSpan) (junk : StrSpan) (attrs : List NSAttr) (endSp : StrSpan)
  /-- a maximal run of text and CDATA parts -/
  | chars (parts : List SPart)
  | comment (text : StrSpan) (junk : StrSpan)
  | pi (target : StrSpan) (content : Option StrSpan) (junk : StrSpan)
  deriving Inhabited

def NSAttr.token (a : NSAttr) : Token :=
  .attribute a.pfx a.loc ⟨renderPieces a.pieces, a.vstart⟩ a.junk

/-- The tokens of a spelled node. -/
def NSNode.tokens : NSNode → List Token
  | .elem pfx loc junk attrs openSp kids cpfx cloc closeSp =>
    .elementStart pfx loc junk :: (attrs.map NSAttr.token ++
      (.elementEnd .open openSp :: (tokensList kids ++ [.elementEnd (.close cpfx cloc) closeSp])))
  | .empty pfx loc junk attrs endSp =>
    .elementStart pfx loc junk :: (attrs.map NSAttr.token ++ [.elementEnd .empty endSp])
  | .chars parts => parts.map SPart.token
  | .comment text junk => [.comment text junk]
  | .pi target content junk => [.pi target content junk]
where
  tokensList : List NSNode → List Token
    | [] => []
    | k :: ks => NSNode.tokens k ++ tokensList ks

/-! ### What a spelling denotes -/

/-- The declarations a start tag writes, in order: (prefix, URI decoded as an attribute value —
    `C02_namespace_uri`). -/
def declsOf (attrs : List NSAttr) : List (Str × Str) :=
  attrs.filterMap fun a => a.declares.map fun p => (p, valueOf true a.pieces)

/-- The ordinary attributes of a start tag, in order. -/
def ordinary (attrs : List NSAttr) : List NSAttr := attrs.filter fun a => !a.isDecl

/-- The value of an ordinary attribute in the scope of its element: decoded and normalised as an
    attribute value; the value of an attribute whose EXPANDED name is (XML namespace, `id`) —
    whatever prefix spells it — is moreover normalised as an ID (`open_element`, under
    `name_id == self.xml_id_id`). -/
def NSAttr.value (scope : Scope) (a : NSAttr) : Str :=
  if (scope.attrNs a.pfx.text, a.loc.text) == (xmlNsUri, ['i', 'd']) then normalizeXmlId (valueOf true a.pieces)
  else valueOf true a.pieces

/-- An ordinary attribute in the scope of its element: ((namespace URI, local name), value). -/
def NSAttr.denote (scope : Scope) (a : NSAttr) : (Str × Str) × Str :=
  ((scope.attrNs a.pfx.text, a.loc.text), a.value scope)

def attrsOf (scope : Scope) (attrs : List NSAttr) : List ((Str × Str) × Str) :=
  (ordinary attrs).map (NSAttr.denote scope)

/-- The abstract nodes a spelled node denotes in `scope` (a character-data run without characters
    denotes nothing).  The element's own declarations are in scope for its name, its attributes
    and its content. -/
def NSNode.denote : Scope → NSNode → List NPNode
  | scope, .elem pfx loc _ attrs _ kids _ _ _ =>
    [.elem ((scope.push (declsOf attrs)).resolve pfx.text) loc.text (declsOf attrs)
      (attrsOf (scope.push (declsOf attrs)) attrs) (denoteList (scope.push (declsOf attrs)) kids)]
  | scope, .empty pfx loc _ attrs _ =>
    [.elem ((scope.push (declsOf attrs)).resolve pfx.text) loc.text (declsOf attrs)
      (attrsOf (scope.push (declsOf attrs)) attrs) []]
  | _, .chars parts => if partsValue parts = [] then [] else [.text (partsValue parts)]
  -- line ends are normalised in comments and processing instructions too (XML 1.0, 2.11)
  | _, .comment text _ => [.comment (normalizeLineEnds text.text)]
  | _, .pi target content _ => [.pi target.text (content.map (fun c => normalizeLineEnds c.text))]
where
  denoteList : Scope → List NSNode → List NPNode
    | _, [] => []
    | scope, k :: ks => NSNode.denote scope k ++ denoteList scope ks

/-! ### Well-formedness of a spelling: what the builder accepts -/

def NSNode.isChars : NSNode → Bool
  | .chars _ => true
  | _ => false

/-- No two neighbouring character-data runs (they would be one run). -/
def noAdjCharsNs : List NSNode → Bool
  | a :: b :: rest => !(a.isChars && b.isChars) && noAdjCharsNs (b :: rest)
  | _ => true

/-- The items of a start tag, `scope` being the scope INSIDE the element (own declarations pushed):
    values well spelled, no declaration is a reserved one or a prefixed undeclaration
    (`reservedDecl`, the test of `DocumentBuilder::prefix` on the decoded URI), no prefix declared
    twice (`DocumentBuilder::prefix`), attributes pairwise different by expanded name
    (`open_element`; this implies pairwise different as written, the test of
    `DocumentBuilder::attribute`), every attribute prefix bound; no name is written with a colon
    and nothing in front of it (`check_qname`, /repo a5fafb0: an empty prefix span has offset 0, as
    the tokenizer reports an ABSENT prefix). -/
def attrsWellNs (scope : Scope) (attrs : List NSAttr) : Prop :=
  (∀ a ∈ attrs, WellSpelled a.pieces) ∧
  (∀ d ∈ declsOf attrs, reservedDecl d.1 d.2 = false) ∧
  ((declsOf attrs).map Prod.fst).Nodup ∧
  ((attrsOf scope attrs).map Prod.fst).Nodup ∧
  (∀ a ∈ ordinary attrs, a.pfx.text ≠ [] → (scope.lookup a.pfx.text).isSome = true) ∧
  (∀ a ∈ attrs, a.pfx.bareColon = false)

/-- A spelling is well formed in `scope` (the scope around the node).  This mirrors what the CODE
    accepts; where that is more than Namespaces in XML 1.0 allows it is kept:
    * the prefix `xml` may be bound to any URI, the empty one included (`reservedDecl` exempts it;
      recorded defect C03:xml-prefix-rebound-accepted).  Since /repo 6153ddf, a5dcf8e the other
      reserved declarations (prefix `xmlns`, another prefix for the XML namespace name, anything
      for the xmlns namespace name) and `xmlns:p=""` are refused; since 002854f a processing
      instruction with the target `xml` (any letter case) is refused.
    An end tag repeats the start tag's name AS WRITTEN, prefix and local name: `close_element`
    compares the name ids and the written prefixes (`open_prefixes`), so another prefix bound to
    the same URI does not close the element.  Every element prefix must be bound (the empty prefix
    always is).  An empty prefix span (start tag, end tag, every item) has offset 0: since /repo
    a5fafb0 `check_qname` refuses an empty prefix at another offset (the spelling `:local`). -/
def NSNode.Well : Scope → NSNode → Prop
  | scope, .elem pfx loc _ attrs _ kids cpfx cloc _ =>
    attrsWellNs (scope.push (declsOf attrs)) attrs ∧
    ((scope.push (declsOf attrs)).lookup pfx.text).isSome = true ∧
    cpfx.text = pfx.text ∧ cloc.text = loc.text ∧
    noAdjCharsNs kids = true ∧ wellList (scope.push (declsOf attrs)) kids ∧
    pfx.bareColon = false ∧ cpfx.bareColon = false
  | scope, .empty pfx _ _ attrs _ =>
    attrsWellNs (scope.push (declsOf attrs)) attrs ∧
    ((scope.push (declsOf attrs)).lookup pfx.text).isSome = true ∧ pfx.bareColon = false
  | _, .chars parts => ∀ p ∈ parts, p.Well
  | _, .comment _ _ => True
  | _, .pi target _ _ => isReservedPiTarget target.text = false
where
  wellList : Scope → List NSNode → Prop
    | _, [] => True
    | scope, k :: ks => NSNode.Well scope k ∧ wellList scope ks

/-- The values of the attributes with expanded name (XML namespace, `id`) — however the prefix is
    spelled. -/
def attrIds (attrs : List ((Str × Str) × Str)) : List Str :=
  (attrs.filter fun kv => kv.1 == (xmlNsUri, ['i', 'd'])).map Prod.snd

/-- The ID values of a document, in document order: `open_element` rejects a repeated one
    (`seen_ids`). -/
def NPNode.ids : NPNode → List Str
  | .elem _ _ _ attrs kids => attrIds attrs ++ idsList kids
  | _ => []
where
  idsList : List NPNode → List Str
    | [] => []
    | k :: ks => NPNode.ids k ++ idsList ks

/-- A whole spelled text is well formed: every node is, in the base scope; no two neighbouring
    character-data runs; no ID value twice. -/
def WellNsDoc (sns : List NSNode) : Prop :=
  NSNode.Well.wellList baseScope sns ∧ noAdjCharsNs sns = true ∧
  (NPNode.ids.idsList (NSNode.denote.denoteList baseScope sns)).Nodup

/-! ### The abstract document as an id tree -/

/-- Interning a start tag's declarations, in order: prefix, then URI
    (`DocumentBuilder::prefix`: `add_prefix`, `add_namespace`). -/
def declIds : Env → List (Str × Str) → Env × List (Nat × Nat)
  | env, [] => (env, [])
  | env, (p, u) :: rest =>
    let r1 := env.internPrefix p
    let r2 := r1.1.internNamespace u
    let r := declIds r2.1 rest
    (r.1, (r1.2, r2.2) :: r.2)

/-- Namespace leaves for the declarations. -/
def encodeDecls (env : Env) (decls : List (Str × Str)) : Env × List Tree :=
  ((declIds env decls).1, (declIds env decls).2.map fun d => Tree.node (.namespace d.1 d.2) [])

/-- Attribute leaves, names interned in order.  (The namespace URI of a well-formed document is
    already in the table: it was declared, or is one of the two base URIs.) -/
def encodeNsAttrs : Env → List ((Str × Str) × Str) → Env × List Tree
  | env, [] => (env, [])
  | env, ((ns, a), v) :: rest =>
    let rn := env.internNamespace ns
    let r := rn.1.internName a rn.2
    let r2 := encodeNsAttrs r.1 rest
    (r2.1, .node (.attribute r.2 v) [] :: r2.2)

/-- The abstract document as an id tree, ids interned in the order the parser meets them: the
    declarations of a start tag (as their tokens arrive), then — in `open_element` — the element
    name, then the attribute names; then the content.  Namespace nodes come first, then attribute
    nodes, then the children. -/
def NPNode.encode : Env → NPNode → Env × Tree
  | env, .elem ns loc decls attrs kids =>
    let rd := encodeDecls env decls
    let rn := rd.1.internNamespace ns
    let r := rn.1.internName loc rn.2
    let ra := encodeNsAttrs r.1 attrs
    let rk := encodeList ra.1 kids
    (rk.1, .node (.element r.2) (rd.2 ++ (ra.2 ++ rk.2)))
  | env, .text s => (env, .node (.text s) [])
  | env, .comment s => (env, .node (.comment s) [])
  | env, .pi target data =>
    let r := env.internName target Env.noNamespace
    (r.1, .node (.pi r.2 data) [])
where
  encodeList : Env → List NPNode → Env × List Tree
    | env, [] => (env, [])
    | env, k :: ks =>
      let r := NPNode.encode env k
      let r2 := encodeList r.1 ks
      (r2.1, r.2 :: r2.2)

/-! ### Reading an id tree back -/

/-- What one node of an id tree reads back as. -/
inductive NItem where
  | decl (d : Str × Str)
  | attr (a : (Str × Str) × Str)
  | node (n : NPNode)

def NItem.decl? : NItem → Option (Str × Str)
  | .decl d => some d
  | _ => none

def NItem.attr? : NItem → Option ((Str × Str) × Str)
  | .attr a => some a
  | _ => none

def NItem.node? : NItem → Option NPNode
  | .node n => some n
  | _ => none

-- `Env.expanded` (the expanded name of a name id: (namespace URI, local name)) is in `Lemmas/SharedDefs.lean`.

/-- An id tree read back through the interning tables. -/
def decodeNsTree (env : Env) : Tree → Option NItem
  | .node (.namespace p ns) [] => some (.decl (env.prefixStr p, env.namespaceStr ns))
  | .node (.attribute n v) [] => some (.attr (env.expanded n, v))
  | .node (.element n) ks =>
    match decodeItems ks with
    | some items =>
      some (.node (.elem (env.expanded n).1 (env.expanded n).2 (items.filterMap NItem.decl?)
        (items.filterMap NItem.attr?) (items.filterMap NItem.node?)))
    | none => none
  | .node (.text s) [] => some (.node (.text s))
  | .node (.comment s) [] => some (.node (.comment s))
  | .node (.pi t d) [] => some (.node (.pi (env.localName t) d))
  | _ => none
where
  decodeItems : List Tree → Option (List NItem)
    | [] => some []
    | k :: ks =>
      match decodeNsTree env k, decodeItems ks with
      | some a, some as => some (a :: as)
      | _, _ => none

/-- A list of content nodes (the children of a document node) read back; `none` if one of them is
    not a content node. -/
def decodeNs (env : Env) (ks : List Tree) : Option (List NPNode) :=
  match decodeNsTree.decodeItems env ks with
  | some items => items.mapM NItem.node?
  | none => none

/-! ### The interning tables a parse may start from -/

/-- What `Xot::new` guarantees and interning keeps: the empty prefix / `xml` and the empty URI /
    the XML namespace have ids 0 / 1 (the builder's base bindings refer to these ids), and
    `xml:id` is name 1 and no other name id (the duplicate-ID test compares with that id). -/
structure EnvBaseNs (env : Env) : Prop where
  pfx : ∃ rest, env.prefixes = [] :: ['x', 'm', 'l'] :: rest
  ns : ∃ rest, env.namespaces = [] :: xmlNsUri :: rest
  names : ∃ n0 rest, env.names = n0 :: (['i', 'd'], 1) :: rest ∧ n0 ≠ (['i', 'd'], 1)

end XotModel
