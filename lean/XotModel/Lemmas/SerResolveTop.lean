/-
  The resolver over the tokens of `Xot::tokens(node)` / `serialize`: from the start node, with the
  serialiser's initial stack (`namespaces_in_scope(node)`), and the crate's own unescaper for the
  declaration values.
-/
import XotModel.Lemmas.SerResolveTree
import XotModel.Lemmas.Entity

namespace XotModel.SerResolve
open XotModel

/-- Unescape a declaration value with `parse_attribute` (entity.rs); a value that does not parse is
    taken as it stands. -/
def unescapeValue (s : Str) : Str :=
  match parseAttribute s with
  | .ok u => u
  | .error _ => s

theorem unescapeValue_serializeAttribute (u : Str) : unescapeValue (serializeAttribute u) = u := by
  have ht : tableOk Gen.attrEscapes = true ∧ tableCovers true Gen.attrEscapes = true := by decide
  have : parseAttribute (serializeAttribute u) = .ok u := parse_escape_roundtrip true _ ht.1 ht.2 u 0 0
  simp [unescapeValue, this]

/-- Only bindings to the XML namespace (which need no declaration) are in scope. -/
def OnlyXmlInScope (inScope : List (Nat × Nat)) : Prop := ∀ d ∈ inScope, d.2 = Env.xmlNamespace

theorem corr_onlyXml {env : Env} {inScope : List (Nat × Nat)} (h : OnlyXmlInScope inScope) :
    Corr env [] [inScope] := by
  refine ⟨fun p ns hl hns => ?_, fun _ _ _ => rfl⟩
  exfalso
  simp only [lookupFrames] at hl
  cases hf : List.lookup p inScope with
  | none => simp [hf] at hl
  | some m =>
    simp only [hf, Option.some.injEq] at hl
    subst hl
    have hmem : (p, m) ∈ inScope := by
      clear h hns
      induction inScope with
      | nil => simp at hf
      | cons x rest ih =>
        obtain ⟨q, k⟩ := x
        by_cases hq : (p == q) = true
        · simp only [List.lookup, hq, Option.some.injEq] at hf
          have : p = q := by simpa using hq
          subst this; subst hf; simp
        · simp only [List.lookup, hq] at hf
          exact List.mem_cons_of_mem _ (ih hf)
    exact hns (h _ hmem)

/-- Every name token of a successful run resolves, by the rules of XML Namespaces applied to the
    token texts, to the expanded name of its node. -/
theorem tokens_resolve (esc : Escapers) (env : Env) (pr : TokenParams) (t : Tree) (unesc : Str → Str)
    (h : EnvStrings env) (hue : ∀ u, unesc (esc.attr u) = u) (start : Path) (n : Tree)
    (inScope : List (Nat × Nat)) (hat : t.at? start = some n)
    (hs : namespacesInScope t start = some inScope) (hu : UniqueBelow n) (hdk : DeclsOkBelow env n)
    (hin : DeclsOk env inScope) (hstart : n.value.isElement = true ∨ OnlyXmlInScope inScope)
    (toks : List Tok)
    (hr : renderAllWith esc env pr t (initStack t start) (genOutputs t start) = .ok toks) :
    resolveGo unesc [] none (view toks) = expectedGo env none (evs toks) := by
  have hg : genOutputs t start = genNode inScope true start n := by simp [genOutputs, hat, hs]
  have hi : initStack t start = FStack.new inScope := by simp [initStack, hs]
  rw [hg, hi] at hr
  have hinv : StackInv (FStack.new inScope) [inScope] := StackInv.base inScope (namespacesInScope_unique t start inScope hs)
  have hok : FramesOk env [inScope] := by
    intro f hf
    simp only [List.mem_singleton] at hf
    subst hf; exact hin
  obtain ⟨out, o1, o2⟩ := genNode_seg esc env pr t unesc h hue inScope true start n hat hu hdk _ _ hinv hok []
    (fun _ hel => by
      have hD : DeclsOk env n.nsDecls := by
        have := hdk [] n rfl
        cases n with
        | node v ks =>
          cases v <;> simp [Tree.value, Value.isElement] at hel
          simpa [frameOf, Tree.value] using this
      exact corr_top h hin hD)
    (fun hne => by
      rcases hne with hne | hne
      · cases hne
      · rcases hstart with hel | hx
        · rw [hel] at hne; cases hne
        · exact corr_onlyXml hx)
    toks hr
  have a := o1 []
  have b := o2 []
  simp only [List.append_nil, resolveGo, expectedGo] at a b
  rw [a, b]

end XotModel.SerResolve
