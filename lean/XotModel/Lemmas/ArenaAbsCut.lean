/-
  XotModel.Lemmas.ArenaAbsCut — `Forest.cut` / `Forest.detachRaw` of the forest model are indextree's
  `detach` read through the abstraction: refinement theorem for `detach`.
-/
import XotModel.Lemmas.ArenaAbs

namespace XotModel
namespace Arena

theorem Shape.detach_of_root (g : Shape) (i : Nat) (h : g.par i = none) : g.detach i = g := by
  unfold Shape.detach; rw [h]

theorem Shape.detach_kids_ne (g : Shape) (i p q : Nat) (h : g.par i = some p) (hq : q ≠ p) :
    (g.detach i).kids q = g.kids q := by
  unfold Shape.detach; rw [h]; simp [hq]

/-- Liveness is inherited upwards along parent paths. -/
theorem Rep.live_of_reach {a : Arena} {g : Shape} (r : Rep a g) {x y : Nat} (h : Reach g.par x y) (hx : Live a x) :
    Live a y := by
  induction h with
  | refl => exact hx
  | step hp _ ih => exact ih (r.live_of_par hp).2

/-- The forest model's `cut` on the abstraction of a well-formed arena. -/
theorem Abs.cut {a : Arena} {g : Shape} {w : View} {rs : List Nat} {f : Forest} (h : Abs a g w rs f) (i : Nat)
    (hi : Live a i) :
    ∃ ti f1, f.cut (w.rho i) = (f1, some ti) ∧ IsTree g w i ti ∧ IsTree (g.detach i) w i ti ∧
      IsTrees (g.detach i) w (rs.filter (· ≠ i)) f1.roots ∧ f1.next = f.next ∧ f1.corrupt = f.corrupt := by
  obtain ⟨ti, hti, hget⟩ := h.get?_live i hi
  cases hpar : g.par i with
  | none =>
    have hroot : f.isRoot (w.rho i) = true := (h.isRoot_iff i hi).mpr ((h.rsMem i).mpr ⟨hi, hpar⟩)
    refine ⟨ti, { f with roots := f.roots.filter (fun r => r.handle != w.rho i) }, ?_, hti, ?_, ?_, rfl, rfl⟩
    · unfold Forest.cut; rw [hget]; simp only [hroot, if_true]
    · rw [Shape.detach_of_root g i hpar]; exact hti
    · rw [Shape.detach_of_root g i hpar]
      exact IsTrees.filter_ne h.ctx i hi h.trees h.rsLive
  | some p =>
    have hnr : f.isRoot (w.rho i) = false := by
      cases hr : f.isRoot (w.rho i) with
      | false => rfl
      | true =>
        have := ((h.rsMem i).mp ((h.isRoot_iff i hi).mp hr)).2
        rw [hpar] at this; cases this
    obtain ⟨L, R, hk⟩ := List.append_of_mem (h.ctx.rep.parKids i p hpar).2
    have ra : ReplaceAt a g (g.detach i) w i p L R [] (fun _ => []) := by
      refine ⟨hi, hpar, hk, ?_, fun _ _ => .nil, fun q _ hq _ => Shape.detach_kids_ne g i p q hpar hq⟩
      rw [Shape.detach_kids_par g i p L R hpar hk (h.ctx.rep.kidsNodup p)]; simp
    have hrs : ∀ k ∈ rs, Live a k ∧ ¬ Reach g.par k i := by
      intro k hk'
      refine ⟨h.rsLive k hk', fun hr => ?_⟩
      have hkn := ((h.rsMem k).mp hk').2
      cases hr with
      | refl => rw [hpar] at hkn; cases hkn
      | step hp _ => rw [hkn] at hp; cases hp
    have hfilter : rs.filter (· ≠ i) = rs := by
      apply List.filter_eq_self.mpr
      intro k hk'
      simp only [ne_eq, decide_eq_true_eq]
      intro e; subst e
      have := ((h.rsMem k).mp hk').2
      rw [hpar] at this; cases this
    refine ⟨ti, { f with roots := f.roots.map (HTree.replaceBelow (w.rho i) (fun _ => [])) }, ?_, hti, ?_, ?_, rfl, rfl⟩
    · unfold Forest.cut; rw [hget]; simp only [hnr, Bool.false_eq_true, if_false]
    · refine IsTree.congr (fun q => Reach g.par q i) ?_ hti (.refl _)
      intro q hq
      have hqp : q ≠ p := fun e => h.ctx.rep.acyclic i p hpar (e ▸ hq)
      exact ⟨Shape.detach_kids_ne g i p q hpar hqp, rfl, rfl, fun k hk' =>
        .step (h.ctx.rep.kidsLive q k hk').2.2 hq⟩
    · rw [hfilter]
      exact IsTrees.replaceBelowList h.ctx ra h.trees hrs

/-- Refinement, `detach`: the arena call is the forest model's `detachRaw`. -/
theorem Abs.detach {a : Arena} {g : Shape} {w : View} {rs : List Nat} {f : Forest} (h : Abs a g w rs f)
    (x : NodeId) (hx : LiveId a x) :
    ∃ a', Arena.detach a x = .done a' () ∧
      Abs a' (g.detach x.index0) w (rs.filter (· ≠ x.index0) ++ [x.index0]) (f.detachRaw (w.rho x.index0)) := by
  obtain ⟨a', hd, r', hM⟩ := h.ctx.rep.detach x hx
  refine ⟨a', hd, ?_⟩
  have hi0 : Live a x.index0 := hx.2.1
  generalize x.index0 = i at *
  have hi : Live a i := hi0
  obtain ⟨ti, f1, hcut, _, hti', htrees, hnext, hcorrupt⟩ := h.cut i hi
  have hdr : f.detachRaw (w.rho i) = f1.addRoot ti := by
    unfold Forest.detachRaw; rw [hcut]
  rw [hdr]
  refine ⟨⟨r', fun u v hu hv => h.ctx.inj u v ((hM.live u).mp hu) ((hM.live v).mp hv)⟩, ?_, ?_, ?_, ?_, ?_, ?_⟩
  · exact IsTrees.append htrees (.cons hti' .nil)
  · refine List.nodup_append.mpr ⟨h.rsNodup.filter _, by simp, fun y hy z hz e => ?_⟩
    simp at hz; subst hz; subst e
    simp at hy
  · intro j
    simp only [List.mem_append, List.mem_filter, List.mem_singleton, ne_eq, decide_eq_true_eq]
    rw [hM.live j]
    by_cases hji : j = i
    · subst hji
      simp [Shape.detach_par_self, hi]
    · rw [Shape.detach_par_ne g i j hji, h.rsMem j]
      simp [hji]
  · intro u hu
    show w.rho u < f1.next
    rw [hnext]; exact h.below u ((hM.live u).mp hu)
  · intro j s v hs hd'
    obtain ⟨s0, hs0, _, hdata⟩ := hM.slot_some' hs
    exact h.vals j s0 v hs0 (by rw [← hdata]; exact hd')
  · show f1.corrupt = false
    rw [hcorrupt]; exact h.clean

end Arena
end XotModel
