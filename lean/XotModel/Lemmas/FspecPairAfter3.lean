/-
  FspecPairAfter3 — C05 for `insert_after`, PAIR reading, part 3: the moved node is a sibling of
  the reference node (`geo_same`: all edits at one site; the reference may be the text node that
  the old-place consolidation consumes, the model then continues with the surviving node), and
  the theorem for every forest with `Forest.Inv`: `insertAfter_pair`.
-/
import XotModel.Lemmas.FspecPairAfter2

namespace XotModel
open HTree Spec

namespace PairAfter

/-! ### The child list after the model's steps and after the specification's steps -/

theorem mem_insertAfterTop {r : Nat} {t x : HTree} : ∀ L : List HTree,
    x ∈ insertAfterTop r t L → x = t ∨ x ∈ L
  | [] => by intro h; cases h
  | k :: ks => by
    unfold insertAfterTop
    rw [replaceTop_cons]
    by_cases hk : k.handle = r
    · rw [if_pos hk]
      intro h
      simp only [List.cons_append, List.nil_append, List.mem_cons] at h
      rcases h with h | h | h
      · exact Or.inr (by simp [h])
      · exact Or.inl h
      · exact Or.inr (by simp [h])
    · rw [if_neg hk]
      intro h
      cases List.mem_cons.1 h with
      | inl e => exact Or.inr (by simp [e])
      | inr e =>
        cases mem_insertAfterTop ks e with
        | inl e' => exact Or.inl e'
        | inr e' => exact Or.inr (List.mem_cons_of_mem _ e')

theorem mem_mid {X Y : List HTree} {z k : HTree} (h : k ∈ X ++ Y) : k ∈ X ++ z :: Y := by
  cases List.mem_append.1 h with
  | inl h => exact List.mem_append_left _ h
  | inr h => exact List.mem_append_right _ (List.mem_cons_of_mem _ h)

/-- The consumed text node `b` is the reference: the model inserts after the survivor. -/
theorem list_ref_consumed {l' r' : List HTree} {a t b : HTree} {x y : Str}
    (nd : (handlesList ((l' ++ [a]) ++ t :: b :: r')).Nodup)
    (hx : a.value = .text x) (hy : b.value = .text y) :
    insertAfterTop a.handle t (dropTop t.handle ((l' ++ [a.setValue (.text (x ++ y))]) ++ t :: r')) =
      mergeAdj a.handle b.handle
        (insertAfterTop b.handle t (dropTop t.handle ((l' ++ [a]) ++ t :: b :: r'))) := by
  obtain ⟨tl, tr⟩ := tops_ne_of_nodup nd
  have e1 : (l' ++ [a]) ++ t :: b :: r' = l' ++ a :: (t :: b :: r') := by simp
  have e2 : (l' ++ [a]) ++ t :: b :: r' = (l' ++ [a] ++ [t]) ++ b :: r' := by simp
  obtain ⟨ta, _⟩ := tops_ne_of_nodup (e1 ▸ nd)
  obtain ⟨tb, _⟩ := tops_ne_of_nodup (e2 ▸ nd)
  have hak : a.handle ≠ t.handle := tl a (by simp)
  have tl1 : ∀ k ∈ l' ++ [a.setValue (.text (x ++ y))], k.handle ≠ t.handle := by
    intro k hk
    cases List.mem_append.1 hk with
    | inl h => exact tl k (List.mem_append_left _ h)
    | inr h =>
      have : k = a.setValue (.text (x ++ y)) := by simpa using h
      rw [this, setValue_handle]; exact hak
  have hL : insertAfterTop a.handle t (dropTop t.handle ((l' ++ [a.setValue (.text (x ++ y))]) ++ t :: r')) =
      l' ++ a.setValue (.text (x ++ y)) :: t :: r' := by
    rw [dropTop_mid rfl tl1 (fun k hk => tr k (List.mem_cons_of_mem _ hk))]
    have e3 : (l' ++ [a.setValue (.text (x ++ y))]) ++ r' = l' ++ a.setValue (.text (x ++ y)) :: r' := by simp
    have := insertAfterTop_mid (A := l') (w := a.setValue (.text (x ++ y))) (B := r') t (by
      rw [setValue_handle]; exact ta)
    rw [setValue_handle] at this
    rw [e3, this]
  rw [hL, dropTop_mid rfl tl tr,
    insertAfterTop_mid (A := l' ++ [a]) (w := b) (B := r') t (fun k hk => tb k (List.mem_append_left _ hk))]
  have e4 : (l' ++ [a]) ++ b :: t :: r' = l' ++ a :: b :: (t :: r') := by simp
  rw [e4, mergeAdj_mid_text hx hy (t :: r') ta]

/-- The reference stands before the merged pair. -/
theorem list_ref_before {P Q r' : List HTree} {kr a t b : HTree} {x y : Str}
    (nd : (handlesList (((P ++ kr :: Q) ++ [a]) ++ t :: b :: r')).Nodup)
    (hx : a.value = .text x) (hy : b.value = .text y) :
    insertAfterTop kr.handle t
        (dropTop t.handle (((P ++ kr :: Q) ++ [a.setValue (.text (x ++ y))]) ++ t :: r')) =
      mergeAdj a.handle b.handle
        (insertAfterTop kr.handle t (dropTop t.handle (((P ++ kr :: Q) ++ [a]) ++ t :: b :: r'))) := by
  obtain ⟨tl, tr⟩ := tops_ne_of_nodup nd
  have e1 : ((P ++ kr :: Q) ++ [a]) ++ t :: b :: r' = (P ++ kr :: Q) ++ a :: (t :: b :: r') := by simp
  have e2 : ((P ++ kr :: Q) ++ [a]) ++ t :: b :: r' = P ++ kr :: (Q ++ a :: t :: b :: r') := by simp
  obtain ⟨ta, ta2⟩ := tops_ne_of_nodup (e1 ▸ nd)
  obtain ⟨tk, _⟩ := tops_ne_of_nodup (e2 ▸ nd)
  have hak : a.handle ≠ t.handle := tl a (by simp)
  have tl1 : ∀ k ∈ (P ++ kr :: Q) ++ [a.setValue (.text (x ++ y))], k.handle ≠ t.handle := by
    intro k hk
    cases List.mem_append.1 hk with
    | inl h => exact tl k (List.mem_append_left _ h)
    | inr h =>
      have : k = a.setValue (.text (x ++ y)) := by simpa using h
      rw [this, setValue_handle]; exact hak
  rw [dropTop_mid rfl tl1 (fun k hk => tr k (List.mem_cons_of_mem _ hk)), dropTop_mid rfl tl tr]
  have e3 : ((P ++ kr :: Q) ++ [a.setValue (.text (x ++ y))]) ++ r' =
      P ++ kr :: (Q ++ a.setValue (.text (x ++ y)) :: r') := by simp
  have e4 : ((P ++ kr :: Q) ++ [a]) ++ b :: r' = P ++ kr :: (Q ++ a :: b :: r') := by simp
  rw [e3, e4, insertAfterTop_mid t tk, insertAfterTop_mid t tk]
  have e5 : P ++ kr :: t :: (Q ++ a :: b :: r') = (P ++ kr :: t :: Q) ++ a :: b :: r' := by simp
  rw [e5, mergeAdj_mid_text hx hy r' (by
    intro k hk
    have hk' : k ∈ P ++ kr :: Q ∨ k = t := by
      rcases List.mem_append.1 hk with h | h
      · exact Or.inl (List.mem_append_left _ h)
      · rcases List.mem_cons.1 h with h | h
        · exact Or.inl (by rw [h]; simp)
        · rcases List.mem_cons.1 h with h | h
          · exact Or.inr h
          · exact Or.inl (by simp [h])
    cases hk' with
    | inl h => exact ta k h
    | inr h => rw [h]; exact ta2 t (by simp))]
  simp

/-- The reference stands behind the merged pair. -/
theorem list_ref_behind {l' P Q : List HTree} {kr a t b : HTree} {x y : Str}
    (nd : (handlesList ((l' ++ [a]) ++ t :: b :: (P ++ kr :: Q))).Nodup)
    (hx : a.value = .text x) (hy : b.value = .text y) :
    insertAfterTop kr.handle t
        (dropTop t.handle ((l' ++ [a.setValue (.text (x ++ y))]) ++ t :: (P ++ kr :: Q))) =
      mergeAdj a.handle b.handle
        (insertAfterTop kr.handle t (dropTop t.handle ((l' ++ [a]) ++ t :: b :: (P ++ kr :: Q)))) := by
  obtain ⟨tl, tr⟩ := tops_ne_of_nodup nd
  have e1 : (l' ++ [a]) ++ t :: b :: (P ++ kr :: Q) = l' ++ a :: (t :: b :: (P ++ kr :: Q)) := by simp
  have e2 : (l' ++ [a]) ++ t :: b :: (P ++ kr :: Q) = (l' ++ a :: t :: b :: P) ++ kr :: Q := by simp
  obtain ⟨ta, _⟩ := tops_ne_of_nodup (e1 ▸ nd)
  obtain ⟨tk, _⟩ := tops_ne_of_nodup (e2 ▸ nd)
  have hak : a.handle ≠ t.handle := tl a (by simp)
  have tl1 : ∀ k ∈ l' ++ [a.setValue (.text (x ++ y))], k.handle ≠ t.handle := by
    intro k hk
    cases List.mem_append.1 hk with
    | inl h => exact tl k (List.mem_append_left _ h)
    | inr h =>
      have : k = a.setValue (.text (x ++ y)) := by simpa using h
      rw [this, setValue_handle]; exact hak
  rw [dropTop_mid rfl tl1 (fun k hk => tr k (List.mem_cons_of_mem _ hk)), dropTop_mid rfl tl tr]
  have e3 : (l' ++ [a.setValue (.text (x ++ y))]) ++ (P ++ kr :: Q) =
      (l' ++ a.setValue (.text (x ++ y)) :: P) ++ kr :: Q := by simp
  have e4 : (l' ++ [a]) ++ b :: (P ++ kr :: Q) = (l' ++ a :: b :: P) ++ kr :: Q := by simp
  rw [e3, e4, insertAfterTop_mid t (by
      intro k hk
      have hk' : k ∈ l' ∨ k = a.setValue (.text (x ++ y)) ∨ k ∈ P := by
        rcases List.mem_append.1 hk with h | h
        · exact Or.inl h
        · rcases List.mem_cons.1 h with h | h
          · exact Or.inr (Or.inl h)
          · exact Or.inr (Or.inr h)
      rcases hk' with h | h | h
      · exact tk k (by simp [h])
      · rw [h, setValue_handle]; exact tk a (by simp)
      · exact tk k (by simp [h])),
    insertAfterTop_mid t (fun k hk => tk k (by
      have := mem_mid (X := l' ++ [a]) (Y := b :: P) (z := t) (by simpa using hk)
      simpa using this))]
  have e5 : (l' ++ a :: b :: P) ++ kr :: t :: Q = l' ++ a :: b :: (P ++ kr :: t :: Q) := by simp
  rw [e5, mergeAdj_mid_text hx hy _ ta]
  simp

/-! ### The moved node is a sibling of the reference node -/

/-- Nothing to merge at the old place (the same parent). -/
theorem mergeLeft_noop_same {f : Forest} {q : Nat} {vq : Value} {l : List HTree} {t : HTree} {r : List HTree}
    {I : List HTree → List HTree} (so : SiteAt f q vq (l ++ t :: r))
    (hmem : ∀ x ∈ I (l ++ r), x ∈ l ++ t :: r)
    (hseam : f.consolidation = true → ∀ a b, l.getLast? = some a → r.head? = some b →
      ¬ (a.value.isText = true ∧ b.value.isText = true)) :
    ((f.editAt (some q) (dropTop t.handle)).editAt (some q) I).mergeLeftAt (some q)
        (l.getLast?.map (·.handle), r.head?.map (·.handle)) =
      (f.editAt (some q) (dropTop t.handle)).editAt (some q) I := by
  obtain ⟨ndL, _⟩ := so.nodupKids
  obtain ⟨tl, tr⟩ := tops_ne_of_nodup ndL
  have hdrop : dropTop t.handle (l ++ t :: r) = l ++ r := dropTop_mid rfl tl tr
  cases hl : l.getLast? with
  | none => exact Forest.mergeLeftAt_none_left _ _ _
  | some a =>
    cases hr : r.head? with
    | none => exact Forest.mergeLeftAt_none_right _ _ _
    | some b =>
      simp only [Option.map_some]
      rw [Forest.mergeLeftAt_some]
      rcases Bool.eq_false_or_eq_true f.consolidation with hc | hc
      · have hc' : ((f.editAt (some q) (dropTop t.handle)).editAt (some q) I).consolidation = true := by
          rw [Forest.editAt_consolidation, Forest.editAt_consolidation]; exact hc
        rw [hc', if_pos rfl, Forest.editAt_editAt, Forest.editAt_editAt, Forest.editAt_editAt]
        apply so.congr
        simp only [Function.comp]
        rw [hdrop]
        obtain ⟨l', el⟩ := List.getLast?_eq_some_iff.1 hl
        obtain ⟨r', er⟩ := List.head?_eq_some_iff.1 hr
        have haL : a ∈ l ++ t :: r := by rw [el]; simp
        have hbL : b ∈ l ++ t :: r := by rw [er]; simp
        apply mergeAdj_noop
        intro x hx y hy ex ey
        rw [eq_of_handle ndL (hmem x hx) haL ex, eq_of_handle ndL (hmem y hy) hbL ey]
        exact hseam hc a b hl hr
      · have hc' : ((f.editAt (some q) (dropTop t.handle)).editAt (some q) I).consolidation = false := by
          rw [Forest.editAt_consolidation, Forest.editAt_consolidation]; exact hc
        rw [hc']; rfl

theorem geo_same {f : Forest} {q : Nat} {vq : Value} {l : List HTree} {t : HTree} {r A : List HTree}
    {kr : HTree} {B : List HTree} (inv : f.Inv)
    (so : SiteAt f q vq (l ++ t :: r)) (hAB : A ++ kr :: B = l ++ t :: r)
    (hrc : kr.handle ≠ t.handle) (hkrn : kr.value.isNormal = true) (hnt : t.value.isNormal = true)
    (hsame : ¬ nextOf B kr = some t.handle) :
    (afterChecks f kr.handle t.handle).1 =
      (((f.editAt (some q) (dropTop t.handle)).editAt (some q) (insertAfterTop kr.handle t)).mergeLeftAt
        (some q) (f.nbOf t.handle)).mergeNewAt q t.handle := by
  have sq : SiteAt f q vq (A ++ kr :: B) := hAB ▸ so
  obtain ⟨ndL, hqL⟩ := so.nodupKids
  obtain ⟨tl, tr⟩ := tops_ne_of_nodup ndL
  have hleafo := so.leaf inv.valid
  have hleaft : t.value.isText = true → t.kids = [] := hleafo t (by simp)
  have hord := (validTree_node (so.valid inv.valid)).2.1
  have hkt : kr ≠ t := fun e => hrc (by rw [e])
  have hkrL : kr ∈ l ++ t :: r := by rw [← hAB]; simp
  have hkrLR : kr ∈ l ++ r := by
    cases List.mem_append.1 hkrL with
    | inl h => exact List.mem_append_left _ h
    | inr h =>
      cases List.mem_cons.1 h with
      | inl h' => exact absurd h' hkt
      | inr h' => exact List.mem_append_right _ h'
  -- the reference does not stand directly before the moved node
  have hnotadj : ∀ A', l = A' ++ [kr] → False := by
    intro A' e
    have s1 : SiteAt f q vq (A' ++ kr :: (t :: r)) := by
      have : A' ++ kr :: (t :: r) = l ++ t :: r := by rw [e]; simp
      rw [this]; exact so
    have h1 := s1.ctx
    rw [sq.ctx] at h1
    injection (Option.some.inj h1) with _ _ _ eB
    apply hsame
    rw [eB]
    exact nextOf_cons_normal hkrn hnt
  have hold := oldSite (k := t) (show SiteAt f q vq (l ++ ([t] ++ r)) from so)
    (fun k hk => hleafo k (List.mem_append_right _ (List.mem_cons_of_mem _ hk))) (hcat_of_ordered hord)
  unfold afterChecks
  rw [Forest.prevSibling_of_ctx so.ctx, Forest.nextSibling_of_ctx so.ctx]
  simp only
  rw [SiteAt.nbOf so]
  rcases hold with ⟨h1, h2⟩ | ⟨hc, l', a, b, r', x, y, el, er, hx, hy, hp, hn, h3⟩
  · rw [h1]
    simp only [Bool.false_and, Bool.false_eq_true, if_false]
    obtain ⟨A2, B2, hsplit⟩ := List.append_of_mem hkrLR
    rw [tail_same so hsplit hkrn hleaft (fun A' e => (hnotadj A' e).elim),
      mergeLeft_noop_same so (fun x hx => by
        cases mem_insertAfterTop _ hx with
        | inl e => rw [e]; simp
        | inr e => exact mem_mid e) h2]
  · subst el er
    rw [h3, hp, hn]
    simp only [Bool.true_and, Option.getD_some]
    have hgX : (fun (_ : List HTree) => l' ++ a.setValue (.text (x ++ y)) :: ([t] ++ r')) =
        fun _ => (l' ++ [a.setValue (.text (x ++ y))]) ++ t :: r' := by
      funext _; simp
    rw [hgX]
    have hsubX : (handlesList ((l' ++ [a.setValue (.text (x ++ y))]) ++ t :: r')).Sublist
        (handlesList ((l' ++ [a]) ++ t :: b :: r')) := by
      simp only [fs_handlesList_append, handlesList_cons, setValue_handles, handlesList_nil, List.append_nil,
        List.append_assoc]
      refine (List.Sublist.refl _).append ((List.Sublist.refl _).append ((List.Sublist.refl _).append ?_))
      exact List.sublist_append_right _ _
    have sX := so.edit (fun _ => (l' ++ [a.setValue (.text (x ++ y))]) ++ t :: r') hsubX
    have hat' : (a.setValue (.text (x ++ y))).value.isText = true := by rw [setValue_value]; rfl
    have hc' : ((f.editAt (some q) (dropTop t.handle)).editAt (some q) (insertAfterTop kr.handle t)).consolidation
        = true := by
      rw [Forest.editAt_consolidation, Forest.editAt_consolidation]; exact hc
    simp only [List.getLast?_concat, List.head?_cons, Option.map_some]
    rw [Forest.mergeLeftAt_some, hc', if_pos rfl]
    have hkra : kr ≠ a := by
      intro e
      exact hnotadj l' (by rw [e])
    by_cases hb : b.handle = kr.handle
    · -- the reference is the consumed text node
      have ekr : kr = b := (eq_of_handle ndL (by simp) hkrL hb).symm
      subst ekr
      simp only [beq_self_eq_true, if_true]
      have h := tail_same sX (A := l') (w := a.setValue (.text (x ++ y))) (B := r') (by simp)
        (text_normal hat') hleaft (fun _ _ => hat')
      rw [setValue_handle] at h
      rw [h, Forest.editAt_editAt, Forest.editAt_editAt, Forest.editAt_editAt, Forest.editAt_editAt]
      congr 1
      apply so.congr
      simp only [Function.comp]
      exact list_ref_consumed ndL hx hy
    · have hb' : (some b.handle == some kr.handle) = false := by simpa using hb
      simp only [hb', Bool.false_eq_true, if_false]
      have hkrb : kr ≠ b := fun e => hb (by rw [e])
      -- the reference is in `l'` or in `r'`
      have hwhere : kr ∈ l' ∨ kr ∈ r' := by
        rcases List.mem_append.1 hkrLR with h | h
        · rcases List.mem_append.1 h with h | h
          · exact Or.inl h
          · exact absurd (by simpa using h) hkra
        · rcases List.mem_cons.1 h with h | h
          · exact absurd h hkrb
          · exact Or.inr h
      have hadj' : ∀ A', l' ++ [a.setValue (.text (x ++ y))] = A' ++ [kr] → kr.value.isText = true := by
        intro A' e
        have := (List.append_inj' e rfl).2
        have : a.setValue (.text (x ++ y)) = kr := by simpa using this
        rw [← this]; exact hat'
      rcases hwhere with h | h
      · obtain ⟨P, Q, e⟩ := List.append_of_mem h
        subst e
        have h := tail_same sX (A := P) (w := kr) (B := Q ++ a.setValue (.text (x ++ y)) :: r') (by simp)
          hkrn hleaft hadj'
        rw [h, Forest.editAt_editAt, Forest.editAt_editAt, Forest.editAt_editAt, Forest.editAt_editAt]
        congr 1
        apply so.congr
        simp only [Function.comp]
        exact list_ref_before ndL hx hy
      · obtain ⟨P, Q, e⟩ := List.append_of_mem h
        subst e
        have h := tail_same sX (A := l' ++ a.setValue (.text (x ++ y)) :: P) (w := kr) (B := Q) (by simp)
          hkrn hleaft hadj'
        rw [h, Forest.editAt_editAt, Forest.editAt_editAt, Forest.editAt_editAt, Forest.editAt_editAt]
        congr 1
        apply so.congr
        simp only [Function.comp]
        exact list_ref_behind ndL hx hy

end PairAfter

/-- **insert_after**, pair reading: for EVERY forest satisfying the invariant (adjacent text nodes
    allowed), a successful `insert_after(r, c)` yields exactly the specification's move of `c` to
    the place after `r` — handle for handle; all geometries (parentless `c`, `c` a child of
    another node, `c` a sibling of `r` before or after it, `r` consumed by the old-place merge). -/
theorem insertAfter_pair {f : Forest} {r c : Nat} (inv : f.Inv) (hok : (f.insertAfter r c).2 = .ok) :
    (f.insertAfter r c).1 = specMoveP (.after r) c f := by
  have nd := inv.nodup
  have hsc : f.structureCheck (f.parent? r) c = true := by
    cases h : f.structureCheck (f.parent? r) c with
    | true => rfl
    | false => rw [insertAfter_unfold] at hok; simp [h] at hok
  have hsr : f.siblingReferenceCheck r c = true := by
    cases h : f.siblingReferenceCheck r c with
    | true => rfl
    | false => rw [insertAfter_unfold] at hok; simp [hsc, h] at hok
  obtain ⟨q, vq, A, kr, B, t, sq, ekr, hkrn, hrc, hgc, hqt, hnorm, hndoc, hvq⟩ := sibling_checks_unpack nd hsc hsr
  subst ekr
  have htc : t.handle = c := (findList?_some f.roots t hgc).1
  subst htc
  have hnext : f.nextSibling kr.handle = nextOf B kr := Forest.nextSibling_of_ctx sq.ctx
  have hparref : f.parent? kr.handle = some q := Forest.parent?_of_ctx sq.ctx
  have hoccIff := occupied_after sq hgc hnorm hkrn
  by_cases hsame : nextOf B kr = some t.handle
  · have hocc := hoccIff.2 hsame
    rw [insertAfter_unfold]
    unfold specMoveP
    simp [hsc, hsr, hnext, hsame, hocc]
  · have hocc : Dest.occupiedBy f t.handle (.after kr.handle) = false := by
      cases h : Dest.occupiedBy f t.handle (.after kr.handle) with
      | false => rfl
      | true => exact absurd (hoccIff.1 h) hsame
    have hsite : Dest.site f (.after kr.handle) = some q := by simp only [Dest.site]; exact hparref
    rw [PairAfter.insertAfter_eq_afterChecks hsc hsr (by rw [hnext]; exact hsame),
      specMoveP_unfold hocc hgc hsite]
    simp only [Dest.insert]
    rcases Forest.root_or_ctx hgc with hroot | ⟨cx, hctx⟩
    · exact PairAfter.geo_root inv sq hgc (Forest.ctx_none_of_root nd hroot) hqt hkrn
    · obtain ⟨e0, vo, so⟩ := SiteAt.of_ctx nd hctx
      have hself : cx.self = t := by
        have := Forest.get?_of_ctx nd hctx
        rw [hgc] at this
        exact (Option.some.inj this).symm
      obtain ⟨po, l, k, r⟩ := cx
      simp only at e0 so hself
      subst hself
      rw [Forest.parent?_of_ctx hctx]
      simp only
      by_cases hpo : po = q
      · subst hpo
        have hlists : vo = vq ∧ A ++ kr :: B = l ++ k :: r := by
          have := so.kids
          rw [sq.kids] at this
          have := Option.some.inj this
          injection this with _ e2 e3
          exact ⟨e2.symm, e3⟩
        obtain ⟨ev, hAB⟩ := hlists
        subst ev
        exact PairAfter.geo_same inv so hAB hrc hkrn hnorm hsame
      · exact PairAfter.geo_kid inv so sq hpo hqt hkrn hvq

/-! ### Non-vacuity: forests WITH adjacent text nodes (consolidation on again after it was off) -/

/-- `<e>a b c <x>d e</x> f g</e>`, the parentless text `h`, `<y>i</y>`: text nodes `1 2 3`, `5 6`,
    `7 8` are adjacent. -/
def pairAfterEx : Forest :=
  { roots := [.node 0 (.element 2) [.node 1 (.text ['a']) [], .node 2 (.text ['b']) [], .node 3 (.text ['c']) [],
                .node 4 (.element 6) [.node 5 (.text ['d']) [], .node 6 (.text ['e']) []],
                .node 7 (.text ['f']) [], .node 8 (.text ['g']) []],
              .node 9 (.text ['h']) [], .node 10 (.element 3) [.node 11 (.text ['i']) []]],
    next := 12, consolidation := true, everOff := true }

/-- The hypotheses hold: `insert_after(3, 2)` on `a b c` (all text; `a` and `c` are merged around
    `b`, the reference `c` is consumed, `b` is merged into the survivor `a`). -/
example : (pairAfterEx.insertAfter 3 2).1 = specMoveP (.after 3) 2 pairAfterEx :=
  insertAfter_pair ((Forest.inv_iff _).1 (by decide)) (by decide)

example :
    pairAfterEx.inv = true ∧
    -- `b` between `a` and `c`, moved behind `c`: one node `a` with `a c b`
    pairAfterEx.insertAfter 3 2 = (specMoveP (.after 3) 2 pairAfterEx, .ok) ∧
    (pairAfterEx.insertAfter 3 2).1.get? 1 = some (.node 1 (.text ['a', 'c', 'b']) []) ∧
    (pairAfterEx.insertAfter 3 2).1.isLive 3 = false ∧ (pairAfterEx.insertAfter 3 2).1.isLive 2 = false ∧
    -- the parentless text `h` behind `a`: merged into `a` only, `b` stays
    (pairAfterEx.insertAfter 1 9).1 = specMoveP (.after 1) 9 pairAfterEx ∧
    (pairAfterEx.insertAfter 1 9).1.get? 1 = some (.node 1 (.text ['a', 'h']) []) ∧
    (pairAfterEx.insertAfter 1 9).1.isLive 2 = true ∧
    -- `d` (child of `x`) behind the element `x`: merged into the following `f`, which survives
    (pairAfterEx.insertAfter 4 5).1 = specMoveP (.after 4) 5 pairAfterEx ∧
    (pairAfterEx.insertAfter 4 5).1.get? 7 = some (.node 7 (.text ['d', 'f']) []) ∧
    -- the element `x` between `c` and `f`, moved behind `g`: `c f` merged, `g` stays
    (pairAfterEx.insertAfter 8 4).1 = specMoveP (.after 8) 4 pairAfterEx ∧
    (pairAfterEx.insertAfter 8 4).1.get? 3 = some (.node 3 (.text ['c', 'f']) []) ∧
    (pairAfterEx.insertAfter 8 4).1.isLive 8 = true := by
  decide

end XotModel
