/-
  FspecMapUpd2 — the frame of the attribute / namespace map updates (C05): the specifications
  `specMapInsert` / `specMapRemove` are ONE edit of ONE child list, so

  * every parentless tree that does not hold the element is the tree it was;
  * every live node `x` other than the element and the entry touched keeps handle, value and the
    handles of its children, and its whole subtree if the element is not inside it;
  * every node under another parent keeps parent, value and the handles of its left and right
    siblings (`Ctx.shape`); parentless trees stay parentless.

  By `mapInsert_spec` / `mapRemove_spec` (FspecMapUpd) the same holds of the model's calls.
-/
import XotModel.Lemmas.FspecMapUpd
import XotModel.Lemmas.FmapInv

namespace XotModel
open HTree Spec
open Forest (MapKind entryKey entryUpdate)

/-! ### Lookups through the three list functions -/

theorem findList?_updateEntry {k : MapKind} {entry : Value} {x : Nat} : ∀ L : List HTree,
    (∀ c ∈ L, isEntry k (entryKey entry) c = true → c.handle ≠ x) →
    findList? x (updateEntry k entry L) = findList? x L
  | [] => fun _ => rfl
  | c :: cs => by
    intro h
    rw [updateEntry_cons]
    split
    · rename_i hc
      rw [findList?_cons, findList?_cons, find?_setValue _ (h c List.mem_cons_self hc)]
    · rw [findList?_cons, findList?_cons,
        findList?_updateEntry cs (fun c' hc' => h c' (List.mem_cons_of_mem _ hc'))]

theorem findList?_insertEntry {k : MapKind} {t : HTree} {x : Nat} (ht : find? x t = none) : ∀ L : List HTree,
    findList? x (insertEntry k t L) = findList? x L
  | [] => by rw [insertEntry_nil, findList?_cons, ht]; rfl
  | c :: cs => by
    rw [insertEntry_cons]
    split
    · rw [findList?_cons, findList?_cons, findList?_insertEntry ht cs]
    · rw [findList?_cons, ht]; rfl

theorem findList?_removeEntry {k : MapKind} {key : Nat} {x : Nat} : ∀ L : List HTree,
    (∀ c ∈ L, isEntry k key c = true → x ∉ handles c) →
    findList? x (removeEntry k key L) = findList? x L
  | [] => fun _ => rfl
  | c :: cs => by
    intro h
    have ih := findList?_removeEntry cs (fun c' hc' => h c' (List.mem_cons_of_mem _ hc'))
    unfold removeEntry at ih ⊢
    rw [List.filter_cons]
    cases hc : isEntry k key c with
    | true =>
      simp only [Bool.not_true, Bool.false_eq_true, if_false]
      rw [ih, findList?_cons, find?_eq_none c (h c List.mem_cons_self hc)]
      rfl
    | false =>
      simp only [Bool.not_false, if_true]
      rw [findList?_cons, findList?_cons, ih]

/-! ### The frame of one edit -/

/-- Parentless trees that do not hold the site are untouched (same place, same tree). -/
theorem Forest.editAt_roots_frame (f : Forest) (e : Nat) (g : List HTree → List HTree) :
    (f.editAt (some e) g).roots.length = f.roots.length ∧
    ∀ (i : Nat) (r : HTree), f.roots[i]? = some r → e ∉ handles r → (f.editAt (some e) g).roots[i]? = some r := by
  rw [Forest.editAt_some_roots]
  refine ⟨List.length_map _, ?_⟩
  intro i r hr he
  rw [List.getElem?_map, hr, Option.map_some, editAt_of_not_mem r he]

/-- Any other live node keeps handle, value and the handles of its children; its subtree is the
    old one with the edit applied inside (unchanged when the site is not inside it). -/
theorem Forest.editAt_get_frame {f : Forest} (nd : f.allHandles.Nodup) {e x : Nat} {u : HTree}
    {g : List HTree → List HTree} (hxe : x ≠ e) (hx : f.get? x = some u)
    (hg : ∀ v L, f.get? e = some (.node e v L) → findList? x (g L) = findList? x L) :
    ∃ u', (f.editAt (some e) g).get? x = some u' ∧ u' = HTree.editAt e g u ∧ u'.handle = u.handle ∧
      u'.value = u.value ∧ u'.kids.map (·.handle) = u.kids.map (·.handle) ∧ (e ∉ handles u → u' = u) := by
  refine ⟨HTree.editAt e g u, ?_, rfl, editAt_handle e g u, editAt_value e g u, ?_,
    fun h => editAt_of_not_mem u h⟩
  · rw [Forest.get?_editAt_other hxe nd hg, hx]; rfl
  · have hux : u.handle = x := (findList?_some f.roots u hx).1
    cases u with
    | node h v ks =>
      simp only [HTree.handle] at hux
      rw [editAt_node, if_neg (by rw [hux]; exact hxe)]
      simp only [HTree.kids]
      exact map_handle_kidMap (kidMap_editAt e g) ks

/-! ### `specMapInsert` -/

theorem specMapInsert_get (k : MapKind) (e : Nat) (entry : Value) (f : Forest) (x : Nat) :
    (specMapInsert k e entry f).get? x =
      if (f.kidsOf e).any (isEntry k (entryKey entry)) then (f.editAt (some e) (updateEntry k entry)).get? x
      else (f.editAt (some e) (insertEntry k (.node f.next entry []))).get? x := by
  unfold specMapInsert
  split <;> rfl

theorem specMapInsert_ctx (k : MapKind) (e : Nat) (entry : Value) (f : Forest) (x : Nat) :
    (specMapInsert k e entry f).ctx? x =
      if (f.kidsOf e).any (isEntry k (entryKey entry)) then (f.editAt (some e) (updateEntry k entry)).ctx? x
      else (f.editAt (some e) (insertEntry k (.node f.next entry []))).ctx? x := by
  unfold specMapInsert
  split <;> rfl

theorem specMapInsert_roots (k : MapKind) (e : Nat) (entry : Value) (f : Forest) :
    (specMapInsert k e entry f).roots =
      if (f.kidsOf e).any (isEntry k (entryKey entry)) then (f.editAt (some e) (updateEntry k entry)).roots
      else (f.editAt (some e) (insertEntry k (.node f.next entry []))).roots := by
  unfold specMapInsert
  split <;> rfl

/-- Parentless trees that do not hold the element are untouched by `insert`. -/
theorem specMapInsert_roots_frame (k : MapKind) (e : Nat) (entry : Value) (f : Forest) :
    (specMapInsert k e entry f).roots.length = f.roots.length ∧
    ∀ (i : Nat) (r : HTree), f.roots[i]? = some r → e ∉ handles r → (specMapInsert k e entry f).roots[i]? = some r := by
  rw [specMapInsert_roots]
  split
  · exact Forest.editAt_roots_frame f e _
  · exact Forest.editAt_roots_frame f e _

theorem find?_fresh_leaf {x h : Nat} (v : Value) (hx : x ≠ h) : find? x (.node h v []) = none := by
  rw [find?_node, if_neg (fun e => hx e.symm), findList?_nil]

/-- **Frame of `insert`, lookups**: a live node other than the element and other than an entry
    of the view with the key keeps handle, value, the handles of its children, and its whole
    subtree when the element is not inside it. -/
theorem specMapInsert_get_frame {f : Forest} (inv : f.Inv) {k : MapKind} {e : Nat} {entry : Value}
    {x : Nat} {u : HTree} (hxe : x ≠ e) (hx : f.get? x = some u)
    (hnot : ∀ c ∈ f.kidsOf e, isEntry k (entryKey entry) c = true → c.handle ≠ x) :
    ∃ u', (specMapInsert k e entry f).get? x = some u' ∧ u'.handle = u.handle ∧ u'.value = u.value ∧
      u'.kids.map (·.handle) = u.kids.map (·.handle) ∧ (e ∉ handles u → u' = u) := by
  have hxn : x ≠ f.next := fun h => Nat.lt_irrefl _ (h ▸ inv.below x (mem_of_findList?_some hx))
  rw [specMapInsert_get]
  split
  · obtain ⟨u', h1, _, h2, h3, h4, h5⟩ := Forest.editAt_get_frame (g := updateEntry k entry) inv.nodup hxe hx
      (fun v L hg => findList?_updateEntry L (by rw [← Forest.kidsOf_of_get hg]; exact hnot))
    exact ⟨u', h1, h2, h3, h4, h5⟩
  · obtain ⟨u', h1, _, h2, h3, h4, h5⟩ := Forest.editAt_get_frame
      (g := insertEntry k (.node f.next entry [])) inv.nodup hxe hx
      (fun v L _ => findList?_insertEntry (find?_fresh_leaf entry hxn) L)
    exact ⟨u', h1, h2, h3, h4, h5⟩

/-- An attribute or namespace child is a leaf, so it is nobody's parent. -/
theorem entry_kid_not_parent {f : Forest} (inv : f.Inv) {e : Nat} {v : Value} {L : List HTree}
    (s : SiteAt f e v L) {k : MapKind} {key : Nat} {c : HTree} (hc : c ∈ L) (hce : isEntry k key c = true)
    {x : Nat} {cx : Ctx} (hx : f.ctx? x = some cx) : c.kids = [] ∧ c.handle ≠ cx.parent := by
  have hvalid := (validTree_node (s.valid inv.valid)).2.2.2
  have hvc := Fmap.validList_mem' _ L hvalid c hc
  have hcat : c.value.category ≠ .normal := by
    unfold isEntry at hce
    rw [Bool.and_eq_true] at hce
    rw [(Fmap.matches_iff_cat k c.value).1 hce.1]
    exact Fmap.kindCat_ne_normal k
  have hleaf := Fmap.entry_leaf _ c hvc hcat
  obtain ⟨A, B, hAB⟩ := List.append_of_mem hc
  have s' : SiteAt f e v (A ++ c :: B) := hAB ▸ s
  exact ⟨hleaf, not_text_leaf_of_parent inv.nodup hx s'.getKid hleaf⟩

/-- **Frame of `insert`, positions**: a node whose parent is not the element keeps parent, value
    and the handles of its left and right siblings. -/
theorem specMapInsert_ctx_frame {f : Forest} (inv : f.Inv) {k : MapKind} {e : Nat} {entry : Value}
    (he : f.isElement e = true) (hm : k.matches entry = true)
    {x : Nat} {cx : Ctx} (hx : f.ctx? x = some cx) (hne : cx.parent ≠ e) :
    ∃ cx', (specMapInsert k e entry f).ctx? x = some cx' ∧ cx'.shape = cx.shape := by
  obtain ⟨nm, N, A, S, h⟩ := Fmap.minv_of_inv f e inv he
  have s := MInv_site h
  have hnd : (specMapInsert k e entry f).allHandles.Nodup := by
    have := (Fmap.mapInsert_inv f inv k e entry he hm).nodup
    rw [mapInsert_spec inv he hm] at this
    exact this
  obtain ⟨_, vp, sp⟩ := SiteAt.of_ctx inv.nodup hx
  have hpn : cx.parent ≠ f.next :=
    fun h => Nat.lt_irrefl _ (h ▸ inv.below cx.parent (mem_of_findList?_some sp.kids))
  rw [specMapInsert_ctx]
  have hnd' := hnd
  unfold Forest.allHandles at hnd'
  rw [specMapInsert_roots] at hnd'
  split
  · rename_i hany
    rw [if_pos hany] at hnd'
    exact s.frame (updateEntry k entry) hnd' hx hne
      (findList?_updateEntry _ (fun c hc hce => (entry_kid_not_parent inv s hc hce hx).2))
  · rename_i hany
    rw [if_neg hany] at hnd'
    exact s.frame (insertEntry k (.node f.next entry [])) hnd' hx hne
      (findList?_insertEntry (find?_fresh_leaf entry hpn) _)

/-- Parentless trees stay parentless under `insert`. -/
theorem specMapInsert_root_frame {f : Forest} (inv : f.Inv) {k : MapKind} {e : Nat} {entry : Value}
    (he : f.isElement e = true) (hm : k.matches entry = true) {x : Nat} (hx : f.isRoot x = true) :
    (specMapInsert k e entry f).ctx? x = none := by
  have hnd : (specMapInsert k e entry f).allHandles.Nodup := by
    have := (Fmap.mapInsert_inv f inv k e entry he hm).nodup
    rw [mapInsert_spec inv he hm] at this
    exact this
  unfold Forest.allHandles at hnd
  rw [specMapInsert_roots] at hnd
  rw [specMapInsert_ctx]
  split
  · rename_i hany
    rw [if_pos hany] at hnd
    exact frame_root _ hnd hx
  · rename_i hany
    rw [if_neg hany] at hnd
    exact frame_root _ hnd hx

/-! ### `specMapRemove` -/

/-- Parentless trees that do not hold the element are untouched by `remove`. -/
theorem specMapRemove_roots_frame (k : MapKind) (e key : Nat) (f : Forest) :
    (specMapRemove k e key f).roots.length = f.roots.length ∧
    ∀ (i : Nat) (r : HTree), f.roots[i]? = some r → e ∉ handles r → (specMapRemove k e key f).roots[i]? = some r :=
  Forest.editAt_roots_frame f e _

/-- **Frame of `remove`, lookups**: a live node other than the element and outside the removed
    entry keeps handle, value, the handles of its children, and its whole subtree when the
    element is not inside it. -/
theorem specMapRemove_get_frame {f : Forest} (inv : f.Inv) {k : MapKind} {e key : Nat}
    {x : Nat} {u : HTree} (hxe : x ≠ e) (hx : f.get? x = some u)
    (hnot : ∀ c ∈ f.kidsOf e, isEntry k key c = true → x ∉ handles c) :
    ∃ u', (specMapRemove k e key f).get? x = some u' ∧ u'.handle = u.handle ∧ u'.value = u.value ∧
      u'.kids.map (·.handle) = u.kids.map (·.handle) ∧ (e ∉ handles u → u' = u) := by
  rw [specMapRemove_eq]
  obtain ⟨u', h1, _, h2, h3, h4, h5⟩ := Forest.editAt_get_frame (g := removeEntry k key) inv.nodup hxe hx
    (fun v L hg => findList?_removeEntry L (by rw [← Forest.kidsOf_of_get hg]; exact hnot))
  exact ⟨u', h1, h2, h3, h4, h5⟩

theorem specMapRemove_nodup {f : Forest} (nd : f.allHandles.Nodup) (k : MapKind) (e key : Nat) :
    (specMapRemove k e key f).allHandles.Nodup := by
  rw [specMapRemove_eq]
  apply Forest.nodup_editAt nd
  intro L
  exact Fmap.handlesList_filter_sublist _ L

/-- **Frame of `remove`, positions**: a node whose parent is not the element keeps parent, value
    and the handles of its left and right siblings. -/
theorem specMapRemove_ctx_frame {f : Forest} (inv : f.Inv) {k : MapKind} {e key : Nat}
    (he : f.isElement e = true) {x : Nat} {cx : Ctx} (hx : f.ctx? x = some cx) (hne : cx.parent ≠ e) :
    ∃ cx', (specMapRemove k e key f).ctx? x = some cx' ∧ cx'.shape = cx.shape := by
  obtain ⟨nm, N, A, S, h⟩ := Fmap.minv_of_inv f e inv he
  have s := MInv_site h
  have hnd := specMapRemove_nodup inv.nodup k e key
  rw [specMapRemove_eq] at hnd ⊢
  apply s.frame (removeEntry k key) hnd hx hne
  apply findList?_removeEntry
  intro c hc hce hin
  obtain ⟨hleaf, hcp⟩ := entry_kid_not_parent inv s hc hce hx
  cases c with
  | node ch cv cks =>
    simp only [HTree.kids] at hleaf
    subst hleaf
    rw [handles_node, handlesList_nil, List.mem_singleton] at hin
    exact hcp hin.symm

/-- Parentless trees stay parentless under `remove`. -/
theorem specMapRemove_root_frame {f : Forest} (nd : f.allHandles.Nodup) {k : MapKind} {e key : Nat}
    {x : Nat} (hx : f.isRoot x = true) : (specMapRemove k e key f).ctx? x = none := by
  have hnd := specMapRemove_nodup nd k e key
  rw [specMapRemove_eq] at hnd ⊢
  exact frame_root _ hnd hx

/-! ### The hypotheses are satisfiable; the model and the specification on a sample -/

example :
    let f : Forest := { roots := [.node 0 (.element 2) [.node 1 (.namespace 1 4) [], .node 2 (.attribute 7 ['v']) [],
                          .node 3 (.attribute 8 ['w']) [], .node 4 (.text ['x']) []], .node 5 (.element 3) []], next := 6 }
    f.inv = true ∧ f.isElement 0 = true ∧ MapKind.attributes.matches (.attribute 8 ['z']) = true ∧
      -- existing key: the node 3 keeps its place, only the payload changes
      (f.mapInsert .attributes 0 (.attribute 8 ['z'])).1.roots =
        [.node 0 (.element 2) [.node 1 (.namespace 1 4) [], .node 2 (.attribute 7 ['v']) [],
          .node 3 (.attribute 8 ['z']) [], .node 4 (.text ['x']) []], .node 5 (.element 3) []] ∧
      -- new key: one new node, last of its view
      (f.mapInsert .namespaces 0 (.namespace 9 9)).1.roots =
        [.node 0 (.element 2) [.node 1 (.namespace 1 4) [], .node 6 (.namespace 9 9) [], .node 2 (.attribute 7 ['v']) [],
          .node 3 (.attribute 8 ['w']) [], .node 4 (.text ['x']) []], .node 5 (.element 3) []] ∧
      (f.mapRemove .attributes 0 7).1.roots =
        [.node 0 (.element 2) [.node 1 (.namespace 1 4) [], .node 3 (.attribute 8 ['w']) [], .node 4 (.text ['x']) []],
          .node 5 (.element 3) []] ∧
      f.mapRemove .attributes 0 1 = (f, .ok) := by
  decide

end XotModel
