/-
  GENERATED COPY (wt-c17str) of the declarations of XotModel.Lemmas.SerTokensNest that depend on `valueOK`, restated in the
  namespace `XotModel.PiColon`, where `valueOK` asks of a PI target what the tokenizer's `consume_name` accepts
  (`nameOK`: colons allowed) instead of an NCName (Lemmas/PiColonDefs.lean).  Proof texts unchanged except where noted.
-/
import XotModel.Lemmas.SerTokensNest
import XotModel.Lemmas.PiColonSerTokensShape

namespace XotModel.PiColon

variable (env : Env)

/-! ### `lexNest`, token by token -/

/-! ### Nodes without tokens, nodes whose first token is not text -/

/-! ### The tree induction -/

mutual
/-- The tokens of a normal node in element content at depth `d`, followed by `rest`. -/
theorem serNode_nest (frag : Bool) (inScope : List (Nat × Nat)) (n : Tree) (s : FStack)
    (hn : n.allNodes (nodeOK env) = true) (hdoc : n.value.isDocument = false) (ts : List Token)
    (h : serNode env false inScope false s n = .ok ts) (d : Nat) (rest : List Token)
    (hrest : lexNest frag (if n.value.isElement then LexCtx.closed frag d else .content d) rest = true)
    (hadj : n.value.isText = true → headIsText rest = false) :
    lexNest frag (.content d) (ts ++ rest) = true := by
  cases n with
  | node v ks =>
    have hnode : nodeOK env v ks = true := by
      rw [allNodes_node, Bool.and_eq_true] at hn; exact hn.1
    obtain ⟨hord, hkinds, _, hnoadj, _⟩ := (nodeOK_iff env v ks).mp hnode
    cases v with
    | document => simp [Tree.value, Value.isDocument] at hdoc
    | «attribute» a b =>
      have hl := allNodes_leaf env hn rfl
      subst hl
      simp only [serNode, serNode.serKids, Except.ok.injEq] at h
      subst h
      simpa [Tree.value, Value.isElement] using hrest
    | «namespace» a b =>
      have hl := allNodes_leaf env hn rfl
      subst hl
      simp only [serNode, serNode.serKids, Except.ok.injEq] at h
      subst h
      simpa [Tree.value, Value.isElement] using hrest
    | text str =>
      have hl := allNodes_leaf env hn rfl
      subst hl
      simp only [serNode, serNode.serKids, appendOk, List.append_nil, Except.ok.injEq] at h
      subst h
      simp only [Tree.value, Value.isElement, Bool.false_eq_true, if_false] at hrest
      simp only [List.cons_append, List.nil_append, lexNest_text, hrest, hadj rfl, Bool.not_false,
        Bool.and_self]
    | comment str =>
      have hl := allNodes_leaf env hn rfl
      subst hl
      simp only [serNode, serNode.serKids, appendOk, List.append_nil, Except.ok.injEq] at h
      subst h
      simp only [Tree.value, Value.isElement, Bool.false_eq_true, if_false] at hrest
      simp only [List.cons_append, List.nil_append, lexNest_comment, hrest]
    | pi target data =>
      have hl := allNodes_leaf env hn rfl
      subst hl
      rw [serNode] at h
      split at h
      · cases h
      · simp only [serNode.serKids, appendOk, List.append_nil, Except.ok.injEq] at h
        subst h
        simp only [Tree.value, Value.isElement, Bool.false_eq_true, if_false] at hrest
        simp only [List.cons_append, List.nil_append, lexNest_pi, hrest]
    | element name =>
      obtain ⟨p, ats, content, _, _, ha, hk, rfl⟩ := serNode_element_ok env h
      simp only [Tree.value, Value.isElement, if_true] at hrest
      have hattr : ∀ k ∈ ((Tree.node (.element name) ks).nsDecls.flatMap (declTokens env)) ++ ats,
          k.isAttribute = true := by
        intro k hk'
        rcases List.mem_append.mp hk' with hk' | hk'
        · obtain ⟨d', _, hd'⟩ := List.mem_flatMap.mp hk'
          exact declTokens_isAttribute env d' k hd'
        · exact attrTokens_isAttribute env _ _ ats ha k hk'
      simp only [elementTokens, Bool.false_eq_true, if_false, List.append_assoc, List.cons_append,
        List.nil_append, lexNest_start]
      rw [← List.append_assoc, lexNest_attrs frag d _ hattr]
      by_cases hfc : (Tree.node (.element name) ks).firstChild?.isNone = true
      · have hab := firstChild_none_abnormal hfc
        have hcontent := serKids_abnormal env false inScope
          (s.push (Tree.node (.element name) ks).nsDecls) ks (fun k hk' => by
            refine ⟨hab k hk', ?_⟩
            cases k with
            | node v' ks' =>
              exact allNodes_leaf env (allNodes_kid hn hk') (abnormal_leafKind (hab _ hk')))
        rw [hcontent] at hk
        cases hk
        simp only [hfc, if_true, List.cons_append, List.nil_append, lexNest, hrest]
      · simp only [hfc, Bool.false_eq_true, if_false, List.cons_append, List.append_assoc, lexNest]
        apply serKids_nest frag inScope ks _ (fun k hk' => allNodes_kid hn hk') hord hnoadj hkinds.2.2
          content hk (d + 1) (closed_succ frag d)
        · simp only [List.cons_append, List.nil_append, lexNest_close, hrest]
        · intro _ _ _
          rfl

/-- The tokens of a child list in element content at a depth where an end tag leads back to
    element content, followed by `rest`. -/
theorem serKids_nest (frag : Bool) (inScope : List (Nat × Nat)) (ks : List Tree) (s : FStack)
    (hn : ∀ k ∈ ks, k.allNodes (nodeOK env) = true) (hord : OrderedKids ks)
    (hnoadj : noAdjText ks = true) (hdoc : ∀ k ∈ ks, k.value.isDocument = false) (ts : List Token)
    (h : serNode.serKids env false inScope s ks = .ok ts) (d : Nat)
    (hd : LexCtx.closed frag d = .content d) (rest : List Token)
    (hrest : lexNest frag (.content d) rest = true)
    (hadj : ∀ k, ks.getLast? = some k → k.value.isText = true → headIsText rest = false) :
    lexNest frag (.content d) (ts ++ rest) = true := by
  cases ks with
  | nil =>
    simp only [serNode.serKids, Except.ok.injEq] at h
    subst h
    exact hrest
  | cons k ks =>
    obtain ⟨x, y, hx, hy, rfl⟩ := serKids_cons_ok env h
    rw [List.append_assoc]
    have hord' : OrderedKids ks := (List.pairwise_cons.mp hord).2
    have hy' : lexNest frag (.content d) (y ++ rest) = true := by
      apply serKids_nest frag inScope ks s (fun k' hk' => hn k' (by simp [hk'])) hord' _
        (fun k' hk' => hdoc k' (by simp [hk'])) y hy d hd rest hrest
      · intro k' hk'
        apply hadj k'
        cases ks with
        | nil => cases hk'
        | cons k2 ks2 => rw [List.getLast?_cons_cons]; exact hk'
      · cases ks with
        | nil => rfl
        | cons k2 ks2 =>
          simp only [noAdjText, Bool.and_eq_true] at hnoadj
          exact hnoadj.2
    apply serNode_nest frag inScope k s (hn k (by simp)) (hdoc k (by simp)) x hx d (y ++ rest)
    · split
      · rw [hd]; exact hy'
      · exact hy'
    · intro hkt
      cases ks with
      | nil =>
        simp only [serNode.serKids, Except.ok.injEq] at hy
        subst hy
        exact hadj k rfl hkt
      | cons k2 ks2 =>
        obtain ⟨x2, y2, hx2, _, rfl⟩ := serKids_cons_ok env hy
        rw [List.append_assoc]
        apply serNode_head_notText env hx2
        -- the node after a text node is normal (order), not text (adjacency), not a document
        simp only [noAdjText, hkt, Bool.true_and, Bool.and_eq_true, Bool.not_eq_true'] at hnoadj
        have hph := (List.pairwise_cons.mp hord).1 k2 (by simp)
        have hd2 := hdoc k2 (by simp)
        cases k with
        | node v kk =>
          cases k2 with
          | node v2 kk2 =>
            simp only [Tree.value] at hkt hph hd2 hnoadj ⊢
            cases v <;> simp [Value.isText] at hkt
            cases v2 <;> simp [Value.phase, Value.isText, Value.isDocument, Value.isElement] at hph hd2 hnoadj ⊢
end

end XotModel.PiColon
