/-
  Lemmas for the C02 / C03 property files that are about `build` as a whole:
  * an error at any step is the result of the parse (errors are sticky)
  * a tokenizer error is never turned into a tree
  * an accepted document has exactly one element child and no text child
  * `normalize_xml_id` against the xml:id specification
-/
import XotModel.Model.Parse
import XotModel.Model.Valid

namespace XotModel

/-! ### Errors are sticky -/

theorem run_append (pre : List Token) : ∀ {b b1 : Builder} (rest : List Token) (lexErr : Option Nat),
    b.run pre none = .ok b1 → b.run (pre ++ rest) lexErr = b1.run rest lexErr := by
  induction pre with
  | nil => intro b b1 rest lexErr h; simp only [Builder.run, Step.ok.injEq] at h; subst h; rfl
  | cons t ts ih =>
    intro b b1 rest lexErr h
    simp only [Builder.run, List.cons_append] at h ⊢
    cases hs : b.step t with
    | ok b2 => rw [hs] at h; simp only at h ⊢; exact ih rest lexErr h
    | err e env => rw [hs] at h; cases h
    | panic => rw [hs] at h; cases h

/-- If the token loop reaches a token on which the builder fails, that failure is the parse result,
    whatever follows. -/
theorem build_step_err {m : Mode} {len : Nat} {env env' : Env} {pre post : List Token} {t : Token}
    {b1 : Builder} {e : ParseErr} (lexErr : Option Nat)
    (h1 : (Builder.new env).run pre none = .ok b1) (h2 : b1.step t = .err e env') :
    build m len env (pre ++ t :: post) lexErr = .err e env' := by
  unfold build
  rw [run_append pre _ lexErr h1]
  simp [Builder.run, h2]

/-- A tokenizer error is never turned into a tree. -/
theorem run_lexErr_not_ok (pos : Nat) (ts : List Token) : ∀ (b b' : Builder), b.run ts (some pos) ≠ .ok b' := by
  induction ts with
  | nil => intro b b' h; simp [Builder.run] at h
  | cons t ts ih =>
    intro b b' h
    simp only [Builder.run] at h
    cases hs : b.step t with
    | ok b2 => rw [hs] at h; exact ih b2 b' h
    | err e env => rw [hs] at h; cases h
    | panic => rw [hs] at h; cases h

theorem build_lexErr_not_ok (m : Mode) (len : Nat) (env : Env) (ts : List Token) (pos : Nat) (p : Parsed) :
    build m len env ts (some pos) ≠ .ok p := by
  unfold build
  cases h : (Builder.new env).run ts (some pos) with
  | ok b => exact absurd h (run_lexErr_not_ok pos ts _ b)
  | err e env' => simp
  | panic => simp

/-! ### The document epilogue -/

def countElements (ks : List Tree) : Nat := (ks.filter (fun k => k.value.isElement)).length

theorem topLevelScan_ok (spans : SpanMap) : ∀ (ks : List Tree) (i : Nat) (elems es : List Nat),
    topLevelScan spans i ks elems = .ok es →
      es.length = elems.length + countElements ks ∧ ∀ k ∈ ks, k.value.isText = false := by
  intro ks
  induction ks with
  | nil => intro i elems es h; simp only [topLevelScan, Outcome.ok.injEq] at h; subst h; simp [countElements]
  | cons k rest ih =>
    intro i elems es h
    simp only [topLevelScan] at h
    cases hv : k.value with
    | element n =>
      rw [hv] at h
      obtain ⟨h1, h2⟩ := ih _ _ _ h
      refine ⟨?_, fun x hx => ?_⟩
      · simp [countElements, hv, Value.isElement] at h1 ⊢; omega
      · simp only [List.mem_cons] at hx
        rcases hx with rfl | hx
        · simp [hv, Value.isText]
        · exact h2 x hx
    | text s =>
      rw [hv] at h
      simp only at h
      split at h <;> cases h
    | document =>
      rw [hv] at h
      obtain ⟨h1, h2⟩ := ih _ _ _ h
      refine ⟨by simpa [countElements, hv, Value.isElement] using h1, fun x hx => ?_⟩
      simp only [List.mem_cons] at hx
      rcases hx with rfl | hx
      · simp [hv, Value.isText]
      · exact h2 x hx
    | pi t d =>
      rw [hv] at h
      obtain ⟨h1, h2⟩ := ih _ _ _ h
      refine ⟨by simpa [countElements, hv, Value.isElement] using h1, fun x hx => ?_⟩
      simp only [List.mem_cons] at hx
      rcases hx with rfl | hx
      · simp [hv, Value.isText]
      · exact h2 x hx
    | comment s =>
      rw [hv] at h
      obtain ⟨h1, h2⟩ := ih _ _ _ h
      refine ⟨by simpa [countElements, hv, Value.isElement] using h1, fun x hx => ?_⟩
      simp only [List.mem_cons] at hx
      rcases hx with rfl | hx
      · simp [hv, Value.isText]
      · exact h2 x hx
    | «attribute» n v =>
      rw [hv] at h
      obtain ⟨h1, h2⟩ := ih _ _ _ h
      refine ⟨by simpa [countElements, hv, Value.isElement] using h1, fun x hx => ?_⟩
      simp only [List.mem_cons] at hx
      rcases hx with rfl | hx
      · simp [hv, Value.isText]
      · exact h2 x hx
    | «namespace» p n =>
      rw [hv] at h
      obtain ⟨h1, h2⟩ := ih _ _ _ h
      refine ⟨by simpa [countElements, hv, Value.isElement] using h1, fun x hx => ?_⟩
      simp only [List.mem_cons] at hx
      rcases hx with rfl | hx
      · simp [hv, Value.isText]
      · exact h2 x hx

/-- What `validate_well_formed_document` checks (access.rs): exactly one element child, no text
    child (attribute / namespace / document children are excluded by `StructValid`). -/
def WellFormedTop (t : Tree) : Prop :=
  countElements t.kids = 1 ∧ ∀ k ∈ t.kids, k.value.isText = false

/-- A document accepted by `parse` has exactly one element at top level and no text there. -/
theorem finishDocument_wellFormed {len : Nat} {b : Builder} {p : Parsed}
    (h : b.finishDocument len = .ok p) : WellFormedTop p.tree := by
  unfold Builder.finishDocument at h
  split at h
  · cases hs : topLevelScan b.spans 0 b.root.kids [] with
    | panic => rw [hs] at h; cases h
    | err e => rw [hs] at h; cases h
    | ok elems =>
      rw [hs] at h
      obtain ⟨h1, h2⟩ := topLevelScan_ok _ _ _ _ _ hs
      simp only at h
      match elems, h1, h with
      | [], _, h => cases h
      | [x], h1, h =>
        simp only [BuildResult.ok.injEq] at h
        subst h
        exact ⟨by simpa [Builder.parsed] using h1.symm, by simpa [Builder.parsed] using h2⟩
      | _ :: _ :: _, _, h => simp only at h; split at h <;> cases h
  · unfold Builder.unclosed at h; split at h <;> cases h

theorem build_document_wellFormed {len : Nat} {env : Env} {ts : List Token} {lexErr : Option Nat} {p : Parsed}
    (h : build .document len env ts lexErr = .ok p) : WellFormedTop p.tree := by
  unfold build at h
  split at h
  · cases h
  · cases h
  · exact finishDocument_wellFormed h

/-- An element that is still open at the end of the input is never accepted. -/
theorem unclosed_not_ok (b : Builder) (p : Parsed) : b.unclosed ≠ .ok p := by
  unfold Builder.unclosed; split <;> simp

theorem finish_not_ok_of_open {b : Builder} (h : b.isCurrentDocument = false) (len : Nat) (p : Parsed) :
    b.finishDocument len ≠ .ok p ∧ b.finishFragment ≠ .ok p := by
  unfold Builder.finishDocument Builder.finishFragment
  simp only [h, Bool.false_eq_true, if_false]
  exact ⟨unclosed_not_ok b p, unclosed_not_ok b p⟩

/-! ### xml:id normalisation -/

/-- Strip all leading spaces. -/
def trimLeft (s : Str) : Str := s.dropWhile (fun c => c == ' ')

/-- https://www.w3.org/TR/xml-id/#id-avn: strip leading and trailing space characters, replace
    sequences of spaces by a single space. -/
def xmlIdSpec (s : Str) : Str := collapseSpaces false (trimLeft (trimLeft s).reverse).reverse

theorem trimLeft_of_head {s : Str} (h : s.head? ≠ some ' ') : trimLeft s = s := by
  cases s with
  | nil => rfl
  | cons c cs =>
    have : (c == ' ') = false := by
      have : c ≠ ' ' := by intro hc; subst hc; simp at h
      simpa using this
    simp [trimLeft, List.dropWhile, this]

theorem trimLeft_stripOne {s : Str} (h : (stripOnePrefix s).head? ≠ some ' ') :
    trimLeft s = stripOnePrefix s := by
  by_cases hs : ∃ r, s = ' ' :: r
  · obtain ⟨r, rfl⟩ := hs
    simp only [stripOnePrefix] at h ⊢
    have := trimLeft_of_head h
    simpa [trimLeft, List.dropWhile] using this
  · have he : stripOnePrefix s = s := by
      unfold stripOnePrefix
      split
      · rename_i r; exact absurd ⟨r, rfl⟩ hs
      · rfl
    rw [he] at h ⊢
    exact trimLeft_of_head h

/-- `normalize_xml_id` agrees with the specification when at most one space stands at either end. -/
theorem normalizeXmlId_partial (s : Str)
    (h1 : (stripOnePrefix s).head? ≠ some ' ')
    (h2 : (stripOnePrefix (stripOnePrefix s).reverse).head? ≠ some ' ') :
    normalizeXmlId s = xmlIdSpec s := by
  unfold normalizeXmlId xmlIdSpec stripOneSuffix
  rw [trimLeft_stripOne h1, trimLeft_stripOne h2]

/-! ### Text merging and name resolution -/

/-- Two consecutive pieces of character data give the same node as their concatenation. -/
theorem addText_addText (b : Builder) (c1 c2 : Str) :
    (b.addText c1).1.addText c2 = b.addText (c1 ++ c2) := by
  unfold Builder.addText
  cases hr : b.cur.rkids with
  | nil => simp [Builder.curPath]
  | cons k more =>
    cases k with
    | node v ks =>
      cases v <;> simp [Builder.curPath, List.append_assoc]

theorem lookupPrefix_cons (d : List (Nat × Nat)) (st : NsStack) (p : Nat) :
    lookupPrefix (d :: st) p = (match findInDecls p d with | some ns => some ns | none => lookupPrefix st p) := by
  simp only [lookupPrefix, List.findSome?]
  cases findInDecls p d <;> rfl

theorem lookup_xml_new (env : Env) : lookupPrefix (Builder.new env).nsStack Env.xmlPrefix = some Env.xmlNamespace := by
  rfl

theorem lookup_default_new (env : Env) : lookupPrefix (Builder.new env).nsStack Env.emptyPrefix = some Env.noNamespace := by
  rfl

theorem attributeNameId_unprefixed (env : Env) (stack : NsStack) (name : Str) (sp : Span)
    (h : env.prefixes.head? = some []) :
    attributeNameId env stack [] name sp = .ok (env.internName name Env.noNamespace) := by
  unfold attributeNameId
  have : env.internPrefix [] = (env, 0) := by
    cases hp : env.prefixes with
    | nil => simp [hp] at h
    | cons x xs =>
      simp only [hp, List.head?_cons, Option.some.injEq] at h
      subst h
      cases env
      simp only at hp
      subst hp
      simp [Env.internPrefix, internIn, List.idxOf, List.findIdx, List.findIdx.go]
  simp [this, Env.emptyPrefix]

/-- The last declaration of a prefix on one start tag is the one that is found. -/
theorem findInDecls_append (p ns : Nat) (l : List (Nat × Nat)) : findInDecls p (l ++ [(p, ns)]) = some ns := by
  simp [findInDecls]

end XotModel
