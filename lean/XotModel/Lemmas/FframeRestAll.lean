/-
  FframeRestAll — `C05_frame_general2`: `frame_general` (Lemmas/FframeGeneralAll.lean) extended to map clear, append
  of an entry node, any_append and remove_insignificant_whitespace, with `XCall.writtenParents2` (Model/FframeSpec2.lean).
-/
import XotModel.Model.FframeSpec2
import XotModel.Lemmas.FframeRestEntry
import XotModel.Lemmas.FframeRestWs

namespace XotModel
open HTree Spec PairAll
open Forest (MapKind)

theorem isElement_of_mapClear_ok {f : Forest} {k : MapKind} {e : Nat}
    (hok : (f.mapClear k e).2 = .ok) : f.isElement e = true := by
  cases he : f.isElement e with
  | true => rfl
  | false => unfold Forest.mapClear at hok; simp [he] at hok

theorem framed2_of_framed {c : Forest.XCall} (h : c.framed = true) : c.framed2 = true := by
  cases c with
  | call k => cases k <;> first | rfl | exact h
  | _ => first | rfl | exact h

theorem getFrame_anyAppend {f : Forest} (inv : f.Inv) {p c : Nat} {t : HTree}
    (hok : (f.anyAppend p c).2.1 = .ok) (hgc : f.get? c = some t) {z : Nat}
    (hwo : z ∉ f.siteW (f.parent? c)) (hwp : z ∉ f.siteW (some p)) (h3 : z ∉ handles t)
    (hze : z ∉ Forest.XCall.extraWritten f (.call (.anyAppend p c))) :
    GetFrame f (f.anyAppend p c).1 z := by
  have hval : f.value? c = some t.value := by simp [Forest.value?, hgc]
  simp only [Forest.XCall.extraWritten, hval, Option.bind_some] at hze
  cases hv : t.value with
  | «attribute» a b =>
    have e := Fmap.anyAppend_entry f .attributes p c _ (by rw [hval, hv]) (by simp [Forest.MapKind.matches])
    rw [e] at hok ⊢
    rw [hv] at hze
    exact getFrame_appendEntryNode inv hok hgc hwo (ne_of_not_mem_siteW hwp) h3 hze
  | «namespace» a b =>
    have e := Fmap.anyAppend_entry f .namespaces p c _ (by rw [hval, hv]) (by simp [Forest.MapKind.matches])
    rw [e] at hok ⊢
    rw [hv] at hze
    exact getFrame_appendEntryNode inv hok hgc hwo (ne_of_not_mem_siteW hwp) h3 hze
  | _ =>
    have e := Prog.anyAppend_normal f p c t hgc (by rw [hv]; rfl)
    rw [e] at hok ⊢
    exact getFrame_append inv hok hgc hwo hwp h3

/-- **Value and child list, the larger domain.** -/
theorem frame_general2 {s : Store} {c : Forest.XCall} (inv : s.forest.Inv) (hw : c.wellKinded)
    (hf : c.framed2 = true) (hla : c.liveArgs s.forest) (hok : (c.run s).2 = .ok) {h : Nat}
    (hl : s.forest.isLive h = true)
    (hnw : h ∉ c.writtenParents2 s.forest) (hnr : h ∉ c.removedHandles s.forest)
    (hnm : h ∉ c.movedSubtree s.forest) :
    Forest.FrameAt s.forest (c.run s).1.forest h := by
  by_cases hf1 : c.framed = true
  · exact frame_general inv hw hf1 hla hok hl (fun hm => hnw (List.mem_append_left _ hm)) hnr hnm
  · unfold Forest.XCall.writtenParents2 at hnw
    rw [List.mem_append, not_or] at hnw
    obtain ⟨hnw, hne⟩ := hnw
    cases c with
    | call k =>
      cases k with
      | mapClear k e =>
        have he := isElement_of_mapClear_ok hok
        simp only [Forest.XCall.writtenParents, List.mem_cons, not_or] at hnw
        exact (getFrame_mapClear inv he hnw.1 hnw.2).frameAt hl
      | appendEntryNode k p c =>
        obtain ⟨t, hg⟩ := Forest.get_of_live (hla c (by simp [Forest.XCall.args, Forest.Call.args]))
        simp only [Forest.XCall.writtenParents, List.mem_append, not_or] at hnw
        exact (getFrame_appendEntryNode inv hok hg hnw.1.1 (ne_of_not_mem_siteW hnw.1.2)
          (not_mem_handles_of_subtree hg hnm) hne).frameAt hl
      | anyAppend p c =>
        obtain ⟨t, hg⟩ := Forest.get_of_live (hla c (by simp [Forest.XCall.args, Forest.Call.args]))
        simp only [Forest.XCall.writtenParents, List.mem_append, not_or] at hnw
        exact (getFrame_anyAppend inv hok hg hnw.1.1 hnw.1.2 (not_mem_handles_of_subtree hg hnm) hne).frameAt hl
      | _ => first | exact absurd rfl hf1 | cases hf
    | removeInsignificantWhitespace n =>
      obtain ⟨t, hg⟩ := Forest.get_of_live (hla n (List.mem_singleton.2 rfl))
      have hzp : some h ≠ s.forest.parent? n := by
        intro e
        apply hne
        show h ∈ (s.forest.parent? n).toList
        rw [← e]
        exact List.mem_singleton.2 rfl
      exact (getFrame_riw inv hg (not_mem_handles_of_subtree hg hnw) hzp).frameAt hl
    | _ => first | exact absurd rfl hf1 | cases hf

end XotModel
