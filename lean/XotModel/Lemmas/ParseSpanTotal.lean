/-
  C17_total: in an accepted tree every element has its `ElementStart` / `ElementEnd` spans and,
  for each of its attribute names, the `AttributeName` / `AttributeValue` spans; every text node
  its `Text` span, every comment its `Comment` span, every PI its `PiTarget` span and, when it
  has content, its `PiContent` span — at every depth.
-/
import XotModel.Lemmas.ParseQName
import XotModel.Lemmas.ParseNoPanic

namespace XotModel

/-- The keys a node of value `v` with children `ks` must have at `path`. -/
def nodeKeys (m : SpanMap) (path : Path) (v : Value) (ks : List Tree) : Prop :=
  match v with
  | .element _ =>
    HasKey m ⟨path, .elementStart⟩ ∧ HasKey m ⟨path, .elementEnd⟩ ∧
    ∀ n ∈ attrNames ks, HasKey m ⟨path, .attributeName n⟩ ∧ HasKey m ⟨path, .attributeValue n⟩
  | .text _ => HasKey m ⟨path, .text⟩
  | .comment _ => HasKey m ⟨path, .comment⟩
  | .pi _ d => HasKey m ⟨path, .piTarget⟩ ∧ (d.isSome = true → HasKey m ⟨path, .piContent⟩)
  | _ => True

/-- Every node of the tree rooted at `path` has its keys. -/
def Covered (m : SpanMap) : Path → Tree → Prop
  | path, .node v ks => nodeKeys m path v ks ∧ coveredList path 0 ks
where
  coveredList : Path → Nat → List Tree → Prop
    | _, _, [] => True
    | path, i, k :: ks => Covered m (path ++ [i]) k ∧ coveredList path (i + 1) ks

theorem nodeKeys_mono {m m' : SpanMap} (h : KeysSub m m') {path : Path} {v : Value} {ks : List Tree}
    (hk : nodeKeys m path v ks) : nodeKeys m' path v ks := by
  cases v with
  | element n => exact ⟨h _ hk.1, h _ hk.2.1, fun x hx => ⟨h _ (hk.2.2 x hx).1, h _ (hk.2.2 x hx).2⟩⟩
  | text s => exact h _ hk
  | comment s => exact h _ hk
  | pi t d => exact ⟨h _ hk.1, fun hd => h _ (hk.2 hd)⟩
  | document => trivial
  | «attribute» n v => trivial
  | «namespace» p n => trivial

mutual
theorem covered_mono {m m' : SpanMap} (h : KeysSub m m') : ∀ (t : Tree) (path : Path), Covered m path t → Covered m' path t
  | .node v ks, path, hc => by
    rw [Covered] at hc ⊢
    exact ⟨nodeKeys_mono h hc.1, coveredList_mono h ks path 0 hc.2⟩
theorem coveredList_mono {m m' : SpanMap} (h : KeysSub m m') :
    ∀ (ks : List Tree) (path : Path) (i : Nat), Covered.coveredList m path i ks → Covered.coveredList m' path i ks
  | [], _, _, _ => trivial
  | k :: ks, path, i, hc => ⟨covered_mono h k _ hc.1, coveredList_mono h ks path (i + 1) hc.2⟩
end

/-- Finished children of a frame at `path`, last child first. -/
def CoveredR (m : SpanMap) (path : Path) : List Tree → Prop
  | [] => True
  | k :: rest => Covered m (path ++ [rest.length]) k ∧ CoveredR m path rest

theorem CoveredR.mono {m m' : SpanMap} (h : KeysSub m m') {path : Path} : ∀ {l : List Tree}, CoveredR m path l → CoveredR m' path l
  | [], _ => trivial
  | k :: _, ⟨a, b⟩ => ⟨covered_mono h k _ a, CoveredR.mono h b⟩

theorem coveredList_snoc (m : SpanMap) (path : Path) (k : Tree) : ∀ (l : List Tree) (i : Nat),
    Covered.coveredList m path i l → Covered m (path ++ [i + l.length]) k → Covered.coveredList m path i (l ++ [k]) := by
  intro l
  induction l with
  | nil => intro i _ hk; exact ⟨by simpa using hk, trivial⟩
  | cons x xs ih =>
    intro i h hk
    refine ⟨h.1, ih (i + 1) h.2 ?_⟩
    have : i + 1 + xs.length = i + (x :: xs).length := by simp; omega
    rw [this]; exact hk

theorem coveredList_of_R (m : SpanMap) (path : Path) : ∀ rk : List Tree, CoveredR m path rk →
    Covered.coveredList m path 0 rk.reverse := by
  intro rk
  induction rk with
  | nil => intro _; trivial
  | cons k rest ih =>
    intro h
    rw [List.reverse_cons]
    exact coveredList_snoc m path k _ 0 (ih h.2) (by simpa using h.1)

/-- Invariant of one open frame sitting at `path`. -/
def FrameCov (m : SpanMap) (path : Path) (f : Frame) : Prop :=
  CoveredR m path f.rkids ∧
  (f.value.isElement = true →
    HasKey m ⟨path, .elementStart⟩ ∧
    ∀ n ∈ attrNames f.rkids, HasKey m ⟨path, .attributeName n⟩ ∧ HasKey m ⟨path, .attributeValue n⟩)

theorem FrameCov.mono {m m' : SpanMap} (h : KeysSub m m') {path : Path} {f : Frame} (hf : FrameCov m path f) :
    FrameCov m' path f :=
  ⟨hf.1.mono h, fun he => ⟨h _ (hf.2 he).1, fun n hn => ⟨h _ ((hf.2 he).2 n hn).1, h _ ((hf.2 he).2 n hn).2⟩⟩⟩

/-- All open frames (current first). -/
def StackCov (m : SpanMap) : List Frame → Prop
  | [] => True
  | f :: l => FrameCov m (framesPath l) f ∧ StackCov m l

theorem StackCov.mono {m m' : SpanMap} (h : KeysSub m m') : ∀ {l : List Frame}, StackCov m l → StackCov m' l
  | [], _ => trivial
  | _ :: _, ⟨a, b⟩ => ⟨a.mono h, StackCov.mono h b⟩

def BuilderCov (b : Builder) : Prop := StackCov b.spans (b.cur :: b.parents)

theorem builderCov_new (env : Env) : BuilderCov (Builder.new env) :=
  ⟨⟨trivial, fun h => by simp [Builder.new, Value.isElement] at h⟩, trivial⟩

theorem attrNames_cons_normal {k : Tree} {l : List Tree} (h : k.value.phase = 2) : attrNames (k :: l) = attrNames l := by
  unfold attrNames
  cases hv : k.value <;> simp_all [Value.phase, List.filterMap_cons]

/-- Adding a finished normal node `k` (covered at its place) to the current frame. -/
theorem frameCov_cons {m : SpanMap} {path : Path} {f : Frame} {k : Tree} (hf : FrameCov m path f)
    (hph : k.value.phase = 2) (hk : Covered m (path ++ [f.rkids.length]) k) :
    FrameCov m path { f with rkids := k :: f.rkids } :=
  ⟨⟨hk, hf.1⟩, fun he => by
    have := hf.2 he
    refine ⟨this.1, fun n hn => this.2 n ?_⟩
    rw [attrNames_cons_normal hph] at hn; exact hn⟩

/-! ### Steps -/

theorem covered_leaf {m : SpanMap} {path : Path} {v : Value} (h : nodeKeys m path v []) : Covered m path (.node v []) := by
  rw [Covered]; exact ⟨h, trivial⟩

/-- `addLeaf v` followed by a span update to `m'` that has the keys of the new leaf. -/
theorem addLeaf_cov {b : Builder} (h : BuilderCov b) (v : Value) (m' : SpanMap) (hph : v.phase = 2)
    (hsub : KeysSub b.spans m') (hkeys : nodeKeys m' (b.curPath ++ [b.cur.rkids.length]) v []) :
    BuilderCov { (b.addLeaf v).1 with spans := m' } := by
  unfold Builder.addLeaf
  obtain ⟨hc, hp⟩ := h
  refine ⟨?_, hp.mono hsub⟩
  exact frameCov_cons (hc.mono hsub) hph (covered_leaf (by rw [← curPath_eq]; exact hkeys))

theorem addText_cov {b : Builder} (h : BuilderCov b) (content : Str) (sp : Span) :
    BuilderCov { (b.addText content).1 with
      spans := (b.addText content).1.spans.extendText (b.addText content).2 sp } := by
  obtain ⟨hc, hp⟩ := h
  unfold Builder.addText
  split
  · rename_i s ks more hr
    have hsub := keysSub_extendText b.spans (b.curPath ++ [more.length]) sp
    refine ⟨?_, hp.mono hsub⟩
    have hc' := hc.mono hsub
    obtain ⟨h1, h2⟩ := hc'
    rw [hr] at h1
    refine ⟨⟨?_, h1.2⟩, fun he => ?_⟩
    · have hold := h1.1
      rw [Covered] at hold ⊢
      exact ⟨by rw [← curPath_eq]; exact hasKey_extendText _ _ _, hold.2⟩
    · have := h2 he
      refine ⟨this.1, fun n hn => this.2 n ?_⟩
      rw [hr]
      simpa [attrNames, List.filterMap_cons, Tree.value] using hn
  · have hsub := keysSub_extendText b.spans (b.curPath ++ [b.cur.rkids.length]) sp
    refine ⟨?_, hp.mono hsub⟩
    exact frameCov_cons (hc.mono hsub) rfl
      (covered_leaf (by rw [← curPath_eq]; exact hasKey_extendText _ _ _))

theorem hasKey_addAttributeSpans (node : Path) : ∀ (l : List (Nat × Span × Span)) (m : SpanMap) (n : Nat),
    n ∈ l.map (fun a => a.1) →
      HasKey (m.addAttributeSpans node l) ⟨node, .attributeName n⟩ ∧
      HasKey (m.addAttributeSpans node l) ⟨node, .attributeValue n⟩ := by
  intro l
  induction l with
  | nil => intro m n hn; simp at hn
  | cons a rest ih =>
    intro m n hn
    obtain ⟨x, s1, s2⟩ := a
    simp only [SpanMap.addAttributeSpans]
    simp only [List.map_cons, List.mem_cons] at hn
    by_cases hr : n ∈ rest.map (fun a => a.1)
    · exact ih _ n hr
    · have hx : n = x := by rcases hn with h | h; exact h; exact absurd h hr
      subst hx
      have hsub := keysSub_addAttributeSpans node rest
        ((m.add ⟨node, .attributeName n⟩ s1).add ⟨node, .attributeValue n⟩ s2)
      exact ⟨hsub _ (keysSub_add _ _ _ _ (hasKey_add_self _ _ _)), hsub _ (hasKey_add_self _ _ _)⟩

/-- The attribute loop keeps `aspans` and the attribute children in step. -/
theorem addAttributes_names (stack : NsStack) (node : Path) (abs : List AttributeBuilder) :
    ∀ (st st' : AttrLoop), addAttributes stack node st abs = .ok st' →
      (∀ n ∈ attrNames st.rkids, n ∈ st.aspans.map (fun a => a.1)) →
      (∀ k ∈ st.rkids, k.kids = [] ∧ k.value.phase < 2) →
      (∀ n ∈ attrNames st'.rkids, n ∈ st'.aspans.map (fun a => a.1)) ∧
      (∀ k ∈ st'.rkids, k.kids = [] ∧ k.value.phase < 2) := by
  induction abs with
  | nil => intro st st' hr h1 h2; simp only [addAttributes, Step.ok.injEq] at hr; subst hr; exact ⟨h1, h2⟩
  | cons ab rest ih =>
    intro st st' hr h1 h2
    simp only [addAttributes] at hr
    split at hr
    · cases hr
    · cases hr
    · rename_i env1 nameId _
      split at hr
      · cases hr
      · split at hr
        · cases hr
        · refine ih _ st' hr ?_ ?_
          · intro n hn
            simp only [attrNames, List.filterMap_cons, Tree.value] at hn
            simp only [List.map_append, List.map_cons, List.map_nil, List.mem_append, List.mem_singleton]
            simp only [List.mem_cons] at hn
            rcases hn with rfl | hn
            · exact Or.inr rfl
            · exact Or.inl (h1 n hn)
          · intro k hk
            simp only [List.mem_cons] at hk
            rcases hk with rfl | hk
            · exact ⟨rfl, by simp [Tree.value, Value.phase]⟩
            · exact h2 k hk

theorem coveredR_leaves (m : SpanMap) (path : Path) : ∀ (l : List Tree),
    (∀ k ∈ l, k.kids = [] ∧ k.value.phase < 2) → CoveredR m path l := by
  intro l
  induction l with
  | nil => intro _; trivial
  | cons k rest ih =>
    intro h
    refine ⟨?_, ih (fun x hx => h x (by simp [hx]))⟩
    obtain ⟨hk, hph⟩ := h k (by simp)
    cases k with
    | node v ks =>
      simp only [Tree.kids] at hk
      subst hk
      rw [Covered]
      refine ⟨?_, trivial⟩
      cases v <;> simp_all [nodeKeys, Tree.value, Value.phase]

theorem openElement_cov {b b' : Builder} (h : BuilderCov b) (hr : b.openElement = .ok b') : BuilderCov b' := by
  unfold Builder.openElement at hr
  split at hr
  · cases hr
  · rename_i eb heb
    dsimp only at hr
    split at hr
    · cases hr
    · cases hr
    · rename_i env1 nameId _
      split at hr
      · cases hr
      · cases hr
      · rename_i st hst
        simp only [Step.ok.injEq] at hr
        subst hr
        have hnames := addAttributes_names _ _ _ _ st hst
          (by
            intro n hn
            have : attrNames (namespaceKids eb.namespaces) = [] := by
              unfold attrNames namespaceKids
              induction eb.namespaces with
              | nil => rfl
              | cons d ds ih => simp_all [List.filterMap_append, Tree.value]
            simp only at hn
            rw [this] at hn; cases hn)
          (by
            intro k hk
            simp only [namespaceKids, List.mem_reverse, List.mem_map] at hk
            obtain ⟨d, _, rfl⟩ := hk
            exact ⟨rfl, by simp [Tree.value, Value.phase]⟩)
        have hsub : KeysSub b.spans
            ((b.spans.add ⟨b.curPath ++ [b.cur.rkids.length], .elementStart⟩ eb.span).addAttributeSpans
              (b.curPath ++ [b.cur.rkids.length]) st.aspans) :=
          (keysSub_add _ _ _).trans (keysSub_addAttributeSpans _ _ _)
        have hpath : framesPath (b.cur :: b.parents) = b.curPath ++ [b.cur.rkids.length] := by
          simp [framesPath, Builder.curPath]
        refine ⟨⟨coveredR_leaves _ _ _ hnames.2, fun _ => ⟨?_, fun n hn => ?_⟩⟩, StackCov.mono hsub h⟩
        · rw [hpath]
          exact keysSub_addAttributeSpans _ _ _ _ (hasKey_add_self _ _ _)
        · rw [hpath]
          exact hasKey_addAttributeSpans _ _ _ n (hnames.1 n hn)

theorem attrNames_reverse' (l : List Tree) (n : Nat) : n ∈ attrNames l.reverse ↔ n ∈ attrNames l := by
  simp [attrNames, List.filterMap_reverse]

theorem leave_cov {b b' : Builder} (h : BuilderCov b) (hel : b.cur.value.isElement = true) (sp : StrSpan)
    (hr : b.leave b.curPath sp = .ok b') : BuilderCov b' := by
  unfold Builder.leave Builder.toParent at hr
  cases hpar : b.parents with
  | nil => rw [hpar] at hr; cases hr
  | cons p rest =>
    rw [hpar] at hr
    simp only [Step.ok.injEq] at hr
    subst hr
    obtain ⟨hc, hp⟩ := h
    rw [hpar] at hc hp
    have hsub := keysSub_add b.spans ⟨b.curPath, .elementEnd⟩ sp.span
    have hcp : b.curPath = framesPath (p :: rest) := by rw [curPath_eq, hpar]
    obtain ⟨hpf, hprest⟩ := hp
    refine ⟨?_, hprest.mono hsub⟩
    -- the closed element, covered at its place
    have hcov : Covered (b.spans.add ⟨b.curPath, .elementEnd⟩ sp.span) (framesPath (p :: rest)) b.cur.close := by
      unfold Frame.close
      rw [Covered]
      have hc' := hc.mono hsub
      refine ⟨?_, coveredList_of_R _ _ _ hc'.1⟩
      have hk := hc'.2 hel
      cases hv : b.cur.value with
      | element n =>
        refine ⟨hk.1, ?_, fun x hx => hk.2 x ((attrNames_reverse' _ x).mp hx)⟩
        rw [← hcp]; exact hasKey_add_self _ _ _
      | _ => simp [hv, Value.isElement] at hel
    have hph : b.cur.close.value.phase = 2 := by
      have : b.cur.close.value = b.cur.value := rfl
      rw [this]; cases hv : b.cur.value <;> simp_all [Value.isElement, Value.phase]
    have := frameCov_cons (k := b.cur.close) (hpf.mono hsub) hph (by
      have : framesPath rest ++ [p.rkids.length] = framesPath (p :: rest) := by simp [framesPath]
      rw [this]; exact hcov)
    exact this

/-- `BuilderCov` only looks at `cur`, `parents` and `spans`. -/
theorem builderCov_congr {b b' : Builder} (h : BuilderCov b) (hc : b'.cur = b.cur) (hp : b'.parents = b.parents)
    (hs : b'.spans = b.spans) : BuilderCov b' := by
  unfold BuilderCov at h ⊢
  rw [hc, hp, hs]; exact h

theorem step_cov {b b' : Builder} (t : Token) (hok : BuilderOk b) (h : BuilderCov b) (hr : b.step t = .ok b') :
    BuilderCov b' := by
  replace hr := Builder.step_ok_core hr
  have helem : b.parents ≠ [] → b.cur.value.isElement = true := by
    intro hne
    have hs := hok.2.2.1
    cases hp : b.parents with
    | nil => exact absurd hp hne
    | cons g gs => rw [hp] at hs; simp only [ShapeOk] at hs; exact hs.1
  cases t with
  | «attribute» pfx loc value sp =>
    simp only [Builder.stepCore] at hr
    have hprefix : ∀ p u s, b.prefix p u s = .ok b' → BuilderCov b' := by
      intro p u s hr
      unfold Builder.prefix at hr
      split at hr
      · cases hr
      · split at hr
        · cases hr
        dsimp only at hr
        split at hr
        · cases hr
        · split at hr
          · cases hr
          · simp only [Step.ok.injEq] at hr; subst hr; exact builderCov_congr h rfl rfl rfl
    split at hr
    · exact hprefix _ _ _ hr
    · split at hr
      · exact hprefix _ _ _ hr
      · unfold Builder.attribute at hr
        split at hr
        · cases hr
        · split at hr
          · cases hr
          · split at hr
            · cases hr
            · simp only [Step.ok.injEq] at hr; subst hr; exact builderCov_congr h rfl rfl rfl
  | text t =>
    simp only [Builder.stepCore, Builder.text] at hr
    split at hr
    · cases hr
    · simp only [Step.ok.injEq] at hr; subst hr; exact addText_cov h _ _
  | cdata t sp =>
    simp only [Builder.stepCore, Builder.cdata] at hr
    split at hr
    · simp only [Step.ok.injEq] at hr; subst hr; exact h
    · simp only [Step.ok.injEq] at hr; subst hr; exact addText_cov h _ _
  | elementStart pfx loc sp =>
    simp only [Builder.stepCore, Builder.element, Step.ok.injEq] at hr
    subst hr
    exact builderCov_congr h rfl rfl rfl
  | elementEnd e sp =>
    cases e with
    | «open» => exact openElement_cov h hr
    | close pfx loc =>
      simp only [Builder.stepCore] at hr
      unfold Builder.closeElement at hr
      split at hr
      · cases hr
      · cases hr
      · split at hr
        · cases hr
        · rename_i hpe
          have hne : b.parents ≠ [] := by intro hnil; rw [hnil] at hpe; simp at hpe
          rename_i env1 nameId _
          split at hr
          · split at hr
            · cases hr
            · exact leave_cov (b := { b with env := env1, nsStack := b.nsStack.tail, openPrefixes := b.openPrefixes.tail })
                (builderCov_congr h rfl rfl rfl) (helem hne) sp hr
          · exact leave_cov (b := { b with env := env1 })
              (builderCov_congr h rfl rfl rfl) (helem hne) sp hr
    | empty =>
      simp only [Builder.stepCore] at hr
      cases hb : b.openElement with
      | ok b1 =>
        rw [hb] at hr
        have h1 := openElement_cov h hb
        have hok1 := openElement_ok hok hb
        have hel1 : b1.cur.value.isElement = true := by
          unfold Builder.openElement at hb
          split at hb
          · cases hb
          · dsimp only at hb
            split at hb
            · cases hb
            · cases hb
            · split at hb
              · cases hb
              · cases hb
              · simp only [Step.ok.injEq] at hb; subst hb; rfl
        unfold Builder.closeImmediate at hr
        simp only [hel1, if_true] at hr
        exact leave_cov (b := { b1 with nsStack := b1.nsStack.tail, openPrefixes := b1.openPrefixes.tail })
          (builderCov_congr h1 rfl rfl rfl) hel1 sp hr
      | err e env => rw [hb] at hr; cases hr
      | panic => rw [hb] at hr; cases hr
  | comment t sp =>
    simp only [Builder.stepCore, Builder.comment, Step.ok.injEq] at hr
    subst hr
    exact addLeaf_cov h (.comment (normalizeLineEnds t.text)) _ rfl (keysSub_add _ _ _) (hasKey_add_self _ _ _)
  | pi target content sp =>
    simp only [Builder.stepCore] at hr
    split at hr
    · cases hr
    simp only [Builder.processingInstruction, Step.ok.injEq] at hr
    subst hr
    refine addLeaf_cov (b := { b with env := (b.env.internName target.text Env.noNamespace).1 })
      (builderCov_congr h rfl rfl rfl) _ _ rfl ?_ ?_
    · cases content with
      | none => exact keysSub_add _ _ _
      | some c => exact (keysSub_add _ _ _).trans (keysSub_add _ _ _)
    · cases content with
      | none => exact ⟨hasKey_add_self _ _ _, fun hd => by simp at hd⟩
      | some c => exact ⟨keysSub_add _ _ _ _ (hasKey_add_self _ _ _), fun _ => hasKey_add_self _ _ _⟩
  | declaration v e s sp =>
    simp only [Builder.stepCore] at hr
    split at hr
    · cases hr
    · simp only [Step.ok.injEq] at hr; subst hr; exact h
  | dtdStart sp => simp [Builder.stepCore] at hr
  | dtdEnd sp => simp [Builder.stepCore] at hr
  | emptyDtd sp => simp [Builder.stepCore] at hr
  | entityDecl sp => simp [Builder.stepCore] at hr

theorem run_cov (ts : List Token) (lexErr : Option Nat) :
    ∀ {b b' : Builder}, BuilderOk b → BuilderCov b → b.run ts lexErr = .ok b' → BuilderCov b' := by
  induction ts with
  | nil =>
    intro b b' _ h hr
    cases lexErr with
    | none =>
      simp only [Builder.run] at hr
      split at hr
      · cases hr
      · simp only [Step.ok.injEq] at hr; subst hr; exact h
    | some p => simp [Builder.run] at hr
  | cons t ts ih =>
    intro b b' hok h hr
    simp only [Builder.run] at hr
    cases hb : b.step t with
    | ok b1 => rw [hb] at hr; exact ih (step_ok t hok hb) (step_cov t hok h hb) hr
    | err e env => rw [hb] at hr; cases hr
    | panic => rw [hb] at hr; cases hr

/-- C17_total: every node of an accepted tree has its spans. -/
theorem build_covered {m : Mode} {len : Nat} {env : Env} {ts : List Token} {lexErr : Option Nat} {p : Parsed}
    (h : build m len env ts lexErr = .ok p) : Covered p.spans [] p.tree := by
  unfold build at h
  cases hb : (Builder.new env).run ts lexErr with
  | panic => rw [hb] at h; cases h
  | err e env' => rw [hb] at h; cases h
  | ok b =>
    rw [hb] at h
    have hok := run_ok ts lexErr (builderOk_new env) hb
    have hcov := run_cov ts lexErr (builderOk_new env) (builderCov_new env) hb
    have hfin : b.isCurrentDocument = true ∧ p = b.parsed := by
      cases m with
      | document =>
        simp only [Builder.finishDocument] at h
        split at h
        · rename_i hd
          refine ⟨hd, ?_⟩
          split at h
          · cases h
          · cases h
          · split at h
            · cases h
            · simp only [BuildResult.ok.injEq] at h; exact h.symm
            · split at h <;> cases h
        · unfold Builder.unclosed at h; split at h <;> cases h
      | fragment =>
        simp only [Builder.finishFragment] at h
        split at h
        · rename_i hd
          simp only [BuildResult.ok.injEq] at h
          exact ⟨hd, h.symm⟩
        · unfold Builder.unclosed at h; split at h <;> cases h
    obtain ⟨hdoc, hp⟩ := hfin
    subst hp
    have hpar : b.parents = [] := by
      cases hq : b.parents with
      | nil => rfl
      | cons q rest =>
        have hs := hok.2.2.1
        rw [hq] at hs
        simp only [ShapeOk] at hs
        have := hs.1
        simp only [Builder.isCurrentDocument] at hdoc
        cases hv : b.cur.value <;> simp_all [Value.isElement, Value.isDocument]
    obtain ⟨hc, _⟩ := hcov
    rw [hpar] at hc
    have htree : b.parsed.tree = .node b.cur.value b.cur.rkids.reverse := by
      simp [Builder.parsed, Builder.root, hpar, zipInto, Frame.close]
    rw [htree, Covered]
    refine ⟨?_, coveredList_of_R _ _ _ (by simpa [framesPath, Builder.parsed] using hc.1)⟩
    simp only [Builder.isCurrentDocument] at hdoc
    cases hv : b.cur.value <;> simp_all [Value.isDocument, nodeKeys]

end XotModel
