/-
  XotModel.Lemmas.WriterHtml — the HTML5 Write entry points in front of a failing writer
  (`serializeHtmlWriteW`, `serializeHtmlWriteNW`): each is its call trace replayed, the trace's calls
  concatenated / its end are the never-failing model, which is therefore the unlimited-budget instance;
  `N = id` is the entry point without normalizer.
-/
import XotModel.Lemmas.NormalizerHtml
import XotModel.Lemmas.Writer

namespace XotModel
open Gen

theorem htmlTokenCalls_flatten (k : OutputToken) : (htmlTokenCalls k).flatten = htmlTokenBytes k := by
  unfold htmlTokenCalls htmlTokenBytes
  cases k.space <;> simp

/-! ### With a normalizer -/

theorem htmlCallsN_eq (N : Str → Str) (c : HtmlCtx) (t : Tree) (s : HState) (outs : List (Path × Output)) :
    ((callsLoop (htmlStepCallsN N c t) s outs).1.flatten, (callsLoop (htmlStepCallsN N c t) s outs).2)
      = writeHtmlGoN N c t s outs := by
  induction outs generalizing s with
  | nil => simp [callsLoop, writeHtmlGoN]
  | cons po rest ih =>
    obtain ⟨p, o⟩ := po
    simp only [callsLoop, writeHtmlGoN, htmlStepCallsN]
    cases hr : renderHtmlAtN N c t s p o with
    | ok v =>
      obtain ⟨s', tok⟩ := v
      simp only [List.flatten_append, htmlTokenCalls_flatten]
      rw [← ih s']
    | err e => simp
    | panic => simp

theorem htmlPrettyCallsN_eq (N : Str → Str) (c : HtmlCtx) (sup : List Nat) (t : Tree) (ps : PStack)
    (s : HState) (outs : List (Path × Output)) :
    ((callsLoop (htmlPrettyStepCallsN N c sup t) (ps, s) outs).1.flatten,
      (callsLoop (htmlPrettyStepCallsN N c sup t) (ps, s) outs).2)
      = writeHtmlPrettyGoN N c sup t ps s outs := by
  induction outs generalizing ps s with
  | nil => simp [callsLoop, writeHtmlPrettyGoN]
  | cons po rest ih =>
    obtain ⟨p, o⟩ := po
    simp only [callsLoop, writeHtmlPrettyGoN, htmlPrettyStepCallsN]
    cases hp : prettifyHtmlAt c sup t ps p o with
    | mk ps' r =>
      obtain ⟨ind, nl⟩ := r
      simp only []
      cases hr : renderHtmlAtN N c t s p o with
      | ok v =>
        obtain ⟨s', tok⟩ := v
        simp only [List.flatten_append, htmlTokenCalls_flatten]
        rw [← ih ps' s']
        by_cases hi : ind > 0 <;> cases nl <;> simp [hi]
      | err e => by_cases hi : ind > 0 <;> simp [hi]
      | panic => by_cases hi : ind > 0 <;> simp [hi]

/-- `serialize_write_with_normalizer` threaded = its trace replayed against the writer. -/
theorem serializeHtmlWriteNW_eq_replayCalls (P : WriterPolicy) (N : Str → Str) (env : Env) (p : HtmlParams)
    (t : Tree) (start : Path) :
    serializeHtmlWriteNW P N env p t start = replayCalls P [] (serializeHtmlCallsN N env p t start) := by
  unfold serializeHtmlWriteNW serializeHtmlCallsN
  simp only []
  rw [replayCalls_append]
  cases h1 : writeCalls P [] [htmlDoctype] with
  | error b => rfl
  | ok h1' =>
    simp only []
    cases p.indentation with
    | none => exact writeLoopW_eq_replayCalls P _ _ _ _
    | some sup => exact writeLoopW_eq_replayCalls P _ _ _ _

/-- The trace concatenated = what the never-failing model writes; same end. -/
theorem serializeHtmlCallsN_eq (N : Str → Str) (env : Env) (p : HtmlParams) (t : Tree) (start : Path) :
    ((serializeHtmlCallsN N env p t start).1.flatten, (serializeHtmlCallsN N env p t start).2)
      = serializeHtmlWriteN N env p t start := by
  unfold serializeHtmlCallsN serializeHtmlWriteN
  cases p.indentation with
  | none =>
    simp only [List.flatten_append, List.flatten_cons, List.flatten_nil, List.append_nil]
    rw [← htmlCallsN_eq]
  | some sup =>
    simp only [List.flatten_append, List.flatten_cons, List.flatten_nil, List.append_nil]
    rw [← htmlPrettyCallsN_eq]

/-- The instance lemma: unlimited budget = the never-failing model. -/
theorem serializeHtmlWriteNW_unlimited (N : Str → Str) (env : Env) (p : HtmlParams) (t : Tree) (start : Path) :
    serializeHtmlWriteNW WriterPolicy.unlimited N env p t start = serializeHtmlWriteN N env p t start := by
  rw [serializeHtmlWriteNW_eq_replayCalls, replayCalls_unlimited, List.nil_append, serializeHtmlCallsN_eq]

/-! ### Without one (`N = id`) -/

theorem htmlStepCallsN_id (c : HtmlCtx) (t : Tree) : htmlStepCallsN id c t = htmlStepCalls c t := by
  funext s po
  simp only [htmlStepCallsN, htmlStepCalls, renderHtmlAtN_id]
  cases renderHtmlAt c t s po.1 po.2 with
  | ok v => cases v; rfl
  | err e => rfl
  | panic => rfl

theorem htmlPrettyStepCallsN_id (c : HtmlCtx) (sup : List Nat) (t : Tree) :
    htmlPrettyStepCallsN id c sup t = htmlPrettyStepCalls c sup t := by
  funext st po
  simp only [htmlPrettyStepCallsN, htmlPrettyStepCalls, renderHtmlAtN_id]
  cases renderHtmlAt c t st.2 po.1 po.2 with
  | ok v => cases v; rfl
  | err e => rfl
  | panic => rfl

theorem serializeHtmlWriteNW_id (P : WriterPolicy) (env : Env) (p : HtmlParams) (t : Tree) (start : Path) :
    serializeHtmlWriteNW P id env p t start = serializeHtmlWriteW P env p t start := by
  simp only [serializeHtmlWriteNW, serializeHtmlWriteW, htmlStepCallsN_id, htmlPrettyStepCallsN_id]
  cases writeCalls P [] [htmlDoctype] with
  | error b => rfl
  | ok h => cases p.indentation <;> rfl

theorem serializeHtmlCallsN_id (env : Env) (p : HtmlParams) (t : Tree) (start : Path) :
    serializeHtmlCallsN id env p t start = serializeHtmlCalls env p t start := by
  simp only [serializeHtmlCallsN, serializeHtmlCalls, htmlStepCallsN_id, htmlPrettyStepCallsN_id]
  cases p.indentation <;> rfl

theorem serializeHtmlWriteW_eq_replayCalls (P : WriterPolicy) (env : Env) (p : HtmlParams) (t : Tree)
    (start : Path) :
    serializeHtmlWriteW P env p t start = replayCalls P [] (serializeHtmlCalls env p t start) := by
  rw [← serializeHtmlWriteNW_id, ← serializeHtmlCallsN_id]
  exact serializeHtmlWriteNW_eq_replayCalls P id env p t start

theorem serializeHtmlCalls_eq (env : Env) (p : HtmlParams) (t : Tree) (start : Path) :
    ((serializeHtmlCalls env p t start).1.flatten, (serializeHtmlCalls env p t start).2)
      = serializeHtmlWrite env p t start := by
  rw [← serializeHtmlCallsN_id, serializeHtmlCallsN_eq, serializeHtmlWriteN_id]

theorem serializeHtmlWriteW_unlimited (env : Env) (p : HtmlParams) (t : Tree) (start : Path) :
    serializeHtmlWriteW WriterPolicy.unlimited env p t start = serializeHtmlWrite env p t start := by
  rw [serializeHtmlWriteW_eq_replayCalls, replayCalls_unlimited, List.nil_append, serializeHtmlCalls_eq]

end XotModel
