/-
  Finv (C04), part 29: `clone_node` at full strength.  The guard `Forest.cloneTopOK` (after the
  replay the scratch top element is still parentless and has at most one child) always holds under
  the invariant: this is the argument of the C06 lemmas (`Lemmas/FatomClone*.lean`, weak invariant
  `Forest.W`, relations `Step` / `Grow`), replayed here for the intermediate state.
-/
import XotModel.Lemmas.FatomCloneNode
import XotModel.Lemmas.FinvClone

namespace XotModel
open HTree

namespace Forest

/-- After the replay of an element source under the scratch element `f.next`, the scratch element
    is a root with at most one child. -/
theorem cloneInto_top_shape {f : Forest} (hi : f.Inv) {n : Nat} {src : HTree} {name : Nat}
    (hg : f.get? n = some src) (hsv : src.value = .element name) {f2 : Forest}
    (hc : cloneInto (f.newNode (.element name)).1 f.next src = some f2) :
    f2.isRoot f.next = true ∧ ∀ t, f2.get? f.next = some t → t.kids.length ≤ 1 := by
  have w := hi.toW
  have hvalid : validTree (!f.everOff) src = true := findList?_valid _ n f.roots src hi.valid hg
  obtain ⟨hwr, w1, fr1, hg1, hr1, hdead⟩ := newNode_spec w (.element name)
  rcases hnew : f.newNode (.element name) with ⟨f1, top⟩
  rw [hnew] at hwr w1 fr1 hg1 hr1 hc
  simp only at hwr w1 fr1 hg1 hr1 hc
  subst hwr
  have hel1 : f1.isElement f.next = true := by unfold isElement value?; rw [hg1]; rfl
  have hltop : f1.isLive f.next = true := isRoot_live hr1
  cases src with
  | node h v ks =>
    simp only [HTree.value] at hsv
    subst hsv
    have hoks : cloneOkList true ks = true := by
      have := valid_cloneOk _ true _ hvalid (Or.inr rfl)
      simpa [cloneOk, Value.isElement] using this
    obtain ⟨f2', x, hres, st, hel, kc⟩ := clone_first_step w1 (.element name) hltop (Or.inl hel1) rfl
      (fun _ => hel1)
    obtain ⟨hp2, he2⟩ := hel rfl
    have hlm : f2'.isLive f1.next = true := (parent?_live hp2).1
    obtain ⟨f', hf', g⟩ := cloneKids_grow ks f2' f1.next st.w hlm (Or.inl he2) (by rw [he2]; exact hoks)
    rw [cloneInto_other f1 f.next h (.element name) ks rfl, hres] at hc
    simp only [Value.isElement, if_true, hf', Option.some.injEq] at hc
    subst hc
    obtain ⟨_, w1', fr1', hg1', _, hdead1⟩ := newNode_spec w1 (.element name)
    have hne : f.next ≠ f1.next := fun e => by rw [e, hdead1] at hltop; cases hltop
    have hltop2 : f2'.isLive f.next = true := by
      rw [st.live _ hne, kc.isLive]; exact hltop
    have hltop' : f'.isLive f.next = true := g.live _ hltop2
    have hptop' : f'.parent? f.next = none := by
      rw [g.par _ hltop2, st.par _ hne, kc.parent]; exact isRoot_noParent w1 hr1
    have hleaf1 : (f1.newNode (.element name)).1.get? f.next = some (.node f.next (.element name) []) := by
      rw [newNode_get? _ hltop, hg1]
    have honly : ∀ y, f'.parent? y = some f.next → y = f1.next := by
      intro y hy
      cases hy2 : f2'.isLive y with
      | true =>
        by_cases e : y = f1.next
        · exact e
        · exfalso
          rw [g.par y hy2, st.par y e] at hy
          obtain ⟨cx, hc, hcp⟩ := ctx?_of_parent? hy
          obtain ⟨⟨v, hgp⟩, _⟩ := ctx?_spec w1' hc
          rw [hcp, hleaf1] at hgp
          injection hgp with hgp
          injection hgp with _ _ hk
          simp at hk
      | false =>
        exfalso
        rcases g.newpar y _ hy2 hy with h' | h'
        · exact hne h'
        · rw [hltop2] at h'; cases h'
    refine ⟨(isRoot_iff g.w _).2 ⟨hltop', hptop'⟩, ?_⟩
    intro t hgt
    apply length_le_one_of_all_eq (c := f1.next)
    · intro k hk
      exact honly _ (kid_spec g.w hgt hk).2
    · have hnt : (handles t).Nodup := (findList?_sublist _ f'.roots t hgt).nodup g.w.nodup
      rw [handles_eq] at hnt
      exact (map_handle_sublist t.kids).nodup (List.nodup_cons.1 hnt).2

/-- The guard of `C04_cloneNode_guarded` holds in every forest satisfying the invariant. -/
theorem cloneTopOK_of_inv {f : Forest} (hi : f.Inv) (node : Nat) : f.cloneTopOK node = true := by
  unfold cloneTopOK
  cases hg : f.get? node with
  | none => rfl
  | some src =>
    simp only
    cases hsv : src.value with
    | element name =>
      simp only
      have e1 : f.newElement name = f.newNode (.element name) := rfl
      have e2 : (f.newNode (.element name)).2 = f.next := rfl
      rw [e1, e2]
      cases hc : cloneInto (f.newNode (.element name)).1 f.next src with
      | none => rfl
      | some f2 =>
        simp only
        obtain ⟨h1, h2⟩ := cloneInto_top_shape hi hg hsv hc
        rw [h1, Bool.true_and]
        cases hgt : f2.get? f.next with
        | none => rfl
        | some t => simpa using h2 t hgt
    | _ => rfl

/-- `clone_node` preserves the invariant, for every argument. -/
theorem cloneNode_inv {f : Forest} (hi : f.Inv) (node : Nat) : (f.cloneNode node).1.Inv :=
  cloneNode_inv_of_topOK hi node (cloneTopOK_of_inv hi node)

end Forest
end XotModel
