/-
  Which token-level span ends up under which `SpanInfoKey` (C17_span_*).
-/
import XotModel.Lemmas.ParseNoPanic

namespace XotModel

theorem get_add_self (m : SpanMap) (k : SpanKey) (s : Span) : (m.add k s).get k = some s := by
  simp [SpanMap.get, SpanMap.add, List.lookup]

theorem get_add_other (m : SpanMap) (k k' : SpanKey) (s : Span) (h : k' ≠ k) : (m.add k s).get k' = m.get k' := by
  have : (k' == k) = false := by simpa using h
  simp only [SpanMap.get, SpanMap.add, List.lookup, this]
  exact lookup_filter_ne m k k' h

/-- Attribute spans never touch a key of another kind. -/
theorem get_addAttributeSpans_other (node : Path) (k : SpanKey)
    (hk : ∀ n, k ≠ ⟨node, .attributeName n⟩ ∧ k ≠ ⟨node, .attributeValue n⟩) :
    ∀ (l : List (Nat × Span × Span)) (m : SpanMap), (m.addAttributeSpans node l).get k = m.get k := by
  intro l
  induction l with
  | nil => intro m; rfl
  | cons a rest ih =>
    intro m
    obtain ⟨n, s1, s2⟩ := a
    simp only [SpanMap.addAttributeSpans]
    rw [ih, get_add_other _ _ _ _ (hk n).2, get_add_other _ _ _ _ (hk n).1]

theorem addAttributeSpans_append (node : Path) (l1 l2 : List (Nat × Span × Span)) :
    ∀ m : SpanMap, m.addAttributeSpans node (l1 ++ l2) = (m.addAttributeSpans node l1).addAttributeSpans node l2 := by
  induction l1 with
  | nil => intro m; rfl
  | cons a rest ih =>
    intro m
    obtain ⟨n, s1, s2⟩ := a
    simp only [List.cons_append, SpanMap.addAttributeSpans]
    exact ih _

/-- The LAST attribute with a given name id decides both of its keys (`HashMap::insert`). -/
theorem get_addAttributeSpans_last (node : Path) (m : SpanMap) (l : List (Nat × Span × Span))
    (n : Nat) (s1 s2 : Span) :
    (m.addAttributeSpans node (l ++ [(n, s1, s2)])).get ⟨node, .attributeName n⟩ = some s1 ∧
    (m.addAttributeSpans node (l ++ [(n, s1, s2)])).get ⟨node, .attributeValue n⟩ = some s2 := by
  rw [addAttributeSpans_append]
  simp only [SpanMap.addAttributeSpans]
  refine ⟨?_, get_add_self _ _ _⟩
  rw [get_add_other _ _ _ _ (by simp), get_add_self]

/-- `ElementStart(node)` after `open_element`: the span kept by the `ElementBuilder`. -/
theorem openElement_span {b b' : Builder} {eb : ElementBuilder} (heb : b.eb = some eb)
    (h : b.openElement = .ok b') :
    b'.spans.get ⟨b.curPath ++ [b.cur.rkids.length], .elementStart⟩ = some eb.span := by
  unfold Builder.openElement at h
  rw [heb] at h
  dsimp only at h
  split at h
  · cases h
  · cases h
  · split at h
    · cases h
    · cases h
    · simp only [Step.ok.injEq] at h
      subst h
      simp only
      rw [get_addAttributeSpans_other _ _ (fun n => ⟨by simp, by simp⟩), get_add_self]

/-- `ElementEnd(node)`: the span of the end token. -/
theorem leave_span {b b' : Builder} (node : Path) (sp : StrSpan) (h : b.leave node sp = .ok b') :
    b'.spans.get ⟨node, .elementEnd⟩ = some sp.span := by
  unfold Builder.leave at h
  cases ht : b.toParent with
  | ok b2 =>
    rw [ht] at h
    simp only [Step.ok.injEq] at h
    subst h
    exact get_add_self _ _ _
  | err e env => rw [ht] at h; cases h
  | panic => rw [ht] at h; cases h

/-- `Text(node)`: a first part records its own span … -/
theorem extendText_first (m : SpanMap) (node : Path) (s : Span) (h : m.get ⟨node, .text⟩ = none) :
    (m.extendText node s).get ⟨node, .text⟩ = some s := by
  unfold SpanMap.extendText; rw [h]; exact get_add_self _ _ _

/-- … every further part keeps the start and moves the end. -/
theorem extendText_next (m : SpanMap) (node : Path) (s ex : Span) (h : m.get ⟨node, .text⟩ = some ex) :
    (m.extendText node s).get ⟨node, .text⟩ = some ⟨ex.start, s.stop⟩ := by
  unfold SpanMap.extendText; rw [h]; exact get_add_self _ _ _

theorem comment_span (b : Builder) (t : StrSpan) :
    (b.comment t).spans.get ⟨b.curPath ++ [b.cur.rkids.length], .comment⟩ = some t.span := by
  simp only [Builder.comment, Builder.addLeaf]
  exact get_add_self _ _ _

theorem pi_spans (b : Builder) (target : StrSpan) (content : Option StrSpan) :
    (b.processingInstruction target content).spans.get ⟨b.curPath ++ [b.cur.rkids.length], .piTarget⟩ =
      some target.span ∧
    (b.processingInstruction target content).spans.get ⟨b.curPath ++ [b.cur.rkids.length], .piContent⟩ =
      (match content with
       | some c => some c.span
       | none => b.spans.get ⟨b.curPath ++ [b.cur.rkids.length], .piContent⟩) := by
  simp only [Builder.processingInstruction, Builder.addLeaf, Builder.curPath]
  cases content with
  | none =>
    exact ⟨get_add_self _ _ _, get_add_other _ _ _ _ (by simp)⟩
  | some c =>
    refine ⟨?_, get_add_self _ _ _⟩
    rw [get_add_other _ _ _ _ (by simp)]
    exact get_add_self _ _ _

/-! ### Every element / text child of the document node has its span -/

theorem finish_ok_parsed {b : Builder} {len : Nat} {m : Mode} {p : Parsed}
    (h : (match m with | .document => b.finishDocument len | .fragment => b.finishFragment) = .ok p) :
    b.isCurrentDocument = true ∧ p = b.parsed := by
  cases m with
  | document =>
    simp only [Builder.finishDocument] at h
    split at h
    · rename_i hd
      refine ⟨hd, ?_⟩
      split at h
      · cases h
      · cases h
      · split at h
        · cases h
        · simp only [BuildResult.ok.injEq] at h; exact h.symm
        · split at h <;> cases h
    · unfold Builder.unclosed at h; split at h <;> cases h
  | fragment =>
    simp only [Builder.finishFragment] at h
    split at h
    · rename_i hd
      simp only [BuildResult.ok.injEq] at h
      exact ⟨hd, h.symm⟩
    · unfold Builder.unclosed at h; split at h <;> cases h

theorem build_total_top {m : Mode} {len : Nat} {env : Env} {ts : List Token} {lexErr : Option Nat} {p : Parsed}
    (htags : TagsOk false ts) (hclose : NoStrayClose 0 ts) (h : build m len env ts lexErr = .ok p) :
    FwdSpans p.spans 0 p.tree.kids := by
  unfold build at h
  have hr := run_np lexErr ts (Builder.new env) false 0 (builderOk_new env) (noPanicInv_new env) htags hclose
  cases hb : (Builder.new env).run ts lexErr with
  | panic => rw [hb] at h; cases h
  | err e env' => rw [hb] at h; cases h
  | ok b =>
    rw [hb] at hr h
    obtain ⟨inTag, d, hinv⟩ := hr
    have hok := run_ok ts lexErr (builderOk_new env) hb
    obtain ⟨hdoc, hp⟩ := finish_ok_parsed (b := b) (len := len) (m := m) (p := p) (by cases m <;> exact h)
    subst hp
    have hpar : b.parents = [] := by
      cases hq : b.parents with
      | nil => rfl
      | cons q rest =>
        have hs := hok.2.2
        rw [hq] at hs
        simp only [ShapeOk] at hs
        have := hs.1
        simp only [Builder.isCurrentDocument] at hdoc
        cases hv : b.cur.value <;> simp_all [Value.isElement, Value.isDocument]
    have ht := hinv.top
    rw [hpar] at ht
    simp only [bottomRkids] at ht
    have hroot : b.parsed.tree.kids = b.cur.rkids.reverse := by
      simp [Builder.parsed, Builder.root, hpar, zipInto, Frame.close, Tree.kids]
    rw [hroot]
    exact fwdSpans_of_top _ _ ht

end XotModel
