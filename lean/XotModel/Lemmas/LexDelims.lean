/-
  XotModel.Lemmas.LexDelims — the DELIMITERS of the tokens of the reference tokenizer, on every input
  (complements `Token.Spelled`, Lemmas/LexSpellDefs.lean):

    * a comment token's whole span reads `<!--` body `-->`, the body span starts 4 bytes in;
    * a PI token's whole span reads `<?` target, white space, content, `?>`; the target span starts
      2 bytes in, the content span right behind the white space;
    * an end-tag token's whole span reads `</` name, white space, `>`, where the name is the qualified
      name `prefix:local` / `local` of the token (unless the name is written `:local`, `bareColon`);
    * a text token starts at byte 0 of the input or directly behind a token whose whole span ends
      with `>` (`TextAdj`): in particular never behind `<![CDATA[`.
-/
import XotModel.Lemmas.LexSpell

namespace XotModel

/-- What the whole span of a comment / PI / end-tag token spells around the inner spans. -/
def Token.Delims : Token → Prop
  | .comment t sp => sp.text = Lex.litCommentOpen ++ t.text ++ Lex.litCommentClose ∧ t.start = sp.start + 4
  | .pi tg c sp => ∃ ws body, sp.text = Lex.litPiOpen ++ tg.text ++ ws ++ body ++ Lex.litPiClose ∧
      (∀ x ∈ ws, isXmlSpace x = true) ∧ tg.start = sp.start + 2 ∧
      (∀ cs, c = some cs → cs.text = body ∧ cs.start = sp.start + 2 + strLen tg.text + strLen ws) ∧
      (c = none → body = [])
  | .elementEnd (.close p l) sp => ∃ nm ws, sp.text = '<' :: '/' :: (nm ++ ws ++ ['>']) ∧
      (∀ x ∈ ws, isXmlSpace x = true) ∧ (p.bareColon = false → nm = tokQName p.text l.text)
  | _ => True

/-- The whole span ends with `>`. -/
def Token.EndsGt (t : Token) : Prop := ∃ pre, t.wholeSpan.text = pre ++ ['>']

/-- Consecutive tokens `a b`: a text token `b` starts where the whole span of `a` ends, and that span
    ends with `>`. -/
def TextAdj (a b : Token) : Prop := b.isTextTok = true → a.wholeSpan.stop = b.wholeSpan.start ∧ a.EndsGt

namespace Lex.Slice

open XotModel.Lex.Stream

/-! ### Stream pieces -/

theorem take_length_takeWhile {α : Type} (p : α → Bool) : ∀ l : List α, l.take (l.takeWhile p).length = l.takeWhile p
  | [] => rfl
  | x :: xs => by
    simp only [List.takeWhile_cons]
    split
    · simp only [List.length_cons, List.take_succ_cons, take_length_takeWhile p xs]
    · rfl

theorem mem_takeWhile_sat {α : Type} (p : α → Bool) : ∀ (l : List α) (x : α), x ∈ l.takeWhile p → p x = true
  | [], _, h => by cases h
  | y :: ys, x, h => by
    simp only [List.takeWhile_cons] at h
    split at h
    · next hy =>
      rcases List.mem_cons.mp h with rfl | h
      · exact hy
      · exact mem_takeWhile_sat p ys x h
    · cases h

theorem skipSpaces_text (s : Lex.Stream) : (sliceBack s s.skipSpaces).text = s.rest.takeWhile isXmlSpace := by
  show (sliceBack s (s.adv (s.rest.takeWhile isXmlSpace).length)).text = _
  rw [sliceBack_text_adv, take_length_takeWhile]

theorem skipSpaces_text_spaces (s : Lex.Stream) : ∀ x ∈ (sliceBack s s.skipSpaces).text, isXmlSpace x = true := by
  rw [skipSpaces_text]
  intro x hx
  exact mem_takeWhile_sat _ _ x hx

/-- The text `consume_qname` moves over: the qualified name of the two spans, or `:local` with an empty
    prefix span positioned at the colon. -/
theorem consumeQName_written {s s' : Lex.Stream} {p l : StrSpan} (h : s.consumeQName = some (p, l, s')) :
    (sliceBack s s').text = tokQName p.text l.text ∨ (p.text = [] ∧ p.start = s.pos) := by
  unfold consumeQName at h
  split at h
  · simp at h
  · next k sp hk =>
    cases sp with
    | none =>
      dsimp only at h
      split at h
      · simp at h
      · split at h
        · simp at h
        · simp only [Option.some.injEq, Prod.mk.injEq] at h
          obtain ⟨rfl, rfl, rfl⟩ := h
          left
          simp [tokQName, emptySpan]
    | some i =>
      dsimp only at h
      split at h
      · simp at h
      · split at h
        · simp at h
        · simp only [Option.some.injEq, Prod.mk.injEq] at h
          obtain ⟨rfl, rfl, rfl⟩ := h
          by_cases hp : (sliceBack s (s.adv i)).text = []
          · exact .inr ⟨hp, rfl⟩
          · left
            obtain ⟨hik, hkl, hcol⟩ := qnameLoop_colon hk
            have hpe : (sliceBack s (s.adv i)).text.isEmpty = false := by
              cases hx : (sliceBack s (s.adv i)).text with
              | nil => exact absurd hx hp
              | cons c cs => rfl
            have r1 : Reach s (s.adv i) := Reach.adv s i
            have r2 : Reach (s.adv i) (s.adv (i + 1)) := ⟨1, by rw [adv_adv]⟩
            have r3 : Reach (s.adv (i + 1)) (s.adv k) := ⟨k - (i + 1), by rw [adv_adv]; congr 1; omega⟩
            have hcolon : (sliceBack (s.adv i) (s.adv (i + 1))).text = [':'] := by
              have : s.adv (i + 1) = (s.adv i).adv 1 := by rw [adv_adv]
              rw [this, sliceBack_text_adv]
              simp only [adv_rest]
              have hlt : i < s.rest.length := by omega
              rw [List.drop_eq_getElem_cons hlt]
              have : s.rest[i] = ':' := by
                have := List.getElem?_eq_getElem hlt
                rw [this] at hcol
                exact Option.some.inj hcol
              rw [this]; rfl
            rw [Reach.text_split r1 (r2.trans r3), Reach.text_split r2 r3, hcolon]
            simp only [tokQName, hpe, Bool.false_eq_true, if_false]
            rfl

/-! ### The three parsers -/

theorem parseComment_delims {s s' : Lex.Stream} {t : Token} (ho : s.startsWith litCommentOpen = true)
    (h : parseComment s = some (t, s')) :
    t.Delims ∧ t.wholeSpan.stop = s'.pos ∧ t.EndsGt ∧ ∃ a b, t = .comment a b := by
  simp only [parseComment, Option.bind_eq_bind, Option.bind_eq_some_iff] at h
  obtain ⟨s2, h2, s3, h3, h⟩ := h
  split at h
  · simp at h
  · split at h
    · simp at h
    · simp only [Option.some.injEq, Prod.mk.injEq] at h
      obtain ⟨rfl, rfl⟩ := h
      have r1 : Reach s (s.adv 4) := Reach.adv s 4
      have r2 : Reach (s.adv 4) s2 := skipChars_reach h2
      have r3 : Reach s2 s3 := skipString_reach h3
      have hopen : (sliceBack s (s.adv 4)).text = litCommentOpen := by
        rw [sliceBack_text_adv]; exact startsWith_take ho
      have htext : (sliceBack s s3).text = litCommentOpen ++ (sliceBack (s.adv 4) s2).text ++ litCommentClose := by
        rw [Reach.text_split r1 (r2.trans r3), Reach.text_split r2 r3, skipString_text h3, hopen,
          List.append_assoc]
      refine ⟨⟨htext, ?_⟩, Reach.sliceBack_stop (r1.trans (r2.trans r3)), ?_, _, _, rfl⟩
      · show (s.adv 4).pos = s.pos + 4
        rw [Reach.pos_eq r1, hopen]; rfl
      · refine ⟨litCommentOpen ++ (sliceBack (s.adv 4) s2).text ++ ['-', '-'], ?_⟩
        show (sliceBack s s3).text = _
        rw [htext]
        simp [litCommentClose]

theorem parsePI_delims {s s' : Lex.Stream} {t : Token} (ho : s.startsWith litPiOpen = true)
    (h : parsePI s = some (t, s')) :
    t.Delims ∧ t.wholeSpan.stop = s'.pos ∧ t.EndsGt ∧ ∃ a c b, t = .pi a c b := by
  simp only [parsePI, Option.bind_eq_bind, Option.bind_eq_some_iff, Option.some.injEq,
    Prod.mk.injEq] at h
  obtain ⟨⟨tg, s2⟩, h2, s4, h4, s5, h5, rfl, rfl⟩ := h
  have r1 : Reach s (s.adv 2) := Reach.adv s 2
  have r2 : Reach (s.adv 2) s2 := consumeName_reach h2
  have r3 : Reach s2 s2.skipSpaces := skipSpaces_reach s2
  have r4 : Reach s2.skipSpaces s4 := skipChars_reach h4
  have r5 : Reach s4 s5 := skipString_reach h5
  have hopen : (sliceBack s (s.adv 2)).text = litPiOpen := by
    rw [sliceBack_text_adv]; exact startsWith_take ho
  have htg : tg = sliceBack (s.adv 2) s2 := by
    unfold Stream.consumeName at h2
    split at h2
    · cases h2
    · next s'' hs'' =>
      dsimp only at h2
      split at h2
      · cases h2
      · simp only [Option.some.injEq, Prod.mk.injEq] at h2
        obtain ⟨rfl, rfl⟩ := h2
        rfl
  have htext : (sliceBack s s5).text = litPiOpen ++ tg.text ++ (sliceBack s2 s2.skipSpaces).text ++
      (sliceBack s2.skipSpaces s4).text ++ litPiClose := by
    rw [Reach.text_split r1 (r2.trans (r3.trans (r4.trans r5))), Reach.text_split r2 (r3.trans (r4.trans r5)),
      Reach.text_split r3 (r4.trans r5), Reach.text_split r4 r5, skipString_text h5, hopen, htg]
    simp only [List.append_assoc]
  have hpos2 : (s.adv 2).pos = s.pos + 2 := by
    rw [Reach.pos_eq r1, hopen]; rfl
  refine ⟨⟨(sliceBack s2 s2.skipSpaces).text, (sliceBack s2.skipSpaces s4).text, htext, skipSpaces_text_spaces s2,
    ?_, ?_, ?_⟩, Reach.sliceBack_stop (r1.trans (r2.trans (r3.trans (r4.trans r5)))), ?_, _, _, _, rfl⟩
  · rw [htg]; exact hpos2
  · intro cs hcs
    split at hcs
    · cases hcs
    · simp only [Option.some.injEq] at hcs
      subst hcs
      refine ⟨rfl, ?_⟩
      show s2.skipSpaces.pos = s.pos + 2 + strLen tg.text + strLen (sliceBack s2 s2.skipSpaces).text
      rw [Reach.pos_eq r3, Reach.pos_eq r2, hpos2, htg]
  · intro hc
    split at hc
    · next he => simpa using he
    · cases hc
  · refine ⟨litPiOpen ++ tg.text ++ (sliceBack s2 s2.skipSpaces).text ++ (sliceBack s2.skipSpaces s4).text ++ ['?'], ?_⟩
    show (sliceBack s s5).text = _
    rw [htext]
    simp [litPiClose]

theorem parseCloseElement_delims {s s' : Lex.Stream} {t : Token}
    (hc : s.curr? = some '<') (hn : s.next? = some '/')
    (h : parseCloseElement s = some (t, s')) :
    t.Delims ∧ t.wholeSpan.stop = s'.pos ∧ t.EndsGt ∧ ∃ p l b, t = .elementEnd (.close p l) b := by
  simp only [parseCloseElement, Option.bind_eq_bind, Option.bind_eq_some_iff, Option.some.injEq,
    Prod.mk.injEq] at h
  obtain ⟨⟨p, l, s1⟩, h1, s2, h2, rfl, rfl⟩ := h
  have r1 : Reach s (s.adv 2) := Reach.adv s 2
  have r2 : Reach (s.adv 2) s1 := consumeQName_reach h1
  have r3 : Reach s1 s1.skipSpaces := skipSpaces_reach s1
  have r4 : Reach s1.skipSpaces s2 := consumeByte_reach h2
  have hopen : (sliceBack s (s.adv 2)).text = ['<', '/'] := by
    rw [sliceBack_text_adv]
    obtain ⟨r, hr⟩ := curr_rest hc
    simp only [Stream.next?, hr, List.tail_cons] at hn
    cases r with
    | nil => cases hn
    | cons d r' =>
      simp only [List.head?_cons, Option.some.injEq] at hn
      subst hn
      rw [hr]; rfl
  have htext : (sliceBack s s2).text =
      '<' :: '/' :: ((sliceBack (s.adv 2) s1).text ++ (sliceBack s1 s1.skipSpaces).text ++ ['>']) := by
    rw [Reach.text_split r1 (r2.trans (r3.trans r4)), Reach.text_split r2 (r3.trans r4), Reach.text_split r3 r4,
      consumeByte_text h2, hopen]
    simp only [List.cons_append, List.nil_append, List.append_assoc]
  have hpos2 : (s.adv 2).pos = s.pos + 2 := by
    rw [Reach.pos_eq r1, hopen]; rfl
  refine ⟨⟨(sliceBack (s.adv 2) s1).text, (sliceBack s1 s1.skipSpaces).text, htext, skipSpaces_text_spaces s1, ?_⟩,
    Reach.sliceBack_stop (r1.trans (r2.trans (r3.trans r4))), ?_, _, _, _, rfl⟩
  · intro hbc
    rcases consumeQName_written h1 with hw | ⟨hp, hst⟩
    · exact hw
    · exfalso
      simp only [StrSpan.bareColon, hp, List.isEmpty_nil, Bool.true_and, bne_eq_false_iff_eq, hst, hpos2] at hbc
      omega
  · exact ⟨'<' :: '/' :: ((sliceBack (s.adv 2) s1).text ++ (sliceBack s1 s1.skipSpaces).text), by
      show (sliceBack s s2).text = _
      rw [htext]; simp⟩

end Lex.Slice

end XotModel
