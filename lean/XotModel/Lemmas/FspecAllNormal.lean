/-
  FspecAllNormal — the two readings of C05's consolidation clause agree on forests without
  adjacent text nodes: for a forest with `Forest.Inv` and `Forest.Normal`, a live node `c`, a
  destination whose parent `q` is not a text node and does not lie in the moved subtree, and (for
  `after` / `before`) a reference node other than `c`,

      specMoveP dest c f = specMove (Keep.resident c) dest c f.

  Specification against specification: no model function (`Manip.lean`) is involved.
-/
import XotModel.Lemmas.FspecAllNormalList
import XotModel.Lemmas.FspecFrame
import XotModel.Lemmas.FspecPairBefore

namespace XotModel
open HTree Spec

namespace PairAll

/-! ### The pair merge as an edit -/

theorem mergeLeftAt_eq_adjOpt {g : Forest} (hc : g.consolidation = true) (p : Nat) (nb : Option Nat × Option Nat) :
    g.mergeLeftAt (some p) nb = g.editAt (some p) (adjOpt nb) := by
  obtain ⟨oa, ob⟩ := nb
  cases oa with
  | none => rw [Forest.mergeLeftAt_none_left]; exact (Forest.editAt_id g (some p)).symm
  | some a =>
    cases ob with
    | none => rw [Forest.mergeLeftAt_none_right]; exact (Forest.editAt_id g (some p)).symm
    | some b => rw [Forest.mergeLeftAt_some, hc, if_pos rfl]; rfl

theorem natFor_adjOpt {φ : HTree → HTree} (hφ : KidMap φ) (nb : Option Nat × Option Nat) : NatFor φ (adjOpt nb) := by
  obtain ⟨oa, ob⟩ := nb
  cases oa with
  | none => exact natFor_id φ
  | some a =>
    cases ob with
    | none => exact natFor_id φ
    | some b => exact PairAfter.natFor_mergeAdj hφ a b

/-! ### Where the insertion goes -/

/-- What is known about the place of insertion, by destination. -/
def SplitInfo (dest : Dest) (L A B : List HTree) : Prop :=
  match dest with
  | .lastChildOf _ => B = []
  | .firstNormalChildOf _ => A = L.takeWhile abn
  | .after x => ∃ k, A.getLast? = some k ∧ k.handle = x
  | .before x => ∃ k, B.head? = some k ∧ k.handle = x

/-- The insertion of `t` splits the child list in two. -/
theorem insert_split (dest : Dest) (t : HTree) (L : List HTree) (nd : (handlesList L).Nodup)
    (href : ∀ x, (dest = .after x ∨ dest = .before x) → IsTop x L) :
    ∃ A B, L = A ++ B ∧ dest.insert t L = A ++ t :: B ∧ SplitInfo dest L A B := by
  cases dest with
  | lastChildOf p => exact ⟨L, [], by simp, by simp [Dest.insert, insertLast], rfl⟩
  | firstNormalChildOf p =>
    exact ⟨L.takeWhile abn, L.dropWhile abn, List.takeWhile_append_dropWhile.symm,
      insertFirstNormal_eq t L, rfl⟩
  | after x =>
    obtain ⟨A, k, B, hL, hk⟩ := isTop_split (href x (Or.inl rfl))
    subst hL hk
    refine ⟨A ++ [k], B, by simp, ?_, k, by simp, rfl⟩
    simp only [Dest.insert]
    rw [insertAfterTop_mid t (tops_ne_of_nodup nd).1]
    simp
  | before x =>
    obtain ⟨A, k, B, hL, hk⟩ := isTop_split (href x (Or.inr rfl))
    subst hL hk
    refine ⟨A, k :: B, rfl, ?_, k, rfl, rfl⟩
    simp only [Dest.insert]
    exact insertBeforeTop_mid t (tops_ne_of_nodup nd).1

theorem isTop_map {φ : HTree → HTree} (hφ : KidMap φ) {x : Nat} {L : List HTree} (h : IsTop x L) :
    IsTop x (L.map φ) := by
  obtain ⟨k, hk, e⟩ := h
  exact ⟨φ k, List.mem_map_of_mem hk, by rw [hφ.handle, e]⟩

theorem handlesTop_map {φ : HTree → HTree} (hφ : KidMap φ) {n : Nat} {L : List HTree}
    (h : ∀ k ∈ L, k.handle ≠ n) : ∀ k ∈ L.map φ, k.handle ≠ n := by
  intro k hk
  obtain ⟨k0, hk0, e⟩ := List.mem_map.1 hk
  rw [← e, hφ.handle]
  exact h k0 hk0

/-- The reference node of `after` / `before` is a child of the destination parent. -/
theorem ref_isTop {f : Forest} {dest : Dest} {q : Nat} {vq : Value} {Lq : List HTree} (sq : SiteAt f q vq Lq)
    (hsite : dest.site f = some q) : ∀ x, (dest = .after x ∨ dest = .before x) → IsTop x Lq := by
  intro x hx
  have hp : f.parent? x = some q := by
    rcases hx with e | e <;> (subst e; exact hsite)
  cases hc : f.ctx? x with
  | none => rw [Forest.parent?_of_no_ctx hc] at hp; cases hp
  | some cx =>
    obtain ⟨e0, v, s⟩ := SiteAt.of_ctx sq.nd hc
    rw [Forest.parent?_of_ctx hc] at hp
    have hq := Option.some.inj hp
    have := s.kids
    rw [hq, sq.kids] at this
    injection (Option.some.inj this) with _ _ e3
    rw [e3]
    exact ⟨cx.self, List.mem_append_right _ List.mem_cons_self, e0⟩

/-! ### The theorem -/

/-- The three geometries share this: at the destination, in a forest `Y` in which the parent `q`
    has a child list free of adjacent text that does not hold `c`. -/
theorem dest_step {Y : Forest} {q : Nat} {vq : Value} {LY : List HTree} {dest : Dest} {t : HTree}
    (sY : SiteAt Y q vq LY) (hno : noAdjacentText LY = true) (hc : ∀ k ∈ LY, k.handle ≠ t.handle)
    (href : ∀ x, (dest = .after x ∨ dest = .before x) → IsTop x LY) :
    Y.editAt (some q) (mergeNew t.handle ∘ dest.insert t) =
      Y.editAt (some q) (mergeRuns (Keep.resident t.handle) ∘ dest.insert t) := by
  apply sY.congr
  simp only [Function.comp]
  obtain ⟨A, B, hL, hins, _⟩ := insert_split dest t LY sY.nodupKids.1 href
  rw [hins]
  subst hL
  exact (mergeRuns_eq_mergeNew A B hno (fun x hx => hc x (List.mem_append_left _ hx))
    (fun x hx => hc x (List.mem_append_right _ hx))).symm

/-- **The two readings agree on forests without adjacent text nodes.** -/
theorem specMoveP_eq_specMove {f : Forest} {dest : Dest} {c : Nat} {t : HTree} {q : Nat} {vq : Value}
    {Lq : List HTree} (inv : f.Inv) (norm : f.Normal) (hgc : f.get? c = some t) (sq : SiteAt f q vq Lq)
    (hqt : q ∉ handles t) (hvq : vq.isText = false) (hsite : dest.site f = some q)
    (hrefc : ∀ x, (dest = .after x ∨ dest = .before x) → x ≠ c) :
    specMoveP dest c f = specMove (Keep.resident c) dest c f := by
  have nd := inv.nodup
  have htc : t.handle = c := (findList?_some f.roots t hgc).1
  cases hocc : dest.occupiedBy f c with
  | true => unfold specMoveP specMove; rw [hocc]; rfl
  | false =>
  rw [specMoveP_unfold hocc hgc hsite, specMove_unfold hocc hgc hsite]
  cases hcons : f.consolidation with
  | false =>
    have c2 : ((f.editAt (f.parent? c) (dropTop c)).editAt (some q) (dest.insert t)).consolidation = false := by
      rw [Forest.editAt_consolidation, Forest.editAt_consolidation]; exact hcons
    rw [Forest.mergeLeftAt_off c2, Forest.mergeNewAt_off c2, mergeAt_off c2, mergeAt_off c2]
  | true =>
  have hstrict : validList true f.roots = true := norm hcons
  have hrefq := ref_isTop sq hsite
  have hnoq : noAdjacentText Lq = true := (validTree_node (sq.valid hstrict)).2.2.1 rfl
  subst htc
  have c2 : ((f.editAt (f.parent? t.handle) (dropTop t.handle)).editAt (some q) (dest.insert t)).consolidation
      = true := by
    rw [Forest.editAt_consolidation, Forest.editAt_consolidation]; exact hcons
  rcases Forest.root_or_ctx hgc with hroot | ⟨cx, hctx⟩
  · -- the moved node is a parentless tree
    have hno := Forest.ctx_none_of_root nd hroot
    rw [Forest.parent?_of_no_ctx hno, Forest.nbOf_root (Forest.parent?_of_no_ctx hno), Forest.mergeLeftAt_none,
      mergeAt_none]
    rw [Forest.parent?_of_no_ctx hno] at c2
    rw [Forest.mergeNewAt_on c2, mergeAt_on c2, Forest.editAt_editAt, Forest.editAt_editAt]
    apply dest_step (sq.dropRoot hgc hqt) hnoq _ hrefq
    intro k hk e
    -- a child of `q` is not a parentless tree
    obtain ⟨X, Y, hXY⟩ := List.append_of_mem hk
    have s' : SiteAt f q vq (X ++ k :: Y) := hXY ▸ sq
    have := s'.ctx
    rw [e, hno] at this
    cases this
  · obtain ⟨e0, vo, so⟩ := SiteAt.of_ctx nd hctx
    have hself : cx.self = t := by
      have := Forest.get?_of_ctx nd hctx
      rw [hgc] at this
      exact (Option.some.inj this).symm
    obtain ⟨po, l, k, r⟩ := cx
    simp only at e0 so hself
    subst hself
    have hpar : f.parent? k.handle = some po := Forest.parent?_of_ctx hctx
    rw [hpar] at c2 ⊢
    rw [so.nbOf]
    obtain ⟨ndL, hpoL⟩ := so.nodupKids
    obtain ⟨tl, tr⟩ := tops_ne_of_nodup ndL
    have hdrop : dropTop k.handle (l ++ k :: r) = l ++ r := dropTop_mid rfl tl tr
    have hnoL : noAdjacentText (l ++ k :: r) = true := (validTree_node (so.valid hstrict)).2.2.1 rfl
    obtain ⟨hnl, hnkr, _⟩ := noAdj_append.1 hnoL
    have hnr : noAdjacentText r = true := noAdj_tail hnkr
    have c3 : (((f.editAt (some po) (dropTop k.handle)).editAt (some q) (dest.insert k)).mergeLeftAt (some po)
        (l.getLast?.map (·.handle), r.head?.map (·.handle))).consolidation = true := by
      rw [Forest.mergeLeftAt_consolidation]; exact c2
    have c4 : (((f.editAt (some po) (dropTop k.handle)).editAt (some q) (dest.insert k)).mergeAt
        (Keep.resident k.handle) (some po)).consolidation = true := by
      rw [mergeAt_on c2, Forest.editAt_consolidation]; exact c2
    rw [Forest.mergeNewAt_on c3, mergeAt_on c4, mergeLeftAt_eq_adjOpt c2, mergeAt_on c2]
    by_cases hpq : po = q
    · -- one child list
      subst hpq
      have hlists : vo = vq ∧ Lq = l ++ k :: r := by
        have := so.kids
        rw [sq.kids] at this
        injection (Option.some.inj this) with _ e2 e3
        exact ⟨e2.symm, e3⟩
      obtain ⟨_, hLq⟩ := hlists
      subst hLq
      rw [Forest.editAt_editAt, Forest.editAt_editAt, Forest.editAt_editAt, Forest.editAt_editAt,
        Forest.editAt_editAt, Forest.editAt_editAt]
      apply so.congr
      simp only [Function.comp]
      rw [hdrop]
      have ndlr : (handlesList (l ++ r)).Nodup := by
        rw [← hdrop]; exact (handlesList_dropTop_sublist _ _).nodup ndL
      have hreflr : ∀ x, (dest = .after x ∨ dest = .before x) → IsTop x (l ++ r) := by
        intro x hx
        obtain ⟨k', hk', e⟩ := hrefq x hx
        refine ⟨k', ?_, e⟩
        cases List.mem_append.1 hk' with
        | inl h => exact List.mem_append_left _ h
        | inr h =>
          cases List.mem_cons.1 h with
          | inl h' => exact absurd (h' ▸ e) (fun e' => hrefc x hx e'.symm)
          | inr h' => exact List.mem_append_right _ h'
      obtain ⟨A, B, hAB, hins, hinfo⟩ := insert_split dest k (l ++ r) ndlr hreflr
      rw [hins]
      apply same_list ndL hnoL hAB.symm
      -- the node is not put back between the two text nodes it separated
      intro a b hla hrb hat hbt ⟨eA, eB⟩
      subst eA eB
      obtain ⟨l', el⟩ := List.getLast?_eq_some_iff.1 hla
      obtain ⟨r', er⟩ := List.head?_eq_some_iff.1 hrb
      subst el er
      cases dest with
      | lastChildOf p => exact List.cons_ne_nil _ _ hinfo
      | firstNormalChildOf p =>
        have hmem : a ∈ ((l' ++ [a]) ++ b :: r').takeWhile abn := by
          have hinfo' : l' ++ [a] = ((l' ++ [a]) ++ b :: r').takeWhile abn := hinfo
          rw [← hinfo']; simp
        have := takeWhile_abn_all _ a hmem
        rw [PairAfter.text_normal hat] at this
        cases this
      | after x =>
        obtain ⟨k', hk', ek'⟩ := hinfo
        simp only [List.getLast?_concat, Option.some.injEq] at hk'
        subst hk'
        have s' : SiteAt f po vo (l' ++ a :: (k :: b :: r')) := by
          have : l' ++ a :: (k :: b :: r') = (l' ++ [a]) ++ k :: b :: r' := by simp
          rw [this]; exact so
        have hcx := s'.ctx
        rw [ek'] at hcx
        simp [Dest.occupiedBy, hcx] at hocc
      | before x =>
        obtain ⟨k', hk', ek'⟩ := hinfo
        simp only [List.head?_cons, Option.some.injEq] at hk'
        subst hk'
        have s' : SiteAt f po vo (((l' ++ [a]) ++ [k]) ++ b :: r') := by
          have : ((l' ++ [a]) ++ [k]) ++ b :: r' = (l' ++ [a]) ++ k :: b :: r' := by simp
          rw [this]; exact so
        have hcx := s'.ctx
        rw [ek'] at hcx
        simp [Dest.occupiedBy, hcx] at hocc
    · -- another child list
      have hpot : po ∉ handles k := by
        intro hin
        apply hpoL
        rw [fs_handlesList_append, handlesList_cons]
        exact List.mem_append_right _ (List.mem_append_left _ hin)
      have hkm : ∀ G, KidMap (HTree.editAt po G) := fun G => kidMap_editAt po G
      have hnatI : ∀ G, NatFor (HTree.editAt po G) (dest.insert k) :=
        fun G => natFor_insert (hkm G) (editAt_of_not_mem k hpot) dest
      have hkq : ∀ G, KidMap (HTree.editAt q G) := fun G => kidMap_editAt q G
      -- both sides: the merge at the old place moved in front of the graft
      rw [Forest.editAt_comm _ hpq (natFor_adjOpt (hkq _) _) (hnatI _),
        Forest.editAt_comm (f.editAt (some po) (dropTop k.handle)) hpq (natFor_mergeRuns (hkq _) _) (hnatI _),
        Forest.editAt_editAt, Forest.editAt_editAt, Forest.editAt_editAt, Forest.editAt_editAt]
      have hkeep : ∀ a ∈ l, ∀ b, Keep.resident k.handle a.handle b = true :=
        fun a ha b => Keep.resident_spec _ _ _ (tl a ha)
      have ndlr : (handlesList (l ++ r)).Nodup := by
        rw [← hdrop]; exact (handlesList_dropTop_sublist _ _).nodup ndL
      have hold : f.editAt (some po) (adjOpt (l.getLast?.map (·.handle), r.head?.map (·.handle)) ∘ dropTop k.handle) =
          f.editAt (some po) (mergeRuns (Keep.resident k.handle) ∘ dropTop k.handle) := by
        apply so.congr
        simp only [Function.comp]
        rw [hdrop, mergeRuns_eq_mergeAdj hnl hnr ndlr hkeep]
      rw [hold]
      -- the destination child list after the edit at the old place
      have hleafo := so.leaf inv.valid
      have hsub : (handlesList ((mergeRuns (Keep.resident k.handle) ∘ dropTop k.handle) (l ++ k :: r))).Sublist
          (handlesList (l ++ k :: r)) := by
        simp only [Function.comp]
        exact (handlesList_mergeRuns_sublist _ _).trans (handlesList_dropTop_sublist _ _)
      have hlook : findList? q ((mergeRuns (Keep.resident k.handle) ∘ dropTop k.handle) (l ++ k :: r)) =
          findList? q (l ++ k :: r) := by
        simp only [Function.comp]
        rw [findList?_mergeRuns, findList?_dropTop]
        · intro k' hk' hkc
          have : k' = k := PairAfter.eq_of_handle ndL hk' (by simp) hkc
          rw [this]; exact hqt
        · intro k' hk' hkt
          rw [hdrop] at hk'
          have hk'L : k' ∈ l ++ k :: r := by
            cases List.mem_append.1 hk' with
            | inl h => exact List.mem_append_left _ h
            | inr h => exact List.mem_append_right _ (List.mem_cons_of_mem _ h)
          refine ⟨hleafo k' hk'L hkt, ?_⟩
          exact PairAfter.text_ne_site sq hvq (PairAfter.site_getKid so hk'L) hkt
      have sY := so.other sq.kids (fun e => hpq e.symm) _ hsub hlook
      have hcq : ∀ k' ∈ Lq, k'.handle ≠ k.handle := by
        intro k' hk' e
        obtain ⟨X, Y, hXY⟩ := List.append_of_mem hk'
        have s' : SiteAt f q vq (X ++ k' :: Y) := hXY ▸ sq
        have := Forest.parent?_of_ctx s'.ctx
        rw [e, hpar] at this
        exact hpq (Option.some.inj this)
      exact dest_step sY (by rw [noAdj_map (hkm _)]; exact hnoq) (handlesTop_map (hkm _) hcq)
        (fun x hx => isTop_map (hkm _) (hrefq x hx))

end PairAll
end XotModel
