/-
  Algebra of `mapAt` for the top-down route, where the parent sits anywhere inside a tree:
  lookup after an update at the same handle, composition of updates, an update inside a freshly
  appended child, and the handle count after appending children.
-/
import XotModel.Lemmas.FfixedBottomUp

namespace XotModel
open HTree

/-- Append `xs` to the children. -/
def appKids (xs : List HTree) : HTree → HTree := fun n => n.setKids (n.kids ++ xs)

theorem appKids_handle (xs : List HTree) (t : HTree) : (appKids xs t).handle = t.handle := by
  cases t; rfl

theorem appKids_node (xs : List HTree) (h : Nat) (v : Value) (ks : List HTree) :
    appKids xs (.node h v ks) = .node h v (ks ++ xs) := rfl

theorem appKids_comp (xs ys : List HTree) : appKids ys ∘ appKids xs = appKids (xs ++ ys) := by
  funext t; cases t; simp [appKids, HTree.setKids, HTree.kids]

theorem find?_of_handle {t : HTree} {h : Nat} (e : t.handle = h) : find? h t = some t := by
  rw [← e]; exact find?_self_ff t

theorem mapAt_of_handle {t : HTree} {h : Nat} (g : HTree → HTree) (e : t.handle = h) :
    mapAt h g t = g t := by
  cases t; simp only [HTree.handle] at e; simp [mapAt, e]

theorem ffx_mapAtList_append (h : Nat) (g : HTree → HTree) (a b : List HTree) :
    mapAtList h g (a ++ b) = mapAtList h g a ++ mapAtList h g b := by
  induction a with
  | nil => rfl
  | cons k ks ih => simp [mapAtList, ih]

mutual
  theorem ffx_find?_mapAt_self (p : Nat) (g : HTree → HTree) (hg : ∀ t, (g t).handle = t.handle) :
      ∀ t : HTree, find? p (mapAt p g t) = (find? p t).map g
    | .node h v ks => by
      by_cases e : h = p
      · rw [mapAt_of_handle g (by simp [HTree.handle, e]), find?_of_handle (by rw [hg]; simp [HTree.handle, e]),
          find?_of_handle (by simp [HTree.handle, e])]
        rfl
      · simp only [mapAt, e, if_false, find?]
        exact ff_findList?_mapAtList_self p g hg ks
  theorem ff_findList?_mapAtList_self (p : Nat) (g : HTree → HTree) (hg : ∀ t, (g t).handle = t.handle) :
      ∀ ks : List HTree, findList? p (mapAtList p g ks) = (findList? p ks).map g
    | [] => rfl
    | k :: ks => by
      simp only [mapAtList, findList?]
      rw [ffx_find?_mapAt_self p g hg k, ff_findList?_mapAtList_self p g hg ks]
      cases find? p k <;> rfl
end

mutual
  theorem mapAt_mapAt_self (p : Nat) (g1 g2 : HTree → HTree) (hg : ∀ t, (g1 t).handle = t.handle) :
      ∀ t : HTree, mapAt p g2 (mapAt p g1 t) = mapAt p (g2 ∘ g1) t
    | .node h v ks => by
      by_cases e : h = p
      · rw [mapAt_of_handle g1 (by simp [HTree.handle, e]),
          mapAt_of_handle g2 (by rw [hg]; simp [HTree.handle, e]),
          mapAt_of_handle (g2 ∘ g1) (by simp [HTree.handle, e])]
        rfl
      · simp only [mapAt, e, if_false]
        rw [mapAtList_mapAtList_self p g1 g2 hg ks]
  theorem mapAtList_mapAtList_self (p : Nat) (g1 g2 : HTree → HTree) (hg : ∀ t, (g1 t).handle = t.handle) :
      ∀ ks : List HTree, mapAtList p g2 (mapAtList p g1 ks) = mapAtList p (g2 ∘ g1) ks
    | [] => rfl
    | k :: ks => by
      simp only [mapAtList]
      rw [mapAt_mapAt_self p g1 g2 hg k, mapAtList_mapAtList_self p g1 g2 hg ks]
end

mutual
  /-- An update inside the child `x` that was just appended under `p`. -/
  theorem mapAt_in_appended (p c : Nat) (g : HTree → HTree) (x : HTree) (hx : x.handle = c) (hpc : p ≠ c) :
      ∀ t : HTree, c ∉ handles t → mapAt c g (mapAt p (appKids [x]) t) = mapAt p (appKids [g x]) t
    | .node h v ks => by
      intro hn
      simp only [handles, List.mem_cons, not_or] at hn
      by_cases e : h = p
      · subst e
        have e1 : mapAt h (appKids [x]) (.node h v ks) = .node h v (ks ++ [x]) := by
          simp [mapAt, appKids_node]
        have e2 : mapAt h (appKids [g x]) (.node h v ks) = .node h v (ks ++ [g x]) := by
          simp [mapAt, appKids_node]
        rw [e1, e2]
        unfold mapAt
        rw [if_neg (fun e' => hn.1 e'.symm), ffx_mapAtList_append, mapAtList_of_not_mem_ff c g ks hn.2]
        simp [mapAtList, mapAt_of_handle g hx]
      · simp only [mapAt, e, if_false]
        rw [if_neg (fun e' => hn.1 e'.symm), mapAtList_in_appended p c g x hx hpc ks hn.2]
  theorem mapAtList_in_appended (p c : Nat) (g : HTree → HTree) (x : HTree) (hx : x.handle = c) (hpc : p ≠ c) :
      ∀ ks : List HTree, c ∉ handlesList ks →
        mapAtList c g (mapAtList p (appKids [x]) ks) = mapAtList p (appKids [g x]) ks
    | [] => by intro _; rfl
    | k :: ks => by
      intro hn
      simp only [handlesList, List.mem_append, not_or] at hn
      simp only [mapAtList]
      rw [mapAt_in_appended p c g x hx hpc k hn.1, mapAtList_in_appended p c g x hx hpc ks hn.2]
end

mutual
  /-- The freshly appended child is found under its handle. -/
  theorem find?_appended (p c : Nat) (x : HTree) (hx : x.handle = c) :
      ∀ t : HTree, c ∉ handles t → p ∈ handles t → find? c (mapAt p (appKids [x]) t) = some x
    | .node h v ks => by
      intro hn hp
      simp only [handles, List.mem_cons, not_or] at hn
      by_cases e : h = p
      · rw [mapAt_of_handle _ (by simp [HTree.handle, e]), appKids_node]
        unfold find?
        rw [if_neg (fun e' => hn.1 e'.symm), ffx_findList?_append_of_not_mem _ _ _ hn.2, ← hx]
        exact ffx_findList?_cons_self x []
      · have hp' : p ∈ handlesList ks := by
          simp only [handles, List.mem_cons] at hp
          rcases hp with hp | hp
          · exact absurd hp.symm e
          · exact hp
        simp only [mapAt, e, if_false]
        unfold find?
        rw [if_neg (fun e' => hn.1 e'.symm)]
        exact findList?_appended p c x hx ks hn.2 hp'
  theorem findList?_appended (p c : Nat) (x : HTree) (hx : x.handle = c) :
      ∀ ks : List HTree, c ∉ handlesList ks → p ∈ handlesList ks →
        findList? c (mapAtList p (appKids [x]) ks) = some x
    | [] => by intro _ hp; simp [handlesList] at hp
    | k :: ks => by
      intro hn hp
      simp only [handlesList, List.mem_append, not_or] at hn
      simp only [handlesList, List.mem_append] at hp
      simp only [mapAtList]
      unfold findList?
      by_cases hk : p ∈ handles k
      · rw [find?_appended p c x hx k hn.1 hk]
      · rw [mapAt_of_not_mem_ff p _ k hk, ffx_find?_none_of_not_mem c k hn.1]
        exact findList?_appended p c x hx ks hn.2 (hp.resolve_left hk)
end

mutual
  /-- Handle count after appending `xs` under `p` (handles distinct). -/
  theorem count_handles_mapAt_app (p a : Nat) (xs : List HTree) : ∀ t : HTree, (handles t).Nodup →
      (handles (mapAt p (appKids xs) t)).count a =
        (handles t).count a + (if p ∈ handles t then (handlesList xs).count a else 0)
    | .node h v ks => by
      intro hn
      simp only [handles, List.nodup_cons] at hn
      by_cases e : h = p
      · rw [mapAt_of_handle _ (by simp [HTree.handle, e]), appKids_node]
        simp only [handles, handlesList_append_ff, List.count_cons, List.count_append, List.mem_cons, e,
          true_or, if_true]
        omega
      · simp only [mapAt, e, if_false, handles, List.count_cons, List.mem_cons]
        rw [count_handlesList_mapAtList_app p a xs ks hn.2]
        have : (p = h ∨ p ∈ handlesList ks) ↔ p ∈ handlesList ks :=
          ⟨fun o => o.resolve_left (fun e' => e e'.symm), Or.inr⟩
        simp only [this]
        omega
  theorem count_handlesList_mapAtList_app (p a : Nat) (xs : List HTree) : ∀ ks : List HTree,
      (handlesList ks).Nodup →
      (handlesList (mapAtList p (appKids xs) ks)).count a =
        (handlesList ks).count a + (if p ∈ handlesList ks then (handlesList xs).count a else 0)
    | [] => by intro _; simp [mapAtList, handlesList]
    | k :: ks => by
      intro hn
      simp only [handlesList] at hn
      have hn' := List.nodup_append.1 hn
      simp only [mapAtList, handlesList, List.count_append, List.mem_append]
      rw [count_handles_mapAt_app p a xs k hn'.1, count_handlesList_mapAtList_app p a xs ks hn'.2.1]
      by_cases hk : p ∈ handles k
      · have : p ∉ handlesList ks := fun hm => hn'.2.2 p hk p hm rfl
        simp [hk, this]; omega
      · simp [hk]; omega
end

end XotModel
