/-
  C06: the three clauses of the property for one call, and how the outcome lemmas give them.
-/
import XotModel.Lemmas.FatomMap

namespace XotModel
namespace Forest

/-- C06 for one call with result `r` from state `f`: an error leaves the state as it was, the
    call does not panic, and no indextree primitive was used outside its list semantics. -/
structure C06Clauses (f : Forest) (r : Forest × Res) : Prop where
  atomic : ∀ e, r.2 = .err e → r.1 = f
  noPanic : r.2 ≠ .panic
  notCorrupt : r.1.corrupt = false

theorem OkRes.clauses {f : Forest} {r : Forest × Res} (m : OkRes f r) (hc : f.corrupt = false) :
    C06Clauses f r :=
  ⟨fun e h => (by rw [m.ok] at h; cases h), (by rw [m.ok]; simp), (by rw [m.corrupt, hc])⟩

theorem clauses_refused {f : Forest} (hc : f.corrupt = false) (e : XotError) :
    C06Clauses f (f, .err e) :=
  ⟨fun _ _ => rfl, (by simp), hc⟩

theorem clauses_of_outcome {f : Forest} {r : Forest × Res} (hc : f.corrupt = false)
    (h : r = (f, .err .invalidOperation) ∨ OkRes f r) : C06Clauses f r := by
  rcases h with h | h
  · rw [h]; exact clauses_refused hc _
  · exact h.clauses hc

theorem clauses_of_outcome3 {f : Forest} {r : Forest × Res × Nat} (hc : f.corrupt = false)
    (h : (r.1 = f ∧ r.2.1 = .err .invalidOperation) ∨ OkRes f (r.1, r.2.1)) :
    C06Clauses f (r.1, r.2.1) := by
  rcases h with h | h
  · exact ⟨fun _ _ => h.1, (by rw [h.2]; simp), (by rw [h.1]; exact hc)⟩
  · exact h.clauses hc

theorem MoveOutcome.clauses {f : Forest} {r : Forest × Res} {c : Nat} (m : MoveOutcome f r c)
    (hc : f.corrupt = false) : C06Clauses f r :=
  ⟨fun _ h => m.atomic h, m.noPanic, (by rw [m.corrupt, hc])⟩

theorem elementUnwrap_clauses {f : Forest} (hi : f.Inv) (node : Nat) :
    C06Clauses f (f.elementUnwrap node) := by
  rcases elementUnwrap_outcome hi.toW node with h | h | ⟨_, h2, h3⟩
  · rw [h]; exact clauses_refused hi.notCorrupt _
  · exact h.clauses hi.notCorrupt
  · exfalso
    cases hfc : f.firstChild node with
    | none => rw [hfc] at h2; cases h2
    | some c =>
      obtain ⟨l, hl⟩ := lastChild_of_firstChild hi hfc
      rw [hl] at h3; cases h3

/-- Element-only accessors: the documented panic (and nothing else happens) exactly when the
    node is not an element; otherwise the three clauses. -/
structure ElementOnly (f : Forest) (node : Nat) (r : Forest × Res) : Prop where
  panics : f.isElement node = false → r = (f, .panic)
  clauses : f.isElement node = true → C06Clauses f r

theorem ElementOnly.panic_iff {f : Forest} {node : Nat} {r : Forest × Res}
    (h : ElementOnly f node r) : r.2 = .panic ↔ f.isElement node = false := by
  constructor
  · intro hp
    cases he : f.isElement node with
    | false => rfl
    | true => exact absurd hp (h.clauses he).noPanic
  · intro he; rw [h.panics he]

theorem ElementOnly.notCorrupt {f : Forest} {node : Nat} {r : Forest × Res}
    (h : ElementOnly f node r) (hc : f.corrupt = false) : r.1.corrupt = false := by
  cases he : f.isElement node with
  | false => rw [h.panics he]; exact hc
  | true => exact (h.clauses he).notCorrupt

theorem elementOnly_of {f : Forest} {node : Nat} {r : Forest × Res} (hc : f.corrupt = false)
    (h : (f.isElement node = false ∧ r = (f, .panic)) ∨ (f.isElement node = true ∧ OkRes f r)) :
    ElementOnly f node r := by
  rcases h with ⟨h1, h2⟩ | ⟨h1, h2⟩
  · exact ⟨fun _ => h2, fun h => (by rw [h1] at h; cases h)⟩
  · exact ⟨fun h => (by rw [h1] at h; cases h), fun _ => h2.clauses hc⟩

end Forest
end XotModel
