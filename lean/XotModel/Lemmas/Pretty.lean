/-
  Helper lemmas about the indentation stack of output/pretty.rs (Model/Pretty).
-/
import XotModel.Model.Pretty

namespace XotModel
namespace PStack

/-- Every entry is `Unmixed(Space::Empty)`. -/
def AllEmpty (s : PStack) : Prop := ∀ e ∈ s, e = StackEntry.unmixed .empty

theorem inMixed_append (a b : PStack) : inMixed (a ++ b) = (inMixed a || inMixed b) := by
  simp [inMixed, List.any_append]

theorem inMixed_allEmpty {s : PStack} (h : AllEmpty s) : inMixed s = false := by
  simp only [inMixed, List.any_eq_false]
  intro e he
  rw [h e he]
  decide

/-- `in_space_preserve` skips the `Empty` entries on top. -/
theorem inSpacePreserve_allEmpty_append {a : PStack} (h : AllEmpty a) (b : PStack) :
    inSpacePreserve (a ++ b) = inSpacePreserve b := by
  induction a with
  | nil => rfl
  | cons e a ih =>
    have he : e = StackEntry.unmixed .empty := h e (by simp)
    subst he
    simp only [List.cons_append, inSpacePreserve]
    exact ih (fun x hx => h x (by simp [hx]))

/-- Shape of a stack inside a `preserve` scope: `Empty` entries, then the `Preserve` entry. -/
theorem inSpacePreserve_shape {s : PStack} (h : inSpacePreserve s = true) :
    ∃ a below, s = a ++ StackEntry.unmixed .preserve :: below ∧ AllEmpty a := by
  induction s with
  | nil => simp [inSpacePreserve] at h
  | cons e s ih =>
    cases e with
    | mixed => simp [inSpacePreserve] at h
    | unmixed sp =>
      cases sp with
      | preserve => exact ⟨[], s, rfl, by intro e he; simp at he⟩
      | default => simp [inSpacePreserve] at h
      | empty =>
        simp only [inSpacePreserve] at h
        obtain ⟨a, below, hs, ha⟩ := ih h
        refine ⟨StackEntry.unmixed .empty :: a, below, by simp [hs], ?_⟩
        intro e he
        rcases List.mem_cons.mp he with rfl | he
        · rfl
        · exact ha e he

/-- Once `in_preserve` is set, `Empty` entries do not count. -/
theorem foldl_indentStep_allEmpty {a : PStack} (h : AllEmpty a) (c : Nat) :
    a.foldl indentStep (c, true) = (c, true) := by
  induction a with
  | nil => rfl
  | cons e a ih =>
    have he : e = StackEntry.unmixed .empty := h e (by simp)
    subst he
    simp only [List.foldl_cons, indentStep]
    exact ih (fun x hx => h x (by simp [hx]))

theorem allEmpty_reverse {a : PStack} (h : AllEmpty a) : AllEmpty a.reverse := by
  intro e he
  exact h e (by simpa using he)

/-- Inside a `preserve` scope the loop of `get_indentation` yields the count accumulated below the
    `Preserve` entry: the indentation is frozen at the depth of the `preserve` element. -/
theorem foldl_indentStep_preserve {a : PStack} (h : AllEmpty a) (below : PStack) :
    ((a ++ StackEntry.unmixed .preserve :: below).reverse.foldl indentStep (0, false)).1 =
      (below.reverse.foldl indentStep (0, false)).1 := by
  simp only [List.reverse_append, List.reverse_cons, List.foldl_append, List.foldl_cons,
    List.foldl_nil, List.append_assoc]
  generalize below.reverse.foldl indentStep (0, false) = st
  obtain ⟨c, b⟩ := st
  simp only [indentStep]
  rw [foldl_indentStep_allEmpty (allEmpty_reverse h)]

end PStack
end XotModel
