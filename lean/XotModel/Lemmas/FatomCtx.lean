/-
  Tree-level lemmas for C06, part 2: what a context says about the tree (`ctxBelow`), children
  and their parent, `ancestorsOf`.
-/
import XotModel.Lemmas.FatomTree

namespace XotModel
open HTree

/-! ### A context is a decomposition of the parent's child list -/

mutual
  theorem ctxBelow_spec (h : Nat) : ∀ (t : HTree) (c : Ctx), (handles t).Nodup →
      ctxBelow h t = some c →
      (∃ v, find? c.parent t = some (.node c.parent v (c.left ++ c.self :: c.right))) ∧
        c.self.handle = h
    | .node p v ks, c => by
      intro hn
      unfold ctxBelow
      intro e
      unfold handles at hn
      have hn' := List.nodup_cons.1 hn
      rcases ctxKids_spec h p [] ks c hn'.2 e with ⟨hp, pre, hl, hks, hh⟩ | ⟨⟨v', hf⟩, hh⟩
      · refine ⟨⟨v, ?_⟩, hh⟩
        simp only [List.nil_append] at hl
        unfold find?
        simp [hp, hl, hks]
      · refine ⟨⟨v', ?_⟩, hh⟩
        have : c.parent ∈ handlesList ks := findList?_some_mem hf
        have hne : p ≠ c.parent := fun e => hn'.1 (e ▸ this)
        unfold find?
        simp [hne, hf]
  theorem ctxKids_spec (h p : Nat) : ∀ (acc ks : List HTree) (c : Ctx), (handlesList ks).Nodup →
      ctxKids h p acc ks = some c →
      (c.parent = p ∧ ∃ pre, c.left = acc ++ pre ∧ ks = pre ++ c.self :: c.right ∧ c.self.handle = h) ∨
      ((∃ v, findList? c.parent ks = some (.node c.parent v (c.left ++ c.self :: c.right))) ∧
        c.self.handle = h)
    | _, [], c => by simp [ctxKids]
    | acc, k :: ks, c => by
      intro hn
      unfold handlesList at hn
      have hna := List.nodup_append.1 hn
      unfold ctxKids
      by_cases hk : k.handle = h
      · simp only [hk, if_true, Option.some.injEq]
        intro e; subst e
        exact Or.inl ⟨rfl, [], by simp, by simp, hk⟩
      · simp only [hk, if_false]
        cases hc : ctxBelow h k with
        | some c' =>
          simp only [Option.some.injEq]; intro e; subst e
          obtain ⟨⟨v, hf⟩, hh⟩ := ctxBelow_spec h k c' hna.1 hc
          refine Or.inr ⟨⟨v, ?_⟩, hh⟩
          unfold findList?; rw [hf]
        | none =>
          simp only; intro e
          rcases ctxKids_spec h p (acc ++ [k]) ks c hna.2.1 e with ⟨hp, pre, hl, hks, hh⟩ | ⟨⟨v', hf⟩, hh⟩
          · exact Or.inl ⟨hp, k :: pre, by simp [hl], by simp [hks], hh⟩
          · refine Or.inr ⟨⟨v', ?_⟩, hh⟩
            have hm : c.parent ∈ handlesList ks := findList?_some_mem hf
            have hnk : c.parent ∉ handles k := fun h' => hna.2.2 _ h' _ hm rfl
            unfold findList?
            rw [(find?_none_iff _ _).2 hnk]; exact hf
end

/-! ### A child's parent and the child itself can be looked up -/

mutual
  theorem find?_kid (p : Nat) : ∀ (t t' k : HTree), (handles t).Nodup → find? p t = some t' →
      k ∈ t'.kids → find? k.handle t = some k ∧ parentBelow k.handle t = some p
    | .node h v ks, t', k => by
      intro hn
      unfold handles at hn
      have hn' := List.nodup_cons.1 hn
      unfold find?
      by_cases hh : h = p
      · simp only [hh, if_true, Option.some.injEq]
        intro e; subst e
        intro hk
        simp only [HTree.kids] at hk
        have hkm : k.handle ∈ handlesList ks := handles_sub_of_mem hk _ (handle_mem_handles k)
        have hne : p ≠ k.handle := fun e => hn'.1 (hh ▸ e ▸ hkm)
        simp only [hne, if_false]
        exact ⟨findList?_of_mem hn'.2 hk, by unfold parentBelow; exact parentKids_of_mem p hn'.2 hk⟩
      · simp only [hh, if_false]
        intro e hk
        have := fa_findList?_kid p h ks t' k hn'.2 e hk
        have hkm : k.handle ∈ handlesList ks := findList?_some_mem this.1
        have hne : h ≠ k.handle := fun e => hn'.1 (e ▸ hkm)
        simp only [hne, if_false]
        exact ⟨this.1, by unfold parentBelow; exact this.2⟩
  theorem fa_findList?_kid (p q : Nat) : ∀ (ks : List HTree) (t' k : HTree), (handlesList ks).Nodup →
      findList? p ks = some t' → k ∈ t'.kids →
      findList? k.handle ks = some k ∧ parentKids k.handle q ks = some p
    | [], t', k => by simp [findList?]
    | a :: ks, t', k => by
      intro hn
      unfold handlesList at hn
      have hna := List.nodup_append.1 hn
      unfold findList?
      cases hf : find? p a with
      | some t =>
        simp only [Option.some.injEq]; intro e; subst e
        intro hk
        have := find?_kid p a t k hna.1 hf hk
        rw [this.1]
        refine ⟨rfl, ?_⟩
        unfold parentKids
        have hm := (parentBelow_mem _ _ _ this.2).1
        have hne : a.handle ≠ k.handle := by
          intro e
          have hn1 := hna.1
          rw [handles_eq] at hn1
          exact (List.nodup_cons.1 hn1).1 (e ▸ hm)
        simp [hne, this.2]
      | none =>
        simp only; intro e hk
        have := fa_findList?_kid p q ks t' k hna.2.1 e hk
        have hkm : k.handle ∈ handlesList ks := findList?_some_mem this.1
        have hnk : k.handle ∉ handles a := fun h' => hna.2.2 _ h' _ hkm rfl
        rw [(find?_none_iff _ _).2 hnk]
        refine ⟨this.1, ?_⟩
        unfold parentKids
        have hne : a.handle ≠ k.handle := fun e => hnk (e ▸ handle_mem_handles a)
        simp only [hne, if_false]
        rw [parentBelow_none_of_not_mem hnk]; exact this.2
end

/-! ### `ancestorsOf` -/

mutual
  theorem ancestorsOf_isSome_iff (h : Nat) : ∀ t : HTree,
      (ancestorsOf h t).isSome = true ↔ h ∈ handles t
    | .node h' v ks => by
      unfold ancestorsOf handles
      by_cases hh : h' = h
      · simp [hh]
      · simp only [hh, if_false, List.mem_cons]
        have := ancestorsOfList_isSome_iff h ks
        cases ha : ancestorsOfList h ks with
        | some l =>
          rw [ha] at this; simp only [Option.isSome_some, true_iff] at this
          simp [this]
        | none =>
          rw [ha] at this; simp only [Option.isSome_none, Bool.false_eq_true, false_iff] at this
          simp only [Option.isSome_none, Bool.false_eq_true, false_iff, not_or]
          exact ⟨fun e => hh e.symm, this⟩
  theorem ancestorsOfList_isSome_iff (h : Nat) : ∀ ks : List HTree,
      (ancestorsOfList h ks).isSome = true ↔ h ∈ handlesList ks
    | [] => by simp [ancestorsOfList, handlesList]
    | k :: ks => by
      unfold ancestorsOfList handlesList
      rw [List.mem_append, ← ancestorsOf_isSome_iff h k, ← ancestorsOfList_isSome_iff h ks]
      cases hk : ancestorsOf h k <;> simp
end

theorem ancestorsOf_none_iff (h : Nat) (t : HTree) : ancestorsOf h t = none ↔ h ∉ handles t := by
  rw [← ancestorsOf_isSome_iff]; cases ancestorsOf h t <;> simp

theorem ancestorsOfList_none_iff (h : Nat) (ks : List HTree) :
    ancestorsOfList h ks = none ↔ h ∉ handlesList ks := by
  rw [← ancestorsOfList_isSome_iff]; cases ancestorsOfList h ks <;> simp

theorem ancestorsOf_self (t : HTree) : ancestorsOf t.handle t = some [t.handle] := by
  cases t with | node h v ks => simp [ancestorsOf, HTree.handle]

mutual
  /-- One step of the ancestor chain: a node's ancestors are itself followed by its parent's. -/
  theorem ancestorsOf_step (h : Nat) : ∀ (t : HTree) (q : Nat), (handles t).Nodup →
      parentBelow h t = some q →
      ∃ l, ancestorsOf q t = some l ∧ ancestorsOf h t = some (h :: l)
    | .node p v ks, q => by
      intro hn
      unfold handles at hn
      have hn' := List.nodup_cons.1 hn
      unfold parentBelow
      intro e
      have hm := (parentKids_mem h p ks q e).1
      have hne : p ≠ h := fun e' => hn'.1 (e' ▸ hm)
      rcases ancestorsOfList_step h p ks q hn'.2 hn'.1 e with ⟨hq, ha⟩ | ⟨hq, l, h1, h2⟩
      · refine ⟨[p], ?_, ?_⟩
        · unfold ancestorsOf; simp [hq]
        · unfold ancestorsOf; simp [hne, ha]
      · refine ⟨l ++ [p], ?_, ?_⟩
        · unfold ancestorsOf; simp [Ne.symm hq, h1]
        · unfold ancestorsOf; simp [hne, h2]
  theorem ancestorsOfList_step (h p : Nat) : ∀ (ks : List HTree) (q : Nat), (handlesList ks).Nodup →
      p ∉ handlesList ks → parentKids h p ks = some q →
      (q = p ∧ ancestorsOfList h ks = some [h]) ∨
      (q ≠ p ∧ ∃ l, ancestorsOfList q ks = some l ∧ ancestorsOfList h ks = some (h :: l))
    | [], q => by simp [parentKids]
    | k :: ks, q => by
      intro hn hp
      unfold handlesList at hn hp
      have hna := List.nodup_append.1 hn
      unfold parentKids
      by_cases hk : k.handle = h
      · simp only [hk, if_true, Option.some.injEq]
        intro e
        refine Or.inl ⟨e.symm, ?_⟩
        unfold ancestorsOfList
        rw [← hk, ancestorsOf_self]
      · simp only [hk, if_false]
        cases hc : parentBelow h k with
        | some q' =>
          simp only [Option.some.injEq]; intro e; subst e
          obtain ⟨l, h1, h2⟩ := ancestorsOf_step h k q' hna.1 hc
          have hq : q' ∈ handles k := (parentBelow_mem _ _ _ hc).2
          refine Or.inr ⟨fun e => hp (List.mem_append_left _ (e ▸ hq)), l, ?_, ?_⟩
          · unfold ancestorsOfList; rw [h1]
          · unfold ancestorsOfList; rw [h2]
        | none =>
          simp only; intro e
          have hh : h ∉ handles k := by
            rw [handles_eq]
            intro hm
            rcases List.mem_cons.1 hm with e' | e'
            · exact hk e'.symm
            · exact parentBelow_none h k hc e'
          have hp' : p ∉ handlesList ks := fun h' => hp (List.mem_append_right _ h')
          rcases ancestorsOfList_step h p ks q hna.2.1 hp' e with ⟨hq, ha⟩ | ⟨hq, l, h1, h2⟩
          · refine Or.inl ⟨hq, ?_⟩
            unfold ancestorsOfList
            rw [(ancestorsOf_none_iff _ _).2 hh]; exact ha
          · refine Or.inr ⟨hq, l, ?_, ?_⟩
            · have hqm : q ∈ handlesList ks := by
                rw [← ancestorsOfList_isSome_iff, h1]; rfl
              have hqk : q ∉ handles k := fun h' => hna.2.2 _ h' _ hqm rfl
              unfold ancestorsOfList
              rw [(ancestorsOf_none_iff _ _).2 hqk]; exact h1
            · unfold ancestorsOfList
              rw [(ancestorsOf_none_iff _ _).2 hh]; exact h2
end

end XotModel
