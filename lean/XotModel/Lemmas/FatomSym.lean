/-
  C06 lemmas: the context of a child can be read off the parent's child list; hence
  `next_sibling x = y` implies `previous_sibling y = x`, and the two neighbours differ.
-/
import XotModel.Lemmas.FatomNav

namespace XotModel
open HTree

theorem fa_ctxBelow_none_of_not_mem {h : Nat} {t : HTree} (hm : h ∉ handles t) : ctxBelow h t = none := by
  have := ctxBelow_parent h t
  rw [parentBelow_none_of_not_mem hm] at this
  cases hc : ctxBelow h t with
  | none => rfl
  | some c => rw [hc] at this; cases this

theorem ctxKids_here (p : Nat) (k : HTree) (r : List HTree) : ∀ (l acc : List HTree),
    (handlesList (l ++ k :: r)).Nodup →
    ctxKids k.handle p acc (l ++ k :: r) = some ⟨p, acc ++ l, k, r⟩
  | [], acc, _ => by simp [ctxKids]
  | a :: l, acc, hn => by
    simp only [List.cons_append] at hn ⊢
    unfold handlesList at hn
    have hna := List.nodup_append.1 hn
    have hk : k.handle ∈ handlesList (l ++ k :: r) := by
      rw [fa_handlesList_append]
      exact List.mem_append_right _ (by unfold handlesList; exact List.mem_append_left _ (handle_mem_handles k))
    have hnk : k.handle ∉ handles a := fun h' => hna.2.2 _ h' _ hk rfl
    have hne : ¬ a.handle = k.handle := fun e => hnk (e ▸ handle_mem_handles a)
    unfold ctxKids
    simp only [hne, if_false, fa_ctxBelow_none_of_not_mem hnk]
    rw [ctxKids_here p k r l (acc ++ [a]) hna.2.1]
    simp

mutual
  theorem ctxBelow_of_find (q : Nat) (v : Value) (l : List HTree) (k : HTree) (r : List HTree) :
      ∀ t : HTree, (handles t).Nodup → find? q t = some (.node q v (l ++ k :: r)) →
      ctxBelow k.handle t = some ⟨q, l, k, r⟩
    | .node h v' ks => by
      intro hn e
      unfold handles at hn
      have hn' := List.nodup_cons.1 hn
      unfold find? at e
      unfold ctxBelow
      by_cases hq : h = q
      · simp only [hq, if_true, Option.some.injEq, HTree.node.injEq, true_and] at e
        rw [hq, e.2, ctxKids_here q k r l [] (e.2 ▸ hn'.2)]
        simp
      · simp only [hq, if_false] at e
        exact ctxKids_of_find q v l k r ks hn'.2 e h []
  theorem ctxKids_of_find (q : Nat) (v : Value) (l : List HTree) (k : HTree) (r : List HTree) :
      ∀ ks : List HTree, (handlesList ks).Nodup → findList? q ks = some (.node q v (l ++ k :: r)) →
      ∀ (p : Nat) (acc : List HTree), ctxKids k.handle p acc ks = some ⟨q, l, k, r⟩
    | [], _, e, _, _ => by simp [findList?] at e
    | a :: ks, hn, e, p, acc => by
      unfold handlesList at hn
      have hna := List.nodup_append.1 hn
      unfold findList? at e
      unfold ctxKids
      cases hf : find? q a with
      | some N =>
        rw [hf] at e
        simp only [Option.some.injEq] at e
        subst e
        have hc := ctxBelow_of_find q v l k r a hna.1 hf
        have hp : parentBelow k.handle a = some q := by rw [← ctxBelow_parent, hc]; rfl
        have hm := (parentBelow_mem _ _ _ hp).1
        have hne : ¬ a.handle = k.handle := by
          intro e'
          have hn1 := hna.1
          rw [handles_eq] at hn1
          exact (List.nodup_cons.1 hn1).1 (e' ▸ hm)
        simp only [hne, if_false, hc]
      | none =>
        rw [hf] at e
        simp only at e
        have hkN : k.handle ∈ handles (.node q v (l ++ k :: r)) := by
          unfold handles
          apply List.mem_cons_of_mem
          rw [fa_handlesList_append]
          exact List.mem_append_right _ (by unfold handlesList; exact List.mem_append_left _ (handle_mem_handles k))
        have hk : k.handle ∈ handlesList ks := findList?_handles_sub q ks _ e _ hkN
        have hnk : k.handle ∉ handles a := fun h' => hna.2.2 _ h' _ hk rfl
        have hne : ¬ a.handle = k.handle := fun e' => hnk (e' ▸ handle_mem_handles a)
        simp only [hne, if_false, fa_ctxBelow_none_of_not_mem hnk]
        exact ctxKids_of_find q v l k r ks hna.2.1 e p (acc ++ [a])
end

theorem rootsCtx_of_find (q : Nat) (v : Value) (l : List HTree) (k : HTree) (r : List HTree) :
    ∀ rs : List HTree, (handlesList rs).Nodup → findList? q rs = some (.node q v (l ++ k :: r)) →
    rs.findSome? (ctxBelow k.handle) = some ⟨q, l, k, r⟩
  | [], _, e => by simp [findList?] at e
  | a :: rs, hn, e => by
    unfold handlesList at hn
    have hna := List.nodup_append.1 hn
    unfold findList? at e
    rw [List.findSome?_cons]
    cases hf : find? q a with
    | some N =>
      rw [hf] at e
      simp only [Option.some.injEq] at e
      subst e
      rw [ctxBelow_of_find q v l k r a hna.1 hf]
    | none =>
      rw [hf] at e
      simp only at e
      have hkN : k.handle ∈ handles (.node q v (l ++ k :: r)) := by
        unfold handles
        apply List.mem_cons_of_mem
        rw [fa_handlesList_append]
        exact List.mem_append_right _ (by unfold handlesList; exact List.mem_append_left _ (handle_mem_handles k))
      have hk : k.handle ∈ handlesList rs := findList?_handles_sub q rs _ e _ hkN
      have hnk : k.handle ∉ handles a := fun h' => hna.2.2 _ h' _ hk rfl
      rw [fa_ctxBelow_none_of_not_mem hnk]
      exact rootsCtx_of_find q v l k r rs hna.2.1 e

namespace Forest

/-- The context of a child, read off its parent's child list. -/
theorem ctx?_of_get? {f : Forest} (w : f.W) {q : Nat} {v : Value} {l : List HTree} {k : HTree}
    {r : List HTree} (e : f.get? q = some (.node q v (l ++ k :: r))) :
    f.ctx? k.handle = some ⟨q, l, k, r⟩ :=
  rootsCtx_of_find q v l k r f.roots w.nodup e

theorem prevSibling_ctx {f : Forest} {x y : Nat} (e : f.prevSibling x = some y) :
    ∃ c k, f.ctx? x = some c ∧ c.left.getLast? = some k ∧ k.handle = y ∧
      (k.value.category == c.self.value.category) = true := by
  unfold prevSibling at e
  cases hc : f.ctx? x with
  | none => rw [hc] at e; cases e
  | some c =>
    rw [hc] at e
    simp only at e
    cases hl : c.left.getLast? with
    | none => rw [hl] at e; cases e
    | some p =>
      rw [hl] at e
      simp only at e
      split at e
      · rename_i hcat
        injection e with e
        exact ⟨c, p, rfl, hl, e, hcat⟩
      · cases e

theorem nextSibling_ctx {f : Forest} {x y : Nat} (e : f.nextSibling x = some y) :
    ∃ c k, f.ctx? x = some c ∧ c.right.head? = some k ∧ k.handle = y ∧
      (k.value.category == c.self.value.category) = true := by
  unfold nextSibling at e
  cases hc : f.ctx? x with
  | none => rw [hc] at e; cases e
  | some c =>
    rw [hc] at e
    simp only at e
    cases hl : c.right.head? with
    | none => rw [hl] at e; cases e
    | some p =>
      rw [hl] at e
      simp only at e
      split at e
      · rename_i hcat
        injection e with e
        exact ⟨c, p, rfl, hl, e, hcat⟩
      · cases e

/-- If `y` is the next sibling of `x` then `x` is the previous sibling of `y`. -/
theorem prevSibling_of_nextSibling {f : Forest} (w : f.W) {x y : Nat}
    (e : f.nextSibling x = some y) : f.prevSibling y = some x := by
  obtain ⟨c, k, hc, hh, hk, hcat⟩ := nextSibling_ctx e
  obtain ⟨⟨v, hg⟩, hs⟩ := ctx?_spec w hc
  cases hr : c.right with
  | nil => rw [hr] at hh; cases hh
  | cons k' r' =>
    rw [hr] at hh hg
    simp only [List.head?_cons, Option.some.injEq] at hh
    subst hh
    have hg' : f.get? c.parent = some (.node c.parent v ((c.left ++ [c.self]) ++ k' :: r')) := by
      rw [hg]; simp
    have hc' := ctx?_of_get? w hg'
    rw [hk] at hc'
    unfold prevSibling
    rw [hc']
    simp only [List.getLast?_append, List.getLast?_singleton, Option.some_or]
    have hcat' : (c.self.value.category == k'.value.category) = true := by
      simp only [beq_iff_eq] at hcat ⊢; exact hcat.symm
    simp only [hcat', if_true, hs]

/-- The previous and the next sibling of a node are different nodes. -/
theorem prev_ne_next {f : Forest} (w : f.W) {x y z : Nat} (hy : f.prevSibling x = some y)
    (hz : f.nextSibling x = some z) : y ≠ z := by
  obtain ⟨c, k, hc, hh, hk, _⟩ := prevSibling_ctx hy
  obtain ⟨c', k', hc', hh', hk', _⟩ := nextSibling_ctx hz
  rw [hc] at hc'
  injection hc' with hc'
  subst hc'
  obtain ⟨⟨v, hg⟩, hs⟩ := ctx?_spec w hc
  have hn : (handles (.node c.parent v (c.left ++ c.self :: c.right))).Nodup :=
    List.Sublist.nodup (findList?_sublist _ _ _ hg) w.nodup
  unfold handles at hn
  have hn2 := (List.nodup_cons.1 hn).2
  rw [fa_handlesList_append, show handlesList (c.self :: c.right) =
    handles c.self ++ handlesList c.right from rfl] at hn2
  have hn3 := List.nodup_append.1 hn2
  have h1 : y ∈ handlesList c.left :=
    hk ▸ handles_sub_of_mem (List.mem_of_getLast? hh) _ (handle_mem_handles k)
  have h2 : z ∈ handlesList c.right :=
    hk' ▸ handles_sub_of_mem (List.mem_of_head? hh') _ (handle_mem_handles k')
  exact fun e => hn3.2.2 _ h1 _ (List.mem_append_right _ h2) e

end Forest
end XotModel
