/-
  Lemmas/FwsMain — the removal loop as a whole: `remove_insignificant_whitespace` = pruning by
  the specification's set; the pruned subtree = `specStrip`; what survives.
-/
import XotModel.Lemmas.FwsCollect
import XotModel.Lemmas.FwsStep

namespace XotModel
namespace Fws
open HTree

/-! ### the collected list -/

mutual
  theorem descendantsNormal_sublist : ∀ t : HTree, (Forest.descendantsNormal t).Sublist (handles t)
    | .node h v ks => by
      simp only [Forest.descendantsNormal, handles]
      split
      · exact (descendantsNormalList_sublist ks).cons_cons h
      · exact (descendantsNormalList_sublist ks).cons h
  theorem descendantsNormalList_sublist : ∀ ks : List HTree,
      (Forest.descendantsNormalList ks).Sublist (handlesList ks)
    | [] => List.Sublist.refl _
    | k :: ks => by
      simp only [Forest.descendantsNormalList, handlesList]
      exact (descendantsNormal_sublist k).append (descendantsNormalList_sublist ks)
end

/-- Every collected handle is a live text node. -/
theorem collected_text {f : Forest} {n : Nat} (h : f.isInsignificantWhitespace n = true) :
    ∃ k anc, Occurs f k anc ∧ k.handle = n ∧ k.value.isText = true := by
  unfold Forest.isInsignificantWhitespace at h
  cases ht : f.textOf n with
  | none => rw [ht] at h; simp at h
  | some s =>
    unfold Forest.textOf Forest.value? at ht
    cases hg : f.get? n with
    | none => rw [hg] at ht; simp at ht
    | some k =>
      obtain ⟨anc, o⟩ := occurs_of_get? hg
      refine ⟨k, anc, o, handle_of_get? hg, ?_⟩
      rw [hg] at ht
      simp only [Option.map_some] at ht
      cases hv : k.value <;> rw [hv] at ht <;> simp [Value.isText] at ht ⊢

theorem pruned_none (f : Forest) : pruned f (fun _ => false) = f := by
  unfold pruned
  rw [pruneTextKids_id _ _ (fun _ _ => rfl)]

/-- The removal loop (consolidation off), started after the handles in `done` have been deleted. -/
theorem fold_remove {f : Forest} {b : Bool} (nd : f.allHandles.Nodup) (hv : validList b f.roots = true)
    (hc : f.consolidation = false) :
    ∀ (L : List Nat) (done : Nat → Bool), L.Nodup → (∀ n ∈ L, done n = false) →
      (∀ n ∈ L, ∃ k anc, Occurs f k anc ∧ k.handle = n ∧ k.value.isText = true) →
      L.foldl (fun acc n => (acc.remove n).1) (pruned f done) = pruned f (fun h => done h || L.contains h)
  | [], done, _, _, _ => by simp
  | n :: L, done, hnd, hdone, htext => by
    obtain ⟨hn, hL⟩ := List.nodup_cons.1 hnd
    obtain ⟨k, anc, o, rfl, hk⟩ := htext n List.mem_cons_self
    have hkeep : (k.value.isText && done k.handle) = false := by
      rw [hdone _ List.mem_cons_self]; simp
    have o' := o.prune done hv hkeep
    have step := remove_text_off (pruned_nodup done nd) (show (pruned f done).consolidation = false from hc) o'
      (by rw [pruneText_value]; exact hk)
    rw [pruneText_handle] at step
    rw [List.foldl_cons, step, pruned_pruned]
    rw [fold_remove nd hv hc L _ hL
      (fun m hm => by
        have : m ≠ k.handle := fun e => hn (e ▸ hm)
        simp [hdone m (List.mem_cons_of_mem _ hm), this])
      (fun m hm => htext m (List.mem_cons_of_mem _ hm))]
    congr 1
    funext h
    simp only [List.contains_cons, Bool.or_assoc]

/-- The forest the loop runs on: consolidation switched off, nothing else changed. -/
def consOff (f : Forest) : Forest := { f with consolidation := false }

theorem pruned_consOff (f : Forest) (S : Nat → Bool) :
    { pruned (consOff f) S with consolidation := f.consolidation } = pruned f S := rfl

/-- `remove_insignificant_whitespace` deletes exactly the specification's set. -/
theorem strip_eq_pruned {f : Forest} {b : Bool} (nd : f.allHandles.Nodup) (hv : validList b f.roots = true)
    {t : HTree} {anc : List HTree} (o : Occurs f t anc) :
    f.removeInsignificantWhitespace t.handle = pruned f (fun h => (specTopRemoved anc t).contains h) := by
  unfold Forest.removeInsignificantWhitespace
  rw [o.get? nd]
  simp only
  have hnd : ((Forest.descendantsNormal t).filter f.isInsignificantWhitespace).Nodup :=
    (List.filter_sublist.trans (descendantsNormal_sublist t)).nodup (o.nodup nd)
  have := fold_remove (f := consOff f) (b := b) nd hv rfl _ (fun _ => false) hnd (fun _ _ => rfl)
    (fun n hn => by
      obtain ⟨k, anc, ok, h1, h2⟩ := collected_text (List.mem_filter.1 hn).2
      exact ⟨k, anc, Occurs.of_roots_eq (f := f) (f' := consOff f) rfl ok, h1, h2⟩)
  rw [pruned_none] at this
  show { List.foldl _ (consOff f) _ with consolidation := f.consolidation } = _
  rw [this, toRemove_eq nd hv o]
  simp only [Bool.false_or]
  exact pruned_consOff f _

/-! ### the specification's set lies below the start node -/

mutual
  theorem specRemoved_subset (p : Bool) : ∀ (t : HTree) (h : Nat), h ∈ specRemoved p t → h ∈ handlesList t.kids
    | .node h' v ks, h, hm => by
      simp only [specRemoved] at hm
      exact specRemovedKids_subset _ _ ks h hm
  theorem specRemovedKids_subset (p sig : Bool) : ∀ (ks : List HTree) (h : Nat),
      h ∈ specRemovedKids p sig ks → h ∈ handlesList ks
    | [], h, hm => by simp [specRemovedKids] at hm
    | k :: ks, h, hm => by
      simp only [specRemovedKids, List.mem_append] at hm
      simp only [handlesList, List.mem_append]
      rcases hm with hm | hm
      · refine Or.inl ?_
        split at hm
        · simp only [List.mem_singleton] at hm
          exact hm ▸ handle_mem_handles k
        · rw [handles_eq]
          exact List.mem_cons_of_mem _ (specRemoved_subset p k h hm)
      · exact Or.inr (specRemovedKids_subset p sig ks h hm)
end

theorem specTopRemoved_subset (anc : List HTree) (t : HTree) : ∀ h ∈ specTopRemoved anc t, h ∈ handles t := by
  intro h hm
  unfold specTopRemoved at hm
  split at hm
  · simp only [List.mem_singleton] at hm
    exact hm ▸ handle_mem_handles t
  · rw [handles_eq]
    exact List.mem_cons_of_mem _ (specRemoved_subset _ t h hm)

/-! ### pruning by the specification's set is `specStrip` -/

mutual
  theorem prune_eq_specStrip (p : Bool) (S : Nat → Bool) : ∀ t : HTree, (handles t).Nodup →
      (∀ h ∈ handlesList t.kids, (S h = true ↔ h ∈ specRemoved p t)) → pruneText S t = specStrip p t
    | .node h' v ks, nd, hS => by
      simp only [pruneText, specStrip]
      rw [prune_eq_specStripKids _ _ S ks (nodup_kids (t := .node h' v ks) nd).2 (by simpa [specRemoved, HTree.kids] using hS)]
  theorem prune_eq_specStripKids (p sig : Bool) (S : Nat → Bool) : ∀ ks : List HTree, (handlesList ks).Nodup →
      (∀ h ∈ handlesList ks, (S h = true ↔ h ∈ specRemovedKids p sig ks)) →
      pruneTextKids S ks = specStripKids p sig ks
    | [], _, _ => rfl
    | k :: ks, nd, hS => by
      obtain ⟨ndk, ndks, disj⟩ := nodup_handlesList_cons nd
      have notInRest : ∀ h ∈ handles k, h ∉ specRemovedKids p sig ks :=
        fun h hh hm => disj h hh (specRemovedKids_subset p sig ks h hm)
      simp only [pruneTextKids, specStripKids]
      by_cases hd : deletable p sig k = true
      · obtain ⟨s, hs⟩ := deletable_text hd
        have hSk : S k.handle = true :=
          (hS k.handle (by simp [handlesList, handle_mem_handles])).2 (by simp [specRemovedKids, hd])
        simp only [hd, if_true, hs, Value.isText, hSk, Bool.and_self]
        apply prune_eq_specStripKids p sig S ks ndks
        intro h hh
        rw [hS h (by simp [handlesList, hh])]
        simp only [specRemovedKids, hd, if_true, List.mem_append, List.mem_singleton]
        constructor
        · rintro (rfl | h1)
          · exact absurd hh (disj _ (handle_mem_handles k))
          · exact h1
        · exact Or.inr
      · have hSk : S k.handle = false := by
          rw [Bool.eq_false_iff]
          intro h1
          have := (hS k.handle (by simp [handlesList, handle_mem_handles])).1 h1
          simp only [specRemovedKids, hd, Bool.false_eq_true, if_false, List.mem_append] at this
          rcases this with h2 | h2
          · exact (nodup_kids ndk).1 (specRemoved_subset p k _ h2)
          · exact notInRest _ (handle_mem_handles k) h2
        simp only [hd, Bool.false_eq_true, if_false, hSk, Bool.and_false]
        rw [prune_eq_specStrip p S k ndk (fun h hh => by
            have hk' : h ∈ handles k := by rw [handles_eq]; exact List.mem_cons_of_mem _ hh
            rw [hS h (by simp [handlesList, hk'])]
            simp only [specRemovedKids, hd, Bool.false_eq_true, if_false, List.mem_append]
            exact ⟨fun h1 => h1.resolve_right (notInRest h hk'), Or.inl⟩),
          prune_eq_specStripKids p sig S ks ndks (fun h hh => by
            rw [hS h (by simp [handlesList, hh])]
            simp only [specRemovedKids, hd, Bool.false_eq_true, if_false, List.mem_append]
            refine ⟨fun h1 => h1.resolve_left (fun h2 => ?_), Or.inr⟩
            have : h ∈ handles k := by
              rw [handles_eq]; exact List.mem_cons_of_mem _ (specRemoved_subset p k h h2)
            exact disj h this hh)]
end

/-! ### what the call leaves at the start node -/

theorem topDeleted_text {anc : List HTree} {t : HTree} (h : topDeleted anc t = true) : t.value.isText = true := by
  obtain ⟨s, hs⟩ := deletable_text h
  rw [hs]; rfl

/-- The start node after the call: deleted, or the `specStrip` of the subtree. -/
theorem strip_get? {f : Forest} {b : Bool} (nd : f.allHandles.Nodup) (hv : validList b f.roots = true)
    {t : HTree} {anc : List HTree} (o : Occurs f t anc) :
    (f.removeInsignificantWhitespace t.handle).get? t.handle = specTop anc t := by
  rw [strip_eq_pruned nd hv o]
  unfold specTop
  by_cases hd : topDeleted anc t = true
  · simp only [hd, if_true]
    cases hx : (pruned f (fun h => (specTopRemoved anc t).contains h)).get? t.handle with
    | none => rfl
    | some x =>
      obtain ⟨q, hq, _, hkeep⟩ := pruned_get? _ nd hx
      rw [o.get? nd] at hq
      cases hq
      simp [topDeleted_text hd, specTopRemoved, hd] at hkeep
  · simp only [hd, Bool.false_eq_true, if_false]
    have hnot : t.handle ∉ specRemoved (chainScope anc) t :=
      fun hm => (nodup_kids (o.nodup nd)).1 (specRemoved_subset _ t _ hm)
    have hkeep : (t.value.isText && (specTopRemoved anc t).contains t.handle) = false := by
      simp [specTopRemoved, hd, hnot]
    have o' := o.prune _ hv hkeep
    have := o'.get? (pruned_nodup _ nd)
    rw [pruneText_handle] at this
    rw [this]
    congr 1
    apply prune_eq_specStrip _ _ t (o.nodup nd)
    intro h _
    simp [specTopRemoved, hd]

/-- The positions that survive. -/
theorem strip_occurs {f : Forest} {b : Bool} (nd : f.allHandles.Nodup) (hv : validList b f.roots = true)
    {t : HTree} {anc : List HTree} (o : Occurs f t anc) {q : HTree} {ancq : List HTree} (oq : Occurs f q ancq)
    (hq : q.handle ∉ specTopRemoved anc t) :
    let S := fun h => (specTopRemoved anc t).contains h
    Occurs (f.removeInsignificantWhitespace t.handle) (pruneText S q) (ancq.map (pruneText S)) := by
  intro S
  rw [strip_eq_pruned nd hv o]
  exact oq.prune S hv (by simp [S, hq])

end Fws
end XotModel
