/-
  C02_scope at string level: the id-level prefix lookup of `NameIdBuilder` IS XML-Namespaces
  scoping over the declared strings.

  `strStack env stack` reads the namespace stack back as (prefix string, URI string) frames;
  `lookupStr` is "nearest enclosing declaration of this prefix wins" on strings.  Under the
  invariant that the interning tables have no duplicates and the stack only holds valid ids —
  which every builder state reachable from a duplicate-free `Env` satisfies — the namespace id the
  builder resolves a prefix to names exactly the URI string scoping gives.
-/
import XotModel.Lemmas.ParseQName
import XotModel.Lemmas.ParseSpellStart

namespace XotModel

/-! ### String-level scoping -/

def strFrame (env : Env) (d : List (Nat × Nat)) : List (Str × Str) :=
  d.map fun x => (env.prefixStr x.1, env.namespaceStr x.2)

def strStack (env : Env) (stack : NsStack) : List (List (Str × Str)) := stack.map (strFrame env)

/-- The last declaration of `p` in one start tag. -/
def lookupStrFrame (p : Str) (d : List (Str × Str)) : Option Str :=
  (d.reverse.find? fun x => x.1 == p).map fun x => x.2

/-- Nearest enclosing declaration wins. -/
def lookupStr (stack : List (List (Str × Str))) (p : Str) : Option Str :=
  stack.findSome? (lookupStrFrame p)

/-! ### Ids and strings -/

theorem idxOf_getElem_of_nodup {α : Type} [BEq α] [LawfulBEq α] : ∀ (l : List α), l.Nodup →
    ∀ (i : Nat) (h : i < l.length), l.idxOf l[i] = i
  | [], _, i, h => by simp at h
  | x :: xs, hn, 0, _ => by simp
  | x :: xs, hn, i + 1, h => by
    have hn' := List.nodup_cons.mp hn
    have hi : i < xs.length := by simpa using h
    have hne : xs[i] ≠ x := by
      intro he
      apply hn'.1
      rw [← he]; exact List.getElem_mem _
    have : (x == xs[i]) = false := by
      rw [beq_eq_false_iff_ne]; exact fun e => hne e.symm
    simp only [List.getElem_cons_succ, List.idxOf_cons, this, cond_false]
    rw [idxOf_getElem_of_nodup xs hn'.2 i hi]

def FrameValid (env : Env) (d : List (Nat × Nat)) : Prop :=
  ∀ x ∈ d, x.1 < env.prefixes.length ∧ x.2 < env.namespaces.length

def StackValid (env : Env) (stack : NsStack) : Prop := ∀ d ∈ stack, FrameValid env d

theorem prefixStr_eq_iff {env : Env} (hn : env.prefixes.Nodup) {i : Nat} (hi : i < env.prefixes.length) (p : Str) :
    (i == env.prefixes.idxOf p) = (env.prefixStr i == p) := by
  have hget : env.prefixStr i = env.prefixes[i] := by
    simp [Env.prefixStr, List.getD, List.getElem?_eq_getElem hi]
  rw [hget]
  by_cases h : env.prefixes[i] = p
  · subst h
    simp [idxOf_getElem_of_nodup env.prefixes hn i hi]
  · have h2 : (env.prefixes[i] == p) = false := by simpa using h
    rw [h2, beq_eq_false_iff_ne]
    intro he
    by_cases hm : p ∈ env.prefixes
    · have := List.getElem_idxOf (List.idxOf_lt_length_of_mem hm)
      apply h
      rw [← this]
      congr 1
    · rw [List.idxOf_eq_length hm] at he
      omega

theorem findInDecls_str {env : Env} (hn : env.prefixes.Nodup) (p : Str) : ∀ (d : List (Nat × Nat)),
    FrameValid env d →
    (findInDecls (env.prefixes.idxOf p) d).map env.namespaceStr = lookupStrFrame p (strFrame env d) := by
  intro d hv
  unfold findInDecls lookupStrFrame strFrame
  rw [← List.map_reverse]
  have hv' : ∀ x ∈ d.reverse, x.1 < env.prefixes.length := fun x hx => (hv x (by simpa using hx)).1
  generalize d.reverse = l at hv'
  induction l with
  | nil => rfl
  | cons x xs ih =>
    have hx := hv' x (by simp)
    simp only [List.find?_cons, List.map_cons]
    rw [← prefixStr_eq_iff hn hx p]
    cases hb : (x.1 == env.prefixes.idxOf p) with
    | true => rfl
    | false => exact ih (fun y hy => hv' y (by simp [hy]))

/-- C02_scope_strings: the namespace a prefix resolves to, read back as a string, is what
    XML-Namespaces scoping gives on the declared strings. -/
theorem lookupPrefix_str {env : Env} (hn : env.prefixes.Nodup) (p : Str) : ∀ (stack : NsStack), StackValid env stack →
    (lookupPrefix stack (env.internPrefix p).2).map env.namespaceStr = lookupStr (strStack env stack) p := by
  intro stack
  induction stack with
  | nil => intro _; rfl
  | cons d rest ih =>
    intro hv
    have hd := findInDecls_str hn p d (hv d (by simp))
    have hr := ih (fun x hx => hv x (by simp [hx]))
    have hid : (env.internPrefix p).2 = env.prefixes.idxOf p := rfl
    rw [hid] at hr ⊢
    rw [lookupPrefix_cons]
    simp only [strStack, List.map_cons, lookupStr, List.findSome?_cons]
    rw [← hd]
    cases findInDecls (env.prefixes.idxOf p) d with
    | some ns => rfl
    | none => simpa [strStack, lookupStr] using hr

/-! ### The invariant is kept by the builder -/

theorem internIn_nodup {α : Type} [BEq α] [LawfulBEq α] {l : List α} (h : l.Nodup) (v : α) : (internIn l v).1.Nodup := by
  unfold internIn
  split
  · exact h
  · rename_i hc
    have hm : v ∉ l := by simpa using hc
    rw [List.nodup_append]
    exact ⟨h, by simp, fun a ha b hb => by simp only [List.mem_singleton] at hb; subst hb; exact fun e => hm (e ▸ ha)⟩

theorem internIn_lt {α : Type} [BEq α] [LawfulBEq α] (l : List α) (v : α) : (internIn l v).2 < (internIn l v).1.length := by
  have := internIn_get l v
  rcases Nat.lt_or_ge (internIn l v).2 (internIn l v).1.length with h | h
  · exact h
  · rw [List.getElem?_eq_none h] at this; cases this

theorem internIn_length_le {α : Type} [BEq α] (l : List α) (v : α) : l.length ≤ (internIn l v).1.length := by
  obtain ⟨ext, h⟩ := internIn_ext l v
  rw [h]; simp

/-- The tables only grow. -/
def EnvGrows (e e' : Env) : Prop :=
  e.prefixes.length ≤ e'.prefixes.length ∧ e.namespaces.length ≤ e'.namespaces.length

theorem FrameValid.grow {e e' : Env} (h : EnvGrows e e') {d : List (Nat × Nat)} (hd : FrameValid e d) : FrameValid e' d :=
  fun x hx => ⟨Nat.lt_of_lt_of_le (hd x hx).1 h.1, Nat.lt_of_lt_of_le (hd x hx).2 h.2⟩

/-- No duplicates in the prefix / namespace tables, and only valid ids on the namespace stack and in
    the declarations collected for the start tag being read. -/
structure ScopeOk (b : Builder) : Prop where
  pfxNodup : b.env.prefixes.Nodup
  nsNodup : b.env.namespaces.Nodup
  stack : StackValid b.env b.nsStack
  eb : ∀ e, b.eb = some e → FrameValid b.env e.namespaces

theorem scopeOk_new {env : Env} (hp : env.prefixes.Nodup) (hn : env.namespaces.Nodup)
    (h2p : 2 ≤ env.prefixes.length) (h2n : 2 ≤ env.namespaces.length) : ScopeOk (Builder.new env) := by
  refine ⟨hp, hn, ?_, fun e he => by simp [Builder.new] at he⟩
  intro d hd
  simp only [Builder.new, List.mem_cons, List.not_mem_nil, or_false] at hd
  rcases hd with rfl | rfl
  · intro x hx
    simp only [List.mem_singleton] at hx
    subst hx
    simp only [Env.emptyPrefix, Env.noNamespace, Builder.new]; omega
  · intro x hx
    simp only [List.mem_singleton] at hx
    subst hx
    simp only [Env.xmlPrefix, Env.xmlNamespace, Builder.new]; omega

/-- A step that only changes `env` by name interning keeps everything. -/
theorem scopeOk_of_same {b b' : Builder} (h : ScopeOk b) (hp : b'.env.prefixes = b.env.prefixes)
    (hn : b'.env.namespaces = b.env.namespaces) (hs : b'.nsStack = b.nsStack) (he : b'.eb = b.eb) : ScopeOk b' := by
  refine ⟨by rw [hp]; exact h.pfxNodup, by rw [hn]; exact h.nsNodup, ?_, ?_⟩
  · intro d hd x hx
    rw [hs] at hd
    rw [hp, hn]; exact h.stack d hd x hx
  · intro e hee x hx
    rw [he] at hee
    rw [hp, hn]; exact h.eb e hee x hx

theorem internPrefix_grows (e : Env) (p : Str) : EnvGrows e (e.internPrefix p).1 :=
  ⟨internIn_length_le e.prefixes p, Nat.le_refl _⟩

theorem internNamespace_grows (e : Env) (u : Str) : EnvGrows e (e.internNamespace u).1 :=
  ⟨Nat.le_refl _, internIn_length_le e.namespaces u⟩

theorem EnvGrows.trans {a b c : Env} (h1 : EnvGrows a b) (h2 : EnvGrows b c) : EnvGrows a c :=
  ⟨Nat.le_trans h1.1 h2.1, Nat.le_trans h1.2 h2.2⟩

/-- A namespace declaration: the new pair is valid in the tables it was interned into. -/
theorem prefix_scopeOk {b b' : Builder} (h : ScopeOk b) (p : Str) (u : StrSpan) (sp : Span)
    (hr : b.prefix p u sp = .ok b') : ScopeOk b' := by
  unfold Builder.prefix at hr
  split at hr
  · cases hr
  · rename_i us _
    split at hr
    · cases hr
    dsimp only at hr
    split at hr
    · cases hr
    · rename_i eb heb
      split at hr
      · cases hr
      · simp only [Step.ok.injEq] at hr
        subst hr
        have hg : EnvGrows b.env ((b.env.internPrefix p).1.internNamespace us).1 :=
          (internPrefix_grows b.env p).trans (internNamespace_grows _ us)
        refine ⟨internIn_nodup h.pfxNodup p, internIn_nodup h.nsNodup us, ?_, ?_⟩
        · exact fun d hd => (h.stack d hd).grow hg
        · intro e he x hx
          simp only [Option.some.injEq] at he
          subst he
          simp only [List.mem_append, List.mem_singleton] at hx
          rcases hx with hx | rfl
          · exact (h.eb eb heb).grow hg x hx
          · exact ⟨internIn_lt b.env.prefixes p, internIn_lt _ us⟩

/-! ### Name resolution changes only the prefix and name tables -/

theorem elementNameId_env {env env' : Env} {stack : NsStack} {p n : Str} {sp : Span} {id : Nat}
    (h : elementNameId env stack p n sp = .ok (env', id)) :
    env'.namespaces = env.namespaces ∧ env'.prefixes = (internIn env.prefixes p).1 := by
  unfold elementNameId at h
  dsimp only at h
  split at h
  · simp only [Step.ok.injEq] at h
    have he : env' = _ := (congrArg Prod.fst h).symm
    subst he
    exact ⟨rfl, rfl⟩
  · cases h

theorem attributeNameId_env {env env' : Env} {stack : NsStack} {p n : Str} {sp : Span} {id : Nat}
    (h : attributeNameId env stack p n sp = .ok (env', id)) :
    env'.namespaces = env.namespaces ∧ env'.prefixes = (internIn env.prefixes p).1 := by
  unfold attributeNameId at h
  dsimp only at h
  split at h
  · simp only [Step.ok.injEq] at h
    have he : env' = _ := (congrArg Prod.fst h).symm
    subst he
    exact ⟨rfl, rfl⟩
  · split at h
    · simp only [Step.ok.injEq] at h
      have he : env' = _ := (congrArg Prod.fst h).symm
      subst he
      exact ⟨rfl, rfl⟩
    · cases h

/-- What name resolution may do to the tables: namespaces untouched, prefixes grow without
    duplicates. -/
def PfxGrows (e e' : Env) : Prop :=
  e'.namespaces = e.namespaces ∧ e.prefixes.length ≤ e'.prefixes.length ∧ (e.prefixes.Nodup → e'.prefixes.Nodup)

theorem PfxGrows.refl (e : Env) : PfxGrows e e := ⟨rfl, Nat.le_refl _, id⟩

theorem PfxGrows.trans {a b c : Env} (h1 : PfxGrows a b) (h2 : PfxGrows b c) : PfxGrows a c :=
  ⟨h2.1.trans h1.1, Nat.le_trans h1.2.1 h2.2.1, fun h => h2.2.2 (h1.2.2 h)⟩

theorem pfxGrows_of_intern {e e' : Env} {p : Str} (hn : e'.namespaces = e.namespaces)
    (hp : e'.prefixes = (internIn e.prefixes p).1) : PfxGrows e e' :=
  ⟨hn, by rw [hp]; exact internIn_length_le _ _, fun h => by rw [hp]; exact internIn_nodup h p⟩

theorem addAttributes_env (stack : NsStack) (node : Path) (abs : List AttributeBuilder) :
    ∀ (st st' : AttrLoop), addAttributes stack node st abs = .ok st' → PfxGrows st.env st'.env := by
  induction abs with
  | nil => intro st st' h; simp only [addAttributes, Step.ok.injEq] at h; subst h; exact PfxGrows.refl _
  | cons ab rest ih =>
    intro st st' h
    simp only [addAttributes] at h
    cases hn : attributeNameId st.env stack ab.pfx ab.name ab.prefixSpan with
    | panic => rw [hn] at h; cases h
    | err e env => rw [hn] at h; cases h
    | ok r =>
      obtain ⟨env1, nameId⟩ := r
      rw [hn] at h
      simp only at h
      obtain ⟨h1, h2⟩ := attributeNameId_env hn
      split at h
      · cases h
      · split at h
        · cases h
        · exact (pfxGrows_of_intern h1 h2).trans (ih _ st' h)

theorem ScopeOk.of_pfxGrows {b b' : Builder} (h : ScopeOk b) (hg : PfxGrows b.env b'.env)
    (hs : StackValid b.env b'.nsStack) (he : ∀ e, b'.eb = some e → FrameValid b.env e.namespaces) : ScopeOk b' := by
  have hgrow : EnvGrows b.env b'.env := ⟨hg.2.1, by rw [hg.1]; exact Nat.le_refl _⟩
  exact ⟨hg.2.2 h.pfxNodup, by rw [hg.1]; exact h.nsNodup, fun d hd => (hs d hd).grow hgrow,
    fun e hee => (he e hee).grow hgrow⟩

theorem stackValid_tail {env : Env} {stack : NsStack} (h : StackValid env stack) : StackValid env stack.tail :=
  fun d hd => h d (List.mem_of_mem_tail hd)

theorem leave_scope {b b' : Builder} (node : Path) (sp : StrSpan) (hr : b.leave node sp = .ok b') :
    b'.env = b.env ∧ b'.nsStack = b.nsStack ∧ b'.eb = b.eb := by
  unfold Builder.leave Builder.toParent at hr
  cases hp : b.parents with
  | nil => rw [hp] at hr; cases hr
  | cons p rest =>
    rw [hp] at hr
    simp only [Step.ok.injEq] at hr
    subst hr
    exact ⟨rfl, rfl, rfl⟩

theorem openElement_scopeOk {b b' : Builder} (h : ScopeOk b) (hr : b.openElement = .ok b') : ScopeOk b' := by
  unfold Builder.openElement at hr
  split at hr
  · cases hr
  · rename_i eb heb
    dsimp only at hr
    cases hn : elementNameId b.env (eb.namespaces :: b.nsStack) eb.pfx eb.name eb.prefixSpan with
    | panic => rw [hn] at hr; cases hr
    | err e env => rw [hn] at hr; cases hr
    | ok r =>
      obtain ⟨env1, nameId⟩ := r
      rw [hn] at hr
      simp only at hr
      obtain ⟨h1, h2⟩ := elementNameId_env hn
      split at hr
      · cases hr
      · cases hr
      · rename_i st hst
        simp only [Step.ok.injEq] at hr
        subst hr
        have hg := (pfxGrows_of_intern h1 h2).trans (addAttributes_env _ _ _ _ st hst)
        refine h.of_pfxGrows hg ?_ (fun e he => by simp at he)
        intro d hd
        simp only [List.mem_cons] at hd
        rcases hd with rfl | hd
        · exact h.eb eb heb
        · exact h.stack d hd

theorem step_scopeOk {b b' : Builder} (t : Token) (h : ScopeOk b) (hr : b.step t = .ok b') : ScopeOk b' := by
  replace hr := Builder.step_ok_core hr
  cases t with
  | «attribute» pfx loc value sp =>
    simp only [Builder.stepCore] at hr
    split at hr
    · exact prefix_scopeOk h _ _ _ hr
    · split at hr
      · exact prefix_scopeOk h _ _ _ hr
      · unfold Builder.attribute at hr
        split at hr
        · cases hr
        · rename_i eb heb
          split at hr
          · cases hr
          · split at hr
            · cases hr
            · simp only [Step.ok.injEq] at hr
              subst hr
              refine ⟨h.pfxNodup, h.nsNodup, h.stack, fun e he => ?_⟩
              simp only [Option.some.injEq] at he
              subst he
              exact h.eb eb heb
  | text t =>
    simp only [Builder.stepCore, Builder.text] at hr
    split at hr
    · cases hr
    · simp only [Step.ok.injEq] at hr; subst hr
      refine scopeOk_of_same h ?_ ?_ ?_ ?_ <;> (unfold Builder.addText; split <;> rfl)
  | cdata t sp =>
    simp only [Builder.stepCore, Builder.cdata] at hr
    split at hr
    · simp only [Step.ok.injEq] at hr; subst hr; exact h
    · simp only [Step.ok.injEq] at hr; subst hr
      refine scopeOk_of_same h ?_ ?_ ?_ ?_ <;> (unfold Builder.addText; split <;> rfl)
  | elementStart pfx loc sp =>
    simp only [Builder.stepCore, Builder.element, Step.ok.injEq] at hr
    subst hr
    refine ⟨h.pfxNodup, h.nsNodup, h.stack, fun e he => ?_⟩
    simp only [Option.some.injEq] at he
    subst he
    intro x hx
    simp [ElementBuilder.new] at hx
  | elementEnd e sp =>
    cases e with
    | «open» => exact openElement_scopeOk h hr
    | close pfx loc =>
      simp only [Builder.stepCore] at hr
      unfold Builder.closeElement at hr
      cases hn : elementNameId b.env b.nsStack pfx.text loc.text pfx.span with
      | panic => rw [hn] at hr; cases hr
      | err e env => rw [hn] at hr; cases hr
      | ok r =>
        obtain ⟨env1, nameId⟩ := r
        rw [hn] at hr
        simp only at hr
        obtain ⟨h1, h2⟩ := elementNameId_env hn
        have hg := pfxGrows_of_intern h1 h2
        split at hr
        · cases hr
        · split at hr
          · split at hr
            · cases hr
            · obtain ⟨he, hs, hb⟩ := leave_scope _ _ hr
              refine h.of_pfxGrows (by rw [he]; exact hg) (by rw [hs]; exact stackValid_tail h.stack)
                (fun e hee => h.eb e (by rw [hb] at hee; exact hee))
          · obtain ⟨he, hs, hb⟩ := leave_scope _ _ hr
            refine h.of_pfxGrows (by rw [he]; exact hg) (by rw [hs]; exact h.stack)
              (fun e hee => h.eb e (by rw [hb] at hee; exact hee))
    | empty =>
      simp only [Builder.stepCore] at hr
      cases hb : b.openElement with
      | ok b1 =>
        rw [hb] at hr
        have h1 := openElement_scopeOk h hb
        unfold Builder.closeImmediate at hr
        obtain ⟨he, hs, hb'⟩ := leave_scope _ _ hr
        refine ⟨by rw [he]; split <;> exact h1.pfxNodup, by rw [he]; split <;> exact h1.nsNodup, ?_, ?_⟩
        · rw [he, hs]
          split
          · exact stackValid_tail h1.stack
          · exact h1.stack
        · intro e hee
          rw [hb'] at hee
          rw [he]
          split at hee <;> split <;> first | exact h1.eb e hee | skip
          all_goals exact h1.eb e hee
      | err e env => rw [hb] at hr; cases hr
      | panic => rw [hb] at hr; cases hr
  | comment t sp =>
    simp only [Builder.stepCore, Builder.comment, Step.ok.injEq] at hr
    subst hr
    exact scopeOk_of_same h rfl rfl rfl rfl
  | pi target content sp =>
    simp only [Builder.stepCore] at hr
    split at hr
    · cases hr
    simp only [Builder.processingInstruction, Step.ok.injEq] at hr
    subst hr
    exact scopeOk_of_same h rfl rfl rfl rfl
  | declaration v e s sp =>
    simp only [Builder.stepCore] at hr
    split at hr
    · cases hr
    · simp only [Step.ok.injEq] at hr; subst hr; exact h
  | dtdStart sp => simp [Builder.stepCore] at hr
  | dtdEnd sp => simp [Builder.stepCore] at hr
  | emptyDtd sp => simp [Builder.stepCore] at hr
  | entityDecl sp => simp [Builder.stepCore] at hr

/-- Every state the token loop reaches keeps the scope invariant. -/
theorem run_scopeOk (ts : List Token) (lexErr : Option Nat) :
    ∀ {b b' : Builder}, ScopeOk b → b.run ts lexErr = .ok b' → ScopeOk b' := by
  induction ts with
  | nil =>
    intro b b' h hr
    cases lexErr with
    | none =>
      simp only [Builder.run] at hr
      split at hr
      · cases hr
      · simp only [Step.ok.injEq] at hr; subst hr; exact h
    | some p => simp [Builder.run] at hr
  | cons t ts ih =>
    intro b b' h hr
    simp only [Builder.run] at hr
    cases hb : b.step t with
    | ok b1 => rw [hb] at hr; exact ih (step_scopeOk t h hb) hr
    | err e env => rw [hb] at hr; cases hr
    | panic => rw [hb] at hr; cases hr

/-- The element name a start tag resolves to: its local name in the namespace whose URI string
    is what XML-Namespaces scoping gives for the prefix as written. -/
theorem elementNameId_str {b : Builder} (h : ScopeOk b) {stack : NsStack} (hs : StackValid b.env stack)
    {pfx name : Str} {sp : Span} {env1 : Env} {id : Nat}
    (hname : elementNameId b.env stack pfx name sp = .ok (env1, id)) :
    ∃ nid, env1.names[id]? = some (name, nid) ∧
      some (b.env.namespaceStr nid) = lookupStr (strStack b.env stack) pfx := by
  have hl := lookupPrefix_str h.pfxNodup pfx stack hs
  unfold elementNameId at hname
  dsimp only at hname
  split at hname
  · rename_i ns hns
    simp only [Step.ok.injEq] at hname
    have he := congrArg Prod.fst hname
    have hi := congrArg Prod.snd hname
    simp only at he hi
    refine ⟨ns, ?_, ?_⟩
    · rw [← he, ← hi]; exact internName_get _ name ns
    · rw [hns] at hl; exact hl
  · cases hname

/-- … and for attributes: unprefixed = no namespace, prefixed = scoping. -/
theorem attributeNameId_str {b : Builder} (h : ScopeOk b) {stack : NsStack} (hs : StackValid b.env stack)
    {pfx name : Str} {sp : Span} {env1 : Env} {id : Nat} (hp0 : b.env.prefixes.head? = some [])
    (hname : attributeNameId b.env stack pfx name sp = .ok (env1, id)) :
    ∃ nid, env1.names[id]? = some (name, nid) ∧
      (pfx = [] → nid = Env.noNamespace) ∧
      (pfx ≠ [] → some (b.env.namespaceStr nid) = lookupStr (strStack b.env stack) pfx) := by
  have hl := lookupPrefix_str h.pfxNodup pfx stack hs
  have hzero : (b.env.internPrefix pfx).2 = 0 ↔ pfx = [] := by
    have h0 : b.env.prefixes.idxOf ([] : Str) = 0 := by
      cases hp : b.env.prefixes with
      | nil => simp [hp] at hp0
      | cons x xs => simp only [hp, List.head?_cons, Option.some.injEq] at hp0; subst hp0; simp
    constructor
    · intro hz
      have hlt : 0 < b.env.prefixes.length := by
        cases hp : b.env.prefixes with
        | nil => simp [hp] at hp0
        | cons x xs => simp
      have hid : b.env.prefixes.idxOf pfx = 0 := hz
      have hm : pfx ∈ b.env.prefixes := by
        rw [← List.idxOf_lt_length_iff]; omega
      have h1 : b.env.prefixes[b.env.prefixes.idxOf pfx]? = some pfx := by
        rw [List.getElem?_eq_getElem (List.idxOf_lt_length_of_mem hm)]; simp [List.getElem_idxOf]
      rw [hid] at h1
      have h2 : b.env.prefixes[0]? = some [] := by rw [← List.head?_eq_getElem?]; exact hp0
      rw [h2] at h1
      exact (Option.some.inj h1).symm
    · intro hpe; subst hpe; exact h0
  unfold attributeNameId at hname
  dsimp only at hname
  split at hname
  · rename_i hz
    have hz' : (b.env.internPrefix pfx).2 = 0 := by simpa [Env.emptyPrefix] using hz
    simp only [Step.ok.injEq] at hname
    have he := congrArg Prod.fst hname
    have hi := congrArg Prod.snd hname
    simp only at he hi
    refine ⟨Env.noNamespace, ?_, fun _ => rfl, fun hne => absurd (hzero.mp hz') hne⟩
    rw [← he, ← hi]; exact internName_get _ name _
  · rename_i hz
    split at hname
    · rename_i ns hns
      simp only [Step.ok.injEq] at hname
      have he := congrArg Prod.fst hname
      have hi := congrArg Prod.snd hname
      simp only at he hi
      refine ⟨ns, ?_, fun hpe => ?_, fun _ => ?_⟩
      · rw [← he, ← hi]; exact internName_get _ name ns
      · exact absurd (by simpa [Env.emptyPrefix] using hzero.mpr hpe) hz
      · rw [hns] at hl; exact hl
    · cases hname

end XotModel
