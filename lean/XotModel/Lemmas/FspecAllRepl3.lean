/-
  FspecAllRepl3 — C05 for `replace`, pair reading, part 3: the forest `replMid` at the parent of the
  replaced node when the replacing node is a child of that same parent (not next to the replaced
  node): all edits happen in one child list.  This is the geometry in which the left neighbour of
  the replaced node can be merged away (`Consumed`).
-/
import XotModel.Lemmas.FspecAllRepl2

namespace XotModel
open HTree Spec

namespace PairAll

/-- Text children stay leaves through a pair merge. -/
theorem leaf_mergeAdj {a b : Nat} : ∀ (M : List HTree), (∀ k ∈ M, k.value.isText = true → k.kids = []) →
    ∀ k ∈ mergeAdj a b M, k.value.isText = true → k.kids = []
  | [], _ => by rw [mergeAdj_nil]; intro k hk; cases hk
  | [x], h => by rw [mergeAdj_single]; exact h
  | x :: y :: rest, h => by
    rw [mergeAdj_cons_cons]
    split
    · by_cases hb : x.value.isText = true ∧ y.value.isText = true
      · obtain ⟨s, hs⟩ := text_of_isText hb.1
        obtain ⟨u, hu⟩ := text_of_isText hb.2
        rw [joinLeft_text hs hu]
        simp only [Option.map_some, Option.getD_some]
        intro k hk hkt
        cases List.mem_cons.1 hk with
        | inl e => rw [e, setValue_kids]; exact h x (by simp) hb.1
        | inr e => exact h k (by simp [e]) hkt
      · rw [joinLeft_none hb]; exact h
    · intro k hk hkt
      cases List.mem_cons.1 hk with
      | inl e => exact h k (by simp [e]) hkt
      | inr e => exact leaf_mergeAdj (y :: rest) (fun k' hk' => h k' (List.mem_cons_of_mem _ hk')) k e hkt

theorem leaf_adjOpt (nb : Option Nat × Option Nat) {M : List HTree}
    (h : ∀ k ∈ M, k.value.isText = true → k.kids = []) :
    ∀ k ∈ adjOpt nb M, k.value.isText = true → k.kids = [] := by
  obtain ⟨oa, ob⟩ := nb
  cases oa with
  | none => exact h
  | some a =>
    cases ob with
    | none => exact h
    | some b => exact leaf_mergeAdj M h

/-- The merge at the seam of `u ++ w`, or none, by the consolidation flag. -/
def seamOf (c : Bool) (u w : List HTree) : List HTree :=
  if c then adjOpt (u.getLast?.map (·.handle), w.head?.map (·.handle)) (u ++ w) else u ++ w

theorem seamOf_sublist (c : Bool) (u w : List HTree) :
    (handlesList (seamOf c u w)).Sublist (handlesList (u ++ w)) := by
  unfold seamOf
  split
  · exact handlesList_adjOpt_sublist _ _
  · exact List.Sublist.refl _

theorem seamOf_leaf (c : Bool) {u w : List HTree} (h : ∀ k ∈ u ++ w, k.value.isText = true → k.kids = []) :
    ∀ k ∈ seamOf c u w, k.value.isText = true → k.kids = [] := by
  unfold seamOf
  split
  · exact leaf_adjOpt _ h
  · exact h

/-- The first node of `u ++ w` keeps its identity through the merge at the seam. -/
theorem seamOf_head (c : Bool) {u w : List HTree} (hu : u ≠ []) (nd : (handlesList (u ++ w)).Nodup) :
    ∃ N u0 N' r1, u = N :: u0 ∧ seamOf c u w = N' :: r1 ∧ N'.handle = N.handle ∧
      N'.value.isText = N.value.isText := by
  cases u with
  | nil => exact absurd rfl hu
  | cons N u0 =>
    cases c with
    | false => exact ⟨N, u0, N, u0 ++ w, rfl, rfl, rfl, rfl⟩
    | true =>
      have hs : seamOf true (N :: u0) w =
          adjOpt ((N :: u0).getLast?.map (·.handle), w.head?.map (·.handle)) ((N :: u0) ++ w) := rfl
      rw [hs]
      cases hl : (N :: u0).getLast? with
      | none => exact ⟨N, u0, N, u0 ++ w, rfl, rfl, rfl, rfl⟩
      | some x =>
        cases hw : w.head? with
        | none => exact ⟨N, u0, N, u0 ++ w, rfl, rfl, rfl, rfl⟩
        | some y =>
          obtain ⟨u', eu⟩ := List.getLast?_eq_some_iff.1 hl
          obtain ⟨w', ew⟩ := List.head?_eq_some_iff.1 hw
          subst ew
          simp only [Option.map_some]
          have e2 : (N :: u0) ++ y :: w' = u' ++ x :: y :: w' := by rw [eu]; simp
          rw [e2] at nd ⊢
          rcases seam_cases u' x y w' (tops_ne_of_nodup nd).1 with e | ⟨s, v, hs', hv, e⟩
          · rw [e, ← e2]; exact ⟨N, u0, N, u0 ++ y :: w', rfl, rfl, rfl, rfl⟩
          · rw [e]
            cases u' with
            | nil =>
              simp only [List.nil_append, List.cons.injEq] at eu
              obtain ⟨e3, e4⟩ := eu
              subst e3
              exact ⟨N, u0, N.setValue (.text (s ++ v)), w', rfl, rfl, setValue_handle _ _, by
                rw [setValue_value, hs']; rfl⟩
            | cons c0 u'' =>
              simp only [List.cons_append, List.cons.injEq] at eu
              obtain ⟨e3, e4⟩ := eu
              subst e3
              exact ⟨N, u0, N, u'' ++ x.setValue (.text (s ++ v)) :: w', rfl, rfl, rfl, rfl⟩

/-- The last node of `u ++ w` through the merge at the seam: it stays, or it was the only node of
    `w`, a text node behind a text node, and is merged away. -/
theorem seamOf_last (c : Bool) {u w : List HTree} (hw : w ≠ []) (nd : (handlesList (u ++ w)).Nodup) :
    (∃ w0 P l1, w = w0 ++ [P] ∧ seamOf c u w = l1 ++ [P]) ∨
    (c = true ∧ ∃ u' x P s v, u = u' ++ [x] ∧ w = [P] ∧ x.value = .text s ∧ P.value = .text v ∧
      seamOf c u w = u' ++ [x.setValue (.text (s ++ v))]) := by
  obtain ⟨w0, P, ew⟩ : ∃ w0 P, w = w0 ++ [P] := by
    rcases List.eq_nil_or_concat w with h | ⟨w0, P, h⟩
    · exact absurd h hw
    · exact ⟨w0, P, by rw [h, List.concat_eq_append]⟩
  have plain : ∃ w0 P l1, w = w0 ++ [P] ∧ u ++ w = l1 ++ [P] := ⟨w0, P, u ++ w0, ew, by rw [ew]; simp⟩
  cases c with
  | false => exact Or.inl plain
  | true =>
    have hs0 : seamOf true u w = adjOpt (u.getLast?.map (·.handle), w.head?.map (·.handle)) (u ++ w) := rfl
    rw [hs0]
    cases hl : u.getLast? with
    | none => exact Or.inl plain
    | some x =>
      cases hh : w.head? with
      | none => exact Or.inl plain
      | some y =>
        obtain ⟨u', eu⟩ := List.getLast?_eq_some_iff.1 hl
        obtain ⟨w', ew'⟩ := List.head?_eq_some_iff.1 hh
        subst eu
        simp only [Option.map_some]
        have e2 : (u' ++ [x]) ++ w = u' ++ x :: y :: w' := by rw [ew']; simp
        rw [e2] at nd ⊢
        rcases seam_cases u' x y w' (tops_ne_of_nodup nd).1 with e | ⟨s, v, hs, hv, e⟩
        · rw [e, ← e2]; exact Or.inl plain
        · rw [e]
          rcases List.eq_nil_or_concat w' with hw' | ⟨w'', P', hw'⟩
          · subst hw'
            right
            exact ⟨by trivial, u', x, y, s, v, rfl, ew', hs, hv, rfl⟩
          · rw [List.concat_eq_append] at hw'
            subst hw'
            left
            refine ⟨y :: w'', P', u' ++ x.setValue (.text (s ++ v)) :: w'', by rw [ew']; simp, by simp⟩

end PairAll

namespace ReplArgs
variable {f : Forest} {a b q : Nat} {vq : Value} {l : List HTree} {A : HTree} {r : List HTree} {t : HTree}
open PairAll

/-- `replMid` when all edits happen in the child list of `q`. -/
theorem replMid_same (h : ReplArgs f a b q vq l A r t) (hpar : f.parent? b = some q) :
    replMid f a b q t =
      f.editAt (some q) ((if f.consolidation then adjOpt (f.nbOf b) else id) ∘
        replaceTop a (fun _ => [t]) ∘ dropTop b) := by
  unfold replMid
  rw [hpar]
  cases hc : f.consolidation with
  | false =>
    rw [Forest.mergeLeftAt_off (by rw [Forest.editAt_consolidation, Forest.editAt_consolidation]; exact hc),
      Forest.editAt_editAt]
    rfl
  | true =>
    rw [mergeLeftAt_eq_adjOpt (by rw [Forest.editAt_consolidation, Forest.editAt_consolidation]; exact hc),
      Forest.editAt_editAt, Forest.editAt_editAt]
    rfl

/-- The replacing node stands before the replaced one (not directly). -/
theorem putSite_same_left (h : ReplArgs f a b q vq l A r t) (inv : f.Inv) (hpar : f.parent? b = some q)
    {u w : List HTree} (el : l = u ++ t :: w) (hw : w ≠ []) :
    ∃ lX rX, PutSite f a b q vq l r t lX rX := by
  have nd := inv.nodup
  have hbt := h.hb
  subst el
  obtain ⟨ndL, _⟩ := h.sq.nodupKids
  have eL : (u ++ t :: w) ++ A :: r = u ++ t :: (w ++ A :: r) := by simp
  have ndL' := ndL
  rw [eL] at ndL'
  obtain ⟨tu, tw⟩ := tops_ne_of_nodup ndL'
  rw [hbt] at tu tw
  have hD : dropTop b ((u ++ t :: w) ++ A :: r) = (u ++ w) ++ A :: r := by
    rw [eL, dropTop_mid hbt tu tw]; simp
  have hR : replaceTop a (fun _ => [t]) ((u ++ w) ++ A :: r) = (u ++ w) ++ t :: r := by
    rw [replaceTop_mid h.ha (fun k hk => h.tops.1 k (by
      cases List.mem_append.1 hk with
      | inl e => exact List.mem_append_left _ e
      | inr e => exact List.mem_append_right _ (List.mem_cons_of_mem _ e)))]
    simp
  have hnb : f.nbOf b = (u.getLast?.map (·.handle), w.head?.map (·.handle)) := by
    rw [Forest.nbOf_kid hpar, Forest.kidsOf_of_get h.sq.kids, eL, ← hbt, neighbours_mid rfl _ u (hbt ▸ tu)]
    cases w with
    | nil => exact absurd rfl hw
    | cons w0 w' => rfl
  have nduw : (handlesList ((u ++ w) ++ (t :: r))).Nodup := by
    have hs : (handlesList ((u ++ w) ++ (t :: r))).Perm (handlesList (u ++ t :: (w ++ r))) := by
      simp only [fs_handlesList_append, handlesList_cons]
      rw [List.append_assoc]
      apply List.Perm.append_left
      rw [← List.append_assoc, ← List.append_assoc]
      exact List.Perm.append_right _ List.perm_append_comm
    apply hs.symm.nodup
    have : (handlesList (u ++ t :: (w ++ r))).Sublist (handlesList (u ++ t :: (w ++ A :: r))) := by
      simp only [fs_handlesList_append, handlesList_cons]
      exact (List.Sublist.refl _).append ((List.Sublist.refl _).append
        ((List.Sublist.refl _).append (List.sublist_append_right _ _)))
    exact this.nodup ndL'
  have nduw' : (handlesList (u ++ w)).Nodup := by
    rw [fs_handlesList_append] at nduw
    exact (List.nodup_append.1 nduw).1
  have hG : ((if f.consolidation then adjOpt (f.nbOf b) else id) ∘ replaceTop a (fun _ => [t]) ∘ dropTop b)
      ((u ++ t :: w) ++ A :: r) = seamOf f.consolidation u w ++ t :: r := by
    simp only [Function.comp]
    rw [hD, hR, hnb]
    unfold seamOf
    cases f.consolidation with
    | false => rfl
    | true =>
      simp only [if_true]
      have := adjOpt_seam [] u w (t :: r) (by simpa using nduw)
      simpa using this
  have hleafq := h.sq.leaf inv.valid
  have hleafuw : ∀ k ∈ u ++ w, k.value.isText = true → k.kids = [] := by
    intro k hk
    apply hleafq k
    cases List.mem_append.1 hk with
    | inl e => exact List.mem_append_left _ (List.mem_append_left _ e)
    | inr e => exact List.mem_append_left _ (List.mem_append_right _ (List.mem_cons_of_mem _ e))
  have hsite : SiteAt (replMid f a b q t) q vq (seamOf f.consolidation u w ++ t :: r) := by
    rw [h.replMid_same hpar]
    have := edit_of_count h.sq ((if f.consolidation then adjOpt (f.nbOf b) else id) ∘
        replaceTop a (fun _ => [t]) ∘ dropTop b) (by
      intro z
      rw [hG]
      have h1 := (seamOf_sublist f.consolidation u w).count_le z
      have h2 := (List.nodup_iff_count.1 nd) z
      simp only [fs_handlesList_append, handlesList_cons, List.count_append] at h1 ⊢
      omega)
    rw [hG] at this
    exact this
  refine ⟨seamOf f.consolidation u w, r, hsite, seamOf_leaf _ hleafuw,
    fun k hk => hleafq k (List.mem_append_right _ (List.mem_cons_of_mem _ hk)), rightShape_refl r, ?_⟩
  rcases seamOf_last f.consolidation hw nduw' with ⟨w0, P, l1, ew, e⟩ | ⟨hc, u', x, P, s, v, eu, ew, hx, hP, e⟩
  · left
    right
    exact ⟨u ++ t :: w0, P, l1, P, by rw [ew]; simp, e, rfl, rfl⟩
  · right
    subst eu ew
    refine ⟨hc, u', x, P, u', x.setValue (.text (s ++ v)), by simp, by rw [hx]; rfl, by rw [hP]; rfl, e,
      by rw [setValue_value]; rfl, setValue_handle _ _, ?_⟩
    -- the merged node is gone: count its handle
    intro hin
    have hsc := h.sq.count ((if f.consolidation then adjOpt (f.nbOf b) else id) ∘
      replaceTop a (fun _ => [t]) ∘ dropTop b) P.handle
    rw [hG, e, ← h.replMid_same hpar] at hsc
    have h1 := List.count_pos_iff.2 hin
    have h2 := (List.nodup_iff_count.1 nd) P.handle
    have hPin : P.handle ∈ handles P := fs_handle_mem_handles P
    have h3 := List.count_pos_iff.2 hPin
    -- `P` occurs once in the old child list and not in the new one
    have eL2 : ((u' ++ [x]) ++ t :: [P]) ++ A :: r = (u' ++ x :: [t]) ++ P :: (A :: r) := by simp
    have ndL2 := ndL
    rw [eL2] at ndL2
    obtain ⟨m1, m2, _⟩ := nodup_mid ndL2
    have hnl : P.handle ∉ handlesList (u' ++ x :: [t]) := m1 _ hPin
    have hnr : P.handle ∉ handlesList (A :: r) := m2 _ hPin
    have c1 : (handlesList (u' ++ x :: [t])).count P.handle = 0 := List.count_eq_zero.2 hnl
    have c2 : (handlesList (A :: r)).count P.handle = 0 := List.count_eq_zero.2 hnr
    rw [eL2] at hsc
    simp only [fs_handlesList_append, handlesList_cons, handlesList_nil, List.count_append, setValue_handles,
      List.append_nil] at hsc c1 c2
    omega

/-- The replacing node stands behind the replaced one (not directly). -/
theorem putSite_same_right (h : ReplArgs f a b q vq l A r t) (inv : f.Inv) (hpar : f.parent? b = some q)
    {u w : List HTree} (er : r = u ++ t :: w) (hu : u ≠ []) :
    ∃ lX rX, PutSite f a b q vq l r t lX rX := by
  have nd := inv.nodup
  have hbt := h.hb
  subst er
  obtain ⟨ndL, _⟩ := h.sq.nodupKids
  have eL : l ++ A :: (u ++ t :: w) = (l ++ A :: u) ++ t :: w := by simp
  have ndL' := ndL
  rw [eL] at ndL'
  obtain ⟨tu, tw⟩ := tops_ne_of_nodup ndL'
  rw [hbt] at tu tw
  have hD : dropTop b (l ++ A :: (u ++ t :: w)) = l ++ A :: (u ++ w) := by
    rw [eL, dropTop_mid hbt tu tw]; simp
  have hR : replaceTop a (fun _ => [t]) (l ++ A :: (u ++ w)) = l ++ t :: (u ++ w) := by
    rw [replaceTop_mid h.ha h.tops.1]; simp
  have hnb : f.nbOf b = (u.getLast?.map (·.handle), w.head?.map (·.handle)) := by
    rw [Forest.nbOf_kid hpar, Forest.kidsOf_of_get h.sq.kids, eL, ← hbt, neighbours_mid rfl _ _ (hbt ▸ tu)]
    rcases List.eq_nil_or_concat u with hu' | ⟨u', z, hu'⟩
    · exact absurd hu' hu
    · rw [List.concat_eq_append] at hu'
      subst hu'
      have e3 : l ++ A :: (u' ++ [z]) = (l ++ A :: u') ++ [z] := by simp
      rw [e3, List.getLast?_concat, List.getLast?_concat]
  have ndtuw : (handlesList ((l ++ [t]) ++ ((u ++ w) ++ []))).Nodup := by
    have hs : (handlesList ((l ++ [t]) ++ ((u ++ w) ++ []))).Perm (handlesList ((l ++ u) ++ t :: w)) := by
      simp only [fs_handlesList_append, handlesList_cons, handlesList_nil, List.append_nil]
      rw [List.append_assoc, List.append_assoc]
      apply List.Perm.append_left
      rw [← List.append_assoc, ← List.append_assoc]
      exact List.Perm.append_right _ List.perm_append_comm
    apply hs.symm.nodup
    have : (handlesList ((l ++ u) ++ t :: w)).Sublist (handlesList ((l ++ A :: u) ++ t :: w)) := by
      simp only [fs_handlesList_append, handlesList_cons]
      exact ((List.Sublist.refl _).append (List.sublist_append_right _ _)).append (List.Sublist.refl _)
    exact this.nodup ndL'
  have nduw' : (handlesList (u ++ w)).Nodup := by
    rw [fs_handlesList_append (l ++ [t])] at ndtuw
    have := (List.nodup_append.1 ndtuw).2.1
    simpa using this
  have hG : ((if f.consolidation then adjOpt (f.nbOf b) else id) ∘ replaceTop a (fun _ => [t]) ∘ dropTop b)
      (l ++ A :: (u ++ t :: w)) = l ++ t :: seamOf f.consolidation u w := by
    simp only [Function.comp]
    rw [hD, hR, hnb]
    unfold seamOf
    cases f.consolidation with
    | false => rfl
    | true =>
      simp only [if_true]
      have := adjOpt_seam (l ++ [t]) u w [] ndtuw
      simpa using this
  have hleafq := h.sq.leaf inv.valid
  have hleafuw : ∀ k ∈ u ++ w, k.value.isText = true → k.kids = [] := by
    intro k hk
    apply hleafq k
    cases List.mem_append.1 hk with
    | inl e => exact List.mem_append_right _ (List.mem_cons_of_mem _ (List.mem_append_left _ e))
    | inr e =>
      exact List.mem_append_right _ (List.mem_cons_of_mem _ (List.mem_append_right _ (List.mem_cons_of_mem _ e)))
  have hsite : SiteAt (replMid f a b q t) q vq (l ++ t :: seamOf f.consolidation u w) := by
    rw [h.replMid_same hpar]
    have := edit_of_count h.sq ((if f.consolidation then adjOpt (f.nbOf b) else id) ∘
        replaceTop a (fun _ => [t]) ∘ dropTop b) (by
      intro z
      rw [hG]
      have h1 := (seamOf_sublist f.consolidation u w).count_le z
      have h2 := (List.nodup_iff_count.1 nd) z
      simp only [fs_handlesList_append, handlesList_cons, List.count_append] at h1 ⊢
      omega)
    rw [hG] at this
    exact this
  refine ⟨l, seamOf f.consolidation u w, hsite, fun k hk => hleafq k (List.mem_append_left _ hk),
    seamOf_leaf _ hleafuw, ?_, Or.inl (leftLive_refl l)⟩
  obtain ⟨N, u0, N', r1, eu, e, hN1, hN2⟩ := seamOf_head f.consolidation hu nduw'
  exact Or.inr ⟨N, u0 ++ t :: w, N', r1, by rw [eu]; simp, e, hN1, hN2⟩

/-- **The forest after the first steps**, at the parent of the replaced node, in all geometries. -/
theorem putSite (h : ReplArgs f a b q vq l A r t) (inv : f.Inv) (h1 : prevOf l A ≠ some b)
    (h2 : nextOf r A ≠ some b) : ∃ lX rX, PutSite f a b q vq l r t lX rX := by
  have nd := inv.nodup
  cases hctx : f.ctx? b with
  | none => exact ⟨l, r, h.putSite_root inv hctx⟩
  | some cx =>
    obtain ⟨e0, vo, so⟩ := SiteAt.of_ctx nd hctx
    have hself : cx.self = t := by
      have := Forest.get?_of_ctx nd hctx
      rw [h.hgb] at this
      exact (Option.some.inj this).symm
    rw [hself] at so
    by_cases hpo : cx.parent = q
    · have hpar : f.parent? b = some q := by rw [Forest.parent?_of_ctx hctx, hpo]
      rcases h.same_parent_split hpar h1 h2 with ⟨u, w, e, hw⟩ | ⟨u, w, e, hu⟩
      · exact h.putSite_same_left inv hpar e hw
      · exact h.putSite_same_right inv hpar e hu
    · exact h.putSite_far inv so hpo

end ReplArgs
end XotModel
