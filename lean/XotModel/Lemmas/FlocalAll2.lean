/-
  Locality for every call (C12), part 2: `replace`, `element_wrap`, `element_unwrap`, `clone_node`.
-/
import XotModel.Lemmas.FlocalAll1

namespace XotModel
open HTree

namespace Sep

variable {r : HTree} {f : Forest}

theorem replace (s : Sep r f) {a b : Nat} (ha : a ∉ handles r) (hb : b ∉ handles r) :
    Sep r (f.replace a b).1 := by
  unfold Forest.replace
  split
  · exact s
  cases hpar : f.parent? a with
  | none => exact s
  | some parent =>
    simp only
    have hparent := s.parent?_disj ha hpar
    split
    · exact s
    split
    · exact s
    split
    · exact s
    split
    · exact s.remove ha
    · have s1 := s.dropSubtree ha
      cases hps : f.prevSibling a with
      | none => exact s1.prepend hparent hb
      | some p =>
        simp only
        have hp := s.prevSibling_disj ha hps
        have s2 := s1.insertAfter hp hb
        generalize (f.dropSubtree a).insertAfter p b = ia at s2 ⊢
        obtain ⟨f2, res⟩ := ia
        simp only at s2 ⊢
        cases res with
        | ok =>
          cases hns : f.nextSibling a with
          | none => exact s2
          | some n =>
            have hn := s.nextSibling_disj ha hns
            have := s2.removeConsolidate (prev := f2.prevSibling n) (next := some n)
              (fun _ h => s2.prevSibling_disj hn h) (fun _ h => by cases h; exact hn)
            exact this
        | err e => exact s2
        | panic => exact s2

theorem elementWrap (s : Sep r f) (hb : Below r f) {n : Nat} (hn : n ∉ handles r) (name : Nat) :
    Sep r (f.elementWrap n name).1 := by
  unfold Forest.elementWrap
  split
  · exact s
  split
  · exact s
  split
  · exact s
  obtain ⟨s1, b1, h1⟩ := s.newNode hb (.element name)
  cases hpar : f.parent? n with
  | some parent =>
    simp only
    have hparent := s.parent?_disj hn hpar
    unfold Forest.newElement
    generalize f.newNode (.element name) = nn at s1 b1 h1 ⊢
    obtain ⟨f1, wrapper⟩ := nn
    simp only at s1 b1 h1 ⊢
    have s2 := s1.detachRaw hn
    have s3 := s2.append h1 hn
    generalize (f1.detachRaw n).append wrapper n = ap at s3 ⊢
    obtain ⟨f3, r3⟩ := ap
    simp only at s3 ⊢
    cases r3 with
    | ok =>
      simp only
      cases hps : f.prevSibling n with
      | some p => exact s3.insertAfter (s.prevSibling_disj hn hps) h1
      | none => exact s3.prepend hparent h1
    | err e => exact s3
    | panic => exact s3
  | none =>
    simp only
    unfold Forest.newElement
    generalize f.newNode (.element name) = nn at s1 b1 h1 ⊢
    obtain ⟨f1, wrapper⟩ := nn
    simp only at s1 b1 h1 ⊢
    exact s1.append h1 hn

theorem removeElement (s : Sep r f) {n : Nat} (hn : n ∉ handles r) : Sep r (f.removeElement n) := by
  unfold Forest.removeElement
  cases hg : f.get? n with
  | none => exact s
  | some t0 =>
    simp only
    have s1 := foldl_spliceOut (t0.kids.takeWhile (fun k => !k.value.isNormal)) s (by
      intro x hx
      exact s.kids_disj hn hg x ((List.takeWhile_sublist _).mem hx) _ (fc_handle_mem_handles x))
    exact s1.spliceOut hn

theorem elementUnwrap (s : Sep r f) {n : Nat} (hn : n ∉ handles r) :
    Sep r (f.elementUnwrap n).1 := by
  unfold Forest.elementUnwrap
  split
  · exact s
  cases hfc : f.firstChild n with
  | none => exact s.remove hn
  | some first =>
    simp only
    have hfirst := s.firstChild_disj hn hfc
    split
    · exact s
    cases hlc : f.lastChild n with
    | none => exact s
    | some last =>
      simp only
      have hlast := s.lastChild_disj hn hlc
      have s1 := s.removeElement hn
      generalize f.removeElement n = f1 at s1 ⊢
      have hprev : ∀ p, f1.prevSibling first = some p → p ∉ handles r :=
        fun _ h => s1.prevSibling_disj hfirst h
      have s2 := s1.removeConsolidate (prev := f1.prevSibling first) (next := some first) hprev
        (fun _ h => by cases h; exact hfirst)
      generalize f1.removeConsolidate (f1.prevSibling first) (some first) = rc at s2 ⊢
      obtain ⟨f2, c⟩ := rc
      simp only at s2 ⊢
      have tail : Sep r (f2.removeConsolidate (some last) (f2.nextSibling last)).1 :=
        s2.removeConsolidate (prev := some last) (next := f2.nextSibling last)
          (fun _ h => by cases h; exact hlast) (fun _ h => s2.nextSibling_disj hlast h)
      split
      · split
        · have := s2.removeConsolidate (prev := f1.prevSibling first) (next := f1.nextSibling last)
            hprev (fun _ h => s1.nextSibling_disj hlast h)
          exact this
        · exact tail
      · exact tail

end Sep

namespace SepB

variable {r : HTree} {f : Forest}

theorem newNode (s : SepB r f) (v : Value) : SepB r (f.newNode v).1 ∧ (f.newNode v).2 ∉ handles r := by
  obtain ⟨a, b, c⟩ := s.sep.newNode s.below v
  exact ⟨⟨a, b⟩, c⟩

theorem anyAppend (s : SepB r f) {p n : Nat} (hp : p ∉ handles r) (hn : n ∉ handles r) :
    SepB r (f.anyAppend p n).1 :=
  ⟨s.sep.anyAppend s.below hp hn, s.below.le (Forest.nle_anyAppend f p n)⟩

theorem spliceOut (s : SepB r f) {n : Nat} (hn : n ∉ handles r) : SepB r (f.spliceOut n) :=
  ⟨s.sep.spliceOut hn, s.below.le (Forest.nle_spliceOut f n)⟩

mutual
  theorem cloneInto : ∀ (t : HTree) (current : Nat) (f f' : Forest), SepB r f → current ∉ handles r →
      Forest.cloneInto f current t = some f' → SepB r f'
    | .node h v ks, current, f, f' => by
      intro s hcur hc
      unfold Forest.cloneInto at hc
      cases v with
      | document => exact cloneKids ks current f f' s hcur hc
      | _ =>
        simp only at hc
        obtain ⟨s1, h1⟩ := s.newNode _
        have s2 := s1.anyAppend hcur h1
        split at hc
        · rename_i f2 _ heq
          rw [heq] at s2
          refine cloneKids ks _ f2 f' s2 ?_ hc
          first
            | exact hcur
            | (split
               · exact h1
               · exact hcur)
        · cases hc
  theorem cloneKids : ∀ (ks : List HTree) (current : Nat) (f f' : Forest), SepB r f →
      current ∉ handles r → Forest.cloneKids f current ks = some f' → SepB r f'
    | [], current, f, f' => by
      intro s _ hc; rw [Forest.cloneKids] at hc; cases hc; exact s
    | k :: ks, current, f, f' => by
      intro s hcur hc
      rw [Forest.cloneKids] at hc
      split at hc
      · rename_i f1 heq
        exact cloneKids ks current f1 f' (cloneInto k current f f1 s hcur heq) hcur hc
      · cases hc
end

/-- `clone_node`, for any source node at all (inside `r` or not: cloning only reads the source). -/
theorem cloneNode (s : SepB r f) (n : Nat) : SepB r (f.cloneNode n).1 := by
  unfold Forest.cloneNode
  cases f.get? n with
  | none => exact s
  | some src =>
    simp only
    split
    · obtain ⟨s1, h1⟩ := s.newNode .document
      unfold Forest.newDocument
      generalize f.newNode .document = nn at s1 h1 ⊢
      obtain ⟨f1, top⟩ := nn
      simp only at s1 h1 ⊢
      cases hc : Forest.cloneKids f1 top src.kids with
      | some f2 => exact cloneKids src.kids top f1 f2 s1 h1 hc
      | none => exact s1
    · rename_i name _
      obtain ⟨s1, h1⟩ := s.newNode (.element name)
      unfold Forest.newElement
      generalize f.newNode (.element name) = nn at s1 h1 ⊢
      obtain ⟨f1, top⟩ := nn
      simp only at s1 h1 ⊢
      cases hc : Forest.cloneInto f1 top src with
      | some f2 =>
        simp only
        have s2 := cloneInto src top f1 f2 s1 h1 hc
        cases f2.firstChild top with
        | some c => exact s2.spliceOut h1
        | none => exact s2
      | none => exact s1
    · exact (s.newNode _).1

end SepB
end XotModel
