/-
  C06 lemmas: literal `get?` results across `newNode`, the `cut` of a root, and `placeLast`
  (needed where a later step reads the child list back: `text_content_mut`, `clone_node`).
-/
import XotModel.Lemmas.FatomC06

namespace XotModel
open HTree

theorem rootsFilter_find (h x : Nat) : ∀ (rs : List HTree) (t : HTree), (handlesList rs).Nodup →
    rs.any (fun r => r.handle = h) = true → findList? h rs = some t → x ∉ handles t →
    findList? x (rs.filter (fun r => r.handle != h)) = findList? x rs
  | [], t => by simp
  | r :: rs, t => by
    intro hn hany e hx
    unfold handlesList at hn
    have hna := List.nodup_append.1 hn
    by_cases hr : r.handle = h
    · have ht := findList?_cons_self hr e
      subst ht
      have hnone : ∀ r' ∈ rs, (r'.handle != h) = true := by
        intro r' hr'
        have : r'.handle ≠ h := by
          intro e'
          exact hna.2.2 _ (hr ▸ handle_mem_handles t) _
            (e' ▸ handles_sub_of_mem hr' _ (handle_mem_handles r')) rfl
        simpa using this
      have hfil : (t :: rs).filter (fun r => r.handle != h) = rs := by
        rw [List.filter_cons]
        simp only [hr, bne_self_eq_false, Bool.false_eq_true, if_false]
        exact List.filter_eq_self.2 hnone
      rw [hfil]
      simp only [findList?, (find?_none_iff _ _).2 hx]
    · have hany' : rs.any (fun r => r.handle = h) = true := by
        rw [List.any_cons, Bool.or_eq_true] at hany
        rcases hany with h' | h'
        · exact absurd (by simpa using h') hr
        · exact h'
      have hm : h ∈ handlesList rs := rootsAny_mem hany'
      have hnr : h ∉ handles r := fun h' => hna.2.2 _ h' _ hm rfl
      have e' : findList? h rs = some t := by
        unfold findList? at e; rw [(find?_none_iff _ _).2 hnr] at e; exact e
      have hfil : (r :: rs).filter (fun r => r.handle != h) = r :: rs.filter (fun r => r.handle != h) := by
        rw [List.filter_cons]
        have : (r.handle != h) = true := by simpa using hr
        simp only [this, if_true]
      rw [hfil]
      simp only [findList?]
      rw [rootsFilter_find h x rs t hna.2.1 hany' e' hx]

mutual
  theorem find?_mapAt_self (p : Nat) (g : HTree → HTree) (hg : ∀ n, (g n).handle = n.handle) :
      ∀ T : HTree, find? p (mapAt p g T) = (find? p T).map g
    | .node h v ks => by
      unfold mapAt
      by_cases hh : h = p
      · simp only [hh, if_true]
        rw [find?_eq, hg]
        simp [find?, HTree.handle]
      · simp only [hh, if_false, find?]
        exact findList?_mapAtList_self p g hg ks
  theorem findList?_mapAtList_self (p : Nat) (g : HTree → HTree)
      (hg : ∀ n, (g n).handle = n.handle) : ∀ ks : List HTree,
      findList? p (mapAtList p g ks) = (findList? p ks).map g
    | [] => by simp [mapAtList, findList?]
    | k :: ks => by
      simp only [mapAtList, findList?]
      rw [find?_mapAt_self p g hg k]
      cases find? p k with
      | some a => rfl
      | none => exact findList?_mapAtList_self p g hg ks
end

namespace Forest

theorem newNode_get? {f : Forest} (v : Value) {x : Nat} (hl : f.isLive x = true) :
    (f.newNode v).1.get? x = f.get? x := by
  obtain ⟨t, hg⟩ := get?_of_isLive hl
  show findList? x (f.roots ++ [HTree.node f.next v []]) = _
  rw [fa_findList?_append]
  unfold get? at hg ⊢
  rw [hg]

theorem cut_root_get? {f : Forest} (w : f.W) {h x : Nat} {t : HTree} (hg : f.get? h = some t)
    (hr : f.isRoot h = true) (hx : x ∉ handles t) : (f.cut h).1.get? x = f.get? x := by
  have hc : f.cut h = ({ f with roots := f.roots.filter (fun r => r.handle != h) }, some t) := by
    unfold cut; rw [hg, hr]; rfl
  rw [hc]
  exact rootsFilter_find h x f.roots t w.nodup hr hg hx

theorem placeLast_get? (f : Forest) (p : Nat) (t : HTree) :
    (f.placeLast p t).get? p = (f.get? p).map (fun n => n.setKids (n.kids ++ [t])) := by
  unfold placeLast get?
  simp only
  rw [← mapAtList_eq_map]
  exact findList?_mapAtList_self p _ (insertsLast t).handle f.roots

theorem fa_removeConsolidate_none_left (f : Forest) (n : Option Nat) :
    f.removeConsolidate none n = (f, false) := by
  unfold removeConsolidate; split <;> rfl

theorem fa_addConsolidate_none (f : Forest) (n : Nat) : f.addConsolidate n none none = (f, false) := by
  rw [addConsolidate_eq_old, selfPrev_none, selfNext_none]
  exact addConsolidateOld_none_none f n

end Forest
end XotModel
