/-
  C08 and parsing, part 5: the steps that store ids (`DocumentBuilder::prefix`,
  `processing_instruction`, `open_element`), the token loop and `build`: every value of the tree
  returned is `IssuedBy` the parse's own calls.
-/
import XotModel.Lemmas.IdMapParseQName
import XotModel.Lemmas.IdMapParseTree

namespace XotModel
namespace IdParse

theorem prefix_all {P : Value → Prop} {b b' : Builder} (h : BuilderAll P b) (p : Str) (u : StrSpan) (sp : Span)
    (hr : b.prefix p u sp = .ok b') : BuilderAll (fun v => P v ∨ IssuedBy b.env (prefixRegs p u) v) b' := by
  unfold Builder.prefix at hr
  unfold prefixRegs
  split at hr
  · cases hr
  · rename_i us hus
    split at hr
    · cases hr
    rename_i hres
    dsimp only at hr
    split at hr
    · cases hr
    · rename_i eb heb
      split at hr
      · cases hr
      · simp only [Step.ok.injEq] at hr
        subst hr
        rw [hus]
        simp only [hres, if_false]
        refine ⟨h.cur.imp (fun _ => Or.inl), fun f hf => (h.parents f hf).imp (fun _ => Or.inl), ?_⟩
        intro eb' he d hd
        simp only [Option.some.injEq] at he
        subst he
        simp only [List.mem_append, List.mem_singleton] at hd
        rcases hd with hd | rfl
        · exact Or.inl (h.eb eb heb d hd)
        · exact Or.inr ⟨0, p, us, rfl, rfl, rfl, rfl⟩

theorem processingInstruction_all {P : Value → Prop} {b : Builder} (h : BuilderAll P b) (target : StrSpan)
    (content : Option StrSpan) :
    BuilderAll (fun v => P v ∨ IssuedBy b.env [.name target.text Env.noNamespace] v)
      (b.processingInstruction target content) := by
  unfold Builder.processingInstruction
  have h1 : BuilderAll (fun v => P v ∨ IssuedBy b.env [.name target.text Env.noNamespace] v)
      ({ b with env := (b.env.internName target.text Env.noNamespace).1 } : Builder) :=
    (h.imp (fun _ => Or.inl)).congr rfl rfl (fun eb' he => Or.inr ⟨eb', he, rfl⟩)
  refine (addLeaf_all h1 (v := .pi (b.env.internName target.text Env.noNamespace).2 (content.map (fun c => normalizeLineEnds c.text)))
    (Or.inr ⟨0, target.text, Env.noNamespace, rfl, rfl⟩)).congr rfl rfl (fun eb' he => Or.inr ⟨eb', he, rfl⟩)

/-! ### `open_element` -/

theorem addAttributes_one_rkids (stack : NsStack) (node : Path) (st st1 : AttrLoop) (ab : AttributeBuilder)
    (h : addAttributes stack node st [ab] = .ok st1) :
    ∀ k ∈ st1.rkids, k ∈ st.rkids ∨ ∃ n v, k = .node (.attribute n v) [] ∧
      NameIssued st.env (attributeNameRegs st.env stack ab.pfx ab.name) n := by
  simp only [addAttributes] at h
  cases hn : attributeNameId st.env stack ab.pfx ab.name ab.prefixSpan with
  | panic => rw [hn] at h; cases h
  | err e env => rw [hn] at h; cases h
  | ok r =>
    obtain ⟨env1, nameId⟩ := r
    obtain ⟨ns, hregs, _, hall⟩ := attributeNameId_ok hn
    rw [hn] at h
    simp only at h
    split at h
    · cases h
    · split at h
      · cases h
      · simp only [Step.ok.injEq] at h
        subst h
        intro k hk
        simp only [List.mem_cons] at hk
        rcases hk with rfl | hk
        · exact Or.inr ⟨nameId, _, rfl, 1, ab.name, ns, by rw [hregs]; rfl, by rw [hall]; rfl⟩
        · exact Or.inl hk

theorem addAttributes_rkids (stack : NsStack) (node : Path) (abs : List AttributeBuilder) :
    ∀ (st st' : AttrLoop), addAttributes stack node st abs = .ok st' →
      ∀ k ∈ st'.rkids, k ∈ st.rkids ∨ ∃ n v, k = .node (.attribute n v) [] ∧
        NameIssued st.env (attrsRegs stack node st abs) n := by
  induction abs with
  | nil =>
    intro st st' h k hk
    simp only [addAttributes, Step.ok.injEq] at h
    subst h; exact Or.inl hk
  | cons ab rest ih =>
    intro st st' h k hk
    rw [addAttributes_cons] at h
    simp only [attrsRegs]
    cases hone : addAttributes stack node st [ab] with
    | panic => rw [hone] at h; cases h
    | err e env => rw [hone] at h; cases h
    | ok st1 =>
      rw [hone] at h
      simp only at h
      have henv := (addAttributes_one stack node st ab).1 st1 hone
      rcases ih st1 st' h k hk with h1 | ⟨n, v, hkv, hiss⟩
      · rcases addAttributes_one_rkids stack node st st1 ab hone k h1 with h2 | ⟨n, v, hkv, hiss⟩
        · exact Or.inl h2
        · exact Or.inr ⟨n, v, hkv, hiss.mono _⟩
      · rw [henv] at hiss
        exact Or.inr ⟨n, v, hkv, NameIssued.shift _ hiss⟩

theorem mem_namespaceKids {decls : List (Nat × Nat)} {k : Tree} (h : k ∈ namespaceKids decls) :
    ∃ d ∈ decls, k = .node (.namespace d.1 d.2) [] := by
  simp only [namespaceKids, List.mem_reverse, List.mem_map] at h
  obtain ⟨d, hd, rfl⟩ := h
  exact ⟨d, hd, rfl⟩

theorem openElement_all {P : Value → Prop} {b b' : Builder} (h : BuilderAll P b) (hr : b.openElement = .ok b') :
    BuilderAll (fun v => P v ∨ IssuedBy b.env b.openRegs v) b' := by
  unfold Builder.openElement at hr
  cases heb : b.eb with
  | none => rw [heb] at hr; cases hr
  | some eb =>
    rw [heb] at hr
    dsimp only at hr
    cases hn : elementNameId b.env (eb.namespaces :: b.nsStack) eb.pfx eb.name eb.prefixSpan with
    | panic => rw [hn] at hr; cases hr
    | err e env => rw [hn] at hr; cases hr
    | ok r =>
      obtain ⟨env1, nameId⟩ := r
      obtain ⟨ns, _, hregs, hall⟩ := elementNameId_ok hn
      rw [hn] at hr
      simp only at hr
      split at hr
      · cases hr
      · cases hr
      · rename_i st hst
        simp only [Step.ok.injEq] at hr
        subst hr
        have hopen : b.openRegs = elementNameRegs b.env (eb.namespaces :: b.nsStack) eb.pfx eb.name ++
            attrsRegs (eb.namespaces :: b.nsStack) (b.curPath ++ [b.cur.rkids.length])
              { env := env1, seenIds := b.seenIds, idNodes := b.idNodes, seenNames := [],
                rkids := namespaceKids eb.namespaces, aspans := [] } eb.attributes := by
          unfold Builder.openRegs
          rw [heb]
          simp only [hn]
        have henv1 : (b.env.regAll (elementNameRegs b.env (eb.namespaces :: b.nsStack) eb.pfx eb.name)).1 = env1 := by
          rw [hall]
        refine ⟨⟨Or.inr ?_, ?_⟩, ?_, fun eb' he => by cases he⟩
        · rw [hopen]
          exact NameIssued.mono ⟨1, eb.name, ns, by rw [hregs]; rfl, by rw [hall]; rfl⟩ _
        · intro k hk
          rcases addAttributes_rkids _ _ _ _ st hst k hk with h1 | ⟨n, v, hkv, hiss⟩
          · obtain ⟨d, hd, rfl⟩ := mem_namespaceKids h1
            exact allV_leaf (Or.inl (h.eb eb heb d hd))
          · subst hkv
            refine allV_leaf (Or.inr ?_)
            rw [hopen]
            refine NameIssued.shift _ ?_
            rw [henv1]; exact hiss
        · intro f hf
          simp only [List.mem_cons] at hf
          rcases hf with rfl | hf
          · exact h.cur.imp (fun _ => Or.inl)
          · exact (h.parents f hf).imp (fun _ => Or.inl)

/-! ### The token loop -/

theorem step_all {P : Value → Prop} (hT : ∀ s, P (.text s)) (hC : ∀ s, P (.comment s)) {b b' : Builder}
    (h : BuilderAll P b) (t : Token) (hr : b.step t = .ok b') :
    BuilderAll (fun v => P v ∨ IssuedBy b.env (b.stepRegs t) v) b' := by
  rw [b.stepRegs_eq_core (Builder.step_ok_prefixOk hr)]
  replace hr := Builder.step_ok_core hr
  cases t with
  | «attribute» pfx loc value sp =>
    simp only [Builder.stepCore] at hr
    simp only [Builder.stepRegsCore]
    split at hr
    · rename_i h1
      simp only [h1, if_true]
      exact prefix_all h _ _ _ hr
    · rename_i h1
      split at hr
      · rename_i h2
        simp only [h1, h2, if_true]
        exact prefix_all h _ _ _ hr
      · exact (attribute_all h _ _ _ hr).imp (fun _ => Or.inl)
  | text t => exact (text_all hT h t hr).imp (fun _ => Or.inl)
  | cdata t sp => exact (cdata_all hT h t hr).imp (fun _ => Or.inl)
  | elementStart pfx loc sp =>
    simp only [Builder.stepCore, Step.ok.injEq] at hr
    subst hr
    exact (element_all h pfx loc).imp (fun _ => Or.inl)
  | elementEnd ee sp =>
    cases ee with
    | «open» => exact openElement_all h hr
    | close pfx loc => exact (closeElement_all h pfx loc sp hr).imp (fun _ => Or.inl)
    | empty =>
      simp only [Builder.stepCore] at hr
      cases ho : b.openElement with
      | panic => rw [ho] at hr; cases hr
      | err e env => rw [ho] at hr; cases hr
      | ok b1 =>
        rw [ho] at hr
        exact closeImmediate_all (openElement_all h ho) sp hr
  | comment t sp =>
    simp only [Builder.stepCore, Step.ok.injEq] at hr
    subst hr
    exact (comment_all hC h t).imp (fun _ => Or.inl)
  | pi target content sp =>
    simp only [Builder.stepCore] at hr
    split at hr
    · cases hr
    rename_i hres
    simp only [Step.ok.injEq] at hr
    subst hr
    simp only [Builder.stepRegsCore, hres, if_false]
    exact processingInstruction_all h target content
  | declaration version enc sa sp =>
    simp only [Builder.stepCore] at hr
    split at hr
    · cases hr
    · simp only [Step.ok.injEq] at hr
      subst hr
      exact h.imp (fun _ => Or.inl)
  | dtdStart sp => simp [Builder.stepCore] at hr
  | dtdEnd sp => simp [Builder.stepCore] at hr
  | emptyDtd sp => simp [Builder.stepCore] at hr
  | entityDecl sp => simp [Builder.stepCore] at hr

theorem run_issued (ts : List Token) (lexErr : Option Nat) : ∀ (b b' : Builder) (e0 : Env) (tr : List Reg),
    b.env = (e0.regAll tr).1 → BuilderAll (IssuedBy e0 tr) b → b.run ts lexErr = .ok b' →
    BuilderAll (IssuedBy e0 (tr ++ b.runRegs ts)) b' := by
  induction ts with
  | nil =>
    intro b b' e0 tr _ h hr
    cases lexErr with
    | none =>
      simp only [Builder.run] at hr
      split at hr
      · cases hr
      · simp only [Step.ok.injEq] at hr
        subst hr
        simpa [Builder.runRegs] using h
    | some pos => simp [Builder.run] at hr
  | cons t ts ih =>
    intro b b' e0 tr he h hr
    simp only [Builder.run] at hr
    simp only [Builder.runRegs]
    cases hs : b.step t with
    | panic => rw [hs] at hr; cases hr
    | err e env => rw [hs] at hr; cases hr
    | ok b1 =>
      rw [hs] at hr
      simp only at hr ⊢
      have h1 := step_all (P := IssuedBy e0 tr) (fun _ => trivial) (fun _ => trivial) h t hs
      have h2 : BuilderAll (IssuedBy e0 (tr ++ b.stepRegs t)) b1 := by
        refine h1.imp ?_
        intro v hv
        rcases hv with hv | hv
        · exact hv.mono _
        · rw [he] at hv; exact IssuedBy.shift _ hv
      have he1 : b1.env = (e0.regAll (tr ++ b.stepRegs t)).1 := by
        rw [(step_trace b t).1 b1 hs, Env.regAll_append, he]
      have := ih b1 b' e0 (tr ++ b.stepRegs t) he1 h2 hr
      rwa [List.append_assoc] at this

/-- What `build` accepts is what the token loop built. -/
theorem build_ok_parsed {m : Mode} {len : Nat} {env : Env} {ts : List Token} {lexErr : Option Nat} {p : Parsed}
    (h : build m len env ts lexErr = .ok p) : ∃ b, (Builder.new env).run ts lexErr = .ok b ∧ p = b.parsed := by
  unfold build at h
  split at h
  · cases h
  · cases h
  · rename_i b hb
    refine ⟨b, hb, ?_⟩
    cases m with
    | document =>
      simp only [Builder.finishDocument] at h
      split at h
      · split at h
        · cases h
        · cases h
        · split at h
          · cases h
          · simp only [BuildResult.ok.injEq] at h; exact h.symm
          · split at h <;> cases h
      · unfold Builder.unclosed at h; split at h <;> cases h
    | fragment =>
      simp only [Builder.finishFragment] at h
      split at h
      · simp only [BuildResult.ok.injEq] at h; exact h.symm
      · unfold Builder.unclosed at h; split at h <;> cases h

/-- Every id stored in the tree of an accepted parse was returned by one of the parse's own calls. -/
theorem build_issued {m : Mode} {len : Nat} {env : Env} {ts : List Token} {lexErr : Option Nat} {p : Parsed}
    (h : build m len env ts lexErr = .ok p) : AllV (IssuedBy env (buildRegs env ts)) p.tree := by
  obtain ⟨b, hb, rfl⟩ := build_ok_parsed h
  have := run_issued ts lexErr (Builder.new env) b env [] rfl (builderAll_new trivial env) hb
  exact this.root

end IdParse
end XotModel
