/-
  C19_unprefixed_end: along a successful HTML serialisation, the end tag of every element that
  must be written unprefixed is the bare `</local>` (or nothing, for void elements).
-/
import XotModel.Lemmas.Html5Stack

namespace XotModel
open Gen

theorem runHtml_cons_some {c : HtmlCtx} {t : Tree} {s sf : FStack} {p : Path} {o : Output}
    {rest : List (Path × Output)} {l : List (Path × Output × OutputToken)}
    (h : runHtml c t s ((p, o) :: rest) = some (sf, l)) :
    ∃ s1 tok l', renderHtmlAt c t s p o = .ok (s1, tok) ∧ runHtml c t s1 rest = some (sf, l') ∧
      l = (p, o, tok) :: l' := by
  simp only [runHtml] at h
  cases hr : renderHtmlAt c t s p o with
  | ok v =>
    obtain ⟨s1, tok⟩ := v
    rw [hr] at h
    simp only at h
    cases h2 : runHtml c t s1 rest with
    | none => rw [h2] at h; cases h
    | some r =>
      obtain ⟨sf', l'⟩ := r
      rw [h2] at h
      simp only [Option.some.injEq, Prod.mk.injEq] at h
      obtain ⟨rfl, rfl⟩ := h
      exact ⟨s1, tok, l', rfl, h2, rfl⟩
  | err e => rw [hr] at h; cases h
  | panic => rw [hr] at h; cases h

theorem runHtml_append_some {c : HtmlCtx} {t : Tree} {s sf : FStack} {a b : List (Path × Output)}
    {l : List (Path × Output × OutputToken)} (h : runHtml c t s (a ++ b) = some (sf, l)) :
    ∃ s1 l1 l2, runHtml c t s a = some (s1, l1) ∧ runHtml c t s1 b = some (sf, l2) ∧ l = l1 ++ l2 := by
  rw [runHtml_append] at h
  cases h1 : runHtml c t s a with
  | none => rw [h1] at h; cases h
  | some r1 =>
    obtain ⟨s1, l1⟩ := r1
    rw [h1] at h
    simp only [Option.bind_some] at h
    cases h2 : runHtml c t s1 b with
    | none => rw [h2] at h; cases h
    | some r2 =>
      obtain ⟨s2, l2⟩ := r2
      rw [h2] at h
      simp only [Option.map_some, Option.some.injEq, Prod.mk.injEq] at h
      obtain ⟨rfl, rfl⟩ := h
      exact ⟨s1, l1, l2, rfl, h2, rfl⟩

/-- Events that leave the name stack alone. -/
def Output.isStatic : Output → Bool
  | .startTagOpen _ => false
  | .endTag _ => false
  | _ => true

theorem renderHtml_static {c : HtmlCtx} {s s' : FStack} {node : Tree} {parent : Option Tree} {o : Output}
    {tok : OutputToken} (ho : o.isStatic = true) (h : renderHtml c s node parent o = .ok (s', tok)) :
    s' = s := by
  cases o with
  | startTagOpen name => cases ho
  | endTag name => cases ho
  | _ =>
    simp only [renderHtml] at h
    repeat' split at h
    all_goals (cases h; try rfl)

/-- Names that must be written without prefix: no namespace, `XHTML_NS`, MathML, SVG. -/
def Bare (c : HtmlCtx) (name : Nat) : Prop :=
  (c.h.isHtmlNamespace (c.env.nsOfName name) = true ∨ c.h.mustBeUnprefixed (c.env.nsOfName name) = true)
    ∧ c.env.nsOfName name ≠ Env.xmlNamespace

/-- Every end-tag token of a bare name is empty (void) or `</local>`. -/
def EndTagsBare (c : HtmlCtx) (l : List (Path × Output × OutputToken)) : Prop :=
  ∀ k ∈ l, ∀ name, k.2.1 = .endTag name → Bare c name →
    k.2.2.text = [] ∨ k.2.2.text = ['<','/'] ++ c.env.localName name ++ ['>']

theorem EndTagsBare.append {c : HtmlCtx} {a b : List (Path × Output × OutputToken)}
    (ha : EndTagsBare c a) (hb : EndTagsBare c b) : EndTagsBare c (a ++ b) := by
  intro k hk
  rcases List.mem_append.mp hk with h | h
  · exact ha k h
  · exact hb k h

theorem run_static {c : HtmlCtx} {t : Tree} (evs : List (Path × Output)) :
    ∀ {s sf : FStack} {l : List (Path × Output × OutputToken)},
      (∀ po ∈ evs, po.2.isStatic = true) → runHtml c t s evs = some (sf, l) →
      sf = s ∧ EndTagsBare c l := by
  induction evs with
  | nil =>
    intro s sf l _ h
    simp only [runHtml, Option.some.injEq, Prod.mk.injEq] at h
    obtain ⟨rfl, rfl⟩ := h
    exact ⟨rfl, by intro k hk; simp at hk⟩
  | cons po rest ih =>
    intro s sf l hs h
    obtain ⟨p, o⟩ := po
    obtain ⟨s1, tok, l', hr, hrest, rfl⟩ := runHtml_cons_some h
    have ho : o.isStatic = true := hs (p, o) (by simp)
    have hs1 : s1 = s := by
      unfold renderHtmlAt at hr
      cases hat : t.at? p with
      | none => simp [hat] at hr
      | some node =>
        simp only [hat] at hr
        exact renderHtml_static ho hr
    subst hs1
    obtain ⟨rfl, hb⟩ := ih (fun po hpo => hs po (List.mem_cons_of_mem _ hpo)) hrest
    refine ⟨rfl, ?_⟩
    intro k hk name hname
    rcases List.mem_cons.mp hk with rfl | hk
    · simp only at hname; subst hname; cases ho
    · exact hb k hk name hname

/-- The start-tag-open step: the stack afterwards is the pushed stack, possibly grown, and a
    bare name has its default binding (or no namespace). -/
theorem startTagOpen_step {c : HtmlCtx} {s s2 : FStack} {node : Tree} {parent : Option Tree} {name : Nat}
    {tok : OutputToken} (hs : s ≠ [])
    (h : renderHtml c s node parent (.startTagOpen name) = .ok (s2, tok)) :
    Grow (s.push node.nsDecls) s2 ∧
    (Bare c name → c.env.nsOfName name = Env.noNamespace ∨ s2.hasEmptyPrefix (c.env.nsOfName name) = true) := by
  have hs1 : s.push node.nsDecls ≠ [] := by
    unfold FStack.push; split
    · exact hs
    · simp
  simp only [renderHtml] at h
  split at h
  · simp only [Outcome.ok.injEq, Prod.mk.injEq] at h
    obtain ⟨rfl, _⟩ := h
    obtain ⟨hg, hh⟩ := grow_addEmptyPrefix hs1 (c.env.nsOfName name)
    exact ⟨hg, fun _ => Or.inr hh⟩
  · rename_i hcond
    split at h
    · simp only [Outcome.ok.injEq, Prod.mk.injEq] at h
      obtain ⟨rfl, _⟩ := h
      refine ⟨Grow.refl hs1, ?_⟩
      intro hb
      by_cases h0 : c.env.nsOfName name = Env.noNamespace
      · exact Or.inl h0
      · right
        have hmust : c.h.mustBeUnprefixed (c.env.nsOfName name) = true := by
          rcases hb.1 with hh | hm
          · simp only [Html5Elements.isHtmlNamespace, Bool.or_eq_true, beq_iff_eq] at hh
            rcases hh with hh | hh
            · simp [Html5Elements.mustBeUnprefixed, hh]
            · exact absurd hh h0
          · exact hm
        simpa [hmust] using hcond
    · cases h

/-- The static events between `<name` and the children: inherited and own declarations,
    attributes, `>`. -/
def midEvents (inScope : List (Nat × Nat)) (isTop : Bool) (path : Path) (n : Tree) : List (Path × Output) :=
  (if isTop then extraPrefixes inScope n else []).map (fun o => (path, o))
    ++ n.nsDecls.map (fun d => (path, Output.pfx d.1 d.2))
    ++ n.attrs.map (fun a => (path, Output.attribute a.1 a.2))
    ++ [(path, Output.startTagClose)]

theorem midEvents_static (inScope : List (Nat × Nat)) (isTop : Bool) (path : Path) (n : Tree) :
    ∀ po ∈ midEvents inScope isTop path n, po.2.isStatic = true := by
  intro po hpo
  simp only [midEvents, List.mem_append, List.mem_map, List.mem_singleton] at hpo
  rcases hpo with ((⟨o, ho, rfl⟩ | ⟨d, _, rfl⟩) | ⟨a, _, rfl⟩) | rfl
  · split at ho
    · simp only [extraPrefixes, List.mem_map] at ho
      obtain ⟨d, _, rfl⟩ := ho; rfl
    · simp at ho
  · rfl
  · rfl
  · rfl

theorem genNode_element_shape (inScope : List (Nat × Nat)) (isTop : Bool) (path : Path) (name : Nat)
    (ks : List Tree) :
    genNode inScope isTop path (.node (.element name) ks) =
      (path, Output.startTagOpen name) ::
        (midEvents inScope isTop path (.node (.element name) ks)
          ++ (genNode.genKids inScope path 0 ks ++ [(path, Output.endTag name)])) := by
  rw [genNode_element]
  simp [midEvents, List.append_assoc]

/-- The element case: start tag, static events, children (given), end tag. -/
theorem run_element (c : HtmlCtx) (t : Tree) (inScope : List (Nat × Nat)) (name : Nat) (ks : List Tree)
    (kidsOk : ∀ (path : Path) (i : Nat) (s sf : FStack) (l : List (Path × Output × OutputToken)),
      s ≠ [] → runHtml c t s (genNode.genKids inScope path i ks) = some (sf, l) → Grow s sf ∧ EndTagsBare c l)
    (isTop : Bool) (path : Path) (s sf : FStack) (l : List (Path × Output × OutputToken)) (hs : s ≠ [])
    (h : runHtml c t s (genNode inScope isTop path (.node (.element name) ks)) = some (sf, l)) :
    Grow s sf ∧ EndTagsBare c l := by
  rw [genNode_element_shape] at h
  obtain ⟨s2, tok, l', hso, hrest, rfl⟩ := runHtml_cons_some h
  obtain ⟨s3, l1, l23, hstat, hrest2, rfl⟩ := runHtml_append_some hrest
  obtain ⟨s4, l2, l3, hk, het, rfl⟩ := runHtml_append_some hrest2
  obtain ⟨rfl, hb1⟩ := run_static _ (midEvents_static inScope isTop path _) hstat
  unfold renderHtmlAt at hso
  cases hat : t.at? path with
  | none => simp [hat] at hso
  | some node =>
    simp only [hat] at hso
    obtain ⟨hg12, hbare⟩ := startTagOpen_step hs hso
    obtain ⟨hg23, hb2⟩ := kidsOk path 0 s3 s4 l2 hg12.ne_nil hk
    obtain ⟨s5, tok5, l5, het1, het2, rfl⟩ := runHtml_cons_some het
    simp only [runHtml, Option.some.injEq, Prod.mk.injEq] at het2
    obtain ⟨rfl, rfl⟩ := het2
    simp only [renderHtmlAt, hat] at het1
    simp only [renderHtml] at het1
    have hg13 := hg12.trans hg23
    have hfinal : Grow s (s4.pop node.hasNsDecls) := by
      unfold FStack.pop Tree.hasNsDecls
      unfold FStack.push at hg13
      by_cases hd : node.nsDecls.isEmpty = true
      · simp only [hd, if_true] at hg13
        simpa [hd] using hg13
      · have hd' : node.nsDecls.isEmpty = false := by simpa using hd
        simp only [hd', Bool.false_eq_true, if_false] at hg13
        simp only [hd', Bool.not_false, if_true]
        have := hg13.tail
        simp only [List.tail_cons] at this
        rw [this]
        exact Grow.refl hs
    have hend : EndTagsBare c [(path, Output.endTag name, tok5)] → EndTagsBare c
        ((path, Output.startTagOpen name, tok) :: (l1 ++ (l2 ++ [(path, Output.endTag name, tok5)]))) := by
      intro he k hk name' hname
      rcases List.mem_cons.mp hk with rfl | hk
      · cases hname
      · exact (hb1.append (hb2.append he)) k hk name' hname
    split at het1
    · simp only [Outcome.ok.injEq, Prod.mk.injEq] at het1
      obtain ⟨rfl, rfl⟩ := het1
      refine ⟨hfinal, hend ?_⟩
      intro k hk name' hname _
      simp only [List.mem_singleton] at hk
      subst hk
      left; rfl
    · split at het1
      · rename_i full hfull
        simp only [Outcome.ok.injEq, Prod.mk.injEq] at het1
        obtain ⟨rfl, rfl⟩ := het1
        refine ⟨hfinal, hend ?_⟩
        intro k hk name' hname hb
        simp only [List.mem_singleton] at hk
        subst hk
        simp only [Output.endTag.injEq] at hname
        subst hname
        right
        have : s4.elementFullname c.env name = .ok (c.env.localName name) := by
          apply elementFullname_bare c.env s4 name hb.2
          rcases hbare hb with h0 | hh
          · exact Or.inl h0
          · exact Or.inr (hg23.hasEmptyPrefix hh)
        rw [this] at hfull
        cases hfull
        simp [fmt, fmtHtmlEndTag]
      · cases het1

/-- One static event, then the children. -/
theorem run_leaf (c : HtmlCtx) (t : Tree) (inScope : List (Nat × Nat)) (ks : List Tree)
    (kidsOk : ∀ (path : Path) (i : Nat) (s sf : FStack) (l : List (Path × Output × OutputToken)),
      s ≠ [] → runHtml c t s (genNode.genKids inScope path i ks) = some (sf, l) → Grow s sf ∧ EndTagsBare c l)
    (path : Path) (o : Output) (ho : o.isStatic = true) (s sf : FStack)
    (l : List (Path × Output × OutputToken)) (hs : s ≠ [])
    (h : runHtml c t s ((path, o) :: genNode.genKids inScope path 0 ks) = some (sf, l)) :
    Grow s sf ∧ EndTagsBare c l := by
  obtain ⟨s1, l1, l2, h1, h2, rfl⟩ := runHtml_append_some (a := [(path, o)]) h
  obtain ⟨rfl, hb1⟩ := run_static _ (by intro po hpo; simp at hpo; subst hpo; exact ho) h1
  obtain ⟨hg, hb2⟩ := kidsOk path 0 s1 sf l2 hs h2
  exact ⟨hg, hb1.append hb2⟩

mutual
/-- The events of one subtree grow the stack and write bare end tags. -/
theorem run_node (c : HtmlCtx) (t : Tree) (inScope : List (Nat × Nat)) (n : Tree) (isTop : Bool) (path : Path)
    (s sf : FStack) (l : List (Path × Output × OutputToken)) (hs : s ≠ [])
    (h : runHtml c t s (genNode inScope isTop path n) = some (sf, l)) : Grow s sf ∧ EndTagsBare c l := by
  cases n with
  | node v ks =>
    have kidsOk := run_kids c t inScope ks
    cases v with
    | element name => exact run_element c t inScope name ks kidsOk isTop path s sf l hs h
    | text str => rw [genNode_text] at h; exact run_leaf c t inScope ks kidsOk path _ rfl s sf l hs h
    | comment str => rw [genNode_comment] at h; exact run_leaf c t inScope ks kidsOk path _ rfl s sf l hs h
    | pi target data => rw [genNode_pi] at h; exact run_leaf c t inScope ks kidsOk path _ rfl s sf l hs h
    | document => rw [genNode_document] at h; exact kidsOk path 0 s sf l hs h
    | «attribute» name value => rw [genNode_attribute] at h; exact kidsOk path 0 s sf l hs h
    | «namespace» p ns => rw [genNode_namespace] at h; exact kidsOk path 0 s sf l hs h

theorem run_kids (c : HtmlCtx) (t : Tree) (inScope : List (Nat × Nat)) (ks : List Tree) (path : Path) (i : Nat)
    (s sf : FStack) (l : List (Path × Output × OutputToken)) (hs : s ≠ [])
    (h : runHtml c t s (genNode.genKids inScope path i ks) = some (sf, l)) : Grow s sf ∧ EndTagsBare c l := by
  cases ks with
  | nil =>
    simp only [genNode.genKids, runHtml, Option.some.injEq, Prod.mk.injEq] at h
    obtain ⟨rfl, rfl⟩ := h
    exact ⟨Grow.refl hs, by intro k hk; simp at hk⟩
  | cons k ks =>
    simp only [genNode.genKids] at h
    obtain ⟨s1, l1, l2, h1, h2, rfl⟩ := runHtml_append_some h
    obtain ⟨hg1, hb1⟩ := run_node c t inScope k false (path ++ [i]) s s1 l1 hs h1
    obtain ⟨hg2, hb2⟩ := run_kids c t inScope ks path (i + 1) s1 sf l2 hg1.ne_nil h2
    exact ⟨hg1.trans hg2, hb1.append hb2⟩
end

end XotModel
