/-
  `xotifyContent` / `xotifyList` build exactly the trees `treeOfContent` / `treeOfList`, as new
  roots with fresh handles, leaving every other tree of the store alone.
-/
import XotModel.Lemmas.FfixedXotify

namespace XotModel
open HTree

/-- `t` is a handle-labelled copy of the tree of `c`, with handles in `[n, n + size)`. -/
structure BuiltC (n : Nat) (c : FContent) (t : HTree) : Prop where
  handle : t.handle = n
  erase : t.erase = treeOfContent c
  bounds : ∀ h ∈ handles t, n ≤ h ∧ h < n + c.size
  nodup : (handles t).Nodup

structure BuiltL (n : Nat) (cs : List FContent) (ts : List HTree) : Prop where
  erase : eraseList ts = treeOfList cs
  bounds : ∀ h ∈ handlesList ts, n ≤ h ∧ h < n + FContent.sizeList cs
  nodup : (handlesList ts).Nodup

theorem BuiltC.leaf (n : Nat) (c : FContent) (v : Value) (hc : treeOfContent c = .node v [])
    (hs : c.size = 1) : BuiltC n c (.node n v []) := by
  refine ⟨rfl, by rw [hc]; rfl, ?_, by simp [handles, handlesList]⟩
  intro h hh
  simp only [handles, handlesList, List.mem_singleton] at hh
  omega

theorem ffx_eraseList_append (a b : List HTree) : eraseList (a ++ b) = eraseList a ++ eraseList b := by
  induction a with
  | nil => rfl
  | cons k ks ih => simp [eraseList, ih]

namespace Forest

theorem good_add_root {f : Forest} (hg : Good f) {c : FContent} {t : HTree} (hb : BuiltC f.next c t) :
    Good { f with roots := f.roots ++ [t], next := f.next + c.size } :=
  hg.add_roots [t] _ (by simpa [handlesList] using hb.nodup)
    (by intro h hh; simp only [handlesList, List.append_nil] at hh; exact hb.bounds h hh) (by omega)

mutual
  theorem xotifyContent_spec : ∀ (c : FContent) (f : Forest), Good f → c.wf f.consolidation = true →
      ∃ t, BuiltC f.next c t ∧
        xotifyContent f c = some ({ f with roots := f.roots ++ [t], next := f.next + c.size }, f.next)
    | .text s, f, _, _ => ⟨.node f.next (.text s) [], BuiltC.leaf _ _ _ rfl rfl, rfl⟩
    | .comment s, f, _, _ => ⟨.node f.next (.comment s) [], BuiltC.leaf _ _ _ rfl rfl, rfl⟩
    | .pi t d, f, _, _ => ⟨.node f.next (.pi t d) [], BuiltC.leaf _ _ _ rfl rfl, rfl⟩
    | .element nm ps as cs, f, hg, hwf => by
      simp only [FContent.wf, Bool.and_eq_true, decide_eq_true_eq, Bool.or_eq_true,
        Bool.not_eq_true'] at hwf
      obtain ⟨⟨⟨hps, has⟩, hadj⟩, hwfl⟩ := hwf
      -- head
      have hhead := newElementWithMaps_spec f hg nm ps as hps has
      let K := headKids f.next ps as
      let f1 : Forest := { f with roots := f.roots ++ [HTree.node f.next (.element nm) K],
                                  next := f.next + 1 + ps.length + as.length }
      have hKn : (handlesList K).Nodup := nodup_handlesList_leavesFrom _ _
      have hg1 : Good f1 := hg.add_roots [HTree.node f.next (.element nm) K] _
        (by
          simp only [handlesList, handles, List.append_nil, List.nodup_cons]
          refine ⟨?_, hKn⟩
          rw [mem_handlesList_headKids]; omega)
        (by
          intro h hh
          simp only [handlesList, handles, List.append_nil, List.mem_cons] at hh
          rcases hh with rfl | hh
          · omega
          · rw [mem_handlesList_headKids] at hh; omega)
        (by omega)
      -- children
      obtain ⟨ts, hts, hlist⟩ := xotifyList_spec cs f1 hg1 hwfl
      let f2 : Forest := { f1 with roots := f1.roots ++ ts, next := f1.next + FContent.sizeList cs }
      have hg2 : Good f2 := hg1.add_roots ts _ hts.nodup hts.bounds (by omega)
      have hroots2 : f2.roots = f.roots ++ HTree.node f.next (.element nm) K :: (ts ++ []) := by
        simp [f2, f1]
      have happ := appendAllOk_after (A := f.roots) (B := []) (p := f.next) (v := .element nm)
        (Or.inl rfl) ts f2 K hroots2 hg2 (built_normal ts cs hts.erase) (by
          intro hc
          apply noAdjacentText_append_nontext
          · intro k hk; exact (headKids_nontext k hk).1
          · apply built_noAdjacentText ts cs hts.erase
            rcases hadj with hadj | hadj
            · have : f.consolidation = true := hc
              rw [this] at hadj; cases hadj
            · exact hadj)
      refine ⟨HTree.node f.next (.element nm) (K ++ ts), ⟨rfl, ?_, ?_, ?_⟩, ?_⟩
      · simp only [erase, treeOfContent, ffx_eraseList_append, hts.erase, K, eraseList_headKids,
          List.append_assoc]
      · intro h hh
        simp only [handles, handlesList_append_ff, List.mem_cons, List.mem_append] at hh
        simp only [FContent.size]
        rcases hh with rfl | hh | hh
        · omega
        · rw [mem_handlesList_headKids] at hh; omega
        · have := hts.bounds h hh
          simp only [f1] at this
          omega
      · simp only [handles, handlesList_append_ff, List.nodup_cons, List.mem_append, not_or]
        refine ⟨⟨?_, ?_⟩, List.nodup_append.2 ⟨hKn, hts.nodup, ?_⟩⟩
        · rw [mem_handlesList_headKids]; omega
        · intro hh; have := hts.bounds _ hh; simp only [f1] at this; omega
        · intro a ha b hb e
          rw [mem_handlesList_headKids] at ha
          have := hts.bounds _ hb; simp only [f1] at this; omega
      · unfold xotifyContent
        rw [hhead]
        simp only
        rw [hlist]
        simp only
        rw [happ]
        simp only [f2, f1, FContent.size, Option.some.injEq, Prod.mk.injEq, and_true]
        congr 1
        omega
  theorem xotifyList_spec : ∀ (cs : List FContent) (f : Forest), Good f →
      FContent.wfList f.consolidation cs = true →
      ∃ ts, BuiltL f.next cs ts ∧
        xotifyList f cs = some ({ f with roots := f.roots ++ ts, next := f.next + FContent.sizeList cs },
          ts.map HTree.handle)
    | [], f, _, _ => by
      refine ⟨[], ⟨rfl, ?_, ?_⟩, ?_⟩
      · intro h hh; simp [handlesList] at hh
      · simp [handlesList]
      · simp [xotifyList, FContent.sizeList]
    | c :: cs, f, hg, hwf => by
      simp only [FContent.wfList, Bool.and_eq_true] at hwf
      obtain ⟨t, ht, hc⟩ := xotifyContent_spec c f hg hwf.1
      let f1 : Forest := { f with roots := f.roots ++ [t], next := f.next + c.size }
      have hg1 : Good f1 := good_add_root hg ht
      obtain ⟨ts, hts, hl⟩ := xotifyList_spec cs f1 hg1 hwf.2
      refine ⟨t :: ts, ⟨?_, ?_, ?_⟩, ?_⟩
      · simp [eraseList, treeOfList, ht.erase, hts.erase]
      · intro h hh
        simp only [handlesList, List.mem_append, FContent.sizeList] at hh ⊢
        rcases hh with hh | hh
        · have := ht.bounds h hh; omega
        · have := hts.bounds h hh; simp only [f1] at this; omega
      · simp only [handlesList]
        refine List.nodup_append.2 ⟨ht.nodup, hts.nodup, ?_⟩
        intro a ha b hb e
        have h1 := ht.bounds a ha
        have h2 := hts.bounds b hb
        simp only [f1] at h2
        omega
      · unfold xotifyList
        rw [hc]
        simp only
        rw [hl]
        simp only [f1, List.map_cons, ht.handle, FContent.sizeList, List.append_assoc,
          List.cons_append, List.nil_append, Option.some.injEq, Prod.mk.injEq, and_true]
        congr 1
        omega
end

end Forest
end XotModel
