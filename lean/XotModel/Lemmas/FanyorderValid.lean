/-
  Lemmas for C20 (any construction order), part 4: structural validity is LOCAL.

  `validTree b` checks, at every node, a condition on the node's value and the VALUES of its
  children (`localOK`).  `validX sx` is the same with the "no adjacent text" clause switched on
  per node (`sx h`), so that the intermediate states of a move (adjacent text at the two touched
  child lists, nowhere else) can be described.  Main lemma: `validX_editAt` — editing the child
  list of one node keeps validity if the new child list is locally fine and its members are valid.
-/
import XotModel.Lemmas.FspecSite
import XotModel.Lemmas.FmapInv

namespace XotModel
namespace Prog
open HTree Spec

/-- What a node with value `v` requires of its child list (`b`: no adjacent text). -/
def localOK (b : Bool) (v : Value) (ks : List HTree) : Bool :=
  ks.all (fun k => kidAllowed v k.value) && kidsOrdered ks && keysUnique .attribute ks &&
    keysUnique .namespace ks && (!b || noAdjacentText ks)

theorem validTree_eq (b : Bool) (h : Nat) (v : Value) (ks : List HTree) :
    validTree b (.node h v ks) = (localOK b v ks && validList b ks) := by
  simp [validTree, localOK]

theorem localOK_weaken {b : Bool} {v : Value} {ks : List HTree} (h : localOK b v ks = true) :
    localOK false v ks = true := by
  simp only [localOK, Bool.and_eq_true] at h ⊢
  exact ⟨h.1, by simp⟩

theorem localOK_mono {b b' : Bool} {v : Value} {ks : List HTree} (hb : b' = true → b = true)
    (h : localOK b v ks = true) : localOK b' v ks = true := by
  cases b' with
  | false => exact localOK_weaken h
  | true => rw [hb rfl] at h; exact h

theorem localOK_strict {v : Value} {ks : List HTree} (h : localOK false v ks = true)
    (hn : noAdjacentText ks = true) : localOK true v ks = true := by
  simp only [localOK, Bool.and_eq_true] at h ⊢
  exact ⟨h.1, by simp [hn]⟩

/-- The local condition only looks at the children's values. -/
theorem localOK_map (b : Bool) (v : Value) (φ : HTree → HTree) (hφ : ∀ k, (φ k).value = k.value)
    (ks : List HTree) : localOK b v (ks.map φ) = localOK b v ks := by
  simp only [localOK, Fmap.all_kidAllowed_map v φ hφ, Fmap.kidsOrdered_map φ hφ, Fmap.keysUnique_map _ φ hφ,
    Fmap.noAdjacentText_map φ hφ]

theorem localOK_nil (b : Bool) (v : Value) : localOK b v [] = true := by
  simp [localOK, kidsOrdered, keysUnique, noAdjacentText]

mutual
  /-- Validity with the no-adjacent-text clause required at the nodes `h` with `sx h = true`. -/
  def validX (sx : Nat → Bool) : HTree → Bool
    | .node h v ks => localOK (sx h) v ks && validXList sx ks
  def validXList (sx : Nat → Bool) : List HTree → Bool
    | [] => true
    | k :: ks => validX sx k && validXList sx ks
end

theorem validXList_cons (sx : Nat → Bool) (k : HTree) (ks : List HTree) :
    validXList sx (k :: ks) = (validX sx k && validXList sx ks) := by simp [validXList]

theorem validX_node (sx : Nat → Bool) (h : Nat) (v : Value) (ks : List HTree) :
    validX sx (.node h v ks) = (localOK (sx h) v ks && validXList sx ks) := by simp [validX]

mutual
  theorem validX_const (b : Bool) : ∀ t : HTree, validX (fun _ => b) t = validTree b t
    | .node h v ks => by rw [validX_node, validTree_eq, validXList_const b ks]
  theorem validXList_const (b : Bool) : ∀ ks : List HTree, validXList (fun _ => b) ks = validList b ks
    | [] => by simp [validXList, validList]
    | k :: ks => by rw [validXList_cons, fs_validList_cons, validX_const b k, validXList_const b ks]
end

mutual
  /-- Relaxing the strictness (on the handles of the tree) keeps validity. -/
  theorem validX_mono {sx sx' : Nat → Bool} : ∀ t : HTree, (∀ h ∈ handles t, sx' h = true → sx h = true) →
      validX sx t = true → validX sx' t = true
    | .node h v ks => by
      intro hm hv
      rw [validX_node, Bool.and_eq_true] at hv ⊢
      rw [handles_node] at hm
      exact ⟨localOK_mono (hm h List.mem_cons_self) hv.1,
        validXList_mono ks (fun x hx => hm x (List.mem_cons_of_mem _ hx)) hv.2⟩
  theorem validXList_mono {sx sx' : Nat → Bool} : ∀ ks : List HTree,
      (∀ h ∈ handlesList ks, sx' h = true → sx h = true) → validXList sx ks = true → validXList sx' ks = true
    | [] => by intro _ _; simp [validXList]
    | k :: ks => by
      intro hm hv
      rw [validXList_cons, Bool.and_eq_true] at hv ⊢
      rw [handlesList_cons] at hm
      exact ⟨validX_mono k (fun x hx => hm x (List.mem_append_left _ hx)) hv.1,
        validXList_mono ks (fun x hx => hm x (List.mem_append_right _ hx)) hv.2⟩
end

theorem validXList_append (sx : Nat → Bool) (a b : List HTree) :
    validXList sx (a ++ b) = (validXList sx a && validXList sx b) := by
  induction a with
  | nil => simp [validXList]
  | cons k ks ih => simp [validXList_cons, ih, Bool.and_assoc]

theorem validXList_mem {sx : Nat → Bool} {ks : List HTree} (h : validXList sx ks = true) :
    ∀ k ∈ ks, validX sx k = true := by
  induction ks with
  | nil => intro k hk; cases hk
  | cons a ks ih =>
    rw [validXList_cons, Bool.and_eq_true] at h
    intro k hk
    rcases List.mem_cons.1 hk with e | e
    · rw [e]; exact h.1
    · exact ih h.2 k e

theorem validXList_of_mem {sx : Nat → Bool} {ks : List HTree} (h : ∀ k ∈ ks, validX sx k = true) :
    validXList sx ks = true := by
  induction ks with
  | nil => simp [validXList]
  | cons a ks ih =>
    rw [validXList_cons, Bool.and_eq_true]
    exact ⟨h a List.mem_cons_self, ih (fun k hk => h k (List.mem_cons_of_mem _ hk))⟩

theorem validXList_sublist {sx : Nat → Bool} {ks ks' : List HTree} (hs : ks'.Sublist ks)
    (h : validXList sx ks = true) : validXList sx ks' = true :=
  validXList_of_mem (fun k hk => validXList_mem h k (hs.subset hk))

mutual
  /-- The subtree found by a lookup is valid. -/
  theorem validX_find {sx : Nat → Bool} {h : Nat} : ∀ (t u : HTree), validX sx t = true → find? h t = some u →
      validX sx u = true
    | .node h' v ks, u => by
      intro hv e
      rw [find?_node] at e
      by_cases hh : h' = h
      · rw [if_pos hh] at e
        have e' := Option.some.inj e
        subst e'
        exact hv
      · rw [if_neg hh] at e
        rw [validX_node, Bool.and_eq_true] at hv
        exact validX_findList ks u hv.2 e
  theorem validX_findList {sx : Nat → Bool} {h : Nat} : ∀ (ks : List HTree) (u : HTree),
      validXList sx ks = true → findList? h ks = some u → validX sx u = true
    | [], u => by intro _ e; rw [findList?_nil] at e; cases e
    | k :: ks, u => by
      intro hv e
      rw [validXList_cons, Bool.and_eq_true] at hv
      cases hk : find? h k with
      | some t =>
        rw [findList?_cons_some hk] at e
        have e' := Option.some.inj e
        subst e'
        exact validX_find k t hv.1 hk
      | none =>
        rw [findList?_cons_none hk] at e
        exact validX_findList ks u hv.2 e
end

mutual
  /-- **Editing one child list.**  `sx'` may be anything at `p` and must not be stricter than `sx`
      elsewhere; the new child list of `p` must be locally fine (under `sx' p`) with valid members. -/
  theorem validX_editAt {sx sx' : Nat → Bool} {p : Nat} {g : List HTree → List HTree} {v : Value} {L : List HTree}
      (hother : ∀ h, h ≠ p → sx' h = true → sx h = true)
      (hloc : localOK (sx' p) v (g L) = true) (hmem : validXList sx' (g L) = true) :
      ∀ t : HTree, (handles t).Nodup → validX sx t = true → find? p t = some (.node p v L) →
        validX sx' (HTree.editAt p g t) = true
    | .node h v' ks => by
      intro nd hv e
      obtain ⟨n1, n2⟩ := nodup_handles_node nd
      rw [find?_node] at e
      rw [editAt_node]
      by_cases hh : h = p
      · rw [if_pos hh] at e
        have e' := Option.some.inj e
        injection e' with e1 e2 e3
        subst e2 e3
        rw [if_pos hh, validX_node, Bool.and_eq_true, hh]
        exact ⟨hloc, hmem⟩
      · rw [if_neg hh] at e
        rw [if_neg hh, validX_node, Bool.and_eq_true]
        rw [validX_node, Bool.and_eq_true] at hv
        refine ⟨?_, validXList_editAt hother hloc hmem ks n2 hv.2 e⟩
        rw [localOK_map _ _ _ (editAt_value p g)]
        exact localOK_mono (hother h hh) hv.1
  theorem validXList_editAt {sx sx' : Nat → Bool} {p : Nat} {g : List HTree → List HTree} {v : Value} {L : List HTree}
      (hother : ∀ h, h ≠ p → sx' h = true → sx h = true)
      (hloc : localOK (sx' p) v (g L) = true) (hmem : validXList sx' (g L) = true) :
      ∀ ks : List HTree, (handlesList ks).Nodup → validXList sx ks = true → findList? p ks = some (.node p v L) →
        validXList sx' (ks.map (HTree.editAt p g)) = true
    | [] => by intro _ _ e; rw [findList?_nil] at e; cases e
    | k :: ks => by
      intro nd hv e
      obtain ⟨n1, n2, n3⟩ := nodup_handlesList_cons nd
      rw [validXList_cons, Bool.and_eq_true] at hv
      rw [List.map_cons, validXList_cons, Bool.and_eq_true]
      cases hk : find? p k with
      | some t =>
        rw [findList?_cons_some hk] at e
        have e' := Option.some.inj e
        subst e'
        have hpn : p ∉ handlesList ks := n3 p (mem_of_find?_some hk)
        rw [map_editAt_of_not_mem ks hpn]
        refine ⟨validX_editAt hother hloc hmem k n1 hv.1 hk, ?_⟩
        exact validXList_mono ks (fun x hx => hother x (fun ex => hpn (ex ▸ hx))) hv.2
      | none =>
        rw [findList?_cons_none hk] at e
        have hpk : p ∉ handles k := by
          intro hm
          have := find?_isSome_of_mem k hm
          rw [hk] at this; cases this
        rw [editAt_of_not_mem k hpk]
        refine ⟨?_, validXList_editAt hother hloc hmem ks n2 hv.2 e⟩
        exact validX_mono k (fun x hx => hother x (fun ex => hpk (ex ▸ hx))) hv.1
end

/-- Text nodes (and every node that is neither element nor document) are leaves. -/
theorem kids_nil_of_validX {sx : Nat → Bool} {t : HTree} (hv : validX sx t = true)
    (hne : t.value.isElement = false) (hnd : t.value.isDocument = false) : t.kids = [] := by
  cases t with
  | node h v ks =>
    simp only [HTree.value] at hne hnd
    simp only [HTree.kids]
    cases ks with
    | nil => rfl
    | cons k ks =>
      rw [validX_node, Bool.and_eq_true] at hv
      have := hv.1
      simp only [localOK, Bool.and_eq_true, List.all_cons] at this
      have hk := this.1.1.1.1.1
      cases v <;> simp_all [kidAllowed, Value.isElement, Value.isDocument]

/-- A leaf is valid whatever its value. -/
theorem validX_leaf (sx : Nat → Bool) (h : Nat) (v : Value) : validX sx (.node h v []) = true := by
  rw [validX_node, localOK_nil]; simp [validXList]

end Prog
end XotModel
