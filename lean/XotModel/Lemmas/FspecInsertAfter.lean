/-
  FspecInsertAfter — C05 for `insert_after`.
-/
import XotModel.Lemmas.FspecIns

namespace XotModel
open HTree Spec

/-- `insert_after` after the old-site merge (`ref'` = the possibly rewritten reference). -/
def insertAfterTail (X : Forest) (ref' c : Nat) : Forest × Res :=
  let r2 := X.addConsolidate c (some ref') (X.nextSibling ref')
  if r2.2 then (r2.1, .ok) else
  let r3 := r2.1.checkedInsertAfter ref' c
  if r3.2 then (r3.1, .ok) else (r3.1, .err .nodeError)

theorem insertAfter_unfold (f : Forest) (ref new : Nat) :
    f.insertAfter ref new =
      if !f.structureCheck (f.parent? ref) new then (f, .err .invalidOperation) else
      if !f.siblingReferenceCheck ref new then (f, .err .invalidOperation) else
      if f.nextSibling ref == some new then (f, .ok) else
      let r1 := f.removeConsolidate (f.prevSibling new) (f.nextSibling new)
      let ref' := if r1.2 && f.nextSibling new == some ref then (f.prevSibling new).getD ref else ref
      insertAfterTail r1.1 ref' new := rfl

/-- Inserting a node keeps a list free of adjacent text if it is not text-adjacent to its new
    neighbours. -/
theorem noAdj_insert {P Q : List HTree} {t : HTree} (h : noAdjacentText (P ++ Q) = true)
    (hp : ∀ a, P.getLast? = some a → ¬ (a.value.isText = true ∧ t.value.isText = true))
    (hq : ∀ b, Q.head? = some b → ¬ (t.value.isText = true ∧ b.value.isText = true)) :
    noAdjacentText (P ++ t :: Q) = true := by
  obtain ⟨h1, h2, _⟩ := noAdj_append.1 h
  apply noAdj_append.2
  refine ⟨h1, ?_, ?_⟩
  · have : t :: Q = [t] ++ Q := rfl
    rw [this]
    apply noAdj_append.2
    refine ⟨rfl, h2, ?_⟩
    intro a b ha hb
    simp only [List.getLast?_singleton, Option.some.injEq] at ha
    subst ha
    exact hq b hb
  · intro a b ha hb
    simp only [List.head?_cons, Option.some.injEq] at hb
    subst hb
    exact hp a ha

theorem textData_map {φ : HTree → HTree} (hφ : KidMap φ) (k : HTree) : textData (φ k) = textData k := by
  unfold textData; rw [hφ.value]

/-- The second half of `insert_after` against the specification, given the package `Far` and what
    the model reads off the destination list (`View`). -/
theorem insertAfterTail_core {f : Forest} {c : Nat} {t : HTree} {q : Nat} {vq : Value} {A : List HTree}
    {kr : HTree} {B : List HTree} {X Y : Forest} {φ : HTree → HTree} (inv : f.Inv)
    (F : Far f (Keep.resident c) c t q vq (A ++ kr :: B) X Y φ) (V : View f (A ++ kr :: B))
    (hpar : f.parent? kr.handle = some q)
    (hnextV : X = f → f.nextSibling kr.handle = nextOf B kr)
    (hplace : X.checkedInsertAfter kr.handle c = (Y.editAt (some q) (insertAfterTop kr.handle t), true))
    (hgc : f.get? c = some t) (hX : X = f ∨ textData t = none) (hrc : kr.handle ≠ c)
    (hkrn : kr.value.isNormal = true)
    (hsame : ¬ nextOf B kr = some c)
    (hocc : Dest.occupiedBy f c (.after kr.handle) = false) :
    (insertAfterTail X kr.handle c).1 = specMove (Keep.resident c) (.after kr.handle) c f := by
  have htc : t.handle = c := (findList?_some f.roots t hgc).1
  have hsite : Dest.site f (.after kr.handle) = some q := by
    simp only [Dest.site]; exact hpar
  have hspec := F.spec (.after kr.handle) hocc hsite (fun ψ hk hψ => natFor_insertAfterTop hk _ hψ)
  simp only [Dest.insert] at hspec
  rw [hspec]
  have hYc : (Y.editAt (some q) (insertAfterTop kr.handle t)).consolidation = f.consolidation := by
    rw [Forest.editAt_consolidation, F.ycons]
  have hXtext : X.textOf c = textData t := Forest.textOf_of_get F.xget
  -- the destination child list in `Y`
  have hmapL : (A ++ kr :: B).map φ = A.map φ ++ φ kr :: B.map φ := by simp
  have sY : SiteAt Y q vq (A.map φ ++ φ kr :: B.map φ) := hmapL ▸ F.ysite
  obtain ⟨ndLY, _⟩ := sY.nodupKids
  have htopsA : ∀ k ∈ A.map φ, k.handle ≠ kr.handle := by
    have := (tops_ne_of_nodup ndLY).1
    rw [F.kid.handle] at this
    exact this
  have hI : insertAfterTop kr.handle t (A.map φ ++ φ kr :: B.map φ) = A.map φ ++ φ kr :: t :: B.map φ := by
    have := insertAfterTop_mid (A := A.map φ) (w := φ kr) (B := B.map φ) t (by rw [F.kid.handle]; exact htopsA)
    rw [F.kid.handle] at this
    exact this
  have hstrictY : f.consolidation = true → noAdjacentText (A.map φ ++ φ kr :: B.map φ) = true := by
    intro hc
    rw [← hmapL, noAdj_map F.kid]
    exact V.noadj hc
  -- Flow 1
  have flow1 : X.addConsolidate c (some kr.handle) (X.nextSibling kr.handle) = (X, false) →
      (f.consolidation = true → ¬ (kr.value.isText = true ∧ t.value.isText = true)) →
      (f.consolidation = true → ∀ kb, B.head? = some kb → ¬ (t.value.isText = true ∧ kb.value.isText = true)) →
      (insertAfterTail X kr.handle c).1 =
        (Y.editAt (some q) (insertAfterTop kr.handle t)).mergeAt (Keep.resident c) (some q) := by
    intro hr2 hs1 hs2
    unfold insertAfterTail
    rw [hr2]
    simp only [Bool.false_eq_true, if_false]
    rw [hplace]
    simp only [if_true]
    rcases Bool.eq_false_or_eq_true f.consolidation with hc | hc
    · rw [mergeAt_on (hYc.trans hc), Forest.editAt_editAt]
      apply sY.congr
      simp only [Function.comp]
      rw [hI]
      symm
      apply mergeRuns_id
      have e1 : A.map φ ++ φ kr :: t :: B.map φ = (A.map φ ++ [φ kr]) ++ t :: B.map φ := by simp
      rw [e1]
      apply noAdj_insert
      · have := hstrictY hc; simpa using this
      · intro a ha
        rw [List.getLast?_concat] at ha
        cases ha
        rw [F.kid.value]; exact hs1 hc
      · intro b hb
        rw [List.head?_map] at hb
        cases hB : B.head? with
        | none => rw [hB] at hb; cases hb
        | some kb =>
          rw [hB] at hb
          simp only [Option.map_some, Option.some.injEq] at hb
          subst hb
          rw [F.kid.value]; exact hs2 hc kb hB
    · rw [mergeAt_off (hYc.trans hc)]
  rcases Bool.eq_false_or_eq_true f.consolidation with hc | hc
  case inr =>
    exact flow1 (Forest.addConsolidate_off (F.xcons.trans hc) _ _ _)
      (fun h => by rw [hc] at h; cases h) (fun h => by rw [hc] at h; cases h)
  cases htd : textData t with
  | none =>
    have hnt : ¬ t.value.isText = true := by
      intro h
      obtain ⟨z, hz⟩ := isText_iff_textData.1 h
      rw [htd] at hz; cases hz
    exact flow1 (Forest.addConsolidate_not_text (hXtext.trans htd) _ _)
      (fun _ h => hnt h.2) (fun _ _ _ h => hnt h.1)
  | some tc =>
    have hXf : X = f := by
      cases hX with
      | inl h => exact h
      | inr h => rw [htd] at h; cases h
    subst hXf
    have htt : t.value.isText = true := isText_iff_textData.2 ⟨tc, htd⟩
    have hleaf_t : t.kids = [] := leaf_of_text inv.valid hgc htt
    have hkr_get : X.get? kr.handle = some kr := V.get kr (by simp)
    have hnext : X.nextSibling kr.handle = nextOf B kr := hnextV rfl
    have hleafL := V.leaf
    cases hta : textData kr with
    | some ta =>
      -- merged into the reference node (the earlier one)
      have hr2 : X.addConsolidate c (some kr.handle) (X.nextSibling kr.handle) =
          ((X.setValue kr.handle (.text (ta ++ tc))).spliceOut c, true) :=
        Forest.addConsolidate_prev hc (hXtext.trans htd) ((Forest.textOf_of_get hkr_get).trans hta) _ hrc
      have hkrt : kr.value.isText = true := isText_iff_textData.2 ⟨ta, hta⟩
      have hflow := F.flow2 rfl kr.handle (.text (ta ++ tc)) ⟨kr, by simp, rfl⟩ hrc hleaf_t (by
        intro k' hk' e
        have ndL := V.nd
        obtain ⟨tA, tB⟩ := tops_ne_of_nodup ndL
        have : k' = kr := by
          cases List.mem_append.1 hk' with
          | inl h => exact absurd e (tA k' h)
          | inr h =>
            cases List.mem_cons.1 h with
            | inl h' => exact h'
            | inr h' => exact absurd e (tB k' h')
        rw [this]
        exact hleafL kr (by simp) hkrt)
      unfold insertAfterTail
      rw [hr2]
      simp only [if_true]
      rw [hflow, mergeAt_on (hYc.trans hc), Forest.editAt_editAt]
      apply sY.congr
      simp only [Function.comp]
      rw [hI, replaceTop_mid (F.kid.handle kr) htopsA]
      have hstr := hstrictY hc
      have hvkr : (φ kr).value = .text ta := by rw [F.kid.value]; exact textData_some hta
      obtain ⟨hAkr, hkrB, _⟩ := noAdj_append.1 (by
        have e1 : A.map φ ++ φ kr :: B.map φ = (A.map φ ++ [φ kr]) ++ B.map φ := by simp
        rw [e1] at hstr; exact hstr)
      -- `B` does not start with text, because `kr` is text
      have htB : noAdjacentText (t :: B.map φ) = true := by
        have e2 : A.map φ ++ φ kr :: B.map φ = A.map φ ++ (φ kr :: B.map φ) := rfl
        rw [e2] at hstr
        have hkb := (noAdj_append.1 hstr).2.1
        cases hB : B.map φ with
        | nil => rfl
        | cons b B' =>
          rw [hB] at hkb
          rw [noAdj_cons_cons, Bool.and_eq_true] at hkb ⊢
          refine ⟨?_, hkb.2⟩
          have hk1 : (φ kr).value.isText = true := by rw [hvkr]; rfl
          have := hkb.1
          simp [hk1] at this
          simp [this]
      rw [mergeRuns_seam _ hvkr (textData_some htd) hAkr htB]
      simp [join, Keep.resident, F.kid.handle, hrc]
    | none =>
      have hprev : ∀ a, some kr.handle = some a → X.textOf a = none := by
        intro a h; cases h
        exact (Forest.textOf_of_get hkr_get).trans hta
      have hnkr : ¬ kr.value.isText = true := by
        intro h
        obtain ⟨z, hz⟩ := isText_iff_textData.1 h
        rw [hta] at hz; cases hz
      cases B with
      | nil =>
        refine flow1 (Forest.addConsolidate_none hprev (by
          intro b h
          rw [hnext] at h
          simp [nextOf] at h)) (fun _ h => hnkr h.1) (fun _ kb h => by cases h)
      | cons kb B2 =>
        have hkb_get : X.get? kb.handle = some kb := V.get kb (by simp)
        cases htb : textData kb with
        | none =>
          refine flow1 (Forest.addConsolidate_none hprev (by
            intro b h
            rw [hnext] at h
            simp only [nextOf, List.head?_cons] at h
            split at h
            · cases h
              exact (Forest.textOf_of_get hkb_get).trans htb
            · cases h)) (fun _ h => hnkr h.1) ?_
          intro _ kb' hkb' ⟨_, h2⟩
          simp only [List.head?_cons, Option.some.injEq] at hkb'
          subst hkb'
          obtain ⟨z, hz⟩ := isText_iff_textData.1 h2
          rw [htb] at hz; cases hz
        | some tb =>
          -- merged into the following text node: the LATER node survives
          have hkbt : kb.value.isText = true := isText_iff_textData.2 ⟨tb, htb⟩
          have hcat : (kb.value.category == kr.value.category) = true := by
            have h1 : kb.value.category = .normal := text_category hkbt
            have h2 : kr.value.category = .normal := by
              simpa [Value.isNormal] using hkrn
            rw [h1, h2]; rfl
          have hnx : nextOf (kb :: B2) kr = some kb.handle := by simp [nextOf, hcat]
          have hkbc : kb.handle ≠ c := fun e => hsame (by rw [hnx, e])
          have hr2 : X.addConsolidate c (some kr.handle) (X.nextSibling kr.handle) =
              ((X.setValue kb.handle (.text (tc ++ tb))).spliceOut c, true) := by
            rw [hnext, hnx]
            exact Forest.addConsolidate_next hc (hXtext.trans htd) hprev ((Forest.textOf_of_get hkb_get).trans htb) hkbc
          have hflow := F.flow2 rfl kb.handle (.text (tc ++ tb)) ⟨kb, by simp, rfl⟩ hkbc hleaf_t (by
            intro k' hk' e
            have ndL : (handlesList ((A ++ [kr]) ++ kb :: B2)).Nodup := by
              have := V.nd
              rwa [show A ++ kr :: kb :: B2 = (A ++ [kr]) ++ kb :: B2 by simp] at this
            obtain ⟨tA, tB⟩ := tops_ne_of_nodup ndL
            have : k' = kb := by
              have hk'' : k' ∈ (A ++ [kr]) ++ kb :: B2 := by simpa using hk'
              cases List.mem_append.1 hk'' with
              | inl h => exact absurd e (tA k' h)
              | inr h =>
                cases List.mem_cons.1 h with
                | inl h' => exact h'
                | inr h' => exact absurd e (tB k' h')
            rw [this]
            exact hleafL kb (by simp) hkbt)
          unfold insertAfterTail
          rw [hr2]
          simp only [if_true]
          rw [hflow, mergeAt_on (hYc.trans hc), Forest.editAt_editAt]
          apply sY.congr
          simp only [Function.comp]
          rw [hI]
          simp only [List.map_cons]
          have hstr := hstrictY hc
          simp only [List.map_cons] at hstr
          have e1 : A.map φ ++ φ kr :: φ kb :: B2.map φ = (A.map φ ++ [φ kr]) ++ φ kb :: B2.map φ := by simp
          obtain ⟨ndLY2, _⟩ := (show SiteAt Y q vq ((A.map φ ++ [φ kr]) ++ φ kb :: B2.map φ) by
            rw [← e1]; simpa using sY).nodupKids
          have htopsB := (tops_ne_of_nodup ndLY2).1
          rw [e1, replaceTop_mid (F.kid.handle kb) (by rw [F.kid.handle] at htopsB; exact htopsB)]
          rw [e1] at hstr
          obtain ⟨hAkr, hkbB, _⟩ := noAdj_append.1 hstr
          have hvkb : (φ kb).value = .text tb := by rw [F.kid.value]; exact textData_some htb
          have hAkrt : noAdjacentText ((A.map φ ++ [φ kr]) ++ [t]) = true := by
            apply noAdj_append.2
            refine ⟨hAkr, rfl, ?_⟩
            intro a b ha _ ⟨h1, _⟩
            rw [List.getLast?_concat] at ha
            cases ha
            rw [F.kid.value] at h1
            exact hnkr h1
          have e2 : A.map φ ++ φ kr :: t :: φ kb :: B2.map φ = (A.map φ ++ [φ kr]) ++ t :: φ kb :: B2.map φ := by simp
          rw [e2, mergeRuns_seam _ (textData_some htd) hvkb hAkrt hkbB]
          simp [join, Keep.resident, htc]

/-- The far geometry. -/
theorem insertAfterTail_far {f : Forest} {c : Nat} {t : HTree} {q : Nat} {vq : Value} {A : List HTree}
    {kr : HTree} {B : List HTree} {X Y : Forest} {φ : HTree → HTree} (inv : f.Inv) (norm : f.Normal)
    (F : Far f (Keep.resident c) c t q vq (A ++ kr :: B) X Y φ) (sq : SiteAt f q vq (A ++ kr :: B))
    (hxs : ∃ φ', KidMap φ' ∧ SiteAt X q vq ((A ++ kr :: B).map φ'))
    (hgc : f.get? c = some t) (hX : X = f ∨ textData t = none) (hrc : kr.handle ≠ c)
    (hkrn : kr.value.isNormal = true) (hq : q ∉ handles t)
    (hsame : ¬ nextOf B kr = some c)
    (hocc : Dest.occupiedBy f c (.after kr.handle) = false) :
    (insertAfterTail X kr.handle c).1 = specMove (Keep.resident c) (.after kr.handle) c f := by
  have hplace : (X.checkedInsertAfter kr.handle c) =
      (Y.editAt (some q) (insertAfterTop kr.handle t), true) := by
    obtain ⟨φ', hk', sXq⟩ := hxs
    have hm : (A ++ kr :: B).map φ' = A.map φ' ++ φ' kr :: B.map φ' := by simp
    rw [hm] at sXq
    have := Forest.checkedInsertAfter_ok F.xget sXq hq (by rw [hk'.handle]; exact hrc)
    rw [hk'.handle] at this
    rw [this, F.xcut]
    have hmapL : (A ++ kr :: B).map φ = A.map φ ++ φ kr :: B.map φ := by simp
    have sY : SiteAt Y q vq (A.map φ ++ φ kr :: B.map φ) := hmapL ▸ F.ysite
    have hctx := sY.ctx
    rw [F.kid.handle] at hctx
    rw [Forest.placeAfter_of_ctx t sY.nd hctx]
  exact insertAfterTail_core inv F (View.of_site inv norm sq) (Forest.parent?_of_ctx sq.ctx)
    (fun _ => Forest.nextSibling_of_ctx sq.ctx) hplace hgc hX hrc hkrn hsame hocc

end XotModel

namespace XotModel
open HTree Spec

theorem nextOf_eq_some {B : List HTree} {kr : HTree} {x : Nat} (h : nextOf B kr = some x) :
    ∃ kb B2, B = kb :: B2 ∧ kb.handle = x ∧ kb.value.category = kr.value.category := by
  unfold nextOf at h
  cases hB : B.head? with
  | none => rw [hB] at h; cases h
  | some kb =>
    rw [hB] at h
    simp only at h
    obtain ⟨B2, e⟩ := List.head?_eq_some_iff.1 hB
    by_cases hc : (kb.value.category == kr.value.category) = true
    · rw [if_pos hc] at h
      exact ⟨kb, B2, e, Option.some.inj h, by simpa using hc⟩
    · rw [if_neg hc] at h; cases h

theorem prevOf_eq_some {A : List HTree} {kr : HTree} {x : Nat} (h : prevOf A kr = some x) :
    ∃ A2 ka, A = A2 ++ [ka] ∧ ka.handle = x ∧ ka.value.category = kr.value.category := by
  unfold prevOf at h
  cases hA : A.getLast? with
  | none => rw [hA] at h; cases h
  | some ka =>
    rw [hA] at h
    simp only at h
    obtain ⟨A2, e⟩ := List.getLast?_eq_some_iff.1 hA
    by_cases hc : (ka.value.category == kr.value.category) = true
    · rw [if_pos hc] at h
      exact ⟨A2, ka, e, Option.some.inj h, by simpa using hc⟩
    · rw [if_neg hc] at h; cases h

/-- What the two argument checks of `insert_after` / `insert_before` say. -/
theorem sibling_checks_unpack {f : Forest} {ref c : Nat} (nd : f.allHandles.Nodup)
    (hsc : f.structureCheck (f.parent? ref) c = true) (hsr : f.siblingReferenceCheck ref c = true) :
    ∃ q vq A kr B t, SiteAt f q vq (A ++ kr :: B) ∧ kr.handle = ref ∧ kr.value.isNormal = true ∧ ref ≠ c ∧
      f.get? c = some t ∧ q ∉ handles t ∧ t.value.isNormal = true ∧ t.value.isDocument = false ∧
      vq.isText = false := by
  cases hp : f.parent? ref with
  | none => rw [hp] at hsc; simp [Forest.structureCheck] at hsc
  | some q =>
    rw [hp] at hsc
    obtain ⟨vq, Lq, t, hgq, hgc, hqt, hnorm, hndoc, hvq⟩ := Forest.structureCheck_unpack nd hsc
    unfold Forest.parent? at hp
    cases hctx : f.ctx? ref with
    | none => rw [hctx] at hp; cases hp
    | some cx =>
      rw [hctx] at hp
      simp only [Option.map_some, Option.some.injEq] at hp
      obtain ⟨e0, v', s⟩ := SiteAt.of_ctx nd hctx
      obtain ⟨p', A, kr, B⟩ := cx
      simp only at hp e0 s
      subst hp
      have : v' = vq := by
        have := s.kids; rw [hgq] at this
        have := Option.some.inj this
        injection this with _ e2 _
        exact e2.symm
      subst this
      unfold Forest.siblingReferenceCheck at hsr
      simp only [Bool.and_eq_true, bne_iff_ne, ne_eq] at hsr
      have hkrn : kr.value.isNormal = true := by
        have h2 := hsr.2
        unfold Forest.isNormalNode Forest.value? at h2
        rw [← e0, s.getKid] at h2
        simpa using h2
      refine ⟨p', v', A, kr, B, t, s, e0, hkrn, hsr.1, hgc, hqt, hnorm, hndoc, ?_⟩
      cases hvq with
      | inl h => cases v' <;> simp_all [Value.isElement, Value.isText]
      | inr h => cases v' <;> simp_all [Value.isDocument, Value.isText]

theorem occupied_after {f : Forest} {c : Nat} {t : HTree} {q : Nat} {vq : Value} {A : List HTree} {kr : HTree}
    {B : List HTree} (sq : SiteAt f q vq (A ++ kr :: B)) (hgc : f.get? c = some t)
    (hnorm : t.value.isNormal = true) (hkrn : kr.value.isNormal = true) :
    Dest.occupiedBy f c (.after kr.handle) = true ↔ nextOf B kr = some c := by
  simp only [Dest.occupiedBy, sq.ctx, beq_iff_eq]
  constructor
  · intro h
    cases hB : B.head? with
    | none => rw [hB] at h; cases h
    | some kb =>
      rw [hB] at h
      simp only [Option.map_some, Option.some.injEq] at h
      obtain ⟨B2, e⟩ := List.head?_eq_some_iff.1 hB
      subst e
      have skb : SiteAt f q vq ((A ++ [kr]) ++ kb :: B2) := by
        have : (A ++ [kr]) ++ kb :: B2 = A ++ kr :: kb :: B2 := by simp
        rw [this]; exact sq
      have := skb.getKid
      rw [h, hgc] at this
      have := Option.some.inj this
      subst this
      have h1 : t.value.category = .normal := by simpa [Value.isNormal] using hnorm
      have h2 : kr.value.category = .normal := by simpa [Value.isNormal] using hkrn
      simp [nextOf, h1, h2, h]
  · intro h
    obtain ⟨kb, B2, e, ekb, _⟩ := nextOf_eq_some h
    subst e
    simp [ekb]

/-- **insert_after**, when the moved node is not already a child of the reference's parent. -/
theorem insertAfter_spec_far {f : Forest} {ref c : Nat} (inv : f.Inv) (norm : f.Normal)
    (hfar : f.parent? c ≠ f.parent? ref) (hok : (f.insertAfter ref c).2 = .ok) :
    (f.insertAfter ref c).1 = specMove (Keep.resident c) (.after ref) c f := by
  have nd := inv.nodup
  have hsc : f.structureCheck (f.parent? ref) c = true := by
    cases h : f.structureCheck (f.parent? ref) c with
    | true => rfl
    | false => rw [insertAfter_unfold] at hok; simp [h] at hok
  have hsr : f.siblingReferenceCheck ref c = true := by
    cases h : f.siblingReferenceCheck ref c with
    | true => rfl
    | false => rw [insertAfter_unfold] at hok; simp [hsc, h] at hok
  obtain ⟨q, vq, A, kr, B, t, sq, ekr, hkrn, hrc, hgc, hqt, hnorm, hndoc, hvq⟩ := sibling_checks_unpack nd hsc hsr
  subst ekr
  have htc : t.handle = c := (findList?_some f.roots t hgc).1
  have hnext : f.nextSibling kr.handle = nextOf B kr := Forest.nextSibling_of_ctx sq.ctx
  have hparref : f.parent? kr.handle = some q := Forest.parent?_of_ctx sq.ctx
  have hoccIff := occupied_after sq hgc hnorm hkrn
  by_cases hsame : nextOf B kr = some c
  · have hocc := hoccIff.2 hsame
    rw [insertAfter_unfold]
    unfold specMove
    simp [hsc, hsr, hnext, hsame, hocc]
  · have hocc : Dest.occupiedBy f c (.after kr.handle) = false := by
      cases h : Dest.occupiedBy f c (.after kr.handle) with
      | false => rfl
      | true => exact absurd (hoccIff.1 h) hsame
    rw [insertAfter_unfold]
    simp only [hsc, hsr, hnext, Bool.not_true, Bool.false_eq_true, if_false, beq_iff_eq, hsame]
    rcases Forest.root_or_ctx hgc with hroot | ⟨cx, hctx⟩
    · have hno := Forest.ctx_none_of_root nd hroot
      rw [Forest.prevSibling_of_no_ctx hno, Forest.nextSibling_of_no_ctx hno,
        Forest.removeConsolidate_none_left]
      simp only [Bool.false_and, Bool.false_eq_true, if_false]
      exact insertAfterTail_far inv norm (far_root hgc hno sq hqt) sq ⟨id, kidMap_id, by rw [List.map_id]; exact sq⟩
        hgc (Or.inl rfl) hrc hkrn hqt hsame hocc
    · obtain ⟨e0, vo, so⟩ := SiteAt.of_ctx nd hctx
      have hself : cx.self = t := by
        have := Forest.get?_of_ctx nd hctx
        rw [hgc] at this
        exact (Option.some.inj this).symm
      obtain ⟨po, l, k, r⟩ := cx
      simp only at e0 so hself
      subst hself
      subst htc
      have hpo : po ≠ q := by
        intro e
        apply hfar
        rw [Forest.parent?_of_ctx hctx, hparref, e]
      rw [Forest.prevSibling_of_ctx hctx, Forest.nextSibling_of_ctx hctx]
      simp only
      -- the reference is not a sibling of the moved node, so it is not rewritten
      have hnr : ¬ nextOf r k = some kr.handle := by
        intro h
        obtain ⟨kb, r2, er, ekb, _⟩ := nextOf_eq_some h
        subst er
        have skb : SiteAt f po vo ((l ++ [k]) ++ kb :: r2) := by
          have : (l ++ [k]) ++ kb :: r2 = l ++ k :: kb :: r2 := by simp
          rw [this]; exact so
        have h1 := skb.ctx
        rw [ekb, sq.ctx] at h1
        have := Option.some.inj h1
        injection this with ep _ _ _
        exact hpo ep.symm
      have href : (if (f.removeConsolidate (prevOf l k) (nextOf r k)).2 && nextOf r k == some kr.handle
          then (prevOf l k).getD kr.handle else kr.handle) = kr.handle := by
        have : (nextOf r k == some kr.handle) = false := by
          cases h : nextOf r k == some kr.handle with
          | false => rfl
          | true => exact absurd (by simpa using h) hnr
        rw [this]; simp
      rw [href]
      obtain ⟨⟨φ, F⟩, hxs⟩ := far_kid (keep := Keep.resident k.handle) inv norm (Keep.resident_spec k.handle)
        so sq hpo hqt hvq
      exact insertAfterTail_far inv norm F sq hxs hgc (old_stage inv norm so).same_or_not_text hrc hkrn hqt hsame hocc

end XotModel
