/-
  Lemmas/FwsBasic — locating a node of a forest with distinct handles: what `get?`, `ancestors`
  and `ctx?` return at a position `Fws.Occurs f t anc`.
-/
import XotModel.Lemmas.ForestBasic
import XotModel.Model.FwsSpec

namespace XotModel
namespace Fws
open HTree

/-! ### handles -/

theorem mem_handlesList {h : Nat} : ∀ {ks : List HTree}, h ∈ handlesList ks ↔ ∃ k ∈ ks, h ∈ handles k
  | [] => by simp [handlesList]
  | k :: ks => by
    simp only [handlesList, List.mem_append, List.mem_cons, exists_eq_or_imp]
    rw [mem_handlesList (ks := ks)]

theorem handles_eq (t : HTree) : handles t = t.handle :: handlesList t.kids := by
  cases t; simp [handles, HTree.handle, HTree.kids]

theorem handle_mem_handles (t : HTree) : t.handle ∈ handles t := by
  rw [handles_eq]; exact List.mem_cons_self

theorem handles_sublist_of_mem {k : HTree} : ∀ {ks : List HTree}, k ∈ ks → (handles k).Sublist (handlesList ks)
  | [], h => by cases h
  | a :: ks, h => by
    simp only [handlesList]
    rcases List.mem_cons.1 h with rfl | h'
    · exact List.sublist_append_left _ _
    · exact (handles_sublist_of_mem h').trans (List.sublist_append_right _ _)

theorem handles_kid_sublist {p k : HTree} (hk : k ∈ p.kids) : (handles k).Sublist (handles p) := by
  rw [handles_eq p]
  exact (handles_sublist_of_mem hk).trans (List.sublist_cons_self _ _)

theorem nodup_handlesList_cons {k : HTree} {ks : List HTree} (h : (handlesList (k :: ks)).Nodup) :
    (handles k).Nodup ∧ (handlesList ks).Nodup ∧ ∀ a ∈ handles k, a ∉ handlesList ks := by
  simp only [handlesList] at h
  obtain ⟨h1, h2, h3⟩ := List.nodup_append.1 h
  exact ⟨h1, h2, fun a ha hb => h3 a ha a hb rfl⟩

theorem nodup_kids {t : HTree} (h : (handles t).Nodup) :
    t.handle ∉ handlesList t.kids ∧ (handlesList t.kids).Nodup := by
  rw [handles_eq] at h
  exact List.nodup_cons.1 h

theorem nodup_of_mem {k : HTree} {ks : List HTree} (hk : k ∈ ks) (h : (handlesList ks).Nodup) :
    (handles k).Nodup := (handles_sublist_of_mem hk).nodup h

/-! ### support of the three lookups -/

theorem findList?_eq_findSome? (h : Nat) : ∀ ks : List HTree, findList? h ks = ks.findSome? (find? h)
  | [] => rfl
  | k :: ks => by
    simp only [findList?, List.findSome?_cons]
    rw [findList?_eq_findSome? h ks]
    cases find? h k <;> rfl

theorem ancestorsOfList_eq_findSome? (h : Nat) :
    ∀ ks : List HTree, ancestorsOfList h ks = ks.findSome? (ancestorsOf h)
  | [] => rfl
  | k :: ks => by
    simp only [ancestorsOfList, List.findSome?_cons]
    rw [ancestorsOfList_eq_findSome? h ks]
    cases ancestorsOf h k <;> rfl

mutual
  theorem find?_support (h : Nat) : ∀ (t q : HTree), find? h t = some q → h ∈ handles t
    | .node h' v ks, q, hq => by
      simp only [find?] at hq
      simp only [handles]
      by_cases e : h' = h
      · simp [e]
      · simp only [e, if_false] at hq
        exact List.mem_cons_of_mem _ (findList?_support h ks q hq)
  theorem findList?_support (h : Nat) : ∀ (ks : List HTree) (q : HTree), findList? h ks = some q → h ∈ handlesList ks
    | [], q, hq => by simp [findList?] at hq
    | k :: ks, q, hq => by
      simp only [findList?] at hq
      simp only [handlesList, List.mem_append]
      cases hk : find? h k with
      | some t => exact Or.inl (find?_support h k t hk)
      | none =>
        rw [hk] at hq
        exact Or.inr (findList?_support h ks q hq)
end

mutual
  theorem ancestorsOf_support (h : Nat) : ∀ (t : HTree) (l : List Nat), ancestorsOf h t = some l → h ∈ handles t
    | .node h' v ks, l, hl => by
      simp only [ancestorsOf] at hl
      simp only [handles]
      by_cases e : h' = h
      · simp [e]
      · simp only [e, if_false] at hl
        cases hk : ancestorsOfList h ks with
        | some l' => exact List.mem_cons_of_mem _ (ancestorsOfList_support h ks l' hk)
        | none => rw [hk] at hl; cases hl
  theorem ancestorsOfList_support (h : Nat) : ∀ (ks : List HTree) (l : List Nat),
      ancestorsOfList h ks = some l → h ∈ handlesList ks
    | [], l, hl => by simp [ancestorsOfList] at hl
    | k :: ks, l, hl => by
      simp only [ancestorsOfList] at hl
      simp only [handlesList, List.mem_append]
      cases hk : ancestorsOf h k with
      | some t => exact Or.inl (ancestorsOf_support h k t hk)
      | none =>
        rw [hk] at hl
        exact Or.inr (ancestorsOfList_support h ks l hl)
end

mutual
  theorem ctxBelow_support (h : Nat) : ∀ (t : HTree) (c : Ctx), ctxBelow h t = some c → h ∈ handlesList t.kids
    | .node p v ks, c, hc => by
      simp only [ctxBelow] at hc
      exact ctxKids_support h p [] ks c hc
  theorem ctxKids_support (h p : Nat) : ∀ (left ks : List HTree) (c : Ctx),
      ctxKids h p left ks = some c → h ∈ handlesList ks
    | left, [], c, hc => by simp [ctxKids] at hc
    | left, k :: ks, c, hc => by
      simp only [ctxKids] at hc
      simp only [handlesList, List.mem_append]
      by_cases e : k.handle = h
      · exact Or.inl (e ▸ handle_mem_handles k)
      · simp only [e, if_false] at hc
        cases hk : ctxBelow h k with
        | some c' =>
          refine Or.inl ?_
          rw [handles_eq]
          exact List.mem_cons_of_mem _ (ctxBelow_support h k c' hk)
        | none =>
          rw [hk] at hc
          exact Or.inr (ctxKids_support h p (left ++ [k]) ks c hc)
end

theorem ctxBelow_support' (h : Nat) (t : HTree) (c : Ctx) (hc : ctxBelow h t = some c) : h ∈ handles t := by
  rw [handles_eq]; exact List.mem_cons_of_mem _ (ctxBelow_support h t c hc)

/-- In a list with distinct handles, a lookup that can only succeed inside the tree holding
    `h` is decided by that tree. -/
theorem findSome?_descend {α : Type} (g : HTree → Option α) (h : Nat)
    (supp : ∀ t a, g t = some a → h ∈ handles t) :
    ∀ (ks : List HTree) (k : HTree), k ∈ ks → h ∈ handles k → (handlesList ks).Nodup →
      ks.findSome? g = g k
  | [], k, hk, _, _ => by cases hk
  | a :: ks, k, hk, hh, nd => by
    obtain ⟨_, nd2, disj⟩ := nodup_handlesList_cons nd
    rw [List.findSome?_cons]
    rcases List.mem_cons.1 hk with rfl | hk'
    · cases hg : g k with
      | some b => rfl
      | none =>
        simp only
        rw [List.findSome?_eq_none_iff]
        intro x hx
        cases hgx : g x with
        | none => rfl
        | some b =>
          exact absurd (mem_handlesList.2 ⟨x, hx, supp x b hgx⟩) (disj h hh)
    · cases hg : g a with
      | some b =>
        exact absurd (mem_handlesList.2 ⟨k, hk', hh⟩) (disj h (supp a b hg))
      | none => exact findSome?_descend g h supp ks k hk' hh nd2

theorem ctxKids_skip (h p : Nat) : ∀ (l left rest : List HTree), (∀ a ∈ l, h ∉ handles a) →
    ctxKids h p left (l ++ rest) = ctxKids h p (left ++ l) rest
  | [], left, rest, _ => by simp
  | a :: l, left, rest, hl => by
    have ha : h ∉ handles a := hl a List.mem_cons_self
    have e : ¬ a.handle = h := fun e => ha (e ▸ handle_mem_handles a)
    have hb : ctxBelow h a = none := by
      cases hc : ctxBelow h a with
      | none => rfl
      | some c => exact absurd (ctxBelow_support' h a c hc) ha
    simp only [List.cons_append, ctxKids, e, if_false, hb]
    rw [ctxKids_skip h p l (left ++ [a]) rest (fun x hx => hl x (List.mem_cons_of_mem _ hx))]
    simp

/-! ### positions -/

theorem Occurs.sublist {f : Forest} {t : HTree} {anc : List HTree} (o : Occurs f t anc) :
    (handles t).Sublist f.allHandles := by
  induction o with
  | root hr => exact handles_sublist_of_mem hr
  | kid _ hk ih => exact (handles_kid_sublist hk).trans ih

theorem Occurs.nodup {f : Forest} {t : HTree} {anc : List HTree} (o : Occurs f t anc)
    (nd : f.allHandles.Nodup) : (handles t).Nodup := o.sublist.nodup nd

theorem Occurs.parent {f : Forest} {k p : HTree} {anc : List HTree} (o : Occurs f k (p :: anc)) :
    Occurs f p anc ∧ k ∈ p.kids := by
  cases o with
  | kid op hk => exact ⟨op, hk⟩

theorem Occurs.mem_roots {f : Forest} {r : HTree} (o : Occurs f r []) : r ∈ f.roots := by
  cases o with
  | root hr => exact hr

/-- Lookups inside a positioned subtree agree with lookups in the forest. -/
theorem Occurs.find_local {f : Forest} (nd : f.allHandles.Nodup) {t : HTree} {anc : List HTree}
    (o : Occurs f t anc) : ∀ h q, find? h t = some q → f.get? h = some q := by
  induction o with
  | root hr =>
    intro h q hq
    unfold Forest.get?
    rw [findList?_eq_findSome?, findSome?_descend (find? h) h (find?_support h) _ _ hr (find?_support h _ q hq) nd]
    exact hq
  | @kid p k anc op hk ih =>
    intro h q hq
    apply ih
    have hh : h ∈ handles k := find?_support h k q hq
    have ndp := op.nodup nd
    obtain ⟨hne, ndk⟩ := nodup_kids ndp
    cases p with
    | node ph pv ks =>
      simp only [HTree.kids, HTree.handle] at hk hne ndk
      have e : ¬ ph = h := fun e => hne (e ▸ mem_handlesList.2 ⟨k, hk, hh⟩)
      simp only [find?, e, if_false]
      rw [findList?_eq_findSome?, findSome?_descend (find? h) h (find?_support h) _ _ hk hh ndk]
      exact hq

theorem find?_self (t : HTree) : find? t.handle t = some t := by
  cases t; simp [find?, HTree.handle]

theorem Occurs.get? {f : Forest} (nd : f.allHandles.Nodup) {t : HTree} {anc : List HTree}
    (o : Occurs f t anc) : f.get? t.handle = some t := o.find_local nd _ _ (find?_self t)

theorem Occurs.ancestors_local {f : Forest} (nd : f.allHandles.Nodup) {t : HTree} {anc : List HTree}
    (o : Occurs f t anc) : ∀ h l, ancestorsOf h t = some l → f.ancestors h = l ++ anc.map HTree.handle := by
  induction o with
  | root hr =>
    intro h l hl
    unfold Forest.ancestors
    rw [findSome?_descend (ancestorsOf h) h (ancestorsOf_support h) _ _ hr (ancestorsOf_support h _ l hl) nd, hl]
    simp
  | @kid p k anc op hk ih =>
    intro h l hl
    have hh : h ∈ handles k := ancestorsOf_support h k l hl
    have ndp := op.nodup nd
    obtain ⟨hne, ndk⟩ := nodup_kids ndp
    cases p with
    | node ph pv ks =>
      simp only [HTree.kids, HTree.handle] at hk hne ndk
      have e : ¬ ph = h := fun e => hne (e ▸ mem_handlesList.2 ⟨k, hk, hh⟩)
      have : ancestorsOf h (.node ph pv ks) = some (l ++ [ph]) := by
        simp only [ancestorsOf, e, if_false]
        rw [ancestorsOfList_eq_findSome?,
          findSome?_descend (ancestorsOf h) h (ancestorsOf_support h) _ _ hk hh ndk, hl]
      rw [ih h _ this]
      simp [HTree.handle]

theorem ancestorsOf_self (t : HTree) : ancestorsOf t.handle t = some [t.handle] := by
  cases t; simp [ancestorsOf, HTree.handle]

theorem Occurs.ancestors {f : Forest} (nd : f.allHandles.Nodup) {t : HTree} {anc : List HTree}
    (o : Occurs f t anc) : f.ancestors t.handle = t.handle :: anc.map HTree.handle := by
  rw [o.ancestors_local nd _ _ (ancestorsOf_self t)]; rfl

theorem handlesList_append : ∀ (l r : List HTree), handlesList (l ++ r) = handlesList l ++ handlesList r
  | [], r => rfl
  | a :: l, r => by simp [handlesList, handlesList_append l r]

/-- In `l ++ k :: r` with distinct handles, nothing of `k` occurs in `l` or `r`. -/
theorem split_disjoint {l r : List HTree} {k : HTree} (nd : (handlesList (l ++ k :: r)).Nodup) :
    (handles k).Nodup ∧ (∀ a ∈ l, ∀ h ∈ handles k, h ∉ handles a) ∧ (∀ a ∈ r, ∀ h ∈ handles k, h ∉ handles a) := by
  rw [handlesList_append] at nd
  obtain ⟨_, n2, n3⟩ := List.nodup_append.1 nd
  obtain ⟨k1, _, k3⟩ := nodup_handlesList_cons n2
  refine ⟨k1, ?_, ?_⟩
  · intro a ha h hh hin
    exact n3 h (mem_handlesList.2 ⟨a, ha, hin⟩) h (by simp [handlesList, hh]) rfl
  · intro a ha h hh hin
    exact k3 h hh (mem_handlesList.2 ⟨a, ha, hin⟩)

theorem ctxBelow_at_kid {ph : Nat} {pv : Value} {l r : List HTree} {k : HTree}
    (nd : (handlesList (l ++ k :: r)).Nodup) :
    ctxBelow k.handle (.node ph pv (l ++ k :: r)) = some ⟨ph, l, k, r⟩ := by
  obtain ⟨_, dl, _⟩ := split_disjoint nd
  simp only [ctxBelow]
  rw [ctxKids_skip k.handle ph l [] (k :: r) (fun a ha => dl a ha _ (handle_mem_handles k))]
  simp [ctxKids]

theorem ctxBelow_in_kid {ph : Nat} {pv : Value} {l r : List HTree} {k : HTree} {h : Nat} {c : Ctx}
    (nd : (handlesList (l ++ k :: r)).Nodup) (hc : ctxBelow h k = some c) :
    ctxBelow h (.node ph pv (l ++ k :: r)) = some c := by
  obtain ⟨ndk, dl, _⟩ := split_disjoint nd
  have hh : h ∈ handlesList k.kids := ctxBelow_support h k c hc
  have hh' : h ∈ handles k := ctxBelow_support' h k c hc
  have e : ¬ k.handle = h := fun e => (nodup_kids ndk).1 (e ▸ hh)
  simp only [ctxBelow]
  rw [ctxKids_skip h ph l [] (k :: r) (fun a ha => dl a ha _ hh')]
  simp [ctxKids, e, hc]

theorem Occurs.ctx_local {f : Forest} (nd : f.allHandles.Nodup) {t : HTree} {anc : List HTree}
    (o : Occurs f t anc) : ∀ h c, ctxBelow h t = some c → f.ctx? h = some c := by
  induction o with
  | root hr =>
    intro h c hc
    unfold Forest.ctx?
    rw [findSome?_descend (ctxBelow h) h (ctxBelow_support' h) _ _ hr (ctxBelow_support' h _ c hc) nd, hc]
  | @kid p k anc op hk ih =>
    intro h c hc
    apply ih
    obtain ⟨_, ndk⟩ := nodup_kids (op.nodup nd)
    obtain ⟨l, r, hsplit⟩ := List.append_of_mem hk
    cases p with
    | node ph pv ks =>
      simp only [HTree.kids] at ndk hsplit
      subst hsplit
      exact ctxBelow_in_kid ndk hc

/-- The context of a non-root position. -/
theorem Occurs.ctx {f : Forest} (nd : f.allHandles.Nodup) {k p : HTree} {anc l r : List HTree}
    (o : Occurs f k (p :: anc)) (hs : p.kids = l ++ k :: r) :
    f.ctx? k.handle = some ⟨p.handle, l, k, r⟩ := by
  obtain ⟨op, _⟩ := o.parent
  obtain ⟨_, ndk⟩ := nodup_kids (op.nodup nd)
  apply op.ctx_local nd
  cases p with
  | node ph pv ks =>
    simp only [HTree.kids] at ndk hs
    subst hs
    exact ctxBelow_at_kid ndk

/-- A root has no context. -/
theorem Occurs.ctx_root {f : Forest} (nd : f.allHandles.Nodup) {r : HTree} (o : Occurs f r []) :
    f.ctx? r.handle = none := by
  unfold Forest.ctx?
  rw [List.findSome?_eq_none_iff]
  intro x hx
  cases hc : ctxBelow r.handle x with
  | none => rfl
  | some c =>
    exfalso
    have h1 : r.handle ∈ handlesList x.kids := ctxBelow_support _ _ _ hc
    have hr := o.mem_roots
    -- `r.handle` occurs as the root handle of `r` and strictly below `x`
    obtain ⟨l, rr, hsplit⟩ := List.append_of_mem hr
    unfold Forest.allHandles at nd
    rw [hsplit] at nd hx
    obtain ⟨ndr, dl, dr⟩ := split_disjoint nd
    rcases List.mem_append.1 hx with hx | hx
    · exact dl x hx _ (handle_mem_handles r) (by rw [handles_eq]; exact List.mem_cons_of_mem _ h1)
    · rcases List.mem_cons.1 hx with rfl | hx
      · exact (nodup_kids ndr).1 h1
      · exact dr x hx _ (handle_mem_handles r) (by rw [handles_eq]; exact List.mem_cons_of_mem _ h1)

/-! ### every live node has a position -/

mutual
  theorem occurs_of_find {f : Forest} (h : Nat) (q : HTree) : ∀ (t : HTree) (anc : List HTree),
      Occurs f t anc → find? h t = some q → ∃ anc', Occurs f q anc'
    | .node h' v ks, anc, o, hq => by
      simp only [find?] at hq
      by_cases e : h' = h
      · simp only [e, if_true, Option.some.injEq] at hq
        subst hq
        exact ⟨anc, e ▸ o⟩
      · simp only [e, if_false] at hq
        exact occurs_of_findList h q ks (.node h' v ks) anc o (fun k hk => hk) hq
  theorem occurs_of_findList {f : Forest} (h : Nat) (q : HTree) : ∀ (ks : List HTree) (p : HTree) (anc : List HTree),
      Occurs f p anc → (∀ k ∈ ks, k ∈ p.kids) → findList? h ks = some q → ∃ anc', Occurs f q anc'
    | [], _, _, _, _, hq => by simp [findList?] at hq
    | k :: ks, p, anc, o, hsub, hq => by
      simp only [findList?] at hq
      cases hk : find? h k with
      | some t =>
        rw [hk] at hq
        simp only [Option.some.injEq] at hq
        subst hq
        exact occurs_of_find h t k (p :: anc) (.kid o (hsub k List.mem_cons_self)) hk
      | none =>
        rw [hk] at hq
        exact occurs_of_findList h q ks p anc o (fun k' hk' => hsub k' (List.mem_cons_of_mem _ hk')) hq
end

theorem occurs_of_findRoots {f : Forest} (h : Nat) (q : HTree) : ∀ (rs : List HTree),
    (∀ r ∈ rs, r ∈ f.roots) → findList? h rs = some q → ∃ anc', Occurs f q anc'
  | [], _, hq => by simp [findList?] at hq
  | r :: rs, hsub, hq => by
    simp only [findList?] at hq
    cases hk : find? h r with
    | some t =>
      rw [hk] at hq
      simp only [Option.some.injEq] at hq
      subst hq
      exact occurs_of_find h t r [] (.root (hsub r List.mem_cons_self)) hk
    | none =>
      rw [hk] at hq
      exact occurs_of_findRoots h q rs (fun k' hk' => hsub k' (List.mem_cons_of_mem _ hk')) hq

/-- Every live handle sits at a position. -/
theorem occurs_of_get? {f : Forest} {h : Nat} {t : HTree} (ht : f.get? h = some t) :
    ∃ anc, Occurs f t anc := occurs_of_findRoots h t f.roots (fun _ hr => hr) ht

mutual
  theorem handle_of_find (h : Nat) : ∀ (t q : HTree), find? h t = some q → q.handle = h
    | .node h' v ks, q, hq => by
      simp only [find?] at hq
      by_cases e : h' = h
      · simp only [e, if_true, Option.some.injEq] at hq
        subst hq; rfl
      · simp only [e, if_false] at hq
        exact handle_of_findList h ks q hq
  theorem handle_of_findList (h : Nat) : ∀ (ks : List HTree) (q : HTree), findList? h ks = some q → q.handle = h
    | [], q, hq => by simp [findList?] at hq
    | k :: ks, q, hq => by
      simp only [findList?] at hq
      cases hk : find? h k with
      | some t =>
        rw [hk] at hq
        simp only [Option.some.injEq] at hq
        subst hq
        exact handle_of_find h k t hk
      | none =>
        rw [hk] at hq
        exact handle_of_findList h ks q hq
end

theorem handle_of_get? {f : Forest} {h : Nat} {t : HTree} (ht : f.get? h = some t) : t.handle = h :=
  handle_of_findList h f.roots t ht

/-! ### validity at a position -/

theorem validTree_of_mem {b : Bool} {k : HTree} : ∀ {ks : List HTree}, validList b ks = true → k ∈ ks → validTree b k = true
  | [], _, hk => by cases hk
  | a :: ks, hv, hk => by
    simp only [validList, Bool.and_eq_true] at hv
    rcases List.mem_cons.1 hk with rfl | hk'
    · exact hv.1
    · exact validTree_of_mem hv.2 hk'

theorem validList_kids {b : Bool} {t : HTree} (hv : validTree b t = true) : validList b t.kids = true := by
  cases t with
  | node h v ks =>
    simp only [validTree, Bool.and_eq_true] at hv
    exact hv.2

theorem Occurs.valid {f : Forest} {b : Bool} (hv : validList b f.roots = true) {t : HTree} {anc : List HTree}
    (o : Occurs f t anc) : validTree b t = true := by
  induction o with
  | root hr => exact validTree_of_mem hv hr
  | kid _ hk ih => exact validTree_of_mem (validList_kids ih) hk

end Fws
end XotModel
