/-
  C14_options with an XML declaration: `serialize_xml_string` with a declaration (any encoding that is an
  `EncName`, any standalone), no doctype (xot refuses to parse one), no indentation, any token parameters:
  the output parses back to the original tree (`parse`); `parse_fragment` rejects it at position 0.
-/
import XotModel.Lemmas.SerOptMain
import XotModel.Lemmas.LexDecl
import XotModel.Lemmas.XmlDeclRest
import XotModel.Lemmas.Prolog

namespace XotModel
open XotModel.Lex.Canon

/-- Every `EncName` consists of characters `parse_encoding_decl` accepts. -/
theorem isEncName_encChar {e : Str} (h : Prolog.isEncName e = true) : e.all encChar = true := by
  have key : ∀ c, (Prolog.isAsciiLetter c || Prolog.isAsciiDigit c || c == '.' || c == '_' || c == '-') = true →
      encChar c = true := by
    intro c hc
    simp only [Bool.or_eq_true, beq_iff_eq] at hc
    rcases hc with (((h | h) | h) | h) | h
    · have : Lex.isXmlLetter c = true := by
        simp only [Prolog.isAsciiLetter, Prolog.inRange, Bool.or_eq_true, Bool.and_eq_true,
          decide_eq_true_eq] at h
        simp only [Lex.isXmlLetter, Bool.or_eq_true, Bool.and_eq_true, decide_eq_true_eq]
        omega
      simp [encChar, this]
    · have : Lex.isXmlDigit c = true := by
        simp only [Prolog.isAsciiDigit, Prolog.inRange, Bool.and_eq_true, decide_eq_true_eq] at h
        simp only [Lex.isXmlDigit, Bool.and_eq_true, decide_eq_true_eq]
        omega
      simp [encChar, this]
    · subst h; decide
    · subst h; decide
    · subst h; decide
  cases e with
  | nil => simp [Prolog.isEncName] at h
  | cons c cs =>
    simp only [Prolog.isEncName, Bool.and_eq_true, List.all_eq_true] at h
    simp only [List.all_cons, Bool.and_eq_true, List.all_eq_true]
    exact ⟨key c (by simp [h.1]), fun d hd => key d (h.2 d hd)⟩

variable (env : Env)

/-- Without doctype and indentation the output is the declaration bytes and then the output of
    `serialize_xml_string` with the token parameters alone. -/
theorem xmlString_decl_body (p : XmlParams) (t : Tree) (start : Path) (hdt : p.doctype = none)
    (hind : p.indentation = none) (s : Str) (hs : serializeXmlString env p t start = .ok s) :
    ∃ body, serializeString env p.tokenParams t start = .ok body ∧ s = p.declBytes ++ body := by
  obtain ⟨dt, body, h1, h2, h3⟩ := xmlString_split xmlEscapers env p t start s hs
  simp only [DoctypeWritten, hdt] at h1
  subst h1
  refine ⟨body, ?_, by simpa using h3⟩
  unfold serializeXmlStringWith at h2
  rw [body_write, hind] at h2
  exact h2

/-- A declaration token with version `1.0` changes nothing for the builder. -/
theorem build_declaration_opt (m : Mode) (len : Nat) (v : Nat) (e : Option StrSpan) (sa : Option Bool) (sp : StrSpan)
    (ts : List Token) (lexErr : Option Nat) :
    build m len env (.declaration ⟨['1', '.', '0'], v⟩ e sa sp :: ts) lexErr = build m len env ts lexErr := by
  simp [build, Builder.run, Builder.step]

/-- **C14_options_decl** (`parse`): with or without an XML declaration, any token parameters. -/
theorem options_decl_roundtrip (p : XmlParams) {t : Tree} (hr : Representable env t = true)
    (hdt : p.doctype = none) (hind : p.indentation = none)
    (henc : ∀ d e, p.declaration = some d → d.encoding = some e → Prolog.isEncName e = true)
    {s : Str} (hs : serializeXmlString env p t [] = .ok s) :
    ∃ q, parseString .document env s = .ok q ∧ q.tree = t ∧ q.env = env := by
  obtain ⟨body, hb, rfl⟩ := xmlString_decl_body env p t [] hdt hind s hs
  cases hd : p.declaration with
  | none =>
    simp only [XmlParams.declBytes, hd, List.nil_append]
    exact options_roundtrip env p.tokenParams hr hb
  | some d =>
    simp only [XmlParams.declBytes, hd]
    have hfrag : RepresentableFragment env t = true := by
      simp only [Representable, Bool.and_eq_true] at hr; exact hr.1
    obtain ⟨ts', hser, rfl⟩ := serializeString_ok_representable env p.tokenParams hfrag [] hb
    obtain ⟨v, e, sa, sp, ts, hl, her⟩ := lexDocument_declaration_erase d ts'
      (options_lexOK env p.tokenParams hr hser) (fun e he => isEncName_encChar (henc d e hd he))
    obtain ⟨p0, hb0, ht, he⟩ := options_build env p.tokenParams hr hser (strLen (d.bytes ++ renderTokens ts'))
    obtain ⟨q, hq, h1, h2, _⟩ := build_erase_ok .document _ (strLen (d.bytes ++ renderTokens ts')) env ts' ts
      her.1.symm her.2 p0 hb0
    refine ⟨q, ?_, by rw [h1, ht], by rw [h2, he]⟩
    simp only [parseString, lexMode, hl, build_declaration_opt]
    exact hq

/-- **Fragment start / `parse_fragment`**: a declaration in front makes `parse_fragment` fail, with the
    tokenizer error at position 0, whatever follows (mirrors xmlparser: `<?xml ` inside element content). -/
theorem options_decl_fragment_rejected (d : Declaration) (r : Str) :
    parseString .fragment env (d.bytes ++ r) = .err (.xmlParser 0) env := by
  simp [parseString, lexMode, lexFragment_declaration, build, Builder.run, Builder.new]

end XotModel
