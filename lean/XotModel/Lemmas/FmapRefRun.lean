/-
  Lemmas for C11 with the nodes that carry the entries, part 4: `next` after every update and
  call is the reference's fresh-handle counter (`op_next`, `call_next`); hence a history run on
  the reference state alone (`refRun`) returns what the model returns and ends in the reference
  state of the final forest (`history_ref`).
-/
import XotModel.Lemmas.FmapNext

namespace XotModel
namespace Fmap
open HTree
open Forest (MapKind entryKey mapChildren MapEntry)

theorem nx_appendRef (f : Forest) (k : MapKind) (e e2 key : Nat) :
    (match f.mapGetNode k e2 key with
      | some n => res3 (f.appendEntryNode k e n.handle)
      | none => (f, .ok)).1.next = f.next := by
  cases f.mapGetNode k e2 key with
  | none => rfl
  | some n => exact nx_appendEntryNode f k e n.handle

/-- `next` after an update: the reference's count of the nodes made. -/
theorem op_next {f : Forest} {F : Fam} (hi : f.Inv) (hF : Agree f F) (op : MapOp2)
    (hok : op.ok f = true) : (op.run f).1.next = f.next + op.creates F := by
  cases op with
  | insert k e v =>
    simp only [MapOp2.ok, Bool.and_eq_true] at hok
    show (f.mapInsert k e v).1.next = _
    rw [nx_mapInsert_abs f k e v hok.1, hF]; rfl
  | remove k e key => exact nx_mapRemove f k e key
  | clear k e => exact nx_mapClear f k e
  | getMutSet k e key new => exact nx_mapGetMutSet f k e key new
  | entryOrInsert k e d =>
    simp only [MapOp2.ok, Bool.and_eq_true] at hok
    show (f.entryOrInsert k e d).1.next = _
    rw [entryOrInsert_fst f k e d hok.1, nx_ite_insert f k e d hok.1, hF]; rfl
  | entryOrDefault e name =>
    simp only [MapOp2.ok] at hok
    show (f.entryOrInsert .attributes e (.attribute name [])).1.next = _
    rw [entryOrInsert_fst f .attributes e _ hok, nx_ite_insert f .attributes e _ hok, hF]; rfl
  | entryAndModify k e key g => exact nx_entryAndModify f k e key _
  | entryAndModifyOrInsert k e d g =>
    simp only [MapOp2.ok, Bool.and_eq_true] at hok
    show (f.entryAndModifyOrInsert k e d (liftP k g)).1.next =
      f.next + (if omContainsKey (F e k) (entryKey d) then 0 else 1)
    rw [← hF]
    unfold Forest.entryAndModifyOrInsert
    cases hn : f.mapGetNode k e (entryKey d) with
    | some n =>
      rw [entryAndModify_found f k e _ _ n hok.1 hn, contains_of_getNode hn]
      rfl
    | none =>
      rw [entryAndModify_absent f k e _ _ hok.1 hn, (getNode_none_iff f k e _).mp hn]
      simp only
      rw [vacInsert_fst, nx_mapInsert_abs f k e d hok.1, (getNode_none_iff f k e _).mp hn]
  | entryInsert k e v =>
    simp only [MapOp2.ok, Bool.and_eq_true] at hok
    show (f.entryInsert k e v).1.next = _
    rw [entryInsert_fst f k e v hok.1, nx_mapInsert_abs f k e v hok.1, hF]; rfl
  | occupiedInsert k e v =>
    simp only [MapOp2.ok, Bool.and_eq_true] at hok
    show (f.occupiedInsert k e v).1.next = f.next + 0
    rw [occupiedInsert_fst f k e v hok.1]
    cases hc : omContainsKey (abs k f e) (entryKey v) with
    | true => simp only [if_true]; rw [nx_mapInsert_abs f k e v hok.1, hc]; rfl
    | false => rfl
  | vacantInsert k e v =>
    simp only [MapOp2.ok, Bool.and_eq_true] at hok
    show (f.vacantInsert k e v).1.next = _
    rw [vacantInsert_fst f k e v hok.1, nx_ite_insert f k e v hok.1, hF]; rfl
  | entryRemove k e key => exact nx_entryRemove f k e key
  | setAttribute e name value =>
    simp only [MapOp2.ok] at hok
    show (f.mapInsert .attributes e (.attribute name value)).1.next = _
    rw [nx_mapInsert_abs f .attributes e _ hok, hF]; rfl
  | removeAttribute e name => exact nx_mapRemove f .attributes e name
  | setNamespace e pfx ns =>
    simp only [MapOp2.ok] at hok
    show (f.mapInsert .namespaces e (.namespace pfx ns)).1.next = _
    rw [nx_mapInsert_abs f .namespaces e _ hok, hF]; rfl
  | removeNamespace e pfx => exact nx_mapRemove f .namespaces e pfx
  | appendNewNode k e v => exact nx_appendEntryNode (f.newNode v).1 k e f.next
  | appendDetachedNode k e nd v => exact nx_appendEntryNode f k e nd
  | appendOwnNode k e key => exact nx_appendRef f k e e key
  | appendAttachedNode k e e2 key => exact nx_appendRef f k e e2 key
  | anyAppend e r =>
    cases r with
    | new v =>
      simp only [MapOp2.ok, Bool.and_eq_true] at hok
      cases hk : kindOf? v with
      | none => rw [hk] at hok; simp at hok
      | some k =>
        have hm := kindOf_matches v k hk
        have hi1 := newNode_inv f hi v
        have hgt : (f.newNode v).1.get? f.next = some (.node f.next v []) :=
          findList?_direct _ hi1.nodup (.node f.next v []) (by simp [newNode_eq])
        have hval : (f.newNode v).1.value? f.next = some v := by
          simp [Forest.value?, hgt, HTree.value]
        show ((f.newNode v).1.anyAppend e f.next).1.next = f.next + 1
        rw [anyAppend_entry _ k e f.next v hval hm]
        exact nx_appendEntryNode (f.newNode v).1 k e f.next
    | detached nd v =>
      simp only [MapOp2.ok, Bool.and_eq_true] at hok
      cases hk : kindOf? v with
      | none => rw [hk] at hok; simp at hok
      | some k =>
        rw [hk] at hok
        obtain ⟨_, hm, hval⟩ := isDetachedEntry_root hi k nd v hok.2
        show (f.anyAppend e nd).1.next = f.next + 0
        rw [anyAppend_entry _ k e nd v hval hm]
        exact nx_appendEntryNode f k e nd
    | entry k e2 key =>
      simp only [MapOp2.ok, Bool.and_eq_true] at hok
      rw [run_anyAppend_entry hi k e e2 key hok.2]
      exact nx_appendRef f k e e2 key
  | detachEntryNode k e key =>
    show (match f.mapGetNode k e key with
      | some n => f.detach n.handle
      | none => (f, .ok)).1.next = f.next
    cases f.mapGetNode k e key with
    | none => rfl
    | some n => exact nx_detach f n.handle
  | removeEntryNode k e key =>
    show (match f.mapGetNode k e key with
      | some n => f.remove n.handle
      | none => (f, .ok)).1.next = f.next
    cases f.mapGetNode k e key with
    | none => rfl
    | some n => exact nx_remove f n.handle

theorem peekKeyRun_fst (f : Forest) (k : MapKind) (e key : Nat) : (peekKeyRun f k e key).1 = f := by
  unfold peekKeyRun
  split
  · rfl
  · cases f.mapEntry k e key <;> rfl

theorem occupiedGetRun_fst (f : Forest) (k : MapKind) (e key : Nat) :
    (occupiedGetRun f k e key).1 = f := by
  unfold occupiedGetRun
  split
  · rfl
  · cases f.mapEntry k e key with
    | occupied key' => simp only; cases f.mapGet k e key' <;> rfl
    | vacant key' => rfl

/-- `next` after a call. -/
theorem call_next {f : Forest} {F : Fam} (hi : f.Inv) (hF : Agree f F) (c : MapCall)
    (hok : c.ok f = true) : (c.run f).1.next = f.next + c.creates F := by
  cases c with
  | base op => exact op_next hi hF op hok
  | entryOrInsertWith k e key call =>
    simp only [MapCall.ok, Bool.and_eq_true, beq_iff_eq] at hok
    obtain ⟨⟨he, _⟩, hk⟩ := hok
    show (f.entryOrInsertWith k e key call).1.next =
      f.next + (if omContainsKey (F e k) key then 0 else 1)
    rw [(entryOrInsertWith_eq f k e key call hk).1, entryOrInsert_fst f k e _ he,
      nx_ite_insert f k e _ he, hF, hk]
  | occupiedIntoMutSet k e key new =>
    show (f.occupiedIntoMutSet k e key new).1.next = f.next
    rw [occupiedIntoMutSet_eq]; exact nx_mapGetMutSet f k e key new
  | occupiedGetMutSet k e key new =>
    show (f.occupiedIntoMutSet k e key new).1.next = f.next
    rw [occupiedIntoMutSet_eq]; exact nx_mapGetMutSet f k e key new
  | peekKey k e key =>
    show (peekKeyRun f k e key).1.next = f.next
    rw [peekKeyRun_fst]
  | occupiedGet k e key =>
    show (occupiedGetRun f k e key).1.next = f.next
    rw [occupiedGetRun_fst]
  | get k e key => rfl
  | getNode k e key => rfl
  | containsKey k e key => rfl

/-! ### The history on the reference alone -/

theorem refOf_step {f : Forest} (hi : f.Inv) (c : MapCall) (hok : c.ok f = true) :
    refOf (c.run f).1 = c.refStep (refOf f) ∧ (c.run f).2.2 = c.refRet (refOf f) := by
  have hF : Agree f (famOf f) := fun _ _ => rfl
  obtain ⟨_, hret, s⟩ := call_step hi hF c hok
  refine ⟨?_, ?_⟩
  · unfold refOf MapCall.refStep
    congr 1
    · funext x k; exact s.agree x k
    · funext x k; exact call_nodes hi hF c hok x k
    · exact call_next hi hF c hok
  · rw [hret, nodeView_eq]; rfl

theorem history_ref : ∀ (cs : List MapCall) (f : Forest), f.Inv → (runCalls f cs).2.2 = true →
    (runCalls f cs).2.1.map (·.2) = (refRun (refOf f) cs).1 ∧
    refOf (runCalls f cs).1 = (refRun (refOf f) cs).2
  | [], f => fun _ _ => ⟨rfl, rfl⟩
  | c :: cs, f => by
    intro hi hok
    simp only [runCalls, Bool.and_eq_true] at hok
    obtain ⟨hst, hret⟩ := refOf_step hi c hok.1
    have s := (call_step hi (F := famOf f) (fun _ _ => rfl) c hok.1).2.2
    obtain ⟨h1, h2⟩ := history_ref cs (c.run f).1 s.inv hok.2
    rw [hst] at h1 h2
    refine ⟨?_, h2⟩
    simp only [runCalls, refRun, List.map_cons]
    rw [hret, h1]

end Fmap
end XotModel
