/-
  Lemmas for C20 (extended construction programs), part 6: `replace` preserves the C04 invariant on
  the SPECIFICATION side — `specReplace keep a b f` for arguments that pass xot's checks (`ReplArgs`).
  Distinct handles, no new handle, flags: `Lemmas/FspecReplFrame2.lean`; here: structural validity.
-/
import XotModel.Lemmas.Fprog2Inv1
import XotModel.Lemmas.FspecReplFrame2

namespace XotModel
namespace Prog2
open HTree Spec Prog Fmap ReplFrame

variable {f : Forest} {keep : Keep} {a b q : Nat} {vq : Value} {l : List HTree} {A : HTree} {r : List HTree}
  {t : HTree}

/-- The second half of `specReplace`: in `Y` (the replacing subtree has left) the child `A` of `q` is
    replaced by `t`, and the child list is merged. -/
theorem put_valid {Y : Forest} {l' r' : List HTree} {sxY : Nat → Bool} (inv : f.Inv)
    (ra : ReplArgs f a b q vq l A r t) (st : Stage f keep a b q vq l A r t Y l' r')
    (hvY : validXList sxY Y.roots = true) (hother : ∀ h, h ≠ q → sx0 f h = true → sxY h = true) :
    validXList (sx0 f) (specReplace keep a b f).roots = true := by
  rw [st.spec, ← st.flags.2.1]
  obtain ⟨ndL, _⟩ := st.site.nodupKids
  obtain ⟨tl, _⟩ := tops_ne_of_nodup ndL
  rw [ra.ha] at tl
  have hrep : replaceTop a (fun _ => [t]) (l' ++ A :: r') = l' ++ [t] ++ r' := replaceTop_mid ra.ha tl
  obtain ⟨hlo, hmo⟩ := site_members (sx0 := sx0 f) st.site hvY hother
  apply merge_stage keep st.site hvY hother
  · rw [st.flags.2.1]; exact strict0 inv q
  · rw [hrep]
    apply localOK_replace_mid hlo ra.hAn
    intro x hx
    rw [List.mem_singleton.1 hx]
    exact ⟨kidAllowed_of ra.hvq ra.htn ra.htd, ra.htn⟩
  · rw [hrep]
    apply validXList_replace_mid hmo
    rw [validXList_cons, Bool.and_eq_true]
    exact ⟨validX_findList f.roots t (valid0 inv) ra.hgb, rfl⟩

theorem specReplace_valid (inv : f.Inv) (ra : ReplArgs f a b q vq l A r t) :
    validXList (sx0 f) (specReplace keep a b f).roots = true := by
  have hv0 := valid0 inv
  cases hpb : f.parent? b with
  | none =>
    exact put_valid inv ra (stage_root (keep := keep) inv ra hpb) (validXList_dropTop b hv0) (fun _ _ h => h)
  | some po =>
    by_cases hne : po = q
    · subst hne
      -- `b` leaves the child list of `po` itself: adjacent text may remain there until the final merge
      let sxY : Nat → Bool := fun h => if h = po then false else sx0 f h
      obtain ⟨hlo, hmo⟩ := site_members (sx0 := sx0 f) ra.sq hv0 (fun _ _ h => h)
      have hvY : validXList sxY (f.editAt (some po) (dropTop b)).roots = true := by
        apply stage ra.sq hv0
        · intro h hh hs
          simp only [sxY, if_neg hh] at hs
          exact hs
        · simp only [sxY, if_true]
          exact localOK_dropTop _ hlo
        · apply validXList_dropTop
          exact validXList_mono _ (fun x _ hs => by
            simp only [sxY] at hs
            split at hs
            · cases hs
            · exact hs) hmo
      exact put_valid inv ra (stage_same (keep := keep) inv ra hpb) hvY (by
        intro h hh hs
        simp only [sxY, if_neg hh]
        exact hs)
    · obtain ⟨φ, st⟩ := stage_far (keep := keep) inv ra hpb hne
      exact put_valid inv ra st (specRemove_valid inv ra.hgb) (fun _ _ h => h)

/-- **`specReplace` preserves the invariant.** -/
theorem specReplace_inv (inv : f.Inv) (ra : ReplArgs f a b q vq l A r t) : (specReplace keep a b f).Inv := by
  obtain ⟨hn, hc, he, hcor⟩ := specReplace_flags keep inv ra
  apply inv_of_valid inv hc he hcor (specReplace_valid inv ra) (specReplace_nodup keep inv ra)
  intro z hz
  rw [hn]
  exact inv.below z (specReplace_handles_sub keep inv ra z hz).1

end Prog2
end XotModel
