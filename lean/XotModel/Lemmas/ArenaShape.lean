/-
  XotModel.Lemmas.ArenaShape — the abstraction of the arena and the pointer invariant.

  `Shape` is the list-level content of an arena, keyed by slot index: `par i` the parent of
  slot `i`, `kids i` its children in order, `free` the free list in order.  `Rep a g` says that
  the arena `a` stores exactly `g`: every pointer of every live slot is the one `g` dictates
  (as the CURRENT id of the slot pointed to), the children lists and the parent function agree,
  there is no parent cycle, the free list is threaded through the removed slots.  `Wf a` is
  `∃ g, Rep a g`.  Pointers kept in removed slots are unconstrained (indextree leaves them
  stale); nothing below reads them.
-/
import XotModel.Lemmas.ArenaBasic

namespace XotModel
namespace Arena

/-- The list-level content of an arena. -/
structure Shape where
  par : Nat → Option Nat
  kids : Nat → List Nat
  free : List Nat

/-- `i` reaches `j` by following parents upwards (reflexive). -/
inductive Reach (par : Nat → Option Nat) : Nat → Nat → Prop where
  | refl (i : Nat) : Reach par i i
  | step {i q j : Nat} : par i = some q → Reach par q j → Reach par i j

theorem Reach.trans {par : Nat → Option Nat} {i j k : Nat} (h1 : Reach par i j) (h2 : Reach par j k) :
    Reach par i k := by
  induction h1 with
  | refl => exact h2
  | step hp _ ih => exact .step hp (ih h2)

theorem Reach.single {par : Nat → Option Nat} {i q : Nat} (h : par i = some q) : Reach par i q :=
  .step h (.refl q)

/-- Slot `i` exists and is not removed. -/
def Live (a : Arena) (i : Nat) : Prop := ∃ s, a.slot i = some s ∧ 0 ≤ s.stamp

theorem idAt_of_slot {a : Arena} {i : Nat} {s : Slot} (h : a.slot i = some s) : a.idAt i = ⟨i + 1, s.stamp⟩ := by
  unfold idAt; unfold slot at h; rw [h]

@[simp] theorem idAt_index0 (a : Arena) (i : Nat) : (a.idAt i).index0 = i := by
  simp [idAt, NodeId.index0]

/-- The free list `fl` is threaded through the removed slots of `a`. -/
structure FreeOk (a : Arena) (fl : List Nat) : Prop where
  nodup : fl.Nodup
  mem : ∀ i, i ∈ fl ↔ ∃ s, a.slot i = some s ∧ s.stamp < 0
  head : a.firstFree = fl.head?
  last : a.lastFree = fl.getLast?
  link : ∀ k i, fl[k]? = some i → ∃ s, a.slot i = some s ∧ s.data = .nextFree fl[k + 1]?

/-- The pointers of live slot `i` (slot value `s`) are those the shape dictates. -/
structure PtrOk (a : Arena) (g : Shape) (i : Nat) (s : Slot) : Prop where
  parent : s.parent = (g.par i).map a.idAt
  first : s.first = (g.kids i).head?.map a.idAt
  last : s.last = (g.kids i).getLast?.map a.idAt
  root : g.par i = none → s.prev = none ∧ s.next = none
  sib : ∀ p, g.par i = some p → ∃ L R, g.kids p = L ++ i :: R ∧
          s.prev = L.getLast?.map a.idAt ∧ s.next = R.head?.map a.idAt

/-- The arena `a` stores the shape `g`. -/
structure Rep (a : Arena) (g : Shape) : Prop where
  stampRange : ∀ i s, a.slot i = some s → -32767 ≤ s.stamp ∧ s.stamp ≤ 32767
  dataLive : ∀ i s, a.slot i = some s → (0 ≤ s.stamp ↔ ∃ v, s.data = .data v)
  free : FreeOk a g.free
  kidsLive : ∀ p c, c ∈ g.kids p → Live a p ∧ Live a c ∧ g.par c = some p
  parKids : ∀ c p, g.par c = some p → Live a c ∧ c ∈ g.kids p
  kidsNodup : ∀ p, (g.kids p).Nodup
  acyclic : ∀ i q, g.par i = some q → ¬ Reach g.par q i
  ptrs : ∀ i s, a.slot i = some s → 0 ≤ s.stamp → PtrOk a g i s

/-- The pointer invariant. -/
def Wf (a : Arena) : Prop := ∃ g, Rep a g

/-- `id` is the current id of a live slot. -/
def LiveId (a : Arena) (id : NodeId) : Prop := 1 ≤ id.index1 ∧ Live a id.index0 ∧ a.idAt id.index0 = id

theorem LiveId.idAt {a : Arena} {i : Nat} (h : Live a i) : LiveId a (a.idAt i) := by
  refine ⟨by simp [Arena.idAt], by simpa using h, by simp⟩

theorem LiveId.eq {a : Arena} {id : NodeId} (h : LiveId a id) : id = a.idAt id.index0 := h.2.2.symm

/-- The empty shape. -/
def Shape.empty : Shape := { par := fun _ => none, kids := fun _ => [], free := [] }

theorem Rep.empty : Rep {} Shape.empty := by
  refine ⟨?_, ?_, ⟨by simp [Shape.empty], ?_, rfl, rfl, ?_⟩, ?_, ?_, ?_, ?_, ?_⟩
  · intro i s h; simp [slot] at h
  · intro i s h; simp [slot] at h
  · intro i; simp [Shape.empty, slot]
  · intro k i h; simp [Shape.empty] at h
  · intro p c h; simp [Shape.empty] at h
  · intro c p h; simp [Shape.empty] at h
  · intro p; simp [Shape.empty]
  · intro i q h; simp [Shape.empty] at h
  · intro i s h; simp [slot] at h

theorem Wf.empty : Wf {} := ⟨_, Rep.empty⟩

namespace Rep

variable {a : Arena} {g : Shape}

theorem live_of_par (r : Rep a g) {c p : Nat} (h : g.par c = some p) : Live a c ∧ Live a p := by
  obtain ⟨hc, hm⟩ := r.parKids c p h
  exact ⟨hc, (r.kidsLive p c hm).1⟩

theorem par_ne (r : Rep a g) {c p : Nat} (h : g.par c = some p) : p ≠ c := by
  intro e
  subst e
  exact r.acyclic _ _ h (.refl _)

theorem not_live_of_neg {i : Nat} {s : Slot} (hs : a.slot i = some s) (hn : s.stamp < 0) : ¬ Live a i := by
  rintro ⟨s', hs', h0⟩
  rw [hs] at hs'; cases hs'; omega

/-- A live slot has no parent and no children outside the live slots; a dead one has none. -/
theorem par_none_of_not_live (r : Rep a g) {i : Nat} (h : ¬ Live a i) : g.par i = none := by
  cases hp : g.par i with
  | none => rfl
  | some p => exact absurd (r.live_of_par hp).1 h

theorem kids_nil_of_not_live (r : Rep a g) {i : Nat} (h : ¬ Live a i) : g.kids i = [] := by
  cases hk : g.kids i with
  | nil => rfl
  | cons c cs => exact absurd (r.kidsLive i c (by simp [hk])).1 h

theorem not_mem_kids_of_not_live (r : Rep a g) {i p : Nat} (h : ¬ Live a i) : i ∉ g.kids p :=
  fun hm => h (r.kidsLive p i hm).2.1

/-- Every pointer stored in a live slot is in range. -/
theorem inRange_map (o : Option Nat) (h : ∀ j, o = some j → Live a j) : InRange a (o.map a.idAt) := by
  intro id hid
  cases o with
  | none => simp at hid
  | some j =>
    simp only [Option.map_some, Option.some.injEq] at hid
    subst hid
    obtain ⟨s, hs, _⟩ := h j rfl
    exact ⟨s, by simpa using hs⟩

end Rep

end Arena
end XotModel
