/-
  Lemmas for C12, part 3: the forest in the middle of `clone_node` — the old roots `R`, the work
  tree `fcPlug fs (node c vc K)` (focus = `current`), and the node just created `node n v []` —
  and what the queries and indextree primitives used by `any_append(current, new)` give on it.
-/
import XotModel.Lemmas.FcloneZipper

namespace XotModel
open HTree

/-- Same store, other roots. -/
def Forest.withRoots (g : Forest) (rs : List HTree) : Forest := { g with roots := rs }

@[simp] theorem Forest.withRoots_roots (g : Forest) (rs : List HTree) : (g.withRoots rs).roots = rs := rfl
@[simp] theorem Forest.withRoots_next (g : Forest) (rs : List HTree) : (g.withRoots rs).next = g.next := rfl
@[simp] theorem Forest.withRoots_consolidation (g : Forest) (rs : List HTree) :
    (g.withRoots rs).consolidation = g.consolidation := rfl
@[simp] theorem Forest.withRoots_everOff (g : Forest) (rs : List HTree) : (g.withRoots rs).everOff = g.everOff := rfl
@[simp] theorem Forest.withRoots_corrupt (g : Forest) (rs : List HTree) : (g.withRoots rs).corrupt = g.corrupt := rfl
@[simp] theorem Forest.withRoots_withRoots (g : Forest) (a b : List HTree) :
    (g.withRoots a).withRoots b = g.withRoots b := rfl
theorem Forest.withRoots_self (g : Forest) : g.withRoots g.roots = g := rfl

/-- The state just after `new_node(value.clone())` inside the edge replay. -/
structure Work (g : Forest) (R : List HTree) (fs : List CFrame) (c : Nat) (vc : Value)
    (K : List HTree) (n : Nat) (v : Value) : Prop where
  roots : g.roots = R ++ [fcPlug fs (.node c vc K), .node n v []]
  nodup : (handlesList R ++ (frameHandles fs ++ c :: handlesList K)).Nodup
  fresh : n ∉ handlesList R ++ (frameHandles fs ++ c :: handlesList K)

namespace Work

variable {g : Forest} {R : List HTree} {fs : List CFrame} {c : Nat} {vc : Value} {K : List HTree}
  {n : Nat} {v : Value}

theorem cR (w : Work g R fs c vc K n v) : c ∉ handlesList R := by
  intro h
  have := (List.nodup_append.mp w.nodup).2.2 c h c (by simp)
  exact this rfl

theorem cF (w : Work g R fs c vc K n v) : c ∉ frameHandles fs := by
  intro h
  have h2 := (List.nodup_append.mp w.nodup).2.1
  have := (List.nodup_append.mp h2).2.2 c h c (by simp)
  exact this rfl

theorem cK (w : Work g R fs c vc K n v) : c ∉ handlesList K := by
  have h2 := (List.nodup_append.mp w.nodup).2.1
  have h3 := (List.nodup_append.mp h2).2.1
  exact (List.nodup_cons.mp h3).1

theorem nR (w : Work g R fs c vc K n v) : n ∉ handlesList R := fun h => w.fresh (by simp [h])
theorem nF (w : Work g R fs c vc K n v) : n ∉ frameHandles fs := fun h => w.fresh (by simp [h])
theorem nK (w : Work g R fs c vc K n v) : n ∉ handlesList K := fun h => w.fresh (by simp [h])
theorem nc (w : Work g R fs c vc K n v) : n ≠ c := fun h => w.fresh (by simp [h])

theorem nW (w : Work g R fs c vc K n v) : n ∉ handles (fcPlug fs (.node c vc K)) := by
  rw [handles_plug]
  simp only [handles, List.mem_append, List.mem_cons, not_or]
  exact ⟨w.nF, w.nc, w.nK⟩

/-- Handles of `K` are not handles of `R`, of the frames, nor `c`. -/
theorem kR (w : Work g R fs c vc K n v) {x : Nat} (hx : x ∈ handlesList K) : x ∉ handlesList R := by
  intro h
  exact (List.nodup_append.mp w.nodup).2.2 x h x (by simp [hx]) rfl

theorem kF (w : Work g R fs c vc K n v) {x : Nat} (hx : x ∈ handlesList K) : x ∉ frameHandles fs := by
  intro h
  have h2 := (List.nodup_append.mp w.nodup).2.1
  exact (List.nodup_append.mp h2).2.2 x h x (by simp [hx]) rfl

theorem kc (w : Work g R fs c vc K n v) {x : Nat} (hx : x ∈ handlesList K) : x ≠ c :=
  fun e => w.cK (e ▸ hx)

theorem kn (w : Work g R fs c vc K n v) {x : Nat} (hx : x ∈ handlesList K) : x ≠ n :=
  fun e => w.nK (e ▸ hx)

theorem nodupK (w : Work g R fs c vc K n v) : (handlesList K).Nodup := by
  have h2 := (List.nodup_append.mp w.nodup).2.1
  have h3 := (List.nodup_append.mp h2).2.1
  exact (List.nodup_cons.mp h3).2

/-! #### queries -/

theorem get?_c (w : Work g R fs c vc K n v) : g.get? c = some (.node c vc K) := by
  unfold Forest.get?
  rw [w.roots, findList?_append_of_not_mem c _ _ w.cR]
  simp only [findList?]
  rw [find?_plug c fs _ w.cF, fc_find?_self]

theorem get?_n (w : Work g R fs c vc K n v) : g.get? n = some (.node n v []) := by
  unfold Forest.get?
  rw [w.roots, findList?_append_of_not_mem n _ _ w.nR, findList?_cons_of_not_mem n _ _ w.nW,
    fc_findList?_cons_self]

theorem value?_c (w : Work g R fs c vc K n v) : g.value? c = some vc := by
  simp [Forest.value?, w.get?_c, HTree.value]

theorem value?_n (w : Work g R fs c vc K n v) : g.value? n = some v := by
  simp [Forest.value?, w.get?_n, HTree.value]

theorem isElement_c (w : Work g R fs c vc K n v) : g.isElement c = vc.isElement := by
  simp [Forest.isElement, w.value?_c]

theorem isDocument_c (w : Work g R fs c vc K n v) : g.isDocument c = vc.isDocument := by
  simp [Forest.isDocument, w.value?_c]

theorem ctx?_n (w : Work g R fs c vc K n v) : g.ctx? n = none := by
  unfold Forest.ctx?
  rw [w.roots, List.findSome?_append, fc_findSome?_ctxBelow_none n R w.nR]
  simp [List.findSome?_cons, ctxBelow_none_of_not_mem n _ w.nW, ctxBelow, ctxKids]

theorem prevSibling_n (w : Work g R fs c vc K n v) : g.prevSibling n = none := by
  simp [Forest.prevSibling, w.ctx?_n]

theorem nextSibling_n (w : Work g R fs c vc K n v) : g.nextSibling n = none := by
  simp [Forest.nextSibling, w.ctx?_n]

theorem ancestors_c (w : Work g R fs c vc K n v) : g.ancestors c = c :: (fs.map (·.h)).reverse := by
  unfold Forest.ancestors
  rw [w.roots, List.findSome?_append, findSome?_ancestorsOf_none c R w.cR]
  have := ancestorsOf_plug fs (.node c vc K) (by simpa [HTree.handle] using w.cF)
  simp only [HTree.handle] at this
  simp [List.findSome?_cons, this]

theorem not_anc (w : Work g R fs c vc K n v) : (g.ancestors c).contains n = false := by
  rw [w.ancestors_c]
  simp only [List.contains_eq_mem, List.mem_cons, List.mem_reverse, List.mem_map, decide_eq_false_iff_not,
    not_or]
  refine ⟨w.nc, ?_⟩
  rintro ⟨fr, hfr, e⟩
  apply w.nF
  rw [← e]
  clear w
  induction fs with
  | nil => cases hfr
  | cons a fs ih =>
    simp only [frameHandles, List.mem_cons, List.mem_append]
    cases hfr with
    | head => exact Or.inl rfl
    | tail _ h2 => exact Or.inr (Or.inr (ih h2))

theorem isRoot_n (w : Work g R fs c vc K n v) : g.isRoot n = true := by
  unfold Forest.isRoot
  rw [w.roots]
  simp [HTree.handle]

theorem lastChild_nil (w : Work g R fs c vc [] n v) : g.lastChild c = none := by
  simp [Forest.lastChild, w.get?_c, HTree.kids]

theorem lastChild_snoc {K' : List HTree} {x : HTree} (w : Work g R fs c vc (K' ++ [x]) n v) :
    g.lastChild c = if x.value.isNormal then some x.handle else none := by
  simp [Forest.lastChild, w.get?_c, HTree.kids]

theorem rootW_ne_n (w : Work g R fs c vc K n v) : (fcPlug fs (.node c vc K)).handle ≠ n := by
  intro e
  exact w.nW (e ▸ fc_handle_mem_handles _)

theorem cut_n (w : Work g R fs c vc K n v) :
    g.cut n = (g.withRoots (R ++ [fcPlug fs (.node c vc K)]), some (.node n v [])) := by
  unfold Forest.cut
  rw [w.get?_n]
  simp only [w.isRoot_n, if_true]
  rw [w.roots, List.filter_append, filter_handle_ne_of_not_mem n R w.nR]
  have h1 := w.rootW_ne_n
  have h2 : (HTree.node n v []).handle = n := rfl
  simp [List.filter_cons, h1, h2, Forest.withRoots]

end Work

/-! #### placing the new node -/

theorem placeLast_work (g : Forest) (R : List HTree) (fs : List CFrame) (c : Nat) (vc : Value)
    (K : List HTree) (t : HTree) (cR : c ∉ handlesList R) (cF : c ∉ frameHandles fs) :
    (g.withRoots (R ++ [fcPlug fs (.node c vc K)])).placeLast c t =
      g.withRoots (R ++ [fcPlug fs (.node c vc (K ++ [t]))]) := by
  unfold Forest.placeLast
  simp only [Forest.withRoots_roots, List.map_append, List.map_cons, List.map_nil]
  rw [map_mapAt_of_not_mem c _ R cR, mapAt_plug c _ fs _ cF, mapAt_self]
  rfl

theorem placeFirst_work (g : Forest) (R : List HTree) (fs : List CFrame) (c : Nat) (vc : Value)
    (K : List HTree) (t : HTree) (cR : c ∉ handlesList R) (cF : c ∉ frameHandles fs) :
    (g.withRoots (R ++ [fcPlug fs (.node c vc K)])).placeFirst c t =
      g.withRoots (R ++ [fcPlug fs (.node c vc (t :: K))]) := by
  unfold Forest.placeFirst
  simp only [Forest.withRoots_roots, List.map_append, List.map_cons, List.map_nil]
  rw [map_mapAt_of_not_mem c _ R cR, mapAt_plug c _ fs _ cF, mapAt_self]
  rfl

/-- Placing after the last child `x` of the focus. -/
theorem placeAfter_work (g : Forest) (R : List HTree) (fs : List CFrame) (c : Nat) (vc : Value)
    (K' : List HTree) (x t : HTree) (rR : x.handle ∉ handlesList R) (rF : x.handle ∉ frameHandles fs)
    (rc : x.handle ≠ c) (rK : x.handle ∉ handlesList K') :
    (g.withRoots (R ++ [fcPlug fs (.node c vc (K' ++ [x]))])).placeAfter x.handle t =
      g.withRoots (R ++ [fcPlug fs (.node c vc (K' ++ [x, t]))]) := by
  unfold Forest.placeAfter
  simp only [Forest.withRoots_roots, List.map_append, List.map_cons, List.map_nil]
  rw [map_replaceBelow_of_not_mem _ _ R rR, replaceBelow_plug _ _ fs c vc _ rF rc,
    replaceKids_last _ _ K' x rfl rK]
  rfl

end XotModel
