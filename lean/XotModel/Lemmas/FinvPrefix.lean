/-
  Finv (C04), part 38: `create_missing_prefixes` and `deduplicate_namespaces` preserve the
  invariant: they are sequences of `namespaces_mut(..).insert` / `remove` calls (Model/FatomSpec2;
  `deduplicate_namespaces` one such sequence per pass),
  each of which does (`call_inv`: every constructor of `Forest.Call`).
-/
import XotModel.Lemmas.FinvReach2
import XotModel.Model.FatomSpec2

namespace XotModel
open HTree

namespace Forest

/-- The one side condition of C04 on calls as data: a map insertion carries an entry of the map's
    kind (the Rust API builds the entry from key and value, so it always does). -/
def Call.wellKinded : Call → Prop
  | .mapInsert k _ e => k.matches e = true
  | _ => True

/-- Every call of `Forest.Call` preserves the invariant, whatever its arguments and outcome. -/
theorem call_inv {f : Forest} (hi : f.Inv) (c : Call) (hw : c.wellKinded) : (c.run f).1.Inv := by
  cases c with
  | append p c => exact step_inv hi (.append p c) rfl
  | prepend p c => exact step_inv hi (.prepend p c) rfl
  | insertAfter a b => exact step_inv hi (.insertAfter a b) rfl
  | insertBefore a b => exact step_inv hi (.insertBefore a b) rfl
  | detach n => exact step_inv hi (.detach n) rfl
  | remove n => exact step_inv hi (.remove n) rfl
  | replace a b => exact step_inv hi (.replace a b) rfl
  | elementWrap n name => exact step_inv hi (.elementWrap n name) rfl
  | elementUnwrap n => exact step_inv hi (.elementUnwrap n) rfl
  | cloneNode n => exact step_inv hi (.cloneNode n) rfl
  | anyAppend p c => exact step_inv hi (.anyAppend p c) rfl
  | appendEntryNode k p c =>
    cases k with
    | attributes => exact step_inv hi (.appendAttributeNode p c) rfl
    | namespaces => exact step_inv hi (.appendNamespaceNode p c) rfl
  | mapInsert k p e => exact mapInsert_inv hi k p e hw
  | mapRemove k p key => exact mapRemove_inv hi k p key
  | mapClear k p => exact mapClear_inv hi k p
  | setElementName n name => exact step_inv hi (.setElementName n name) rfl
  | setText n s => exact step_inv hi (.setText n s) rfl
  | setComment n s => exact step_inv hi (.setComment n s) rfl
  | setPiData n d => exact step_inv hi (.setPiData n d) rfl
  | textContentSet n s => exact step_inv hi (.textContentSet n s) rfl

theorem runCalls_inv : ∀ (cs : List Call) {f : Forest}, f.Inv → (∀ c ∈ cs, c.wellKinded) →
    (f.runCalls cs).1.Inv
  | [], _, hi, _ => hi
  | c :: cs, f, hi, hw => by
    have h1 := call_inv hi c (hw c (by simp))
    unfold runCalls
    rcases hc : c.run f with ⟨f', r⟩
    rw [hc] at h1
    cases r with
    | ok => exact runCalls_inv cs h1 (fun c' h' => hw c' (by simp [h']))
    | err e => exact h1
    | panic => exact h1

theorem repairCalls_wellKinded {env env' : Env} {f : Forest} {node : Nat} {cs : List Call}
    (h : f.repairCalls env node = some (env', cs)) : ∀ c ∈ cs, c.wellKinded := by
  unfold repairCalls at h
  split at h
  · cases h
  · split at h
    · cases h
    · dsimp only at h
      split at h
      · cases h
      · split at h
        · cases h
        · split at h
          · cases h
          · simp only [Option.some.injEq, Prod.mk.injEq] at h
            obtain ⟨_, rfl⟩ := h
            intro c hc
            rcases List.mem_append.mp hc with h1 | h1
            · obtain ⟨d, _, rfl⟩ := List.mem_map.mp h1
              rfl
            · obtain ⟨up, _, h2⟩ := List.mem_filterMap.mp h1
              simp only [Option.map_eq_some_iff] at h2
              obtain ⟨hh, _, rfl⟩ := h2
              rfl

theorem repairElementF_inv {f : Forest} (hi : f.Inv) (env : Env) (node : Nat) :
    (f.repairElementF env node).1.Inv := by
  unfold repairElementF
  cases h : f.repairCalls env node with
  | none => exact hi
  | some r =>
    obtain ⟨env', cs⟩ := r
    exact runCalls_inv cs hi (repairCalls_wellKinded h)

theorem repairElementsF_inv : ∀ (es : List Nat) (env : Env) {f : Forest}, f.Inv →
    (repairElementsF es env f).1.Inv
  | [], _, _, hi => hi
  | e :: rest, env, f, hi => by
    have h1 := repairElementF_inv hi env e
    unfold repairElementsF
    rcases hr : f.repairElementF env e with ⟨f', env', r⟩
    rw [hr] at h1
    cases r with
    | ok => exact repairElementsF_inv rest env' h1
    | err x => exact h1
    | panic => exact h1

theorem createMissingPrefixes_inv {f : Forest} (hi : f.Inv) (env : Env) (node : Nat) :
    (f.createMissingPrefixes env node).1.Inv := by
  unfold createMissingPrefixes
  split
  · dsimp only
    split
    · split
      · exact hi
      · exact repairElementsF_inv _ env hi
    · exact hi
  · split
    · exact hi
    · exact repairElementF_inv hi env node

theorem dedupCalls_wellKinded (env : Env) (f : Forest) (node : Nat) :
    ∀ c ∈ f.dedupCalls env node, c.wellKinded := by
  intro c hc
  unfold dedupCalls at hc
  split at hc
  · cases hc
  · split at hc
    · cases hc
    · dsimp only at hc
      split at hc
      · cases hc
      · obtain ⟨fp, _, h2⟩ := List.mem_flatMap.mp hc
        split at h2
        · simp only [List.mem_singleton] at h2
          subst h2
          trivial
        · cases h2

/-- Every pass keeps the invariant, so does the loop, whatever the fuel and however it ends. -/
theorem dedupLoop_inv (env : Env) (node : Nat) : ∀ (fuel : Nat) {f : Forest}, f.Inv →
    (dedupLoop env node fuel f).1.Inv
  | 0, _, hi => hi
  | fuel + 1, f, hi => by
    unfold dedupLoop
    dsimp only
    split
    · exact hi
    · have h1 := runCalls_inv (f.dedupCalls env node) hi (dedupCalls_wellKinded env f node)
      rcases hr : f.runCalls (f.dedupCalls env node) with ⟨f', r⟩
      rw [hr] at h1
      cases r with
      | ok => exact dedupLoop_inv env node fuel h1
      | err x => exact h1
      | panic => exact h1

theorem deduplicateNamespaces_inv {f : Forest} (hi : f.Inv) (env : Env) (node : Nat) :
    (f.deduplicateNamespaces env node).1.Inv :=
  dedupLoop_inv env node _ hi

end Forest
end XotModel
