/-
  Lemmas for the name types (Model/XmlName.lean): splitting a written name at its first colon, finding
  an interned value again, and that the harness's element-rule lookup resolves the prefix `name_ref`
  reports.
-/
import XotModel.Model.XmlName
import XotModel.Lemmas.ScopeName

namespace XotModel

/-- A written name without a colon has the empty prefix. -/
theorem splitFullName_nocolon (l : Str) (h : ':' ∉ l) : splitFullName l = ([], l) := by
  unfold splitFullName
  have hall : ∀ c ∈ l, (c != ':') = true := by
    intro c hc
    have : c ≠ ':' := fun e => h (e ▸ hc)
    simpa using this
  have : l.dropWhile (· != ':') = [] := by
    have h2 := List.dropWhile_append_of_pos (l₂ := ([] : Str)) hall
    simpa using h2
  rw [this]

/-- `prefix:local` splits at the colon when the prefix has none. -/
theorem splitFullName_prefixed (p l : Str) (h : ':' ∉ p) : splitFullName (p ++ [':'] ++ l) = (p, l) := by
  unfold splitFullName
  have hall : ∀ c ∈ p, (c != ':') = true := by
    intro c hc
    have : c ≠ ':' := fun e => h (e ▸ hc)
    simpa using this
  have hd : (p ++ [':'] ++ l).dropWhile (· != ':') = ':' :: l := by
    rw [List.append_assoc, List.dropWhile_append_of_pos hall]
    simp
  have ht : (p ++ [':'] ++ l).takeWhile (· != ':') = p := by
    rw [List.append_assoc, List.takeWhile_append_of_pos hall]
    simp
  rw [hd, ht]

/-- `OwnedName::full_name` of `to_owned()` is the spelling `full_name` writes. -/
theorem toOwned_fullName (env : Env) (name p : Nat) :
    (RefName.toOwned env ⟨name, p⟩).fullName = qnameSpelling env p name := by
  unfold OwnedName.fullName RefName.toOwned qnameSpelling
  cases (env.prefixStr p).isEmpty <;> simp

/-- In a list without repetition the element at `i` is found at `i`. -/
theorem findIdx?_getElem_of_nodup {α : Type} [BEq α] [LawfulBEq α] :
    ∀ (l : List α) (i : Nat) (h : i < l.length), l.Nodup → l.findIdx? (· == l[i]) = some i := by
  intro l
  induction l with
  | nil => intro i h; simp at h
  | cons a rest ih =>
    intro i h hn
    cases i with
    | zero => simp [List.findIdx?_cons]
    | succ j =>
      have hj : j < rest.length := by simpa using h
      have hne : (a == rest[j]) = false := by
        have : a ≠ rest[j] := fun e => (List.nodup_cons.mp hn).1 (e ▸ List.getElem_mem hj)
        simpa using this
      simp only [List.getElem_cons_succ, List.findIdx?_cons, hne]
      rw [ih j hj (List.nodup_cons.mp hn).2]
      simp

/-- The element-rule lookup on the prefix `name_ref` reports for a name in a real namespace is that
    namespace (soundness of `namespace_prefix`, C09_prefix_sound), provided the prefix string is found
    again under its id. -/
theorem elementLookup_of_nameRef (env : Env) (chain : List Tree) (name p : Nat)
    (hp : nameRefChain env chain name = .ok p) (hns : env.nsOfName name ≠ Env.noNamespace)
    (hfound : env.prefixId? (env.prefixStr p) = some p) :
    elementLookup env chain (env.prefixStr p) = some (env.nsOfName name) := by
  unfold nameRefChain prefixForNameChain at hp
  have hne : (env.nsOfName name == Env.noNamespace) = false := by simpa using hns
  simp only [hne, Bool.false_eq_true, if_false] at hp
  cases hq : namespacePrefixChain chain (env.nsOfName name) (isAttributeNodeChain chain) with
  | none => simp [hq] at hp
  | some q =>
    simp only [hq, Except.ok.injEq] at hp
    subst hp
    have hs := (namespacePrefixChain_sound hq hns).1
    simp only [elementLookup, hfound, namespaceForPrefixChain_eq, hs]

/-- A name in no namespace is reported with the empty prefix. -/
theorem nameRef_noNamespace (env : Env) (chain : List Tree) (name p : Nat)
    (hp : nameRefChain env chain name = .ok p) (hns : env.nsOfName name = Env.noNamespace) :
    p = Env.emptyPrefix := by
  unfold nameRefChain prefixForNameChain at hp
  simp only [hns, beq_self_eq_true, if_true] at hp
  split at hp
  · simp at hp
  · simpa using hp.symm

end XotModel
