/-
  GENERATED COPY (wt-c17str) of the declarations of XotModel.Lemmas.RoundTripIds that depend on `valueOK`, restated in the
  namespace `XotModel.PiColon`, where `valueOK` asks of a PI target what the tokenizer's `consume_name` accepts
  (`nameOK`: colons allowed) instead of an NCName (Lemmas/PiColonDefs.lean).  Proof texts unchanged except where noted.
-/
import XotModel.Lemmas.RoundTripIds
import XotModel.Lemmas.PiColonRoundTripWell

namespace XotModel.PiColon

variable {env : Env}

/-! ### (V) -/

mutual
theorem serNode_nsInterned (he : EnvFacts env) (inScope : List (Nat × Nat)) (n : Tree) (s : FStack)
    (fs : Frames) (sc : Scope) (hrel : ScopeRel env s fs sc) (hn : n.allNodes (nodeOK env) = true)
    (ts : List Token) (h : serNode env false inScope false s n = .ok ts) :
    n.allNodes (nsInterned env) = true := by
  cases n with
  | node v ks =>
    have hkids : ∀ k ∈ ks, k.allNodes (nodeOK env) = true := fun k hk => allNodes_kid hn hk
    rw [allNodes_node, Bool.and_eq_true, List.all_eq_true]
    cases v with
    | element name =>
      obtain ⟨p, ats, content, hcheck, hp, ha, hk, _⟩ := serNode_element_ok env h
      have hnode : nodeOK env (.element name) ks = true := by
        rw [allNodes_node, Bool.and_eq_true] at hn; exact hn.1
      obtain ⟨hord, _, _, _, _⟩ := (nodeOK_iff env _ ks).mp hnode
      have hrel' := hrel.push he (declsOK_of_nodeOK hn)
      refine ⟨?_, serKids_nsInterned he inScope ks _ _ _ hrel' hkids content hk⟩
      simp only [nsInterned, Bool.and_eq_true, decide_eq_true_eq, List.all_eq_true]
      refine ⟨(hrel'.element he hp hcheck).2, ?_⟩
      rw [← attrs_eq_kidAttrs (.element name) ks hord]
      exact attrTokens_ns_lt he hrel' ha
    | document =>
      simp only [serNode] at h
      exact ⟨rfl, serKids_nsInterned he inScope ks s fs sc hrel hkids ts h⟩
    | «attribute» a b =>
      simp only [serNode] at h
      exact ⟨rfl, serKids_nsInterned he inScope ks s fs sc hrel hkids ts h⟩
    | «namespace» a b =>
      simp only [serNode] at h
      exact ⟨rfl, serKids_nsInterned he inScope ks s fs sc hrel hkids ts h⟩
    | text str =>
      simp only [serNode] at h
      obtain ⟨x, y, _, hy, _⟩ := appendOk_ok h
      exact ⟨rfl, serKids_nsInterned he inScope ks s fs sc hrel hkids y hy⟩
    | comment str =>
      simp only [serNode] at h
      obtain ⟨x, y, _, hy, _⟩ := appendOk_ok h
      exact ⟨rfl, serKids_nsInterned he inScope ks s fs sc hrel hkids y hy⟩
    | pi target data =>
      rw [serNode] at h
      split at h
      · cases h
      · obtain ⟨x, y, _, hy, _⟩ := appendOk_ok h
        exact ⟨rfl, serKids_nsInterned he inScope ks s fs sc hrel hkids y hy⟩

theorem serKids_nsInterned (he : EnvFacts env) (inScope : List (Nat × Nat)) (ks : List Tree) (s : FStack)
    (fs : Frames) (sc : Scope) (hrel : ScopeRel env s fs sc) (hn : ∀ k ∈ ks, k.allNodes (nodeOK env) = true)
    (ts : List Token) (h : serNode.serKids env false inScope s ks = .ok ts) :
    ∀ k ∈ ks, k.allNodes (nsInterned env) = true := by
  cases ks with
  | nil => intro k hk; cases hk
  | cons k ks =>
    obtain ⟨x, y, hx, hy, _⟩ := serKids_cons_ok env h
    intro k' hk'
    rcases List.mem_cons.mp hk' with heq | hk'
    · rw [heq]
      exact serNode_nsInterned he inScope k s fs sc hrel (hn k (by simp)) x hx
    · exact serKids_nsInterned he inScope ks s fs sc hrel (fun k2 hk2 => hn k2 (by simp [hk2])) y hy k' hk'
end

/-! ### (ids) -/

end XotModel.PiColon
