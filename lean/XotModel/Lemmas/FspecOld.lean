/-
  FspecOld — the first step of every move: xot merges the two text nodes around the node that
  is about to leave, while the node is still in place.  Outcome, and the forest after the cut.
-/
import XotModel.Lemmas.FspecMove

namespace XotModel
open HTree Spec

/-- What the old-site merge did, for a node `t` with parent `po` and siblings `l`, `r`. -/
inductive OldOutcome (f : Forest) (po : Nat) (l : List HTree) (t : HTree) (r : List HTree) :
    Forest × Bool → Prop where
  | same (hseam : f.consolidation = true → ∀ a b, l.getLast? = some a → r.head? = some b →
      ¬ (a.value.isText = true ∧ b.value.isText = true)) : OldOutcome f po l t r (f, false)
  | merged (l' : List HTree) (a b : HTree) (r' : List HTree) (x y : Str)
      (hc : f.consolidation = true) (el : l = l' ++ [a]) (er : r = b :: r')
      (hx : a.value = .text x) (hy : b.value = .text y)
      (hp : prevOf l t = some a.handle) (hn : nextOf r t = some b.handle) (ht : textData t = none) :
      OldOutcome f po l t r (f.editAt (some po) (fun _ => l' ++ a.setValue (.text (x ++ y)) :: t :: r'), true)

theorem old_stage {f : Forest} {po : Nat} {vo : Value} {l : List HTree} {t : HTree} {r : List HTree}
    (inv : f.Inv) (norm : f.Normal) (so : SiteAt f po vo (l ++ t :: r)) :
    OldOutcome f po l t r (f.removeConsolidate (prevOf l t) (nextOf r t)) := by
  have hvalid := so.valid inv.valid
  have hord := (validTree_node hvalid).2.1
  have hleaf : ∀ k ∈ r, k.value.isText = true → k.kids = [] :=
    fun k hk => so.leaf inv.valid k (List.mem_append_right _ (List.mem_cons_of_mem _ hk))
  have so' : SiteAt f po vo (l ++ ([t] ++ r)) := so
  rcases oldSite (k := t) so' hleaf (hcat_of_ordered hord) with ⟨h1, h2⟩ | ⟨hc, l', a, b, r', x, y, el, er, hx, hy, hp, hn, h3⟩
  · rw [h1]; exact OldOutcome.same h2
  · rw [h3]
    have hstrict := (validTree_node (so.valid (norm hc))).2.2.1 rfl
    subst el er
    -- `t` sits between two text nodes, so it is not a text node
    have ht : textData t = none := by
      cases hd : textData t with
      | none => rfl
      | some z =>
        exfalso
        have h1 : (l' ++ [a]) ++ t :: b :: r' = l' ++ (a :: t :: b :: r') := by simp
        rw [h1] at hstrict
        have h2 := (noAdj_append.1 hstrict).2.1
        rw [noAdj_cons_cons, Bool.and_eq_true] at h2
        have ha : a.value.isText = true := by rw [hx]; rfl
        have htt : t.value.isText = true := isText_iff_textData.2 ⟨z, hd⟩
        have := h2.1
        simp [ha, htt] at this
    exact OldOutcome.merged l' a b r' x y hc rfl rfl hx hy hp hn ht

/-- The forest after the old-site merge: still distinct handles, `t` still a child of `po`;
    lookups of anything that is not one of the merged text nodes are unchanged. -/
theorem OldOutcome.site {f : Forest} {po : Nat} {vo : Value} {l : List HTree} {t : HTree} {r : List HTree}
    {res : Forest × Bool} (h : OldOutcome f po l t r res) (so : SiteAt f po vo (l ++ t :: r))
    (hleaf : ∀ k ∈ l ++ t :: r, k.value.isText = true → k.kids = []) :
    ∃ l1 r1, SiteAt res.1 po vo (l1 ++ t :: r1) ∧ res.1 = f.editAt (some po) (fun _ => l1 ++ t :: r1) ∧
      ((handlesList l1).Sublist (handlesList l) ∧ (handlesList r1).Sublist (handlesList r)) ∧
      (∀ x, (∀ k ∈ l ++ r, k.value.isText = true → k.handle ≠ x) →
        findList? x l1 = findList? x l ∧ findList? x r1 = findList? x r) := by
  cases h with
  | same _ =>
    refine ⟨l, r, so, ?_, ⟨List.Sublist.refl _, List.Sublist.refl _⟩, fun _ _ => ⟨rfl, rfl⟩⟩
    rw [so.congr (g := fun _ => l ++ t :: r) (g' := id) rfl, Forest.editAt_id]
  | merged l' a b r' x y hc el er hx hy hp hn ht =>
    subst el er
    refine ⟨l' ++ [a.setValue (.text (x ++ y))], r', ?_, ?_, ?_, ?_⟩
    · have := so.edit (fun _ => l' ++ a.setValue (.text (x ++ y)) :: t :: r') (by
        simp only [fs_handlesList_append, handlesList_cons, setValue_handles, handlesList_nil, List.append_nil,
          List.append_assoc]
        refine (List.Sublist.refl _).append ((List.Sublist.refl _).append ((List.Sublist.refl _).append ?_))
        exact List.sublist_append_right _ _)
      simpa using this
    · simp
    · constructor
      · simp only [fs_handlesList_append, handlesList_cons, setValue_handles, handlesList_nil, List.append_nil]
        exact List.Sublist.refl _
      · rw [handlesList_cons]
        exact List.sublist_append_right _ _
    · intro z hz
      have hza : a.handle ≠ z := hz a (by simp) (by rw [hx]; rfl)
      have hzb : b.handle ≠ z := hz b (by simp) (by rw [hy]; rfl)
      have hbleaf : b.kids = [] := hleaf b (by simp) (by rw [hy]; rfl)
      constructor
      · rw [findList?_append, findList?_append, findList?_cons, findList?_cons, find?_setValue _ hza]
      · have : find? z b = none := by
          cases b with
          | node bh bv bks =>
            simp only [HTree.kids] at hbleaf
            simp only [HTree.handle] at hzb
            subst hbleaf
            rw [find?_node, if_neg hzb, findList?_nil]
        rw [findList?_cons, this]
        rfl

/-- After the old-site merge, cutting the node gives what the specification's cut followed by
    its merge at the old site gives. -/
theorem OldOutcome.cut_eq {f : Forest} {po : Nat} {vo : Value} {l : List HTree} {t : HTree} {r : List HTree}
    {res : Forest × Bool} (h : OldOutcome f po l t r res) (inv : f.Inv) (norm : f.Normal)
    (so : SiteAt f po vo (l ++ t :: r)) {keep : Keep} (hkeep : ∀ a b, a ≠ t.handle → keep a b = true) :
    res.1.editAt (some po) (dropTop t.handle) =
      (f.editAt (some po) (dropTop t.handle)).mergeAt keep (some po) := by
  obtain ⟨ndL, _⟩ := so.nodupKids
  obtain ⟨tl, tr⟩ := tops_ne_of_nodup ndL
  have hdrop : dropTop t.handle (l ++ t :: r) = l ++ r := dropTop_mid rfl tl tr
  rw [mergeAt_some, Forest.editAt_consolidation]
  cases h with
  | same hseam =>
    rcases Bool.eq_false_or_eq_true f.consolidation with hc | hc
    · rw [hc, if_pos rfl, Forest.editAt_editAt]
      have hstrict := (validTree_node (so.valid (norm hc))).2.2.1 rfl
      obtain ⟨hl, hkr, _⟩ := noAdj_append.1 hstrict
      apply so.congr
      simp only [Function.comp]
      rw [hdrop, mergeRuns_after_leave hl (noAdj_tail hkr) (hseam hc)]
    · rw [hc]; rfl
  | merged l' a b r' x y hc el er hx hy hp hn ht =>
    subst el er
    rw [hc, if_pos rfl, Forest.editAt_editAt, Forest.editAt_editAt]
    have hstrict := (validTree_node (so.valid (norm hc))).2.2.1 rfl
    obtain ⟨hl, hkr, _⟩ := noAdj_append.1 hstrict
    have hak : a.handle ≠ t.handle := tl a (List.mem_append_right _ List.mem_cons_self)
    apply so.congr
    simp only [Function.comp]
    rw [hdrop, mergeRuns_after_leave_merge hl (noAdj_tail hkr) hx hy (hkeep _ _ hak)]
    have hl' : ∀ k ∈ l' ++ [a.setValue (.text (x ++ y))], k.handle ≠ t.handle := by
      intro k hk
      cases List.mem_append.1 hk with
      | inl e => exact tl k (List.mem_append_left _ e)
      | inr e =>
        have : k = a.setValue (.text (x ++ y)) := by simpa using e
        rw [this, setValue_handle]; exact hak
    have : l' ++ a.setValue (.text (x ++ y)) :: t :: r' = (l' ++ [a.setValue (.text (x ++ y))]) ++ t :: r' := by simp
    rw [this, dropTop_mid rfl hl' (fun k hk => tr k (List.mem_cons_of_mem _ hk))]
    simp

end XotModel
