/-
  Lemmas for C13, part 4: what canonical forms ignore (declarations, prefixes, attribute order),
  and deep_equal_children.
-/
import XotModel.Lemmas.CompareCanon

namespace XotModel

/-! ### Namespace nodes do not matter -/

mutual
/-- Erase every namespace node below the root. -/
def cmpStripNs : Tree → Tree
  | .node v ks => .node v (stripNsList ks)
def stripNsList : List Tree → List Tree
  | [] => []
  | k :: ks => if k.value.category == .namespace then stripNsList ks else cmpStripNs k :: stripNsList ks
end

theorem stripNs_value (t : Tree) : (cmpStripNs t).value = t.value := by
  cases t; simp [cmpStripNs, Tree.value]

mutual
theorem canon_stripNs : ∀ t : Tree, canon (cmpStripNs t) = canon t
  | .node v ks => by
    have h := canonList_stripNsList ks
    simp only [cmpStripNs, canon, h.1]
    cases v <;> simp [cvalue, h.2]
theorem canonList_stripNsList : ∀ ks : List Tree,
    canon.canonList (stripNsList ks) = canon.canonList ks ∧ attrPairs (stripNsList ks) = attrPairs ks
  | [] => by simp [stripNsList]
  | k :: ks => by
    have hk := canon_stripNs k
    have hks := canonList_stripNsList ks
    by_cases hn : k.value.category = .namespace
    · have hnn : ¬ k.value.isNormal = true := by simp [Value.isNormal, hn]
      have hv : ∀ n s, k.value ≠ .attribute n s := by
        intro n s h; rw [h] at hn; simp [Value.category] at hn
      simp only [stripNsList, hn, beq_self_eq_true, ↓reduceIte, canonList_cons_abnormal hnn, hks.1, true_and]
      rw [hks.2]
      simp only [attrPairs]
    · have hb : (k.value.category == Category.namespace) = false := by simpa using hn
      simp only [stripNsList, hb, Bool.false_eq_true, ↓reduceIte]
      constructor
      · simp only [canon.canonList, stripNs_value, hk, hks.1]
      · simp only [attrPairs, stripNs_value, hks.2]
end

/-! ### Attribute order does not matter -/

theorem attrPairs_perm {l₁ l₂ : List Tree} (p : l₁.Perm l₂) : (attrPairs l₁).Perm (attrPairs l₂) := by
  induction p with
  | nil => exact List.Perm.refl _
  | cons x _ ih => simp only [attrPairs]; split <;> simp [ih]
  | swap x y l =>
    simp only [attrPairs]
    split <;> split <;> first | exact List.Perm.swap _ _ _ | exact List.Perm.refl _
  | trans _ _ ih₁ ih₂ => exact ih₁.trans ih₂

theorem canonList_append (a b : List Tree) :
    canon.canonList (a ++ b) = canon.canonList a ++ canon.canonList b := by
  induction a with
  | nil => simp [canon.canonList]
  | cons k ks ih =>
    by_cases h : k.value.isNormal = true
    · simp [canon.canonList, h, ih]
    · simp [canon.canonList, h, ih]

theorem canonList_eq_nil {l : List Tree} (h : ∀ k ∈ l, ¬ k.value.isNormal = true) : canon.canonList l = [] := by
  induction l with
  | nil => rfl
  | cons k ks ih =>
    rw [canonList_cons_abnormal (h k List.mem_cons_self)]
    exact ih (fun x hx => h x (List.mem_cons_of_mem _ hx))

theorem canonList_eq_map {l : List Tree} (h : ∀ k ∈ l, k.value.isNormal = true) :
    canon.canonList l = l.map canon := by
  induction l with
  | nil => rfl
  | cons k ks ih =>
    rw [canonList_cons_normal (h k List.mem_cons_self), ih (fun x hx => h x (List.mem_cons_of_mem _ hx))]
    rfl

/-- Permuting the attribute nodes of a node does not change its canonical form. -/
theorem canon_attr_perm (v : Value) (pre A A' rest : List Tree) (p : A.Perm A')
    (hA : ∀ k ∈ A, ¬ k.value.isNormal = true) (nd : attrNamesNodup (pre ++ A ++ rest) = true) :
    canon (.node v (pre ++ A ++ rest)) = canon (.node v (pre ++ A' ++ rest)) := by
  have hA' : ∀ k ∈ A', ¬ k.value.isNormal = true := fun k hk => hA k (p.symm.subset hk)
  have hp : (pre ++ A ++ rest).Perm (pre ++ A' ++ rest) := (p.append_left pre).append_right rest
  have hs : sortAttrs (attrPairs (pre ++ A ++ rest)) = sortAttrs (attrPairs (pre ++ A' ++ rest)) :=
    (sortAttrs_eq_iff_perm (by simpa [attrNamesNodup, keysNodup] using nd)).mpr (attrPairs_perm hp)
  have hc : canon.canonList (pre ++ A ++ rest) = canon.canonList (pre ++ A' ++ rest) := by
    simp only [canonList_append, canonList_eq_nil hA, canonList_eq_nil hA']
  simp only [canon, hc]
  cases v <;> simp only [cvalue, hs]

/-! ### Children -/

/-- `canon` keeps exactly the children `Xot::children` iterates over … -/
theorem canonList_normalKids (t : Tree) : canon.canonList t.kids = canon.canonList t.normalKids := by
  unfold Tree.normalKids
  conv => lhs; rw [← List.takeWhile_append_dropWhile (p := fun k : Tree => !k.value.isNormal) (l := t.kids)]
  rw [canonList_append, canonList_eq_nil, List.nil_append]
  intro k hk
  have := of_mem_takeWhile hk
  simpa using this

/-- … which on well-ordered children are all normal nodes. -/
theorem normalKids_normal {v : Value} {ks : List Tree} (h : orderedKids ks = true) :
    ∀ k ∈ (Tree.node v ks).normalKids, k.value.isNormal = true := by
  unfold orderedKids at h
  simp only [Tree.normalKids, Tree.kids]
  have e1 : ks = ks.takeWhile (fun k => k.value.category == .namespace) ++
      ks.dropWhile (fun k => k.value.category == .namespace) := (List.takeWhile_append_dropWhile).symm
  generalize hD : ks.dropWhile (fun k => k.value.category == .namespace) = D at h e1
  have e2 : D = D.takeWhile (fun k => k.value.category == .attribute) ++
      D.dropWhile (fun k => k.value.category == .attribute) := (List.takeWhile_append_dropWhile).symm
  generalize hR : D.dropWhile (fun k => k.value.category == .attribute) = R at h e2
  have hN : ∀ k ∈ ks.takeWhile (fun k => k.value.category == .namespace), (!k.value.isNormal) = true := by
    intro k hk
    have := of_mem_takeWhile hk
    simp only [beq_iff_eq] at this
    simp [Value.isNormal, this]
  have hA : ∀ k ∈ D.takeWhile (fun k => k.value.category == .attribute), (!k.value.isNormal) = true := by
    intro k hk
    have := of_mem_takeWhile hk
    simp only [beq_iff_eq] at this
    simp [Value.isNormal, this]
  rw [e1, List.dropWhile_append_of_pos hN, e2, List.dropWhile_append_of_pos hA]
  intro k hk
  exact List.all_eq_true.mp h k (List.dropWhile_subset _ hk)

theorem deepEqualChildrenLoop_iff (as : List Tree) : ∀ bs : List Tree,
    (∀ k ∈ as, k.valid = true ∧ k.value.isNormal = true) → (∀ k ∈ bs, k.valid = true ∧ k.value.isNormal = true) →
    (deepEqualChildrenLoop as bs = true ↔ as.map canon = bs.map canon) := by
  induction as with
  | nil => intro bs _ _; cases bs <;> simp [deepEqualChildrenLoop]
  | cons a as ih =>
    intro bs ha hb
    cases bs with
    | nil => simp [deepEqualChildrenLoop]
    | cons b bs =>
      have ⟨va, na⟩ := ha a List.mem_cons_self
      have ⟨vb, nb⟩ := hb b List.mem_cons_self
      have h1 : deepEqual a b = true ↔ canon a = canon b := deepEqual_iff_canon a b va vb
      have h2 := ih bs (fun x hx => ha x (List.mem_cons_of_mem _ hx)) (fun x hx => hb x (List.mem_cons_of_mem _ hx))
      simp only [deepEqualChildrenLoop, List.map_cons, List.cons.injEq]
      cases hd : deepEqual a b
      · simp only [hd] at h1
        simp [← h1]
      · simp only [hd, true_iff] at h1
        simp [h1, h2]

theorem deepEqualChildren_iff (a b : Tree) (va : a.valid = true) (vb : b.valid = true) :
    deepEqualChildren a b = true ↔ (canon a).kids = (canon b).kids := by
  obtain ⟨v, ks⟩ := a
  obtain ⟨w, js⟩ := b
  obtain ⟨oa, _, _, vka⟩ := valid_node va
  obtain ⟨ob, _, _, vkb⟩ := valid_node vb
  have na := normalKids_normal (v := v) oa
  have nb := normalKids_normal (v := w) ob
  have sa : ∀ k ∈ (Tree.node v ks).normalKids, k ∈ ks := fun k hk => List.dropWhile_subset _ hk
  have sb : ∀ k ∈ (Tree.node w js).normalKids, k ∈ js := fun k hk => List.dropWhile_subset _ hk
  unfold deepEqualChildren
  rw [deepEqualChildrenLoop_iff _ _ (fun k hk => ⟨vka k (sa k hk), na k hk⟩) (fun k hk => ⟨vkb k (sb k hk), nb k hk⟩)]
  simp only [canon, Canon.kids]
  have ea := canonList_normalKids (.node v ks)
  have eb := canonList_normalKids (.node w js)
  simp only [Tree.kids] at ea eb
  rw [ea, eb, canonList_eq_map na, canonList_eq_map nb]

end XotModel
