/-
  XotModel.Lemmas.DedupInnerStart — glue between `deduplicate_namespaces` (C15) and the round trip of an
  INNER start node (`standalone`, Model/InnerStartSpec.lean; Lemmas/InnerStart*.lean).

  The call only deletes namespace nodes (`stripNs t' = stripNs t`).  The raw path of a node may shift, so
  nodes before and after are matched by their position in `startPaths` (Lemmas/DedupInside.lean).  Here:
  two trees with the same skeleton have, position by position of `startPaths`, subtrees with the same
  skeleton (`startPaths_match`): the list of skeletons of the start nodes is a function of the skeleton
  of the tree (`startPaths_strip`, `preSubs`).
-/
import XotModel.Lemmas.DedupInside
import XotModel.Lemmas.ScopeRoundTrip
import XotModel.Lemmas.InnerStartRepresentable

namespace XotModel

/-- All subtrees in document order (pre-order). -/
def preSubs : Tree → List Tree
  | .node v ks => .node v ks :: preSubsList ks
where
  preSubsList : List Tree → List Tree
    | [] => []
    | k :: ks => preSubs k ++ preSubsList ks

mutual
/-- The skeletons of the start nodes of `x`, in `startPaths` order, are the subtrees of the skeleton of
    `x` in document order. -/
theorem startPaths_strip : ∀ (x : Tree),
    (startPaths x).map (fun q => (x.at? q).map stripNs) = (preSubs (stripNs x)).map some
  | .node v ks => by
    have := startPathsList_strip ks v []
    simp only [List.nil_append, List.length_nil] at this
    simp only [startPaths, List.map_cons, Tree.at?, Option.map_some, stripNs, preSubs, this]
theorem startPathsList_strip : ∀ (ks : List Tree) (v : Value) (done : List Tree),
    (startPaths.startPathsList done.length ks).map
        (fun q => ((Tree.node v (done ++ ks)).at? q).map stripNs) =
      (preSubs.preSubsList (stripNs.stripNsList ks)).map some
  | [], _, _ => rfl
  | k :: ks, v, done => by
    have ih := startPathsList_strip ks v (done ++ [k])
    simp only [List.append_assoc, List.singleton_append, List.length_append, List.length_cons,
      List.length_nil, Nat.zero_add] at ih
    simp only [startPaths.startPathsList, stripNs.stripNsList]
    split
    · exact ih
    · have hk : (done ++ k :: ks)[done.length]? = some k := by simp
      simp only [preSubs.preSubsList]
      rw [List.map_append, List.map_append, ih, List.map_map]
      congr 1
      rw [← startPaths_strip k]
      apply List.map_congr_left
      intro r _
      simp only [Function.comp, Tree.at?, hk]
end

theorem dis_stripNs_value (t : Tree) : (stripNs t).value = t.value := by
  cases t with | node v ks => rfl

/-- Same skeleton ⇒ the `i`-th start nodes exist in both trees and have the same skeleton. -/
theorem startPaths_match {t t' : Tree} (h : stripNs t' = stripNs t) (i : Nat) (q q' : Path)
    (hq : (startPaths t)[i]? = some q) (hq' : (startPaths t')[i]? = some q') :
    ∃ s s', t.at? q = some s ∧ t'.at? q' = some s' ∧ stripNs s' = stripNs s := by
  have e := startPaths_strip t
  have e' := startPaths_strip t'
  rw [h] at e'
  have h1 : ((startPaths t).map (fun q => (t.at? q).map stripNs))[i]? = some ((t.at? q).map stripNs) := by
    simp [List.getElem?_map, hq]
  have h2 : ((startPaths t').map (fun q => (t'.at? q).map stripNs))[i]? = some ((t'.at? q').map stripNs) := by
    simp [List.getElem?_map, hq']
  rw [e, List.getElem?_map] at h1
  rw [e', List.getElem?_map] at h2
  cases hx : (preSubs (stripNs t))[i]? with
  | none => simp [hx] at h1
  | some x =>
    simp only [hx, Option.map_some, Option.some.injEq] at h1 h2
    cases hs : t.at? q with
    | none => simp [hs] at h1
    | some s =>
      cases hs' : t'.at? q' with
      | none => simp [hs'] at h2
      | some s' =>
        simp only [hs, Option.map_some, Option.some.injEq] at h1
        simp only [hs', Option.map_some, Option.some.injEq] at h2
        exact ⟨s, s', rfl, rfl, by rw [← h1, ← h2]⟩

/-- Every start path leads to a node. -/
theorem startPaths_at? (t : Tree) (i : Nat) (q : Path) (hq : (startPaths t)[i]? = some q) :
    ∃ s, t.at? q = some s := by
  obtain ⟨s, _, h, _, _⟩ := startPaths_match (t := t) (t' := t) rfl i q q hq hq
  exact ⟨s, h⟩

theorem stripNsList_nsLeaves_append (X : List (Nat × Nat)) (ks : List Tree) :
    stripNs.stripNsList (nsLeaves X ++ ks) = stripNs.stripNsList ks := by
  rw [stripNsList_eq_dropNsList, stripNsList_eq_dropNsList, dropNsList_nsLeaves_append]

/-- The skeleton of a standalone document is the document around the skeleton of the element. -/
theorem stripNs_standalone_doc (name : Nat) (X : List (Nat × Nat)) (ks : List Tree) :
    stripNs (.node .document [.node (.element name) (nsLeaves X ++ ks)]) =
      .node .document [stripNs (.node (.element name) ks)] := by
  simp [stripNs, stripNs.stripNsList, stripNsList_nsLeaves_append, Value.category, Tree.value]

/-! ### A start node that is not strictly inside the call's subtree keeps its path -/

/-- Modifying below `path` by a namespace-node deletion: a node at `q` that is not strictly inside the subtree
    at `path` is found at `q` afterwards, shrunk. -/
theorem at?_scopeModifyAt_outside (f : Tree → Tree) (hf : ∀ k, NsShrink (f k) k) :
    ∀ (path : Path) (t : Tree) (q : Path) (s : Tree), (∀ r, q = path ++ r → r = []) → t.at? q = some s →
      ∃ s', (scopeModifyAt f t path).at? q = some s' ∧ NsShrink s' s := by
  intro path
  induction path with
  | nil =>
    intro t q s hq hat
    have : q = [] := hq q rfl
    subst this
    simp only [Tree.at?, Option.some.injEq] at hat
    subst hat
    exact ⟨f t, by simp [scopeModifyAt, Tree.at?], hf t⟩
  | cons i p ih =>
    intro t q s hq hat
    obtain ⟨v, ks⟩ := t
    cases q with
    | nil =>
      simp only [Tree.at?, Option.some.injEq] at hat
      subst hat
      exact ⟨_, rfl, NsShrink.scopeModifyAt f hf (i :: p) _⟩
    | cons j q2 =>
      simp only [Tree.at?] at hat
      cases hk : ks[j]? with
      | none => simp [hk] at hat
      | some k =>
        simp only [hk] at hat
        by_cases hji : j = i
        · subst hji
          have hq2 : ∀ r, q2 = p ++ r → r = [] := fun r h => hq r (by rw [h]; rfl)
          obtain ⟨s', h1, h2⟩ := ih k q2 s hq2 hat
          refine ⟨s', ?_, h2⟩
          simp only [scopeModifyAt, Tree.at?, List.getElem?_modify_eq, hk]
          exact h1
        · refine ⟨s, ?_, NsShrink.refl s⟩
          simp only [scopeModifyAt, Tree.at?]
          rw [getElem?_modify_ne' _ ks (fun h => hji h.symm), hk]
          exact hat

theorem NsShrink.dpWalk_nil (env : Env) (k : Tree) : NsShrink (dpWalk env [] k) k := by
  have := NsShrink.dedupPass env k [] k
  rw [dedupPass_eq env k [] k rfl] at this
  exact this

theorem dedupLoop_at?_outside (env : Env) (path q : Path) (hq : ∀ r, q = path ++ r → r = []) :
    ∀ (fuel : Nat) (t s : Tree), t.at? q = some s →
      ∃ s', (dedupLoop env path fuel t).at? q = some s' ∧ NsShrink s' s
  | 0, t, s, hat => ⟨s, hat, NsShrink.refl s⟩
  | fuel + 1, t, s, hat => by
    unfold dedupLoop
    split
    · exact ⟨s, hat, NsShrink.refl s⟩
    · rename_i sub hs
      dsimp only
      have h1 : ∃ s1, (dedupPass env t path sub).1.at? q = some s1 ∧ NsShrink s1 s := by
        rw [dedupPass_eq env t path sub hs]
        exact at?_scopeModifyAt_outside _ (NsShrink.dpWalk_nil env) path t q s hq hat
      obtain ⟨s1, h11, h12⟩ := h1
      split
      · obtain ⟨s', h21, h22⟩ := dedupLoop_at?_outside env path q hq fuel _ s1 h11
        exact ⟨s', h21, h22.trans h12⟩
      · exact ⟨s1, h11, h12⟩

/-- `deduplicate_namespaces(node)`: a node that is not strictly inside the subtree of `node` keeps its raw
    path; its subtree differs in namespace nodes only. -/
theorem deduplicateNamespaces_at?_outside (env : Env) (t t' : Tree) (path : Path)
    (hd : deduplicateNamespaces env t path = some t') (q : Path) (hq : ∀ r, q = path ++ r → r = [])
    (s : Tree) (hat : t.at? q = some s) : ∃ s', t'.at? q = some s' ∧ NsShrink s' s := by
  unfold deduplicateNamespaces at hd
  split at hd
  · cases hd
  · simp only [Option.some.injEq] at hd
    subst hd
    exact dedupLoop_at?_outside env path q hq _ t s hat

end XotModel
