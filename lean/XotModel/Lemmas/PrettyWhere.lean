/-
  Where `Pretty` grants whitespace, read off the tree: combines the traversal invariant of the
  `Pretty` stack (Lemmas/PrettyTrace) with the stack-level rules (Lemmas/Pretty).
-/
import XotModel.Lemmas.PrettyTrace
import XotModel.Lemmas.Pretty

namespace XotModel

variable (sup : List Nat) (t : Tree)

theorem ptrace_mem_events (ps : PStack) (evs : List (Path × Output)) (x : PStack × Path × Output)
    (h : x ∈ ptrace sup t ps evs) : (x.2.1, x.2.2) ∈ evs := by
  induction evs generalizing ps with
  | nil => simp [ptrace] at h
  | cons po evs ih =>
    simp only [ptrace, List.mem_cons] at h
    rcases h with rfl | h
    · simp
    · exact List.mem_cons_of_mem _ (ih _ h)

theorem getIndentation_pos {s : PStack} (h : s.getIndentation > 0) : s.inMixed = false := by
  unfold PStack.getIndentation at h
  cases hm : s.inMixed
  · rfl
  · simp [hm] at h

theorem getNewline_true {s : PStack} (h : s.getNewline = true) : s.inMixed = false := by
  unfold PStack.getNewline at h
  cases hm : s.inMixed
  · rfl
  · simp [hm] at h

theorem inMixed_cons_false {e : StackEntry} {s : PStack} (h : PStack.inMixed (e :: s) = false) :
    PStack.inMixed s = false := by
  unfold PStack.inMixed at h ⊢
  simp only [List.any_cons, Bool.or_eq_false_iff] at h
  exact h.2

theorem inMixed_ite_cons {c : Prop} [Decidable c] {e1 e2 : StackEntry} {s : PStack}
    (h : PStack.inMixed (if c then e1 :: s else e2 :: s) = false) : PStack.inMixed s = false := by
  split at h <;> exact inMixed_cons_false h

/-- Each pretty token's indentation and newline are `prettify` on the entries of the open
    elements between the start node and the token's node. -/
theorem pretty_token_entries (esc : Escapers) (env : Env) (pr : TokenParams) (start : Path) (n : Tree)
    (inScope : List (Nat × Nat)) (hat : t.at? start = some n)
    (hs : namespacesInScope t start = some inScope)
    (ks : List (Path × Output × PrettyOutputToken))
    (h : prettyTokensWith esc env pr sup t start = .ok ks)
    (k : Path × Output × PrettyOutputToken) (hk : k ∈ ks) :
    ∃ rel, k.1 = start ++ rel ∧ (k.1, k.2.1) ∈ genOutputs t start ∧
      (k.2.2.indentation, k.2.2.newline) =
        (prettifyAt sup t (pentriesFor sup k.2.1 n rel) k.1 k.2.1).2 := by
  unfold prettyTokensWith at h
  cases hp : prettyAllWith esc env pr sup t [] (initStack t start) (genOutputs t start) with
  | ok l =>
    simp only [hp] at h
    cases h
    obtain ⟨ps', hmem, heq⟩ := prettyAll_ptrace sup t esc env pr [] _ _ _ hp k hk
    obtain ⟨rel, h1, h2⟩ := genOutputs_ptrace sup t start n inScope hat hs _ hmem
    simp only at h1 h2
    refine ⟨rel, h1, ptrace_mem_events sup t _ _ _ hmem, ?_⟩
    rw [← h2]
    exact heq
  | err e => simp [hp] at h
  | panic => simp [hp] at h

/-- A token that receives indentation or a newline has no mixed entry among the entries of the
    open elements strictly above its node. -/
theorem pretty_where_notMixed (esc : Escapers) (env : Env) (pr : TokenParams) (start : Path) (n : Tree)
    (inScope : List (Nat × Nat)) (hat : t.at? start = some n)
    (hs : namespacesInScope t start = some inScope)
    (ks : List (Path × Output × PrettyOutputToken))
    (h : prettyTokensWith esc env pr sup t start = .ok ks)
    (k : Path × Output × PrettyOutputToken) (hk : k ∈ ks)
    (hw : k.2.2.indentation > 0 ∨ k.2.2.newline = true) :
    ∃ rel node, k.1 = start ++ rel ∧ n.at? rel = some node ∧
      PStack.inMixed (pentriesAbove sup n rel) = false := by
  obtain ⟨rel, hp, hev, heq⟩ := pretty_token_entries sup t esc env pr start n inScope hat hs ks h k hk
  obtain ⟨p, o, tok⟩ := k
  simp only at hp hev heq hw
  subst hp
  have hg : genOutputs t start = genNode inScope true start n := by simp [genOutputs, hat, hs]
  rw [hg] at hev
  obtain ⟨rel', n', hp', hat', _, hown⟩ := genNode_tagged inScope true start n _ _ hev
  have hrr : rel' = rel := (List.append_cancel_left hp').symm
  rw [hrr] at hat'
  have hnode : t.at? (start ++ rel) = some n' := by rw [at?_append, hat]; exact hat'
  refine ⟨rel, n', rfl, hat', ?_⟩
  have hind : tok.indentation = (prettifyAt sup t (pentriesFor sup o n rel) (start ++ rel) o).2.1 :=
    congrArg Prod.fst heq
  have hnl : tok.newline = (prettifyAt sup t (pentriesFor sup o n rel) (start ++ rel) o).2.2 :=
    congrArg Prod.snd heq
  unfold prettifyAt at hind hnl
  simp only [hnode] at hind hnl
  cases o with
  | startTagOpen name =>
    simp only [prettify, pentriesFor] at hind hnl
    rcases hw with hw | hw
    · rw [hind] at hw; exact getIndentation_pos hw
    · rw [hnl] at hw; cases hw
  | comment c =>
    simp only [prettify, pentriesFor] at hind hnl
    rcases hw with hw | hw
    · rw [hind] at hw; exact getIndentation_pos hw
    · rw [hnl] at hw; exact getNewline_true hw
  | pi tg d =>
    simp only [prettify, pentriesFor] at hind hnl
    rcases hw with hw | hw
    · rw [hind] at hw; exact getIndentation_pos hw
    · rw [hnl] at hw; exact getNewline_true hw
  | text c =>
    simp only [prettify] at hind hnl
    rcases hw with hw | hw
    · rw [hind] at hw; cases hw
    · rw [hnl] at hw; cases hw
  | pfx a b =>
    simp only [prettify] at hind hnl
    rcases hw with hw | hw
    · rw [hind] at hw; cases hw
    · rw [hnl] at hw; cases hw
  | «attribute» a v =>
    simp only [prettify] at hind hnl
    rcases hw with hw | hw
    · rw [hind] at hw; cases hw
    · rw [hnl] at hw; cases hw
  | startTagClose =>
    simp only [prettify, pentriesFor] at hind hnl
    rcases hw with hw | hw
    · rw [hind] at hw
      split at hw
      · split at hw <;> cases hw
      · cases hw
    · rw [hnl] at hw
      split at hw
      · split at hw
        · have := getNewline_true hw
          first
            | exact inMixed_ite_cons this
            | (split at this <;> first | exact inMixed_ite_cons this | exact inMixed_cons_false this)
        · cases hw
      · cases hw
  | endTag name =>
    have hval := ownEvent_endTag hown
    have hincl := pentriesIncl_eq sup n rel n' hat'
    simp only [prettify, pentriesFor] at hind hnl
    by_cases hc : n'.firstChild?.isSome = true
    · have hopen : openEntryOf sup n' = [entryFor sup n'] := by simp [openEntryOf, hval, hc]
      simp only [hincl, hopen, hc, if_true, List.singleton_append, List.tail_cons] at hind hnl
      rcases hw with hw | hw
      · rw [hind] at hw
        split at hw
        · exact getIndentation_pos hw
        · cases hw
      · rw [hnl] at hw; exact getNewline_true hw
    · have hopen : openEntryOf sup n' = [] := by simp [openEntryOf, hval, hc]
      simp only [hincl, hopen, hc, List.nil_append] at hind hnl
      rcases hw with hw | hw
      · rw [hind] at hw; simp at hw
      · rw [hnl] at hw
        exact getNewline_true (by simpa using hw)

theorem getIndentation_pos_preserve {s : PStack} (h : s.getIndentation > 0) : s.inSpacePreserve = false := by
  unfold PStack.getIndentation at h
  cases hp : s.inSpacePreserve
  · rfl
  · simp [hp] at h

theorem getNewline_true_preserve {s : PStack} (h : s.getNewline = true) : s.inSpacePreserve = false := by
  unfold PStack.getNewline at h
  cases hp : s.inSpacePreserve
  · rfl
  · simp [hp] at h

theorem ownEvent_startTagClose {inScope : List (Nat × Nat)} {b : Bool} {n : Tree}
    (h : OwnEvent inScope b n .startTagClose) : ∃ name, n.value = .element name := by
  unfold OwnEvent edgeStart edgeEnd at h
  cases hv : n.value <;> simp [hv] at h
  exact ⟨_, rfl⟩

/-- The stack the newline decision of an event looks at: `StartTagClose` decides after pushing
    the element's own entry, every other event on the entries above its node. -/
def pentriesNewline (o : Output) (n : Tree) (rel : Path) : PStack :=
  match o with
  | .startTagClose => pentriesIncl sup n rel
  | _ => pentriesAbove sup n rel

/-- A pretty token, the node it belongs to, and `prettify` on that node. -/
theorem pretty_token_node (esc : Escapers) (env : Env) (pr : TokenParams) (start : Path) (n : Tree)
    (inScope : List (Nat × Nat)) (hat : t.at? start = some n)
    (hs : namespacesInScope t start = some inScope)
    (ks : List (Path × Output × PrettyOutputToken))
    (h : prettyTokensWith esc env pr sup t start = .ok ks)
    (p : Path) (o : Output) (tok : PrettyOutputToken) (hk : (p, o, tok) ∈ ks) :
    ∃ rel n', p = start ++ rel ∧ n.at? rel = some n' ∧ OwnEvent inScope (true && rel.isEmpty) n' o ∧
      tok.indentation = (prettify sup (pentriesFor sup o n rel) n' o).2.1 ∧
      tok.newline = (prettify sup (pentriesFor sup o n rel) n' o).2.2 := by
  obtain ⟨rel, hp, hev, heq⟩ := pretty_token_entries sup t esc env pr start n inScope hat hs ks h _ hk
  simp only at hp hev heq
  subst hp
  have hg : genOutputs t start = genNode inScope true start n := by simp [genOutputs, hat, hs]
  rw [hg] at hev
  obtain ⟨rel', n', hp', hat', _, hown⟩ := genNode_tagged inScope true start n _ _ hev
  have hrr : rel' = rel := (List.append_cancel_left hp').symm
  rw [hrr] at hat' hown
  have hnode : t.at? (start ++ rel) = some n' := by rw [at?_append, hat]; exact hat'
  refine ⟨rel, n', rfl, hat', hown, ?_, ?_⟩
  · have := congrArg Prod.fst heq
    simpa [prettifyAt, hnode] using this
  · have := congrArg Prod.snd heq
    simpa [prettifyAt, hnode] using this

/-- The `xml:space="preserve"` rule on trees, full strength: a token is indented only if the
    entries of the open elements its whitespace lands in are not in `preserve` scope, and gets a
    newline only if the entries the newline lands in are not. -/
theorem pretty_where_notPreserve (esc : Escapers) (env : Env) (pr : TokenParams) (start : Path) (n : Tree)
    (inScope : List (Nat × Nat)) (hat : t.at? start = some n)
    (hs : namespacesInScope t start = some inScope)
    (ks : List (Path × Output × PrettyOutputToken))
    (h : prettyTokensWith esc env pr sup t start = .ok ks)
    (k : Path × Output × PrettyOutputToken) (hk : k ∈ ks) :
    ∃ rel, k.1 = start ++ rel ∧
      (k.2.2.indentation > 0 → PStack.inSpacePreserve (pentriesFor sup k.2.1 n rel) = false) ∧
      (k.2.2.newline = true → PStack.inSpacePreserve (pentriesNewline sup k.2.1 n rel) = false) := by
  obtain ⟨p, o, tok⟩ := k
  obtain ⟨rel, n', hp, hat', hown, hind, hnl⟩ :=
    pretty_token_node sup t esc env pr start n inScope hat hs ks h p o tok hk
  refine ⟨rel, hp, ?_, ?_⟩
  · intro hw
    simp only at hw
    rw [hind] at hw
    cases o with
    | startTagOpen name => exact getIndentation_pos_preserve (by simpa [prettify, pentriesFor] using hw)
    | comment c => exact getIndentation_pos_preserve (by simpa [prettify, pentriesFor] using hw)
    | pi tg d => exact getIndentation_pos_preserve (by simpa [prettify, pentriesFor] using hw)
    | text c => simp [prettify] at hw
    | pfx a b => simp [prettify] at hw
    | «attribute» a v => simp [prettify] at hw
    | startTagClose =>
      simp only [prettify] at hw
      split at hw
      · split at hw <;> simp at hw
      · simp at hw
    | endTag name =>
      simp only [prettify] at hw
      split at hw
      · simp only at hw
        cases hc : PStack.inSpacePreserve (pentriesFor sup (Output.endTag name) n rel)
        · rfl
        · simp [hc] at hw
      · simp at hw
  · intro hw
    simp only at hw
    rw [hnl] at hw
    cases o with
    | startTagOpen name => simp [prettify] at hw
    | comment c => exact getNewline_true_preserve (by simpa [prettify, pentriesFor, pentriesNewline] using hw)
    | pi tg d => exact getNewline_true_preserve (by simpa [prettify, pentriesFor, pentriesNewline] using hw)
    | text c => simp [prettify] at hw
    | pfx a b => simp [prettify] at hw
    | «attribute» a v => simp [prettify] at hw
    | startTagClose =>
      obtain ⟨name, hval⟩ := ownEvent_startTagClose hown
      have hincl := pentriesIncl_eq sup n rel n' hat'
      simp only [prettify, pentriesFor] at hw
      by_cases hc : n'.firstChild?.isSome = true
      · simp only [hc, if_true] at hw
        by_cases hi : hasInlineChild n' = true
        · simp [hi] at hw
        · have hopen : openEntryOf sup n' = [entryFor sup n'] := by simp [openEntryOf, hval, hc]
          simp only [pentriesNewline, hincl, hopen, List.singleton_append]
          by_cases hsup : sup.contains name = true
          · have he : entryFor sup n' = StackEntry.mixed := by
              have : name ∈ sup := by simpa using hsup
              simp [entryFor, hi, hval, this]
            have : name ∈ sup := by simpa using hsup
            simp only [hi, hval] at hw
            simp [this] at hw
            rw [he]
            exact getNewline_true_preserve hw
          · have he : entryFor sup n' = StackEntry.unmixed (elementSpace n') := by
              have : name ∉ sup := by simpa using hsup
              simp [entryFor, hi, hval, this]
            have : name ∉ sup := by simpa using hsup
            simp only [hi, hval] at hw
            simp [this] at hw
            rw [he]
            exact getNewline_true_preserve hw
      · simp [hc] at hw
    | endTag name =>
      have hval := ownEvent_endTag hown
      have hincl := pentriesIncl_eq sup n rel n' hat'
      simp only [prettify, pentriesFor] at hw
      by_cases hc : n'.firstChild?.isSome = true
      · have hopen : openEntryOf sup n' = [entryFor sup n'] := by simp [openEntryOf, hval, hc]
        simp only [hc, if_true, hincl, hopen, List.singleton_append, List.tail_cons] at hw
        exact getNewline_true_preserve hw
      · have hopen : openEntryOf sup n' = [] := by simp [openEntryOf, hval, hc]
        simp only [hc, hincl, hopen, List.nil_append] at hw
        exact getNewline_true_preserve (by simpa [pentriesNewline] using hw)

end XotModel
