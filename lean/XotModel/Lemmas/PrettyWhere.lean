/-
  Where `Pretty` grants whitespace, read off the tree: combines the traversal invariant of the
  `Pretty` stack (Lemmas/PrettyTrace) with the stack-level rules (Lemmas/Pretty).
-/
import XotModel.Lemmas.PrettyTrace
import XotModel.Lemmas.Pretty

namespace XotModel

variable (sup : List Nat) (t : Tree)

theorem ptrace_mem_events (ps : PStack) (evs : List (Path × Output)) (x : PStack × Path × Output)
    (h : x ∈ ptrace sup t ps evs) : (x.2.1, x.2.2) ∈ evs := by
  induction evs generalizing ps with
  | nil => simp [ptrace] at h
  | cons po evs ih =>
    simp only [ptrace, List.mem_cons] at h
    rcases h with rfl | h
    · simp
    · exact List.mem_cons_of_mem _ (ih _ h)

theorem getIndentation_pos {s : PStack} (h : s.getIndentation > 0) : s.inMixed = false := by
  unfold PStack.getIndentation at h
  cases hm : s.inMixed
  · rfl
  · simp [hm] at h

theorem getNewline_true {s : PStack} (h : s.getNewline = true) : s.inMixed = false := by
  unfold PStack.getNewline at h
  cases hm : s.inMixed
  · rfl
  · simp [hm] at h

theorem inMixed_cons_false {e : StackEntry} {s : PStack} (h : PStack.inMixed (e :: s) = false) :
    PStack.inMixed s = false := by
  unfold PStack.inMixed at h ⊢
  simp only [List.any_cons, Bool.or_eq_false_iff] at h
  exact h.2

theorem inMixed_ite_cons {c : Prop} [Decidable c] {e1 e2 : StackEntry} {s : PStack}
    (h : PStack.inMixed (if c then e1 :: s else e2 :: s) = false) : PStack.inMixed s = false := by
  split at h <;> exact inMixed_cons_false h

/-- Each pretty token's indentation and newline are `prettify` on the entries of the open
    elements between the start node and the token's node. -/
theorem pretty_token_entries (esc : Escapers) (env : Env) (pr : TokenParams) (start : Path) (n : Tree)
    (inScope : List (Nat × Nat)) (hat : t.at? start = some n)
    (hs : namespacesInScope t start = some inScope)
    (ks : List (Path × Output × PrettyOutputToken))
    (h : prettyTokensWith esc env pr sup t start = .ok ks)
    (k : Path × Output × PrettyOutputToken) (hk : k ∈ ks) :
    ∃ rel, k.1 = start ++ rel ∧ (k.1, k.2.1) ∈ genOutputs t start ∧
      (k.2.2.indentation, k.2.2.newline) =
        (prettifyAt sup t (pentriesFor sup k.2.1 n rel) k.1 k.2.1).2 := by
  unfold prettyTokensWith at h
  cases hp : prettyAllWith esc env pr sup t [] (initStack t start) (genOutputs t start) with
  | ok l =>
    simp only [hp] at h
    cases h
    obtain ⟨ps', hmem, heq⟩ := prettyAll_ptrace sup t esc env pr [] _ _ _ hp k hk
    obtain ⟨rel, h1, h2⟩ := genOutputs_ptrace sup t start n inScope hat hs _ hmem
    simp only at h1 h2
    refine ⟨rel, h1, ptrace_mem_events sup t _ _ _ hmem, ?_⟩
    rw [← h2]
    exact heq
  | err e => simp [hp] at h
  | panic => simp [hp] at h

/-- A token that receives indentation or a newline has no mixed entry among the entries of the
    open elements strictly above its node. -/
theorem pretty_where_notMixed (esc : Escapers) (env : Env) (pr : TokenParams) (start : Path) (n : Tree)
    (inScope : List (Nat × Nat)) (hat : t.at? start = some n)
    (hs : namespacesInScope t start = some inScope)
    (ks : List (Path × Output × PrettyOutputToken))
    (h : prettyTokensWith esc env pr sup t start = .ok ks)
    (k : Path × Output × PrettyOutputToken) (hk : k ∈ ks)
    (hw : k.2.2.indentation > 0 ∨ k.2.2.newline = true) :
    ∃ rel node, k.1 = start ++ rel ∧ n.at? rel = some node ∧
      PStack.inMixed (pentriesAbove sup n rel) = false := by
  obtain ⟨rel, hp, hev, heq⟩ := pretty_token_entries sup t esc env pr start n inScope hat hs ks h k hk
  obtain ⟨p, o, tok⟩ := k
  simp only at hp hev heq hw
  subst hp
  have hg : genOutputs t start = genNode inScope true start n := by simp [genOutputs, hat, hs]
  rw [hg] at hev
  obtain ⟨rel', n', hp', hat', _, hown⟩ := genNode_tagged inScope true start n _ _ hev
  have hrr : rel' = rel := (List.append_cancel_left hp').symm
  rw [hrr] at hat'
  have hnode : t.at? (start ++ rel) = some n' := by rw [at?_append, hat]; exact hat'
  refine ⟨rel, n', rfl, hat', ?_⟩
  have hind : tok.indentation = (prettifyAt sup t (pentriesFor sup o n rel) (start ++ rel) o).2.1 :=
    congrArg Prod.fst heq
  have hnl : tok.newline = (prettifyAt sup t (pentriesFor sup o n rel) (start ++ rel) o).2.2 :=
    congrArg Prod.snd heq
  unfold prettifyAt at hind hnl
  simp only [hnode] at hind hnl
  cases o with
  | startTagOpen name =>
    simp only [prettify, pentriesFor] at hind hnl
    rcases hw with hw | hw
    · rw [hind] at hw; exact getIndentation_pos hw
    · rw [hnl] at hw; cases hw
  | comment c =>
    simp only [prettify, pentriesFor] at hind hnl
    rcases hw with hw | hw
    · rw [hind] at hw; exact getIndentation_pos hw
    · rw [hnl] at hw; exact getNewline_true hw
  | pi tg d =>
    simp only [prettify, pentriesFor] at hind hnl
    rcases hw with hw | hw
    · rw [hind] at hw; exact getIndentation_pos hw
    · rw [hnl] at hw; exact getNewline_true hw
  | text c =>
    simp only [prettify] at hind hnl
    rcases hw with hw | hw
    · rw [hind] at hw; cases hw
    · rw [hnl] at hw; cases hw
  | pfx a b =>
    simp only [prettify] at hind hnl
    rcases hw with hw | hw
    · rw [hind] at hw; cases hw
    · rw [hnl] at hw; cases hw
  | «attribute» a v =>
    simp only [prettify] at hind hnl
    rcases hw with hw | hw
    · rw [hind] at hw; cases hw
    · rw [hnl] at hw; cases hw
  | startTagClose =>
    simp only [prettify, pentriesFor] at hind hnl
    rcases hw with hw | hw
    · rw [hind] at hw
      split at hw
      · split at hw <;> cases hw
      · cases hw
    · rw [hnl] at hw
      split at hw
      · split at hw
        · have := getNewline_true hw
          first
            | exact inMixed_ite_cons this
            | (split at this <;> first | exact inMixed_ite_cons this | exact inMixed_cons_false this)
        · cases hw
      · cases hw
  | endTag name =>
    have hval := ownEvent_endTag hown
    have hincl := pentriesIncl_eq sup n rel n' hat'
    simp only [prettify, pentriesFor] at hind hnl
    by_cases hc : n'.firstChild?.isSome = true
    · have hopen : openEntryOf sup n' = [entryFor sup n'] := by simp [openEntryOf, hval, hc]
      simp only [hincl, hopen, hc, if_true, List.singleton_append, List.tail_cons] at hind hnl
      rcases hw with hw | hw
      · rw [hind] at hw
        split at hw
        · exact getIndentation_pos hw
        · cases hw
      · rw [hnl] at hw; exact getNewline_true hw
    · have hopen : openEntryOf sup n' = [] := by simp [openEntryOf, hval, hc]
      simp only [hincl, hopen, hc, List.nil_append] at hind hnl
      rcases hw with hw | hw
      · rw [hind] at hw; simp at hw
      · rw [hnl] at hw
        exact getNewline_true (by simpa using hw)

end XotModel
