/-
  C06 lemmas: `clone_node` on a live node of a forest satisfying the invariant returns a node
  (no `unwrap` panics) and never leaves the list semantics.
-/
import XotModel.Lemmas.FatomClone

namespace XotModel
open HTree

theorem length_le_one_of_all_eq {c : Nat} : ∀ {ks : List HTree}, (∀ k ∈ ks, k.handle = c) →
    (ks.map HTree.handle).Nodup → ks.length ≤ 1
  | [], _, _ => Nat.zero_le _
  | [_], _, _ => Nat.le_refl _
  | a :: b :: rest, h, hn => by
    exfalso
    have ha := h a (List.mem_cons_self ..)
    have hb := h b (List.mem_cons_of_mem _ (List.mem_cons_self ..))
    simp only [List.map_cons, List.nodup_cons, List.mem_cons, not_or] at hn
    exact hn.1.1 (ha.trans hb.symm)

namespace Forest

theorem firstChild_isSome_of_kid {f : Forest} (w : f.W) {p c : Nat} (hp : f.parent? c = some p)
    (hn : f.isNormalNode c = true) : ∃ d, f.firstChild p = some d := by
  obtain ⟨cx, hc, hcp⟩ := ctx?_of_parent? hp
  obtain ⟨⟨v, hg⟩, hs⟩ := ctx?_spec w hc
  have hself := ctx?_self w hc
  rw [hcp] at hg
  have hnorm : cx.self.value.isNormal = true := by
    unfold isNormalNode value? at hn
    rw [hself] at hn
    simpa using hn
  unfold firstChild
  rw [hg]
  simp only [HTree.kids]
  cases hd : ((cx.left ++ cx.self :: cx.right).dropWhile (fun k => !k.value.isNormal)).head? with
  | some k => exact ⟨k.handle, rfl⟩
  | none =>
    exfalso
    rw [List.head?_eq_none_iff] at hd
    have := dropWhile_nil_imp _ _ hd cx.self (by simp)
    simp [hnorm] at this

/-- `clone_node`: a node is returned and `corrupt` stays false. -/
theorem cloneNode_spec {f : Forest} (hi : f.Inv) {n : Nat} (hl : f.isLive n = true) :
    (f.cloneNode n).2 ≠ none ∧ (f.cloneNode n).1.corrupt = false := by
  have w := hi.toW
  obtain ⟨src, hg⟩ := get?_of_isLive hl
  have hvalid : validTree (!f.everOff) src = true := findList?_valid _ n f.roots src hi.valid hg
  unfold cloneNode
  rw [hg]
  simp only
  cases hsv : src.value with
  | document =>
    simp only
    obtain ⟨hwr, w1, fr1, hg1, hr1, hdead⟩ := newNode_spec w .document
    unfold newDocument
    rcases hnew : f.newNode .document with ⟨f1, top⟩
    rw [hnew] at hwr w1 fr1 hg1 hr1
    simp only at hwr w1 fr1 hg1 hr1
    subst hwr
    have hdoc1 : f1.isDocument f.next = true := by unfold isDocument value?; rw [hg1]; rfl
    have hel1 : f1.isElement f.next = false := by unfold isElement value?; rw [hg1]; rfl
    have hok : cloneOkList (f1.isElement f.next) src.kids = true := by
      rw [hel1]
      cases src with
      | node h v ks =>
        simp only [HTree.value] at hsv
        subst hsv
        simp only [validTree, Bool.and_eq_true] at hvalid
        obtain ⟨⟨⟨⟨⟨h1, _⟩, _⟩, _⟩, _⟩, h6⟩ := hvalid
        apply validList_cloneOk _ false ks h6
        intro k hk
        have := List.all_eq_true.1 h1 k hk
        simp only [kidAllowed, Bool.and_eq_true, Value.isNormal, beq_iff_eq] at this
        exact Or.inl this.1
    obtain ⟨f2, hf2, g⟩ := cloneKids_grow src.kids f1 f.next w1 (isRoot_live hr1) (Or.inr hdoc1) hok
    rw [hf2]
    exact ⟨by simp, by rw [g.corrupt, fr1.corrupt]; exact hi.notCorrupt⟩
  | element name =>
    simp only
    obtain ⟨hwr, w1, fr1, hg1, hr1, hdead⟩ := newNode_spec w (.element name)
    unfold newElement
    rcases hnew : f.newNode (.element name) with ⟨f1, top⟩
    rw [hnew] at hwr w1 fr1 hg1 hr1
    simp only at hwr w1 fr1 hg1 hr1
    subst hwr
    have hel1 : f1.isElement f.next = true := by unfold isElement value?; rw [hg1]; rfl
    have hltop : f1.isLive f.next = true := isRoot_live hr1
    cases src with
    | node h v ks =>
      simp only [HTree.value] at hsv
      subst hsv
      have hoks : cloneOkList true ks = true := by
        have := valid_cloneOk _ true _ hvalid (Or.inr rfl)
        simpa [cloneOk, Value.isElement] using this
      -- the clone's root
      obtain ⟨f2, x, hres, st, hel, kc⟩ := clone_first_step w1 (.element name) hltop (Or.inl hel1) rfl
        (fun _ => hel1)
      obtain ⟨hp2, he2⟩ := hel rfl
      have hlm : f2.isLive f1.next = true := (parent?_live hp2).1
      obtain ⟨f', hf', g⟩ := cloneKids_grow ks f2 f1.next st.w hlm (Or.inl he2) (by rw [he2]; exact hoks)
      rw [cloneInto_other f1 f.next h (.element name) ks rfl, hres]
      simp only [Value.isElement, if_true, hf']
      obtain ⟨_, w1', fr1', hg1', _, hdead1⟩ := newNode_spec w1 (.element name)
      have hne : f.next ≠ f1.next := fun e => by rw [e, hdead1] at hltop; cases hltop
      -- the clone's root is a normal child of the scratch element
      have hp' : f'.parent? f1.next = some f.next := by rw [g.par _ hlm]; exact hp2
      have km := g.kept _ hlm (Or.inl he2)
      have hn' : f'.isNormalNode f1.next = true := by
        have he' : f'.isElement f1.next = true := by rw [km.isElement]; exact he2
        obtain ⟨nm, hv⟩ := isElement_value he'
        unfold isNormalNode; rw [hv]; rfl
      obtain ⟨d, hd⟩ := firstChild_isSome_of_kid g.w hp' hn'
      rw [hd]
      refine ⟨by simp, ?_⟩
      simp only
      -- splicing the scratch element out: it is a root with exactly one child
      have hltop2 : f2.isLive f.next = true := by
        rw [st.live _ hne, kc.isLive]; exact hltop
      have hltop' : f'.isLive f.next = true := g.live _ hltop2
      have hptop' : f'.parent? f.next = none := by
        rw [g.par _ hltop2, st.par _ hne, kc.parent]; exact isRoot_noParent w1 hr1
      obtain ⟨t, hgt⟩ := get?_of_isLive hltop'
      have hleaf1 : (f1.newNode (.element name)).1.get? f.next = some (.node f.next (.element name) []) := by
        rw [newNode_get? _ hltop, hg1]
      have honly : ∀ y, f'.parent? y = some f.next → y = f1.next := by
        intro y hy
        cases hy2 : f2.isLive y with
        | true =>
          by_cases e : y = f1.next
          · exact e
          · exfalso
            rw [g.par y hy2, st.par y e] at hy
            obtain ⟨cx, hc, hcp⟩ := ctx?_of_parent? hy
            obtain ⟨⟨v, hgp⟩, _⟩ := ctx?_spec w1' hc
            rw [hcp, hleaf1] at hgp
            injection hgp with hgp
            injection hgp with _ _ hk
            simp at hk
        | false =>
          exfalso
          rcases g.newpar y _ hy2 hy with h' | h'
          · exact hne h'
          · rw [hltop2] at h'; cases h'
      have hkids : t.kids.length ≤ 1 := by
        apply length_le_one_of_all_eq (c := f1.next)
        · intro k hk
          exact honly _ (kid_spec g.w hgt hk).2
        · have hnt : (handles t).Nodup := (findList?_sublist _ f'.roots t hgt).nodup g.w.nodup
          rw [handles_eq] at hnt
          exact (map_handle_sublist t.kids).nodup (List.nodup_cons.1 hnt).2
      obtain ⟨_, _, frs⟩ := spliceOut_spec g.w hgt (fun _ => hkids)
      rw [frs.corrupt, g.corrupt, st.corrupt, fr1'.corrupt, fr1.corrupt]
      exact hi.notCorrupt
  | text s =>
    exact ⟨by simp, by
      obtain ⟨_, _, fr1, _⟩ := newNode_spec w (.text s)
      simp only; rw [fr1.corrupt]; exact hi.notCorrupt⟩
  | pi tg d =>
    exact ⟨by simp, by
      obtain ⟨_, _, fr1, _⟩ := newNode_spec w (.pi tg d)
      simp only; rw [fr1.corrupt]; exact hi.notCorrupt⟩
  | comment s =>
    exact ⟨by simp, by
      obtain ⟨_, _, fr1, _⟩ := newNode_spec w (.comment s)
      simp only; rw [fr1.corrupt]; exact hi.notCorrupt⟩
  | «attribute» a b =>
    exact ⟨by simp, by
      obtain ⟨_, _, fr1, _⟩ := newNode_spec w (.attribute a b)
      simp only; rw [fr1.corrupt]; exact hi.notCorrupt⟩
  | «namespace» a b =>
    exact ⟨by simp, by
      obtain ⟨_, _, fr1, _⟩ := newNode_spec w (.namespace a b)
      simp only; rw [fr1.corrupt]; exact hi.notCorrupt⟩

end Forest
end XotModel
