/-
  FparseHist, locality (C12): a separated root `r` below `next` (`SepB`, Lemmas/FlocalAll1.lean) stays
  exactly what it is along a FULL history (`PCall`: parses of arbitrary texts and extended API calls) none
  of whose API steps names a node of `r` as a written argument.

    SepB.fphl_parseInto   installing a parsed tree adds a root on fresh handles: every separated root stays
    SepB.fphl_step        one step (API call: `SepB.xcall`; parse: accepted / rejected)
    SepB.fphl_run         any history

  No invariant is needed (as for `SepB.xrun`, Lemmas/FhistLocal.lean).
-/
import XotModel.Lemmas.FparseHistStep
import XotModel.Lemmas.FhistLocal

namespace XotModel
open HTree

namespace SepB

variable {r : HTree}

/-- `IdStore.parseInto`: the new tree has the handles `next …`, `r`'s are all below `next`. -/
theorem fphl_parseInto {s : IdStore} (hs : SepB r s.forest) (t : Tree) : SepB r (s.parseInto t).1.forest := by
  refine ⟨⟨List.mem_append_left _ hs.sep.mem, ?_⟩, fun a ha => Nat.lt_of_lt_of_le (hs.below a ha) (Nat.le_add_right _ _)⟩
  intro t' ht' hne a ha hat
  rcases List.mem_append.mp ht' with h | h
  · exact hs.sep.disj t' h hne a ha hat
  · rw [List.mem_singleton.mp h] at hat
    have h1 := (handles_ofTree _ t a hat).1
    have h2 := hs.below a ha
    omega

/-- **One step of a full history**: an API call none of whose written node arguments lies in `r`, or the
    parse of any text. -/
theorem fphl_step {st : PStore} (hs : SepB r st.forest) (c : PCall)
    (h : ∀ x, c = .api x → ∀ a ∈ x.writeArgs, a ∉ handles r) : SepB r (st.step c).forest := by
  cases c with
  | api x => exact hs.xcall (st := st.store) x (h x rfl)
  | parse m text =>
    rcases PStore.fph_step_parse_cases st m text with ⟨p, _, h1, _⟩ | ⟨e, env', _, h1, _⟩
    · have : (st.step (.parse m text)).forest = (st.idStore.parseInto p.tree).1.forest := congrArg IdStore.forest h1
      rw [this]; exact fphl_parseInto (s := st.idStore) hs p.tree
    · have : (st.step (.parse m text)).forest = st.forest := congrArg IdStore.forest h1
      rw [this]; exact hs

/-- **Any full history.** -/
theorem fphl_run : ∀ (cs : List PCall) {st : PStore}, SepB r st.forest →
    (∀ c ∈ cs, ∀ x, c = .api x → ∀ a ∈ x.writeArgs, a ∉ handles r) → SepB r (st.run cs).forest
  | [], _, hs, _ => hs
  | c :: cs, st, hs, h =>
    fphl_run cs (st := st.step c) (hs.fphl_step c (h c (by simp))) (fun c' h' => h c' (by simp [h']))

end SepB
end XotModel
