/-
  The token of a text node, over trees: under a CDATA-section element it is `serialize_cdata text`
  (CDATA sections, `&#xD;` between sections for CR) and reads back as the text; everywhere else it
  is `serialize_text` (with or without `unescaped_gt`) and `parse_text` gives back the text.
-/
import XotModel.Lemmas.Entity
import XotModel.Lemmas.Events
import XotModel.Lemmas.PrettyBetween

namespace XotModel
open Gen

/-- `parse_text (serialize_text s) = s`, with or without `unescaped_gt`. -/
theorem parseText_serializeText (gt : Bool) (s : Str) : parseText (serializeText gt s) = .ok s := by
  cases gt with
  | false =>
    have ht : tableOk (('>', textGtEscape) :: textEscapes) = true ∧
        tableCovers false (('>', textGtEscape) :: textEscapes) = true := by decide
    unfold parseText parseContent
    rw [serializeText_false_eq]
    exact parse_escape_roundtrip false _ ht.1 ht.2 s 0 0
  | true =>
    have h : tableOk textEscapes = true ∧ tableCovers false textEscapes = true ∧
        refOk '>' textGtEscape = true := by decide
    unfold parseText parseContent serializeText
    simp only [if_true]
    rw [serializeTextGtGo_eq]
    simpa using gt_roundtrip h.1 h.2.1 h.2.2 s [] 0 0

/-- `serialize_cdata s` read back by the section reader (section contents verbatim, `&#xD;` as CR). -/
theorem cdataSectionsContent_serializeCdata (s : Str) : cdataSectionsContent (serializeCdata s) = some s := by
  have hl : cdataOpen = ['<','!','[','C','D','A','T','A','['] ∧
      cdataSplit = [']',']',']',']','>'] ++ cdataOpen ++ ['>'] ∧
      cdataCr = [']',']','>'] ++ ['&','#','x','D',';'] ++ cdataOpen ∧
      cdataClose = [']',']','>'] := by decide
  obtain ⟨hO, hS, hR, hC⟩ := hl
  have h := cdataGo_sections hO hS hR hC s 0 0 (by omega) (by intro; rfl)
  simp only [List.replicate_zero, List.nil_append, Nat.zero_add] at h
  unfold cdataSectionsContent serializeCdata
  rw [hO]
  simp only [List.cons_append, List.nil_append]
  rw [afterSection_open, h]

/-- What "parent is a CDATA-section element" means. -/
theorem isCdataElement_iff (pr : TokenParams) (parent : Option Tree) :
    isCdataElement pr parent = true ↔
      ∃ par name, parent = some par ∧ par.value = .element name ∧ name ∈ pr.cdataSectionElements := by
  unfold isCdataElement
  cases parent with
  | none => simp
  | some par =>
    cases hv : par.value <;> simp [hv]

/-- The token `render_output` returns for a text event. -/
theorem render_text_token (env : Env) (pr : TokenParams) (s s' : FStack) (node : Tree) (parent : Option Tree)
    (c : Str) (tok : OutputToken)
    (h : renderXmlWith xmlEscapers env pr s node parent (.text c) = .ok (s', tok)) :
    tok.space = false ∧
    (if isCdataElement pr parent then
       tok.text = serializeCdata c ∧ cdataSectionsContent tok.text = some c
     else tok.text = serializeText pr.unescapedGt c ∧ parseText tok.text = .ok c) := by
  simp only [renderXmlWith, xmlEscapers] at h
  split at h
  · rename_i hc
    cases h
    simp [hc, cdataSectionsContent_serializeCdata]
  · rename_i hc
    cases h
    simp [hc, parseText_serializeText]

variable (esc : Escapers) (env : Env) (pr : TokenParams) (t : Tree)

/-- Every token of a successful stream is what `render_output` returned for its event. -/
theorem renderAll_rendered (s : FStack) (evs : List (Path × Output)) (ks : List (Path × Output × OutputToken))
    (h : renderAllWith esc env pr t s evs = .ok ks) :
    ks.map (fun k => (k.1, k.2.1)) = evs ∧
    ∀ k ∈ ks, ∃ s1 s2, renderAtWith esc env pr t s1 k.1 k.2.1 = .ok (s2, k.2.2) := by
  induction evs generalizing s ks with
  | nil =>
    simp only [renderAllWith] at h
    cases h
    simp
  | cons po evs ih =>
    obtain ⟨p, o⟩ := po
    simp only [renderAllWith] at h
    cases hr : renderAtWith esc env pr t s p o with
    | ok st =>
      obtain ⟨s', tok⟩ := st
      simp only [hr] at h
      cases hrest : renderAllWith esc env pr t s' evs with
      | ok l =>
        simp only [hrest] at h
        cases h
        obtain ⟨i1, i2⟩ := ih _ _ hrest
        refine ⟨by simp [i1], ?_⟩
        intro k hk
        rcases List.mem_cons.mp hk with rfl | hk
        · exact ⟨s, s', hr⟩
        · exact i2 k hk
      | err e => simp [hrest] at h
      | panic => simp [hrest] at h
    | err e => simp [hr] at h
    | panic => simp [hr] at h

/-- Token level, over trees: every text token of `Xot::tokens` belongs to a text node of the
    subtree with that value; under a listed element it is `serialize_cdata` of the value and the
    section reader gives the value back, anywhere else `parse_text` does. -/
theorem cdata_token (start : Path) (ks : List (Path × Output × OutputToken))
    (h : tokensWith xmlEscapers env pr t start = .ok ks) (p : Path) (c : Str) (tok : OutputToken)
    (hk : (p, Output.text c, tok) ∈ ks) :
    (∃ node, t.at? p = some node ∧ node.value = .text c) ∧ tok.space = false ∧
    (if isCdataElement pr (t.parentAt? p) then
       tok.text = serializeCdata c ∧ cdataSectionsContent tok.text = some c
     else tok.text = serializeText pr.unescapedGt c ∧ parseText tok.text = .ok c) := by
  unfold tokensWith at h
  cases hr : renderAllWith xmlEscapers env pr t (initStack t start) (genOutputs t start) with
  | err e => simp [hr] at h
  | panic => simp [hr] at h
  | ok l =>
    simp only [hr] at h
    cases h
    obtain ⟨hev, hall⟩ := renderAll_rendered xmlEscapers env pr t _ _ _ hr
    obtain ⟨s1, s2, hrend⟩ := hall _ hk
    simp only at hrend
    unfold renderAtWith at hrend
    cases hn : t.at? p with
    | none => simp [hn] at hrend
    | some node =>
      simp only [hn] at hrend
      refine ⟨⟨node, rfl, ?_⟩, render_text_token env pr s1 s2 node _ c tok hrend⟩
      -- the event belongs to a text node
      have hmem : (p, Output.text c) ∈ genOutputs t start := by
        rw [← hev]
        exact List.mem_map.mpr ⟨_, hk, rfl⟩
      unfold genOutputs at hmem
      cases hs : t.at? start with
      | none => simp [hs] at hmem
      | some n =>
        cases hsc : namespacesInScope t start with
        | none => simp [hs, hsc] at hmem
        | some inScope =>
          simp only [hs, hsc] at hmem
          obtain ⟨rel, n', hp, hat', _, hown⟩ := genNode_tagged inScope true start n _ _ hmem
          have : t.at? p = some n' := by rw [hp, at?_append, hs]; exact hat'
          rw [hn] at this
          cases this
          exact ownEvent_text hown

end XotModel
