/-
  The insertion phase of `create_missing_prefixes_for_element` (Model/Repair `applyRepair`, driven by
  the `undeclare_nodes` list of paths) equals a recursion `rebuild` that decides, node by node, from
  the top frame the walk held there — the same decision the walk took when it recorded the node.
-/
import XotModel.Lemmas.RepairWalk

namespace XotModel.Repair
open XotModel

mutual
/-- The repaired subtree, as a function of the top frame the walk enters it with. -/
def rebuild (nsOf : Nat → Nat) (nd : List (Nat × Nat)) (isTop : Bool) (top : List (Nat × Nat)) : Tree → Tree
  | .node v ks =>
    match v with
    | .element name =>
      let n1 := Tree.node v (rebuildKids nsOf nd (walkTop nsOf top (.node v ks) name) ks)
      let n2 := if isTop then insertNamespaces nd n1 else n1
      if needsUndeclare nsOf top (.node v ks) name then
        insertNamespace Env.emptyPrefix Env.noNamespace n2
      else n2
    | _ =>
      let n1 := Tree.node v (rebuildKids nsOf nd top ks)
      if isTop then insertNamespaces nd n1 else n1
def rebuildKids (nsOf : Nat → Nat) (nd : List (Nat × Nat)) (top : List (Nat × Nat)) : List Tree → List Tree
  | [] => []
  | k :: ks => rebuild nsOf nd false top k :: rebuildKids nsOf nd top ks
end

/-- `undeclare_nodes` contributed by one subtree. -/
def undOf (nsOf : Nat → Nat) (top : List (Nat × Nat)) (pre : Path) (t : Tree) : List Path :=
  (collectRec nsOf top pre t ⟨[], [], []⟩).undeclare

def undOfKids (nsOf : Nat → Nat) (top : List (Nat × Nat)) (pre : Path) (i : Nat) (ks : List Tree) : List Path :=
  (collectKids nsOf top pre i ks ⟨[], [], []⟩).undeclare

mutual
theorem undeclare_acc (nsOf : Nat → Nat) : ∀ (t : Tree) (top : List (Nat × Nat)) (pre : Path) (acc : Acc),
    (collectRec nsOf top pre t acc).undeclare = acc.undeclare ++ undOf nsOf top pre t
  | .node v ks, top, pre, acc => by
    cases v with
    | element name =>
      simp only [undOf, collectRec]
      rw [undeclare_acc_kids nsOf ks, undeclare_acc_kids nsOf ks _ _ _ ⟨_, _, _⟩]
      simp only [List.nil_append]
      split <;> simp [undOfKids]
    | document => simpa [undOf, collectRec, undOfKids] using undeclare_acc_kids nsOf ks top pre 0 acc
    | text s => simpa [undOf, collectRec, undOfKids] using undeclare_acc_kids nsOf ks top pre 0 acc
    | pi a b => simpa [undOf, collectRec, undOfKids] using undeclare_acc_kids nsOf ks top pre 0 acc
    | comment s => simpa [undOf, collectRec, undOfKids] using undeclare_acc_kids nsOf ks top pre 0 acc
    | «attribute» a b => simpa [undOf, collectRec, undOfKids] using undeclare_acc_kids nsOf ks top pre 0 acc
    | «namespace» a b => simpa [undOf, collectRec, undOfKids] using undeclare_acc_kids nsOf ks top pre 0 acc
theorem undeclare_acc_kids (nsOf : Nat → Nat) : ∀ (ks : List Tree) (top : List (Nat × Nat)) (pre : Path) (i : Nat)
    (acc : Acc), (collectKids nsOf top pre i ks acc).undeclare = acc.undeclare ++ undOfKids nsOf top pre i ks
  | [], top, pre, i, acc => by simp [undOfKids, collectKids]
  | k :: ks, top, pre, i, acc => by
    simp only [undOfKids, collectKids]
    rw [undeclare_acc_kids nsOf ks, undeclare_acc nsOf k, undeclare_acc_kids nsOf ks _ _ _ (collectRec _ _ _ _ _),
      undeclare_acc nsOf k _ _ ⟨[], [], []⟩]
    simp [undOfKids, List.append_assoc]
end

theorem undOf_element (nsOf : Nat → Nat) (top : List (Nat × Nat)) (pre : Path) (name : Nat) (ks : List Tree) :
    undOf nsOf top pre (.node (.element name) ks) =
      (if needsUndeclare nsOf top (.node (.element name) ks) name then [pre] else []) ++
        undOfKids nsOf (walkTop nsOf top (.node (.element name) ks) name) pre 0 ks := by
  simp only [undOf, collectRec]
  rw [undeclare_acc_kids]
  split <;> simp

theorem undOf_other (nsOf : Nat → Nat) (top : List (Nat × Nat)) (pre : Path) (v : Value) (ks : List Tree)
    (hv : v.isElement = false) : undOf nsOf top pre (.node v ks) = undOfKids nsOf top pre 0 ks := by
  cases v <;> simp_all [undOf, collectRec, undOfKids, Value.isElement]

theorem undOfKids_cons (nsOf : Nat → Nat) (top : List (Nat × Nat)) (pre : Path) (i : Nat) (k : Tree)
    (ks : List Tree) :
    undOfKids nsOf top pre i (k :: ks) = undOf nsOf top (pre ++ [i]) k ++ undOfKids nsOf top pre (i + 1) ks := by
  simp only [undOfKids, collectKids]
  rw [undeclare_acc_kids, undeclare_acc]
  simp [undOfKids]

mutual
/-- Every recorded node lies in the subtree it was recorded in. -/
theorem undOf_prefix (nsOf : Nat → Nat) : ∀ (t : Tree) (top : List (Nat × Nat)) (pre q : Path),
    q ∈ undOf nsOf top pre t → pre <+: q
  | .node v ks, top, pre, q, h => by
    by_cases hv : v.isElement = true
    · cases v <;> simp [Value.isElement] at hv
      rename_i name
      rw [undOf_element, List.mem_append] at h
      rcases h with h | h
      · split at h
        · simp only [List.mem_singleton] at h; subst h; exact List.prefix_refl _
        · cases h
      · obtain ⟨j, _, hj⟩ := undOfKids_prefix nsOf ks _ pre 0 q h
        exact (List.prefix_append pre [j]).trans hj
    · rw [undOf_other nsOf top pre v ks (by simpa using hv)] at h
      obtain ⟨j, _, hj⟩ := undOfKids_prefix nsOf ks _ pre 0 q h
      exact (List.prefix_append pre [j]).trans hj
theorem undOfKids_prefix (nsOf : Nat → Nat) : ∀ (ks : List Tree) (top : List (Nat × Nat)) (pre : Path) (i : Nat)
    (q : Path), q ∈ undOfKids nsOf top pre i ks → ∃ j, i ≤ j ∧ (pre ++ [j]) <+: q
  | [], top, pre, i, q, h => by simp [undOfKids, collectKids] at h
  | k :: ks, top, pre, i, q, h => by
    rw [undOfKids_cons, List.mem_append] at h
    rcases h with h | h
    · exact ⟨i, Nat.le_refl _, undOf_prefix nsOf k top _ q h⟩
    · obtain ⟨j, hj, hp⟩ := undOfKids_prefix nsOf ks top pre (i + 1) q h
      exact ⟨j, by omega, hp⟩
end

/-- Two children of one node have no common descendant. -/
theorem prefix_snoc_inj {pre q : Path} {i j : Nat} (h1 : (pre ++ [i]) <+: q) (h2 : (pre ++ [j]) <+: q) :
    i = j := by
  obtain ⟨r1, rfl⟩ := h1
  obtain ⟨r2, h2⟩ := h2
  simp only [List.append_assoc, List.append_cancel_left_eq, List.cons_append, List.nil_append,
    List.cons.injEq] at h2
  exact h2.1.symm

theorem snoc_not_prefix_self (pre : Path) (i : Nat) : ¬ (pre ++ [i]) <+: pre := by
  intro h
  have := h.length_le
  simp at this
  omega

mutual
theorem apply_eq_rebuild (nsOf : Nat → Nat) (nd : List (Nat × Nat)) (U : List Path) (tp : Path) :
    ∀ (x : Tree) (cur : Path) (top : List (Nat × Nat)), tp.length ≤ cur.length →
      (∀ q, cur <+: q → (q ∈ U ↔ q ∈ undOf nsOf top cur x)) →
      applyRepair nd U tp cur x = rebuild nsOf nd (cur == tp) top x
  | .node v ks, cur, top, hlen, hU => by
    have hself : (U.contains cur = true) ↔ cur ∈ undOf nsOf top cur (.node v ks) := by
      rw [List.contains_iff_mem]; exact hU cur (List.prefix_refl _)
    by_cases hv : v.isElement = true
    · cases v <;> simp [Value.isElement] at hv
      rename_i name
      have hkids := apply_eq_rebuild_kids nsOf nd U tp ks cur 0
        (walkTop nsOf top (.node (.element name) ks) name) hlen (by
          intro q j _ hq
          rw [hU q ((List.prefix_append cur [j]).trans hq), undOf_element, List.mem_append]
          constructor
          · rintro (h | h)
            · split at h
              · simp only [List.mem_singleton] at h; subst h
                exact absurd hq (snoc_not_prefix_self _ _)
              · cases h
            · exact h
          · exact Or.inr)
      have hown : (U.contains cur = true) ↔ needsUndeclare nsOf top (.node (.element name) ks) name = true := by
        rw [hself, undOf_element, List.mem_append]
        constructor
        · rintro (h | h)
          · split at h
            · assumption
            · cases h
          · obtain ⟨j, _, hj⟩ := undOfKids_prefix nsOf ks _ cur 0 cur h
            exact absurd hj (snoc_not_prefix_self _ _)
        · intro h; left; simp [h]
      cases hn : needsUndeclare nsOf top (.node (.element name) ks) name with
      | true =>
        have := hown.mpr hn
        simp only [applyRepair, rebuild, hkids, this, hn, ↓reduceIte]
      | false =>
        have : U.contains cur = false := by
          cases hc : U.contains cur with
          | false => rfl
          | true => rw [hown.mp hc] at hn; cases hn
        simp only [applyRepair, rebuild, hkids, this, hn, Bool.false_eq_true, ↓reduceIte]
    · have hve : v.isElement = false := by simpa using hv
      have hkids := apply_eq_rebuild_kids nsOf nd U tp ks cur 0 top hlen (by
        intro q j _ hq
        rw [hU q ((List.prefix_append cur [j]).trans hq), undOf_other nsOf top cur v ks hve])
      have hown : U.contains cur = false := by
        cases hc : U.contains cur with
        | false => rfl
        | true =>
          have := hself.mp hc
          rw [undOf_other nsOf top cur v ks hve] at this
          obtain ⟨j, _, hj⟩ := undOfKids_prefix nsOf ks _ cur 0 cur this
          exact absurd hj (snoc_not_prefix_self _ _)
      cases v with
      | element name => simp [Value.isElement] at hve
      | _ => simp only [applyRepair, rebuild, hkids, hown, Bool.false_eq_true, ↓reduceIte]
theorem apply_eq_rebuild_kids (nsOf : Nat → Nat) (nd : List (Nat × Nat)) (U : List Path) (tp : Path) :
    ∀ (ks : List Tree) (cur : Path) (i : Nat) (top : List (Nat × Nat)), tp.length ≤ cur.length →
      (∀ q j, i ≤ j → (cur ++ [j]) <+: q → (q ∈ U ↔ q ∈ undOfKids nsOf top cur i ks)) →
      applyRepair.applyKids nd U tp cur i ks = rebuildKids nsOf nd top ks
  | [], cur, i, top, _, _ => by simp [applyRepair.applyKids, rebuildKids]
  | k :: ks, cur, i, top, hlen, hU => by
    have hne : ((cur ++ [i]) == tp) = false := by
      have : (cur ++ [i]).length ≠ tp.length := by simp; omega
      cases h : (cur ++ [i]) == tp with
      | false => rfl
      | true => exact absurd (congrArg List.length (by simpa using h)) this
    have h1 := apply_eq_rebuild nsOf nd U tp k (cur ++ [i]) top (by simp; omega) (by
      intro q hq
      rw [hU q i (Nat.le_refl _) hq, undOfKids_cons, List.mem_append]
      constructor
      · rintro (h | h)
        · exact h
        · obtain ⟨j, hj, hp⟩ := undOfKids_prefix nsOf ks top cur (i + 1) q h
          have := prefix_snoc_inj hq hp
          omega
      · exact Or.inl)
    have h2 := apply_eq_rebuild_kids nsOf nd U tp ks cur (i + 1) top hlen (by
      intro q j hj hq
      rw [hU q j (by omega) hq, undOfKids_cons, List.mem_append]
      constructor
      · rintro (h | h)
        · have hp := undOf_prefix nsOf k top _ q h
          have := prefix_snoc_inj hq hp
          omega
        · exact h
      · exact Or.inr)
    simp only [applyRepair.applyKids, rebuildKids, h1, h2, hne]
end

/-- The insertion phase with the walk's own `undeclare_nodes`. -/
theorem applyRepair_walk (nsOf : Nat → Nat) (nd : List (Nat × Nat)) (inherited : List (Nat × Nat)) (path : Path)
    (sub : Tree) :
    applyRepair nd (collectRec nsOf inherited path sub ⟨[], [], []⟩).undeclare path path sub =
      rebuild nsOf nd true inherited sub := by
  have := apply_eq_rebuild nsOf nd (undOf nsOf inherited path sub) path sub path inherited (Nat.le_refl _)
    (fun q _ => Iff.rfl)
  simpa [undOf] using this

end XotModel.Repair
