/-
  XotModel.Lemmas.LexReject — lexical rejections: after the canonical spelling of any token list
  `ts` (every length and depth, `LexOK`), a continuation `r` of one of the ill-formed shapes below
  makes the reference tokenizer fail, at the position where the last good token ended:

      lexFragment (renderTokens ts ++ r) = (placeTokens 0 ts, some (strLen (renderTokens ts)))

  Part 1 (this file): the general scheme (`lexFragment_reject_after`, `lexDocument_reject_after`)
  and the scanning lemmas for unterminated constructs.
-/
import XotModel.Lemmas.LexCanon

namespace XotModel.Lex.Canon

open XotModel.Lex XotModel.Lex.Stream

/-! ### The scheme -/

/-- The tokenizer fails at once, whatever position is pending. -/
def FailsAt (frag : Bool) (ctx : LexCtx) (pos : Nat) (r : Str) : Prop :=
  ∀ (tk : Tokenizer) (p : Nat), Matches frag ctx tk → tk.stream = ⟨pos, r⟩ → lexLoop tk p = ([], some p)

theorem lexLoop_reject_after (frag : Bool) (ts : List Token) (r : Str) (tk : Tokenizer)
    (hm : Matches frag (LexCtx.init frag) tk) (hs : tk.stream = ⟨0, renderTokens ts ++ r⟩)
    (hok : LexOK frag ts = true) (hj : JoinOK ts r)
    (hbad : FailsAt frag (ctxAfter frag (LexCtx.init frag) ts) (strLen (renderTokens ts)) r) :
    lexLoop tk 0 = (placeTokens 0 ts, some (strLen (renderTokens ts))) := by
  simp only [LexOK, Bool.and_eq_true] at hok
  obtain ⟨tk', hm', hst', e⟩ := lexLoop_render_app frag ts r (LexCtx.init frag) tk 0 hm hok.1 hok.2
    (by rw [hs]) hj
  rw [hs] at hst' e
  simp only [Nat.zero_add] at hst' e
  have hp : (if ts.isEmpty then 0 else tk'.stream.pos) = strLen (renderTokens ts) := by
    split
    · next h =>
      have : ts = [] := by simpa using h
      subst this; rfl
    · rw [hst']
  rw [hp, hbad tk' _ hm' hst'] at e
  simpa using e

end XotModel.Lex.Canon

namespace XotModel

open XotModel.Lex XotModel.Lex.Canon

/-- **Rejection scheme, fragment mode.** -/
theorem lexFragment_reject_after (ts : List Token) (r : Str) (hok : LexOK true ts = true)
    (hj : JoinOK ts r)
    (hbad : FailsAt true (ctxAfter true (.content 0) ts) (strLen (renderTokens ts)) r) :
    lexFragment (renderTokens ts ++ r) = (placeTokens 0 ts, some (strLen (renderTokens ts))) :=
  lexLoop_reject_after true ts r (Tokenizer.ofFragment (renderTokens ts ++ r)) ⟨rfl, rfl, rfl⟩ rfl hok hj hbad

/-- **Rejection scheme, document mode** (the text does not begin with a byte-order mark). -/
theorem lexDocument_reject_after (ts : List Token) (r : Str) (hok : LexOK false ts = true)
    (hj : JoinOK ts r) (hbom : ts = [] → r.head? ≠ some '\uFEFF')
    (hbad : FailsAt false (ctxAfter false .prolog ts) (strLen (renderTokens ts)) r) :
    lexDocument (renderTokens ts ++ r) = (placeTokens 0 ts, some (strLen (renderTokens ts))) := by
  have hb : ((Stream.ofStr (renderTokens ts ++ r)).curr? == some '\uFEFF') = false := by
    cases ts with
    | nil => simpa [renderTokens, Stream.ofStr, Stream.curr?] using hbom rfl
    | cons t ts =>
      simp only [LexOK, Bool.and_eq_true] at hok
      have := prolog_no_bom hok.2
      rw [renderTokens_cons] at this ⊢
      have hne := render_ne_nil (t := t) (by have := hok.1; simp only [List.all_cons, Bool.and_eq_true] at this; exact this.1)
      cases hr : renderToken t with
      | nil => exact absurd hr hne
      | cons c cs => rw [hr] at this; simpa [Stream.ofStr, Stream.curr?] using this
  have e : Tokenizer.ofStr (renderTokens ts ++ r) =
      ⟨Stream.ofStr (renderTokens ts ++ r), .declaration, 0, false⟩ := by
    simp only [Tokenizer.ofStr, hb, Bool.false_eq_true, if_false]
  unfold lexDocument
  rw [e]
  exact lexLoop_reject_after false ts r _ ⟨rfl, rfl, .inl rfl⟩ rfl hok hj hbad

end XotModel
