/-
  Lemmas for C12, part 9: `clone_node` on a live node of a forest satisfying the invariant is the
  structural copy `copyRoot`, added as a new last root; nothing else changes and it cannot panic.
-/
import XotModel.Lemmas.FcloneReplay

namespace XotModel
open HTree

mutual
  /-- Subtrees of valid trees are valid. -/
  theorem validTree_find (b : Bool) (h : Nat) : ∀ t : HTree, validTree b t = true →
      ∀ s, find? h t = some s → validTree b s = true
    | .node h' v ks => by
      intro hv s hs
      unfold find? at hs
      by_cases e : h' = h
      · rw [if_pos e] at hs
        cases hs
        exact hv
      · rw [if_neg e] at hs
        exact validList_find b h ks (validTree_kids b h' v ks hv) s hs
  theorem validList_find (b : Bool) (h : Nat) : ∀ ks : List HTree, validList b ks = true →
      ∀ s, findList? h ks = some s → validTree b s = true
    | [] => by intro _ s hs; simp [findList?] at hs
    | k :: ks => by
      intro hv s hs
      obtain ⟨h1, h2⟩ := fc_validList_cons b k ks hv
      unfold findList? at hs
      cases hk : find? h k with
      | some t =>
        rw [hk] at hs
        cases hs
        exact validTree_find b h k h1 _ hk
      | none =>
        rw [hk] at hs
        exact validList_find b h ks h2 s hs
end

theorem Forest.Inv.valid_get {f : Forest} (inv : f.Inv) {h : Nat} {s : HTree} (hs : f.get? h = some s) :
    validTree (!f.everOff) s = true :=
  validList_find _ h f.roots inv.valid s hs

/-- The state right after the temporary top node was created. -/
theorem Cloning.init {f : Forest} (inv : f.Inv) (vt : Value) :
    Cloning (f.newNode vt).1 f.roots [] f.next vt [] := by
  refine ⟨rfl, ?_, ?_⟩
  · simp only [frameHandles, handlesList, List.nil_append]
    rw [List.nodup_append]
    refine ⟨inv.nodup, by simp, ?_⟩
    intro a ha b hb
    simp only [List.mem_singleton] at hb
    have := inv.below a ha
    omega
  · intro h hh
    simp only [frameHandles, handlesList, List.nil_append, List.mem_append, List.mem_singleton] at hh
    show h < f.next + 1
    rcases hh with h1 | h1
    · have := inv.below h h1; omega
    · omega

/-- Reading and removing the temporary top node. -/
theorem top_get? (g : Forest) (R : List HTree) (top : Nat) (vt : Value) (Kt : List HTree)
    (hr : g.roots = R ++ [.node top vt Kt]) (hn : top ∉ handlesList R) :
    g.get? top = some (.node top vt Kt) := by
  unfold Forest.get?
  rw [hr, findList?_append_of_not_mem top _ _ hn, fc_findList?_cons_self]

theorem top_spliceOut (g : Forest) (R : List HTree) (top : Nat) (vt : Value) (C : HTree)
    (hr : g.roots = R ++ [.node top vt [C]]) (hn : top ∉ handlesList R) :
    g.spliceOut top = g.withRoots (R ++ [C]) := by
  unfold Forest.spliceOut
  rw [top_get? g R top vt [C] hr hn]
  have hroot : g.isRoot top = true := by
    unfold Forest.isRoot
    rw [hr]
    simp [HTree.handle]
  simp only [hroot, if_true, HTree.kids, List.length_singleton, Nat.le_refl]
  rw [hr, List.filter_append, filter_handle_ne_of_not_mem top R hn]
  have h2 : (HTree.node top vt [C]).handle = top := rfl
  simp [List.filter_cons, h2, Forest.withRoots]

/-- `clone_node` = `copyRoot`. -/
theorem cloneNode_spec (f : Forest) (inv : f.Inv) (node : Nat) (src : HTree)
    (hsrc : f.get? node = some src) :
    ∃ f', f.cloneNode node = (f', some (copyRoot f.consolidation f.next src).1.handle) ∧
      f'.roots = f.roots ++ [(copyRoot f.consolidation f.next src).1] ∧
      f'.next = (copyRoot f.consolidation f.next src).2 ∧ SameFlags f f' ∧
      (handlesList f.roots ++ handles (copyRoot f.consolidation f.next src).1).Nodup := by
  have hleaf : ∀ v : Value, (handlesList f.roots ++ handles (.node f.next v [])).Nodup := by
    intro v
    simp only [handles, handlesList]
    rw [List.nodup_append]
    refine ⟨inv.nodup, by simp, ?_⟩
    intro a ha b hb
    simp only [List.mem_singleton] at hb
    have := inv.below a ha
    omega
  have hvalid := inv.valid_get hsrc
  unfold Forest.cloneNode
  rw [hsrc]
  cases src with
  | node h v ks =>
    cases v with
    | document =>
      have init := Cloning.init inv .document
      obtain ⟨g2, h2, cl2, hn2, hf2⟩ := cloneKids_spec _ ks _ f.roots [] f.next .document [] init
        (validTree_kids _ h _ ks hvalid) (pending_init _ h _ ks hvalid)
      refine ⟨g2, ?_, ?_, ?_, hf2, ?_⟩
      · simp only [HTree.value, Forest.newDocument, HTree.kids]
        have : (f.newNode .document) = ((f.newNode .document).1, f.next) := rfl
        rw [this]
        simp only [h2]
        rfl
      · rw [cl2.roots]; rfl
      · rw [hn2]; rfl
      · have := cl2.nodup
        have e1 : (f.newNode Value.document).1.consolidation = f.consolidation := rfl
        have e2 : (f.newNode Value.document).1.next = f.next + 1 := rfl
        rw [e1, e2] at this
        simpa [frameHandles, copyRoot, handles] using this
    | element e =>
      have init := Cloning.init inv (.element e)
      obtain ⟨g2, h2, cl2, hn2, hf2⟩ := cloneInto_spec _ (.node h (.element e) ks) _ f.roots []
        f.next (.element e) [] init hvalid (Or.inl rfl)
      have e1 : (copyInto (f.newNode (.element e)).1.consolidation [] (f.newNode (.element e)).1.next
          (.node h (.element e) ks)).1 =
          [.node (f.next + 1) (.element e) (copyKids f.consolidation [] (f.next + 2) ks).1] := by
        simp [copyInto, Forest.newNode]
      rw [e1] at cl2
      have hr : g2.roots = f.roots ++ [.node f.next (.element e)
          [.node (f.next + 1) (.element e) (copyKids f.consolidation [] (f.next + 2) ks).1]] := cl2.roots
      have htop : f.next ∉ handlesList f.roots := fun hh => Nat.lt_irrefl _ (inv.below _ hh)
      have hfc : g2.firstChild f.next = some (f.next + 1) := by
        unfold Forest.firstChild
        rw [top_get? g2 f.roots f.next _ _ hr htop]
        simp [HTree.kids, HTree.value, Value.isNormal, Value.category, HTree.handle]
      refine ⟨g2.withRoots (f.roots ++ [.node (f.next + 1) (.element e)
          (copyKids f.consolidation [] (f.next + 2) ks).1]), ?_, rfl, ?_, hf2, ?_⟩
      · simp only [HTree.value, Forest.newElement]
        have : (f.newNode (.element e)) = ((f.newNode (.element e)).1, f.next) := rfl
        rw [this]
        simp only [h2, hfc, top_spliceOut g2 f.roots f.next _ _ hr htop]
        rfl
      · show g2.next = _
        rw [hn2]
        simp [copyInto, copyRoot, Forest.newNode]
      · have hnd := cl2.nodup
        simp only [frameHandles, List.nil_append, handlesList, List.append_nil] at hnd
        refine List.Nodup.sublist ?_ hnd
        simp only [copyRoot]
        exact List.Sublist.append (List.Sublist.refl _) (List.sublist_cons_self _ _)
    | text s => exact ⟨_, rfl, rfl, rfl, ⟨rfl, rfl, rfl⟩, hleaf _⟩
    | pi t d => exact ⟨_, rfl, rfl, rfl, ⟨rfl, rfl, rfl⟩, hleaf _⟩
    | comment s => exact ⟨_, rfl, rfl, rfl, ⟨rfl, rfl, rfl⟩, hleaf _⟩
    | «attribute» a s => exact ⟨_, rfl, rfl, rfl, ⟨rfl, rfl, rfl⟩, hleaf _⟩
    | «namespace» p ns => exact ⟨_, rfl, rfl, rfl, ⟨rfl, rfl, rfl⟩, hleaf _⟩

end XotModel
