/-
  C06 lemmas, forest level: putting a detached tree back (`placeAfter/Before/Last/First`,
  `addRoot`), `newNode`, `detachRaw`.  All keep the weak invariant and frame everything outside
  the tree.
-/
import XotModel.Lemmas.FatomAnc
import XotModel.Lemmas.FatomInsert

namespace XotModel
open HTree

namespace Forest

/-- A detached tree that can be put (back) into `f`. -/
structure Fresh (f : Forest) (t : HTree) : Prop where
  nodup : (handles t).Nodup
  disjoint : ∀ x ∈ handles t, x ∉ f.allHandles
  leaf : leafOk t = true
  below : ∀ x ∈ handles t, x < f.next

theorem W_of_count_add {f f' : Forest} (w : f.W) {t : HTree} (fr : Fresh f t)
    (hn : f'.next = f.next)
    (hc : ∀ a, f'.allHandles.count a = f.allHandles.count a + (handles t).count a)
    (hl : leafOkList f'.roots = true) : f'.W := by
  refine ⟨?_, hl, ?_⟩
  · rw [List.nodup_iff_count]
    intro a
    rw [hc a]
    have h1 := (List.nodup_iff_count.1 w.nodup) a
    have h2 := (List.nodup_iff_count.1 fr.nodup) a
    by_cases ha : a ∈ handles t
    · have := List.count_eq_zero.2 (fr.disjoint a ha); omega
    · have := List.count_eq_zero.2 ha; omega
  · intro x hx
    have := List.count_pos_iff.2 hx
    rw [hc x] at this
    rw [hn]
    by_cases ha : x ∈ handles t
    · exact fr.below x ha
    · have h0 := List.count_eq_zero.2 ha
      exact w.below x (List.count_pos_iff.1 (by omega))

/-- The subtree returned by `cut` can be put back. -/
theorem cut_fresh {f : Forest} (w : f.W) {h : Nat} {t : HTree} (hg : f.get? h = some t) :
    Fresh (f.cut h).1 t := by
  obtain ⟨_, w1, hc, fr, hl⟩ := cut_spec w hg
  have hsub := findList?_sublist h f.roots t hg
  refine ⟨hsub.nodup w.nodup, ?_, hl, ?_⟩
  · intro x hx hx'
    have h1 := (List.nodup_iff_count.1 w.nodup) x
    have h2 := hc x
    have h3 := List.count_pos_iff.2 hx
    have h4 := List.count_pos_iff.2 hx'
    omega
  · intro x hx
    have : x ∈ f.allHandles := hsub.subset hx
    exact Nat.lt_of_lt_of_le (w.below x this) fr.next_le

theorem findSome?_map_congr {α β γ : Type} (g : α → β) (p : β → Option γ) (q : α → Option γ)
    (h : ∀ a, p (g a) = q a) : ∀ l : List α, (l.map g).findSome? p = l.findSome? q
  | [] => rfl
  | a :: l => by
    rw [List.map_cons, List.findSome?_cons, List.findSome?_cons, h a, findSome?_map_congr g p q h l]

theorem placeUnder_spec {f : Forest} (w : f.W) {t : HTree} (fr : Fresh f t) {p : Nat}
    (g : HTree → HTree) (hg : InsertsUnder g t)
    (hgl : ∀ n, f.get? p = some n → leafOk (g n) = true) (hp : f.isLive p = true) :
    let f' : Forest := { f with roots := f.roots.map (mapAt p g) }
    f'.W ∧ (∀ a, f'.allHandles.count a = f.allHandles.count a + (handles t).count a) ∧
    Frame f f' (handles t) := by
  intro f'
  have hroots : f'.roots = mapAtList p g f.roots := (mapAtList_eq_map p g f.roots).symm
  have hc : ∀ a, f'.allHandles.count a = f.allHandles.count a + (handles t).count a := by
    intro a
    show (handlesList f'.roots).count a = _
    rw [hroots]
    exact mapAtList_count_ins p g t hg f.roots w.nodup ((isLive_iff_mem f p).1 hp) a
  have hl : leafOkList f'.roots = true := by
    rw [hroots]
    exact leafOkList_mapAtList p g f.roots w.nodup w.leaves hgl
  refine ⟨W_of_count_add w fr rfl hc hl, hc, ⟨?_, ?_, rfl, rfl, Nat.le_refl _⟩⟩
  · intro x hx
    rw [parent?_eq, parent?_eq]
    exact findSome?_map_congr _ _ _ (fun a => mapAt_parent_ins p x g t hg hx a) f.roots
  · intro x hx
    have : f'.value? x = f.value? x := by
      unfold value? get?
      rw [hroots]
      exact mapAtList_value_ins p x g t hg hx f.roots
    rw [this]

theorem container_leafOk {f : Forest} (w : f.W) {p : Nat}
    (hc : f.isElement p = true ∨ f.isDocument p = true)
    (ks : HTree → List HTree) (hks : ∀ n, leafOkList n.kids = true → leafOkList (ks n) = true) :
    ∀ n, f.get? p = some n → leafOk (n.setKids (ks n)) = true := by
  intro n hn
  have hl := findList?_leafOk p f.roots n w.leaves hn
  have hv : f.value? p = some n.value := by unfold value?; rw [hn]; rfl
  cases n with
  | node h v kids =>
    simp only [HTree.setKids, leafOk, Bool.and_eq_true, Bool.or_eq_true] at hl ⊢
    refine ⟨?_, hks _ hl.2⟩
    simp only [HTree.value] at hv
    unfold isElement isDocument at hc
    rw [hv] at hc
    simp only [Option.map_some, beq_iff_eq, Option.some.injEq] at hc
    rcases hc with h' | h'
    · exact Or.inl (Or.inr h')
    · exact Or.inr h'

theorem placeLast_spec {f : Forest} (w : f.W) {t : HTree} (fr : Fresh f t) {p : Nat}
    (hp : f.isLive p = true) (hc : f.isElement p = true ∨ f.isDocument p = true) :
    (f.placeLast p t).W ∧
    (∀ a, (f.placeLast p t).allHandles.count a = f.allHandles.count a + (handles t).count a) ∧
    Frame f (f.placeLast p t) (handles t) :=
  placeUnder_spec w fr _ (insertsLast t)
    (container_leafOk w hc (fun n => n.kids ++ [t]) (fun n hn => by
      rw [leafOkList_append, hn]; simp [leafOkList, fr.leaf])) hp

theorem placeFirst_spec {f : Forest} (w : f.W) {t : HTree} (fr : Fresh f t) {p : Nat}
    (hp : f.isLive p = true) (hc : f.isElement p = true ∨ f.isDocument p = true) :
    (f.placeFirst p t).W ∧
    (∀ a, (f.placeFirst p t).allHandles.count a = f.allHandles.count a + (handles t).count a) ∧
    Frame f (f.placeFirst p t) (handles t) :=
  placeUnder_spec w fr _ (insertsFirst t)
    (container_leafOk w hc (fun n => t :: n.kids) (fun n hn => by
      simp [leafOkList, fr.leaf, hn])) hp

theorem placeBeside_spec {f : Forest} (w : f.W) {t : HTree} (fr : Fresh f t) {ref : Nat}
    (F : HTree → List HTree) (hF : InsertsBeside F t) (hl : f.isLive ref = true)
    (hr : f.isRoot ref = false) :
    let f' : Forest := { f with roots := f.roots.map (replaceBelow ref F) }
    f'.W ∧ (∀ a, f'.allHandles.count a = f.allHandles.count a + (handles t).count a) ∧
    Frame f f' (handles t) := by
  intro f'
  obtain ⟨tr, hg⟩ : ∃ tr, f.get? ref = some tr := by
    unfold isLive at hl
    cases h : f.get? ref with
    | none => rw [h] at hl; cases hl
    | some tr => exact ⟨tr, rfl⟩
  have hroots : f'.roots = replaceKids ref F f.roots := map_replaceBelow_eq ref F f.roots hr
  have hc : ∀ a, f'.allHandles.count a = f.allHandles.count a + (handles t).count a := by
    intro a
    have h1 := replaceKids_count ref F f.roots tr w.nodup hg a
    have h2 := hF.handles tr a
    show (handlesList f'.roots).count a = _
    rw [hroots]
    unfold allHandles
    omega
  have hlv : leafOkList f'.roots = true := by
    rw [hroots]
    exact leafOkList_replaceKids ref F (hF.leaf fr.leaf) f.roots w.leaves
  refine ⟨W_of_count_add w fr rfl hc hlv, hc, ⟨?_, ?_, rfl, rfl, Nat.le_refl _⟩⟩
  · intro x hx
    rw [parent?_eq, parent?_eq]
    exact findSome?_map_congr _ _ _ (fun a => replaceBelow_parent_ins ref x F t hF hx a) f.roots
  · intro x hx
    have : f'.value? x = f.value? x := by
      unfold value? get?
      rw [hroots]
      exact replaceKids_value_ins ref x F t hF hx f.roots
    rw [this]

theorem placeAfter_spec {f : Forest} (w : f.W) {t : HTree} (fr : Fresh f t) {ref : Nat}
    (hl : f.isLive ref = true) (hr : f.isRoot ref = false) :
    (f.placeAfter ref t).W ∧
    (∀ a, (f.placeAfter ref t).allHandles.count a = f.allHandles.count a + (handles t).count a) ∧
    Frame f (f.placeAfter ref t) (handles t) :=
  placeBeside_spec w fr _ (insertsAfter t) hl hr

theorem placeBefore_spec {f : Forest} (w : f.W) {t : HTree} (fr : Fresh f t) {ref : Nat}
    (hl : f.isLive ref = true) (hr : f.isRoot ref = false) :
    (f.placeBefore ref t).W ∧
    (∀ a, (f.placeBefore ref t).allHandles.count a = f.allHandles.count a + (handles t).count a) ∧
    Frame f (f.placeBefore ref t) (handles t) :=
  placeBeside_spec w fr _ (insertsBefore t) hl hr

theorem addRoot_spec {f : Forest} (w : f.W) {t : HTree} (fr : Fresh f t) :
    (f.addRoot t).W ∧
    (∀ a, (f.addRoot t).allHandles.count a = f.allHandles.count a + (handles t).count a) ∧
    Frame f (f.addRoot t) (handles t) ∧ (f.addRoot t).get? t.handle = some t ∧
    (f.addRoot t).isRoot t.handle = true := by
  have hc : ∀ a, (f.addRoot t).allHandles.count a = f.allHandles.count a + (handles t).count a := by
    intro a
    show (handlesList (f.roots ++ [t])).count a = _
    rw [fa_handlesList_append]
    simp [handlesList, allHandles]
  have hl : leafOkList (f.addRoot t).roots = true := by
    show leafOkList (f.roots ++ [t]) = true
    rw [leafOkList_append, w.leaves]; simp [leafOkList, fr.leaf]
  refine ⟨W_of_count_add w fr rfl hc hl, hc, ⟨?_, ?_, rfl, rfl, Nat.le_refl _⟩, ?_, ?_⟩
  · intro x hx
    rw [parent?_eq, parent?_eq]
    show (f.roots ++ [t]).findSome? _ = _
    rw [List.findSome?_append]
    simp only [List.findSome?_cons, List.findSome?_nil, parentBelow_none_of_not_mem hx]
    cases List.findSome? (parentBelow x) f.roots <;> rfl
  · intro x hx
    have : (f.addRoot t).value? x = f.value? x := by
      show (findList? x (f.roots ++ [t])).map HTree.value = _
      rw [fa_findList?_append]
      simp only [findList?, (find?_none_iff _ _).2 hx]
      unfold value? get?
      cases findList? x f.roots <;> rfl
    rw [this]
  · show findList? t.handle (f.roots ++ [t]) = some t
    rw [fa_findList?_append]
    have : t.handle ∉ f.allHandles := fr.disjoint _ (handle_mem_handles t)
    rw [(findList?_none_iff _ _).2 this]
    simp only [findList?, find?_self]
  · show (f.roots ++ [t]).any _ = true
    simp

theorem newNode_spec {f : Forest} (w : f.W) (v : Value) :
    (f.newNode v).2 = f.next ∧ (f.newNode v).1.W ∧ Frame f (f.newNode v).1 [f.next] ∧
    (f.newNode v).1.get? f.next = some (.node f.next v []) ∧
    (f.newNode v).1.isRoot f.next = true ∧ f.isLive f.next = false := by
  have hdead : f.next ∉ f.allHandles := fun h' => Nat.lt_irrefl _ (w.below _ h')
  have hx : ∀ x, x ∉ [f.next] → x ∉ handles (.node f.next v []) := by
    intro x hx; simpa [handles, handlesList] using hx
  refine ⟨rfl, ⟨?_, ?_, ?_⟩, ⟨?_, ?_, rfl, rfl, Nat.le_succ _⟩, ?_, ?_, ?_⟩
  · show (handlesList (f.roots ++ [HTree.node f.next v []])).Nodup
    rw [fa_handlesList_append]
    simp only [handlesList, handles, List.append_nil]
    rw [List.nodup_append]
    exact ⟨w.nodup, by simp, fun a ha b hb => by
      simp only [List.mem_singleton] at hb; subst hb; exact fun e => hdead (e ▸ ha)⟩
  · show leafOkList (f.roots ++ [HTree.node f.next v []]) = true
    rw [leafOkList_append, w.leaves]; simp [leafOkList, leafOk]
  · intro x hx'
    have : x ∈ handlesList (f.roots ++ [HTree.node f.next v []]) := hx'
    rw [fa_handlesList_append] at this
    simp only [handlesList, handles, List.append_nil, List.mem_append, List.mem_singleton] at this
    show x < f.next + 1
    rcases this with h' | h'
    · exact Nat.lt_succ_of_lt (w.below x h')
    · omega
  · intro x hx'
    rw [parent?_eq, parent?_eq]
    show (f.roots ++ [HTree.node f.next v []]).findSome? _ = _
    rw [List.findSome?_append]
    simp only [List.findSome?_cons, List.findSome?_nil, parentBelow_none_of_not_mem (hx x hx')]
    cases List.findSome? (parentBelow x) f.roots <;> rfl
  · intro x hx'
    have : (f.newNode v).1.value? x = f.value? x := by
      show (findList? x (f.roots ++ [HTree.node f.next v []])).map HTree.value = _
      rw [fa_findList?_append]
      simp only [findList?, (find?_none_iff _ _).2 (hx x hx')]
      unfold value? get?
      cases findList? x f.roots <;> rfl
    rw [this]
  · show findList? f.next (f.roots ++ [HTree.node f.next v []]) = some _
    rw [fa_findList?_append, (findList?_none_iff _ _).2 hdead]
    simp [findList?, find?]
  · show (f.roots ++ [HTree.node f.next v []]).any _ = true
    simp [HTree.handle]
  · cases h : f.isLive f.next with
    | false => rfl
    | true => exact absurd ((isLive_iff_mem f _).1 h) hdead

/-- `detach` at indextree level: the subtree becomes a root. -/
theorem detachRaw_spec {f : Forest} (w : f.W) {h : Nat} {t : HTree} (hg : f.get? h = some t) :
    (f.detachRaw h).W ∧ Frame f (f.detachRaw h) (handles t) ∧
    (f.detachRaw h).get? h = some t ∧ (f.detachRaw h).isRoot h = true ∧
    (∀ a, (f.detachRaw h).allHandles.count a = f.allHandles.count a) := by
  obtain ⟨h1, w1, hc, fr1, _⟩ := cut_spec w hg
  have fresh := cut_fresh w hg
  have hd : f.detachRaw h = (f.cut h).1.addRoot t := by
    unfold detachRaw
    rcases hcut : f.cut h with ⟨f', o⟩
    rw [hcut] at h1
    simp only at h1
    subst h1
    rfl
  rw [hd]
  obtain ⟨w2, hc2, fr2, hg2, hr2⟩ := addRoot_spec w1 fresh
  rw [get?_handle hg] at hg2 hr2
  refine ⟨w2, (fr1.trans fr2).mono (fun x hx => by simpa using hx), hg2, hr2, ?_⟩
  intro a
  have := hc a
  have := hc2 a
  omega

theorem detachRaw_dead {f : Forest} {h : Nat} (hg : f.get? h = none) : f.detachRaw h = f := by
  unfold detachRaw; rw [cut_dead hg]

end Forest
end XotModel
