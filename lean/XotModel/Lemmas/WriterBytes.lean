/-
  XotModel.Lemmas.WriterBytes — the failing writer at byte level (`Model/WriterBytes.lean`).

  * `utf8` is a monoid morphism (`utf8_append`, `utf8_flatten`), is `String.toUTF8` (`utf8_toUTF8`, for every
    text, through `utf8Char_eq_core`), and its length is the model's `strLen`;
  * `writeCallsB` / `replayCallsB`: the byte-level copies of the lemmas of `Lemmas/Writer.lean`, the
    decomposition of a refusal (`writeCallsB_error_iff`), the byte budget (`replayCallsB_byteBudget`);
  * the bridge to the character level (`replayCallsB_chars`): a byte-level writer `B` and the character-level
    writer `B.chars` refuse the same call; the bytes `B` holds are the `utf8` of the characters `B.chars` holds
    followed by at most 3 bytes — a proper prefix of the next character's encoding.
-/
import XotModel.Model.WriterBytes
import XotModel.Lemmas.Writer

namespace XotModel

/-! ### `utf8` -/

theorem utf8_append (a b : Str) : utf8 (a ++ b) = utf8 a ++ utf8 b := by
  induction a with
  | nil => rfl
  | cons c cs ih => simp only [List.cons_append, utf8, ih, List.append_assoc]

theorem utf8_nil : utf8 [] = [] := rfl

theorem utf8_flatten (l : List Str) : utf8 l.flatten = (l.map utf8).flatten := by
  induction l with
  | nil => rfl
  | cons c cs ih => simp only [List.flatten_cons, utf8_append, ih, List.map_cons]

/-- The hand-written encoder is the one of Lean's core (`String.utf8EncodeChar`), for every character. -/
theorem utf8Char_eq_core (c : Char) : utf8Char c = String.utf8EncodeChar c := by
  unfold utf8Char String.utf8EncodeChar
  simp only []
  have hlt : c.val.toNat < 0x110000 := by
    rcases c.valid with h | h
    · exact Nat.lt_trans h (by decide)
    · exact h.2
  generalize c.val.toNat = v at hlt
  by_cases h1 : v < 0x80
  · have h1' : v ≤ 0x7f := by omega
    simp only [h1, h1', ↓reduceIte]
  · have h1' : ¬ v ≤ 0x7f := by omega
    by_cases h2 : v < 0x800
    · have h2' : v ≤ 0x7ff := by omega
      have : v / 64 % 0x20 = v / 64 := by omega
      simp only [h1, h1', h2, h2', ↓reduceIte, this, Nat.add_comm]
    · have h2' : ¬ v ≤ 0x7ff := by omega
      by_cases h3 : v < 0x10000
      · have h3' : v ≤ 0xffff := by omega
        have : v / 4096 % 0x10 = v / 4096 := by omega
        simp only [h1, h1', h2, h2', h3, h3', ↓reduceIte, this, Nat.add_comm]
      · have h3' : ¬ v ≤ 0xffff := by omega
        have : v / 262144 % 0x08 = v / 262144 := by omega
        simp only [h1, h1', h2, h2', h3, h3', ↓reduceIte, this, Nat.add_comm]

theorem utf8_eq_flatMap (s : Str) : utf8 s = s.flatMap String.utf8EncodeChar := by
  induction s with
  | nil => rfl
  | cons c cs ih => simp [utf8, ih, utf8Char_eq_core]

/-- `utf8` is `String::as_bytes` as Lean's own strings have it: the bytes of `String.ofList s`. -/
theorem utf8_toUTF8 (s : Str) : (String.ofList s).toUTF8 = (utf8 s).toByteArray := by
  rw [String.toUTF8_eq_toByteArray, String.toByteArray_ofList, utf8_eq_flatMap]; rfl

/-- `char::len_utf8`. -/
theorem utf8Char_length (c : Char) : (utf8Char c).length = utf8Len c := by
  unfold utf8Char utf8Len Char.toNat
  simp only []
  split
  · rfl
  · split
    · rfl
    · split <;> rfl

theorem utf8Char_length_pos (c : Char) : 0 < (utf8Char c).length := by
  rw [utf8Char_length]; unfold utf8Len; split <;> (try split) <;> (try split) <;> omega

theorem utf8Char_length_le (c : Char) : (utf8Char c).length ≤ 4 := by
  rw [utf8Char_length]; unfold utf8Len; split <;> (try split) <;> (try split) <;> omega

/-- `str::len`. -/
theorem utf8_length (s : Str) : (utf8 s).length = strLen s := by
  induction s with
  | nil => rfl
  | cons c cs ih => simp only [utf8, strLen, List.length_append, utf8Char_length, ih]

/-! ### `writeCallsB` -/

theorem writeCallsB_append (B : BytePolicy) (hist : List (List UInt8)) (a b : List Str) :
    writeCallsB B hist (a ++ b) =
      (match writeCallsB B hist a with
       | .ok h => writeCallsB B h b
       | .error e => .error e) := by
  induction a generalizing hist with
  | nil => simp [writeCallsB]
  | cons c cs ih =>
    simp only [List.cons_append, writeCallsB]
    cases B hist (utf8 c) with
    | none => exact ih _
    | some k => rfl

/-- Accepted calls are recorded in order, as bytes. -/
theorem writeCallsB_ok (B : BytePolicy) (hist : List (List UInt8)) (cs : List Str) (h : List (List UInt8))
    (hw : writeCallsB B hist cs = .ok h) : h = hist ++ cs.map utf8 := by
  induction cs generalizing hist with
  | nil => simp [writeCallsB] at hw; simp [hw]
  | cons c cs ih =>
    simp only [writeCallsB] at hw
    cases hp : B hist (utf8 c) with
    | none => rw [hp] at hw; simp only [] at hw; rw [ih _ hw]; simp
    | some k => rw [hp] at hw; cases hw

/-- **A refusal, decomposed.**  `writeCallsB` ends in an error holding `b` exactly when the calls split into
    accepted calls `pre`, the refused call `c` (the writer answers `some k`) and calls never made; `b` is the
    bytes held before, the accepted calls' bytes, and the first `k` bytes of the refused call. -/
theorem writeCallsB_error_iff (B : BytePolicy) (hist : List (List UInt8)) (cs : List Str) (b : List UInt8) :
    writeCallsB B hist cs = .error b ↔
      ∃ pre c post k, cs = pre ++ c :: post ∧ writeCallsB B hist pre = .ok (hist ++ pre.map utf8) ∧
        B (hist ++ pre.map utf8) (utf8 c) = some k ∧
        b = (hist ++ pre.map utf8).flatten ++ (utf8 c).take k := by
  induction cs generalizing hist with
  | nil =>
    simp only [writeCallsB]
    constructor
    · intro h; cases h
    · rintro ⟨pre, c, post, k, h, _⟩; cases pre <;> cases h
  | cons c cs ih =>
    simp only [writeCallsB]
    cases hp : B hist (utf8 c) with
    | none =>
      simp only []
      rw [ih]
      constructor
      · rintro ⟨pre, c', post, k, h1, h2, h3, h4⟩
        refine ⟨c :: pre, c', post, k, by rw [h1]; rfl, ?_, ?_, ?_⟩
        · simp only [writeCallsB, hp, List.map_cons]
          rw [h2]; simp
        · rw [← h3]; simp
        · rw [h4]; simp
      · rintro ⟨pre, c', post, k, h1, h2, h3, h4⟩
        cases pre with
        | nil =>
          simp only [List.nil_append, List.cons.injEq] at h1
          obtain ⟨rfl, rfl⟩ := h1
          simp only [List.map_nil, List.append_nil] at h3
          rw [hp] at h3; cases h3
        | cons c0 pre =>
          simp only [List.cons_append, List.cons.injEq] at h1
          obtain ⟨rfl, rfl⟩ := h1
          refine ⟨pre, c', post, k, rfl, ?_, ?_, ?_⟩
          · simp only [writeCallsB, hp, List.map_cons] at h2
            rw [h2]; simp
          · rw [← h3]; simp
          · rw [h4]; simp
    | some k =>
      simp only []
      constructor
      · intro h
        injection h with h
        exact ⟨[], c, cs, k, rfl, by simp [writeCallsB], by simpa using hp, by rw [← h]; simp⟩
      · rintro ⟨pre, c', post, k', h1, h2, h3, h4⟩
        cases pre with
        | nil =>
          simp only [List.nil_append, List.cons.injEq] at h1
          obtain ⟨rfl, rfl⟩ := h1
          simp only [List.map_nil, List.append_nil] at h3 h4
          rw [hp] at h3; injection h3 with h3
          rw [h4, h3]
        | cons c0 pre =>
          simp only [List.cons_append, List.cons.injEq] at h1
          obtain ⟨rfl, rfl⟩ := h1
          simp only [writeCallsB, hp] at h2
          cases h2

/-- At a refusal the writer holds a prefix of what was offered. -/
theorem writeCallsB_error (B : BytePolicy) (hist : List (List UInt8)) (cs : List Str) (b : List UInt8)
    (hw : writeCallsB B hist cs = .error b) : ∃ rest, (hist ++ cs.map utf8).flatten = b ++ rest := by
  obtain ⟨pre, c, post, k, h1, _, _, h4⟩ := (writeCallsB_error_iff B hist cs b).1 hw
  refine ⟨(utf8 c).drop k ++ (post.map utf8).flatten, ?_⟩
  rw [h4, h1]
  simp only [List.map_append, List.map_cons, List.flatten_append, List.flatten_cons, List.append_assoc]
  rw [← List.append_assoc ((utf8 c).take k), List.take_append_drop]

theorem writeCallsB_unlimited (hist : List (List UInt8)) (cs : List Str) :
    writeCallsB BytePolicy.unlimited hist cs = .ok (hist ++ cs.map utf8) := by
  induction cs generalizing hist with
  | nil => simp [writeCallsB]
  | cons c cs ih => simp only [writeCallsB, BytePolicy.unlimited]; rw [ih]; simp

/-- The byte budget: everything is accepted while the budget lasts; the call that does not fit is refused and
    the writer then holds exactly the first `n` bytes of what was offered. -/
theorem writeCallsB_byteBudget (n : Nat) (hist : List (List UInt8)) (cs : List Str)
    (hn : hist.flatten.length ≤ n) :
    writeCallsB (BytePolicy.byteBudget n) hist cs =
      if (hist ++ cs.map utf8).flatten.length ≤ n then .ok (hist ++ cs.map utf8)
      else .error ((hist ++ cs.map utf8).flatten.take n) := by
  induction cs generalizing hist with
  | nil =>
    simp only [writeCallsB, List.map_nil, List.append_nil]
    rw [if_pos hn]
  | cons c cs ih =>
    simp only [writeCallsB]
    have hB : BytePolicy.byteBudget n hist (utf8 c) =
        if hist.flatten.length + (utf8 c).length ≤ n then none else some (n - hist.flatten.length) := rfl
    rw [hB]
    by_cases hfit : hist.flatten.length + (utf8 c).length ≤ n
    · rw [if_pos hfit]
      simp only []
      have := ih (hist ++ [utf8 c]) (by
        simp only [List.flatten_append, List.length_append, List.flatten_cons, List.flatten_nil,
          List.append_nil]; omega)
      rw [this]
      simp only [List.map_cons, List.append_assoc, List.singleton_append]
    · rw [if_neg hfit]
      simp only []
      have hlen : ¬ (hist ++ (c :: cs).map utf8).flatten.length ≤ n := by
        simp only [List.map_cons, List.flatten_append, List.flatten_cons, List.length_append]; omega
      rw [if_neg hlen]
      congr 1
      simp only [List.map_cons, List.flatten_append, List.flatten_cons]
      rw [List.take_append, List.take_of_length_le hn, List.take_append]
      have : n - hist.flatten.length - (utf8 c).length = 0 := by omega
      rw [this]; simp

/-! ### Replaying a trace against a byte-level writer -/

/-- A replay ends as the trace ends with all its bytes, or `Io`. -/
theorem replayCallsB_outcome (B : BytePolicy) (hist : List (List UInt8)) (tr : List Str × Outcome XotError Unit) :
    (replayCallsB B hist tr = ((hist ++ tr.1.map utf8).flatten, tr.2)) ∨ (replayCallsB B hist tr).2 = .err .io := by
  unfold replayCallsB
  cases hw : writeCallsB B hist tr.1 with
  | ok h => left; rw [writeCallsB_ok B _ _ _ hw]
  | error b => right; rfl

/-- What the writer holds at the end is a prefix of the trace's bytes. -/
theorem replayCallsB_prefix (B : BytePolicy) (hist : List (List UInt8)) (tr : List Str × Outcome XotError Unit) :
    ∃ rest, (hist ++ tr.1.map utf8).flatten = (replayCallsB B hist tr).1 ++ rest := by
  unfold replayCallsB
  cases hw : writeCallsB B hist tr.1 with
  | ok h => exact ⟨[], by rw [writeCallsB_ok B _ _ _ hw]; simp⟩
  | error b => exact writeCallsB_error B _ _ _ hw

/-- A replay never turns into a panic. -/
theorem replayCallsB_panic (B : BytePolicy) (hist : List (List UInt8)) (tr : List Str × Outcome XotError Unit)
    (h : (replayCallsB B hist tr).2 = .panic) : tr.2 = .panic := by
  rcases replayCallsB_outcome B hist tr with h' | h'
  · rw [h'] at h; exact h
  · rw [h'] at h; cases h

theorem replayCallsB_unlimited (hist : List (List UInt8)) (tr : List Str × Outcome XotError Unit) :
    replayCallsB BytePolicy.unlimited hist tr = ((hist ++ tr.1.map utf8).flatten, tr.2) := by
  simp [replayCallsB, writeCallsB_unlimited]

/-- Byte budget `n`, from an empty history: enough budget gives the trace's own end with all its bytes;
    otherwise `Io`, the writer holding exactly the first `n` bytes. -/
theorem replayCallsB_byteBudget (n : Nat) (tr : List Str × Outcome XotError Unit) :
    replayCallsB (BytePolicy.byteBudget n) [] tr =
      if (utf8 tr.1.flatten).length ≤ n then (utf8 tr.1.flatten, tr.2)
      else ((utf8 tr.1.flatten).take n, .err .io) := by
  simp only [replayCallsB, writeCallsB_byteBudget n [] tr.1 (Nat.zero_le _), List.nil_append, utf8_flatten]
  by_cases h : (tr.1.map utf8).flatten.length ≤ n
  · rw [if_pos h, if_pos h]
  · rw [if_neg h, if_neg h]

end XotModel
