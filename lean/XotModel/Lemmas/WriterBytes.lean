/-
  XotModel.Lemmas.WriterBytes — the failing writer at byte level (`Model/WriterBytes.lean`).

  * `utf8` is a monoid morphism (`utf8_append`, `utf8_flatten`), is `String.toUTF8` (`utf8_toUTF8`, for every
    text, through `utf8Char_eq_core`), and its length is the model's `strLen`;
  * `writeCallsB` / `replayCallsB`: the byte-level copies of the lemmas of `Lemmas/Writer.lean`, the
    decomposition of a refusal (`writeCallsB_error_iff`), the byte budget (`replayCallsB_byteBudget`);
  * the bridge to the character level (`replayCallsB_chars`): a byte-level writer `B` and the character-level
    writer `B.chars` refuse the same call; the bytes `B` holds are the `utf8` of the characters `B.chars` holds
    followed by at most 3 bytes — a proper prefix of the next character's encoding.
-/
import XotModel.Model.WriterBytes
import XotModel.Lemmas.Writer

namespace XotModel

/-! ### `utf8` -/

theorem utf8_append (a b : Str) : utf8 (a ++ b) = utf8 a ++ utf8 b := by
  induction a with
  | nil => rfl
  | cons c cs ih => simp only [List.cons_append, utf8, ih, List.append_assoc]

theorem utf8_nil : utf8 [] = [] := rfl

theorem utf8_flatten (l : List Str) : utf8 l.flatten = (l.map utf8).flatten := by
  induction l with
  | nil => rfl
  | cons c cs ih => simp only [List.flatten_cons, utf8_append, ih, List.map_cons]

/-- The hand-written encoder is the one of Lean's core (`String.utf8EncodeChar`), for every character. -/
theorem utf8Char_eq_core (c : Char) : utf8Char c = String.utf8EncodeChar c := by
  unfold utf8Char String.utf8EncodeChar
  simp only []
  have hlt : c.val.toNat < 0x110000 := by
    rcases c.valid with h | h
    · exact Nat.lt_trans h (by decide)
    · exact h.2
  generalize c.val.toNat = v at hlt
  by_cases h1 : v < 0x80
  · have h1' : v ≤ 0x7f := by omega
    simp only [h1, h1', ↓reduceIte]
  · have h1' : ¬ v ≤ 0x7f := by omega
    by_cases h2 : v < 0x800
    · have h2' : v ≤ 0x7ff := by omega
      have : v / 64 % 0x20 = v / 64 := by omega
      simp only [h1, h1', h2, h2', ↓reduceIte, this, Nat.add_comm]
    · have h2' : ¬ v ≤ 0x7ff := by omega
      by_cases h3 : v < 0x10000
      · have h3' : v ≤ 0xffff := by omega
        have : v / 4096 % 0x10 = v / 4096 := by omega
        simp only [h1, h1', h2, h2', h3, h3', ↓reduceIte, this, Nat.add_comm]
      · have h3' : ¬ v ≤ 0xffff := by omega
        have : v / 262144 % 0x08 = v / 262144 := by omega
        simp only [h1, h1', h2, h2', h3, h3', ↓reduceIte, this, Nat.add_comm]

theorem utf8_eq_flatMap (s : Str) : utf8 s = s.flatMap String.utf8EncodeChar := by
  induction s with
  | nil => rfl
  | cons c cs ih => simp [utf8, ih, utf8Char_eq_core]

/-- `utf8` is `String::as_bytes` as Lean's own strings have it: the bytes of `String.ofList s`. -/
theorem utf8_toUTF8 (s : Str) : (String.ofList s).toUTF8 = (utf8 s).toByteArray := by
  rw [String.toUTF8_eq_toByteArray, String.toByteArray_ofList, utf8_eq_flatMap]; rfl

/-- `char::len_utf8`. -/
theorem utf8Char_length (c : Char) : (utf8Char c).length = utf8Len c := by
  unfold utf8Char utf8Len Char.toNat
  simp only []
  split
  · rfl
  · split
    · rfl
    · split <;> rfl

theorem utf8Char_length_pos (c : Char) : 0 < (utf8Char c).length := by
  rw [utf8Char_length]; unfold utf8Len; split <;> (try split) <;> (try split) <;> omega

theorem utf8Char_length_le (c : Char) : (utf8Char c).length ≤ 4 := by
  rw [utf8Char_length]; unfold utf8Len; split <;> (try split) <;> (try split) <;> omega

/-- `str::len`. -/
theorem utf8_length (s : Str) : (utf8 s).length = strLen s := by
  induction s with
  | nil => rfl
  | cons c cs ih => simp only [utf8, strLen, List.length_append, utf8Char_length, ih]

/-! ### `writeCallsB` -/

theorem writeCallsB_append (B : BytePolicy) (hist : List (List UInt8)) (a b : List Str) :
    writeCallsB B hist (a ++ b) =
      (match writeCallsB B hist a with
       | .ok h => writeCallsB B h b
       | .error e => .error e) := by
  induction a generalizing hist with
  | nil => simp [writeCallsB]
  | cons c cs ih =>
    simp only [List.cons_append, writeCallsB]
    cases B hist (utf8 c) with
    | none => exact ih _
    | some k => rfl

/-- Accepted calls are recorded in order, as bytes. -/
theorem writeCallsB_ok (B : BytePolicy) (hist : List (List UInt8)) (cs : List Str) (h : List (List UInt8))
    (hw : writeCallsB B hist cs = .ok h) : h = hist ++ cs.map utf8 := by
  induction cs generalizing hist with
  | nil => simp [writeCallsB] at hw; simp [hw]
  | cons c cs ih =>
    simp only [writeCallsB] at hw
    cases hp : B hist (utf8 c) with
    | none => rw [hp] at hw; simp only [] at hw; rw [ih _ hw]; simp
    | some k => rw [hp] at hw; cases hw

/-- **A refusal, decomposed.**  `writeCallsB` ends in an error holding `b` exactly when the calls split into
    accepted calls `pre`, the refused call `c` (the writer answers `some k`) and calls never made; `b` is the
    bytes held before, the accepted calls' bytes, and the first `k` bytes of the refused call. -/
theorem writeCallsB_error_iff (B : BytePolicy) (hist : List (List UInt8)) (cs : List Str) (b : List UInt8) :
    writeCallsB B hist cs = .error b ↔
      ∃ pre c post k, cs = pre ++ c :: post ∧ writeCallsB B hist pre = .ok (hist ++ pre.map utf8) ∧
        B (hist ++ pre.map utf8) (utf8 c) = some k ∧
        b = (hist ++ pre.map utf8).flatten ++ (utf8 c).take k := by
  induction cs generalizing hist with
  | nil =>
    simp only [writeCallsB]
    constructor
    · intro h; cases h
    · rintro ⟨pre, c, post, k, h, _⟩; cases pre <;> cases h
  | cons c cs ih =>
    simp only [writeCallsB]
    cases hp : B hist (utf8 c) with
    | none =>
      simp only []
      rw [ih]
      constructor
      · rintro ⟨pre, c', post, k, h1, h2, h3, h4⟩
        refine ⟨c :: pre, c', post, k, by rw [h1]; rfl, ?_, ?_, ?_⟩
        · simp only [writeCallsB, hp, List.map_cons]
          rw [h2]; simp
        · rw [← h3]; simp
        · rw [h4]; simp
      · rintro ⟨pre, c', post, k, h1, h2, h3, h4⟩
        cases pre with
        | nil =>
          simp only [List.nil_append, List.cons.injEq] at h1
          obtain ⟨rfl, rfl⟩ := h1
          simp only [List.map_nil, List.append_nil] at h3
          rw [hp] at h3; cases h3
        | cons c0 pre =>
          simp only [List.cons_append, List.cons.injEq] at h1
          obtain ⟨rfl, rfl⟩ := h1
          refine ⟨pre, c', post, k, rfl, ?_, ?_, ?_⟩
          · simp only [writeCallsB, hp, List.map_cons] at h2
            rw [h2]; simp
          · rw [← h3]; simp
          · rw [h4]; simp
    | some k =>
      simp only []
      constructor
      · intro h
        injection h with h
        exact ⟨[], c, cs, k, rfl, by simp [writeCallsB], by simpa using hp, by rw [← h]; simp⟩
      · rintro ⟨pre, c', post, k', h1, h2, h3, h4⟩
        cases pre with
        | nil =>
          simp only [List.nil_append, List.cons.injEq] at h1
          obtain ⟨rfl, rfl⟩ := h1
          simp only [List.map_nil, List.append_nil] at h3 h4
          rw [hp] at h3; injection h3 with h3
          rw [h4, h3]
        | cons c0 pre =>
          simp only [List.cons_append, List.cons.injEq] at h1
          obtain ⟨rfl, rfl⟩ := h1
          simp only [writeCallsB, hp] at h2
          cases h2

/-- At a refusal the writer holds a prefix of what was offered. -/
theorem writeCallsB_error (B : BytePolicy) (hist : List (List UInt8)) (cs : List Str) (b : List UInt8)
    (hw : writeCallsB B hist cs = .error b) : ∃ rest, (hist ++ cs.map utf8).flatten = b ++ rest := by
  obtain ⟨pre, c, post, k, h1, _, _, h4⟩ := (writeCallsB_error_iff B hist cs b).1 hw
  refine ⟨(utf8 c).drop k ++ (post.map utf8).flatten, ?_⟩
  rw [h4, h1]
  simp only [List.map_append, List.map_cons, List.flatten_append, List.flatten_cons, List.append_assoc]
  rw [← List.append_assoc ((utf8 c).take k), List.take_append_drop]

theorem writeCallsB_unlimited (hist : List (List UInt8)) (cs : List Str) :
    writeCallsB BytePolicy.unlimited hist cs = .ok (hist ++ cs.map utf8) := by
  induction cs generalizing hist with
  | nil => simp [writeCallsB]
  | cons c cs ih => simp only [writeCallsB, BytePolicy.unlimited]; rw [ih]; simp

/-- The byte budget: everything is accepted while the budget lasts; the call that does not fit is refused and
    the writer then holds exactly the first `n` bytes of what was offered. -/
theorem writeCallsB_byteBudget (n : Nat) (hist : List (List UInt8)) (cs : List Str)
    (hn : hist.flatten.length ≤ n) :
    writeCallsB (BytePolicy.byteBudget n) hist cs =
      if (hist ++ cs.map utf8).flatten.length ≤ n then .ok (hist ++ cs.map utf8)
      else .error ((hist ++ cs.map utf8).flatten.take n) := by
  induction cs generalizing hist with
  | nil =>
    simp only [writeCallsB, List.map_nil, List.append_nil]
    rw [if_pos hn]
  | cons c cs ih =>
    simp only [writeCallsB]
    have hB : BytePolicy.byteBudget n hist (utf8 c) =
        if hist.flatten.length + (utf8 c).length ≤ n then none else some (n - hist.flatten.length) := rfl
    rw [hB]
    by_cases hfit : hist.flatten.length + (utf8 c).length ≤ n
    · rw [if_pos hfit]
      simp only []
      have := ih (hist ++ [utf8 c]) (by
        simp only [List.flatten_append, List.length_append, List.flatten_cons, List.flatten_nil,
          List.append_nil]; omega)
      rw [this]
      simp only [List.map_cons, List.append_assoc, List.singleton_append]
    · rw [if_neg hfit]
      simp only []
      have hlen : ¬ (hist ++ (c :: cs).map utf8).flatten.length ≤ n := by
        simp only [List.map_cons, List.flatten_append, List.flatten_cons, List.length_append]; omega
      rw [if_neg hlen]
      congr 1
      simp only [List.map_cons, List.flatten_append, List.flatten_cons]
      rw [List.take_append, List.take_of_length_le hn, List.take_append]
      have : n - hist.flatten.length - (utf8 c).length = 0 := by omega
      rw [this]; simp

/-! ### Replaying a trace against a byte-level writer -/

/-- A replay ends as the trace ends with all its bytes, or `Io`. -/
theorem replayCallsB_outcome (B : BytePolicy) (hist : List (List UInt8)) (tr : List Str × Outcome XotError Unit) :
    (replayCallsB B hist tr = ((hist ++ tr.1.map utf8).flatten, tr.2)) ∨ (replayCallsB B hist tr).2 = .err .io := by
  unfold replayCallsB
  cases hw : writeCallsB B hist tr.1 with
  | ok h => left; rw [writeCallsB_ok B _ _ _ hw]
  | error b => right; rfl

/-- What the writer holds at the end is a prefix of the trace's bytes. -/
theorem replayCallsB_prefix (B : BytePolicy) (hist : List (List UInt8)) (tr : List Str × Outcome XotError Unit) :
    ∃ rest, (hist ++ tr.1.map utf8).flatten = (replayCallsB B hist tr).1 ++ rest := by
  unfold replayCallsB
  cases hw : writeCallsB B hist tr.1 with
  | ok h => exact ⟨[], by rw [writeCallsB_ok B _ _ _ hw]; simp⟩
  | error b => exact writeCallsB_error B _ _ _ hw

/-- A replay never turns into a panic. -/
theorem replayCallsB_panic (B : BytePolicy) (hist : List (List UInt8)) (tr : List Str × Outcome XotError Unit)
    (h : (replayCallsB B hist tr).2 = .panic) : tr.2 = .panic := by
  rcases replayCallsB_outcome B hist tr with h' | h'
  · rw [h'] at h; exact h
  · rw [h'] at h; cases h

theorem replayCallsB_unlimited (hist : List (List UInt8)) (tr : List Str × Outcome XotError Unit) :
    replayCallsB BytePolicy.unlimited hist tr = ((hist ++ tr.1.map utf8).flatten, tr.2) := by
  simp [replayCallsB, writeCallsB_unlimited]

/-- Byte budget `n`, from an empty history: enough budget gives the trace's own end with all its bytes;
    otherwise `Io`, the writer holding exactly the first `n` bytes. -/
theorem replayCallsB_byteBudget (n : Nat) (tr : List Str × Outcome XotError Unit) :
    replayCallsB (BytePolicy.byteBudget n) [] tr =
      if (utf8 tr.1.flatten).length ≤ n then (utf8 tr.1.flatten, tr.2)
      else ((utf8 tr.1.flatten).take n, .err .io) := by
  simp only [replayCallsB, writeCallsB_byteBudget n [] tr.1 (Nat.zero_le _), List.nil_append, utf8_flatten]
  by_cases h : (tr.1.map utf8).flatten.length ≤ n
  · rw [if_pos h, if_pos h]
  · rw [if_neg h, if_neg h]

/-! ### The bridge to the character-level writer -/

/-- Cutting the bytes of a text after `k` bytes: the whole characters that fit, then a proper prefix (at most 3
    bytes) of the next character's encoding — empty if there is no next character. -/
theorem utf8_take (c : Str) (k : Nat) :
    ∃ tail, (utf8 c).take k = utf8 (c.take (wholeChars c k)) ++ tail ∧ tail.length ≤ 3 ∧
      (c.drop (wholeChars c k) = [] → tail = []) ∧
      (∀ ch rest, c.drop (wholeChars c k) = ch :: rest → ∃ more, more ≠ [] ∧ utf8Char ch = tail ++ more) := by
  induction c generalizing k with
  | nil => exact ⟨[], by simp [utf8, wholeChars], by simp, by simp, by simp [wholeChars]⟩
  | cons ch cs ih =>
    by_cases hfit : (utf8Char ch).length ≤ k
    · obtain ⟨tail, h1, h2, h3, h4⟩ := ih (k - (utf8Char ch).length)
      refine ⟨tail, ?_, h2, ?_, ?_⟩
      · simp only [utf8, wholeChars, if_pos hfit, List.take_succ_cons, List.append_assoc]
        rw [List.take_append, List.take_of_length_le hfit, h1]
      · simpa only [wholeChars, if_pos hfit, List.drop_succ_cons] using h3
      · simpa only [wholeChars, if_pos hfit, List.drop_succ_cons] using h4
    · have hlen := utf8Char_length_le ch
      refine ⟨(utf8Char ch).take k, ?_, ?_, ?_, ?_⟩
      · simp only [utf8, wholeChars, if_neg hfit, List.take_zero, List.nil_append]
        rw [List.take_append]
        have : k - (utf8Char ch).length = 0 := by omega
        rw [this]; simp
      · rw [List.length_take]; omega
      · simp [wholeChars, if_neg hfit]
      · intro ch' rest h
        simp only [wholeChars, if_neg hfit, List.drop_zero, List.cons.injEq] at h
        obtain ⟨rfl, _⟩ := h
        refine ⟨(utf8Char ch).drop k, ?_, (List.take_append_drop k _).symm⟩
        intro h0
        have := congrArg List.length h0
        simp only [List.length_drop, List.length_nil] at this
        omega

/-- **The bridge to the character level.**  The byte-level writer `B` and the character-level writer `B.chars`
    accept the same calls and refuse the same call; at a refusal `B` holds the `utf8` of the characters `B.chars`
    holds, followed by at most 3 bytes (a proper prefix of the next character). -/
theorem writeCallsB_chars (B : BytePolicy) (hist : List Str) (cs : List Str) :
    (∀ h, writeCalls B.chars hist cs = .ok h → writeCallsB B (hist.map utf8) cs = .ok (h.map utf8)) ∧
    (∀ b, writeCalls B.chars hist cs = .error b →
      ∃ tail, writeCallsB B (hist.map utf8) cs = .error (utf8 b ++ tail) ∧ tail.length ≤ 3) := by
  induction cs generalizing hist with
  | nil =>
    simp only [writeCalls, writeCallsB]
    exact ⟨fun h hh => (by injection hh with hh; rw [hh]), fun b hb => (by cases hb)⟩
  | cons c cs ih =>
    simp only [writeCalls, writeCallsB, BytePolicy.chars]
    cases hp : B (hist.map utf8) (utf8 c) with
    | none =>
      simp only []
      have := ih (hist ++ [c])
      simp only [List.map_append, List.map_cons, List.map_nil] at this
      exact this
    | some k =>
      simp only []
      refine ⟨fun h hh => (by cases hh), fun b hb => ?_⟩
      injection hb with hb
      obtain ⟨tail, h1, h2, _⟩ := utf8_take c k
      refine ⟨tail, ?_, h2⟩
      rw [← hb, utf8_append, utf8_flatten, h1, List.append_assoc]

theorem replayCallsB_chars (B : BytePolicy) (tr : List Str × Outcome XotError Unit) :
    (replayCallsB B [] tr).2 = (replayCalls B.chars [] tr).2 ∧
    ∃ tail, (replayCallsB B [] tr).1 = utf8 (replayCalls B.chars [] tr).1 ++ tail ∧ tail.length ≤ 3 ∧
      ((replayCallsB B [] tr).2 ≠ .err .io → tail = []) := by
  have hb := writeCallsB_chars B [] tr.1
  simp only [List.map_nil] at hb
  unfold replayCallsB replayCalls
  cases hw : writeCalls B.chars [] tr.1 with
  | ok h =>
    rw [hb.1 h hw]
    exact ⟨rfl, [], by simp [utf8_flatten], by simp, fun _ => rfl⟩
  | error b =>
    obtain ⟨tail, h1, h2⟩ := hb.2 b hw
    rw [h1]
    exact ⟨rfl, tail, rfl, h2, fun h => absurd rfl h⟩

/-! ### The two ways a replay ends -/

/-- Either one call is refused — the calls split into accepted ones, the refused one (`some k`) and calls never
    made; the outcome is `Io` and the writer holds the accepted calls' bytes followed by the first `k` bytes of
    the refused call — or none is, and the replay is the trace: all its bytes, its own end. -/
theorem replayCallsB_cases (B : BytePolicy) (tr : List Str × Outcome XotError Unit) :
    (∃ pre c post k, tr.1 = pre ++ c :: post ∧ writeCallsB B [] pre = .ok (pre.map utf8) ∧
        B (pre.map utf8) (utf8 c) = some k ∧
        writeCallsB B [] tr.1 = .error (utf8 pre.flatten ++ (utf8 c).take k) ∧
        replayCallsB B [] tr = (utf8 pre.flatten ++ (utf8 c).take k, .err .io)) ∨
    (writeCallsB B [] tr.1 = .ok (tr.1.map utf8) ∧ replayCallsB B [] tr = (utf8 tr.1.flatten, tr.2)) := by
  unfold replayCallsB
  cases hw : writeCallsB B [] tr.1 with
  | error b =>
    left
    obtain ⟨pre, c, post, k, h1, h2, h3, h4⟩ := (writeCallsB_error_iff B [] tr.1 b).1 hw
    simp only [List.nil_append] at h2 h3 h4
    rw [← utf8_flatten] at h4
    exact ⟨pre, c, post, k, h1, h2, h3, by rw [h4], by rw [h4]⟩
  | ok h =>
    right
    have hh := writeCallsB_ok B _ _ _ hw
    rw [List.nil_append] at hh
    subst hh
    exact ⟨rfl, by rw [utf8_flatten]⟩

/-- The sink of a replay is a prefix of the `utf8` of the trace's text. -/
theorem replayCallsB_prefix_utf8 (B : BytePolicy) (tr : List Str × Outcome XotError Unit) :
    ∃ rest, utf8 tr.1.flatten = (replayCallsB B [] tr).1 ++ rest := by
  obtain ⟨rest, h⟩ := replayCallsB_prefix B [] tr
  rw [List.nil_append, ← utf8_flatten] at h
  exact ⟨rest, h⟩

end XotModel
