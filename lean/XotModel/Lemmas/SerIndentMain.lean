/-
  The indented serialisation IS the rendering of `spellNodeP`: the tree induction.
  For a subtree whose nodes satisfy `nodeOK` (leaf kinds are leaves, children ordered):

      runPEvents ps s (events of n) = ok (ps, s, [indentation] rendering of spellNodeP n [newline])
-/
import XotModel.Lemmas.SerIndentRun

namespace XotModel
open Gen

variable (env : Env) (pr : TokenParams) (sup : List Nat) (t : Tree)

/-! ### `prettify`, event by event -/

theorem prettify_close_some (ps : PStack) (name : Nat) (ks : List Tree)
    (hc : (Tree.node (.element name) ks).firstChild?.isSome = true) :
    prettify sup ps (.node (.element name) ks) .startTagClose =
      (entryFor sup (.node (.element name) ks) :: ps, 0,
        PStack.getNewline (entryFor sup (.node (.element name) ks) :: ps)) := by
  simp only [prettify, entryFor, Tree.value, hc, if_true]
  by_cases hi : hasInlineChild (.node (.element name) ks) = true
  · simp [hi, PStack.getNewline, PStack.inMixed]
  · by_cases hsup : sup.contains name = true
    · have : name ∈ sup := by simpa using hsup
      simp [hi, this]
    · have : name ∉ sup := by simpa using hsup
      simp [hi, this]

theorem prettify_close_none (ps : PStack) (n : Tree) (hc : n.firstChild?.isSome = false) :
    prettify sup ps n .startTagClose = (ps, 0, false) := by
  simp [prettify, hc]

theorem prettify_end_some (pc : PStack) (n : Tree) (name : Nat) (hc : n.firstChild?.isSome = true) :
    prettify sup pc n (.endTag name) =
      (pc.tail, if !(pc.inMixed || pc.inSpacePreserve) then PStack.getIndentation pc.tail else 0,
        PStack.getNewline pc.tail) := by
  simp [prettify, hc]

theorem prettify_end_none (ps : PStack) (n : Tree) (name : Nat) (hc : n.firstChild?.isSome = false) :
    prettify sup ps n (.endTag name) = (ps, 0, ps.getNewline) := by
  simp [prettify, hc]

/-! ### White space runs -/

theorem indentBytes_ws (k : Nat) : (indentBytes k).all isWsChar = true := by
  simp only [indentBytes, List.all_eq_true, List.mem_flatten, List.mem_replicate]
  rintro c ⟨l, ⟨_, rfl⟩, hc⟩
  simp only [indentUnit, List.mem_singleton] at hc
  subst hc; rfl

theorem indOf_ws (ps : PStack) : (indOf ps).all isWsChar = true := by
  unfold indOf; split
  · exact indentBytes_ws _
  · rfl

theorem nlOf_ws (ps : PStack) : (nlOf ps).all isWsChar = true := by
  unfold nlOf; split <;> rfl

theorem gapOf_ws (ps : PStack) : (gapOf ps).all isWsChar = true := by
  simp [gapOf, List.all_append, indOf_ws, nlOf_ws, -List.all_eq_true]

theorem gapEnd_ws (pc ps : PStack) : (gapEnd pc ps).all isWsChar = true := by
  unfold gapEnd
  rw [List.all_append, nlOf_ws, Bool.true_and]
  split
  · exact indOf_ws _
  · rfl

theorem textPiece_ws {c : Char} (h : isWsChar c = true) : textPiece c = .lit c := by
  simp only [isWsChar, Bool.or_eq_true, beq_iff_eq] at h
  rcases h with rfl | rfl <;> rfl

/-- A run of blanks and line feeds is written as it is. -/
theorem renderPieces_ws (w : Str) (h : w.all isWsChar = true) : renderPieces (textPieces w) = w := by
  induction w with
  | nil => rfl
  | cons c cs ih =>
    simp only [List.all_cons, Bool.and_eq_true] at h
    have := ih h.2
    simp only [renderPieces, textPieces, List.map_cons, List.flatMap_cons, textPiece_ws h.1, renderPiece] at this ⊢
    rw [this]; rfl

theorem render_wsChars (w : Str) (h : w.all isWsChar = true) :
    renderTokens (NSNode.tokens.tokensList (wsChars w)) = w := by
  unfold wsChars
  cases w with
  | nil => rfl
  | cons c cs =>
    simp only [List.isEmpty_cons, Bool.false_eq_true, if_false, NSNode.tokens.tokensList, NSNode.tokens,
      List.map_cons, List.map_nil, SPart.token, List.append_nil, renderTokens_single, renderToken,
      renderPieces_ws _ h]

/-! ### Runs that are renderings -/

/-- A run that leaves both stacks as they were. -/
def tokRunP (ps : PStack) (s : FStack) (r : Except XotError (List Token)) (x : Str) :
    Outcome XotError (PStack × FStack × Str) :=
  match r with
  | .ok _ => .ok (ps, s, x)
  | .error e => .err e

theorem runPThen_tokRunP (ps : PStack) (s : FStack) (a b : Except XotError (List Token)) (x y : Str)
    (f : PStack → FStack → Outcome XotError (PStack × FStack × Str)) (hf : f ps s = tokRunP ps s b y) :
    runPThen (tokRunP ps s a x) f = tokRunP ps s (appendOk a b) (x ++ y) := by
  cases a with
  | error e => rfl
  | ok u =>
    simp only [tokRunP, runPThen, hf, appendOk]
    cases b with
    | error e => rfl
    | ok v => rfl

/-- The bytes of a child list in content with stack `pc`. -/
def kidsBytes (inScope : List (Nat × Nat)) (s : FStack) (cd : Bool) (pc : PStack) (ks : List Tree) : Str :=
  ks.flatMap (fun k => wrapP pc k.value
    (renderTokens (NSNode.tokens.tokensList (spellNodeP env pr sup inScope false s cd pc k))))

theorem tokensList_spellKidsP (inScope : List (Nat × Nat)) (s : FStack) (cd : Bool) (pc : PStack) (gap : Str)
    (hgap : gap.all isWsChar = true) (ks : List Tree) :
    renderTokens (NSNode.tokens.tokensList (spellNodeP.spellKidsP env pr sup inScope s cd pc gap ks)) =
      ks.flatMap (fun k => (if k.value.isNormal then gap else []) ++
        renderTokens (NSNode.tokens.tokensList (spellNodeP env pr sup inScope false s cd pc k))) := by
  induction ks with
  | nil => rfl
  | cons k ks ih =>
    simp only [spellNodeP.spellKidsP, tokensList_append, renderTokens_append, ih, List.flatMap_cons,
      List.append_assoc]
    congr 1
    split
    · exact render_wsChars gap hgap
    · rfl

/-- Regrouping: newline, then per child indentation / child / newline, then the end tag's indentation
    = per child (newline + indentation) / child, then (newline + end tag's indentation). -/
theorem regroup (nl ind e : Str) (xs : List (Bool × Str))
    (hx : ∀ x ∈ xs, x.1 = false → x.2 = []) :
    nl ++ (xs.flatMap (fun x => if x.1 then ind ++ (x.2 ++ nl) else x.2) ++ e) =
      xs.flatMap (fun x => (if x.1 then nl ++ ind else []) ++ x.2) ++ (nl ++ e) := by
  induction xs with
  | nil => simp
  | cons x xs ih =>
    have ih' := ih (fun y hy => hx y (by simp [hy]))
    simp only [List.flatMap_cons, List.append_assoc]
    cases hb : x.1 with
    | true =>
      simp only [if_true, List.append_assoc]
      rw [ih']
    | false =>
      have := hx x (by simp) hb
      simp only [Bool.false_eq_true, if_false, this, List.nil_append]
      exact ih'

end XotModel
