/-
  FspecPairRemove — C05 for `remove` and `detach` against the PAIR reading of the consolidation
  clause (`Model/FspecSpec3.lean`: `specRemoveP`, `specDetachP`), for EVERY forest satisfying the
  invariant — adjacent text nodes allowed (no `Forest.Normal`).

  xot reads the category-filtered siblings of the leaving node, cuts, then merges that pair; the
  specification reads the RAW neighbours, cuts, then merges the pair if both are text.  The two
  agree because two raw text neighbours force the node between them to be normal (`kidsOrdered`).
-/
import XotModel.Lemmas.FspecPair
import XotModel.Lemmas.FspecDetach

namespace XotModel
open HTree Spec

namespace PairRemove

/-- At the old site of a forest `g` from which the node `k` has already been cut (child list
    `l ++ r`): the model's consolidation with the siblings read before the cut is the
    specification's pair merge with the raw neighbours read before the cut. -/
theorem seam {g : Forest} {p : Nat} {v : Value} {l r : List HTree} {k : HTree}
    (s1 : SiteAt g p v (l ++ ([] ++ r)))
    (hleaf : ∀ t ∈ r, t.value.isText = true → t.kids = [])
    (hcat : ∀ a b, l.getLast? = some a → r.head? = some b → a.value.isText = true → b.value.isText = true →
      a.value.category = k.value.category ∧ b.value.category = k.value.category) :
    (g.removeConsolidate (prevOf l k) (nextOf r k)).1 =
      g.mergeLeftAt (some p) (l.getLast?.map (·.handle), r.head?.map (·.handle)) := by
  rcases oldSite (k := k) s1 hleaf hcat with ⟨h1, h2⟩ | ⟨hc, l', a, b, r', x, y, el, er, hx, hy, _, _, h3⟩
  · -- the model does nothing: the raw neighbours are not both text
    rw [h1]
    show g = _
    cases hl : l.getLast? with
    | none => rw [Option.map_none, Forest.mergeLeftAt_none_left]
    | some a =>
      cases hr : r.head? with
      | none => rw [Option.map_none, Forest.mergeLeftAt_none_right]
      | some b =>
        rw [Option.map_some, Option.map_some, Forest.mergeLeftAt_some]
        rcases Bool.eq_false_or_eq_true g.consolidation with hc | hc
        · rw [hc, if_pos rfl]
          obtain ⟨l', el⟩ := List.getLast?_eq_some_iff.1 hl
          obtain ⟨r', er⟩ := List.head?_eq_some_iff.1 hr
          subst el er
          have eL : (l' ++ [a]) ++ ([] ++ b :: r') = l' ++ a :: b :: r' := by simp
          have ndL := s1.nodupKids.1
          rw [eL] at ndL
          have tl := (tops_ne_of_nodup ndL).1
          have hid : mergeAdj a.handle b.handle ((l' ++ [a]) ++ ([] ++ b :: r')) = id ((l' ++ [a]) ++ ([] ++ b :: r')) := by
            rw [eL]
            exact mergeAdj_mid_other (h2 hc a b hl hr) r' tl
          rw [s1.congr (g := mergeAdj a.handle b.handle) (g' := id) hid, Forest.editAt_id]
        · rw [hc]; rfl
  · -- the model merges the pair
    rw [h3]
    subst el er
    show g.editAt (some p) _ = _
    have hl : (l' ++ [a]).getLast? = some a := by simp
    rw [hl, List.head?_cons, Option.map_some, Option.map_some, Forest.mergeLeftAt_some, hc, if_pos rfl]
    have eL : (l' ++ [a]) ++ ([] ++ b :: r') = l' ++ a :: b :: r' := by simp
    have ndL := s1.nodupKids.1
    rw [eL] at ndL
    have tl := (tops_ne_of_nodup ndL).1
    apply s1.congr
    rw [eL, mergeAdj_mid_text hx hy r' tl]
    simp

/-- The hypotheses of `seam` from the invariant, at the site of the leaving node. -/
theorem leaf_right {f : Forest} {p : Nat} {v : Value} {l r : List HTree} {k : HTree} {b : Bool}
    (s : SiteAt f p v (l ++ k :: r)) (hv : validList b f.roots = true) :
    ∀ t ∈ r, t.value.isText = true → t.kids = [] :=
  fun t ht => s.leaf hv t (List.mem_append_right _ (List.mem_cons_of_mem _ ht))

end PairRemove

open PairRemove

/-! ### remove -/

/-- `remove` against the pair reading: exactly the subtree disappears and exactly the two text
    nodes it separated are merged (into the earlier one) — for every forest with the invariant. -/
theorem remove_pair {f : Forest} {n : Nat} (inv : f.Inv) (live : f.isLive n = true) :
    (f.remove n).1 = specRemoveP n f := by
  have nd := inv.nodup
  unfold Forest.isLive at live
  cases hg : f.get? n with
  | none => rw [hg] at live; cases live
  | some u =>
  rcases Forest.root_or_ctx hg with hroot | ⟨c, hctx⟩
  · -- a parentless tree
    have hno : f.ctx? n = none := Forest.ctx_none_of_root nd hroot
    unfold Forest.remove specRemoveP
    simp only [Forest.prevSibling_of_no_ctx hno, Forest.nextSibling_of_no_ctx hno,
      Forest.removeConsolidate_none_left, Forest.parent?_of_no_ctx hno, Forest.mergeLeftAt_none]
    unfold Forest.dropSubtree Forest.cut
    rw [hg]
    simp only [hroot, if_true, Forest.editAt]
    rw [dropTop_eq_filter]
  · -- a node with a parent
    obtain ⟨e0, v, s⟩ := SiteAt.of_ctx nd hctx
    obtain ⟨p, l, k, r⟩ := c
    simp only at e0 s
    subst e0
    obtain ⟨ndL, _⟩ := s.nodupKids
    obtain ⟨tl, tr⟩ := tops_ne_of_nodup ndL
    have hpar : f.parent? k.handle = some p := Forest.parent?_of_ctx hctx
    have hgL : replaceTop k.handle (fun _ => []) (l ++ k :: r) = l ++ r := by
      rw [replaceTop_mid rfl tl]; simp
    have hdrop : dropTop k.handle (l ++ k :: r) = l ++ r := dropTop_mid rfl tl tr
    have hcut : f.dropSubtree k.handle = f.editAt (some p) (dropTop k.handle) := by
      unfold Forest.dropSubtree
      rw [Forest.cut_of_ctx nd hctx]
      exact s.congr (by rw [hgL, hdrop])
    have s1 : SiteAt (f.editAt (some p) (dropTop k.handle)) p v (l ++ ([] ++ r)) := by
      have := s.edit (dropTop k.handle) (by
        rw [hdrop]
        simp only [fs_handlesList_append, handlesList_cons]
        exact (List.Sublist.refl _).append (List.sublist_append_right _ _))
      rw [hdrop] at this
      exact this
    have hord := (validTree_node (s.valid inv.valid)).2.1
    unfold Forest.remove specRemoveP
    simp only [Forest.prevSibling_of_ctx hctx, Forest.nextSibling_of_ctx hctx, hpar, hcut, s.nbOf]
    exact seam s1 (leaf_right s inv.valid) (hcat_of_ordered hord)

/-! ### detach -/

/-- `detach` against the pair reading: the subtree becomes a parentless tree of its own (listed
    last), nothing else moves, and exactly the two text nodes it separated are merged. -/
theorem detach_pair {f : Forest} {n : Nat} (inv : f.Inv) (live : f.isLive n = true) :
    (f.detach n).1 = specDetachP n f := by
  have nd := inv.nodup
  unfold Forest.isLive at live
  cases hg : f.get? n with
  | none => rw [hg] at live; cases live
  | some u =>
  rcases Forest.root_or_ctx hg with hroot | ⟨c, hctx⟩
  · have hno : f.ctx? n = none := Forest.ctx_none_of_root nd hroot
    unfold Forest.detach specDetachP
    simp only [Forest.prevSibling_of_no_ctx hno, Forest.nextSibling_of_no_ctx hno,
      Forest.removeConsolidate_none_left, Forest.parent?_of_no_ctx hno, Forest.mergeLeftAt_none, hg]
    unfold Forest.detachRaw Forest.cut
    rw [hg]
    simp only [hroot, if_true, Forest.editAt, Forest.addRoot]
    rw [dropTop_eq_filter]
    rfl
  · obtain ⟨e0, v, s⟩ := SiteAt.of_ctx nd hctx
    obtain ⟨p, l, k, r⟩ := c
    simp only at e0 s
    subst e0
    obtain ⟨ndL, _⟩ := s.nodupKids
    obtain ⟨tl, tr⟩ := tops_ne_of_nodup ndL
    have hpar : f.parent? k.handle = some p := Forest.parent?_of_ctx hctx
    have hgk : f.get? k.handle = some k := s.getKid
    have hgL : replaceTop k.handle (fun _ => []) (l ++ k :: r) = l ++ r := by
      rw [replaceTop_mid rfl tl]; simp
    have hdrop : dropTop k.handle (l ++ k :: r) = l ++ r := dropTop_mid rfl tl tr
    -- the raw detach
    have hraw : f.detachRaw k.handle =
        (f.editAt (some p) (dropTop k.handle)).editAt none (insertLast k) := by
      unfold Forest.detachRaw
      rw [Forest.cut_of_ctx nd hctx]
      simp only
      rw [s.congr (g := replaceTop k.handle (fun _ => [])) (g' := dropTop k.handle) (by rw [hgL, hdrop])]
      rfl
    -- the site after the raw detach
    have s1 : SiteAt ((f.editAt (some p) (dropTop k.handle)).editAt none (insertLast k)) p v (l ++ ([] ++ r)) := by
      constructor
      · show (handlesList ((f.roots.map (HTree.editAt p (dropTop k.handle))) ++ [k])).Nodup
        rw [fs_handlesList_append, handlesList_cons, handlesList_nil, List.append_nil]
        have hperm := handlesList_editAt_perm (g := dropTop k.handle) (E := handles k)
          (by
            rw [hdrop]
            simp only [fs_handlesList_append, handlesList_cons]
            rw [List.append_assoc]
            exact List.Perm.append_left _ List.perm_append_comm) f.roots nd s.kids
        exact hperm.symm.nodup nd
      · show findList? p ((f.roots.map (HTree.editAt p (dropTop k.handle))) ++ [k]) = _
        apply findList?_append_left
        have := findList?_editAt_self (g := dropTop k.handle) f.roots s.kids
        rw [hdrop] at this
        exact this
    have hord := (validTree_node (s.valid inv.valid)).2.1
    unfold Forest.detach specDetachP
    simp only [Forest.prevSibling_of_ctx hctx, Forest.nextSibling_of_ctx hctx, hpar, hraw, hgk, s.nbOf]
    exact seam s1 (leaf_right s inv.valid) (hcat_of_ordered hord)

/-- Non-vacuity on a forest WITH adjacent text nodes (consolidation switched off and on again):
    `<e a="v">` with the children `w`, `x`, `<b>`, `y`, `z` (four separate text nodes) and a
    parentless text node `r`.  Removing / detaching `b` merges exactly `x` and `y` (`w`, `xy`, `z`
    stay three nodes) where the whole-run specification `specRemove` gives the single node `wxyz`;
    removing `x` (between the text node `w` and the element), `y`, or the attribute merges
    nothing; detaching the parentless `r` only relists it. -/
example :
    let f : Forest := { roots := [.node 0 (.element 2) [.node 1 (.attribute 5 ['v']) [], .node 2 (.text ['w']) [],
                          .node 3 (.text ['x']) [], .node 4 (.element 3) [.node 8 (.text ['i']) [], .node 9 (.text ['j']) []],
                          .node 5 (.text ['y']) [], .node 6 (.text ['z']) []],
                          .node 7 (.text ['r']) []], next := 10, consolidation := true, everOff := true }
    f.inv = true ∧ f.isLive 4 = true ∧
      (f.remove 4).1 = specRemoveP 4 f ∧ (f.detach 4).1 = specDetachP 4 f ∧
      (f.remove 4).1.content = [.node (.element 2) [.node (.attribute 5 ['v']) [], .node (.text ['w']) [],
        .node (.text ['x', 'y']) [], .node (.text ['z']) []], .node (.text ['r']) []] ∧
      (f.detach 4).1.content = [.node (.element 2) [.node (.attribute 5 ['v']) [], .node (.text ['w']) [],
        .node (.text ['x', 'y']) [], .node (.text ['z']) []], .node (.text ['r']) [],
        .node (.element 3) [.node (.text ['i']) [], .node (.text ['j']) []]] ∧
      (f.remove 4).1 ≠ specRemove Keep.earlier 4 f ∧
      (f.remove 3).1 = specRemoveP 3 f ∧
      (f.remove 3).1.content = [.node (.element 2) [.node (.attribute 5 ['v']) [], .node (.text ['w']) [],
        .node (.element 3) [.node (.text ['i']) [], .node (.text ['j']) []], .node (.text ['y']) [], .node (.text ['z']) []],
        .node (.text ['r']) []] ∧
      (f.remove 5).1 = specRemoveP 5 f ∧ (f.remove 1).1 = specRemoveP 1 f ∧ (f.detach 7).1 = specDetachP 7 f := by
  decide

end XotModel
