/-
  FframeGeneralUnwrap — the `get?`-form frame of `element_unwrap` (after `frame_specUnwrapP`,
  Lemmas/FspecFrameComposite.lean): a node that is neither the wrapper `n` nor its parent `p`, not a text child of
  either and not an attribute / namespace node of `n` keeps its value and the handles of its children.
-/
import XotModel.Lemmas.FframeGeneralMove

namespace XotModel
open HTree Spec PairAll

theorem textFree_of_parts {f : Forest} {z n : Nat} (h2 : z ≠ n) (h : z ∉ f.textKidHandles n) :
    TextFree f z (some n) :=
  textFree_of_not_mem (p := some n) (fun hm => by
    rcases List.mem_cons.1 hm with e | e
    · exact h2 e
    · exact h e)

theorem getFrame_specUnwrapP {f : Forest} {n p : Nat} (inv : f.Inv) (hp : f.parent? n = some p)
    {z : Nat} (h1 : z ≠ p) (h2 : z ≠ n) (hTp : TextFree f z (some p)) (hTn : z ∉ f.textKidHandles n)
    (hAb : z ∉ f.abnormalKidHandles n) :
    GetFrame f (specUnwrapP n f) z := by
  have nd := inv.nodup
  cases hctx : f.ctx? n with
  | none => rw [Forest.parent?_of_no_ctx hctx] at hp; cases hp
  | some cc =>
    obtain ⟨e0, vo, so⟩ := SiteAt.of_ctx nd hctx
    obtain ⟨po', l, W, r⟩ := cc
    simp only at e0 so
    subst e0
    have hpo' : po' = p := by
      rw [Forest.parent?_of_ctx hctx] at hp
      exact Option.some.inj hp
    subst hpo'
    obtain ⟨ndL, _⟩ := so.nodupKids
    obtain ⟨tl, tr⟩ := tops_ne_of_nodup ndL
    have hgW : f.get? W.handle = some W := so.getKid
    rw [specUnwrapP_kid hp]
    have hLZ := leafZ_of_textFree so inv.valid hTp
    have hWkids : LeafZ z W.kids ∧
        (∀ k ∈ W.kids, k.value.isNormal = false → find? z k = none) := by
      cases W with
      | node wh wv wks =>
        have sW : SiteAt f wh wv wks := ⟨nd, hgW⟩
        refine ⟨leafZ_of_textFree sW inv.valid (textFree_of_parts h2 hTn), ?_⟩
        intro k hk hkn
        obtain ⟨A, B, hAB⟩ := List.append_of_mem hk
        have sW' : SiteAt f wh wv (A ++ k :: B) := hAB ▸ sW
        have hkl : k.kids = [] := leaf_of_not_normal inv.valid sW'.getKid hkn
        apply find?_leaf hkl
        intro e
        apply hAb
        unfold Forest.abnormalKidHandles
        rw [hgW]
        exact List.mem_map.2 ⟨k, List.mem_filter.2 ⟨hk, by simp [hkn]⟩, e⟩
    obtain ⟨hLZW, hWabn⟩ := hWkids
    have hrep : replaceTop W.handle (fun w => w.kids.filter (fun k => k.value.isNormal)) (l ++ W :: r) =
        l ++ W.kids.filter (fun k => k.value.isNormal) ++ r := replaceTop_mid rfl tl
    have hLZ1 : LeafZ z (l ++ W.kids.filter (fun k => k.value.isNormal) ++ r) := by
      intro k hk hkt
      rcases List.mem_append.1 hk with hk' | hk'
      · rcases List.mem_append.1 hk' with hk'' | hk''
        · exact hLZ k (List.mem_append_left _ hk'') hkt
        · exact hLZW k (List.mem_filter.1 hk'').1 hkt
      · exact hLZ k (List.mem_append_right _ (List.mem_cons_of_mem _ hk')) hkt
    apply so.frameGet _ h1
    simp only [Function.comp]
    rw [hrep]
    have hLZ2 := leafZ_pairOpt f.consolidation ((f.nbOf W.handle).1,
      (((f.kidsOf W.handle).filter (fun k => k.value.isNormal)).head?.map (·.handle))) hLZ1
    have hLZ3 := leafZ_pairOpt f.consolidation
      ((((f.kidsOf W.handle).filter (fun k => k.value.isNormal)).getLast?.map (·.handle)), (f.nbOf W.handle).2) hLZ2
    rw [findList?_pairOpt _ _ hLZ3, findList?_pairOpt _ _ hLZ2, findList?_pairOpt _ _ hLZ1]
    rw [findList?_append, findList?_append, findList?_append, findList?_cons,
      Fmap.findList?_filter z _ W.kids hWabn]
    cases W with
    | node wh wv wks =>
      simp only [HTree.handle] at h2
      rw [find?_node, if_neg (fun e => h2 e.symm)]
      simp only [HTree.kids]
      cases findList? z l <;> rfl

theorem getFrame_unwrap_kid {f : Forest} {n p : Nat} (inv : f.Inv) (hok : (f.elementUnwrap n).2 = .ok)
    (hp : f.parent? n = some p) {z : Nat} (h2 : z ≠ n) (hwp : z ∉ f.siteW (some p))
    (hTn : z ∉ f.textKidHandles n) (hAb : z ∉ f.abnormalKidHandles n) :
    GetFrame f (f.elementUnwrap n).1 z := by
  rw [unwrap_pair inv hok]
  exact getFrame_specUnwrapP inv hp (fun e => hwp (by rw [e]; exact List.mem_cons_self ..)) h2
    (textFree_of_not_mem hwp) hTn hAb

end XotModel
