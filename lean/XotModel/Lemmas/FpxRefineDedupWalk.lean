/-
  FpxRefineDedup, part 4: the calls of ONE PASS of `deduplicate_namespaces` (`to_remove` of the traversal,
  paths turned into handles), given to `eraseWithout`, are the tree-level rebuild `dpWalk`
  (Lemmas/DedupWalk.lean; `dedupPass_eq`) of the erased subtree.

  * `dpRemH`: `to_remove` with handles instead of paths, by structural recursion (`dpRem` with handles);
    `dpRem_handles`: reading the paths of `dpRem` through `handleAt` gives `dpRemH`.
  * The tree-level pass removes LAST ENTRY FIRST (`removeOwn`: raw child indices shift), the forest-level
    one in traversal order: on one child list two removals commute (`removeNsKid_comm`), so both orders
    give the same list (`removeNsAllKids_eq_removeOwn`); removals on different nodes touch different child
    lists (`eraseWithout` is per node).
  * `eraseWithout_dpRemH`: `eraseWithout (dpRemH env K x) x = dpWalk env K x.erase`.
-/
import XotModel.Lemmas.FpxRefineDedupRun

namespace XotModel
open HTree

/-! ### Two removals on one child list commute -/

theorem removeNsKid_comm (p q : Nat) : ∀ ks : List Tree,
    removeNsKid p (removeNsKid q ks) = removeNsKid q (removeNsKid p ks)
  | [] => rfl
  | k :: ks => by
    have ih := removeNsKid_comm p q ks
    cases k with
    | node v kk =>
      by_cases hv : ∃ r x, v = .namespace r x
      · obtain ⟨r, x, rfl⟩ := hv
        by_cases hq : (r == q) = true <;> by_cases hp : (r == p) = true
        · have : p = q := by
            have h1 : r = q := by simpa using hq
            have h2 : r = p := by simpa using hp
            rw [← h1, ← h2]
          subst this; rfl
        · simp [removeNsKid, Tree.value, hq, hp]
        · simp [removeNsKid, Tree.value, hq, hp]
        · simp [removeNsKid, Tree.value, hq, hp, ih]
      · have h1 : ∀ s, removeNsKid s (Tree.node v kk :: ks) = Tree.node v kk :: ks := by
          intro s
          cases v <;> first | (exfalso; exact hv ⟨_, _, rfl⟩) | rfl
        rw [h1, h1, h1]

theorem removeNsAllKids_comm (p : Nat) : ∀ (ps : List Nat) (ks : List Tree),
    removeNsAllKids ps (removeNsKid p ks) = removeNsKid p (removeNsAllKids ps ks)
  | [], _ => rfl
  | q :: ps, ks => by
    show removeNsAllKids ps (removeNsKid q (removeNsKid p ks)) = removeNsKid p (removeNsAllKids ps (removeNsKid q ks))
    rw [removeNsKid_comm q p ks, removeNsAllKids_comm p ps]

/-- Traversal order and last-first order give the same child list. -/
theorem removeNsAllKids_eq_removeOwn : ∀ (ps : List Nat) (ks : List Tree),
    removeNsAllKids ps ks = removeOwn ps ks
  | [], _ => rfl
  | p :: ps, ks => by
    have h1 : removeOwn (p :: ps) ks = removeNsKid p (removeOwn ps ks) := by
      simp [removeOwn, List.foldl_append]
    rw [h1, ← removeNsAllKids_eq_removeOwn ps ks, ← removeNsAllKids_comm p ps ks]
    rfl

/-! ### `to_remove` with handles -/

mutual
  /-- `dpRem` (Lemmas/DedupWalk.lean) with the handle of the element in place of its path. -/
  def dpRemH (env : Env) (K : List (List (Nat × Nat))) : HTree → List (Nat × Nat)
    | .node h v ks =>
      if v.isElement then
        (dpRed env K (.node v (eraseList ks))).map (fun kv => (h, kv.1)) ++
          dpRemHList env (dpKeep env K (.node v (eraseList ks)) :: K) ks
      else dpRemHList env K ks
  def dpRemHList (env : Env) (K : List (List (Nat × Nat))) : List HTree → List (Nat × Nat)
    | [] => []
    | k :: ks => dpRemH env K k ++ dpRemHList env K ks
end

mutual
  theorem dpRemH_mem (env : Env) : ∀ (x : HTree) (K : List (List (Nat × Nat))),
      ∀ c ∈ dpRemH env K x, c.1 ∈ handles x
    | .node h v ks, K => by
      intro c hc
      unfold dpRemH at hc
      simp only [fi_handles_node, List.mem_cons]
      split at hc
      · rcases List.mem_append.mp hc with hc | hc
        · obtain ⟨kv, _, rfl⟩ := List.mem_map.mp hc
          exact Or.inl rfl
        · exact Or.inr (dpRemHList_mem env ks _ c hc)
      · exact Or.inr (dpRemHList_mem env ks _ c hc)
  theorem dpRemHList_mem (env : Env) : ∀ (ks : List HTree) (K : List (List (Nat × Nat))),
      ∀ c ∈ dpRemHList env K ks, c.1 ∈ handlesList ks
    | [], _ => by intro c hc; simp [dpRemHList] at hc
    | k :: ks, K => by
      intro c hc
      simp only [dpRemHList, List.mem_append] at hc
      simp only [fi_handlesList_cons, List.mem_append]
      rcases hc with hc | hc
      · exact Or.inl (dpRemH_mem env k K c hc)
      · exact Or.inr (dpRemHList_mem env ks K c hc)
end

/-- A removal entry read through the handles of `x`. -/
def rmHandle (x : HTree) (rm : Path × Nat) : Option (Nat × Nat) := (x.handleAt rm.1).map (fun h => (h, rm.2))

theorem filterMap_congr' {α β : Type} {f g : α → Option β} : ∀ l : List α, (∀ x ∈ l, f x = g x) →
    l.filterMap f = l.filterMap g
  | [], _ => rfl
  | a :: l, h => by
    simp only [List.filterMap_cons, h a (by simp), filterMap_congr' l (fun x hx => h x (by simp [hx]))]

mutual
  /-- **`to_remove`, paths read as handles, is `dpRemH`.** -/
  theorem dpRem_handles (env : Env) : ∀ (x : HTree) (K : List (List (Nat × Nat))),
      (dpRem env K x.erase).filterMap (rmHandle x) = dpRemH env K x
    | .node h v ks, K => by
      unfold dpRemH
      simp only [erase, dpRem]
      by_cases he : v.isElement = true
      · simp only [he, if_true, List.filterMap_append]
        rw [dpRemList_handles env ks (dpKeep env K (.node v (eraseList ks)) :: K) 0 h v ks
          (fun j k hk => by simpa using hk)]
        congr 1
        rw [List.filterMap_map, ← List.filterMap_eq_map']
        apply filterMap_congr'
        intro kv _
        simp [rmHandle, handleAt]
      · simp only [he, Bool.false_eq_true, if_false]
        exact dpRemList_handles env ks K 0 h v ks (fun j k hk => by simpa using hk)
  theorem dpRemList_handles (env : Env) : ∀ (ks : List HTree) (K : List (List (Nat × Nat))) (i : Nat)
      (h : Nat) (v : Value) (all : List HTree), (∀ j k, ks[j]? = some k → all[i + j]? = some k) →
      (dpRem.dpRemList env K i (eraseList ks)).filterMap (rmHandle (.node h v all)) = dpRemHList env K ks
    | [], _, _, _, _, _, _ => by simp [eraseList, dpRem.dpRemList, dpRemHList]
    | k :: ks, K, i, h, v, all, hall => by
      have hk : all[i]? = some k := by simpa using hall 0 k rfl
      have ih := dpRemList_handles env ks K (i + 1) h v all (fun j k' hj => by
        have := hall (j + 1) k' (by simpa using hj)
        rwa [show i + (j + 1) = i + 1 + j by omega] at this)
      simp only [eraseList, dpRem.dpRemList, dpRemHList, List.filterMap_append, ih, List.filterMap_map]
      congr 1
      rw [← dpRem_handles env k K]
      apply filterMap_congr'
      intro rm _
      simp [rmHandle, prefixRem, handleAt, hk]
end

/-! ### The pass, erased -/

theorem pfxsFor_own (h : Nat) (v : Value) (hv : v.isElement = true) (ds : List (Nat × Nat)) :
    pfxsFor (ds.map (fun kv => (h, kv.1))) h v = ds.map (·.1) := by
  unfold pfxsFor
  rw [if_pos hv]
  have : (ds.map (fun kv : Nat × Nat => (h, kv.1))).filter (fun c => c.1 == h) = ds.map (fun kv => (h, kv.1)) :=
    List.filter_eq_self.mpr (fun c hc => by
      obtain ⟨kv, _, rfl⟩ := List.mem_map.mp hc
      simp)
  rw [this, List.map_map]
  rfl

mutual
  /-- **The calls of one pass, erased, are `dpWalk`.** -/
  theorem eraseWithout_dpRemH (env : Env) : ∀ (x : HTree) (K : List (List (Nat × Nat))), (handles x).Nodup →
      eraseWithout (dpRemH env K x) x = dpWalk env K x.erase
    | .node h v ks, K, hnd => by
      simp only [fi_handles_node, List.nodup_cons] at hnd
      by_cases he : v.isElement = true
      · have hcs : dpRemH env K (.node h v ks) =
            (dpRed env K (.node v (eraseList ks))).map (fun kv => (h, kv.1)) ++
              dpRemHList env (dpKeep env K (.node v (eraseList ks)) :: K) ks := by
          unfold dpRemH; rw [if_pos he]
        rw [hcs]
        generalize hown : (dpRed env K (.node v (eraseList ks))).map (fun kv => (h, kv.1)) = own
        generalize hrest : dpRemHList env (dpKeep env K (.node v (eraseList ks)) :: K) ks = rest
        have hrest_mem : ∀ c ∈ rest, c.1 ∈ handlesList ks := by
          rw [← hrest]; exact dpRemHList_mem env ks _
        have hown_h : ∀ c ∈ own, c.1 = h := by
          rw [← hown]; intro c hc
          obtain ⟨kv, _, rfl⟩ := List.mem_map.mp hc
          rfl
        have h1 : pfxsFor (own ++ rest) h v = (dpRed env K (.node v (eraseList ks))).map (·.1) := by
          rw [pfxsFor_append, pfxsFor_not_mem rest h v (fun c hc e => hnd.1 (e ▸ hrest_mem c hc)),
            List.append_nil, ← hown, pfxsFor_own h v he]
        have h2 : eraseWithoutList (own ++ rest) ks = eraseWithoutList rest ks := by
          apply eraseWithoutList_congr
          intro x hx v'
          rw [pfxsFor_append, pfxsFor_not_mem own x v' (fun c hc e => hnd.1 (by rw [← hown_h c hc, e]; exact hx)),
            List.nil_append]
        have h3 := eraseWithoutList_dpRemH env ks (dpKeep env K (.node v (eraseList ks)) :: K) hnd.2
        rw [hrest] at h3
        simp only [eraseWithout, h1, h2, h3, removeNsAll_node, removeNsAllKids_eq_removeOwn, erase, dpWalk, he,
          if_true]
      · have he' : v.isElement = false := by simpa using he
        have hcs : dpRemH env K (.node h v ks) = dpRemHList env K ks := by
          unfold dpRemH; rw [if_neg he]
        rw [hcs, eraseWithout_nonElement _ h v ks he', eraseWithoutList_dpRemH env ks K hnd.2]
        simp only [erase, dpWalk, he', Bool.false_eq_true, if_false]
  theorem eraseWithoutList_dpRemH (env : Env) : ∀ (ks : List HTree) (K : List (List (Nat × Nat))),
      (handlesList ks).Nodup → eraseWithoutList (dpRemHList env K ks) ks = dpWalk.dpWalkList env K (eraseList ks)
    | [], _, _ => rfl
    | k :: ks, K, hnd => by
      simp only [fi_handlesList_cons, List.nodup_append] at hnd
      have hA := dpRemH_mem env k K
      have hB := dpRemHList_mem env ks K
      have h1 : eraseWithout (dpRemH env K k ++ dpRemHList env K ks) k = eraseWithout (dpRemH env K k) k := by
        apply eraseWithout_congr
        intro x hx v
        rw [pfxsFor_append, pfxsFor_not_mem (dpRemHList env K ks) x v
          (fun c hc e => hnd.2.2 x hx x (e ▸ hB c hc) rfl), List.append_nil]
      have h2 : eraseWithoutList (dpRemH env K k ++ dpRemHList env K ks) ks =
          eraseWithoutList (dpRemHList env K ks) ks := by
        apply eraseWithoutList_congr
        intro x hx v
        rw [pfxsFor_append, pfxsFor_not_mem (dpRemH env K k) x v
          (fun c hc e => hnd.2.2 x (e ▸ hA c hc) x hx rfl), List.nil_append]
      simp only [dpRemHList, eraseWithoutList, eraseList, dpWalk.dpWalkList, h1, h2,
        eraseWithout_dpRemH env k K hnd.1, eraseWithoutList_dpRemH env ks K hnd.2.1]
end

end XotModel
