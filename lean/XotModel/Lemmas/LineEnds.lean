/-
  XotModel.Lemmas.LineEnds — line-end normalisation (`normalizeLineEnds`, Model/Parse.lean) on a
  string without CR is the identity; it never produces a CR; it keeps XML Chars.
-/
import XotModel.Model.Parse

namespace XotModel

theorem normalizeLineEnds_nil : normalizeLineEnds [] = [] := by
  simp [normalizeLineEnds, replaceCrLf, replaceCr]

private theorem crlf_id : ∀ (s : Str), '\r' ∉ s → replaceCrLf s = s
  | [], _ => by simp [replaceCrLf]
  | [c], _ => by simp [replaceCrLf]
  | c :: d :: rest, h => by
    have hc : c ≠ '\r' := fun e => h (by simp [e])
    have ih := crlf_id (d :: rest) (fun hm => h (List.mem_cons_of_mem _ hm))
    simp only [replaceCrLf, hc, false_and, if_false, ih]

private theorem cr_id (s : Str) (h : '\r' ∉ s) : replaceCr s = s := by
  unfold replaceCr
  induction s with
  | nil => rfl
  | cons c rest ih =>
    have hc : c ≠ '\r' := fun e => h (by simp [e])
    simp only [List.map_cons, hc, if_false, ih (fun hm => h (List.mem_cons_of_mem _ hm))]

/-- Without a CR there is nothing to normalise. -/
theorem normalizeLineEnds_noCr (s : Str) (h : '\r' ∉ s) : normalizeLineEnds s = s := by
  unfold normalizeLineEnds
  rw [crlf_id s h, cr_id s h]

theorem normalizeLineEnds_noCr' (s : Str) (h : s.contains '\r' = false) : normalizeLineEnds s = s :=
  normalizeLineEnds_noCr s (by simpa using h)

/-- The normalised text contains no CR. -/
theorem normalizeLineEnds_no_cr (s : Str) : '\r' ∉ normalizeLineEnds s := by
  unfold normalizeLineEnds replaceCr
  intro h
  simp only [List.mem_map] at h
  obtain ⟨c, _, hc⟩ := h
  split at hc
  · exact absurd hc (by decide)
  · rename_i hne; exact hne hc

/-- Normalising twice changes nothing more. -/
theorem normalizeLineEnds_idem (s : Str) : normalizeLineEnds (normalizeLineEnds s) = normalizeLineEnds s :=
  normalizeLineEnds_noCr _ (normalizeLineEnds_no_cr s)

end XotModel
