/-
  FspecAllList — list-level and site-level facts about the pair merges (`mergeAdj`, `mergeNew`,
  `Forest.mergeLeftAt`, `Forest.mergeNewAt`) used by the pair-reading proofs for `element_unwrap`,
  `replace`, for `specMoveP = specMove` on forests without adjacent text, and for the frames.
-/
import XotModel.Lemmas.FspecPair
import XotModel.Lemmas.FspecUnwrap

namespace XotModel
open HTree Spec

namespace PairAll

/-- Children in different parts of a child list with distinct handles. -/
theorem handle_ne_of_nodup_append {X Y : List HTree} (nd : (handlesList (X ++ Y)).Nodup) {x y : HTree}
    (hx : x ∈ X) (hy : y ∈ Y) : x.handle ≠ y.handle := by
  rw [fs_handlesList_append] at nd
  exact (List.nodup_append.1 nd).2.2 _ (handle_mem_handlesList hx) _ (handle_mem_handlesList hy)

/-! ### `mergeAdj` -/

/-- `a` stands in the list, but the child behind it (if any) is not `b`: nothing is merged. -/
theorem mergeAdj_sep {A : HTree} {b : Nat} (Y : List HTree)
    (hhead : ∀ c, Y.head? = some c → c.handle ≠ b) (hY : ∀ x ∈ Y, x.handle ≠ A.handle) :
    ∀ (X : List HTree), (∀ x ∈ X, x.handle ≠ A.handle) →
      mergeAdj A.handle b (X ++ A :: Y) = X ++ A :: Y
  | [], _ => by
    simp only [List.nil_append]
    cases Y with
    | nil => exact mergeAdj_single _ _ _
    | cons c Y' =>
      rw [mergeAdj_cons_cons, if_neg (fun e => hhead c rfl e.2), mergeAdj_of_not_top (c :: Y') hY]
  | x :: X, h => by
    have hx : x.handle ≠ A.handle := h x (by simp)
    have ih := mergeAdj_sep Y hhead hY X (fun y hy => h y (List.mem_cons_of_mem _ hy))
    cases X with
    | nil =>
      simp only [List.nil_append, List.cons_append] at ih ⊢
      rw [mergeAdj_cons_cons, if_neg (fun e => hx e.1), ih]
    | cons x' X' =>
      simp only [List.cons_append] at ih ⊢
      rw [mergeAdj_cons_cons, if_neg (fun e => hx e.1), ih]

/-- No child has handle `b`: nothing is merged. -/
theorem mergeAdj_no_b {a b : Nat} : ∀ (L : List HTree), (∀ x ∈ L, x.handle ≠ b) → mergeAdj a b L = L
  | [], _ => mergeAdj_nil a b
  | [x], _ => mergeAdj_single a b x
  | x :: y :: rest, h => by
    rw [mergeAdj_cons_cons, if_neg (fun e => h y (by simp) e.2),
      mergeAdj_no_b (y :: rest) (fun z hz => h z (List.mem_cons_of_mem _ hz))]

theorem handlesList_joinLeft {x y j : HTree} (h : joinLeft x y = some j) : handles j = handles x := by
  unfold joinLeft at h
  split at h
  · cases h; exact setValue_handles _ _
  · cases h

/-- A pair merge neither invents nor duplicates handles. -/
theorem handlesList_mergeAdj_sublist (a b : Nat) : ∀ L : List HTree,
    (handlesList (mergeAdj a b L)).Sublist (handlesList L)
  | [] => by rw [mergeAdj_nil]; exact List.Sublist.refl _
  | [x] => by rw [mergeAdj_single]; exact List.Sublist.refl _
  | x :: y :: rest => by
    rw [mergeAdj_cons_cons]
    split
    · cases hj : joinLeft x y with
      | none => exact List.Sublist.refl _
      | some j =>
        simp only [Option.map_some, Option.getD_some]
        rw [handlesList_cons, handlesList_cons, handlesList_cons, handlesList_joinLeft hj]
        exact (List.Sublist.refl _).append (List.sublist_append_right _ _)
    · rw [handlesList_cons, handlesList_cons (k := x)]
      exact (List.Sublist.refl _).append (handlesList_mergeAdj_sublist a b (y :: rest))

end PairAll

/-! ### The pair merge at a site -/

namespace Forest

theorem mergeLeftAt_right_none (f : Forest) (s : Option Nat) (a : Option Nat) : f.mergeLeftAt s (a, none) = f := by
  cases s with
  | none => rfl
  | some p => exact mergeLeftAt_none_right f p a

theorem mergeLeftAt_left_none (f : Forest) (s : Option Nat) (b : Option Nat) : f.mergeLeftAt s (none, b) = f := by
  cases s with
  | none => rfl
  | some p => exact mergeLeftAt_none_left f p b

end Forest

namespace SiteAt

/-- The pair merge at a site, with consolidation on, as a constant edit of the child list. -/
theorem mergeLeftAt_on {g : Forest} {p : Nat} {v : Value} {L : List HTree} (s : SiteAt g p v L)
    (hc : g.consolidation = true) (a b : Nat) :
    g.mergeLeftAt (some p) (some a, some b) = g.editAt (some p) (fun _ => mergeAdj a b L) := by
  rw [Forest.mergeLeftAt_some, hc, if_pos rfl]
  exact s.congr rfl

/-- A constant edit that is the identity on the actual child list. -/
theorem edit_const_self {g : Forest} {p : Nat} {v : Value} {L : List HTree} (s : SiteAt g p v L) :
    g.editAt (some p) (fun _ => L) = g := by
  rw [s.congr (g := fun _ => L) (g' := id) rfl, Forest.editAt_id]

/-- The site after a pair merge. -/
theorem mergeLeftAt_site {g : Forest} {p : Nat} {v : Value} {L : List HTree} (s : SiteAt g p v L)
    (hc : g.consolidation = true) (a b : Nat) :
    SiteAt (g.mergeLeftAt (some p) (some a, some b)) p v (mergeAdj a b L) := by
  rw [s.mergeLeftAt_on hc]
  exact s.edit (fun _ => mergeAdj a b L) (PairAll.handlesList_mergeAdj_sublist a b L)

end SiteAt

end XotModel
