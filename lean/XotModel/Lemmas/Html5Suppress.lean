/-
  What `html_matches_suppress` (html5_serializer.rs; `htmlMatchesSuppress` of Model/Html5) computes, for
  every suppress list: the loop has two `return false` that leave the whole search, so
    * for an element in the HTML namespaces only the listed names BEFORE the first name outside the HTML
      namespaces count (compared by local name up to ASCII case, no namespace and `XHTML_NS` being one class);
    * for an element outside the HTML namespaces only the FIRST listed name counts (compared by id).
  Helper lemmas of C19_suppress_* (family prefix `c19sup_`).
-/
import XotModel.Model.Html5

namespace XotModel

theorem c19sup_takeWhile_all {α : Type} (p : α → Bool) :
    ∀ (l : List α), (∀ x ∈ l, p x = true) → l.takeWhile p = l
  | [], _ => rfl
  | x :: l, h => by
    rw [List.takeWhile_cons, h x (by simp), if_pos rfl,
      c19sup_takeWhile_all p l (fun y hy => h y (by simp [hy]))]

/-- The function, closed form, every list. -/
theorem c19sup_exact (h : Html5Elements) (env : Env) (sup : List Nat) (name : Nat) :
    htmlMatchesSuppress h env sup name =
      if h.isHtmlNamespace (env.nsOfName name) then
        (sup.takeWhile (fun s => h.isHtmlNamespace (env.nsOfName s))).any
          (fun s => asciiLower (env.localName s) == asciiLower (env.localName name))
      else sup.head? == some name := by
  induction sup with
  | nil => simp [htmlMatchesSuppress]
  | cons s rest ih =>
    simp only [htmlMatchesSuppress, ih]
    by_cases hn : h.isHtmlNamespace (env.nsOfName name) = true
    · by_cases hs : h.isHtmlNamespace (env.nsOfName s) = true
      · by_cases he : name = s
        · subst he; simp [hn]
        · by_cases hl : asciiLower (env.localName s) = asciiLower (env.localName name)
          · simp [hn, hs, he, hl]
          · simp [hn, hs, he, hl]
      · have he : name ≠ s := fun he => hs (he ▸ hn)
        simp [hn, hs, he]
    · by_cases he : name = s
      · subst he; simp [hn]
      · have he' : ¬ s = name := fun x => he x.symm
        simp [hn, he, he']

/-- A list all of whose names are in the HTML namespaces. -/
theorem c19sup_html_list (h : Html5Elements) (env : Env) (sup : List Nat) (name : Nat)
    (hall : ∀ s ∈ sup, h.isHtmlNamespace (env.nsOfName s) = true) :
    htmlMatchesSuppress h env sup name =
      (h.isHtmlNamespace (env.nsOfName name) &&
        sup.any (fun s => asciiLower (env.localName s) == asciiLower (env.localName name))) := by
  rw [c19sup_exact, c19sup_takeWhile_all _ sup hall]
  by_cases hn : h.isHtmlNamespace (env.nsOfName name) = true
  · simp [hn]
  · simp only [hn, Bool.false_eq_true, if_false, Bool.false_and]
    cases sup with
    | nil => rfl
    | cons s rest =>
      have hs := hall s (by simp)
      have : s ≠ name := fun he => hn (he ▸ hs)
      simp [this]

end XotModel
