/-
  The document branch of `create_missing_prefixes`: the element children are repaired one after the
  other; a call on one child leaves its siblings and the declarations of the ancestors alone, so
  what each call establishes is still true at the end.
-/
import XotModel.Lemmas.RepairUnique

namespace XotModel.Repair
open XotModel

/-- A tree whose names are writable from the declarations the element inherits: the call is the
    identity. -/
theorem repairElement_of_ok (env : Env) (t : Tree) (q : Path) (E : Tree) (hat : t.at? q = some E)
    (hok : okRec env.nsOfName (inheritedDecls t q) E = true) : repairElement env t q = .ok (env, t) := by
  rw [repairElement_eq env t q E hat]
  obtain ⟨c1, _⟩ := collect_of_ok env.nsOfName E (inheritedDecls t q) q ⟨[], [], []⟩ hok
  rw [c1]
  simp only [assignPrefixes]
  rw [rebuild_of_ok env.nsOfName E true _ hok, scopeModifyAt_id q t E hat]

theorem getElem?_modify_ne {α : Type} (l : List α) (i j : Nat) (g : α → α) (h : i ≠ j) :
    (l.modify j g)[i]? = l[i]? := by
  induction l generalizing i j with
  | nil => simp
  | cons a l ih =>
    cases j with
    | zero =>
      cases i with
      | zero => exact absurd rfl h
      | succ i => simp
    | succ j =>
      cases i with
      | zero => simp
      | succ i => simp only [List.modify_succ_cons, List.getElem?_cons_succ]; exact ih i j (by omega)

/-- A modification below one child is not seen below another. -/
theorem at?_scopeModifyAt_sibling (f : Tree → Tree) : ∀ (path : Path) (t : Tree) (i j : Nat) (r : Path),
    i ≠ j → (scopeModifyAt f t (path ++ [j])).at? (path ++ i :: r) = t.at? (path ++ i :: r)
  | [], .node v ks, i, j, r, h => by
    simp only [List.nil_append]
    rw [scopeModifyAt_cons, at?_cons, at?_cons, getElem?_modify_ne ks i j _ h]
  | k :: path, .node v ks, i, j, r, h => by
    simp only [List.cons_append]
    rw [scopeModifyAt_cons, at?_cons, at?_cons]
    cases hk : ks[k]? with
    | none => rw [modify_eq_of_none _ _ _ hk, hk]
    | some c =>
      have hlt : k < ks.length := by
        rcases Nat.lt_or_ge k ks.length with h' | h'
        · exact h'
        · rw [List.getElem?_eq_none h'] at hk; cases hk
      rw [modify_eq_set _ _ _ c hk, List.getElem?_set_self hlt]
      simp only [Option.bind_some]
      exact at?_scopeModifyAt_sibling f path c i j r h

/-- The declarations a child of the node at `path` inherits. -/
theorem inheritedDecls_child (t : Tree) (path : Path) (i : Nat) :
    inheritedDecls t (path ++ [i]) = (namespacesInScope t path).getD [] := by
  unfold inheritedDecls
  have hne : (path ++ [i]).isEmpty = false := by cases path <;> rfl
  simp only [hne, Bool.false_eq_true, if_false, List.dropLast_concat]

theorem namespacesInScope_scopeModifyAt_child (f : Tree → Tree) (t : Tree) (path : Path) (i : Nat)
    (h : ∀ x, t.at? (path ++ [i]) = some x → (f x).value = x.value) :
    namespacesInScope (scopeModifyAt f t (path ++ [i])) path = namespacesInScope t path := by
  have hmap := ancestors_scopeModifyAt_below f path i [] t h
  unfold namespacesInScope
  cases h1 : (scopeModifyAt f t (path ++ [i])).ancestorsOrSelf path with
  | none =>
    rw [h1] at hmap
    cases h2 : t.ancestorsOrSelf path with
    | none => rfl
    | some c => rw [h2] at hmap; cases hmap
  | some c1 =>
    rw [h1] at hmap
    cases h2 : t.ancestorsOrSelf path with
    | none => rw [h2] at hmap; cases hmap
    | some c2 =>
      rw [h2] at hmap
      simp only [Option.map_some, Option.some.injEq] at hmap ⊢
      exact namespacesInScopeChain_congr c1 c2 hmap

/-- The node at `path` keeps its value and the values of its children when one child is modified
    by a value-preserving function. -/
theorem node_scopeModifyAt_child (f : Tree → Tree) : ∀ (path : Path) (t : Tree) (i : Nat),
    (∀ x, t.at? (path ++ [i]) = some x → (f x).value = x.value) →
    ((scopeModifyAt f t (path ++ [i])).at? path).map (fun d => (d.value, d.kids.map Tree.value)) =
      (t.at? path).map (fun d => (d.value, d.kids.map Tree.value))
  | [], .node v ks, i, h => by
    simp only [List.nil_append]
    rw [scopeModifyAt_cons]
    simp only [Tree.at?, Option.map_some, Tree.value, Tree.kids, Option.some.injEq, Prod.mk.injEq, true_and]
    apply map_value_modify
    intro k hk
    rw [scopeModifyAt_nil]
    exact h k (by simp only [List.nil_append]; rw [at?_cons, hk]; rfl)
  | k :: path, .node v ks, i, h => by
    simp only [List.cons_append]
    rw [scopeModifyAt_cons, at?_cons, at?_cons]
    cases hk : ks[k]? with
    | none => rw [modify_eq_of_none _ _ _ hk, hk]
    | some c =>
      have hlt : k < ks.length := by
        rcases Nat.lt_or_ge k ks.length with h' | h'
        · exact h'
        · rw [List.getElem?_eq_none h'] at hk; cases hk
      rw [modify_eq_set _ _ _ c hk, List.getElem?_set_self hlt]
      simp only [Option.bind_some]
      exact node_scopeModifyAt_child f path c i
        (fun x hx => h x (by simp only [List.cons_append]; rw [at?_cons, hk]; exact hx))

/-- What the loop over the element children establishes. -/
structure DocFacts (env : Env) (t : Tree) (path : Path) (is : List Nat) (env' : Env) (t' : Tree) : Prop where
  names : env'.names = env.names
  namespaces : env'.namespaces = env.namespaces
  envOk : EnvOk env'
  frame : stripNs t' = stripNs t
  unique : UniqueBelow t → UniqueBelow t'
  scope : namespacesInScope t' path = namespacesInScope t path
  node : (t'.at? path).map (fun d => (d.value, d.kids.map Tree.value)) =
    (t.at? path).map (fun d => (d.value, d.kids.map Tree.value))
  others : ∀ j, j ∉ is → ∀ r, t'.at? (path ++ j :: r) = t.at? (path ++ j :: r)
  repaired : ∀ i ∈ is, ∃ name ks', t'.at? (path ++ [i]) = some (.node (.element name) ks') ∧
    okRec env.nsOfName ((namespacesInScope t path).getD []) (.node (.element name) ks') = true

theorem repairElements_facts (path : Path) : ∀ (is : List Nat) (env : Env) (t : Tree) (env' : Env) (t' : Tree),
    is.Nodup → EnvOk env →
    (∀ i ∈ is, ∃ name ks, t.at? (path ++ [i]) = some (.node (.element name) ks) ∧
      UniqueBelow (.node (.element name) ks)) →
    repairElements is path env t = .ok (env', t') → DocFacts env t path is env' t'
  | [], env, t, env', t', _, hok, _, h => by
    simp only [repairElements, Outcome.ok.injEq, Prod.mk.injEq] at h
    obtain ⟨rfl, rfl⟩ := h
    exact ⟨rfl, rfl, hok, rfl, id, rfl, rfl, fun _ _ _ => rfl, fun i hi => by cases hi⟩
  | i0 :: is, env, t, env', t', hnd, hok, hel, h => by
    simp only [repairElements] at h
    obtain ⟨name, ks, hat0, hu0⟩ := hel i0 (by simp)
    cases h0 : repairElement env t (path ++ [i0]) with
    | err e => rw [h0] at h; cases h
    | panic => rw [h0] at h; cases h
    | ok r =>
      obtain ⟨env1, t1⟩ := r
      rw [h0] at h
      simp only at h
      have hf := repairElement_facts env hok t (path ++ [i0]) name ks hat0 hu0 env1 t1 h0
      obtain ⟨nd, hat1, ht1, _, _, _, _, hokE⟩ := hf.nd
      have hval : ∀ x, t.at? (path ++ [i0]) = some x →
          ((fun _ => rebuild env.nsOfName nd true (inheritedDecls t (path ++ [i0])) (.node (.element name) ks)) x).value
            = x.value := by
        intro x hx; rw [hat0] at hx; cases hx; exact value_rebuild _ _ _ _ _
      simp only [List.nodup_cons] at hnd
      have hsib : ∀ i, i ≠ i0 → ∀ r, t1.at? (path ++ i :: r) = t.at? (path ++ i :: r) := by
        intro i hi r; rw [ht1]; exact at?_scopeModifyAt_sibling _ path t i i0 r hi
      have hscope1 : namespacesInScope t1 path = namespacesInScope t path := by
        rw [ht1]; exact namespacesInScope_scopeModifyAt_child _ t path i0 hval
      have hnode1 := node_scopeModifyAt_child _ path t i0 hval
      rw [← ht1] at hnode1
      have hel1 : ∀ i ∈ is, ∃ name ks, t1.at? (path ++ [i]) = some (.node (.element name) ks) ∧
          UniqueBelow (.node (.element name) ks) := by
        intro i hi
        obtain ⟨nm, ks', h1, h2⟩ := hel i (by simp [hi])
        have hne : i ≠ i0 := fun he => hnd.1 (he ▸ hi)
        exact ⟨nm, ks', by rw [hsib i hne []]; exact h1, h2⟩
      have ih := repairElements_facts path is env1 t1 env' t' hnd.2 hf.envOk hel1 h
      have hns1 : env1.nsOfName = env.nsOfName := nsOfName_congr hf.names
      refine ⟨ih.names.trans hf.names, ih.namespaces.trans hf.namespaces, ih.envOk,
        ih.frame.trans (facts_frame hat0 hf), fun hu => ih.unique (facts_unique hat0 hf hu),
        ih.scope.trans hscope1, ih.node.trans hnode1, ?_, ?_⟩
      · intro j hj r
        simp only [List.mem_cons, not_or] at hj
        rw [ih.others j hj.2 r, hsib j hj.1 r]
      · intro i hi
        rcases List.mem_cons.mp hi with rfl | hi
        · have hv : (rebuild env.nsOfName nd true (inheritedDecls t (path ++ [i])) (.node (.element name) ks)).value
              = .element name := by rw [value_rebuild]; rfl
          rw [inheritedDecls_child] at hokE hat1 hv
          generalize rebuild env.nsOfName nd true ((namespacesInScope t path).getD []) (.node (.element name) ks) = E'
            at hokE hat1 hv
          cases E' with
          | node v' ks' =>
            simp only [Tree.value] at hv
            subst hv
            exact ⟨name, ks', by rw [ih.others i hnd.1 []]; exact hat1, hokE⟩
        · obtain ⟨nm, ks', h1, h2⟩ := ih.repaired i hi
          exact ⟨nm, ks', h1, by rw [hns1, hscope1] at h2; exact h2⟩

/-- Children that are already fine: the loop changes nothing. -/
theorem repairElements_of_ok (path : Path) (env : Env) (t : Tree) : ∀ (is : List Nat),
    (∀ i ∈ is, ∃ E, t.at? (path ++ [i]) = some E ∧
      okRec env.nsOfName ((namespacesInScope t path).getD []) E = true) →
    repairElements is path env t = .ok (env, t)
  | [], _ => rfl
  | i :: is, h => by
    obtain ⟨E, hat, hok⟩ := h i (by simp)
    simp only [repairElements]
    rw [repairElement_of_ok env t (path ++ [i]) E hat (by rw [inheritedDecls_child]; exact hok)]
    exact repairElements_of_ok path env t is (fun j hj => h j (by simp [hj]))

theorem elementKidIndices_congr {ks ks' : List Tree} (h : ks.map Tree.value = ks'.map Tree.value) :
    elementKidIndices ks = elementKidIndices ks' := by
  unfold elementKidIndices
  have hlen : ks.length = ks'.length := by simpa using congrArg List.length h
  rw [hlen]
  apply List.filter_congr
  intro i _
  have : (ks.map Tree.value)[i]? = (ks'.map Tree.value)[i]? := by rw [h]
  simp only [List.getElem?_map] at this
  cases h1 : ks[i]? <;> cases h2 : ks'[i]? <;> simp_all

theorem elementKidIndices_nodup (ks : List Tree) : (elementKidIndices ks).Nodup := by
  unfold elementKidIndices
  exact (List.nodup_range).sublist List.filter_sublist

theorem mem_elementKidIndices {ks : List Tree} {i : Nat} :
    i ∈ elementKidIndices ks ↔ ∃ k, ks[i]? = some k ∧ k.value.isElement = true := by
  unfold elementKidIndices
  simp only [List.mem_filter, List.mem_range]
  constructor
  · rintro ⟨_, h2⟩
    cases hk : ks[i]? with
    | none => simp [hk] at h2
    | some k => exact ⟨k, rfl, by simpa [hk] using h2⟩
  · rintro ⟨k, hk, hv⟩
    refine ⟨?_, by simp [hk, hv]⟩
    rcases Nat.lt_or_ge i ks.length with h | h
    · exact h
    · rw [List.getElem?_eq_none h] at hk; cases hk

theorem okKids_iff (nsOf : Nat → Nat) (top : List (Nat × Nat)) : ∀ (ks : List Tree),
    okKids nsOf top ks = true ↔ ∀ (i : Nat) (k : Tree), ks[i]? = some k → okRec nsOf top k = true
  | [] => by simp [okKids]
  | k0 :: ks => by
    simp only [okKids, Bool.and_eq_true, okKids_iff nsOf top ks]
    constructor
    · rintro ⟨h1, h2⟩ i k hk
      cases i with
      | zero => simp at hk; subst hk; exact h1
      | succ i => exact h2 i k (by simpa using hk)
    · intro h
      exact ⟨h 0 k0 rfl, fun i k hk => h (i + 1) k (by simpa using hk)⟩

theorem at?_child (t : Tree) (path : Path) (i : Nat) (d : Tree) (h : t.at? path = some d) :
    t.at? (path ++ [i]) = d.kids[i]? := by
  rw [at?_append, h]
  cases d with
  | node v ks =>
    simp only [Tree.kids]
    rw [at?_cons]
    cases hk : ks[i]? <;> simp [Tree.at?]

/-! ### The document branch -/

theorem isElement_node {k : Tree} (h : k.value.isElement = true) : ∃ name ks, k = .node (.element name) ks := by
  cases k with
  | node v ks =>
    cases v <;> simp [Tree.value, Value.isElement] at h
    exact ⟨_, ks, rfl⟩

theorem createMissingPrefixes_document (env : Env) (t : Tree) (path : Path) (doc : Tree)
    (hat : t.at? path = some doc) (hdoc : doc.value.isDocument = true) (env' : Env) (t' : Tree)
    (h : createMissingPrefixes env t path = .ok (env', t')) :
    elementKidIndices doc.kids ≠ [] ∧
      repairElements (elementKidIndices doc.kids) path env t = .ok (env', t') := by
  unfold createMissingPrefixes at h
  simp only [hat, hdoc, if_true] at h
  cases he : (elementKidIndices doc.kids).isEmpty with
  | true => simp [he] at h
  | false =>
    simp only [he, Bool.false_eq_true, if_false] at h
    exact ⟨by intro hn; simp [hn] at he, h⟩

theorem document_facts (env : Env) (hok : EnvOk env) (t : Tree) (path : Path) (doc : Tree)
    (hat : t.at? path = some doc) (hdoc : doc.value.isDocument = true)
    (hu : ∀ (i : Nat) (k : Tree), doc.kids[i]? = some k → k.value.isElement = true → UniqueBelow k)
    (env' : Env) (t' : Tree) (h : createMissingPrefixes env t path = .ok (env', t')) :
    DocFacts env t path (elementKidIndices doc.kids) env' t' := by
  obtain ⟨_, hrun⟩ := createMissingPrefixes_document env t path doc hat hdoc env' t' h
  apply repairElements_facts path _ env t env' t' (elementKidIndices_nodup _) hok _ hrun
  intro i hi
  obtain ⟨k, hk, hv⟩ := mem_elementKidIndices.mp hi
  obtain ⟨name, ks, rfl⟩ := isElement_node hv
  exact ⟨name, ks, by rw [at?_child t path i doc hat]; exact hk, hu i _ hk hv⟩

theorem docFacts_node {env : Env} {t : Tree} {path : Path} {is : List Nat} {env' : Env} {t' : Tree}
    (hf : DocFacts env t path is env' t') (doc : Tree) (hat : t.at? path = some doc) :
    ∃ doc', t'.at? path = some doc' ∧ doc'.value = doc.value ∧
      doc'.kids.map Tree.value = doc.kids.map Tree.value := by
  have := hf.node
  rw [hat] at this
  cases h' : t'.at? path with
  | none => rw [h'] at this; cases this
  | some doc' =>
    rw [h'] at this
    simp only [Option.map_some, Option.some.injEq, Prod.mk.injEq] at this
    exact ⟨doc', rfl, this.1, this.2⟩

/-- After the call on a document whose other children are leaves the serialiser finds a prefix for
    every name. -/
theorem docFacts_writable {env : Env} {t : Tree} {path : Path} {env' : Env} {t' : Tree} (doc : Tree)
    (hat : t.at? path = some doc) (hdoc : doc.value.isDocument = true)
    (hleaf : ∀ (i : Nat) (k : Tree), doc.kids[i]? = some k → k.value.isElement = false → k.kids = [])
    (hf : DocFacts env t path (elementKidIndices doc.kids) env' t') :
    namesWritable env' t' path = some true := by
  obtain ⟨doc', hat', hv', hk'⟩ := docFacts_node hf doc hat
  obtain ⟨rest', hc'⟩ := ancestorsOrSelf_of_at? t' path doc' hat'
  unfold namesWritable
  rw [hc', hat']
  simp only [Option.some.injEq]
  rw [namesWritableChain_eq, nsOfName_congr hf.names]
  have hscope : namespacesInScopeChain (doc' :: rest') = (namespacesInScope t path).getD [] := by
    have h1 : namespacesInScope t' path = some (namespacesInScopeChain (doc' :: rest')) := by
      simp [namespacesInScope, hc']
    rw [← hf.scope, h1]; rfl
  rw [hscope]
  have hdv : doc'.value.isElement = false := by
    rw [hv']; cases hd : doc.value <;> simp_all [Value.isDocument, Value.isElement]
  cases doc' with
  | node v' ks' =>
    rw [okRec_other _ _ v' ks' hdv, okKids_iff]
    intro j k' hk
    have hatj : t'.at? (path ++ [j]) = some k' := by rw [at?_child t' path j _ hat']; exact hk
    by_cases hj : j ∈ elementKidIndices doc.kids
    · obtain ⟨nm, ks2, h1, h2⟩ := hf.repaired j hj
      rw [hatj] at h1
      cases h1
      exact h2
    · have := hf.others j hj []
      rw [hatj, at?_child t path j doc hat] at this
      have hne : k'.value.isElement = false := by
        cases hve : k'.value.isElement with
        | false => rfl
        | true => exact absurd (mem_elementKidIndices.mpr ⟨k', this.symm, hve⟩) hj
      have hkids := hleaf j k' this.symm hne
      cases k' with
      | node kv kk =>
        simp only [Tree.kids] at hkids
        subst hkids
        rw [okRec_other _ _ kv [] hne]
        rfl

/-- A second call on the document is the identity. -/
theorem docFacts_idem {env : Env} {t : Tree} {path : Path} {env' : Env} {t' : Tree} (doc : Tree)
    (hat : t.at? path = some doc) (hdoc : doc.value.isDocument = true)
    (hne : elementKidIndices doc.kids ≠ [])
    (hf : DocFacts env t path (elementKidIndices doc.kids) env' t') :
    createMissingPrefixes env' t' path = .ok (env', t') := by
  obtain ⟨doc', hat', hv', hk'⟩ := docFacts_node hf doc hat
  unfold createMissingPrefixes
  simp only [hat', hv', hdoc, if_true, elementKidIndices_congr hk']
  have : (elementKidIndices doc.kids).isEmpty = false := by
    cases h : elementKidIndices doc.kids with
    | nil => exact absurd h hne
    | cons _ _ => rfl
  simp only [this, Bool.false_eq_true, if_false]
  apply repairElements_of_ok
  intro i hi
  obtain ⟨nm, ks2, h1, h2⟩ := hf.repaired i hi
  exact ⟨_, h1, by rw [hf.scope, nsOfName_congr hf.names]; exact h2⟩

end XotModel.Repair
